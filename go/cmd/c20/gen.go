package main

// Generators: for each datatype strings from its XSD lexical grammar (canonical and decorated),
// canonical forms at the boundaries of the Go type, a hand-picked corpus of strings on the
// boundary between the XSD language and the strconv/time languages, and byte-level mutations.

import (
	"encoding/base64"
	"fmt"
	"math"
	"math/big"
	"strconv"
	"strings"

	"verifharness/vh"
)

type gcase struct {
	s             string
	canonical     bool // canonical lexical form …
	representable bool // … of a value the Go type can represent
}

func digitsN(r *vh.Rng, n int) string {
	b := make([]byte, n)
	for i := range b {
		b[i] = byte('0' + r.Intn(10))
	}
	return string(b)
}

var wsPieces = []string{" ", "\t", "\n", "\r", "  ", " \t\r\n "}

func wrapWs(r *vh.Rng, s string) string {
	if r.Chance(50) {
		s = vh.Pick(r, wsPieces) + s
	}
	if r.Chance(50) {
		s = s + vh.Pick(r, wsPieces)
	}
	if r.Chance(8) && len(s) > 1 {
		p := 1 + r.Intn(len(s)-1)
		s = s[:p] + vh.Pick(r, wsPieces) + s[p:]
	}
	return s
}

// ---------------------------------------------------------------- integers

func typeRange(name string) (lo, hi *big.Int) {
	if r, ok := intRange[name]; ok {
		return bigOf(r[0]), bigOf(r[1])
	}
	return bigOf(goRange["integer"][0]), bigOf(goRange["integer"][1])
}

func genInt(r *vh.Rng, t *xtype) gcase {
	lo, hi := typeRange(t.name)
	var v *big.Int
	one := big.NewInt(1)
	switch r.Intn(10) {
	case 0:
		v = new(big.Int).Set(lo)
	case 1:
		v = new(big.Int).Set(hi)
	case 2:
		v = new(big.Int).Sub(lo, one)
	case 3:
		v = new(big.Int).Add(hi, one)
	case 4:
		v = big.NewInt(int64(r.Intn(3) - 1))
	case 5: // any magnitude, up to 25 digits
		v, _ = new(big.Int).SetString(digitsN(r, 1+r.Intn(25)), 10)
		if r.Bool() {
			v.Neg(v)
		}
	case 6: // near a power of two
		v = new(big.Int).Lsh(one, uint(r.Intn(66)))
		v.Add(v, big.NewInt(int64(r.Intn(3)-1)))
		if r.Bool() {
			v.Neg(v)
		}
	default: // inside the range
		span := new(big.Int).Sub(hi, lo)
		x := new(big.Int).SetUint64(r.U64())
		x.Mul(x, new(big.Int).SetUint64(r.U64()|1))
		v = new(big.Int).Add(lo, x.Mod(x, span.Add(span, one)))
	}
	representable := v.Cmp(lo) >= 0 && v.Cmp(hi) <= 0
	s := v.String()
	if r.Chance(60) {
		return gcase{s, true, representable}
	}
	// decorated: explicit plus, leading zeros, negative zero
	abs := new(big.Int).Abs(v).String()
	sign := ""
	if v.Sign() < 0 {
		sign = "-"
	} else if r.Bool() {
		sign = "+"
	}
	if v.Sign() == 0 && r.Chance(30) {
		sign = "-"
	}
	return gcase{sign + strings.Repeat("0", r.Intn(4)) + abs, false, representable}
}

var intCorpus = []string{"", "+", "-", "+-1", "--1", "1_0", "0x10", "0b1", "0o7", "1e2", "1.0", "1.", ".1", "١٢", "１２", "1 2", "0_1", "+0", "-0", "00", "a", "1a", "Inf", "NaN",
	"127", "128", "-128", "-129", "255", "256", "32767", "32768", "-32768", "-32769", "65535", "65536", "2147483647", "2147483648", "-2147483648", "-2147483649",
	"4294967295", "4294967296", "9223372036854775807", "9223372036854775808", "-9223372036854775808", "-9223372036854775809", "18446744073709551615", "18446744073709551616",
	"99999999999999999999", "184467440737095516150", "18446744073709551615x", "000000000000000000000000000000001"}

// ---------------------------------------------------------------- decimal / float / double

// canonical XSD 1.1 form of a finite double/float: d.dddE<exp>, at least one fraction digit
func canonDouble(f float64, bits int) string {
	if f == 0 {
		if math.Signbit(f) {
			return "-0.0E0"
		}
		return "0.0E0"
	}
	s := strconv.FormatFloat(f, 'E', -1, bits) // d.dddE±xx
	i := strings.IndexByte(s, 'E')
	mant, exp := s[:i], s[i+1:]
	if !strings.Contains(mant, ".") {
		mant += ".0"
	}
	e, _ := strconv.Atoi(exp)
	return mant + "E" + strconv.Itoa(e)
}

// exact decimal expansion of a float64 (canonical xsd:decimal of a representable value)
func canonDecimal(f float64) string {
	r := new(big.Rat).SetFloat64(f)
	if r.IsInt() {
		return r.Num().String()
	}
	s := r.FloatString(1100)
	s = strings.TrimRight(s, "0")
	return s
}

func randFloat(r *vh.Rng, bits int) float64 {
	switch r.Intn(8) {
	case 0:
		return float64(r.Intn(2000)-1000) / float64(int(1)<<uint(r.Intn(12)))
	case 1:
		return vh.Pick(r, []float64{0, math.Copysign(0, -1), 1, -1, math.MaxFloat64, -math.MaxFloat64, math.SmallestNonzeroFloat64, math.MaxFloat32, math.SmallestNonzeroFloat32, 0x1p-1022, 0x1p-126, 1e15, 1e16, 1e21, 1e-7, 0.1, 123456789012345678})
	}
	for {
		var f float64
		if bits == 32 {
			f = float64(math.Float32frombits(uint32(r.U64())))
		} else {
			f = math.Float64frombits(r.U64())
		}
		if !math.IsNaN(f) && !math.IsInf(f, 0) {
			return f
		}
	}
}

func genFloat(r *vh.Rng, t *xtype) gcase {
	bits := 64
	if t.name == "float" {
		bits = 32
	}
	if t.name == "decimal" {
		switch r.Intn(4) {
		case 0: // canonical expansion of a representable value of moderate size
			f := float64(int64(r.U64()>>11)-(1<<52)) / float64(uint64(1)<<uint(r.Intn(60)))
			return gcase{canonDecimal(f), true, true}
		case 1:
			f := randFloat(r, 64)
			if math.Abs(f) < 1e-300 || math.Abs(f) > 1e300 {
				f = 1.5
			}
			return gcase{canonDecimal(f), true, true}
		}
		sign := vh.Pick(r, []string{"", "", "+", "-"})
		ip, fp := digitsN(r, r.Intn(20)), digitsN(r, r.Intn(20))
		switch r.Intn(4) {
		case 0:
			return gcase{sign + ip + "." + fp, false, false}
		case 1:
			return gcase{sign + ip, false, false}
		case 2:
			return gcase{sign + "." + fp, false, false}
		}
		return gcase{sign + strings.Repeat("0", r.Intn(3)) + ip + "." + fp + strings.Repeat("0", r.Intn(3)), false, false}
	}
	switch r.Intn(5) {
	case 0: // canonical form of a representable value
		f := randFloat(r, bits)
		if bits == 32 {
			f = float64(float32(f))
			if math.IsInf(f, 0) {
				f = math.Copysign(math.MaxFloat32, f)
			}
		}
		return gcase{canonDouble(f, bits), true, true}
	case 1:
		return gcase{vh.Pick(r, []string{"INF", "-INF", "NaN"}), true, true}
	}
	sign := vh.Pick(r, []string{"", "", "+", "-"})
	m := digitsN(r, 1+r.Intn(18))
	if r.Bool() {
		m += "." + digitsN(r, r.Intn(18))
	} else if r.Chance(20) {
		m = "." + digitsN(r, 1+r.Intn(8))
	}
	e := ""
	if r.Chance(70) {
		maxE := 330
		if bits == 32 {
			maxE = 50
		}
		e = vh.Pick(r, []string{"e", "E"}) + vh.Pick(r, []string{"", "+", "-"}) + strconv.Itoa(r.Intn(maxE))
	}
	return gcase{sign + m + e, false, false}
}

func bigThreshold(p, emax uint) *big.Int { // (2^(p+1) − 1)·2^(emax−p)
	x := new(big.Int).Lsh(big.NewInt(1), p+1)
	x.Sub(x, big.NewInt(1))
	return x.Lsh(x, emax-p)
}

var floatCorpus = func() []string {
	c := []string{"", ".", "+", "-", "e5", "1e", "1e+", "1e5", "1E5", "1e-5", "1.e5", ".5e1", ".e1", "1e5.5", "1ee5", "1e5e5",
		"NaN", "nan", "NAN", "+NaN", "-NaN", "INF", "+INF", "-INF", "inf", "Inf", "+Inf", "-Inf", "infinity", "Infinity", "+infinity", "-Infinity", "INFINITY", "infinit", "in", "INFx",
		"0x1p-2", "0X1P2", "0x1.8p1", "0x.8p0", "0x1p", "0x1", "0xp1", "0x_1p0", "1_0", "1_000.5", "1__0", "_1", "1_", "1e5_0", "1_e5", "1._5", "0b1", "0o7", "0x",
		"1,5", "1 5", "١", "1d5", "1f", "1.5f", "0", "-0", "+0", "-0.0", "00", "0.0", "0e0", "-0e-0",
		"1e308", "1e309", "-1e309", "1.7976931348623157e308", "1.7976931348623158e308", "1.7976931348623159e308", "1.797693134862315807e308", "1.797693134862315808e308",
		"3.4028235e38", "3.4028235677973366e38", "3.4028235677973367e38", "3.4028236e38", "1e39", "1e38",
		"4.9e-324", "2.4703282292062327e-324", "2.4703282292062328e-324", "1e-400", "1e-45", "7e-46", "1e-46",
		"1e400", "1e9999", "1e10000", "1e99999", "1e999999999999", "0e999999999999", "0.0e99999", "1e-999999999999",
		"9007199254740993", "9007199254740992.5", "123456789012345678901234567890", "0.1", "0.10", "1.10", "100", "1e2", "1e21", "1e-7", "0.000001",
		"000000000000000000000000000000000000000001", "1." + strings.Repeat("0", 40) + "1"}
	t64, t32 := bigThreshold(53, 1023), bigThreshold(24, 127)
	for _, t := range []*big.Int{t64, t32} {
		c = append(c, t.String(), new(big.Int).Sub(t, big.NewInt(1)).String(), new(big.Int).Add(t, big.NewInt(1)).String(), new(big.Int).Sub(t, big.NewInt(1)).String()+".99999")
	}
	return c
}()

// ---------------------------------------------------------------- date/time family

type timeShape struct{ year, month, day, clock, dashes bool }

var timeShapes = map[string]timeShape{
	"dateTime": {true, true, true, true, false}, "dateTimeStamp": {true, true, true, true, false},
	"date": {true, true, true, false, false}, "time": {false, false, false, true, false},
	"gYearMonth": {true, true, false, false, false}, "gYear": {true, false, false, false, false},
	"gMonthDay": {false, true, true, false, true}, "gDay": {false, false, true, false, true},
	"gMonth": {false, true, false, false, true},
}

func genTime(r *vh.Rng, t *xtype) gcase {
	sh := timeShapes[t.name]
	canonical := true
	var sb strings.Builder
	year := 2000
	if sh.year {
		y := vh.Pick(r, []string{"2000", "1999", "2024", "0001", "0000", "9999", "1900", "2100", "0400", "1970"})
		switch r.Intn(12) {
		case 0:
			y = vh.Pick(r, []string{"10000", "12345", "-0001", "-2000", "-10000", "99999"})
		case 1:
			y = vh.Pick(r, []string{"200", "02000", "+2000", "20000x", "２０００"})
			canonical = false
		case 2:
			y = fmt.Sprintf("%04d", r.Intn(10000))
		}
		if n, err := strconv.Atoi(strings.TrimLeft(y, "-")); err == nil {
			year = n
		}
		sb.WriteString(y)
	}
	month := 1 + r.Intn(12)
	if sh.month {
		if sh.year {
			sb.WriteString("-")
		} else {
			sb.WriteString("--")
		}
		if r.Chance(6) {
			month = vh.Pick(r, []int{0, 13, 19, 99})
		}
		if r.Chance(3) {
			sb.WriteString(strconv.Itoa(month)) // one digit
		} else {
			fmt.Fprintf(&sb, "%02d", month)
		}
	}
	if sh.day {
		if sh.month {
			sb.WriteString("-")
		} else {
			sb.WriteString("---")
		}
		day := 1 + r.Intn(28)
		switch r.Intn(8) {
		case 0:
			day = vh.Pick(r, []int{28, 29, 30, 31})
		case 1:
			day = vh.Pick(r, []int{0, 32, 99})
		}
		if r.Chance(3) {
			sb.WriteString(strconv.Itoa(day))
		} else {
			fmt.Fprintf(&sb, "%02d", day)
		}
	}
	_ = year
	if sh.clock {
		if sh.year {
			sb.WriteString(vh.Pick(r, []string{"T", "T", "T", "T", "T", "T", "T", "T", "T", "t", " "}))
		}
		h, m, s := r.Intn(24), r.Intn(60), r.Intn(60)
		switch r.Intn(14) {
		case 0:
			h, m, s = 24, 0, 0
			canonical = false
		case 1:
			h = vh.Pick(r, []int{24, 25, 99})
		case 2:
			m = vh.Pick(r, []int{60, 99})
		case 3:
			s = vh.Pick(r, []int{60, 61, 99})
		}
		if h >= 24 {
			canonical = false // 24:00:00 is a lexical form, not a canonical one
		}
		if r.Chance(6) && h < 10 {
			fmt.Fprintf(&sb, "%d:%02d:%02d", h, m, s)
			canonical = false
		} else {
			fmt.Fprintf(&sb, "%02d:%02d:%02d", h, m, s)
		}
		switch r.Intn(10) {
		case 0, 1, 2:
			f := digitsN(r, 1+r.Intn(12))
			if strings.HasSuffix(f, "0") {
				canonical = false
			}
			sb.WriteString("." + f)
		case 3:
			sb.WriteString(vh.Pick(r, []string{".", ",5", ".+12345678", ".-00000000", ".-12345678", ".5.5", ".000000000", ".123456789", ".1234567891", ".0", ".50"}))
			canonical = false
		}
	}
	tzRequired := t.name == "dateTimeStamp"
	switch k := r.Intn(10); {
	case k < 3 && !tzRequired:
	case k < 6:
		sb.WriteString("Z")
	case k < 8:
		sb.WriteString(fmt.Sprintf("%s%02d:%02d", vh.Pick(r, []string{"+", "-"}), r.Intn(14), vh.Pick(r, []int{0, 0, 30, 45, 59})))
		canonical = false // canonical forms are in UTC
	default:
		sb.WriteString(vh.Pick(r, []string{"+14:00", "-14:00", "+00:00", "-00:00", "+14:01", "-14:30", "+15:00", "+24:00", "+24:60", "-24:00", "+25:00", "+13:60", "+00:60", "z", "+1:00", "+0100", "+01", "+01:0", "UTC", "+01:00:00", "*01:00"}))
		canonical = false
	}
	s := sb.String()
	// canonical only if it really is in the lexical space (invalid months/days were injected above)
	return gcase{s, canonical && specLexOK(t, s), true}
}

// ---------------------------------------------------------------- duration

func genDuration(r *vh.Rng) gcase {
	var sb strings.Builder
	if r.Chance(25) {
		sb.WriteString("-")
	}
	sb.WriteString("P")
	num := func(sec bool) string {
		switch r.Intn(12) {
		case 0:
			return "" // missing digits
		case 1:
			return digitsN(r, 1+r.Intn(3)) + "." + digitsN(r, 1+r.Intn(3)) // fraction
		case 2:
			return vh.Pick(r, []string{"1.", ".5", ".", "0", "00", "0.0", "1e2", "+1", "-1"})
		}
		if sec && r.Chance(40) {
			return strconv.Itoa(r.Intn(60)) + "." + digitsN(r, 1+r.Intn(4))
		}
		return strconv.Itoa(r.Intn(100))
	}
	for _, l := range []string{"Y", "M", "D"} {
		if r.Chance(45) {
			sb.WriteString(num(false) + l)
		}
	}
	if r.Chance(60) {
		sb.WriteString("T")
		for _, l := range []string{"H", "M", "S"} {
			if r.Chance(50) {
				sb.WriteString(num(l == "S") + l)
			}
		}
	}
	s := sb.String()
	return gcase{s, false, false}
}

var durationCorpus = []string{"P", "PT", "-P", "-PT", "PY", "PTS", "P1YM", "P1YT", "P1Y", "-P1Y", "P1M", "PT1M", "P1MT1M", "P1D", "PT1H", "PT1S", "PT1.5S", "PT1.S", "PT.5S", "PT0S", "PT0.0S", "P0Y", "P0Y0M0DT0H0M0S",
	"P1.5Y", "P1.1Y2.2M3.3DT4.4H5.5M6.6S", "P.Y", "P1Y2M3DT4H5M6S", "P1Y2M3DT4H5M6.7S", "PT1H1H", "P1D1Y", "P1M1Y", "PT1S1M", "p1y", "P1y", "P 1Y", "P1Y ", "P1e5Y", "P+1Y", "P-1Y", "+P1Y", "--P1Y", "P1YT", "PT1", "P1", "1Y", "T1H",
	"P0.0000001Y", "P100000000000000000000000Y", "P" + strings.Repeat("9", 310) + "Y", "PT0." + strings.Repeat("0", 330) + "1S", "P12345678901234567890Y", "P123456789012345Y", "P1234567890123456Y", "PT0.1S", "PT0.10S", "P01Y", "PT1M30.5S", "P2Y6M5DT12H35M30S", "P1DT2H", "P20M", "PT20M", "P0Y20M0D", "-P60D", "PT36H", "P1Y2MT2H", "PT1H0.5S"}

// canonical durations (XSD 1.1 canonical mapping: months part then seconds part, no zero components except PT0S)
func canonDuration(r *vh.Rng) gcase {
	y, mo, d, h, mi := r.Intn(3), r.Intn(12), r.Intn(30), r.Intn(24), r.Intn(60)
	var sb strings.Builder
	if r.Chance(20) {
		sb.WriteString("-")
	}
	sb.WriteString("P")
	if y > 0 {
		fmt.Fprintf(&sb, "%dY", y)
	}
	if mo > 0 {
		fmt.Fprintf(&sb, "%dM", mo)
	}
	if d > 0 {
		fmt.Fprintf(&sb, "%dD", d)
	}
	sec := ""
	if r.Bool() {
		sec = strconv.Itoa(1 + r.Intn(59))
		if r.Bool() {
			sec += "." + strconv.Itoa(1+r.Intn(9))
		}
		sec += "S"
	}
	if h > 0 || mi > 0 || sec != "" {
		sb.WriteString("T")
		if h > 0 {
			fmt.Fprintf(&sb, "%dH", h)
		}
		if mi > 0 {
			fmt.Fprintf(&sb, "%dM", mi)
		}
		sb.WriteString(sec)
	}
	s := sb.String()
	if s == "P" || s == "-P" {
		s = "PT0S"
	}
	return gcase{s, true, true}
}

// ---------------------------------------------------------------- strings, binaries, boolean

func genStr(r *vh.Rng, t *xtype) gcase {
	switch t.name {
	case "hexBinary":
		n := r.Intn(12)
		b := make([]byte, n)
		for i := range b {
			b[i] = "0123456789abcdefABCDEF"[r.Intn(22)]
		}
		s := string(b)
		if r.Chance(15) {
			s = string(r.Mutate(b, []byte("gG xX-0")))
		}
		upper := strings.ToUpper(s) == s
		return gcase{s, upper && len(s)%2 == 0 && specLexOK(t, s), true}
	case "base64Binary":
		raw := make([]byte, r.Intn(10))
		for i := range raw {
			raw[i] = byte(r.U64())
		}
		s := base64.StdEncoding.EncodeToString(raw)
		canonical := true
		if r.Chance(35) { // single spaces between characters are allowed
			var sb strings.Builder
			for i := 0; i < len(s); i++ {
				sb.WriteByte(s[i])
				if r.Chance(30) {
					sb.WriteByte(' ')
				}
			}
			s = sb.String()
			canonical = false
		}
		if r.Chance(20) {
			s = string(r.Mutate([]byte(s), []byte("= -_AQgwB\n")))
			canonical = false
		}
		return gcase{s, canonical, true}
	}
	// string / anyURI: arbitrary text incl. controls and ill-formed UTF-8
	var sb strings.Builder
	for i, n := 0, r.Intn(10); i < n; i++ {
		switch r.Intn(12) {
		case 0:
			sb.WriteByte(byte(r.Intn(0x20)))
		case 1:
			sb.WriteByte(byte(0x80 + r.Intn(0x80))) // stray byte
		case 2:
			sb.WriteString(vh.Pick(r, []string{"￾", "￿", "�", "\u0085", " ", "\x7f", "\x00", "\U0010FFFF", "\xed\xa0\x80"}))
		case 3, 4:
			sb.WriteString(vh.Pick(r, wsPieces))
		default:
			sb.WriteRune(r.Scalar())
		}
	}
	s := sb.String()
	if t.name == "anyURI" && r.Chance(40) {
		s = r.AbsIRI(vh.IRIOpts{Exotic: true})
	}
	return gcase{s, specLexOK(t, s) && specNormalize(t, s) == s, true}
}

var binCorpus = []string{"", "0", "00", "0g", "0aFF", "0A FF", "0aF", " 0a ", "AAAA", "AAA=", "AA==", "A===", "AAA", "AA", "A", "AB==", "AAB=", "AA=A", "AAAA AA==", "AAAA  AA==", "A A A A", "AAAA ", " AAAA", "AA = =", "AA= =", "AA ==", "A A==", "AAAA====", "AA==AAAA", "-_==", "AAA\n="}
var boolCorpus = []string{"true", "false", "1", "0", "TRUE", "True", "FALSE", "yes", "no", "00", "01", "10", " true ", "t rue", "\ttrue\n", "", " ", "true1", "+1", "-0"}

// ---------------------------------------------------------------- driver of the generators

var numHot = []byte("+-.eE_xXpP0 19aAfFNIinf\t\n ,:TZ")
var timeHot = []byte("-:.,+TZz 0123456789\t")

func (h *harness) generate(n int) {
	for _, t := range types {
		var corpus []string
		var hot []byte
		var gen func() gcase
		switch t.family {
		case "int":
			corpus, hot, gen = intCorpus, numHot, func() gcase { return genInt(h.r, t) }
		case "float":
			corpus, hot, gen = append(append([]string{}, floatCorpus...), intCorpus...), numHot, func() gcase { return genFloat(h.r, t) }
		case "time":
			hot, gen = timeHot, func() gcase { return genTime(h.r, t) }
		case "duration":
			corpus, hot = durationCorpus, []byte("PTYMDHS.-+0123456789 e")
			gen = func() gcase {
				if h.r.Chance(30) {
					return canonDuration(h.r)
				}
				return genDuration(h.r)
			}
		case "bool":
			corpus, hot, gen = boolCorpus, []byte("truefalse10 TF\t"), func() gcase { return gcase{vh.Pick(h.r, boolCorpus), false, false} }
		case "str":
			corpus, hot, gen = binCorpus, []byte("= \t\n0aAgG/+"), func() gcase { return genStr(h.r, t) }
		}
		for _, s := range corpus {
			h.one(t, s, false, false, "corpus")
			if h.r.Chance(30) {
				h.one(t, wrapWs(h.r, s), false, false, "corpus")
			}
		}
		if t.family == "bool" {
			h.one(t, "true", true, true, "canonical")
			h.one(t, "false", true, true, "canonical")
		}
		for i := 0; i < n; i++ {
			c := gen()
			origin := "grammar"
			if c.canonical {
				origin = "canonical"
			}
			h.one(t, c.s, c.canonical, c.representable, origin)
			if h.r.Chance(25) {
				h.one(t, wrapWs(h.r, c.s), false, false, "grammar+ws")
			}
			if h.r.Chance(60) {
				h.one(t, string(h.r.Mutate([]byte(c.s), hot)), false, false, "mutated")
			}
			if len(h.items) > 2000000 {
				h.flush()
			}
		}
		h.flush()
	}
	// the strconv models on their own: corpus, grammar strings of the numeric types, mutations
	for _, s := range append(append([]string{}, floatCorpus...), intCorpus...) {
		h.strconvCase(s)
		h.strconvCase(string(h.r.Mutate([]byte(s), numHot)))
	}
	for i := 0; i < n; i++ {
		var c gcase
		if h.r.Bool() {
			c = genFloat(h.r, typeByName(vh.Pick(h.r, []string{"double", "float", "decimal"})))
		} else {
			c = genInt(h.r, typeByName(vh.Pick(h.r, []string{"integer", "byte", "unsignedLong", "short", "unsignedInt"})))
		}
		if h.r.Chance(50) {
			c.s = string(h.r.Mutate([]byte(c.s), numHot))
		}
		h.strconvCase(c.s)
		if len(h.items) > 2000000 {
			h.flush()
		}
	}
	h.flush()
	// white space collapse on its own
	for i := 0; i < n; i++ {
		var sb strings.Builder
		for j, m := 0, h.r.Intn(12); j < m; j++ {
			switch h.r.Intn(3) {
			case 0:
				sb.WriteString(vh.Pick(h.r, wsPieces))
			case 1:
				sb.WriteByte(byte(h.r.Intn(256)))
			default:
				sb.WriteByte("ab \v\f\x00"[h.r.Intn(7)])
			}
		}
		h.collapseCase(sb.String())
	}
}
