// Command c10c: part C10C (serves C10, C05). Correspondence (T3) between
// RdfModel.Model.JsonLdContext — the Lean model of the JSON-LD context machinery of /repo
// (encoding/jsonld/internal/jsonldinternal: Context Processing, Create Term Definition, IRI Expansion,
// Context.clone) — and the real code, through the add-only hooks VerifNewContext /
// VerifProcessContext / VerifExpandIRI (export_verif_ctx.go).
//
// A case is a history: a processing mode, an original base IRI, 1–4 local contexts applied one after
// the other (each on top of the result of the last successful one) and a battery of IRI expansions
// under the final active context. The real code runs the history on chained *Context values; the
// driver op `ctx.run` replays it on the model. EXACT agreement is required on every resulting context
// (every field of the context and of each term definition, previous contexts included), every error
// code and every expansion result. Outcomes the model declares `unmodelled` (remote contexts, @import,
// IRIs outside the net/url model) are counted and skipped from that step on.
//
// Oracles on the implementation alone (also with -nomodel): no panic (C05); the active context a local
// context was processed against renders the same before and after (clone independence); processing
// the same step twice gives the same result (no dependence on map iteration order).
package main

import (
	"encoding/json"
	"flag"
	"fmt"
	"os"
	"strings"

	"verifharness/vh"
)

var (
	tier     = flag.String("tier", "quick", "quick|thorough")
	driver   = flag.String("driver", "/verif/lean/.lake/build/bin/driver", "lean driver binary")
	out      = flag.String("out", "/verif/evidence/.c10c.report.json", "report path")
	findings = flag.String("findings", "/verif/known-findings.json", "known findings")
	proposed = flag.String("proposed", "/verif/props/C10C.known-findings.proposed.json", "proposed known findings of this part (counted as known until the coordinator moves them to known-findings.json)")
	replay   = flag.String("replay", "", "replay file (one JSON history per line, as printed in a case's detail)")
	scale    = flag.Int("scale", 1, "multiply generated case counts (search mode uses 10)")
	nomodel  = flag.Bool("nomodel", false, "property oracles on the implementation only")
	hints    = flag.String("hints", "", "file of histories that disagreed; replayed first")
	only     = flag.String("only", "", "development: run only the named stages (corpus,gen,protected,fragment,inherit,mutate,prefix)")
	verbose  = flag.Bool("v", false, "development: print every case")
)

type item struct {
	line  string
	check func(model string)
}

type harness struct {
	r     *vh.Rng
	rep   *vh.Report
	known map[string]vh.Finding
	items []item
	hash  uint64

	fragSeen map[string]bool
}

func (h *harness) stable(s string) {
	if h.hash == 0 {
		h.hash = 14695981039346656037
	}
	for i := 0; i < len(s); i++ {
		h.hash ^= uint64(s[i])
		h.hash *= 1099511628211
	}
	h.hash ^= 0xff
	h.hash *= 1099511628211
}

func (h *harness) add(line string, check func(model string)) {
	h.items = append(h.items, item{line, check})
}

func repoDir() string {
	if d := os.Getenv("VERIF_REPO"); d != "" {
		return d
	}
	return "/repo"
}

func stage(name string) bool {
	if *only == "" {
		return true
	}
	for _, s := range strings.Split(*only, ",") {
		if s == name {
			return true
		}
	}
	return false
}

func main() {
	flag.Parse()
	seed := vh.SeedFromEnv()
	rep := vh.NewReport("C10C", *tier, seed, "histories of 1-4 local contexts (every @context value of the W3C expand and toRdf test inputs shipped in /repo, alone and chained in document order, under both processing modes and an unknown one; grammar-directed contexts over all keywords, prefixes ending in every gen-delim, compact-IRI terms, terms defined through other terms incl. cycles, protected terms and overrides, scoped contexts; structural mutations of both) followed by a battery of IRI expansions. Non-trivial = some step produced a context with at least one term definition, or an error other than `invalid local context`")
	h := &harness{r: vh.NewRng(seed), rep: rep}
	fs, err := vh.LoadFindings(*findings)
	if err != nil {
		fmt.Fprintln(os.Stderr, "findings:", err)
		os.Exit(2)
	}
	h.known = vh.KnownKeys(fs, "C10")
	if b, err := os.ReadFile(*proposed); err == nil {
		var pf []vh.Finding
		json.Unmarshal(b, &pf)
		for k, f := range vh.KnownKeys(pf, "C10") {
			if _, ok := h.known[k]; !ok {
				h.known[k] = f
			}
		}
	}

	n := 2500 * *scale
	if *tier == "thorough" {
		n = 120000 * *scale
	}
	if *replay != "" {
		h.replayFile(*replay)
	} else {
		if *hints != "" {
			h.replayFile(*hints)
		}
		if stage("corpus") {
			h.corpus()
		}
		if stage("prefix") {
			h.prefixExhaustive()
		}
		if stage("gen") {
			h.genCases(n)
		}
		if stage("protected") {
			h.protectedCases(n / 2)
		}
		if stage("fragment") {
			h.fragmentCases(n / 2)
		}
		if stage("inherit") {
			h.inheritCases(n / 4)
		}
		if stage("mutate") {
			h.mutateCases(n / 2)
		}
	}

	if !*nomodel {
		items := h.items
		h.items = nil
		lines := make([]string, len(items))
		for i, it := range items {
			lines[i] = it.line
		}
		res, err := vh.Driver{Path: *driver}.RunParallel(lines)
		if err != nil {
			fmt.Fprintln(os.Stderr, err)
			os.Exit(2)
		}
		for i, it := range items {
			rep.Compared++
			it.check(res[i])
		}
	}
	rep.Hist["case-stream-hash"] = int(h.hash % 1000000007)
	if rep.Cases == nil {
		rep.Cases = []vh.Case{}
	}
	if err := rep.Write(*out); err != nil {
		fmt.Fprintln(os.Stderr, err)
		os.Exit(2)
	}
	fmt.Printf("c10c: %d evaluations, %d compared with the model, %d failures, %d known\n", rep.Evaluations, rep.Compared, rep.Failures(), len(rep.Cases)-rep.Failures())
	if rep.Failures() > 0 {
		os.Exit(1)
	}
}

// replayFile: each line is the JSON form of a history (hcase).
func (h *harness) replayFile(path string) {
	b, err := os.ReadFile(path)
	if err != nil {
		fmt.Fprintln(os.Stderr, "replay:", err)
		os.Exit(2)
	}
	for _, l := range strings.Split(string(b), "\n") {
		l = strings.TrimSpace(l)
		if l == "" {
			continue
		}
		var c hcase
		if err := json.Unmarshal([]byte(l), &c); err != nil {
			fmt.Fprintln(os.Stderr, "replay:", err)
			continue
		}
		c.Tag = "replay"
		h.run(c)
	}
}
