/-
  Property C01 — N-Triples / N-Quads encoders round-trip every dataset (theorems only;
  helper lemmas live in RdfModel/Proofs/C01*.lean).

  All theorems are for an arbitrary table set `T` satisfying `TablesOK T`; `C01Tables.lean`
  proves `TablesOK` for the tables regenerated from /repo on this run.
-/
import RdfModel.Props.C01Defs
import RdfModel.Spec.NQuadsGrammar
import RdfModel.Proofs.C01
namespace RdfModel.C01
open RdfModel RdfModel.NQ

variable {β : Type}

/-- N-Quads: decoding the encoder's output yields exactly the input quads with every blank node
    replaced by its label, and a clean end. Holds for every option value (`ascii`), every labeller
    satisfying `LabelsOK`, every list of well-formed quads (lexical forms are arbitrary scalar strings). -/
theorem nquads_roundtrip (T : Tables) (hT : TablesOK T) (urlOk : List Nat → Bool) (ascii : Bool)
    (label : β → List Nat) (hl : LabelsOK T label) (qs : List (Quad β))
    (hwf : ∀ q ∈ qs, WFQuad urlOk q) :
    run T urlOk .eof true (encodeDoc T ascii label true qs) = (qs.map (Quad.map label), .clean) :=
  Proofs.C01.nquads_roundtrip T hT urlOk ascii label hl qs hwf

/-- N-Triples: same, the graph slot is not written. -/
theorem ntriples_roundtrip (T : Tables) (hT : TablesOK T) (urlOk : List Nat → Bool) (ascii : Bool)
    (label : β → List Nat) (hl : LabelsOK T label) (qs : List (Quad β))
    (hwf : ∀ q ∈ qs, WFQuad urlOk q) :
    run T urlOk .eof false (encodeDoc T ascii label false qs)
      = (qs.map (fun q => Quad.map label (Quad.dropGraph q)), .clean) :=
  Proofs.C01.ntriples_roundtrip T hT urlOk ascii label hl qs hwf

/-- Relabelling by an injective function is a blank-node isomorphism: equal labels ⇒ equal nodes. -/
theorem relabel_injective (label : β → List Nat) (hinj : Function.Injective label) :
    Function.Injective (Quad.map label) :=
  Proofs.C01.relabel_injective label hinj

/-- With the ASCII option, every code point written is below 0x80 (so every byte is), provided the
    blank-node labels and language tags are ASCII (the default labeller's are; `langOK` tags are)
    and every rune of the input is a code point (`hrange`: `≤ 0x10FFFF`, which every Go string
    conversion guarantees; the regenerated escape tables say nothing beyond that bound). -/
theorem ascii_output (T : Tables) (hA : TablesAscii T) (label : β → List Nat)
    (hlab : ∀ b, ∀ c ∈ label b, c < 0x80) (quads : Bool) (qs : List (Quad β))
    (hrange : ∀ q ∈ qs, QuadInRange q)
    (hlang : ∀ q ∈ qs, ∀ l d t, q.o = .lit l d (some t) → ∀ c ∈ t, c < 0x80) :
    ∀ c ∈ encodeDoc T true label quads qs, c < 0x80 :=
  Proofs.C01.ascii_output T hA label hlab quads qs hrange hlang

/-- Language tags accepted by `langOK` are ASCII. -/
theorem langOK_ascii (t : List Nat) (h : langOK t = true) : ∀ c ∈ t, c < 0x80 :=
  Proofs.C01.langOK_ascii t h

/-- The output is grammatical N-Quads / N-Triples (independent recogniser `Spec.NQG.accepts`). -/
theorem output_grammatical (T : Tables) (hT : TablesOK T) (hG : TablesGrammar T) (urlOk : List Nat → Bool)
    (ascii : Bool) (label : β → List Nat) (hl : LabelsOK T label) (quads : Bool) (qs : List (Quad β))
    (hwf : ∀ q ∈ qs, WFQuad urlOk q) :
    Spec.NQG.accepts (inRanges T.pnCharsU) (inRanges T.pnChars) quads
      (encodeDoc T ascii label quads qs) = true :=
  Proofs.C01.output_grammatical T hT hG urlOk ascii label hl quads qs hwf

/-- Encoder options ("under any option combination"): over any list of `EncoderOption` values the
    effective ASCII flag is the last one set — an option that does not mention ASCII leaves it alone,
    and the default is off. These three equations determine `effectiveAscii` on every option list. -/
theorem opts_ascii_last_set_wins (opts : List EncOpt) (a : Bool) (p : Option Nat) :
    effectiveAscii (opts ++ [⟨some a, p⟩]) = a := by
  simp [effectiveAscii, compileOpts, List.foldl_append, EncOpt.apply]

theorem opts_ascii_unset_keeps (opts : List EncOpt) (p : Option Nat) :
    effectiveAscii (opts ++ [⟨none, p⟩]) = effectiveAscii opts := by
  simp [effectiveAscii, compileOpts, List.foldl_append, EncOpt.apply]

theorem opts_ascii_default : effectiveAscii [] = false := by
  simp [effectiveAscii, compileOpts]

end RdfModel.C01
