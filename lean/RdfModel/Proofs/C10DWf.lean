/-
  Proofs for C10D (2): every statement the model emits is well-formed (C06), also the statements
  appended before an error. Invariant carried through the eight mutual functions: `ECtx.ok`.
-/
import RdfModel.Props.C10DDefs
namespace RdfModel.Proofs.C10D
open RdfModel RdfModel.Desc RdfModel.JLD RdfModel.C10D

/-- every statement appended by the call is well-formed -/
def AllWf (r : R) : Prop := ∀ q ∈ R.quads r, WfRQ q = true

def ListWf (qs : List RQ) : Prop := ∀ q ∈ qs, WfRQ q = true

theorem allWf_ok {qs : List RQ} {n : Nat} (h : ListWf qs) : AllWf (.ok qs n) := h
theorem allWf_err {e : Err} {qs : List RQ} (h : ListWf qs) : AllWf (.err e qs) := h
theorem allWf_panic : AllWf .panic := by intro q hq; simp [R.quads] at hq
theorem listWf_nil : ListWf [] := by intro q hq; simp at hq
theorem listWf_cons {q : RQ} {qs : List RQ} (h1 : WfRQ q = true) (h2 : ListWf qs) : ListWf (q :: qs) := by
  intro x hx
  rcases List.mem_cons.1 hx with rfl | hx
  · exact h1
  · exact h2 x hx
theorem listWf_append {a b : List RQ} (h1 : ListWf a) (h2 : ListWf b) : ListWf (a ++ b) := by
  intro x hx
  rcases List.mem_append.1 hx with hx | hx
  · exact h1 x hx
  · exact h2 x hx

theorem allWf_andThen {r : R} {f : Nat → R} (hr : AllWf r) (hf : ∀ n, AllWf (f n)) : AllWf (r.andThen f) := by
  cases r with
  | panic => exact allWf_panic
  | err e q => exact hr
  | ok q n =>
    have h2 := hf n
    simp only [R.andThen]
    cases h : f n with
    | panic => exact allWf_panic
    | err e q2 => rw [h] at h2; exact listWf_append hr h2
    | ok q2 n2 => rw [h] at h2; exact listWf_append hr h2

theorem allWf_pre {qs : List RQ} {r : R} (hq : ListWf qs) (hr : AllWf r) : AllWf (R.pre qs r) := by
  cases r with
  | panic => exact allWf_panic
  | err e q => exact listWf_append hq hr
  | ok q n => exact listWf_append hq hr

theorem allWf_wrapList {r : R} (hr : AllWf r) : AllWf r.wrapList := by
  cases r <;> exact hr

theorem allWf_ite {c : Prop} [Decidable c] {a b : R} (ha : AllWf a) (hb : AllWf b) : AllWf (if c then a else b) := by
  split <;> assumption

/-! ### constants -/

theorem xsdString_ne : xsdString ≠ [] ∧ xsdString ≠ rdfLangString ∧ xsdString ≠ rdfDirLangString := by decide
theorem xsdBoolean_ne : xsdBoolean ≠ [] ∧ xsdBoolean ≠ rdfLangString ∧ xsdBoolean ≠ rdfDirLangString := by decide
theorem xsdInteger_ne : xsdInteger ≠ [] ∧ xsdInteger ≠ rdfLangString ∧ xsdInteger ≠ rdfDirLangString := by decide
theorem xsdDouble_ne : xsdDouble ≠ [] ∧ xsdDouble ≠ rdfLangString ∧ xsdDouble ≠ rdfDirLangString := by decide
theorem rdfJSON_ne : rdfJSON ≠ [] ∧ rdfJSON ≠ rdfLangString ∧ rdfJSON ≠ rdfDirLangString := by decide
theorem preds_ne : rdfType ≠ [] ∧ rdfValue ≠ [] ∧ rdfDirection ≠ [] ∧ rdfLanguage ≠ [] ∧ rdfFirst ≠ [] ∧ rdfRest ≠ [] := by decide

theorem i18n_ne (x : Str) : i18nNs ++ x ≠ [] ∧ i18nNs ++ x ≠ rdfLangString ∧ i18nNs ++ x ≠ rdfDirLangString := by
  have hlen : 5 ≤ i18nNs.length := by decide
  have take5 : (i18nNs ++ x).take 5 = i18nNs.take 5 := List.take_append_of_le_length hlen
  refine ⟨?_, ?_, ?_⟩
  · intro h
    have := congrArg List.length h
    simp at this
    have h0 : i18nNs ≠ [] := by decide
    exact h0 this.1
  · intro h
    have h1 : (i18nNs ++ x).take 5 = rdfLangString.take 5 := by rw [h]
    rw [take5] at h1
    exact absurd h1 (by decide)
  · intro h
    have h1 : (i18nNs ++ x).take 5 = rdfDirLangString.take 5 := by rw [h]
    rw [take5] at h1
    exact absurd h1 (by decide)

/-! ### single statements -/

theorem wfrq_mk {s o g : Option T} {p : Str} (hs : wfSubject s = true) (hp : p ≠ []) (ho : wfObject o = true)
    (hg : wfGraph g = true) : WfRQ ⟨s, p, o, g⟩ = true := by
  simp [WfRQ, hs, hp, ho, hg]

/-- an untagged literal whose datatype is set, and is not one of the two tagged-string datatypes -/
theorem wfObject_plain (lex dt : Str) (h : dt ≠ [] ∧ dt ≠ rdfLangString ∧ dt ≠ rdfDirLangString) :
    wfObject (some (lit lex dt none)) = true := by
  simp [wfObject, lit, h.1, h.2.1, h.2.2]

/-- `if len(lit.Datatype) == 0 { lit.Datatype = xsd:string }` -/
theorem wfObject_finish (lex dt : Str) (h : dt ≠ rdfLangString ∧ dt ≠ rdfDirLangString) :
    wfObject (some (lit lex (if dt = [] then xsdString else dt) none)) = true := by
  split
  · exact wfObject_plain _ _ xsdString_ne
  · rename_i h0; exact wfObject_plain _ _ ⟨h0, h.1, h.2⟩

theorem wfObject_lang (lex tag : Str) (h : tag ≠ []) : wfObject (some (lit lex rdfLangString (some tag))) = true := by
  simp [wfObject, lit, h]

theorem wfSubject_object {s : Option T} (h : wfSubject s = true) : wfObject s = true := by
  cases s with
  | none => simp [wfSubject] at h
  | some t => cases t <;> simp_all [wfSubject, wfObject]

theorem wfSubject_graph {t : T} (h : wfSubject (some t) = true) : wfGraph (some t) = true := by
  cases t <;> simp_all [wfSubject, wfGraph]

theorem wfLang_ne {l : Str} (h : isWellFormedLang l = true) : l ≠ [] := by
  intro h0; subst h0; simp [isWellFormedLang] at h

theorem wfIri_ne {k : Str} (h : isWellFormedIRI k = true) : k ≠ [] := by
  intro h0; subst h0; simp [isWellFormedIRI, wfIriGo] at h

/-! ### decodeValueNode -/

theorem taggedString_wf (cfg : Cfg) (g s : Option T) (p lex : Str) (lang? dir? : Option Str) (n : Nat)
    (hdir : cfg.dir ≠ .other) (hs : wfSubject s = true) (hp : p ≠ []) (hg : wfGraph g = true)
    (hl : langBad lang? = false) : AllWf (taggedString cfg g s p lex lang? dir? n) := by
  have one : ∀ (o : T), wfObject (some o) = true → ∀ m, AllWf (.ok [⟨s, p, some o, g⟩] m) := by
    intro o ho m
    exact allWf_ok (listWf_cons (wfrq_mk hs hp ho hg) listWf_nil)
  have fin : ∀ dt, dt ≠ rdfLangString ∧ dt ≠ rdfDirLangString → ∀ m,
      AllWf (.ok [⟨s, p, some (lit lex (if dt = [] then xsdString else dt) none), g⟩] m) :=
    fun dt h m => one _ (wfObject_finish lex dt h) m
  have finLang : ∀ l : Str, l ≠ [] → ∀ m,
      AllWf (.ok [⟨s, p, some (lit lex (if rdfLangString = [] then xsdString else rdfLangString) (some l)), g⟩] m) := by
    intro l hl m
    have : (if rdfLangString = [] then xsdString else rdfLangString) = rdfLangString := by decide
    rw [this]
    exact one _ (wfObject_lang lex l hl) m
  have hnode : wfSubject (some (Term.bnode (BN.fresh n) : T)) = true := rfl
  have three : ∀ dir : Str, ListWf [(⟨s, p, some (Term.bnode (BN.fresh n)), g⟩ : RQ),
      ⟨some (Term.bnode (BN.fresh n)), rdfValue, some (lit lex xsdString none), g⟩,
      ⟨some (Term.bnode (BN.fresh n)), rdfDirection, some (lit dir xsdString none), g⟩] := fun dir =>
    listWf_cons (wfrq_mk hs hp rfl hg) (listWf_cons (wfrq_mk hnode preds_ne.2.1 (wfObject_plain _ _ xsdString_ne) hg)
      (listWf_cons (wfrq_mk hnode preds_ne.2.2.1 (wfObject_plain _ _ xsdString_ne) hg) listWf_nil))
  cases lang? with
  | none =>
    cases dir? with
    | none => simp only [taggedString, Option.isSome_none, Bool.false_eq_true, if_false]; exact fin [] (by decide) n
    | some dir =>
      cases hc : cfg.dir with
      | none => simp only [taggedString, hc, Option.isSome_none, Bool.false_eq_true, if_false]; exact fin [] (by decide) n
      | i18n => simp only [taggedString, hc]; exact fin _ ⟨(i18n_ne _).2.1, (i18n_ne _).2.2⟩ n
      | compound =>
        simp only [taggedString, hc, Option.isSome_none, Bool.false_eq_true, if_false, List.append_nil]
        exact allWf_ok (three dir)
      | other => exact absurd hc hdir
  | some l =>
    have hl' : l ≠ [] := by
      apply wfLang_ne
      simpa [langBad] using hl
    cases dir? with
    | none => simp only [taggedString, Option.isSome_some, if_true, Option.getD_some]; exact finLang l hl' n
    | some dir =>
      cases hc : cfg.dir with
      | none => simp only [taggedString, hc, Option.isSome_some, if_true, Option.getD_some]; exact finLang l hl' n
      | i18n => simp only [taggedString, hc]; exact fin _ ⟨(i18n_ne _).2.1, (i18n_ne _).2.2⟩ n
      | compound =>
        simp only [taggedString, hc, Option.isSome_some, if_true, Option.getD_some]
        exact allWf_ok (listWf_append (three dir)
          (listWf_cons (wfrq_mk hnode preds_ne.2.2.2.1 (wfObject_plain _ _ xsdString_ne) hg) listWf_nil))
      | other => exact absurd hc hdir

theorem decodeStringValue_wf (cfg : Cfg) (g s : Option T) (p dt0 lex : Str) (atLang atDir : Option Exp) (n : Nat)
    (hdir : cfg.dir ≠ .other) (hs : wfSubject s = true) (hp : p ≠ []) (hg : wfGraph g = true)
    (hdt : dt0 ≠ rdfLangString ∧ dt0 ≠ rdfDirLangString) :
    AllWf (decodeStringValue cfg g s p dt0 lex atLang atDir n) := by
  have fin : AllWf (.ok [⟨s, p, some (lit lex (if dt0 = [] then xsdString else dt0) none), g⟩] n) :=
    allWf_ok (listWf_cons (wfrq_mk hs hp (wfObject_finish lex dt0 hdt) hg) listWf_nil)
  unfold decodeStringValue
  simp only []
  split
  · exact fin
  · split
    · exact allWf_err listWf_nil
    · split
      · exact allWf_ok listWf_nil
      · rename_i hlb
        split
        · exact allWf_err listWf_nil
        · split
          · exact allWf_ok listWf_nil
          · split
            · first
              | exact fin
              | (rename_i h0; exact allWf_ok (listWf_cons (wfrq_mk hs hp (wfObject_plain _ _ ⟨h0, hdt.1, hdt.2⟩) hg) listWf_nil))
            · exact taggedString_wf cfg g s p lex _ _ n hdir hs hp hg (by simpa using hlb)

theorem numberLiteral_dt (dt0 : Str) (x : Num) (hdt : dt0 ≠ rdfLangString ∧ dt0 ≠ rdfDirLangString) :
    (numberLiteral dt0 x).1 ≠ rdfLangString ∧ (numberLiteral dt0 x).1 ≠ rdfDirLangString := by
  have h : (numberLiteral dt0 x).1 = dt0 ∨ (numberLiteral dt0 x).1 = xsdDouble ∨ (numberLiteral dt0 x).1 = xsdInteger := by
    unfold numberLiteral
    simp only []
    split <;> (split <;> (try split) <;> simp)
  rcases h with h | h | h <;> rw [h]
  · exact hdt
  · exact ⟨xsdDouble_ne.2.1, xsdDouble_ne.2.2⟩
  · exact ⟨xsdInteger_ne.2.1, xsdInteger_ne.2.2⟩

theorem decodeValuePrim_wf (cfg : Cfg) (g s : Option T) (p dt0 : Str) (atLang atDir : Option Exp) (v : PVal) (jt : JText) (n : Nat)
    (hdir : cfg.dir ≠ .other) (hs : wfSubject s = true) (hp : p ≠ []) (hg : wfGraph g = true)
    (hdt : dt0 ≠ rdfLangString ∧ dt0 ≠ rdfDirLangString) :
    AllWf (decodeValuePrim cfg g s p dt0 atLang atDir v jt n) := by
  have one : ∀ (o : T), wfObject (some o) = true → AllWf (.ok [⟨s, p, some o, g⟩] n) := by
    intro o ho
    exact allWf_ok (listWf_cons (wfrq_mk hs hp ho hg) listWf_nil)
  unfold decodeValuePrim
  simp only []
  split
  · split
    · exact allWf_panic
    · exact allWf_panic
    · exact allWf_err listWf_nil
    · exact allWf_err listWf_nil
    · exact one _ (wfObject_plain _ _ rdfJSON_ne)
  · split
    · exact decodeStringValue_wf cfg g s p dt0 _ atLang atDir n hdir hs hp hg hdt
    · -- number
      rename_i x
      exact one _ (wfObject_finish _ _ (numberLiteral_dt dt0 x hdt))
    · apply one
      apply wfObject_finish
      split
      · exact ⟨xsdBoolean_ne.2.1, xsdBoolean_ne.2.2⟩
      · exact hdt
    · exact allWf_panic
    · exact allWf_err listWf_nil
    · exact allWf_err listWf_nil
    · exact allWf_err listWf_nil

theorem decodeValueNode_wf (cfg : Cfg) (g s : Option T) (p : Str) (ms : List (Str × Exp)) (n : Nat)
    (hdir : cfg.dir ≠ .other) (hs : wfSubject s = true) (hp : p ≠ []) (hg : wfGraph g = true) :
    AllWf (decodeValueNode cfg g s p ms n) := by
  unfold decodeValueNode
  simp only []
  split
  · exact allWf_err listWf_nil
  · split
    · exact allWf_ok listWf_nil
    · rename_i hdt
      simp only [Bool.or_eq_true, decide_eq_true_eq, not_or] at hdt
      split
      · exact decodeValuePrim_wf cfg g s p _ _ _ _ _ n hdir hs hp hg hdt
      · exact allWf_err listWf_nil
      · exact allWf_err listWf_nil

/-! ### node objects -/

theorem typeQuadsPartial_wf (g : Option T) (s : T) (hs : wfSubject (some s) = true) (hg : wfGraph g = true) :
    ∀ tvs : List Exp, ListWf (typeQuadsPartial g s tvs).1
  | [] => by simp [typeQuadsPartial]; exact listWf_nil
  | x :: rest => by
    have ih := typeQuadsPartial_wf g s hs hg rest
    cases x with
    | prim v jt =>
      cases v with
      | null => simpa [typeQuadsPartial] using ih
      | str t =>
        simp only [typeQuadsPartial]
        split
        · exact listWf_cons (wfrq_mk hs preds_ne.1 rfl hg) ih
        · split
          · exact ih
          · exact listWf_cons (wfrq_mk hs preds_ne.1 rfl hg) ih
      | nil => simp [typeQuadsPartial]; exact listWf_nil
      | num _ => simp [typeQuadsPartial]; exact listWf_nil
      | bool _ => simp [typeQuadsPartial]; exact listWf_nil
      | object => simp [typeQuadsPartial]; exact listWf_nil
      | array => simp [typeQuadsPartial]; exact listWf_nil
    | nil => simp [typeQuadsPartial]; exact listWf_nil
    | arr _ => simp [typeQuadsPartial]; exact listWf_nil
    | obj _ => simp [typeQuadsPartial]; exact listWf_nil

theorem typeStage_wf (g : Option T) (s : T) (ms : List (Str × Exp)) (n : Nat) (hs : wfSubject (some s) = true)
    (hg : wfGraph g = true) : AllWf (typeStage g s ms n) := by
  unfold typeStage
  split
  · exact allWf_ok listWf_nil
  · rename_i tvs _
    have := typeQuadsPartial_wf g s hs hg tvs
    split
    · rename_i qs heq; rw [heq] at this; exact allWf_ok this
    · rename_i qs e heq; rw [heq] at this; exact allWf_err this
  · exact allWf_err listWf_nil

theorem selfSubject_wf {ms : List (Str × Exp)} {n n1 : Nat} {self : T}
    (h : selfSubject ms n = .ok (some (self, n1))) : wfSubject (some self) = true := by
  unfold selfSubject at h
  split at h
  · simp at h
  · split at h
    · simp only [Except.ok.injEq, Option.some.injEq] at h
      unfold stringBlankNode at h
      split at h <;> (cases h; rfl)
    · split at h
      · simp at h
      · simp only [Except.ok.injEq, Option.some.injEq, Prod.mk.injEq] at h
        obtain ⟨h1, _⟩ := h; subst h1; rfl
  · simp at h
  · simp at h
  · simp only [Except.ok.injEq, Option.some.injEq, Prod.mk.injEq] at h
    obtain ⟨h1, _⟩ := h; subst h1; rfl

/-- the invariant on evaluation contexts, as a proposition -/
structure CtxOK (c : ECtx) : Prop where
  graph : wfGraph c.graph = true
  prop : ∀ p, c.prop = some p → wfSubject c.subj = true ∧ p ≠ []

theorem ctxOK_of_ok {c : ECtx} (h : ECtx.ok c = true) : CtxOK c := by
  unfold ECtx.ok at h
  simp only [Bool.and_eq_true] at h
  refine ⟨h.2, ?_⟩
  intro p hp
  have h1 := h.1.1
  rw [hp] at h1
  simpa using h1

theorem keyProp_ne {k p : Str} (h : keyProp k = some (some p)) : p ≠ [] := by
  unfold keyProp at h
  split at h
  · simp at h
  · split at h
    · simp at h
    · split at h
      · simp at h
      · rename_i hw
        simp only [Option.some.injEq] at h
        subst h
        exact wfIri_ne (by simpa using hw)

/-- the context of the members of a node with subject `self` under property `prop` -/
theorem ctxOK_member {c : ECtx} {k : Str} {prop : Option Str} {r : Bool} (hc : CtxOK c) (hs : wfSubject c.subj = true)
    (hk : keyProp k = some prop) : CtxOK { c with prop := prop, rev := r } := by
  refine ⟨hc.graph, ?_⟩
  intro p hp
  simp only at hp
  subst hp
  exact ⟨hs, keyProp_ne hk⟩

theorem ctxOK_list {c : ECtx} (hc : CtxOK c) (cell : T) (hcell : wfSubject (some cell) = true) :
    CtxOK { c with subj := some cell, prop := some rdfFirst } := by
  refine ⟨hc.graph, ?_⟩
  intro p hp
  simp only [Option.some.injEq] at hp
  subst hp
  exact ⟨hcell, preds_ne.2.2.2.2.1⟩

theorem valueProp_some {c : ECtx} {ms : List (Str × Exp)} {p : Str}
    (h : (match c.prop with
          | some p => if hasKey kValue ms then some p else none
          | none => none) = some p) : c.prop = some p := by
  cases hp : c.prop with
  | none => rw [hp] at h; simp at h
  | some p' =>
    rw [hp] at h
    simp only at h
    split at h
    · exact h
    · simp at h

theorem bnode_wf (b : B) : wfSubject (some (Term.bnode b : T)) = true := rfl

mutual
theorem decodeElement_wf (cfg : Cfg) (hdir : cfg.dir ≠ .other) (c : ECtx) (hc : CtxOK c) :
    ∀ (e : Exp) (n : Nat), AllWf (decodeElement cfg c e n)
  | .nil, n => by rw [decodeElement]; exact allWf_ok listWf_nil
  | .arr xs, n => by rw [decodeElement]; exact decodeItems_wf cfg hdir c hc xs n
  | .prim _ _, n => by rw [decodeElement]; exact allWf_err listWf_nil
  | .obj ms, n => by
    rw [decodeElement]
    split
    · rename_i p hp
      have hcp := valueProp_some hp
      exact decodeValueNode_wf cfg _ _ p ms n hdir (hc.prop p hcp).1 (hc.prop p hcp).2 hc.graph
    · split
      · exact findList_wf cfg hdir c hc ms n
      · split
        · exact allWf_err listWf_nil
        · exact allWf_ok listWf_nil
        · rename_i self n1 hself
          have hs := selfSubject_wf hself
          have hc1 : ∀ r, CtxOK { graph := c.graph, subj := some self, prop := c.prop, rev := r } := fun r =>
            ⟨hc.graph, fun p hp => ⟨hs, (hc.prop p hp).2⟩⟩
          apply allWf_pre
          · -- the link statement
            cases hp : c.prop with
            | none => exact listWf_nil
            | some p =>
              have := hc.prop p hp
              simp only []
              split
              · exact listWf_cons (wfrq_mk hs this.2 (wfSubject_object this.1) hc.graph) listWf_nil
              · exact listWf_cons (wfrq_mk this.1 this.2 (wfSubject_object hs) hc.graph) listWf_nil
          apply allWf_andThen (findReverse_wf cfg hdir _ (hc1 _) hs ms _)
          intro n2
          apply allWf_andThen (typeStage_wf _ _ _ _ hs hc.graph)
          intro n3
          apply allWf_andThen (allWf_ite (findKeyArr_wf cfg hdir _ ⟨wfSubject_graph hs, fun p hp => by simp at hp⟩ _ ms _) (allWf_ok listWf_nil))
          intro n4
          refine allWf_andThen (findKeyArr_wf cfg hdir _ ?_ _ ms _) ?_
          · exact ⟨hc.graph, fun p hp => by cases hp⟩
          intro n5
          exact members_wf cfg hdir _ (hc1 _) hs ms _

theorem decodeItems_wf (cfg : Cfg) (hdir : cfg.dir ≠ .other) (c : ECtx) (hc : CtxOK c) :
    ∀ (xs : List Exp) (n : Nat), AllWf (decodeItems cfg c xs n)
  | [], n => by rw [decodeItems]; exact allWf_ok listWf_nil
  | x :: xs, n => by
    rw [decodeItems]
    exact allWf_andThen (decodeElement_wf cfg hdir c hc x n) (fun n1 => decodeItems_wf cfg hdir c hc xs n1)

theorem findList_wf (cfg : Cfg) (hdir : cfg.dir ≠ .other) (c : ECtx) (hc : CtxOK c) :
    ∀ (ms : List (Str × Exp)) (n : Nat), AllWf (findList cfg c ms n)
  | [], n => by rw [findList]; exact allWf_ok listWf_nil
  | (k, v) :: rest, n => by
    have ih := findList_wf cfg hdir c hc rest n
    by_cases hk : k = kList
    · cases v with
      | arr xs =>
        cases xs with
        | nil =>
          rw [findList, if_pos hk]
          cases hp : c.prop with
          | none => exact allWf_ok listWf_nil
          | some p =>
            have := hc.prop p hp
            exact allWf_ok (listWf_cons (wfrq_mk this.1 this.2 rfl hc.graph) listWf_nil)
        | cons x xs =>
          rw [findList, if_pos hk]
          apply allWf_pre
          · cases hp : c.prop with
            | none => exact listWf_nil
            | some p =>
              have := hc.prop p hp
              exact listWf_cons (wfrq_mk this.1 this.2 rfl hc.graph) listWf_nil
          · exact listCells_wf cfg hdir c hc _ (bnode_wf _) true (x :: xs) _
      | nil => rw [findList, if_pos hk] <;> first | exact allWf_err listWf_nil | simp
      | obj _ => rw [findList, if_pos hk] <;> first | exact allWf_err listWf_nil | simp
      | prim _ _ => rw [findList, if_pos hk] <;> first | exact allWf_err listWf_nil | simp
    · cases v with
      | arr xs =>
        cases xs with
        | nil => rw [findList, if_neg hk]; exact ih
        | cons x xs => rw [findList, if_neg hk]; exact ih
      | nil => rw [findList, if_neg hk] <;> first | exact ih | simp
      | obj _ => rw [findList, if_neg hk] <;> first | exact ih | simp
      | prim _ _ => rw [findList, if_neg hk] <;> first | exact ih | simp

theorem listCells_wf (cfg : Cfg) (hdir : cfg.dir ≠ .other) (c : ECtx) (hc : CtxOK c) (cell : T) (hcell : wfSubject (some cell) = true)
    (first : Bool) : ∀ (xs : List Exp) (n : Nat), AllWf (JLD.listCells cfg c cell first xs n)
  | [], n => by
    rw [JLD.listCells]
    split
    · exact allWf_ok (listWf_cons (wfrq_mk hcell preds_ne.2.2.2.2.2 rfl hc.graph) listWf_nil)
    · exact allWf_ok listWf_nil
  | x :: xs, n => by
    rw [JLD.listCells]
    split
    · apply allWf_pre (listWf_cons (wfrq_mk hcell preds_ne.2.2.2.2.2 rfl hc.graph) listWf_nil)
      exact allWf_andThen (allWf_wrapList (decodeElement_wf cfg hdir _ (ctxOK_list hc _ (bnode_wf _)) x _))
        (fun n1 => listCells_wf cfg hdir c hc _ (bnode_wf _) false xs n1)
    · exact allWf_andThen (allWf_wrapList (decodeElement_wf cfg hdir _ (ctxOK_list hc _ hcell) x _))
        (fun n1 => listCells_wf cfg hdir c hc _ hcell false xs n1)

theorem findKeyArr_wf (cfg : Cfg) (hdir : cfg.dir ≠ .other) (c : ECtx) (hc : CtxOK c) (key : Str) :
    ∀ (ms : List (Str × Exp)) (n : Nat), AllWf (findKeyArr cfg c key ms n)
  | [], n => by rw [findKeyArr]; exact allWf_ok listWf_nil
  | (k, v) :: rest, n => by
    have ih := findKeyArr_wf cfg hdir c hc key rest n
    by_cases hk : k = key
    · cases v with
      | arr xs =>
        rw [findKeyArr, if_pos hk]
        exact decodeItems_wf cfg hdir c hc xs n
      | nil => rw [findKeyArr, if_pos hk] <;> first | exact allWf_err listWf_nil | simp
      | obj _ => rw [findKeyArr, if_pos hk] <;> first | exact allWf_err listWf_nil | simp
      | prim _ _ => rw [findKeyArr, if_pos hk] <;> first | exact allWf_err listWf_nil | simp
    · cases v <;> (rw [findKeyArr, if_neg hk] <;> first | exact ih | simp)

theorem findReverse_wf (cfg : Cfg) (hdir : cfg.dir ≠ .other) (c : ECtx) (hc : CtxOK c) (hs : wfSubject c.subj = true) :
    ∀ (ms : List (Str × Exp)) (n : Nat), AllWf (findReverse cfg c ms n)
  | [], n => by rw [findReverse]; exact allWf_ok listWf_nil
  | (k, v) :: rest, n => by
    have ih := findReverse_wf cfg hdir c hc hs rest n
    by_cases hk : k = kReverse
    · cases v with
      | obj rms =>
        rw [findReverse, if_pos hk]
        exact reverseMembers_wf cfg hdir c hc hs rms n
      | nil => rw [findReverse, if_pos hk] <;> first | exact allWf_err listWf_nil | simp
      | arr _ => rw [findReverse, if_pos hk] <;> first | exact allWf_err listWf_nil | simp
      | prim _ _ => rw [findReverse, if_pos hk] <;> first | exact allWf_err listWf_nil | simp
    · cases v <;> (rw [findReverse, if_neg hk] <;> first | exact ih | simp)

theorem reverseMembers_wf (cfg : Cfg) (hdir : cfg.dir ≠ .other) (c : ECtx) (hc : CtxOK c) (hs : wfSubject c.subj = true) :
    ∀ (ms : List (Str × Exp)) (n : Nat), AllWf (reverseMembers cfg c ms n)
  | [], n => by rw [reverseMembers]; exact allWf_ok listWf_nil
  | (k, v) :: rest, n => by
    have ih := fun n1 => reverseMembers_wf cfg hdir c hc hs rest n1
    cases v with
    | arr xs =>
      rw [reverseMembers]
      split
      · exact ih n
      · rename_i prop hk
        exact allWf_andThen (decodeItems_wf cfg hdir _ (ctxOK_member hc hs hk) xs n) ih
    | nil =>
      rw [reverseMembers]
      · split
        · exact ih n
        · exact allWf_andThen (allWf_err listWf_nil) ih
      all_goals simp
    | obj _ =>
      rw [reverseMembers]
      · split
        · exact ih n
        · exact allWf_andThen (allWf_err listWf_nil) ih
      all_goals simp
    | prim _ _ =>
      rw [reverseMembers]
      · split
        · exact ih n
        · exact allWf_andThen (allWf_err listWf_nil) ih
      all_goals simp

theorem members_wf (cfg : Cfg) (hdir : cfg.dir ≠ .other) (c : ECtx) (hc : CtxOK c) (hs : wfSubject c.subj = true) :
    ∀ (ms : List (Str × Exp)) (n : Nat), AllWf (members cfg c ms n)
  | [], n => by rw [members]; exact allWf_ok listWf_nil
  | (k, v) :: rest, n => by
    have ih := fun n1 => members_wf cfg hdir c hc hs rest n1
    cases v with
    | arr xs =>
      rw [members]
      split
      · exact ih n
      · rename_i prop hk
        exact allWf_andThen (decodeItems_wf cfg hdir _ (ctxOK_member (r := c.rev) hc hs hk) xs n) ih
    | nil =>
      rw [members]
      · split
        · exact ih n
        · exact allWf_andThen (allWf_err listWf_nil) ih
      all_goals simp
    | obj _ =>
      rw [members]
      · split
        · exact ih n
        · exact allWf_andThen (allWf_err listWf_nil) ih
      all_goals simp
    | prim _ _ =>
      rw [members]
      · split
        · exact ih n
        · exact allWf_andThen (allWf_err listWf_nil) ih
      all_goals simp
end

end RdfModel.Proofs.C10D
