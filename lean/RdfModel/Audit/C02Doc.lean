/-
  Axiom audit for the document-level theorems of property C02 (parsed by ./check).
-/
import RdfModel.Props.C02Doc
import RdfModel.Props.C02DocNest

#print axioms RdfModel.C02.gen_turtle_doc_ok
#print axioms RdfModel.C02.docCfg_ok
#print axioms RdfModel.C02.writeIRI_expand
#print axioms RdfModel.C02.plain_doc_roundtrip
#print axioms RdfModel.C02.plain_doc_iso
#print axioms RdfModel.C02.tripleOfStmt_stmtOf
#print axioms RdfModel.C02.new_pm_agree
#print axioms RdfModel.C02.resources_doc_roundtrip_partial
#print axioms RdfModel.C02.flatTriples_newTriples
#print axioms RdfModel.C02.typed_list_witness
#print axioms RdfModel.C02.Example.cfg_ok
#print axioms RdfModel.C02.Example.label_ok
#print axioms RdfModel.C02.Example.ts_ok
#print axioms RdfModel.C02.Example.res_ok
#print axioms RdfModel.C02.tokPrint_of
#print axioms RdfModel.C02.docCfg_nest_ok
#print axioms RdfModel.C02.nested_doc_roundtrip_hdr_partial
#print axioms RdfModel.C02.nested_doc_roundtrip_partial
#print axioms RdfModel.C02.NestExample.cfg_ok
#print axioms RdfModel.C02.nested_doc_roundtrip_real
#print axioms RdfModel.C02.iso_trans
#print axioms RdfModel.C02.buffered_resources_roundtrip
#print axioms RdfModel.C02.NestExample.rs_ok
#print axioms RdfModel.C02.resources_doc_roundtrip_holds
#print axioms RdfModel.C02.nested_doc_roundtrip
