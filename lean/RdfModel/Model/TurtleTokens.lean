/-
  RdfModel.Model.TurtleTokens — executable model of the *token layer* of encoding/turtle and
  encoding/trig (the trig package carries copies of every producer: ONE model, T3 is run against
  both Go packages).

  ## STABLE INTERFACE (do not rename; `Model/TurtleDoc.lean` imports these)

  namespace `RdfModel.Ttl`

    abbrev End    := NQ.End          -- how the rune stream ends: `.eof | .ioerr`
    abbrev EClass := NQ.EClass       -- error classes `.eof | .io | .syntax` (`.url` never produced here)

    inductive Res (α) | ok (v : α) (rest : List Nat) | err (e : EClass) | panic

    structure Tables                 -- T1 tables, instances `Gen.turtle`, `Gen.trig` (Gen/TtlTables.lean)

    inductive NumKind | integer | decimal | double

  Every producer takes the remaining input *including* the rune `r0` the Go caller has already read
  and passes as argument (`[]` = the caller's `NextRune` failed; answered with `.err e.cls`, the
  class every Go caller produces in that situation) and returns the token value and the input that
  remains in the decoder's rune buffer afterwards (backtracked runes included).

    produceIRIREF         (T) (e : End) : List Nat → Res (List Nat)               -- decoded IRI reference
    produceString         (T) (e : End) : List Nat → Res (List Nat)               -- decoded lexical form
    producePNAME_NS       (T) (e : End) : List Nat → Res (List Nat)               -- prefix label (without ':')
    producePrefixedName   (T) (e : End) : List Nat → Res (List Nat × List Nat)    -- (prefix label, local name)
    produceBlankNode      (T) (e : End) : List Nat → Res (List Nat)               -- label (without "_:")
    produceLANGTAG            (e : End) : List Nat → Res (List Nat)               -- tag (without '@')
    produceNumericLiteral     (e : End) : List Nat → Res (NumKind × List Nat)     -- (grammar rule, lexical form)
    scanBoolean               (e : End) : List Nat → BoolRes   -- the `true`/`false` branch of reader_scan_Object

  Encoder side:

    formatIRI (T) (ascii) (s)                 : List Nat            -- format_iri.go
    formatLiteralLexicalForm (T) (ascii) (s)  : List Nat            -- format_literal.go, includes the quotes
    format_PN_LOCAL (T) (s)                   : Option (List Nat)   -- format_prefix_local_name.go (repaired: D5)
    bareLiteralDatatype (lex)                 : Option (List Nat)   -- which datatype the bare token `lex` reads back as
    literalShorthand (dt lex)                 : Bool                -- encoder.go writeObjectValue (repaired: D4)

  Sources modelled (turtle; the trig copies differ in local variable names only, see the notes at
  `producePNAME_NS`): decoder_produce_iriref.go, decoder_produce_string.go,
  decoder_produce_PrefixedName.go, decoder_produce_BlankNode.go, decoder_produce_langtag.go,
  decoder_produce_NumericLiteral.go, decoder_scan_uchar.go, format_iri.go, format_literal.go,
  format_prefix_local_name.go, encoder.go (writeObjectValue shorthand decision),
  decoder_scan_object.go (boolean keywords only).

  Rune classifiers and escape selectors are T1 tables; the inline `switch` cases of the producers
  are written out here and tied by T3 (`go/cmd/c02tok`). Text offsets are not modelled.
-/
import RdfModel.Model.NQuads
namespace RdfModel.Ttl
open RdfModel

abbrev End := NQ.End
abbrev EClass := NQ.EClass

/-- Result of a producer. `panic` = the Go code would index a slice out of range. -/
inductive Res (α : Type) where
  | ok (v : α) (rest : List Nat)
  | err (e : EClass)
  | panic
  deriving Repr

/-- Tables regenerated from Go (Gen/TtlTables.lean). -/
structure Tables where
  /-- `iriMustEscapeRune(r, ascii)`: 0 none, 1 UCHAR4, 2 UCHAR8 -/
  iriEsc : Bool → RangeTable
  /-- `literalStringMustEscapeRune(r, ascii)`: 0 none, 1 ECHAR, 2 UCHAR4, 3 UCHAR8 -/
  litEsc : Bool → RangeTable
  /-- second rune written by `formatLiteralLexicalForm` for an ECHAR rune (0 = slot left untouched) -/
  echar : RangeTable
  /-- `prefixLocalNameMustEscapeRune(r, pos, length)` by `(pos == 0)`, `(pos == length-1)`:
      0 none, 1 PERCENT, 2 PN_LOCAL_ESC (backslash), 3 not representable in a PN_LOCAL -/
  localEsc : Bool → Bool → RangeTable
  /-- `internal.HexDecode`: 0 = not ok, v+1 = value v -/
  hexDec : RangeTable
  pnCharsBase : RangeSet
  pnCharsU : RangeSet
  pnChars : RangeSet

/-! ## Encoder side -/

def escIRIRune (T : Tables) (ascii : Bool) (r : Nat) : List Nat :=
  match lookup (T.iriEsc ascii) 0 r with
  | 1 => 0x5c :: 0x75 :: hex4 r
  | 2 => 0x5c :: 0x55 :: hex8 r
  | _ => [r]

/-- `formatIRI` (without the angle brackets, which the callers add). -/
def formatIRI (T : Tables) (ascii : Bool) (s : List Nat) : List Nat := s.flatMap (escIRIRune T ascii)

def escLitRune (T : Tables) (ascii : Bool) (r : Nat) : List Nat :=
  match lookup (T.litEsc ascii) 0 r with
  | 1 => [0x5c, lookup T.echar 0 r]
  | 2 => 0x5c :: 0x75 :: hex4 r
  | 3 => 0x5c :: 0x55 :: hex8 r
  | _ => [r]

def litBody (T : Tables) (ascii : Bool) (s : List Nat) : List Nat := s.flatMap (escLitRune T ascii)

/-- `formatLiteralLexicalForm`: always the `"…"` style. -/
def formatLiteralLexicalForm (T : Tables) (ascii : Bool) (s : List Nat) : List Nat :=
  0x22 :: (litBody T ascii s ++ [0x22])

/-- `format_PN_LOCAL` from position `first`; `none` = some rune cannot be written in a PN_LOCAL
    without changing the IRI (repaired code, D5: returns `ok = false`, the caller falls back to `<…>`).
    Mode 1 (runes that are not IRI characters at all: controls, space, `<>"{}|^\``, backslash) is
    percent-encoded with the low byte, as before the repair. -/
def formatLocalFrom (T : Tables) : Bool → List Nat → Option (List Nat)
  | _, [] => some []
  | first, c :: rest =>
    match lookup (T.localEsc first rest.isEmpty) 0 c with
    | 0 => (formatLocalFrom T false rest).map (fun t => c :: t)
    | 1 => (formatLocalFrom T false rest).map (fun t => 0x25 :: hexUpper (c / 16 % 16) :: hexUpper (c % 16) :: t)
    | 2 => (formatLocalFrom T false rest).map (fun t => 0x5c :: c :: t)
    | _ => none

def format_PN_LOCAL (T : Tables) (s : List Nat) : Option (List Nat) := formatLocalFrom T true s

def isDigit (c : Nat) : Bool := NQ.isDigit c
def isAlpha (c : Nat) : Bool := NQ.isAlpha c

def xsdInteger : List Nat := asc "http://www.w3.org/2001/XMLSchema#integer"
def xsdDecimal : List Nat := asc "http://www.w3.org/2001/XMLSchema#decimal"
def xsdDouble : List Nat := asc "http://www.w3.org/2001/XMLSchema#double"
def xsdBoolean : List Nat := asc "http://www.w3.org/2001/XMLSchema#boolean"
def xsdLong : List Nat := asc "http://www.w3.org/2001/XMLSchema#long"

/-- Leading run of digits: (number of digits, remainder). -/
def spanDigits : List Nat → Nat × List Nat
  | [] => (0, [])
  | c :: rest => if isDigit c then let (n, r) := spanDigits rest; (n + 1, r) else (0, c :: rest)

def dropSign : List Nat → List Nat
  | c :: rest => if c = 0x2b ∨ c = 0x2d then rest else c :: rest
  | [] => []

/-- `bareLiteralDatatype` (repaired encoder, D4): the datatype a Turtle reader assigns to the bare
    token `lex` — `true`/`false`, INTEGER, DECIMAL, DOUBLE — or `none` when `lex` is no such token. -/
def bareLiteralDatatype (lex : List Nat) : Option (List Nat) :=
  if lex = asc "true" ∨ lex = asc "false" then some xsdBoolean
  else
    let (nInt, r1) := spanDigits (dropSign lex)
    let (hasDot, nFrac, r2) :=
      (match r1 with
        | c :: r => if c = 0x2e then let (n, r') := spanDigits r; (true, n, r') else (false, 0, c :: r)
        | [] => (false, 0, []))
    match r2 with
    | [] =>
      if !hasDot && nInt > 0 then some xsdInteger
      else if hasDot && nFrac > 0 then some xsdDecimal
      else none
    | c :: r =>
      if c = 0x65 ∨ c = 0x45 then
        let (nExp, r3) := spanDigits (dropSign r)
        if r3 = [] ∧ nExp > 0 ∧ (nInt > 0 ∨ nFrac > 0) then some xsdDouble else none
      else none

/-- `writeObjectValue`: is the literal written as a bare token? (repaired, D4: only when the token
    reads back with the same datatype; never for `xsd:long`). -/
def literalShorthand (dt lex : List Nat) : Bool := bareLiteralDatatype lex = some dt

/-! ## Decoder side -/

abbrev SState := NQ.SState
abbrev uchar4Maxs := NQ.uchar4Maxs
abbrev uchar8Maxs := NQ.uchar8Maxs
abbrev echarDecode := NQ.echarDecode

/-- Characters `produceIRIREF` refuses raw. -/
def iriForbidden (c : Nat) : Bool :=
  c ≤ 0x20 || c = 0x3c || c = 0x22 || c = 0x7b || c = 0x7d || c = 0x7c || c = 0x5e || c = 0x60

/-- Body of `produceIRIREF` after the opening `<`; UCHAR decoding (`decodeUCHAR4/8`) is the `.hex` state. -/
def scanIRIREF (T : Tables) (e : End) : SState → List Nat → List Nat → Res (List Nat)
  | _, [], _ => .err e.cls
  | .body, c :: rest, acc =>
    if c = 0x3e then .ok (goString acc.reverse) rest
    else if c = 0x5c then scanIRIREF T e .esc rest acc
    else if iriForbidden c then .err .syntax
    else scanIRIREF T e .body rest (c :: acc)
  | .esc, c :: rest, acc =>
    if c = 0x75 then scanIRIREF T e (.hex uchar4Maxs 0) rest acc
    else if c = 0x55 then scanIRIREF T e (.hex uchar8Maxs 0) rest acc
    else .err .syntax
  | .hex [] _, _ :: _, _ => .err .syntax  -- unreachable: `hex` is always entered with digits to read
  | .hex (m :: ms) v, c :: rest, acc =>
    match lookup T.hexDec 0 c with
    | 0 => .err .syntax
    | d + 1 =>
      if d > m then .err .syntax
      else match ms with
        | [] => scanIRIREF T e .body rest ((v * 16 + d) :: acc)
        | _ :: _ => scanIRIREF T e (.hex ms (v * 16 + d)) rest acc

/-- `produceIRIREF`. -/
def produceIRIREF (T : Tables) (e : End) : List Nat → Res (List Nat)
  | [] => .err e.cls
  | c :: rest => if c = 0x3c then scanIRIREF T e .body rest [] else .err .syntax

/-- Body loop of `produceString` (label START_DELIMITER_DONE). `delim` is the quote rune, `triple`
    the long-string flag. -/
def scanString (T : Tables) (e : End) (delim : Nat) (triple : Bool) :
    SState → List Nat → List Nat → Res (List Nat)
  | _, [], _ => .err e.cls
  | .body, c :: rest, acc =>
    if c = 0x22 ∨ c = 0x27 then
      if c = delim then
        if !triple then .ok (goString acc.reverse) rest
        else match rest with
          | [] => .err e.cls
          | c1 :: r1 =>
            if c1 = delim then
              match r1 with
              | [] => .err e.cls
              | c2 :: r2 =>
                if c2 = delim then .ok (goString acc.reverse) r2
                else scanString T e delim triple .body rest (c :: acc)   -- BacktrackRunes(r1, r2)
            else scanString T e delim triple .body rest (c :: acc)       -- BacktrackRunes(r1)
      else scanString T e delim triple .body rest (c :: acc)
    else if c = 0x5c then scanString T e delim triple .esc rest acc
    else scanString T e delim triple .body rest (c :: acc)
  | .esc, c :: rest, acc =>
    if c = 0x75 then scanString T e delim triple (.hex uchar4Maxs 0) rest acc
    else if c = 0x55 then scanString T e delim triple (.hex uchar8Maxs 0) rest acc
    else match echarDecode c with
      | some d => scanString T e delim triple .body rest (d :: acc)
      | none => .err .syntax
  | .hex [] _, _ :: _, _ => .err .syntax
  | .hex (m :: ms) v, c :: rest, acc =>
    match lookup T.hexDec 0 c with
    | 0 => .err .syntax
    | d + 1 =>
      if d > m then .err .syntax
      else match ms with
        | [] => scanString T e delim triple .body rest ((v * 16 + d) :: acc)
        | _ :: _ => scanString T e delim triple (.hex ms (v * 16 + d)) rest acc

/-- `produceString`: all four quoting styles. -/
def produceString (T : Tables) (e : End) : List Nat → Res (List Nat)
  | [] => .err e.cls
  | q :: rest =>
    if q = 0x22 ∨ q = 0x27 then
      match rest with
      | [] => .err e.cls
      | c1 :: r1 =>
        if c1 = q then
          match r1 with
          | [] => (match e with | .eof => .ok [] [] | .ioerr => .err .io)   -- `""` at the end of input
          | c2 :: r2 =>
            if c2 = q then scanString T e q true .body r2 []
            else .ok [] (c2 :: r2)                                           -- empty string, BacktrackRunes(r1)
        else scanString T e q false .body (c1 :: r1) []                      -- BacktrackRunes(r0)
    else .err .syntax

/-- DONE of `produceLANGTAG`: `acc` is the reversed tag (without `@`). -/
def langDone (acc rest : List Nat) : Res (List Nat) :=
  if acc.head? = some 0x2d then .err .syntax else .ok (goString acc.reverse) rest

/-- Second loop of `produceLANGTAG` (after the first `-`). -/
def langSecondary (e : End) : List Nat → List Nat → Res (List Nat)
  | [], acc => (match e with | .eof => langDone acc [] | .ioerr => .err .io)
  | c :: rest, acc =>
    if isAlpha c || isDigit c then langSecondary e rest (c :: acc)
    else if c = 0x2d then
      (if acc.head? = some 0x2d then .err .syntax else langSecondary e rest (c :: acc))
    else langDone acc (c :: rest)

/-- First loop of `produceLANGTAG` (after `@`). -/
def langPrimary (e : End) : List Nat → List Nat → Res (List Nat)
  | [], acc =>
    (match e with
      | .eof => if acc.isEmpty then .err .eof else langDone acc []
      | .ioerr => .err .io)
  | c :: rest, acc =>
    if isAlpha c then langPrimary e rest (c :: acc)
    else if c = 0x2d then
      (if acc.isEmpty then .err .syntax else langSecondary e rest (c :: acc))
    else if acc.isEmpty then .err .syntax
    else langDone acc (c :: rest)

/-- `produceLANGTAG`. -/
def produceLANGTAG (e : End) : List Nat → Res (List Nat)
  | [] => .err e.cls
  | c :: rest => if c = 0x40 then langPrimary e rest [] else .err .syntax

/-- DONE of `produceBlankNode`: `acc` is the reversed label. -/
def bnDone (T : Tables) (acc rest : List Nat) : Res (List Nat) :=
  match acc with
  | [] => .panic                       -- `uncommitted[len(uncommitted)-1]` on an empty slice
  | l :: more =>
    let (acc', rest') := if l = 0x2e then (more, 0x2e :: rest) else (acc, rest)
    match acc' with
    | [] => .ok [] rest'               -- not reachable: the first rune is never '.'
    | z :: more' =>
      if !more'.isEmpty && !inRanges T.pnChars z then .err .syntax
      else .ok (goString acc'.reverse) rest'

def bnLoop (T : Tables) (e : End) : List Nat → List Nat → Res (List Nat)
  | [], acc => (match e with | .eof => bnDone T acc [] | .ioerr => .err .io)
  | c :: rest, acc =>
    if inRanges T.pnChars c || c = 0x2e then bnLoop T e rest (c :: acc)
    else bnDone T acc (c :: rest)

/-- `produceBlankNode`. A failing read right after `_` is reported as an unexpected rune (`syntax`),
    whatever the reader's error was — as the Go code does. -/
def produceBlankNode (T : Tables) (e : End) : List Nat → Res (List Nat)
  | [] => .err e.cls
  | c0 :: r0 =>
    if c0 ≠ 0x5f then .err .syntax
    else match r0 with
      | [] => .err .syntax
      | c1 :: r1 =>
        if c1 ≠ 0x3a then .err .syntax
        else match r1 with
          | [] => .err e.cls
          | c2 :: r2 =>
            if inRanges T.pnCharsU c2 || isDigit c2 then bnLoop T e r2 [c2] else .err .syntax

inductive NumKind where | integer | decimal | double
  deriving Repr, DecidableEq, Inhabited

/-- Loops of `produceNumericLiteral`: SIGN_DONE, INTEGER_DONE, DECIMAL_DONE, EXPONENT_SIGN_DONE. -/
inductive NState where | sign | int | exp0 | exp
  deriving Repr, DecidableEq

/-- DONE of `produceNumericLiteral`; `k = none` is `grammar.R_NumericLiteral` (not yet refined). -/
def numDone (acc : List Nat) (k : Option NumKind) (rest : List Nat) : Res (NumKind × List Nat) :=
  match acc with
  | [] => .panic                       -- `uncommitted[len(uncommitted)-1]` on an empty slice
  | l :: more =>
    if l = 0x2e then .ok (.integer, goString more.reverse) (0x2e :: rest)
    else if l = 0x2d ∨ l = 0x2b ∨ l = 0x65 ∨ l = 0x45 then .err .syntax
    else .ok (k.getD .integer, goString acc.reverse) rest

def scanNum (e : End) : NState → Option NumKind → List Nat → List Nat → Res (NumKind × List Nat)
  | .exp0, _, [], _ => .err e.cls
  | _, k, [], acc => (match e with | .eof => numDone acc k [] | .ioerr => .err .io)
  | .sign, k, c :: rest, acc =>
    if isDigit c then scanNum e .sign k rest (c :: acc)
    else if c = 0x2e then scanNum e .int (some .decimal) rest (c :: acc)
    else if c = 0x65 ∨ c = 0x45 then scanNum e .exp0 (some .double) rest (c :: acc)
    else numDone acc k (c :: rest)
  | .int, k, c :: rest, acc =>
    if isDigit c then scanNum e .int k rest (c :: acc)
    else if c = 0x65 ∨ c = 0x45 then scanNum e .exp0 (some .double) rest (c :: acc)
    else numDone acc k (c :: rest)
  | .exp0, k, c :: rest, acc =>
    if c = 0x2d ∨ c = 0x2b ∨ isDigit c then scanNum e .exp k rest (c :: acc)
    else .err .syntax
  | .exp, k, c :: rest, acc =>
    if isDigit c then scanNum e .exp k rest (c :: acc)
    else numDone acc k (c :: rest)

/-- `produceNumericLiteral`. -/
def produceNumericLiteral (e : End) : List Nat → Res (NumKind × List Nat)
  | [] => .err e.cls
  | c :: rest =>
    if c = 0x2d ∨ c = 0x2b ∨ isDigit c then scanNum e .sign none rest [c]
    else if c = 0x2e then scanNum e .int (some .decimal) rest [c]
    else .err .syntax

def NumKind.datatype : NumKind → List Nat
  | .integer => xsdInteger
  | .decimal => xsdDecimal
  | .double => xsdDouble

/-- The `t`/`f` branches of `reader_scan_Object`: `.bool b rest` = keyword read (whatever follows),
    `.other` = every rune is pushed back and the input is scanned as a prefixed name instead,
    `.err` = the reader failed inside the keyword. -/
inductive BoolRes where
  | bool (b : Bool) (rest : List Nat)
  | other
  | err (e : EClass)
  deriving Repr

def matchKeyword (e : End) : List Nat → List Nat → Option (Option (List Nat))
  | [], rest => some (some rest)
  | _ :: _, [] => none                  -- reader error inside the keyword
  | k :: ks, c :: rest => if c = k then matchKeyword e ks rest else some none

def scanBoolean (e : End) : List Nat → BoolRes
  | [] => .err e.cls
  | c :: rest =>
    if c = 0x74 then
      (match matchKeyword e (asc "rue") rest with
        | none => .err e.cls
        | some none => .other
        | some (some r) => .bool true r)
    else if c = 0x66 then
      (match matchKeyword e (asc "alse") rest with
        | none => .err e.cls
        | some none => .other
        | some (some r) => .bool false r)
    else .other

/-- `producePNAME_NS` loop after a first PN_CHARS_BASE rune. Without a `:` the turtle copy
    backtracks and then reports the missing colon, the trig copy reports the unexpected rune
    directly: both are `syntax`. -/
def pnameNsLoop (T : Tables) (e : End) : List Nat → List Nat → Res (List Nat)
  | [], _ => .err e.cls
  | c :: rest, acc =>
    if c = 0x3a then .ok (goString acc.reverse) rest
    else if inRanges T.pnChars c || c = 0x2e then pnameNsLoop T e rest (c :: acc)
    else .err .syntax

/-- `producePNAME_NS`. -/
def producePNAME_NS (T : Tables) (e : End) : List Nat → Res (List Nat)
  | [] => .err e.cls
  | c :: rest =>
    if c = 0x3a then .ok [] rest
    else if inRanges T.pnCharsBase c then pnameNsLoop T e rest [c]
    else .err .syntax

/-- PN_LOCAL_ESC characters accepted after a backslash. -/
def isLocalEsc (c : Nat) : Bool :=
  c = 0x5f || c = 0x7e || c = 0x2e || c = 0x2d || c = 0x21 || c = 0x24 || c = 0x26 || c = 0x27 ||
  c = 0x28 || c = 0x29 || c = 0x2a || c = 0x2b || c = 0x2c || c = 0x3b || c = 0x3d || c = 0x2f ||
  c = 0x3f || c = 0x23 || c = 0x40 || c = 0x25

/-- Scanner states of the PN_LOCAL part of `producePrefixedName`. -/
inductive LState where
  | first                 -- the block before the loop (first rune of the local name)
  | body                  -- the `for` loop
  | pct1                  -- after '%'
  | pct2 (h : Nat)        -- after '%' and one hex digit
  | esc                   -- after '\'
  deriving Repr

/-- PN_LOCAL_DONE (repaired, D6): a final '.' that was not written as `\.` is handed back. -/
def localDone (acc : List Nat) (lastEsc : Bool) (rest : List Nat) : Res (List Nat) :=
  match acc with
  | [] => .panic                       -- `decodedLocal[len(decodedLocal)-1]` on an empty slice
  | l :: more =>
    if l = 0x2e && !lastEsc then .ok (goString more.reverse) (0x2e :: rest)
    else .ok (goString acc.reverse) rest

/-- The PN_LOCAL part of `producePrefixedName`: `acc` is the reversed decoded local name, `le` says
    whether its last rune came from a `\x` escape. The `%`/`\` sub-states are shared by the first
    block and the loop (both continue in the loop). -/
def scanLocal (T : Tables) (e : End) : LState → List Nat → List Nat → Bool → Res (List Nat)
  | .first, [], _, _ => (match e with | .eof => .ok [] [] | .ioerr => .err .io)
  | .body, [], acc, le => (match e with | .eof => localDone acc le [] | .ioerr => .err .io)
  | .pct1, [], _, _ => .err e.cls
  | .pct2 _, [], _, _ => .err e.cls
  | .esc, [], _, _ => .err e.cls
  | .first, c :: rest, acc, le =>
    if inRanges T.pnCharsU c || c = 0x3a || isDigit c then scanLocal T e .body rest (c :: acc) false
    else if c = 0x25 then scanLocal T e .pct1 rest acc le
    else if c = 0x5c then scanLocal T e .esc rest acc le
    else .ok [] (c :: rest)
  | .body, c :: rest, acc, le =>
    if inRanges T.pnChars c || c = 0x2e || c = 0x3a then scanLocal T e .body rest (c :: acc) false
    else if c = 0x25 then scanLocal T e .pct1 rest acc le
    else if c = 0x5c then scanLocal T e .esc rest acc le
    else localDone acc le (c :: rest)
  | .pct1, c :: rest, acc, le =>
    if lookup T.hexDec 0 c = 0 then .err .syntax else scanLocal T e (.pct2 c) rest acc le
  | .pct2 h, c :: rest, acc, _ =>
    if lookup T.hexDec 0 c = 0 then .err .syntax
    else scanLocal T e .body rest (c :: h :: 0x25 :: acc) false
  | .esc, c :: rest, acc, _ =>
    if isLocalEsc c then scanLocal T e .body rest (c :: acc) true else .err .syntax

/-- `producePrefixedName`: `(prefix label, local name)`. -/
def producePrefixedName (T : Tables) (e : End) (inp : List Nat) : Res (List Nat × List Nat) :=
  match producePNAME_NS T e inp with
  | .err c => .err c
  | .panic => .panic
  | .ok ns rest =>
    match scanLocal T e .first rest [] false with
    | .ok loc rest' => .ok (ns, loc) rest'
    | .err c => .err c
    | .panic => .panic

end RdfModel.Ttl
