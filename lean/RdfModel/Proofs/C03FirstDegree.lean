/-
  Proofs.C03FirstDegree — the blank node to quads map of RDFC-1.0 (§4.4.3 step 2) in closed form,
  and the two invariance facts about Hash First Degree Quads (§4.6): the hash of a blank node does
  not depend on the order of the dataset, nor on an injective renaming of the blank nodes.
-/
import RdfModel.Spec.RDFC10
import RdfModel.Proofs.StrOrdLemmas
namespace RdfModel.Proofs.C03
open RdfModel RdfModel.Spec.RDFC10 RdfModel.Proofs.StrOrd

set_option linter.unusedSectionVars false

variable {β : Type} [DecidableEq β]

/-! ### one quad's contribution (step 2.1) -/

/-- Step 2.1 for one quad (`twice = true`). -/
def index1 (m : B2Q β) (q : Quad β) : B2Q β :=
  (quadBnodes q).foldl (fun m b => addToMap m b q) m

theorem bnodeToQuads_eq_foldl (qs : List (Quad β)) :
    bnodeToQuads true qs = qs.foldl index1 [] := by
  simp only [bnodeToQuads, if_true]
  rfl

theorem getList_foldl_addToMap (q : Quad β) (bs : List β) (m : B2Q β) (b : β) :
    getList (bs.foldl (fun m b => addToMap m b q) m) b
      = getList m b ++ List.replicate (bs.count b) q := by
  induction bs generalizing m with
  | nil => simp
  | cons a rest ih =>
    simp only [List.foldl_cons, ih, getList_addToMap]
    by_cases h : a = b
    · subst h
      simp [List.replicate_succ]
    · simp [h]

theorem getList_foldl_index1 (qs : List (Quad β)) (m : B2Q β) (b : β) :
    getList (qs.foldl index1 m) b
      = getList m b ++ qs.flatMap (fun q => List.replicate ((quadBnodes q).count b) q) := by
  induction qs generalizing m with
  | nil => simp
  | cons q rest ih =>
    simp only [List.foldl_cons, ih, index1, getList_foldl_addToMap, List.flatMap_cons,
      List.append_assoc]

/-- (a) The quads stored for `b`: every quad of the dataset, in dataset order, once per position
    in which it mentions `b`. -/
theorem getList_bnodeToQuads (qs : List (Quad β)) (b : β) :
    getList (bnodeToQuads true qs) b
      = qs.flatMap (fun q => List.replicate ((quadBnodes q).count b) q) := by
  rw [bnodeToQuads_eq_foldl, getList_foldl_index1]
  simp [getList]

/-! ### the key list -/

/-- Append the elements of `l` not yet present, in order. -/
def insertAll (ks : List β) (l : List β) : List β :=
  l.foldl (fun ks b => if b ∈ ks then ks else ks ++ [b]) ks

theorem keys_foldl_addToMap (q : Quad β) (bs : List β) (m : B2Q β) :
    (bs.foldl (fun m b => addToMap m b q) m).map (·.1) = insertAll (m.map (·.1)) bs := by
  induction bs generalizing m with
  | nil => simp [insertAll]
  | cons a rest ih =>
    simp only [List.foldl_cons, ih, keys_addToMap, insertAll]

theorem insertAll_append (ks l1 l2 : List β) :
    insertAll ks (l1 ++ l2) = insertAll (insertAll ks l1) l2 := by
  simp [insertAll, List.foldl_append]

theorem keys_foldl_index1 (qs : List (Quad β)) (m : B2Q β) :
    (qs.foldl index1 m).map (·.1) = insertAll (m.map (·.1)) (qs.flatMap quadBnodes) := by
  induction qs generalizing m with
  | nil => simp [insertAll]
  | cons q rest ih =>
    simp only [List.foldl_cons, ih, index1, keys_foldl_addToMap, List.flatMap_cons,
      insertAll_append]

theorem insertAll_eq (ks l : List β) :
    insertAll ks l = ks ++ (l.filter (fun b => decide (b ∉ ks))).eraseDups := by
  induction l generalizing ks with
  | nil => simp [insertAll]
  | cons a rest ih =>
    have hstep : insertAll ks (a :: rest)
        = insertAll (if a ∈ ks then ks else ks ++ [a]) rest := by
      simp [insertAll]
    rw [hstep]
    by_cases h : a ∈ ks
    · simp only [h, if_true, ih]
      simp [h]
    · simp only [h, if_false, ih]
      simp only [List.filter_cons, h, not_false_eq_true, decide_true, if_true,
        List.eraseDups_cons, List.filter_filter, List.append_assoc, List.singleton_append]
      congr 3
      apply List.filter_congr
      intro x _
      by_cases hx : x = a
      · subst hx; simp
      · simp [hx]

/-- (b) The keys of the map: the blank nodes of the dataset in order of first occurrence. -/
theorem keys_bnodeToQuads (qs : List (Quad β)) :
    (bnodeToQuads true qs).map (·.1) = (qs.flatMap quadBnodes).eraseDups := by
  rw [bnodeToQuads_eq_foldl, keys_foldl_index1, insertAll_eq]
  have hf : ∀ l : List β, l.filter (fun b => decide (b ∉ ([] : List β))) = l := by
    intro l; rw [List.filter_eq_self]; simp
  simp only [List.map_nil, hf, List.nil_append]

theorem mem_keys_bnodeToQuads (qs : List (Quad β)) (b : β) :
    b ∈ (bnodeToQuads true qs).map (·.1) ↔ b ∈ qs.flatMap quadBnodes := by
  rw [keys_bnodeToQuads, List.mem_eraseDups]

theorem insertAll_nodup (ks l : List β) (h : ks.Nodup) : (insertAll ks l).Nodup := by
  induction l generalizing ks with
  | nil => simpa [insertAll] using h
  | cons a rest ih =>
    have hstep : insertAll ks (a :: rest)
        = insertAll (if a ∈ ks then ks else ks ++ [a]) rest := by
      simp [insertAll]
    rw [hstep]
    apply ih
    by_cases ha : a ∈ ks
    · simpa [ha] using h
    · simp only [ha, if_false]
      rw [List.nodup_append]
      refine ⟨h, by simp, ?_⟩
      intro x hx y hy
      simp at hy
      subst hy
      intro hxy
      exact ha (hxy ▸ hx)

theorem nodup_keys_bnodeToQuads (qs : List (Quad β)) :
    ((bnodeToQuads true qs).map (·.1)).Nodup := by
  rw [bnodeToQuads_eq_foldl, keys_foldl_index1]
  exact insertAll_nodup _ _ (by simp)

/-! ### Hash First Degree Quads: order of the dataset -/

/-- (c) -/
theorem first_degree_perm (H : Str → Str) {qs qs' : List (Quad β)} (h : qs.Perm qs') (b : β) :
    hashFirstDegree H (bnodeToQuads true qs) b = hashFirstDegree H (bnodeToQuads true qs') b := by
  unfold hashFirstDegree
  simp only [getList_bnodeToQuads]
  congr 2
  apply sortStr_eq_of_perm
  exact (h.flatMap_right _).map _

/-! ### Hash First Degree Quads: renaming -/

section rename
variable {γ : Type} [DecidableEq γ]

theorem bnodeOf_map (σ : β → γ) (t : Term β) : bnodeOf (t.map σ) = (bnodeOf t).map σ := by
  cases t <;> rfl

theorem quadBnodes_map (σ : β → γ) (q : Quad β) :
    quadBnodes (q.map σ) = (quadBnodes q).map σ := by
  obtain ⟨s, p, o, g⟩ := q
  cases g <;> simp [quadBnodes, Quad.map, bnodeOf_map]

theorem flatMap_quadBnodes_map (σ : β → γ) (qs : List (Quad β)) :
    (qs.map (Quad.map σ)).flatMap quadBnodes = (qs.flatMap quadBnodes).map σ := by
  induction qs with
  | nil => rfl
  | cons q rest ih => simp [List.flatMap_cons, ih, quadBnodes_map]

theorem count_map_injective (σ : β → γ) (hσ : Function.Injective σ) (b : β) (l : List β) :
    (l.map σ).count (σ b) = l.count b := by
  induction l with
  | nil => rfl
  | cons a rest ih =>
    simp only [List.map_cons, List.count_cons, ih]
    by_cases h : a = b
    · subst h; simp
    · have : ¬ σ a = σ b := fun e => h (hσ e)
      simp [h, this]

theorem term_map (lab : γ → Str) (σ : β → γ) (t : Term β) :
    term lab (t.map σ) = term (lab ∘ σ) t := by
  cases t <;> rfl

theorem nquad_map (lab : γ → Str) (σ : β → γ) (q : Quad β) :
    nquad lab (q.map σ) = nquad (lab ∘ σ) q := by
  obtain ⟨s, p, o, g⟩ := q
  cases g <;> simp [nquad, Quad.map, term_map]

theorem getList_bnodeToQuads_map (σ : β → γ) (hσ : Function.Injective σ) (qs : List (Quad β))
    (b : β) :
    getList (bnodeToQuads true (qs.map (Quad.map σ))) (σ b)
      = (getList (bnodeToQuads true qs) b).map (Quad.map σ) := by
  simp only [getList_bnodeToQuads]
  induction qs with
  | nil => rfl
  | cons q rest ih =>
    simp only [List.map_cons, List.flatMap_cons, ih, List.map_append, List.map_replicate,
      quadBnodes_map, count_map_injective σ hσ]

/-- (d) -/
theorem first_degree_rename (H : Str → Str) (σ : β → γ) (hσ : Function.Injective σ)
    (qs : List (Quad β)) (b : β) :
    hashFirstDegree H (bnodeToQuads true (qs.map (Quad.map σ))) (σ b)
      = hashFirstDegree H (bnodeToQuads true qs) b := by
  unfold hashFirstDegree
  simp only [getList_bnodeToQuads_map σ hσ, List.map_map]
  have hlab : (fun x : γ => if x = σ b then ([0x61] : Str) else [0x7a]) ∘ σ
      = (fun x : β => if x = b then ([0x61] : Str) else [0x7a]) := by
    funext x
    by_cases hx : x = b
    · subst hx; simp
    · have : ¬ σ x = σ b := fun e => hx (hσ e)
      simp [hx, this]
  have hfun : nquad (fun x : γ => if x = σ b then ([0x61] : Str) else [0x7a]) ∘ Quad.map σ
      = nquad (fun x : β => if x = b then ([0x61] : Str) else [0x7a]) := by
    funext q
    simp only [Function.comp_apply, nquad_map, hlab]
  rw [hfun]

end rename

end RdfModel.Proofs.C03
