/-
  C10 helper lemmas, part 8 (encoder direction): induction over the exported statements.

  For the tagged statements `l : List (TStmt β)` of an exported resource: the `graphProperties` map that
  `buildResource` fills from the untagged statements (`buildStmts E label (untags l)`) is related (`GR`) to
  the groups of the expected tree (`groupByKey (stmtTrees E l)`), nested AnonResources included.
-/
import RdfModel.Proofs.C10EncTree
namespace RdfModel.Proofs.C10
open RdfModel RdfModel.Desc RdfModel.JL RdfModel.JLEnc RdfModel.C10

variable {β : Type} [DecidableEq β]

mutual
/-- forget the blank node an AnonResource was made from -/
def untag : TStmt β → Stmt β
  | .obj p o => .obj p o
  | .anon _ p l => .anon p (untags l)
def untags : List (TStmt β) → List (Stmt β)
  | [] => []
  | x :: xs => untag x :: untags xs
end

mutual
/-- the (predicate, object) pairs of the builder a tagged statement was made from -/
def tpos : TStmt β → List (PO β)
  | .obj p o => [(p, o)]
  | .anon b p l => (p, .bnode b) :: tposL l
def tposL : List (TStmt β) → List (PO β)
  | [] => []
  | x :: xs => tpos x ++ tposL xs
end

/-! ### used prefixes -/

def pfxOf (E : Enc) (v : Str) : List Str :=
  match compactPrefix E v with
  | some (q, _) => [q]
  | none => []

theorem vocab_pfx (E : Enc) (v : Str) : (compactVocabIRI E v).2 = pfxOf E v := by
  unfold compactVocabIRI pfxOf
  cases compactPrefix E v with
  | none => rfl
  | some pr => obtain ⟨p, r⟩ := pr; simp only []; split <;> rfl

theorem doc_pfx (E : Enc) (v : Str) : (compactDocumentIRI E v).2 = pfxOf E v := by
  unfold compactDocumentIRI pfxOf
  cases compactPrefix E v with
  | none => simp only []; split <;> (try split) <;> (try split) <;> rfl
  | some pr => obtain ⟨p, r⟩ := pr; simp only []; split <;> (try split) <;> (try split) <;> (try split) <;> rfl

/-- what is known about an IRI of the dataset before it is known which prefixes are used -/
structure IriG (E : Enc) (used names : List Str) (v : Str) : Prop where
  abs : absIri v = true
  free : schemeFree names v = true
  compact : compactOK E v = true
  name : ∀ p r, compactPrefix E v = some (p, r) → p ∈ used → pfxNameOK p = true

theorem iriOK_of {E : Enc} {used names : List Str} {v : Str} (h : IriG E used names v)
    (hu : ∀ q ∈ pfxOf E v, q ∈ used) : IriOK E used names v :=
  ⟨h.abs, h.free, h.compact, fun p r e => hu p (by simp [pfxOf, e]), h.name⟩

/-- what is known about a (predicate, object) pair of the dataset -/
structure POk (E : Enc) (used names : List Str) (bs : Option Str) (po : PO β) : Prop where
  pred : IriG E used names po.1
  wf : wfObj po.2 = true
  iri : ∀ v, po.2 = .iri v → IriG E used names v ∧ ∀ b, bs = some b → relOK E names b v = true
  lit : ∀ lex dt lang, po.2 = .lit lex dt lang →
    (dt == xsdInteger || dt == xsdDouble || dt == xsdBoolean) = false ∧ IriG E used names dt

/-! ### node objects without `@id` -/

theorem keyOK_not_special {c : Ctx} {k p : Str} (h : KeyOK c k p) :
    k ≠ kValue ∧ k ≠ kList ∧ k ≠ kSet ∧ k ≠ kContext ∧ k ≠ kId ∧ k ≠ kGraph := by
  unfold KeyOK at h
  refine ⟨?_, ?_, ?_, ?_, ?_, ?_⟩ <;>
  · intro e
    subst e
    rw [if_neg (by decide)] at h
    revert h
    simp +decide [classifyKey]

theorem propMembers_keys {label : β → Str} {c : Ctx} {props : List (Str × List Json)}
    {groups : List (Str × Str × List (Tree β))} (h : GR label c props groups) :
    (propMembers props).map (·.1) = props.map (·.1) ∧
      ∀ k ∈ props.map (·.1), k ≠ kValue ∧ k ≠ kList ∧ k ≠ kSet ∧ k ≠ kContext ∧ k ≠ kId ∧ k ≠ kGraph := by
  induction h with
  | nil => exact ⟨rfl, by intro k hk; cases hk⟩
  | @cons pj gr props' groups' hg _ ih =>
    obtain ⟨pk, pvs⟩ := pj
    obtain ⟨h1, h2, h3, h4⟩ := hg
    simp only at h1 h3
    constructor
    · cases pvs with
      | nil => exact absurd rfl h3
      | cons v vs =>
        cases vs with
        | nil => simp only [propMembers, List.filterMap_cons, List.map_cons]; rw [← ih.1]; rfl
        | cons v2 vs2 => simp only [propMembers, List.filterMap_cons, List.map_cons]; rw [← ih.1]; rfl
    · intro k hk
      simp only [List.map_cons, List.mem_cons] at hk
      rcases hk with rfl | hk
      · rw [h1]; exact keyOK_not_special h2
      · exact ih.2 k hk

theorem getKey_none_of_not_mem {k : Str} {ms : List (Str × Json)} (h : k ∉ ms.map (·.1)) : getKey k ms = none := by
  induction ms with
  | nil => rfl
  | cons m ms ih =>
    obtain ⟨a, b⟩ := m
    simp only [List.map_cons, List.mem_cons, not_or] at h
    have hne : a ≠ k := fun e => h.1 e.symm
    simp only [getKey, if_neg hne]
    exact ih h.2

theorem hasKey_false_of_not_mem {k : Str} {ms : List (Str × Json)} (h : k ∉ ms.map (·.1)) : hasKey k ms = false := by
  induction ms with
  | nil => rfl
  | cons m ms ih =>
    obtain ⟨a, b⟩ := m
    simp only [List.map_cons, List.mem_cons, not_or] at h
    have : (a == k) = false := by simpa using (fun e : a = k => h.1 e.symm)
    simp only [hasKey, List.any_cons, this, Bool.false_or]
    exact ih h.2

/-- a node object without `@id` and `@context` whose member names are no keywords of value / list / set
    objects: a fresh blank node, its members, then the link -/
theorem evalItem_node (c : Ctx) (td : TermDef) (g : Option T) (s : T) (p : Str) (ms : List (Str × Json)) (n : Nat)
    (hk : ∀ k ∈ ms.map (·.1), k ≠ kValue ∧ k ≠ kList ∧ k ≠ kSet ∧ k ≠ kContext ∧ k ≠ kId ∧ k ≠ kGraph) :
    evalItem c td g s p (.obj ms) n =
      andThen (evalMembers c g (.bnode (.fresh n)) false ms (n + 1)) (fun n1 => some ([quad s p (.bnode (.fresh n)) g], n1)) := by
  have hnm : ∀ k', (k' = kValue ∨ k' = kList ∨ k' = kSet ∨ k' = kContext ∨ k' = kId ∨ k' = kGraph) → k' ∉ ms.map (·.1) := by
    intro k' hk' hm
    obtain ⟨h1, h2, h3, h4, h5, h6⟩ := hk k' hm
    rcases hk' with e | e | e | e | e | e <;> contradiction
  have hhead : nodeHead c false ms n = some (c, .bnode (.fresh n), n + 1, false) := by
    simp [nodeHead, getKey_none_of_not_mem (hnm kContext (by simp)), getKey_none_of_not_mem (hnm kId (by simp)), evalId]
  cases ms with
  | nil =>
    rw [evalItem.eq_5 _ _ _ _ _ _ _ (by intro k xs e; cases e) (by intro k x e; cases e)]
    simp only [hasKey, List.any_nil, Bool.false_eq_true, if_false, hhead]
  | cons m rest =>
    cases rest with
    | nil =>
      obtain ⟨k, x⟩ := m
      obtain ⟨h1, h2, h3, _, _, _⟩ := hk k (by simp)
      by_cases hx : ∃ xs, x = .arr xs
      · obtain ⟨xs, rfl⟩ := hx
        rw [evalItem.eq_3, if_neg h1, if_neg h2, if_neg h3, hhead]
      · rw [evalItem.eq_4 _ _ _ _ _ _ _ _ (by intro xs e; exact hx ⟨xs, e⟩), if_neg h1, if_neg h2, if_neg h3, hhead]
    | cons m2 rest2 =>
      rw [evalItem.eq_5 _ _ _ _ _ _ _ (by intro k xs e; cases e) (by intro k x e; cases e)]
      rw [hasKey_false_of_not_mem (hnm kValue (by simp)), hasKey_false_of_not_mem (hnm kList (by simp)),
        hasKey_false_of_not_mem (hnm kSet (by simp))]
      simp only [Bool.false_eq_true, if_false, hhead]

end RdfModel.Proofs.C10
