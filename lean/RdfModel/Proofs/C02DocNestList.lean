/-
  Proofs.C02DocNestList — nested-resource mode as a printed abstract document, LIST level: object lists
  (`o1 , o2`), predicate-object lists (`v os ; v os`) and collection items, with the encoder's layout
  (`lead`: a space or a line feed and tabs before every element) put into the slot of the token before.
-/
import RdfModel.Proofs.C02DocNestObj
namespace RdfModel.Proofs.C02Doc
open RdfModel RdfModel.Ttl RdfModel.TtlEnc RdfModel.C02 RdfModel.Desc RdfModel.Spec.TtlPrint

variable {T : Tables}

theorem noGlue_default : noGlue [({} : TA.Slot)] := by
  intro s hs
  simp only [List.mem_singleton] at hs
  subst hs
  rfl

theorem after_tok (k : TA.Prev) (cs : List Choice) (t : List Nat) (h : WS t) (hne : t ≠ []) (rest : List Nat) :
    TA.after T k (tokSlot cs t) rest = t ++ rest := after_ws k _ t h hne rfl rest

/-! ### object lists -/

/-- an abstract object with its slots (as a function of the white space after it) and its text -/
structure OItem where
  x : TA.Obj
  sl : List Nat → List TA.Slot
  text : List Nat

def objsSl (ld : List Nat) : List OItem → List Nat → List TA.Slot
  | [], _ => []
  | [o], t => o.sl t ++ [{}]
  | o :: o2 :: os, t => o.sl [sp] ++ tokSlot [] ld :: objsSl ld (o2 :: os) t

def objsBody (ld : List Nat) : List OItem → List Nat
  | [] => []
  | [o] => o.text
  | o :: o2 :: os => o.text ++ sp :: 0x2c :: (ld ++ objsBody ld (o2 :: os))

theorem objsSl_len (ld : List Nat) : ∀ (os : List OItem), (∀ o ∈ os, ObjSyn T o.x o.sl o.text) → ∀ t,
    (objsSl ld os t).length = TA.objsSlots (os.map (·.x))
  | [], _, _ => rfl
  | [o], h, t => by
    simp [objsSl, TA.objsSlots, (h o List.mem_cons_self).len]
  | o :: o2 :: os, h, t => by
    have ih := objsSl_len ld (o2 :: os) (fun x hx => h x (List.mem_cons_of_mem _ hx)) t
    simp only [objsSl, List.length_append, List.length_cons, (h o List.mem_cons_self).len, ih, List.map_cons,
      TA.objsSlots]
    omega

theorem objsSl_ng (ld : List Nat) : ∀ (os : List OItem), (∀ o ∈ os, ObjSyn T o.x o.sl o.text) → ∀ t,
    noGlue (objsSl ld os t)
  | [], _, _ => noGlue_nil
  | [o], h, t => by
    simp only [objsSl]
    exact noGlue_append.2 ⟨(h o List.mem_cons_self).ng t, noGlue_default⟩
  | o :: o2 :: os, h, t => by
    have ih := objsSl_ng ld (o2 :: os) (fun x hx => h x (List.mem_cons_of_mem _ hx)) t
    simp only [objsSl]
    exact noGlue_append.2 ⟨(h o List.mem_cons_self).ng _, noGlue_cons.2 ⟨rfl, ih⟩⟩

theorem objs_print (ld : List Nat) (hld : WS ld) (hne : ld ≠ []) : ∀ (os : List OItem),
    (∀ o ∈ os, ObjSyn T o.x o.sl o.text) → os ≠ [] →
    ∀ (ch : TA.Choices) (i : Nat) (t rest : List Nat), WS t → t ≠ [] → Agree ch i (objsSl ld os t) →
      TA.pObjs ⟨T, ch⟩ i (os.map (·.x)) rest = objsBody ld os ++ (t ++ rest)
  | [], _, h, _, _, _, _, _, _, _ => absurd rfl h
  | [o], h, _, ch, i, t, rest, ht, htn, hag => by
    simp only [objsSl] at hag
    simp only [List.map_cons, List.map_nil, TA.pObjs, objsBody]
    exact (h o List.mem_cons_self).pr ch i t rest ht htn (agree_append.1 hag).1
  | o :: o2 :: os, h, _, ch, i, t, rest, ht, htn, hag => by
    have ho := h o List.mem_cons_self
    simp only [objsSl] at hag
    obtain ⟨h1, h2⟩ := agree_append.1 hag
    obtain ⟨h2, h3⟩ := agree_cons.1 h2
    rw [ho.len] at h2 h3
    have ih := objs_print ld hld hne (o2 :: os) (fun x hx => h x (List.mem_cons_of_mem _ hx)) (by simp) ch
      (i + TA.objSlots o.x + 1) t rest ht htn h3
    simp only [List.map_cons] at ih ⊢
    simp only [TA.pObjs, objsBody]
    rw [ho.pr ch i [sp] _ ws_sp.1 ws_sp.2 h1, ih]
    simp only [TA.pPunct, h2, after_tok _ _ ld hld hne]
    simp

theorem itemsWf_of (T : Tables) : ∀ (os : List TA.Obj), (∀ o ∈ os, C08.objWf T o = true) → C08.itemsWf T os = true
  | [], _ => rfl
  | o :: os, h => by
    simp [C08.itemsWf, h o List.mem_cons_self, itemsWf_of T os (fun x hx => h x (List.mem_cons_of_mem _ hx))]

theorem itemsNoBool_of : ∀ (os : List TA.Obj), (∀ o ∈ os, C08.objNoBoolPfx o = true) → C08.itemsNoBoolPfx os = true
  | [], _ => rfl
  | o :: os, h => by
    simp [C08.itemsNoBoolPfx, h o List.mem_cons_self, itemsNoBool_of os (fun x hx => h x (List.mem_cons_of_mem _ hx))]

theorem joinSep_objs (ld : List Nat) : ∀ (os : List OItem), os ≠ [] →
    joinSep [sp, 0x2c] (os.map (fun o => ld ++ o.text)) = ld ++ objsBody ld os
  | [], h => absurd rfl h
  | [o], _ => rfl
  | o :: o2 :: os, _ => by
    have ih := joinSep_objs ld (o2 :: os) (by simp)
    simp only [List.map_cons] at ih ⊢
    simp only [joinSep, objsBody, ih]
    simp

/-! ### predicate-object lists -/

/-- a `verb objectList` with its slots (without the `;` slot) and its text -/
structure GItem where
  po : TA.PO
  sl : List Nat → List TA.Slot
  body : List Nat

structure POSyn (T : Tables) (g : GItem) : Prop where
  wf : C08.poWf T g.po = true
  nb : C08.poNoBoolPfx g.po = true
  len : ∀ t, (g.sl t).length + 1 = TA.poSlots g.po
  ng : ∀ t, noGlue (g.sl t)
  pr : ∀ (ch : TA.Choices) (i : Nat) (t rest : List Nat), WS t → t ≠ [] → Agree ch i (g.sl t) →
    TA.pPO ⟨T, ch⟩ i g.po rest = g.body ++ (t ++ rest)

/-- a verb and its objects -/
theorem po_syn (v : TA.Verb) (csv : List Choice) (vtext : List Nat) (hvwf : C08.verbWf T v = true)
    (hvpr : ∀ (ch : TA.Choices) (i : Nat) (t rest : List Nat), WS t → t ≠ [] → ch.at i = tokSlot csv t →
      TA.pVerb ⟨T, ch⟩ i v rest = vtext ++ (t ++ rest))
    (ld : List Nat) (hld : WS ld) (hne : ld ≠ []) (os : List OItem) (hos : ∀ o ∈ os, ObjSyn T o.x o.sl o.text)
    (hon : os ≠ []) :
    POSyn T ⟨.mk v (os.map (·.x)), fun t => tokSlot csv ld :: objsSl ld os t, vtext ++ (ld ++ objsBody ld os)⟩ where
  wf := by
    simp only [C08.poWf, hvwf, Bool.true_and, Bool.and_eq_true, Bool.not_eq_true', List.isEmpty_eq_false_iff, ne_eq,
      List.map_eq_nil_iff]
    refine ⟨hon, itemsWf_of T _ ?_⟩
    intro x hx
    obtain ⟨o, ho, rfl⟩ := List.mem_map.1 hx
    exact (hos o ho).wf
  nb := by
    simp only [C08.poNoBoolPfx]
    refine itemsNoBool_of _ ?_
    intro x hx
    obtain ⟨o, ho, rfl⟩ := List.mem_map.1 hx
    exact (hos o ho).nb
  len := by
    intro t
    simp only [List.length_cons, objsSl_len ld os hos t, TA.poSlots]
    omega
  ng := by
    intro t
    exact noGlue_cons.2 ⟨rfl, objsSl_ng ld os hos t⟩
  pr := by
    intro ch i t rest ht htn hag
    obtain ⟨h1, h2⟩ := agree_cons.1 hag
    simp only [TA.pPO]
    rw [hvpr ch i ld _ hld hne h1, objs_print ld hld hne os hos hon ch (i + 1) t rest ht htn h2]
    simp

def posSl (ld : List Nat) : List GItem → List Nat → List TA.Slot
  | [], _ => []
  | [g], t => g.sl t ++ [{}]
  | g :: g2 :: gs, t => g.sl [sp] ++ tokSlot [] ld :: posSl ld (g2 :: gs) t

def posBody (ld : List Nat) : List GItem → List Nat
  | [] => []
  | [g] => g.body
  | g :: g2 :: gs => g.body ++ sp :: 0x3b :: (ld ++ posBody ld (g2 :: gs))

theorem posSl_len (ld : List Nat) : ∀ (gs : List GItem), (∀ g ∈ gs, POSyn T g) → ∀ t,
    (posSl ld gs t).length = TA.posSlots (gs.map (·.po))
  | [], _, _ => rfl
  | [g], h, t => by
    simp [posSl, TA.posSlots, (h g List.mem_cons_self).len]
  | g :: g2 :: gs, h, t => by
    have ih := posSl_len ld (g2 :: gs) (fun x hx => h x (List.mem_cons_of_mem _ hx)) t
    have := (h g List.mem_cons_self).len [sp]
    simp only [posSl, List.length_append, List.length_cons, ih, List.map_cons, TA.posSlots]
    omega

theorem posSl_ng (ld : List Nat) : ∀ (gs : List GItem), (∀ g ∈ gs, POSyn T g) → ∀ t, noGlue (posSl ld gs t)
  | [], _, _ => noGlue_nil
  | [g], h, t => by
    simp only [posSl]
    exact noGlue_append.2 ⟨(h g List.mem_cons_self).ng t, noGlue_default⟩
  | g :: g2 :: gs, h, t => by
    have ih := posSl_ng ld (g2 :: gs) (fun x hx => h x (List.mem_cons_of_mem _ hx)) t
    simp only [posSl]
    exact noGlue_append.2 ⟨(h g List.mem_cons_self).ng _, noGlue_cons.2 ⟨rfl, ih⟩⟩

theorem pos_print (ld : List Nat) (hld : WS ld) (hne : ld ≠ []) : ∀ (gs : List GItem),
    (∀ g ∈ gs, POSyn T g) → gs ≠ [] →
    ∀ (ch : TA.Choices) (i : Nat) (t rest : List Nat), WS t → t ≠ [] → Agree ch i (posSl ld gs t) →
      TA.pPOs ⟨T, ch⟩ i (gs.map (·.po)) rest = posBody ld gs ++ (t ++ rest)
  | [], _, h, _, _, _, _, _, _, _ => absurd rfl h
  | [g], h, _, ch, i, t, rest, ht, htn, hag => by
    have hg := h g List.mem_cons_self
    simp only [posSl] at hag
    obtain ⟨h1, h2⟩ := agree_append.1 hag
    have h2 := agree_one h2
    have hl := hg.len t
    have hidx : i + TA.poSlots g.po - 1 = i + (g.sl t).length := by omega
    simp only [List.map_cons, List.map_nil, TA.pPOs, posBody, hidx, h2]
    simp only [TA.semis]
    exact hg.pr ch i t rest ht htn h1
  | g :: g2 :: gs, h, _, ch, i, t, rest, ht, htn, hag => by
    have hg := h g List.mem_cons_self
    simp only [posSl] at hag
    obtain ⟨h1, h2⟩ := agree_append.1 hag
    obtain ⟨h2, h3⟩ := agree_cons.1 h2
    have hl := hg.len [sp]
    have hidx : i + TA.poSlots g.po - 1 = i + (g.sl [sp]).length := by omega
    have hidx2 : i + (g.sl [sp]).length + 1 = i + TA.poSlots g.po := by omega
    rw [hidx2] at h3
    have ih := pos_print ld hld hne (g2 :: gs) (fun x hx => h x (List.mem_cons_of_mem _ hx)) (by simp) ch
      (i + TA.poSlots g.po) t rest ht htn h3
    simp only [List.map_cons] at ih ⊢
    simp only [TA.pPOs, posBody, hidx, h2]
    have hn : (tokSlot [] ld).n = 0 := rfl
    simp only [hn, Nat.zero_mod, Nat.add_zero, TA.semis, TA.pPunct, h2, after_tok _ _ ld hld hne]
    rw [hg.pr ch i [sp] _ ws_sp.1 ws_sp.2 h1, ih]
    simp

theorem posWf_of (T : Tables) : ∀ (pos : List TA.PO), (∀ po ∈ pos, C08.poWf T po = true) → C08.posWf T pos = true
  | [], _ => rfl
  | po :: pos, h => by
    simp [C08.posWf, h po List.mem_cons_self, posWf_of T pos (fun x hx => h x (List.mem_cons_of_mem _ hx))]

theorem posNoBool_of : ∀ (pos : List TA.PO), (∀ po ∈ pos, C08.poNoBoolPfx po = true) → C08.posNoBoolPfx pos = true
  | [], _ => rfl
  | po :: pos, h => by
    simp [C08.posNoBoolPfx, h po List.mem_cons_self, posNoBool_of pos (fun x hx => h x (List.mem_cons_of_mem _ hx))]

theorem joinSep_pos (ld : List Nat) : ∀ (gs : List GItem), gs ≠ [] →
    joinSep [sp, 0x3b] (gs.map (fun g => ld ++ g.body)) = ld ++ posBody ld gs
  | [], h => absurd rfl h
  | [g], _ => rfl
  | g :: g2 :: gs, _ => by
    have ih := joinSep_pos ld (g2 :: gs) (by simp)
    simp only [List.map_cons] at ih ⊢
    simp only [joinSep, posBody, ih]
    simp

/-- what a whole predicate-object list is printed as -/
structure PosSyn (T : Tables) (pos : List TA.PO) (sl : List Nat → List TA.Slot) (body : List Nat) : Prop where
  ne : pos ≠ []
  wf : C08.posWf T pos = true
  nb : C08.posNoBoolPfx pos = true
  len : ∀ t, (sl t).length = TA.posSlots pos
  ng : ∀ t, noGlue (sl t)
  pr : ∀ (ch : TA.Choices) (i : Nat) (t rest : List Nat), WS t → t ≠ [] → Agree ch i (sl t) →
    TA.pPOs ⟨T, ch⟩ i pos rest = body ++ (t ++ rest)

theorem pos_syn (ld : List Nat) (hld : WS ld) (hne : ld ≠ []) (gs : List GItem) (hgs : ∀ g ∈ gs, POSyn T g)
    (hgn : gs ≠ []) : PosSyn T (gs.map (·.po)) (posSl ld gs) (posBody ld gs) where
  ne := by simpa using hgn
  wf := by
    refine posWf_of T _ ?_
    intro x hx
    obtain ⟨g, hg, rfl⟩ := List.mem_map.1 hx
    exact (hgs g hg).wf
  nb := by
    refine posNoBool_of _ ?_
    intro x hx
    obtain ⟨g, hg, rfl⟩ := List.mem_map.1 hx
    exact (hgs g hg).nb
  len := posSl_len ld gs hgs
  ng := posSl_ng ld gs hgs
  pr := pos_print ld hld hne gs hgs hgn

/-! ### collection items -/

def itemsSl (ld last : List Nat) : List OItem → List TA.Slot
  | [] => []
  | [o] => o.sl last
  | o :: o2 :: os => o.sl ld ++ itemsSl ld last (o2 :: os)

def itemsBody (ld last : List Nat) : List OItem → List Nat
  | [] => []
  | [o] => o.text ++ last
  | o :: o2 :: os => o.text ++ (ld ++ itemsBody ld last (o2 :: os))

theorem itemsSl_len (ld last : List Nat) : ∀ (os : List OItem), (∀ o ∈ os, ObjSyn T o.x o.sl o.text) →
    (itemsSl ld last os).length = TA.itemsSlots (os.map (·.x))
  | [], _ => rfl
  | [o], h => by simp [itemsSl, TA.itemsSlots, (h o List.mem_cons_self).len]
  | o :: o2 :: os, h => by
    have ih := itemsSl_len ld last (o2 :: os) (fun x hx => h x (List.mem_cons_of_mem _ hx))
    simp only [itemsSl, List.length_append, (h o List.mem_cons_self).len, ih, List.map_cons, TA.itemsSlots]

theorem itemsSl_ng (ld last : List Nat) : ∀ (os : List OItem), (∀ o ∈ os, ObjSyn T o.x o.sl o.text) →
    noGlue (itemsSl ld last os)
  | [], _ => noGlue_nil
  | [o], h => (h o List.mem_cons_self).ng _
  | o :: o2 :: os, h => by
    have ih := itemsSl_ng ld last (o2 :: os) (fun x hx => h x (List.mem_cons_of_mem _ hx))
    simp only [itemsSl]
    exact noGlue_append.2 ⟨(h o List.mem_cons_self).ng _, ih⟩

theorem items_print (ld last : List Nat) (hld : WS ld) (hne : ld ≠ []) (hlast : WS last) (hln : last ≠ []) :
    ∀ (os : List OItem), (∀ o ∈ os, ObjSyn T o.x o.sl o.text) → os ≠ [] →
    ∀ (ch : TA.Choices) (i : Nat) (rest : List Nat), Agree ch i (itemsSl ld last os) →
      TA.pItems ⟨T, ch⟩ i (os.map (·.x)) rest = itemsBody ld last os ++ rest
  | [], _, h, _, _, _, _ => absurd rfl h
  | [o], h, _, ch, i, rest, hag => by
    simp only [itemsSl] at hag
    simp only [List.map_cons, List.map_nil, TA.pItems, itemsBody]
    rw [(h o List.mem_cons_self).pr ch i last rest hlast hln hag]
    simp
  | o :: o2 :: os, h, _, ch, i, rest, hag => by
    have ho := h o List.mem_cons_self
    simp only [itemsSl] at hag
    obtain ⟨h1, h2⟩ := agree_append.1 hag
    rw [ho.len] at h2
    have ih := items_print ld last hld hne hlast hln (o2 :: os) (fun x hx => h x (List.mem_cons_of_mem _ hx))
      (by simp) ch (i + TA.objSlots o.x) rest h2
    simp only [List.map_cons] at ih ⊢
    rw [TA.pItems, ho.pr ch i ld _ hld hne h1, ih]
    simp [itemsBody]

theorem flatMap_items (ld last : List Nat) : ∀ (os : List OItem), os ≠ [] →
    os.flatMap (fun o => ld ++ o.text) ++ last = ld ++ itemsBody ld last os
  | [], h => absurd rfl h
  | [o], _ => by simp [itemsBody]
  | o :: o2 :: os, _ => by
    have ih := flatMap_items ld last (o2 :: os) (by simp)
    simp only [List.flatMap_cons, List.append_assoc] at ih ⊢
    simp only [itemsBody, ih]

/-- `( items )` -/
theorem coll_syn (ld last : List Nat) (hld : WS ld) (hne : ld ≠ []) (hlast : WS last) (hln : last ≠ [])
    (os : List OItem) (hos : ∀ o ∈ os, ObjSyn T o.x o.sl o.text) (hon : os ≠ []) :
    ObjSyn T (.coll (os.map (·.x))) (fun t => tokSlot [] ld :: (itemsSl ld last os ++ [tokSlot [] t]))
      (0x28 :: (ld ++ itemsBody ld last os ++ [0x29])) where
  wf := by
    simp only [C08.objWf]
    refine itemsWf_of T _ ?_
    intro x hx
    obtain ⟨o, ho, rfl⟩ := List.mem_map.1 hx
    exact (hos o ho).wf
  nb := by
    simp only [C08.objNoBoolPfx]
    refine itemsNoBool_of _ ?_
    intro x hx
    obtain ⟨o, ho, rfl⟩ := List.mem_map.1 hx
    exact (hos o ho).nb
  len := by
    intro t
    simp only [List.length_cons, List.length_append, itemsSl_len ld last os hos, TA.objSlots, List.length_nil]
    omega
  ng := by
    intro t
    exact noGlue_cons.2 ⟨rfl, noGlue_append.2 ⟨itemsSl_ng ld last os hos, noGlue_tok _ _⟩⟩
  pr := by
    intro ch i t rest ht htn hag
    obtain ⟨h1, h2⟩ := agree_cons.1 hag
    obtain ⟨h2, h3⟩ := agree_append.1 h2
    have h3 := agree_one h3
    rw [itemsSl_len ld last os hos] at h3
    simp only [TA.pObj, TA.pPunct, h1, h3, after_tok _ _ ld hld hne, after_tok _ _ t ht htn]
    rw [items_print ld last hld hne hlast hln os hos hon ch (i + 1) _ h2]
    simp

/-- `[ pos ]` -/
theorem bnpl_syn (pos : List TA.PO) (sl : List Nat → List TA.Slot) (body ld last : List Nat)
    (h : PosSyn T pos sl body) (hld : WS ld) (hne : ld ≠ []) (hlast : WS last) (hln : last ≠ []) :
    ObjSyn T (.bnpl pos) (fun t => tokSlot [] ld :: (sl last ++ [tokSlot [] t]))
      (0x5b :: (ld ++ body ++ last ++ [0x5d])) where
  wf := by
    simp only [C08.objWf, h.wf, Bool.and_true, Bool.not_eq_true', List.isEmpty_eq_false_iff]
    exact h.ne
  nb := by simp only [C08.objNoBoolPfx, h.nb]
  len := by
    intro t
    simp only [List.length_cons, List.length_append, h.len, TA.objSlots, List.length_nil]
    omega
  ng := by
    intro t
    exact noGlue_cons.2 ⟨rfl, noGlue_append.2 ⟨h.ng _, noGlue_tok _ _⟩⟩
  pr := by
    intro ch i t rest ht htn hag
    obtain ⟨h1, h2⟩ := agree_cons.1 hag
    obtain ⟨h2, h3⟩ := agree_append.1 h2
    have h3 := agree_one h3
    rw [h.len] at h3
    simp only [TA.pObj, TA.pPunct, h1, h3, after_tok _ _ ld hld hne, after_tok _ _ t ht htn]
    rw [h.pr ch (i + 1) last _ hlast hln h2]
    simp

/-- `[]` -/
theorem anon_syn : ObjSyn T .anon (fun t => [tokSlot [] [], tokSlot [] t]) (asc "[]") where
  wf := rfl
  nb := rfl
  len := fun _ => rfl
  ng := by
    intro t s hs
    simp only [List.mem_cons, List.mem_nil_iff, or_false] at hs
    rcases hs with rfl | rfl <;> rfl
  pr := by
    intro ch i t rest ht htn hag
    obtain ⟨h1, h2⟩ := agree_two hag
    simp only [TA.pObj, TA.pPunct, h1, h2, after_tok _ _ t ht htn]
    rw [after_punct_nil _ rfl]
    rfl

end RdfModel.Proofs.C02Doc
