/-
  Definitions used by the C19 theorems: which terms and operations are inside the property's
  quantifier, the translation of an operation to the plain-set specification, and what it means
  for an output of the dataset to agree with an output of the set.
-/
import RdfModel.Model.Dataset
import RdfModel.Spec.QuadSet
namespace RdfModel.C19
open RdfModel.DS

def bytesOf (s : String) : Bytes := s.toList.map Char.toNat

def rdfLangString : Bytes := bytesOf "http://www.w3.org/1999/02/22-rdf-syntax-ns#langString"
def rdfDirLangString : Bytes := bytesOf "http://www.w3.org/1999/02/22-rdf-syntax-ns#dirLangString"

/-- Datatypes whose literals carry a tag: `rdf:langString` (RDF 1.1) and `rdf:dirLangString`
    (RDF 1.2, for `DirectionalLanguageLiteralTag`). -/
def isTaggedDatatype (dt : Bytes) : Bool := dt == rdfLangString || dt == rdfDirLangString

/-- A well-formed literal: a tag is present exactly when the datatype is a tagged one, and the
    datatype IRI contains no line feed (no IRI does). Which kind of tag goes with which of the two
    tagged datatypes is *not* required. -/
def WFLiteral (l : Literal) : Prop := 0x0a ∉ l.dt ∧ l.tag.isSome = isTaggedDatatype l.dt

instance : DecidablePred WFLiteral := fun l => by unfold WFLiteral; infer_instance

/-- Terms inside the quantifier: any IRI, a blank node that has an identifier (one made by a
    factory), a well-formed literal. -/
def WFTerm : Term → Prop
  | .iri _ => True
  | .bnode id => id.isSome = true
  | .lit l => WFLiteral l

instance : DecidablePred WFTerm := fun t => by cases t <;> unfold WFTerm <;> infer_instance

/-- Terms that have an RDF term identity: everything except the blank node without identifier
    (`rdf.BlankNode{}`), which is not `TermEquals` to itself. Literals of ANY shape qualify — a tag on
    an untagged datatype, no tag on `rdf:langString`, … — : their identity is (datatype, lexical form,
    tag presence, tag kind, language, direction). This is the hypothesis of the equality and matcher
    theorems; `WFTerm` (needed only where the store's key matters) implies it. -/
def HasIdentity : Term → Prop
  | .bnode none => False
  | _ => True

instance : DecidablePred HasIdentity := fun t => by
  cases t with
  | bnode id => cases id <;> unfold HasIdentity <;> infer_instance
  | iri _ => unfold HasIdentity; infer_instance
  | lit _ => unfold HasIdentity; infer_instance

theorem WFTerm.hasIdentity {t : Term} (h : WFTerm t) : HasIdentity t := by
  cases t with
  | bnode id => cases id <;> simp_all [WFTerm, HasIdentity]
  | iri _ => simp [HasIdentity]
  | lit _ => simp [HasIdentity]

def WFGraphName : Option Term → Prop
  | none => True
  | some t => WFTerm t

instance : DecidablePred WFGraphName := fun g => by cases g <;> unfold WFGraphName <;> infer_instance

def WFTriple (t : Triple) : Prop := WFTerm t.s ∧ WFTerm t.p ∧ WFTerm t.o
def WFQuad (q : Quad) : Prop := WFTerm q.s ∧ WFTerm q.p ∧ WFTerm q.o ∧ WFGraphName q.g

instance : DecidablePred WFTriple := fun t => by unfold WFTriple; infer_instance
instance : DecidablePred WFQuad := fun q => by unfold WFQuad; infer_instance

/-- The operations property C19 quantifies over, with non-nil arguments. Matcher lists are
    arbitrary (including matchers that are not from the repository's packages: `custom`). -/
inductive POp where
  | addQuad (q : Quad)
  | deleteQuad (q : Quad)
  | hasQuad (q : Quad)
  | iterQuads (ms : List QM)
  | getGraph (g : Option Term)
  | viewAdd (g : Option Term) (t : Triple)
  | viewDelete (g : Option Term) (t : Triple)
  | viewHas (g : Option Term) (t : Triple)
  | viewIter (g : Option Term) (ms : List TrM)

def tripleIn (t : Triple) : TripleIn := ⟨some t.s, some t.p, some t.o⟩

/-- The operation of the executable model (which the driver runs) that a `POp` stands for. -/
def POp.toOp : POp → Op
  | .addQuad q => .addQuad q.toIn
  | .deleteQuad q => .deleteQuad q.toIn
  | .hasQuad q => .hasQuad q.toIn
  | .iterQuads ms => .iterQuads ms
  | .getGraph g => .getGraph g
  | .viewAdd g t => .viewAdd g (tripleIn t)
  | .viewDelete g t => .viewDelete g (tripleIn t)
  | .viewHas g t => .viewHas g (tripleIn t)
  | .viewIter g ms => .viewIter g ms

def POp.WF : POp → Prop
  | .addQuad q => WFQuad q
  | .deleteQuad q => WFQuad q
  | .hasQuad q => WFQuad q
  | .iterQuads _ => True
  | .getGraph g => WFGraphName g
  | .viewAdd g t => WFGraphName g ∧ WFTriple t
  | .viewDelete g t => WFGraphName g ∧ WFTriple t
  | .viewHas g t => WFGraphName g ∧ WFTriple t
  | .viewIter g _ => WFGraphName g

instance : DecidablePred POp.WF := fun op => by cases op <;> unfold POp.WF <;> infer_instance

/-- What the same operation means on a plain set of quads. A per-graph view is the set of the
    quads with that graph name. -/
def POp.spec : POp → Spec.QuadSet.Op Quad
  | .addQuad q => .add q
  | .deleteQuad q => .del q
  | .hasQuad q => .has q
  | .iterQuads ms => .iter (fun q => ms.all (fun m => m.matches q))
  | .getGraph _ => .nop
  | .viewAdd g t => .add (t.asQuad g)
  | .viewDelete g t => .del (t.asQuad g)
  | .viewHas g t => .has (t.asQuad g)
  | .viewIter g ms => .iter (fun q => decide (q.g = g) && ms.all (fun m => m.matches q.triple))

/-- Agreement of outputs: same Boolean; same members with the same multiplicities for iterations
    (the order of a Go map iteration is unspecified). -/
def OutAgrees : Out → Spec.QuadSet.Out Quad → Prop
  | .unit, .unit => True
  | .bool b, .bool b' => b = b'
  | .quads l, .list l' => l.Perm l'
  | .triples l, .list l' => l.Perm (l'.map Quad.triple)
  | _, _ => False

/-- Output lists agree position by position (and have the same length). -/
def OutsAgree : List Out → List (Spec.QuadSet.Out Quad) → Prop
  | [], [] => True
  | a :: as, b :: bs => OutAgrees a b ∧ OutsAgree as bs
  | _, _ => False

/-- States the dataset can be in: after any finite history of well-formed operations on a new dataset. -/
def Reachable (s : State) : Prop :=
  ∃ ops : List POp, (∀ op ∈ ops, op.WF) ∧ s = (run init (ops.map POp.toOp)).1

end RdfModel.C19
