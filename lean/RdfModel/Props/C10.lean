/-
  Property C10 — JSON-LD documents decode to the dataset they denote; encoder output round-trips.
  Level: fragment. Theorems only; helper lemmas live in RdfModel/Proofs/C10*.lean.

  What is stated here is about three executable objects the driver runs:
    * `JL.toRdf`  (Spec/JsonLdFragment.lean) — the fragment semantics, written from the W3C
      recommendation; tied to /repo's decoder by correspondence (T3) only;
    * `JL.write`  (Spec/JsonLdWriter.lean) — the harness writer (expanded / flattened / nested / compacted
      through an inline context);
    * `JLEnc.encode` (Model/JsonLdEncoder.lean) — the model of /repo's encoder; tied by T3.

  THE WRITER VALIDATES ITS OUTPUT. `write` keeps a compacted document only after it has evaluated
  `toRdf` on it and found exactly the numbering-of-blank-nodes image (`denForest`) of a tree whose
  quads are a permutation of the dataset; otherwise it writes the expanded fallback. So
  `write_denotes` rests on (i) the certificate lemma `forest_certificate` — a validated tree is an
  isomorphism witness — and (ii) a direct proof for the fallback (`writeFlat_denotes`). It does not
  contain a proof that compaction through a context is inverted by expansion in general; that such
  documents are *produced* (not only the fallback) is measured by the harness (histogram `write:path:*`,
  `doc:*`), and what they denote is decided by `toRdf` itself.
-/
import RdfModel.Props.C10Defs
import RdfModel.Spec.GraphIso
import RdfModel.Proofs.C10Write
namespace RdfModel.C10
open RdfModel RdfModel.Desc RdfModel.JL RdfModel.JLEnc

variable {β : Type}

/-- **Fragment writer.** For every well-formed dataset `d`, every injective labelling of its blank nodes
    by non-empty labels and all choices `ch` (processing mode, document base, inline context, local contexts on embedded node
    objects and graph members, nesting, lists, native values, document shape, …), the document `write name d ch` is inside the fragment and denotes a dataset
    isomorphic to `d` (same quads up to an injective renaming of blank nodes, multiplicities kept). -/
theorem write_denotes [DecidableEq β] (name : β → Str) (hname : Function.Injective name)
    (hne : ∀ b, name b ≠ []) (d : List (DQuad β)) (hwf : WFDataset d) (ch : Choices) :
    ∃ out, toRdf ch.mode11 ch.base (write name d ch) = some out ∧ Spec.IsoQ out d :=
  Proofs.C10.write_denotes name hname hne d hwf ch

/-- The expanded, flattened form (no context, one node object per quad) denotes the dataset itself, blank
    nodes relabelled by `name`; proved by evaluating the semantics symbolically, for every processing
    mode and base. -/
theorem writeFlat_denotes (name : β → Str) (hne : ∀ b, name b ≠ []) (mode11 : Bool) (base : Option Str)
    (d : List (DQuad β)) (hwf : WFDataset d) :
    toRdf mode11 base (writeFlat name d) = some (d.map (DQuad.map (fun b => BN.orig (name b)))) :=
  Proofs.C10.writeFlat_denotes name hne mode11 base d hwf

/-- **Certificate lemma.** A forest that validates against `d` (`forestOK`: its quads are a permutation
    of `d`, the blank nodes it anonymises are pairwise distinct and are not used by identifier anywhere)
    denotes, with fresh blank nodes numbered in document order from any start, a dataset isomorphic to
    `d`. -/
theorem forest_certificate [DecidableEq β] (name : β → Str) (hname : Function.Injective name) (F : Forest β)
    (d : List (DQuad β)) (h : forestOK F d = true) (n0 : Nat) :
    Spec.IsoQ (denForest name F n0).1 d :=
  Proofs.C10.forest_iso name hname F d h n0

/-- **Encoder direction (partial).** If the certificate `encCert` holds for a configuration, a dataset and
    an iteration order of the subject map — a decidable check the driver evaluates on every case of the
    harness — then the fragment semantics reads the encoder's document as a dataset isomorphic to the
    input, for the given processing mode and document base.
    GAP (why `_partial`): the hypothesis is the certificate, not the natural conditions of the property
    text; see `encoder_roundtrip_natural` below. -/
theorem encoder_roundtrip_partial [DecidableEq β] (mode11 : Bool) (base : Option Str) (cfg : Cfg β)
    (hl : Function.Injective cfg.label) (d : List (DQuad β)) (ord ord2 : List (Term β))
    (h : encCert mode11 base cfg d ord ord2 = true) :
    ∃ doc out, encode cfg d ord ord2 = some doc ∧ toRdf mode11 base doc = some out ∧ Spec.IsoQ out d := by
  unfold encCert at h
  cases he : encode cfg d ord ord2 with
  | none => simp [he] at h
  | some doc =>
    cases hf : encForest cfg d ord ord2 with
    | none => simp [he, hf] at h
    | some F =>
      simp only [he, hf, Bool.and_eq_true, decide_eq_true_eq] at h
      exact ⟨doc, _, rfl, h.2, Proofs.C10.forest_iso cfg.label hl F d h.1 _⟩

/-- The statement at the strength of the property text for the encoder direction: default-graph datasets
    without literals of the natively written datatypes and without cycles of once-referenced blank nodes
    (`acyclic`: the hypothesis of property C17 before patch fix-c17-export-cycles, a parameter here so that
    this file does not depend on C17's development; with the repaired export the harness finds the
    certificate to hold for cyclic datasets as well, so `acyclic` may be taken to be `fun _ => True`), prefix tables and base arbitrary. NOT PROVED. What is missing: a proof that under
    these conditions the certificate holds, i.e. (a) that `processLocal` of the `@context` the encoder
    writes yields exactly the used prefixes as prefix terms, (b) that `expandIri` inverts
    `compactVocabIRI` / `compactDocumentIRI` (rests on C13's round-trip theorem and on the agreement of
    `Prefix.goResolve` with RFC 3986 on the relevant domain), (c) that the tree of the export
    (`encForest`) validates (C17's theorem). The harness checks this implication on every generated case
    (`encode:natural-implies-cert`), and reports a disagreement if it fails. It is known to FAIL when an
    IRI of the dataset has a scheme equal to a used prefix (finding C10-K2): the full statement carries
    that exclusion as `schemeClash`. -/
def encoder_roundtrip_natural [DecidableEq β] (acyclic : List (DQuad β) → Prop) (schemeClash : Cfg β → List (DQuad β) → Prop) : Prop :=
  ∀ (mode11 : Bool) (base : Option Str) (cfg : Cfg β) (d : List (DQuad β)) (ord ord2 : List (Term β)),
    Function.Injective cfg.label → WFDataset d → defaultGraphOnly d = true → noNativeTyped d = true →
    acyclic d → ¬ schemeClash cfg d → ord.Perm (defaultOrd d) → ord2.Perm (defaultOrd d) →
    ∃ doc out, encode cfg d ord ord2 = some doc ∧ toRdf mode11 base doc = some out ∧ Spec.IsoQ out d

/-! ### Non-vacuity: a dataset with a named graph, a shared blank node and a language-tagged literal -/

namespace Witness

def s : Term Nat := .iri (asc "http://e.org/s")
def p : Str := asc "http://e.org/v/p"

/-- `<s> <p> _:0 . _:0 <p> "x" . _:0 <p> "y"@en <s>` -/
def d : List (DQuad Nat) :=
  [⟨⟨s, p, .bnode 0⟩, none⟩,
   ⟨⟨.bnode 0, p, .lit (asc "x") xsdString none⟩, none⟩,
   ⟨⟨.bnode 0, p, .lit (asc "y") rdfLangString (some (asc "en"))⟩, some s⟩]

/-- the default-graph part: what the encoder can write -/
def d0 : List (DQuad Nat) := d.take 2

def name (n : Nat) : Str := natDigits n

/-- `{"v": "http://e.org/v/", "q": {"@id": "v:p", "@container": "@set"}}` -/
def ctx : Json :=
  .obj [(asc "v", .str (asc "http://e.org/v/")), (asc "q", .obj [(kId, .str (asc "v:p")), (kContainer, .str kSet)])]

/-- a local context for embedded node objects: `{"w": "http://e.org/w/", "@language": null}` -/
def localCtx : Json := .obj [(asc "w", .str (asc "http://e.org/w/")), (kLanguage, .null)]

def ch : Choices :=
  { mode11 := true, base := none, context := some ctx, localContext := some localCtx, nest := true, lists := true, anonTop := true,
    natives := true, useType := true, compactGroups := true, shape := 1, seed := 0 }

def cfg : Cfg Nat := { base := none, prefixes := [(asc "v", asc "http://e.org/v/")], buffered := false, label := name }

theorem wf : WFDataset d := by decide

/-- the hypotheses of `write_denotes` are satisfiable, and on this instance the writer keeps a compacted,
    validated document (it does not fall back) -/
theorem validated : (tryWrite name d ch).isSome = true := by decide

/-- the certificate of `encoder_roundtrip_partial` holds on this instance -/
theorem cert : encCert true none cfg d0 (defaultOrd d0) (defaultOrd d0) = true := by decide

/-- the conditions of the full statement hold on this instance as well -/
theorem natural : WFDataset d0 ∧ defaultGraphOnly d0 = true ∧ noNativeTyped d0 = true ∧ schemeClash cfg d0 = false := by
  decide

end Witness

end RdfModel.C10
