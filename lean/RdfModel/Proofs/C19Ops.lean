/-
  C19 helper lemmas: effect of AddQuad / DeleteQuad / HasQuad on the stored set, preservation of
  the invariant, absence of duplicates.
-/
import RdfModel.Proofs.C19Inv
namespace RdfModel.Proofs.C19
open RdfModel.DS RdfModel.C19

/-! ### no duplicates -/

theorem nodup_abs {s : State} (hi : Inv s) : (abs s).Nodup := by
  unfold abs
  rw [List.nodup_iff_pairwise_ne, List.pairwise_flatMap]
  constructor
  · rintro ⟨g, G⟩ hg
    obtain ⟨hGk, hGe⟩ := hi.graph g G hg
    rw [List.pairwise_flatMap]
    constructor
    · rintro ⟨k, n, l⟩ hk
      obtain ⟨_, _, hl⟩ := hGe k n l hk
      rw [List.pairwise_map]
      refine List.Pairwise.imp_of_mem ?_ hl.2.1
      intro a b ha hb hab heq
      apply hab
      have hpa := (hl.1 a ha).1.1
      have hpb := (hl.1 b hb).1.1
      have hoa := (hl.1 a ha).2.1.1
      have hob := (hl.1 b hb).2.1.1
      simp only [getQuad, Quad.mk.injEq] at heq
      exact ⟨by rw [← hpa, ← hpb, heq.2.1], by rw [← hoa, ← hob, heq.2.2.1]⟩
    · have hk : List.Pairwise (fun a b : NodeKey × (Node × List Stmt) => a.1 ≠ b.1) G := by
        have := hGk; unfold keys at this
        rwa [List.nodup_iff_pairwise_ne, List.pairwise_map] at this
      refine List.Pairwise.imp_of_mem ?_ hk
      rintro ⟨k1, n1, l1⟩ ⟨k2, n2, l2⟩ h1 h2 hne x hx y hy hxy
      apply hne
      obtain ⟨e1, o1, _⟩ := hGe k1 n1 l1 h1
      obtain ⟨e2, o2, _⟩ := hGe k2 n2 l2 h2
      simp only [List.mem_map] at hx hy
      obtain ⟨a, _, rfl⟩ := hx
      obtain ⟨b, _, hb⟩ := hy
      subst hxy
      simp only [getQuad, Quad.mk.injEq] at hb
      show k1 = k2
      rw [← e1, ← e2, ← o1.1, ← o2.1, hb.1]
  · have hk : List.Pairwise (fun a b : Option Term × SubjMap => a.1 ≠ b.1) s.graphs := by
      have := hi.gkeys; unfold keys at this
      rwa [List.nodup_iff_pairwise_ne, List.pairwise_map] at this
    refine List.Pairwise.imp ?_ hk
    rintro ⟨g1, G1⟩ ⟨g2, G2⟩ hne x hx y hy hxy
    apply hne
    simp only [List.mem_flatMap, List.mem_map] at hx hy
    obtain ⟨_, _, a, _, rfl⟩ := hx
    obtain ⟨_, _, b, _, hb⟩ := hy
    subst hxy
    simp only [getQuad, Quad.mk.injEq] at hb
    exact hb.2.2.2.symm

/-! ### setStmts -/

theorem setStmts_nodes (s : State) (g : Option Term) (n : Node) (l : List Stmt) :
    (setStmts s g n l).nodes = s.nodes := by
  unfold setStmts; split <;> rfl

theorem setStmts_nextId (s : State) (g : Option Term) (n : Node) (l : List Stmt) :
    (setStmts s g n l).nextId = s.nextId := by
  unfold setStmts; split <;> rfl

theorem setStmts_inv {s : State} {g : Option Term} {G : SubjMap} (hi : Inv s)
    (hg : alookup g s.graphs = some G) (n : Node) (l : List Stmt) (hn : NodeOK n)
    (b : Nat) (hb : s.nextId ≤ b) (hl : StmtsOK b l) :
    Inv { setStmts s g n l with nextId := b } := by
  have hgm := alookup_some_mem hg
  refine ⟨?_, ?_, ?_, ?_⟩
  · show NodesInv (setStmts s g n l).nodes
    rw [setStmts_nodes]; exact hi.nodes
  · show (keys (setStmts s g n l).graphs).Nodup
    rw [setStmts_graphs hg]; exact nodup_keys_aset _ _ _ hi.gkeys
  · intro g' G' hm
    change (g', G') ∈ (setStmts s g n l).graphs at hm
    show GraphInv b G'
    rw [setStmts_graphs hg] at hm
    rcases mem_aset hm with ⟨_, rfl⟩ | hm'
    · obtain ⟨hGk, hGe⟩ := hi.graph g G hgm
      refine ⟨nodup_keys_aset _ _ _ hGk, ?_⟩
      intro k n' l' hk
      rcases mem_aset hk with ⟨rfl, he⟩ | hk'
      · cases he; exact ⟨rfl, hn, hl⟩
      · obtain ⟨h1, h2, h3⟩ := hGe k n' l' hk'
        exact ⟨h1, h2, h3.mono hb⟩
    · exact (hi.graph g' G' hm').mono hb
  · intro g' G' hm
    change (g', G') ∈ (setStmts s g n l).graphs at hm
    rw [setStmts_graphs hg] at hm
    rcases mem_aset hm with ⟨rfl, _⟩ | hm'
    · exact hi.gwf _ G hgm
    · exact hi.gwf g' G' hm'

theorem stmtsAt_ok {s : State} (hi : Inv s) (g : Option Term) (k : NodeKey) :
    StmtsOK s.nextId (stmtsAt s g k) := by
  unfold stmtsAt
  split
  · exact ⟨by simp, by simp, by simp⟩
  · rename_i G hG
    split
    · exact ⟨by simp, by simp, by simp⟩
    · rename_i n l hl
      exact ((hi.graph g G (alookup_some_mem hG)).2 k n l (alookup_some_mem hl)).2.2

/-! ### bindStatement -/

theorem bindStatement_toIn (s : State) (q : Quad) :
    bindStatement s q.toIn =
      ((bindNode (bindNode (bindNode s q.s).1 q.p).1 q.o).1,
        some ⟨(bindNode s q.s).2, (bindNode (bindNode s q.s).1 q.p).2,
          (bindNode (bindNode (bindNode s q.s).1 q.p).1 q.o).2,
          (stmtsAt (bindNode (bindNode (bindNode s q.s).1 q.p).1 q.o).1 q.g (bindNode s q.s).2.key).find?
            (fun known => known.p.key == (bindNode (bindNode s q.s).1 q.p).2.key
              && known.o.key == (bindNode (bindNode (bindNode s q.s).1 q.p).1 q.o).2.key)⟩) := rfl

theorem bindStatement_spec (s : State) (q : Quad) (hi : Inv s) (hq : WFQuad q) :
    ∃ s' b, bindStatement s q.toIn = (s', some b) ∧ Inv s' ∧ s'.graphs = s.graphs ∧ s'.nextId = s.nextId ∧
      NodeOK b.s ∧ b.s.key = keyOf q.s ∧ NodeOK b.p ∧ b.p.key = keyOf q.p ∧ NodeOK b.o ∧ b.o.key = keyOf q.o ∧
      b.found = (stmtsAt s q.g (keyOf q.s)).find? (fun k => k.p.key == keyOf q.p && k.o.key == keyOf q.o) := by
  obtain ⟨hs, hp, ho, _⟩ := hq
  have i1 := bindNode_inv s q.s hi hs
  have i2 := bindNode_inv _ q.p i1 hp
  have i3 := bindNode_inv _ q.o i2 ho
  have n1 := bindNode_spec s q.s hi.nodes hs
  have n2 := bindNode_spec _ q.p i1.nodes hp
  have n3 := bindNode_spec _ q.o i2.nodes ho
  have hgr : (bindNode (bindNode (bindNode s q.s).1 q.p).1 q.o).1.graphs = s.graphs := by
    rw [bindNode_graphs, bindNode_graphs, bindNode_graphs]
  refine ⟨_, _, bindStatement_toIn s q, i3, hgr, ?_, n1.2.1, n1.1, n2.2.1, n2.1, n3.2.1, n3.1, ?_⟩
  · rw [bindNode_nextId, bindNode_nextId, bindNode_nextId]
  · simp only [stmtsAt_congr hgr, n1.1, n2.1, n3.1]

theorem quad_ext {x q : Quad} (hx : WFQuad x) (hq : WFQuad q) (hg : x.g = q.g)
    (hs : keyOf x.s = keyOf q.s) (hp : keyOf x.p = keyOf q.p) (ho : keyOf x.o = keyOf q.o) : x = q := by
  obtain ⟨xs, xp, xo, xg⟩ := x
  obtain ⟨qs, qp, qo, qg⟩ := q
  simp only at hg hs hp ho
  have e1 := keyOf_injective _ _ hx.1 hq.1 hs
  have e2 := keyOf_injective _ _ hx.2.1 hq.2.1 hp
  have e3 := keyOf_injective _ _ hx.2.2.1 hq.2.2.1 ho
  simp only at e1 e2 e3
  subst e1 e2 e3 hg; rfl

/-- the key-level membership test that `bindStatement` performs -/
def Holds (s : State) (q : Quad) : Prop :=
  ∃ st ∈ stmtsAt s q.g (keyOf q.s), st.p.key = keyOf q.p ∧ st.o.key = keyOf q.o

theorem find_isSome_iff (s : State) (q : Quad) :
    ((stmtsAt s q.g (keyOf q.s)).find? (fun k => k.p.key == keyOf q.p && k.o.key == keyOf q.o)).isSome = true
      ↔ Holds s q := by
  rw [List.find?_isSome]; simp [Holds]

/-! ### HasQuad -/

theorem hasQuad_spec (s : State) (q : Quad) (hi : Inv s) (hq : WFQuad q) :
    Inv (hasQuad s q.toIn).1 ∧ abs (hasQuad s q.toIn).1 = abs s ∧
      (hasQuad s q.toIn).2 = .bool (decide (q ∈ abs s)) := by
  unfold hasQuad
  have hg : q.toIn.g = q.g := rfl
  rw [hg]
  cases hl : alookup q.g s.graphs with
  | none =>
    refine ⟨hi, rfl, ?_⟩
    have : q ∉ abs s := by
      rw [mem_abs_iff hi]; rintro ⟨_, st, hst, _⟩
      simp [stmtsAt, hl] at hst
    simp [this]
  | some G =>
    obtain ⟨s', b, hb, hi', hgr, _, _, _, _, _, _, _, hf⟩ := bindStatement_spec s q hi hq
    simp only [hb]
    refine ⟨hi', abs_congr hgr, ?_⟩
    congr 1
    rw [hf, Bool.eq_iff_iff, find_isSome_iff, decide_eq_true_iff, mem_abs_iff hi]
    simp [Holds, hq]

/-! ### AddQuad -/

theorem addQuad_spec (s : State) (q : Quad) (hi : Inv s) (hq : WFQuad q) :
    Inv (addQuad s q.toIn).1 ∧ (addQuad s q.toIn).2 = .unit ∧
      ∀ x, x ∈ abs (addQuad s q.toIn).1 ↔ x = q ∨ x ∈ abs s := by
  unfold addQuad
  have hg : q.toIn.g = q.g := rfl
  simp only [hg]
  have hi0 := ensureGraph_inv s q.g hi hq.2.2.2
  obtain ⟨s1, b, hb, hi1, hgr, hid, hns, hks, hnp, hkp, hno, hko, hf⟩ :=
    bindStatement_spec (ensureGraph s q.g) q hi0 hq
  simp only [hb]
  have hst0 : ∀ g k, stmtsAt s1 g k = stmtsAt s g k := fun g k => by
    rw [stmtsAt_congr hgr, stmtsAt_ensureGraph]
  have habs1 : abs s1 = abs s := by rw [abs_congr hgr, abs_ensureGraph]
  have hholds : b.found.isSome = true ↔ Holds s q := by
    rw [hf, find_isSome_iff]; simp [Holds, stmtsAt_ensureGraph]
  cases hfound : b.found with
  | some st =>
    simp only
    refine ⟨hi1, trivial, ?_⟩
    intro x; rw [habs1]
    have : q ∈ abs s := by
      rw [mem_abs_iff hi]; exact ⟨hq, hholds.1 (by simp [hfound])⟩
    constructor
    · exact Or.inr
    · rintro (rfl | h)
      · exact this
      · exact h
  | none =>
    simp only
    have hnot : ¬ Holds s q := fun h => by simpa [hfound] using hholds.2 h
    obtain ⟨G, hG⟩ := ensureGraph_has s q.g
    rw [← hgr] at hG
    have hl := stmtsAt_ok hi1 q.g b.s.key
    have hnew : StmtsOK (s1.nextId + 1) (stmtsAt s1 q.g b.s.key ++ [⟨s1.nextId, b.p, b.o⟩]) := by
      refine ⟨?_, ?_, ?_⟩
      · intro st hst
        rcases List.mem_append.1 hst with h | h
        · obtain ⟨a, c, d⟩ := hl.1 st h; exact ⟨a, c, Nat.lt_succ_of_lt d⟩
        · simp at h; subst h; exact ⟨hnp, hno, Nat.lt_succ_self _⟩
      · rw [List.pairwise_append]
        refine ⟨hl.2.1, by simp, ?_⟩
        intro a ha c hc; simp at hc; subst hc
        rintro ⟨e1, e2⟩
        apply hnot
        refine ⟨a, ?_, by rw [e1, hkp], by rw [e2, hko]⟩
        rw [← hst0, ← hks]; exact ha
      · rw [List.pairwise_append]
        refine ⟨hl.2.2, by simp, ?_⟩
        intro a ha c hc; simp at hc; subst hc
        exact Nat.ne_of_lt (hl.1 a ha).2.2
    have hi2 := setStmts_inv hi1 hG b.s _ hns (s1.nextId + 1) (Nat.le_succ _) hnew
    refine ⟨hi2, trivial, ?_⟩
    intro x
    rw [mem_abs_iff hi2, mem_abs_iff hi]
    have hst2 : ∀ g k, stmtsAt { setStmts s1 q.g b.s (stmtsAt s1 q.g b.s.key ++ [⟨s1.nextId, b.p, b.o⟩]) with
          nextId := s1.nextId + 1 } g k
        = if g = q.g ∧ k = b.s.key then stmtsAt s1 q.g b.s.key ++ [⟨s1.nextId, b.p, b.o⟩] else stmtsAt s g k := by
      intro g k
      rw [← hst0 g k, ← stmtsAt_setStmts hG]
      exact stmtsAt_congr rfl g k
    rw [hst2]
    constructor
    · rintro ⟨hx, st, hst, hp, ho⟩
      split at hst
      · rename_i hc
        rcases List.mem_append.1 hst with h | h
        · right
          refine ⟨hx, st, ?_, hp, ho⟩
          rw [hc.1, hc.2, ← hst0]; exact h
        · left
          simp at h; subst h
          exact quad_ext hx hq hc.1 (by rw [hc.2, hks]) (by rw [← hp]; exact hkp) (by rw [← ho]; exact hko)
      · exact Or.inr ⟨hx, st, hst, hp, ho⟩
    · rintro (rfl | ⟨hx, st, hst, hp, ho⟩)
      · refine ⟨hq, ⟨s1.nextId, b.p, b.o⟩, ?_, hkp, hko⟩
        simp [hks]
      · refine ⟨hx, st, ?_, hp, ho⟩
        split
        · rename_i hc
          apply List.mem_append_left
          rw [← hc.1, ← hc.2, hst0]; exact hst
        · exact hst

/-! ### DeleteQuad -/

theorem pairwise_mem {α : Type} {R : α → α → Prop} (hs : ∀ a b, R a b → R b a) :
    ∀ {l : List α}, l.Pairwise R → ∀ {a b}, a ∈ l → b ∈ l → a ≠ b → R a b := by
  intro l
  induction l with
  | nil => intro _ a b ha; simp at ha
  | cons c l ih =>
    intro hp a b ha hb hab
    rw [List.pairwise_cons] at hp
    rcases List.mem_cons.1 ha with rfl | ha'
    · rcases List.mem_cons.1 hb with rfl | hb'
      · exact absurd rfl hab
      · exact hp.1 b hb'
    · rcases List.mem_cons.1 hb with rfl | hb'
      · exact hs _ _ (hp.1 a ha')
      · exact ih hp.2 ha' hb' hab

theorem setStmts_inv' {s : State} {g : Option Term} {G : SubjMap} (hi : Inv s)
    (hg : alookup g s.graphs = some G) (n : Node) (l : List Stmt) (hn : NodeOK n)
    (hl : StmtsOK s.nextId l) : Inv (setStmts s g n l) := by
  have h := setStmts_inv hi hg n l hn s.nextId (Nat.le_refl _) hl
  have e : ({ setStmts s g n l with nextId := s.nextId } : State) = setStmts s g n l := by
    rw [← setStmts_nextId s g n l]
  rwa [e] at h

theorem deleteQuad_spec (s : State) (q : Quad) (hi : Inv s) (hq : WFQuad q) :
    Inv (deleteQuad s q.toIn).1 ∧ (deleteQuad s q.toIn).2 = .unit ∧
      (∀ x, x ∈ abs (deleteQuad s q.toIn).1 ↔ x ≠ q ∧ x ∈ abs s) ∧
      (q ∉ abs s → abs (deleteQuad s q.toIn).1 = abs s) := by
  unfold deleteQuad
  have hg : q.toIn.g = q.g := rfl
  simp only [hg]
  have hi0 := ensureGraph_inv s q.g hi hq.2.2.2
  obtain ⟨s1, b, hb, hi1, hgr, hid, hns, hks, hnp, hkp, hno, hko, hf⟩ :=
    bindStatement_spec (ensureGraph s q.g) q hi0 hq
  simp only [hb]
  have hst0 : ∀ g k, stmtsAt s1 g k = stmtsAt s g k := fun g k => by
    rw [stmtsAt_congr hgr, stmtsAt_ensureGraph]
  have habs1 : abs s1 = abs s := by rw [abs_congr hgr, abs_ensureGraph]
  have hholds : b.found.isSome = true ↔ Holds s q := by
    rw [hf, find_isSome_iff]; simp [Holds, stmtsAt_ensureGraph]
  have hmemq : q ∈ abs s ↔ Holds s q := by
    rw [mem_abs_iff hi]; simp [Holds, hq]
  cases hfound : b.found with
  | none =>
    simp only
    have hnot : q ∉ abs s := fun h => by simpa [hfound] using hholds.2 (hmemq.1 h)
    refine ⟨hi1, trivial, ?_, fun _ => habs1⟩
    intro x; rw [habs1]
    constructor
    · intro h; exact ⟨fun e => hnot (e ▸ h), h⟩
    · exact fun h => h.2
  | some st =>
    simp only
    have hfs : (stmtsAt s q.g (keyOf q.s)).find? (fun k => k.p.key == keyOf q.p && k.o.key == keyOf q.o) = some st := by
      rw [← hfound, hf]; simp [stmtsAt_ensureGraph]
    have hstm : st ∈ stmtsAt s q.g (keyOf q.s) := List.mem_of_find?_eq_some hfs
    have hstk : st.p.key = keyOf q.p ∧ st.o.key = keyOf q.o := by
      have := List.find?_some hfs; simpa using this
    have hqin : q ∈ abs s := hmemq.2 ⟨st, hstm, hstk⟩
    obtain ⟨G, hG⟩ := ensureGraph_has s q.g
    rw [← hgr] at hG
    have hl := stmtsAt_ok hi1 q.g b.s.key
    have hl' : StmtsOK s1.nextId (exclude (stmtsAt s1 q.g b.s.key) st) := by
      unfold exclude
      exact ⟨fun x hx => hl.1 x (List.mem_filter.1 hx).1, hl.2.1.filter _, hl.2.2.filter _⟩
    have hi2 := setStmts_inv' hi1 hG b.s _ hns hl'
    refine ⟨hi2, trivial, ?_, fun h => absurd hqin h⟩
    intro x
    rw [mem_abs_iff hi2, mem_abs_iff hi]
    have hst2 : ∀ g k, stmtsAt (setStmts s1 q.g b.s (exclude (stmtsAt s1 q.g b.s.key) st)) g k
        = if g = q.g ∧ k = b.s.key then exclude (stmtsAt s1 q.g b.s.key) st else stmtsAt s g k := by
      intro g k
      rw [← hst0 g k, ← stmtsAt_setStmts hG]
    rw [hst2]
    have hlS := stmtsAt_ok hi q.g (keyOf q.s)
    constructor
    · rintro ⟨hx, st', hst', hp, ho⟩
      split at hst'
      · rename_i hc
        unfold exclude at hst'
        rw [List.mem_filter, hst0, hks] at hst'
        obtain ⟨hin, hne⟩ := hst'
        refine ⟨?_, hx, st', by rw [hc.1, hc.2, hks]; exact hin, hp, ho⟩
        rintro rfl
        have hne' : st' ≠ st := fun e => by subst e; simp at hne
        exact pairwise_mem (fun a b h e => h ⟨e.1.symm, e.2.symm⟩) hlS.2.1 hin hstm hne'
          ⟨hp.trans hstk.1.symm, ho.trans hstk.2.symm⟩
      · rename_i hc
        refine ⟨?_, hx, st', hst', hp, ho⟩
        rintro rfl
        exact hc ⟨rfl, hks.symm⟩
    · rintro ⟨hne, hx, st', hst', hp, ho⟩
      refine ⟨hx, st', ?_, hp, ho⟩
      split
      · rename_i hc
        unfold exclude
        rw [List.mem_filter, hst0, hks]
        rw [hc.1, hc.2, hks] at hst'
        refine ⟨hst', ?_⟩
        simp only [bne_iff_ne, ne_eq]
        intro hid'
        apply hne
        have : st' = st := by
          by_cases e : st' = st
          · exact e
          · exact absurd hid' (pairwise_mem (fun a b h => Ne.symm h) hlS.2.2 hst' hstm e)
        subst this
        exact quad_ext hx hq hc.1 (by rw [hc.2, hks]) (by rw [← hp]; exact hstk.1) (by rw [← ho]; exact hstk.2)
      · exact hst'

end RdfModel.Proofs.C19
