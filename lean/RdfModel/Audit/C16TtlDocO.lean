import RdfModel.Props.C16TtlDocO
#print axioms RdfModel.C16TtlDocO.doc_erasure
#print axioms RdfModel.C16TtlDocO.doc_capture_on_eq_off
#print axioms RdfModel.C16TtlDocO.next_erasure
#print axioms RdfModel.C16TtlDocO.inv_steps
#print axioms RdfModel.C16TtlDocO.doc_commit_discipline
#print axioms RdfModel.C16TtlDocO.doc_commit_discipline_text
#print axioms RdfModel.C16TtlDocO.doc_ranges_inside
#print axioms RdfModel.C16TtlDocO.range_offsets_inside
