/-
  C07 "every N-Triples document is Turtle (and TriG)" at DOCUMENT level: a simulation from the
  N-Triples statement machine of `Model/NQuads.lean` (`NQ.run … quads := false`) to the Turtle/TriG
  scan-function machine of `Model/TurtleDoc.lean` (no base, empty prefix table, real producers).

  Per accepted N-Triples statement `S P O .` the Turtle machine makes eight iterations of the loop
  in `Next` (top-level function, subject, required predicate-object list, object — `Next() = true`
  — then `ObjectList_Continue`, `PredicateObjectList_Continue`, `Triples_End` and back to the
  top-level function); the TriG machine differs in the first two (`labelOrSubject`, `E1`).
  Token level: IRIREF and strings from `Proofs/C07Tok.lean`; language tags and blank-node labels
  here.  The one exclusion: blank-node labels containing ':' (finding C07-bnode-label-colon).
-/
import RdfModel.Proofs.TtlDocPrefix2
import RdfModel.Proofs.C07Tok
namespace RdfModel.TtlDoc
open RdfModel

/-- What the simulation needs from the two packages' tables and the white-space predicate. -/
structure NTCfg (Tn : NQ.Tables) (T : Ttl.Tables) (C : Cfg) : Prop where
  prod : C.P = Producers.real T
  hex : Tn.hexDec = T.hexDec
  pn : ∀ c, c ≠ 0x3a → inRanges Tn.pnChars c = inRanges T.pnChars c
  pnU : ∀ c, c ≠ 0x3a → inRanges Tn.pnCharsU c = inRanges T.pnCharsU c
  colonT : inRanges T.pnChars 0x3a = false
  dotU : inRanges Tn.pnCharsU 0x2e = false
  scalar : ∀ c, (inRanges Tn.pnChars c = true ∨ inRanges Tn.pnCharsU c = true) → IsScalar c
  ws : ∀ c, isWs C c = NQ.isSpace Tn c
  sp_lt : NQ.isSpace Tn 0x3c = false
  sp_us : NQ.isSpace Tn 0x5f = false
  sp_dq : NQ.isSpace Tn 0x22 = false
  sp_dot : NQ.isSpace Tn 0x2e = false

variable {Tn : NQ.Tables} {T : Ttl.Tables} {C : Cfg}

/-! ### White space and comments -/

theorem nt_skipToStmt (h : NTCfg Tn T C) : ∀ (b : Bool) (i : List Nat),
    (NQ.skipToStmt Tn b i = none → skipWs C .eof b i = .end_) ∧
    (∀ j, NQ.skipToStmt Tn b i = some j → ∃ c r, j = c :: r ∧ skipWs C .eof b i = .rune c r) := by
  intro b i
  induction i generalizing b with
  | nil => cases b <;> simp [NQ.skipToStmt, skipWs]
  | cons a rest ih =>
    cases b with
    | true =>
      simp only [NQ.skipToStmt, skipWs]
      by_cases h1 : a = 0x0a ∨ a = 0x0d
      · rw [if_pos h1, if_pos h1]; exact ih false
      · rw [if_neg h1, if_neg h1]; exact ih true
    | false =>
      simp only [NQ.skipToStmt, skipWs]
      by_cases h1 : a = 0x23
      · rw [if_pos h1, if_pos h1]; exact ih true
      · rw [if_neg h1, if_neg h1, h.ws a]
        by_cases h2 : NQ.isSpace Tn a = true
        · rw [if_pos h2, if_pos h2]; exact ih false
        · rw [if_neg h2, if_neg h2]
          exact ⟨fun hh => (by cases hh), fun j hj => (by injection hj with hj; subst hj; exact ⟨a, rest, rfl, rfl⟩)⟩

theorem nt_toEOL (h : NTCfg Tn T C) : ∀ (b : Bool) (i : List Nat),
    (∀ rest, NQ.toEOL Tn .eof b i = .start rest → skipWs C .eof b i = skipWs C .eof false rest) ∧
    (NQ.toEOL Tn .eof b i = .done → skipWs C .eof b i = .end_) := by
  intro b i
  induction i generalizing b with
  | nil => cases b <;> simp [NQ.toEOL, skipWs]
  | cons a rest ih =>
    cases b with
    | true =>
      simp only [NQ.toEOL, skipWs]
      by_cases h1 : a = 0x0a ∨ a = 0x0d
      · rw [if_pos h1, if_pos h1]
        exact ⟨fun r hr => (by injection hr with hr; subst hr; rfl), fun hh => (by cases hh)⟩
      · rw [if_neg h1, if_neg h1]; exact ih true
    | false =>
      simp only [NQ.toEOL, skipWs]
      by_cases h1 : a = 0x23
      · rw [if_pos h1, if_pos h1]; exact ih true
      · rw [if_neg h1, if_neg h1]
        by_cases h2 : a = 0x0d ∨ a = 0x0a
        · have : isWs C a = true := by
            simp only [isWs, Bool.or_eq_true, decide_eq_true_eq]
            rcases h2 with h2 | h2 <;> simp [h2]
          rw [if_pos h2, if_pos this]
          exact ⟨fun r hr => (by injection hr with hr; subst hr; rfl), fun hh => (by cases hh)⟩
        · rw [if_neg h2, h.ws a]
          by_cases h3 : NQ.isSpace Tn a = true
          · rw [if_pos h3, if_pos h3]; exact ih false
          · rw [if_neg h3, if_neg h3]
            exact ⟨fun r hr => (by cases hr), fun hh => (by cases hh)⟩

theorem nt_expectDot (h : NTCfg Tn T C) : ∀ (b : Bool) (i r : List Nat),
    NQ.expectDot Tn .eof b i = .ok () r → skipWs C .eof b i = .rune 0x2e r := by
  intro b i
  induction i generalizing b with
  | nil => intro r hh; cases b <;> simp [NQ.expectDot] at hh
  | cons a rest ih =>
    intro r hh
    cases b with
    | true =>
      simp only [NQ.expectDot, skipWs] at hh ⊢
      split at hh
      · next h1 => rw [if_pos h1]; exact ih _ _ hh
      · next h1 => rw [if_neg h1]; exact ih _ _ hh
    | false =>
      simp only [NQ.expectDot, skipWs] at hh ⊢
      split at hh
      · next h1 =>
        subst h1
        injection hh with _ h2; subst h2
        have : isWs C 0x2e = false := by rw [h.ws]; exact h.sp_dot
        simp [this]
      · next h1 =>
        split at hh
        · next h2 => rw [if_pos h2]; exact ih _ _ hh
        · next h2 =>
          rw [if_neg h2, h.ws a]
          split at hh
          · next h3 => rw [if_pos h3]; exact ih _ _ hh
          · cases hh

/-- `captureTerm` first skips what `scan` skips; the rune it then dispatches on is an opener. -/
theorem nt_captureTerm_skip (h : NTCfg Tn T C) (urlOk : List Nat → Bool) (pos : NQ.Pos) :
    ∀ (b : Bool) (i : List Nat) (t : Term (List Nat)) (r : List Nat),
    NQ.captureTerm Tn urlOk .eof pos b i = .ok t r →
    ∃ c rest, skipWs C .eof b i = .rune c rest ∧ NQ.captureTerm Tn urlOk .eof pos false (c :: rest) = .ok t r ∧
      (c = 0x3c ∨ (c = 0x5f ∧ pos.bnode = true) ∨ (c = 0x22 ∧ pos.literal = true)) := by
  intro b i
  induction i generalizing b with
  | nil => intro t r hh; cases b <;> simp [NQ.captureTerm] at hh
  | cons a rest ih =>
    intro t r hh
    cases b with
    | true =>
      simp only [NQ.captureTerm, skipWs] at hh ⊢
      split at hh
      · next h1 => rw [if_pos h1]; exact ih _ _ _ hh
      · next h1 => rw [if_neg h1]; exact ih _ _ _ hh
    | false =>
      have hopen : ∀ (hc : a = 0x3c ∨ (a = 0x5f ∧ pos.bnode = true) ∨ (a = 0x22 ∧ pos.literal = true)),
          skipWs C .eof false (a :: rest) = .rune a rest := by
        intro hc
        have h1 : a ≠ 0x23 := by rcases hc with rfl | ⟨rfl, _⟩ | ⟨rfl, _⟩ <;> decide
        have h2 : isWs C a = false := by
          rw [h.ws]
          rcases hc with rfl | ⟨rfl, _⟩ | ⟨rfl, _⟩
          · exact h.sp_lt
          · exact h.sp_us
          · exact h.sp_dq
        simp [skipWs, h1, h2]
      by_cases h1 : a = 0x3c
      · exact ⟨a, rest, hopen (Or.inl h1), hh, Or.inl h1⟩
      · by_cases h2 : (a == 0x5f && pos.bnode) = true
        · have h2' : a = 0x5f ∧ pos.bnode = true := by simpa using h2
          exact ⟨a, rest, hopen (Or.inr (Or.inl h2')), hh, Or.inr (Or.inl h2')⟩
        · by_cases h3 : (a == 0x22 && pos.literal) = true
          · have h3' : a = 0x22 ∧ pos.literal = true := by simpa using h3
            exact ⟨a, rest, hopen (Or.inr (Or.inr h3')), hh, Or.inr (Or.inr h3')⟩
          · have h2'' : ¬ ((decide (a = 0x5f) && pos.bnode) = true) := by simpa using h2
            have h3'' : ¬ ((decide (a = 0x22) && pos.literal) = true) := by simpa using h3
            simp only [NQ.captureTerm, if_neg h1, if_neg h2'', if_neg h3''] at hh
            simp only [skipWs]
            split at hh
            · next h4 => rw [if_pos h4]; exact ih _ _ _ hh
            · next h4 =>
              rw [if_neg h4, h.ws a]
              split at hh
              · next h5 => rw [if_pos h5]; exact ih _ _ _ hh
              · cases hh

/-! ### Tokens: language tags -/

theorem goString_small {l : List Nat} (h : ∀ x ∈ l, x < 0x80) : goString l = l :=
  goString_id_of_scalar (fun r hr => Or.inl (by have := h r hr; omega))

theorem alnum_small {c : Nat} (h : (NQ.isAlpha c || NQ.isDigit c) = true) : c < 0x80 := by
  simp only [NQ.isAlpha, NQ.isDigit, Bool.or_eq_true, Bool.and_eq_true, decide_eq_true_eq] at h
  omega

theorem nt_langSecondary (e : End) : ∀ (i acc v r : List Nat), (∀ x ∈ acc, x < 0x80) →
    NQ.langSecondary e i acc = .ok v r → Ttl.langSecondary e i acc = .ok v r := by
  intro i
  induction i with
  | nil => intro acc v r _ h; simp [NQ.langSecondary] at h
  | cons c rest ih =>
    intro acc v r hacc h
    simp only [NQ.langSecondary, Ttl.langSecondary] at h ⊢
    by_cases h1 : (NQ.isAlpha c || NQ.isDigit c) = true
    · rw [if_pos h1] at h
      rw [if_pos (show (Ttl.isAlpha c || Ttl.isDigit c) = true from h1)]
      exact ih _ _ _ (fun x hx => by
        rcases List.mem_cons.mp hx with rfl | hx
        · exact alnum_small h1
        · exact hacc x hx) h
    · rw [if_neg h1] at h
      rw [if_neg (show ¬ (Ttl.isAlpha c || Ttl.isDigit c) = true from h1)]
      by_cases h2 : c = 0x2d
      · rw [if_pos h2] at h ⊢
        by_cases h3 : acc.head? = some 0x2d
        · rw [if_pos h3] at h; cases h
        · rw [if_neg h3] at h ⊢
          exact ih _ _ _ (fun x hx => by
            rcases List.mem_cons.mp hx with rfl | hx
            · omega
            · exact hacc x hx) h
      · rw [if_neg h2] at h ⊢
        by_cases h3 : acc.head? = some 0x2d
        · rw [if_pos h3] at h; cases h
        · rw [if_neg h3] at h
          injection h with q1 q2; subst q1; subst q2
          simp only [Ttl.langDone, if_neg h3]
          rw [goString_small (fun x hx => hacc x (List.mem_reverse.mp hx))]

theorem nt_langPrimary (e : End) : ∀ (i acc v r : List Nat), (∀ x ∈ acc, NQ.isAlpha x = true) →
    NQ.langPrimary e i acc = .ok v r → Ttl.langPrimary e i acc = .ok v r := by
  intro i
  induction i with
  | nil => intro acc v r _ h; simp [NQ.langPrimary] at h
  | cons c rest ih =>
    intro acc v r hacc h
    have hsmall : ∀ x ∈ acc, x < 0x80 := fun x hx => alnum_small (by simp [hacc x hx])
    simp only [NQ.langPrimary, Ttl.langPrimary] at h ⊢
    by_cases h1 : NQ.isAlpha c = true
    · rw [if_pos h1] at h
      rw [if_pos (show Ttl.isAlpha c = true from h1)]
      exact ih _ _ _ (fun x hx => by
        rcases List.mem_cons.mp hx with rfl | hx
        · exact h1
        · exact hacc x hx) h
    · rw [if_neg h1] at h
      rw [if_neg (show ¬ Ttl.isAlpha c = true from h1)]
      by_cases h2 : c = 0x2d
      · rw [if_pos h2] at h ⊢
        by_cases h3 : acc.isEmpty = true
        · rw [if_pos h3] at h; cases h
        · rw [if_neg h3] at h ⊢
          exact nt_langSecondary e _ _ _ _ (fun x hx => by
            rcases List.mem_cons.mp hx with rfl | hx
            · omega
            · exact hsmall x hx) h
      · rw [if_neg h2] at h ⊢
        by_cases h3 : acc.isEmpty = true
        · rw [if_pos h3] at h; cases h
        · rw [if_neg h3] at h ⊢
          injection h with q1 q2; subst q1; subst q2
          have hhead : ¬ acc.head? = some 0x2d := by
            intro hh
            cases acc with
            | nil => cases hh
            | cons a t =>
              simp only [List.head?_cons, Option.some.injEq] at hh
              have := hacc a List.mem_cons_self
              rw [hh] at this; revert this; decide
          simp only [Ttl.langDone, if_neg hhead]
          rw [goString_small (fun x hx => hsmall x (List.mem_reverse.mp hx))]

/-! ### Tokens: blank-node labels (the ':' exclusion) -/

theorem nt_bnFinish_mem (accRev rest l r : List Nat) (h : NQ.bnFinish Tn accRev rest = .ok l r) :
    ∀ x ∈ accRev, x ≠ 0x2e → x ∈ l := by
  unfold NQ.bnFinish at h
  split at h
  · cases accRev with
    | nil => cases h
    | cons a more =>
      simp only [] at h
      by_cases ha : a = 0x2e
      · rw [if_pos ha] at h
        cases more with
        | nil => cases h
        | cons l' t =>
          simp only [] at h
          split at h
          · injection h with q1 q2; subst q1
            intro x hx hne
            rcases List.mem_cons.mp hx with rfl | hx
            · exact absurd ha hne
            · exact List.mem_reverse.mpr hx
          · cases h
      · rw [if_neg ha] at h
        split at h
        · injection h with q1 q2; subst q1
          intro x hx _; exact List.mem_reverse.mpr hx
        · cases h
  · injection h with q1 q2; subst q1
    intro x hx _; exact List.mem_reverse.mpr hx

theorem nt_bnLoop_mem (e : End) : ∀ (i acc l r : List Nat), NQ.bnLoop Tn e i acc = .ok l r →
    ∀ x ∈ acc, x ≠ 0x2e → x ∈ l := by
  intro i
  induction i with
  | nil => intro acc l r h; simp [NQ.bnLoop] at h
  | cons c rest ih =>
    intro acc l r h
    simp only [NQ.bnLoop] at h
    split at h
    · intro x hx hne; exact ih _ _ _ h x (List.mem_cons_of_mem _ hx) hne
    · exact nt_bnFinish_mem _ _ _ _ h

/-- what is known about the label read so far: no ':', only name characters, and it starts with a
    rune that is not '.' -/
structure LabelAcc (Tn : NQ.Tables) (acc : List Nat) : Prop where
  noColon : ∀ x ∈ acc, x ≠ 0x3a
  scalar : ∀ x ∈ acc, IsScalar x
  first : ∃ front c0, acc = front ++ [c0] ∧ c0 ≠ 0x2e

theorem nt_bnFinish (h : NTCfg Tn T C) (acc rest l r : List Nat) (ha : LabelAcc Tn acc)
    (hh : NQ.bnFinish Tn acc rest = .ok l r) : Ttl.bnDone T acc rest = .ok l r := by
  have hgo : ∀ m : List Nat, (∀ x ∈ m, x ∈ acc) → goString m.reverse = m.reverse :=
    fun m hm => goString_id_of_scalar (fun x hx => ha.scalar x (hm x (List.mem_reverse.mp hx)))
  obtain ⟨front, c0, hacc, hc0⟩ := ha.first
  unfold NQ.bnFinish at hh
  cases acc with
  | nil => cases front <;> simp at hacc
  | cons a more =>
    by_cases hlen : (a :: more).length ≥ 2
    · rw [if_pos hlen] at hh; simp only [] at hh
      by_cases hdot : a = 0x2e
      · rw [if_pos hdot] at hh
        cases more with
        | nil => cases hh
        | cons l' t =>
          simp only [] at hh
          split at hh
          · next hp =>
            injection hh with q1 q2; subst q1; subst q2
            have hl' : l' ≠ 0x3a := ha.noColon l' (by simp)
            have hpT : inRanges T.pnChars l' = true := by rw [← h.pn l' hl']; exact hp
            simp only [Ttl.bnDone, hdot, if_true, hpT, Bool.not_true, Bool.and_false, Bool.false_eq_true, if_false]
            rw [hgo (l' :: t) (fun x hx => List.mem_cons_of_mem _ hx)]
          · cases hh
      · rw [if_neg hdot] at hh
        split at hh
        · next hp =>
          injection hh with q1 q2; subst q1; subst q2
          have ha' : a ≠ 0x3a := ha.noColon a (by simp)
          have hpT : inRanges T.pnChars a = true := by rw [← h.pn a ha']; exact hp
          simp only [Ttl.bnDone, hdot, if_false, hpT, Bool.not_true, Bool.and_false, Bool.false_eq_true]
          rw [hgo (a :: more) (fun x hx => hx)]
        · cases hh
    · rw [if_neg hlen] at hh
      injection hh with q1 q2; subst q1; subst q2
      have hm : more = [] := by
        cases more with
        | nil => rfl
        | cons b t => simp at hlen
      subst hm
      have hac : a = c0 := by
        cases front with
        | nil => simpa using hacc
        | cons f ft => cases ft <;> simp at hacc
      have hdot : a ≠ 0x2e := hac ▸ hc0
      simp only [Ttl.bnDone, hdot, if_false, List.isEmpty_nil, Bool.not_true, Bool.false_and, Bool.false_eq_true]
      rw [hgo [a] (fun x hx => hx)]

theorem nt_bnLoop (h : NTCfg Tn T C) (e : End) : ∀ (i acc l r : List Nat), LabelAcc Tn acc → 0x3a ∉ l →
    NQ.bnLoop Tn e i acc = .ok l r → Ttl.bnLoop T e i acc = .ok l r := by
  intro i
  induction i with
  | nil => intro acc l r _ _ hh; simp [NQ.bnLoop] at hh
  | cons c rest ih =>
    intro acc l r ha hl hh
    have hmem := nt_bnLoop_mem e _ _ _ _ hh
    simp only [NQ.bnLoop, Ttl.bnLoop] at hh ⊢
    by_cases h1 : (inRanges Tn.pnChars c || c = 0x2e) = true
    · rw [if_pos h1] at hh
      have hmem' := nt_bnLoop_mem e _ _ _ _ hh
      have hc : c ≠ 0x3a := by
        intro hc; subst hc
        exact hl (hmem' _ List.mem_cons_self (by decide))
      have h1T : (inRanges T.pnChars c || c = 0x2e) = true := by rw [← h.pn c hc]; exact h1
      rw [if_pos h1T]
      refine ih _ _ _ ⟨?_, ?_, ?_⟩ hl hh
      · intro x hx
        rcases List.mem_cons.mp hx with rfl | hx
        · exact hc
        · exact ha.noColon x hx
      · intro x hx
        rcases List.mem_cons.mp hx with rfl | hx
        · simp only [Bool.or_eq_true, decide_eq_true_eq] at h1
          rcases h1 with h1 | h1
          · exact h.scalar _ (Or.inl h1)
          · subst h1; exact Or.inl (by decide)
        · exact ha.scalar x hx
      · obtain ⟨front, c0, hacc, hc0⟩ := ha.first
        exact ⟨c :: front, c0, by simp [hacc], hc0⟩
    · rw [if_neg h1] at hh
      have h1T : ¬ (inRanges T.pnChars c || c = 0x2e) = true := by
        by_cases hc : c = 0x3a
        · subst hc; simp [h.colonT]
        · rw [← h.pn c hc]; exact h1
      rw [if_neg h1T]
      exact nt_bnFinish h _ _ _ _ ha hh

theorem nt_bnode (h : NTCfg Tn T C) (e : End) (r1 l r : List Nat) (hl : 0x3a ∉ l)
    (hh : NQ.captureBNode Tn e r1 = .ok l r) : Ttl.produceBlankNode T e (0x5f :: 0x3a :: r1) = .ok l r := by
  cases r1 with
  | nil => simp [NQ.captureBNode] at hh
  | cons c rest =>
    simp only [NQ.captureBNode] at hh
    split at hh
    · next h1 =>
      have hmem := nt_bnLoop_mem e _ _ _ _ hh
      have hdot : c ≠ 0x2e := by
        intro hc; subst hc
        simp [h.dotU, NQ.isDigit] at h1
      have hc : c ≠ 0x3a := by
        intro hc; subst hc
        exact hl (hmem _ (by simp) (by decide))
      have h1T : (inRanges T.pnCharsU c || Ttl.isDigit c) = true := by
        rw [← h.pnU c hc]; exact h1
      simp only [Ttl.produceBlankNode, ne_eq, not_true_eq_false, if_false, h1T, if_true]
      refine nt_bnLoop h e _ _ _ _ ⟨?_, ?_, ⟨[], c, rfl, hdot⟩⟩ hl hh
      · intro x hx; simp at hx; subst hx; exact hc
      · intro x hx; simp at hx; subst hx
        simp only [Bool.or_eq_true] at h1
        rcases h1 with h1 | h1
        · exact h.scalar _ (Or.inr h1)
        · simp only [NQ.isDigit, Bool.and_eq_true, decide_eq_true_eq] at h1
          exact Or.inl (by omega)
    · cases hh

/-! ### Terms -/

/-- the exclusion: a blank-node label containing ':' (finding C07-bnode-label-colon) -/
def labelOK : Term (List Nat) → Prop
  | .bnode l => 0x3a ∉ l
  | _ => True

theorem nt_iri (h : NTCfg Tn T C) (urlOk : List Nat → Bool) (e : End) (env : Env) (henv : env.base = none)
    (rest v r : List Nat) (hh : NQ.captureIRI Tn urlOk e rest = .ok v r) :
    iriIRIREF C e env (0x3c :: rest) = .ok v r := by
  unfold NQ.captureIRI at hh
  cases hs : NQ.scanIRI Tn e .body rest [] with
  | err c => rw [hs] at hh; cases hh
  | ok dec rest' =>
    rw [hs] at hh; simp only [] at hh
    split at hh
    · injection hh with q1 q2; subst q1; subst q2
      have := Proofs.C07Tok.scanIRI_sub Tn T h.hex e rest _ _ _ _ hs
      have hp : C.P.iriref e (0x3c :: rest) = .ok (goString dec) rest' := by
        rw [h.prod]; simp only [Producers.real, Ttl.produceIRIREF, if_true]; exact this
      simp [iriIRIREF, hp, resolveIRI, henv]
    · cases hh

theorem nt_string (h : NTCfg Tn T C) (e : End) (inp v r : List Nat)
    (hh : NQ.scanLit Tn e .body inp [] = .ok v r) (hstop : v = [] → C02.EmptyStrStop e r) :
    C.P.string e (0x22 :: inp) = .ok (goString v) r := by
  rw [h.prod]
  show Ttl.produceString T e (0x22 :: inp) = _
  cases inp with
  | nil => simp [NQ.scanLit] at hh
  | cons c1 r1 =>
    by_cases hq : c1 = 0x22
    · subst hq
      rw [NQ.scanLit] at hh
      simp only [if_true] at hh
      cases hh
      have hstop := hstop rfl
      cases r with
      | nil => simp only [C02.EmptyStrStop] at hstop; subst hstop; simp [Ttl.produceString, goString]
      | cons c2 r2 =>
        simp only [C02.EmptyStrStop] at hstop
        simp [Ttl.produceString, hstop, goString]
    · have := Proofs.C07Tok.scanLit_sub Tn T h.hex e (c1 :: r1) _ _ _ _ hh
      simp only [Ttl.produceString, true_or, if_true]
      rw [if_neg hq]
      exact this

theorem captureBNode_ne_nil (h : NTCfg Tn T C) (e : End) (r1 l r : List Nat)
    (hh : NQ.captureBNode Tn e r1 = .ok l r) : l ≠ [] := by
  cases r1 with
  | nil => simp [NQ.captureBNode] at hh
  | cons c rest =>
    simp only [NQ.captureBNode] at hh
    split at hh
    · next h1 =>
      have hdot : c ≠ 0x2e := by
        intro hc; subst hc
        simp [h.dotU, NQ.isDigit] at h1
      have := nt_bnLoop_mem e _ _ _ _ hh c (by simp) hdot
      intro hl; rw [hl] at this; cases this
    · cases hh

/-- what `captureTerm` does once it stands on an opener -/
theorem nt_term_cases (urlOk : List Nat → Bool) (e : End) (pos : NQ.Pos) (c : Nat) (rest : List Nat)
    (t : Term (List Nat)) (r : List Nat)
    (hop : c = 0x3c ∨ (c = 0x5f ∧ pos.bnode = true) ∨ (c = 0x22 ∧ pos.literal = true))
    (hh : NQ.captureTerm Tn urlOk e pos false (c :: rest) = .ok t r) :
    (c = 0x3c ∧ ∃ v, t = .iri v ∧ NQ.captureIRI Tn urlOk e rest = .ok v r) ∨
    (c = 0x5f ∧ ∃ r1 l, rest = 0x3a :: r1 ∧ t = .bnode l ∧ NQ.captureBNode Tn e r1 = .ok l r) ∨
    (c = 0x22 ∧ pos.literal = true ∧ NQ.captureLiteral Tn urlOk e rest = .ok t r) := by
  rcases hop with rfl | ⟨rfl, hb⟩ | ⟨rfl, hl⟩
  · left
    simp only [NQ.captureTerm, if_true] at hh
    cases hc : NQ.captureIRI Tn urlOk e rest with
    | err x => rw [hc] at hh; cases hh
    | ok v r' => rw [hc] at hh; simp only [] at hh; injection hh with q1 q2; subst q1; subst q2; exact ⟨rfl, v, rfl, rfl⟩
  · right; left
    simp only [NQ.captureTerm, hb, show ¬ (0x5f : Nat) = 0x3c by decide, if_false, decide_true, Bool.and_self, if_true] at hh
    cases rest with
    | nil => cases hh
    | cons c1 r1 =>
      simp only [] at hh
      split at hh
      · cases hh
      · next h1 =>
        have h1' : c1 = 0x3a := by simpa using h1
        subst h1'
        cases hc : NQ.captureBNode Tn e r1 with
        | err x => rw [hc] at hh; cases hh
        | ok l r' => rw [hc] at hh; simp only [] at hh; injection hh with q1 q2; subst q1; subst q2; exact ⟨rfl, r1, l, rfl, rfl, hc⟩
  · right; right
    simp only [NQ.captureTerm, hl, show ¬ (0x22 : Nat) = 0x3c by decide, if_false, show ¬ (0x22 : Nat) = 0x5f by decide,
      decide_false, Bool.false_and, Bool.false_eq_true, decide_true, Bool.and_self, if_true] at hh
    exact ⟨rfl, hl, hh⟩

/-- subject / graph-label tokens on the Turtle side -/
theorem nt_node_term (h : NTCfg Tn T C) (urlOk : List Nat → Bool) (env : Env) (henv : env.base = none)
    (c : Nat) (rest : List Nat) (t : Term (List Nat)) (r : List Nat) (hok : labelOK t)
    (hop : c = 0x3c ∨ (c = 0x5f ∧ NQ.posSubject.bnode = true) ∨ (c = 0x22 ∧ NQ.posSubject.literal = true))
    (hh : NQ.captureTerm Tn urlOk .eof NQ.posSubject false (c :: rest) = .ok t r) :
    (c = 0x3c ∧ termIRIREF C .eof env (c :: rest) = .ok (t.map BN.lbl) r env) ∨
    (c = 0x5f ∧ termBNode C .eof env (c :: rest) = .ok (t.map BN.lbl) r env) := by
  rcases nt_term_cases urlOk .eof _ c rest t r hop hh with ⟨rfl, v, rfl, hc⟩ | ⟨rfl, r1, l, rfl, rfl, hc⟩ | ⟨_, hl, _⟩
  · left
    refine ⟨rfl, ?_⟩
    simp [termIRIREF, nt_iri h urlOk .eof env henv rest v r hc, IriRes.toTerm, Term.map]
  · right
    refine ⟨rfl, ?_⟩
    have hp : C.P.bnode .eof (0x5f :: 0x3a :: r1) = .ok l r := by
      rw [h.prod]; exact nt_bnode h .eof r1 l r hok hc
    have hne := captureBNode_ne_nil h .eof r1 l r hc
    simp [termBNode, hp, Env.labelled, hne, Term.map]
  · cases hl

/-- `reader_scan_Object` on what `captureObject` accepts (the rune after the object is not `"`:
    in an accepted statement white space, a comment or `.` follows). -/
theorem nt_object (h : NTCfg Tn T C) (urlOk : List Nat → Bool) (x : Ectx) (env : Env) (henv : env.base = none)
    (c : Nat) (rest : List Nat) (o : Term (List Nat)) (r : List Nat) (hok : labelOK o)
    (hop : c = 0x3c ∨ (c = 0x5f ∧ NQ.posObject.bnode = true) ∨ (c = 0x22 ∧ NQ.posObject.literal = true))
    (hh : NQ.captureTerm Tn urlOk .eof NQ.posObject false (c :: rest) = .ok o r)
    (hnext : ∃ d r', r = d :: r' ∧ d ≠ 0x22) :
    stepObject C .eof x env c rest = .ok { emit := some (mkStmt x (o.map BN.lbl)), inp := r, env := env } := by
  rcases nt_term_cases urlOk .eof _ c rest o r hop hh with ⟨rfl, v, rfl, hc⟩ | ⟨rfl, r1, l, rfl, rfl, hc⟩ | ⟨rfl, _, hc⟩
  · simp [stepObject, termIRIREF, nt_iri h urlOk .eof env henv rest v r hc, IriRes.toTerm, emitOfTerm, Term.map]
  · have hp : C.P.bnode .eof (0x5f :: 0x3a :: r1) = .ok l r := by
      rw [h.prod]; exact nt_bnode h .eof r1 l r hok hc
    have hne := captureBNode_ne_nil h .eof r1 l r hc
    simp [stepObject, termBNode, hp, Env.labelled, hne, emitOfTerm, Term.map]
  · obtain ⟨d, r', hr, hd⟩ := hnext
    unfold NQ.captureLiteral at hc
    cases hs : NQ.scanLit Tn .eof .body rest [] with
    | err k => rw [hs] at hc; cases hc
    | ok dec rtail =>
      rw [hs] at hc; simp only [] at hc
      cases rtail with
      | nil => simp only [] at hc; injection hc with _ q2; rw [hr] at q2; cases q2
      | cons c' rest' =>
        simp only [] at hc
        have hstr : ∀ (hne : c' ≠ 0x22), C.P.string .eof (0x22 :: rest) = .ok (goString dec) (c' :: rest') :=
          fun hne => nt_string h .eof rest dec _ hs (fun _ => hne)
        by_cases h1 : c' = 0x40
        · subst h1
          rw [if_pos rfl] at hc
          cases hl : NQ.langPrimary .eof rest' [] with
          | err k => rw [hl] at hc; cases hc
          | ok tag rr =>
            rw [hl] at hc; simp only [] at hc
            injection hc with q1 q2; subst q1; subst q2
            have hlt : C.P.langtag .eof (0x40 :: rest') = .ok tag rr := by
              rw [h.prod]
              show Ttl.produceLANGTAG .eof (0x40 :: rest') = _
              simp only [Ttl.produceLANGTAG, if_true]
              exact nt_langPrimary .eof _ _ _ _ (fun x hx => by cases hx) hl
            simp [stepObject, hstr (by decide), stepLiteralTail, hlt, Term.map]
        · rw [if_neg h1] at hc
          by_cases h2 : c' = 0x5e
          · subst h2
            rw [if_pos rfl] at hc
            cases rest' with
            | nil => cases hc
            | cons c1 rr1 =>
              simp only [] at hc
              split at hc
              · cases hc
              · next h3 =>
                have h3' : c1 = 0x5e := by simpa using h3
                subst h3'
                cases rr1 with
                | nil => cases hc
                | cons c2 rr2 =>
                  simp only [] at hc
                  split at hc
                  · cases hc
                  · next h4 =>
                    have h4' : c2 = 0x3c := by simpa using h4
                    subst h4'
                    cases hi : NQ.captureIRI Tn urlOk .eof rr2 with
                    | err k => rw [hi] at hc; cases hc
                    | ok dt rr =>
                      rw [hi] at hc; simp only [] at hc
                      split at hc
                      · cases hc
                      · next h5 =>
                        injection hc with q1 q2; subst q1; subst q2
                        have := nt_iri h urlOk .eof env henv rr2 dt rr hi
                        simp [stepObject, hstr (by decide), stepLiteralTail, this, h5, Term.map]
          · rw [if_neg h2] at hc
            injection hc with q1 q2; subst q1
            have hne : c' ≠ 0x22 := by
              rw [hr] at q2; injection q2 with q3 _; rw [q3]; exact hd
            subst q2
            simp [stepObject, hstr hne, stepLiteralTail, h1, h2, Term.map]

/-! ### The scan-function machine on one N-Triples statement -/

def ntEnv : Env := { base := none, prefixes := [], nextAnon := 0 }

/-- the decoder between statements: only the top-level function on the stack -/
def ntA (i : List Nat) : St := { stack := [⟨{}, .statement⟩], inp := i, env := ntEnv }

theorem scanFn_rune {e : End} {inp : List Nat} {c : Nat} {rest : List Nat} (hs : skipWs C e false inp = .rune c rest)
    (f : Frame) (env : Env) : scanFn C e f inp env = stepFn C e f.k f.x env (.rune c rest) := by
  simp [scanFn, hs]

theorem reach_cur_step {e : End} {f : Frame} {st : St} {o : Out} {st' : St} {r : NextRes} (herr : st.err = none)
    (hs : st.stmts = []) (h : scanFn C e f st.inp st.env = .ok o) (hst : applyOut st o = st')
    (hr : Reach C e o.cur st' r) : Reach C e (some f) st r :=
  .step (hst ▸ iter_cur_ok herr hs h) hr

theorem reach_pop_step {e : End} {f : Frame} {s : List Frame} {st : St} {o : Out} {st' : St} {r : NextRes}
    (herr : st.err = none) (hs : st.stmts = []) (hstack : st.stack = f :: s)
    (h : scanFn C e f st.inp st.env = .ok o) (hst : applyOut { st with stack := s } o = st')
    (hr : Reach C e o.cur st' r) : Reach C e none st r :=
  .step (hst ▸ iter_pop_ok herr hs hstack h) hr

/-- the state after the subject: `PredicateObjectList_Required` is next, the predicate's `<` ahead -/
def ntSp (x1 : Ectx) (tE : Frame) (i1 : List Nat) : St :=
  { stack := [⟨x1, .polContinue⟩, tE, ⟨{}, .statement⟩], inp := i1, env := ntEnv }

/-- Subject phase: two iterations, different in the two packages. -/
theorem nt_subject_phase (h : NTCfg Tn T C) (j : List Nat) (c : Nat) (rest : List Nat)
    (hsk : skipWs C .eof false j = .rune c rest) (s' : TtlDoc.T) (r1 rest2 : List Nat) (hns : nodeShape s')
    (hterm : (c = 0x3c ∧ termIRIREF C .eof ntEnv (c :: rest) = .ok s' r1 ntEnv) ∨
             (c = 0x5f ∧ termBNode C .eof ntEnv (c :: rest) = .ok s' r1 ntEnv))
    (hp : skipWs C .eof false r1 = .rune 0x3c rest2) :
    ∃ xe i1, skipWs C .eof false i1 = .rune 0x3c rest2 ∧
      ∀ r, Reach C .eof (some ⟨{ subj := some s' }, .polRequired⟩) (ntSp { subj := some s' } ⟨xe, .triplesEnd⟩ i1) r →
        Reach C .eof none (ntA j) r := by
  have hidem := skipWs_idem C .eof _ _ _ _ hsk
  cases htrig : C.trig with
  | false =>
    refine ⟨{}, r1, hp, fun r hr => ?_⟩
    rcases hterm with ⟨rfl, ht⟩ | ⟨rfl, ht⟩
    · refine reach_pop_step (f := ⟨{}, .statement⟩) (s := []) rfl rfl rfl
        (o := { cur := some ⟨{}, .subjIRIREF⟩, push := [⟨{}, .statement⟩, ⟨{}, .triplesEnd⟩], inp := 0x3c :: rest, env := ntEnv })
        ?_ rfl ?_
      · show scanFn C .eof ⟨{}, .statement⟩ j ntEnv = _
        rw [scanFn_rune hsk]
        simp [stepFn, stepStatementRune, stepSubjectStart, withSelf, htrig]
      · refine reach_cur_step rfl rfl
          (o := { cur := some ⟨{ subj := some s' }, .polRequired⟩, push := [⟨{ subj := some s' }, .polContinue⟩], inp := r1, env := ntEnv })
          ?_ rfl hr
        show scanFn C .eof ⟨{}, .subjIRIREF⟩ (0x3c :: rest) ntEnv = _
        rw [scanFn_rune hidem]
        simp [stepFn, ht, subjectOf, subjectTail]
    · refine reach_pop_step (f := ⟨{}, .statement⟩) (s := []) rfl rfl rfl
        (o := { cur := some ⟨{}, .subjBNode⟩, push := [⟨{}, .statement⟩, ⟨{}, .triplesEnd⟩], inp := 0x5f :: rest, env := ntEnv })
        ?_ rfl ?_
      · show scanFn C .eof ⟨{}, .statement⟩ j ntEnv = _
        rw [scanFn_rune hsk]
        simp [stepFn, stepStatementRune, stepSubjectStart, withSelf, htrig]
      · refine reach_cur_step rfl rfl
          (o := { cur := some ⟨{ subj := some s' }, .polRequired⟩, push := [⟨{ subj := some s' }, .polContinue⟩], inp := r1, env := ntEnv })
          ?_ rfl hr
        show scanFn C .eof ⟨{}, .subjBNode⟩ (0x5f :: rest) ntEnv = _
        rw [scanFn_rune hidem]
        simp [stepFn, ht, subjectOf, subjectTail]
  | true =>
    refine ⟨{ subj := some s' }, 0x3c :: rest2, skipWs_idem C .eof _ _ _ _ hp, fun r hr => ?_⟩
    have hE1 : scanFn C .eof ⟨{}, .tgE1 s'⟩ r1 ntEnv =
        .ok { cur := some ⟨{ subj := some s' }, .polRequired⟩,
              push := [⟨{ subj := some s' }, .triplesEnd⟩, ⟨{ subj := some s' }, .polContinue⟩],
              inp := 0x3c :: rest2, env := ntEnv } := by
      rw [scanFn_rune hp]
      simp only [stepFn, Arg.orNul, show ¬ (0x3c : Nat) = 0x7b by decide, if_false]
      cases s' <;> first | rfl | exact hns.elim
    have hstep1 : ∀ (o1 : FnRes), stepStatementRune C .eof {} ntEnv c rest = o1 →
        o1 = .ok { cur := some ⟨{}, .tgE1 s'⟩, inp := r1, env := ntEnv } →
        Reach C .eof none (ntA j) r := by
      intro o1 h1 h2
      refine reach_pop_step (f := ⟨{}, .statement⟩) (s := []) rfl rfl rfl
        (o := { cur := some ⟨{}, .tgE1 s'⟩, push := [⟨{}, .statement⟩], inp := r1, env := ntEnv }) ?_ rfl ?_
      · show scanFn C .eof ⟨{}, .statement⟩ j ntEnv = _
        rw [scanFn_rune hsk]
        simp only [stepFn, h1, h2, withSelf]
      · exact reach_cur_step rfl rfl hE1 rfl hr
    rcases hterm with ⟨rfl, ht⟩ | ⟨rfl, ht⟩
    · exact hstep1 _ rfl (by simp [stepStatementRune, stepSubjectStart, htrig, ht, labelOrSubject])
    · exact hstep1 _ rfl (by simp [stepStatementRune, stepSubjectStart, htrig, ht, labelOrSubject])

theorem skip_dot_ne_quote (h : NTCfg Tn T C) {r3 r4 : List Nat} (hd : skipWs C .eof false r3 = .rune 0x2e r4) :
    ∃ d r', r3 = d :: r' ∧ d ≠ 0x22 := by
  cases r3 with
  | nil => simp [skipWs] at hd
  | cons d r' =>
    refine ⟨d, r', rfl, ?_⟩
    rintro rfl
    have : isWs C 0x22 = false := by rw [h.ws]; exact h.sp_dq
    simp [skipWs, this] at hd

/-- the statement as the Turtle / TriG model yields it -/
def ntStmt (q : Quad (List Nat)) : Stmt :=
  ⟨some (q.s.map BN.lbl), some (q.p.map BN.lbl), q.o.map BN.lbl, none⟩

/-- Predicate, object, `Next() = true`; then `,`? `;`? `.` and back to the top-level function. -/
theorem nt_rest_phase (h : NTCfg Tn T C) (urlOk : List Nat → Bool) (s' : TtlDoc.T) (xe : Ectx) (i1 rest2 : List Nat)
    (hsk : skipWs C .eof false i1 = .rune 0x3c rest2) (pv r2 : List Nat)
    (hpv : NQ.captureIRI Tn urlOk .eof rest2 = .ok pv r2)
    (c3 : Nat) (rest3 : List Nat) (hsk3 : skipWs C .eof false r2 = .rune c3 rest3)
    (o : Term (List Nat)) (r3 : List Nat) (hoko : labelOK o)
    (hop : c3 = 0x3c ∨ (c3 = 0x5f ∧ NQ.posObject.bnode = true) ∨ (c3 = 0x22 ∧ NQ.posObject.literal = true))
    (ho : NQ.captureTerm Tn urlOk .eof NQ.posObject false (c3 :: rest3) = .ok o r3)
    (r4 : List Nat) (hd : skipWs C .eof false r3 = .rune 0x2e r4) :
    ∃ B, Reach C .eof (some ⟨{ subj := some s' }, .polRequired⟩) (ntSp { subj := some s' } ⟨xe, .triplesEnd⟩ i1) (.yes B) ∧
      B.stmts = [⟨some s', some (.iri pv), o.map BN.lbl, none⟩] ∧
      ∀ r, Reach C .eof none (ntA r4) r → Reach C .eof none B.dropFirst r := by
  let x1 : Ectx := { subj := some s' }
  let x2 : Ectx := { subj := some s', pred := some (.iri pv) }
  let stk : List Frame := [⟨x2, .objListContinue⟩, ⟨x1, .polContinue⟩, ⟨xe, .triplesEnd⟩, ⟨{}, .statement⟩]
  let B : St := { stack := stk, inp := r3, env := ntEnv, stmts := [⟨some s', some (.iri pv), o.map BN.lbl, none⟩] }
  have hiri := nt_iri h urlOk .eof ntEnv rfl rest2 pv r2 hpv
  refine ⟨B, ?_, rfl, ?_⟩
  · -- polRequired
    refine reach_cur_step rfl rfl
      (o := { cur := some ⟨x2, .object⟩, push := [⟨x2, .objListContinue⟩], inp := r2, env := ntEnv }) ?_ rfl ?_
    · show scanFn C .eof ⟨x1, .polRequired⟩ i1 ntEnv = _
      rw [scanFn_rune hsk]
      simp [stepFn, stepPOL, termIRIREF, hiri, IriRes.toTerm, polOfTerm, polGo, x1, x2]
    · -- object
      refine reach_cur_step rfl rfl
        (o := { emit := some (mkStmt x2 (o.map BN.lbl)), inp := r3, env := ntEnv }) ?_ rfl ?_
      · show scanFn C .eof ⟨x2, .object⟩ r2 ntEnv = _
        rw [scanFn_rune hsk3]
        simp only [stepFn]
        exact nt_object h urlOk x2 ntEnv rfl c3 rest3 o r3 hoko hop ho (skip_dot_ne_quote h hd)
      · exact .done (iter_yes rfl (by simp [applyOut]))
  · intro r hr
    have hidem := skipWs_idem C .eof _ _ _ _ hd
    -- ObjectList_Continue
    refine reach_pop_step (f := ⟨x2, .objListContinue⟩) (s := [⟨x1, .polContinue⟩, ⟨xe, .triplesEnd⟩, ⟨{}, .statement⟩])
      rfl rfl rfl (o := { inp := 0x2e :: r4, env := ntEnv }) ?_ rfl ?_
    · show scanFn C .eof ⟨x2, .objListContinue⟩ r3 ntEnv = _
      rw [scanFn_rune hd]; simp [stepFn]
    · -- PredicateObjectList_Continue
      refine reach_pop_step (f := ⟨x1, .polContinue⟩) (s := [⟨xe, .triplesEnd⟩, ⟨{}, .statement⟩])
        rfl rfl rfl (o := { inp := 0x2e :: r4, env := ntEnv }) ?_ rfl ?_
      · show scanFn C .eof ⟨x1, .polContinue⟩ (0x2e :: r4) ntEnv = _
        rw [scanFn_rune hidem]; simp [stepFn]
      · -- Triples_End
        refine reach_pop_step (f := ⟨xe, .triplesEnd⟩) (s := [⟨{}, .statement⟩])
          rfl rfl rfl (o := { inp := r4, env := ntEnv }) ?_ rfl hr
        show scanFn C .eof ⟨xe, .triplesEnd⟩ (0x2e :: r4) ntEnv = _
        rw [scanFn_rune hidem]; simp [stepFn]

/-- ONE STATEMENT: what `NQ.statement` (N-Triples) accepts, the scan-function machine reads as the same
    triple and is back between statements at the same place. -/
theorem nt_statement_sim (h : NTCfg Tn T C) (urlOk : List Nat → Bool) (i j : List Nat) (q : Quad (List Nat)) (r4 : List Nat)
    (hj : skipWs C .eof false j = skipWs C .eof false i)
    (hst : NQ.statement Tn urlOk .eof false i = .quad q r4) (hs : labelOK q.s) (ho : labelOK q.o) :
    ∃ B, Reach C .eof none (ntA j) (.yes B) ∧ B.stmts = [ntStmt q] ∧
      ∀ r, Reach C .eof none (ntA r4) r → Reach C .eof none B.dropFirst r := by
  unfold NQ.statement at hst
  cases hsk : NQ.skipToStmt Tn false i with
  | none => rw [hsk] at hst; cases hst
  | some inp' =>
    rw [hsk] at hst; simp only [] at hst
    obtain ⟨c, rest, rfl, hskip⟩ := (nt_skipToStmt h false i).2 _ hsk
    cases hS : NQ.captureTerm Tn urlOk .eof NQ.posSubject false (c :: rest) with
    | err x => rw [hS] at hst; cases hst
    | ok s r1 =>
      rw [hS] at hst; simp only [] at hst
      cases hP : NQ.captureTerm Tn urlOk .eof NQ.posPredicate false r1 with
      | err x => rw [hP] at hst; cases hst
      | ok p r2 =>
        rw [hP] at hst; simp only [] at hst
        cases hO : NQ.captureTerm Tn urlOk .eof NQ.posObject false r2 with
        | err x => rw [hO] at hst; cases hst
        | ok o r3 =>
          rw [hO] at hst; simp only [Bool.false_eq_true, if_false] at hst
          cases hD : NQ.expectDot Tn .eof false r3 with
          | err x => rw [hD] at hst; cases hst
          | ok u r4' =>
            rw [hD] at hst; simp only [] at hst
            injection hst with q1 q2; subst q1; subst q2
            simp only at hs ho
            -- the openers
            obtain ⟨c1, rest1, hsk1, hS', hop1⟩ := nt_captureTerm_skip h urlOk _ false _ _ _ hS
            have hidem := skipWs_idem C .eof _ _ _ _ hskip
            rw [hidem] at hsk1
            injection hsk1 with e1 e2; subst e1; subst e2
            obtain ⟨c2, rest2, hsk2, hP', hop2⟩ := nt_captureTerm_skip h urlOk _ false _ _ _ hP
            obtain ⟨c3, rest3, hsk3, hO', hop3⟩ := nt_captureTerm_skip h urlOk _ false _ _ _ hO
            have hdot := nt_expectDot h false _ _ hD
            have hc2 : c2 = 0x3c := by
              rcases hop2 with hc | ⟨_, hb⟩ | ⟨_, hb⟩
              · exact hc
              · cases hb
              · cases hb
            subst hc2
            rcases nt_term_cases urlOk .eof _ _ rest2 p r2 (Or.inl rfl) hP' with ⟨_, pv, rfl, hpv⟩ | ⟨hc, _⟩ | ⟨hc, _⟩
            · have hterm := nt_node_term h urlOk ntEnv rfl c rest s r1 hs hop1 hS'
              have hns : nodeShape (s.map BN.lbl) := by
                rcases nt_term_cases urlOk .eof _ _ rest s r1 hop1 hS' with ⟨_, v, rfl, _⟩ | ⟨_, _, l, _, rfl, _⟩ | ⟨_, hl, _⟩
                · trivial
                · trivial
                · cases hl
              obtain ⟨xe, i1, hi1, hpre⟩ := nt_subject_phase h j c rest (hj ▸ hskip) (s.map BN.lbl) r1 rest2 hns hterm hsk2
              obtain ⟨B, hB, hBs, hBt⟩ := nt_rest_phase h urlOk (s.map BN.lbl) xe i1 rest2 hi1 pv r2 hpv c3 rest3 hsk3 o r3 ho hop3 hO' _ hdot
              exact ⟨B, hpre _ hB, by simp [hBs, ntStmt, Term.map], hBt⟩
            · cases hc
            · cases hc

/-! ### Whole documents -/

theorem nt_end_sim (j : List Nat) (hj : skipWs C .eof false j = .end_) :
    ∃ Z, Reach C .eof none (ntA j) (.no Z) ∧ Z.err = none := by
  refine ⟨{ stack := [], inp := [], env := ntEnv }, ?_, rfl⟩
  refine reach_pop_step (f := ⟨{}, .statement⟩) (s := []) rfl rfl rfl
    (o := { inp := [], env := ntEnv, term := true }) ?_ rfl ?_
  · show scanFn C .eof ⟨{}, .statement⟩ j ntEnv = _
    rw [scanFn_end hj]; simp [stepFn]
  · show Reach C .eof none { stack := [], inp := [], env := ntEnv } _
    exact .done (by simp [iter, popFrame])

theorem nt_statement_done (urlOk : List Nat → Bool) (i : List Nat)
    (h : NQ.statement Tn urlOk .eof false i = .done) : NQ.skipToStmt Tn false i = none := by
  unfold NQ.statement at h
  cases hsk : NQ.skipToStmt Tn false i with
  | none => rfl
  | some inp' =>
    rw [hsk] at h; simp only [] at h
    repeat' split at h
    all_goals cases h

/-- where the next statement starts, as the Turtle machine sees it -/
theorem nt_next_cases (h : NTCfg Tn T C) (urlOk : List Nat → Bool) (started : Bool) (i : List Nat) :
    (NQ.next Tn urlOk .eof false started i = .done → skipWs C .eof false i = .end_) ∧
    (∀ q r4, NQ.next Tn urlOk .eof false started i = .quad q r4 →
      ∃ i0, skipWs C .eof false i = skipWs C .eof false i0 ∧ NQ.statement Tn urlOk .eof false i0 = .quad q r4) := by
  unfold NQ.next
  cases started with
  | false =>
    simp only [Bool.false_eq_true, if_false]
    exact ⟨fun hd => (nt_skipToStmt h false i).1 (nt_statement_done urlOk i hd), fun q r4 hq => ⟨i, rfl, hq⟩⟩
  | true =>
    simp only [if_true]
    cases he : NQ.toEOL Tn .eof false i with
    | done => exact ⟨fun _ => (nt_toEOL h false i).2 he, fun q r4 hq => (by cases hq)⟩
    | fail x => exact ⟨fun hd => (by cases hd), fun q r4 hq => (by cases hq)⟩
    | start rest =>
      have hsk := (nt_toEOL h false i).1 rest he
      simp only []
      exact ⟨fun hd => (by rw [hsk]; exact (nt_skipToStmt h false rest).1 (nt_statement_done urlOk rest hd)),
        fun q r4 hq => ⟨rest, hsk, hq⟩⟩

theorem nt_run_sim (h : NTCfg Tn T C) (urlOk : List Nat → Bool) :
    ∀ (fuel : Nat) (started : Bool) (i : List Nat) (qs : List (Quad (List Nat))),
      NQ.runFuel Tn urlOk .eof false fuel started i = (qs, .clean) →
      (∀ q ∈ qs, labelOK q.s ∧ labelOK q.o) →
      ∀ st, (∀ r, Reach C .eof none (ntA i) r → Reach C .eof none st.dropFirst r) →
      ∀ m, runLoop C .eof m st = (qs.map ntStmt, .clean) ∨ (runLoop C .eof m st).2 = .outOfFuel := by
  intro fuel
  induction fuel with
  | zero => intro started i qs hrun; simp [NQ.runFuel] at hrun
  | succ fuel ih =>
    intro started i qs hrun hok st hst m
    cases m with
    | zero => right; rfl
    | succ m =>
      unfold NQ.runFuel at hrun
      obtain ⟨hdone, hquad⟩ := nt_next_cases h urlOk started i
      cases hn : NQ.next Tn urlOk .eof false started i with
      | fail x => rw [hn] at hrun; simp at hrun
      | done =>
        rw [hn] at hrun; simp only [Prod.mk.injEq] at hrun
        obtain ⟨rfl, _⟩ := hrun
        obtain ⟨Z, hZ, hZe⟩ := nt_end_sim (C := C) i (hdone hn)
        have := nextLoop_of_reach (hst _ hZ) (st.dropFirst.cost + 1)
        unfold runLoop
        rcases this with h1 | h1
        · left
          have e1 : next C .eof st = .no Z := h1
          rw [e1]; simp [hZe]
        · right
          have e1 : next C .eof st = .outOfFuel := h1
          rw [e1]
      | quad q r4 =>
        rw [hn] at hrun; simp only [] at hrun
        cases hr : NQ.runFuel Tn urlOk .eof false fuel true r4 with
        | mk qs' v =>
          rw [hr] at hrun; simp only [Prod.mk.injEq] at hrun
          obtain ⟨rfl, rfl⟩ := hrun
          obtain ⟨i0, hi0, hstmt⟩ := hquad q r4 hn
          have hq := hok q List.mem_cons_self
          obtain ⟨B, hB, hBs, hBt⟩ := nt_statement_sim h urlOk i0 i q r4 hi0 hstmt hq.1 hq.2
          have := nextLoop_of_reach (hst _ hB) (st.dropFirst.cost + 1)
          unfold runLoop
          rcases this with h1 | h1
          · have e1 : next C .eof st = .yes B := h1
            rw [e1]; simp only [hBs]
            rcases ih true r4 qs' hr (fun q' hq' => hok q' (List.mem_cons_of_mem _ hq')) B hBt m with h2 | h2
            · left; rw [h2]; simp
            · right
              cases hrl : runLoop C .eof m B with
              | mk ss v' => rw [hrl] at h2; simp only [] at h2 ⊢; exact h2
          · right
            have e1 : next C .eof st = .outOfFuel := h1
            rw [e1]

/-- DOCUMENT LEVEL: whatever the N-Triples decoder model accepts with triples `qs` (no blank-node label
    containing ':'), the Turtle / TriG scan-function machine (no base, no prefixes) accepts with the
    same triples and the same blank-node labels. -/
theorem nt_doc_sim (h : NTCfg Tn T C) (hC : C.P.Consumes) (urlOk : List Nat → Bool) (inp : List Nat)
    (qs : List (Quad (List Nat))) (hrun : NQ.run Tn urlOk .eof false inp = (qs, .clean))
    (hok : ∀ q ∈ qs, labelOK q.s ∧ labelOK q.o) :
    run C .eof none [] inp = (qs.map ntStmt, .clean) := by
  unfold NQ.run at hrun
  have := nt_run_sim h urlOk _ false inp qs hrun hok (ntA inp) (fun r hr => hr) ((ntA inp).cost + 1)
  rcases this with h1 | h1
  · exact h1
  · exact absurd h1 (runLoop_fuel hC _ _ (Nat.lt_succ_self _))

end RdfModel.TtlDoc
