/-
  Property C03, second part — "the canonical form depends … not on labels": relabelling invariance of
  the model of `rdfcanon.Canonicalize` for ARBITRARY datasets, the Hash N-Degree Quads phase included
  (proofs in RdfModel/Proofs/C03Rename.lean).

  PROVED: `canon_invariant_relabel` — for every well-formed quad sequence `qs` (any shape: ties,
  symmetric structures, self references, blank graph names), every hash function `H` (collisions
  allowed), every limit configuration and every injective renaming `σ` of the blank nodes: a result of
  the canonicalizer on `qs` under Go map iteration order `ord` and a result on the renamed sequence
  (same quad order) under the correspondingly renamed iteration order `ord'` have byte-identical output,
  and the issued identifier maps correspond through `σ` entry by entry in issue order.  The underlying
  statement about the specification, `spec_equivariant`, is an equation between the two complete
  computations (including "no result for this recursion bound").

  PROVED as well, for arbitrary datasets and in the quad-order / iteration-order dimension:
  `canon_invariant_unique_partial` — a blank node whose first-degree hash is unique in the dataset gets the
  same canonical identifier in every reordered, relabelled copy of the dataset, for every Go map iteration
  order and limit configuration (whenever results are returned), no matter what the N-degree phase does
  to the other nodes.  `_partial`: it speaks about those nodes only, not about the whole output.

  What this does and does not give for C03:
  * The labels themselves never influence the output: the only channels through which a relabelled,
    reordered copy of a dataset can canonicalize differently are (a) the order of the quad sequence and
    (b) the iteration order of Go's maps (`ord`).  `canon_invariant` (Props/C03.lean) is thereby reduced
    to invariance under (a) and (b) — `canon_invariant_of_order_invariant` below, proved.
  * NOT proved: invariance under (a) and (b) when the N-degree phase runs.  Note that the statement
    "`canon H ord (perm qs) = canon H ord' qs` for a suitable `ord'`" is FALSE for the model (and for
    the Go code) as an equation between results: the quad order also fixes the order of the blank node
    lists inside Hash N-Degree Quads (`hashToRelated` appends in quad order; the Heap enumeration starts
    from that arrangement and the first of several minimal paths wins), which `ord` cannot compensate;
    on a symmetric dataset the issued map then differs although the bytes agree (EVALUATED on the compiled
    model, not a theorem: the bidirectional triangle a↔b↔c↔a under SHA-256 yields three issued maps over
    72 sampled `ord` in the given quad order and three others, disjoint from them, in the reversed quad
    order; the bytes are the same in all runs).  Byte-level invariance under quad order needs the
    automorphism argument of RDFC-1.0 and stays with the harness.
  * The theorem about the model has the form "if both runs return a result, the results agree"; it does
    not exclude that one side ends in one of Go's two work-limit errors and the other does not.  (The
    specification has no work limits; for it `spec_equivariant` is an equation of outcomes, "no result
    for this recursion bound" included.)
-/
import RdfModel.Props.C03
import RdfModel.Proofs.C03Rename
import RdfModel.Proofs.C03Unique
namespace RdfModel.C03
open RdfModel RdfModel.C04

variable {β : Type} [DecidableEq β] {γ : Type} [DecidableEq γ]

/-- `ord'` is `ord` transported along the renaming `σ`: Go's map iteration visits the renamed keys in the
    order in which it visited the original ones. -/
def OrdRenamed (σ : β → γ) (ord : List β → List β) (ord' : List γ → List γ) : Prop :=
  ∀ l, ord' (l.map σ) = (ord l).map σ

/-- `perms'` enumerates the permutations of a renamed list as `perms` enumerates those of the list. -/
def PermsRenamed (σ : β → γ) (perms : List β → List (List β)) (perms' : List γ → List (List γ)) : Prop :=
  ∀ l, perms' (l.map σ) = (perms l).map (List.map σ)

/-- **spec_equivariant**: RDFC-1.0 (all sections, Hash N-Degree Quads included) commutes with injective
    renaming of the blank nodes: on the renamed dataset, with the renamed order parameters, it computes
    the renamed result — same lines, issued map renamed — or fails for the same recursion bound. -/
theorem spec_equivariant (H : Str → Str) (σ : β → γ) (hσ : Function.Injective σ)
    (ord : List β → List β) (ord' : List γ → List γ) (hord : OrdRenamed σ ord ord')
    (perms : List β → List (List β)) (perms' : List γ → List (List γ)) (hperms : PermsRenamed σ perms perms')
    (fuel : Nat) (qs : List (Quad β)) :
    Spec.RDFC10.canonFuel H ord' perms' true fuel (qs.map (Quad.map σ))
      = (Spec.RDFC10.canonFuel H ord perms true fuel qs).map
          (fun r => ⟨r.lines, r.issued.map (fun e => (σ e.1, e.2))⟩) :=
  Proofs.C03.canonFuel_rename H σ hσ ord ord' hord perms perms' hperms fuel qs

/-- Go's permuter (`cespare/permute`, Heap's algorithm in place) is positional, so it satisfies
    `PermsRenamed` for every renaming. -/
theorem heapPerms_renamed (σ : β → γ) (n : Nat) :
    PermsRenamed σ (Rdfcanon.heapPerms n) (Rdfcanon.heapPerms n) :=
  fun l => Proofs.C03.heapPerms_map σ n l

/-- **canon_invariant_relabel**: relabelling invariance of the model of `rdfcanon.Canonicalize` for
    arbitrary datasets and arbitrary hash functions (see the file header). -/
theorem canon_invariant_relabel (T : NQ.Tables) (hT : TablesCanon T) (H : Str → Str) (σ : β → γ)
    (hσ : Function.Injective σ) (lim : Rdfcanon.Limits) (ord : List β → List β) (ord' : List γ → List γ)
    (hord : OrdOK ord) (hord' : OrdOK ord') (hoo : OrdRenamed σ ord ord')
    (qs : List (Quad β)) (hwf : ∀ q ∈ qs, WFQuad T q) (out : Rdfcanon.Out β) (out' : Rdfcanon.Out γ)
    (h : Rdfcanon.canon T H lim ord qs = .ok out)
    (h' : Rdfcanon.canon T H lim ord' (qs.map (Quad.map σ)) = .ok out') :
    out'.lines.map (·.encoded) = out.lines.map (·.encoded) ∧ out'.bytes = out.bytes ∧
      out'.issued = out.issued.map (fun e => (σ e.1, e.2)) ∧
      (∀ b, Proofs.C03.labelOf out' (σ b) = Proofs.C03.labelOf out b) :=
  Proofs.C03.canon_relabel T hT H σ hσ lim ord ord' hord hord' hoo qs hwf out out' h h'

/-- Order invariance of the canonical bytes on one quad sequence (over `Nat` labels): every reordering
    of the sequence and every pair of map iteration orders give the same bytes. This is the part of
    `canon_invariant` that is NOT proved in general (it is proved when all first-degree hashes are
    distinct: `canon_invariant_simple`). -/
def OrderInvariantOn (T : NQ.Tables) (H : Str → Str) (lim : Rdfcanon.Limits) (qs : List (Quad Nat)) : Prop :=
  ∀ (qs' : List (Quad Nat)), qs'.Perm qs →
  ∀ (ord ord' : List Nat → List Nat), OrdOK ord → OrdOK ord' →
  ∀ out out', Rdfcanon.canon T H lim ord qs = .ok out → Rdfcanon.canon T H lim ord' qs' = .ok out' →
    out.bytes = out'.bytes

/-- **canon_invariant_of_order_invariant**: the reduction `canon_invariant_relabel` provides. For a
    bijective relabelling `σ` (inverse `τ`): if the canonical bytes of the relabelled sequence
    `qs.map σ` do not depend on quad order and map iteration order, then every reordered, relabelled
    copy `qs'` of `qs` canonicalizes to the bytes of `qs` — provided the run on `qs.map σ` in the
    original quad order under the transported iteration order returns a result (no work limit). -/
theorem canon_invariant_of_order_invariant (T : NQ.Tables) (hT : TablesCanon T) (H : Str → Str)
    (lim : Rdfcanon.Limits) (qs qs' : List (Quad Nat)) (σ τ : Nat → Nat) (hτσ : ∀ n, τ (σ n) = n)
    (hστ : ∀ n, σ (τ n) = n) (hp : qs'.Perm (qs.map (Quad.map σ))) (hwf : ∀ q ∈ qs, WFQuad T q)
    (hinv : OrderInvariantOn T H lim (qs.map (Quad.map σ)))
    (ord ord' : List Nat → List Nat) (hord : OrdOK ord) (hord' : OrdOK ord')
    (out out' mid : Rdfcanon.Out Nat) (h : Rdfcanon.canon T H lim ord qs = .ok out)
    (h' : Rdfcanon.canon T H lim ord' qs' = .ok out')
    (hmid : Rdfcanon.canon T H lim (fun l => (ord (l.map τ)).map σ) (qs.map (Quad.map σ)) = .ok mid) :
    out.bytes = out'.bytes := by
  have hσ : Function.Injective σ := fun a b e => by rw [← hτσ a, ← hτσ b, e]
  have hmapτσ : ∀ l : List Nat, (l.map σ).map τ = l := by
    intro l; rw [List.map_map]; conv => rhs; rw [← List.map_id l]
    exact List.map_congr_left (fun a _ => hτσ a)
  have hmapστ : ∀ l : List Nat, (l.map τ).map σ = l := by
    intro l; rw [List.map_map]; conv => rhs; rw [← List.map_id l]
    exact List.map_congr_left (fun a _ => hστ a)
  have hordm : OrdOK (fun l => (ord (l.map τ)).map σ) := by
    intro l
    have := (hord (l.map τ)).map σ
    rwa [hmapστ] at this
  have hoo : OrdRenamed σ ord (fun l => (ord (l.map τ)).map σ) := by
    intro l; simp only [hmapτσ]
  obtain ⟨_, hb, _, _⟩ := canon_invariant_relabel T hT H σ hσ lim ord _ hord hordm hoo qs hwf out mid h hmid
  rw [← hb]
  exact hinv qs' hp _ ord' hordm hord' mid out' hmid h'

/-- `b` is a blank node of the dataset whose first-degree hash no other blank node of the dataset has
    (it is labelled in §4.4.3 step 4, before Hash N-Degree Quads runs). -/
def UniqueHash (H : Str → Str) (qs : List (Quad β)) (b : β) : Prop := Proofs.C03.UniqueHash H qs b

/-- **canon_invariant_unique_partial** (PARTIAL: only the uniquely hashed nodes; the full statement is
    `canon_invariant`): for ANY well-formed quad sequence `qs`, any hash function, any reordered and
    injectively relabelled copy `qs'`, any two Go map iteration orders and limit configurations under which
    the canonicalizer returns results: every blank node whose first-degree hash is unique in the dataset
    has the same canonical identifier in both results (and has one). The N-degree phase, whatever it
    does with the tied nodes, cannot change these identifiers. -/
theorem canon_invariant_unique_partial (T : NQ.Tables) (hT : TablesCanon T) (H : Str → Str) (σ : β → γ)
    (hσ : Function.Injective σ) (qs : List (Quad β)) (qs' : List (Quad γ))
    (hp : qs'.Perm (qs.map (Quad.map σ))) (hwf : ∀ q ∈ qs, WFQuad T q)
    (lim lim' : Rdfcanon.Limits) (ord : List β → List β) (ord' : List γ → List γ)
    (hord : OrdOK ord) (hord' : OrdOK ord') (out : Rdfcanon.Out β) (out' : Rdfcanon.Out γ)
    (h : Rdfcanon.canon T H lim ord qs = .ok out) (h' : Rdfcanon.canon T H lim' ord' qs' = .ok out')
    (b : β) (hb : UniqueHash H qs b) :
    Proofs.C03.labelOf out' (σ b) = Proofs.C03.labelOf out b ∧ (assoc out.issued b).isSome :=
  Proofs.C03.canon_unique_labels T hT H σ hσ qs qs' hp hwf lim lim' ord ord' hord hord' out out' h h' b hb

/-- When all first-degree hashes are distinct (the hypothesis of `canon_invariant_simple`) every blank
    node of the dataset satisfies `UniqueHash`. -/
theorem uniqueHash_of_allDistinct (H : Str → Str) (qs : List (Quad β)) (hd : Proofs.C03.AllDistinct H qs)
    (b : β) (hb : b ∈ qs.flatMap Spec.RDFC10.quadBnodes) : UniqueHash H qs b := by
  refine ⟨hb, fun m hm e => ?_⟩
  have hk : ∀ x, x ∈ qs.flatMap Spec.RDFC10.quadBnodes →
      ∃ en ∈ Spec.RDFC10.bnodeToQuads true qs, en.1 = x := by
    intro x hx
    obtain ⟨en, hen, rfl⟩ := List.mem_map.1 ((Proofs.C03.mem_keys_bnodeToQuads qs x).2 hx)
    exact ⟨en, hen, rfl⟩
  obtain ⟨em, hem, rfl⟩ := hk m hm
  obtain ⟨eb, heb, rfl⟩ := hk b hb
  rw [Proofs.C03.inj_of_nodup_map _ _ hd em hem eb heb e]

/-! ### Non-vacuity -/

namespace Witness

/-- The hypotheses of `canon_invariant_relabel` are satisfiable with a non-trivial renaming and a
    non-trivial iteration order: shift every label by 5, Go iterating its maps backwards. -/
example : OrdRenamed (fun n : Nat => n + 5) List.reverse List.reverse := by
  intro l; simp [List.map_reverse]

example : Function.Injective (fun n : Nat => n + 5) := fun a b h => by simpa using h

/-- `spec_equivariant`'s hypothesis on the enumeration: the Go permuter itself. -/
example : PermsRenamed (fun n : Nat => n + 5) (Rdfcanon.heapPerms 4097) (Rdfcanon.heapPerms 4097) :=
  heapPerms_renamed _ _

/-- `canon_invariant_of_order_invariant`: a bijective relabelling of `Nat` (swap 0 and 1). -/
example : ∃ σ τ : Nat → Nat, (∀ n, τ (σ n) = n) ∧ (∀ n, σ (τ n) = n) ∧ σ 0 = 1 := by
  refine ⟨fun n => if n = 0 then 1 else if n = 1 then 0 else n,
    fun n => if n = 0 then 1 else if n = 1 then 0 else n, ?_, ?_, rfl⟩ <;>
  · intro n
    by_cases h0 : n = 0
    · subst h0; rfl
    · by_cases h1 : n = 1
      · subst h1; rfl
      · simp [h0, h1]

/-- `UniqueHash` holds of a concrete node: node 0 of the two-node witness of `Props/C03.lean`. -/
example : UniqueHash (fun s => s) two 0 :=
  uniqueHash_of_allDistinct _ _ two_allDistinct 0
    (by simp [two, Spec.RDFC10.quadBnodes, Spec.RDFC10.bnodeOf])

/-- A dataset WITH a first-degree tie (the two leaves of an outward star), where the N-degree phase runs:
    the centre still satisfies `UniqueHash`. -/
def star : List (Quad Nat) := [⟨.bnode 0, C04.Witness.p, .bnode 1, none⟩, ⟨.bnode 0, C04.Witness.p, .bnode 2, none⟩]

example : UniqueHash (fun s => s) star 0 := by
  refine ⟨by simp [star, Spec.RDFC10.quadBnodes, Spec.RDFC10.bnodeOf], ?_⟩
  intro m hm
  simp only [star, Spec.RDFC10.quadBnodes, Spec.RDFC10.bnodeOf, List.flatMap_cons, List.flatMap_nil,
    List.append_nil, List.cons_append, List.nil_append, List.mem_cons, List.not_mem_nil, or_false] at hm
  rcases hm with rfl | rfl | rfl | rfl <;>
    simp [star, Spec.RDFC10.bnodeToQuads, Spec.RDFC10.quadBnodes, Spec.RDFC10.bnodeOf, addToMap,
      Spec.RDFC10.hashFirstDegree, getList, sortStr, Spec.RDFC10.nquad, Spec.RDFC10.term, C04.Witness.p, List.merge,
      Spec.RDFC10.iriRef, List.mergeSort]

end Witness

end RdfModel.C03
