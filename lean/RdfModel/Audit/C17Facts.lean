/-
  Audit for the C17 T2 tie (kept apart from Audit/C17.lean so that a broken facts theorem does not make
  the audit of the property theorems unimportable).
-/
import RdfModel.Props.C17Facts

#print axioms RdfModel.C17.gen_desc_facts
