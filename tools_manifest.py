#!/usr/bin/env python3
"""Regenerates MANIFEST.json from props/*.json (claimed checks) and the list of all property ids."""
import json, glob, os
ROOT = os.path.dirname(os.path.abspath(__file__))
props = [json.loads(l) for l in open(os.path.join(ROOT, "properties.jsonl"))]
cfgs = {}
import re
for f in sorted(glob.glob(os.path.join(ROOT, "props", "C*.json"))):
    if not re.fullmatch(r"C\d+\.json", os.path.basename(f)):
        continue   # fragments / proposals of builders
    c = json.load(open(f))
    if c.get("claimed", False):
        cfgs[c["id"]] = c
def category(level):
    l = level.lower()
    if "proof" in l or "fragment" in l:
        return "proof"
    if "search" in l:
        return "exploration"
    return "other"
def level_prefix(level):
    return "" if level == "proof" else "[" + level + "] "
checks, na = [], []
for p in props:
    pid = p["id"]
    if pid in cfgs:
        c = cfgs[pid]
        checks.append({
            "property_id": pid,
            "quick_cmd": "./check %s --tier quick" % pid,
            "thorough_cmd": "./check %s --tier thorough" % pid,
            "evidence_file": "/verif/evidence/%s.json" % pid,
            "replay_cmd_template": "./check %s --replay {path}" % pid,
            "engine": "lean4-proof+correspondence",
            "level_claimed": {"category": category(c.get("level", "proof")), "text": level_prefix(c.get("level", "proof")) + c["level_text"], "design_ref": "DESIGN.md §5 " + pid},
            "level_note": c["level_note"],
            "technique": c["technique"],
        })
    else:
        reason = "not claimed yet: model/theorems not built in this round, see DESIGN.md §8 (no property is inapplicable in principle)"
        nf = os.path.join(ROOT, "props", pid + ".na")
        if os.path.exists(nf):
            reason = open(nf).read().strip()
        na.append({"property_id": pid, "reason": reason})
baseline = "cd /repo && export GOFLAGS=-mod=mod GOPROXY=off && go test -vet=off -count=1 -timeout 25m ./... && cd cmd/rdfkit && go test -vet=off -count=1 -timeout 25m ./..."
m = {
    "version": 1,
    "setup_cmd": "./setup.sh",
    "hooks": {
        "guard": "verif",
        "enable": "go build -tags verif (add-only files export_verif.go in the hooked packages)",
        "baseline_off_cmd": baseline,
        "source_commits": [l.strip() for l in open(os.path.join(ROOT, "hooks_commits.txt")) if l.strip()] if os.path.exists(os.path.join(ROOT, "hooks_commits.txt")) else [],
        "add_only": True,
    },
    "engines": [{"name": "lean4-proof+correspondence", "path": "/verif/check", "serves_properties": sorted(cfgs),
                 "kind_free_text": "Lean 4 theorems about executable models (lean/RdfModel), tied to /repo on every run by T1 exhaustive table regeneration (go/cmd/extract), T2 go/ast facts and T3 differential correspondence (go/cmd/cXX vs the compiled Lean driver)"}],
    "checks": checks,
    "not_applicable": na,
    "notes": "See DESIGN.md. known-findings.json lists genuine defects (fixed / known). Every check regenerates the Gen/*.lean tables from /repo's working tree, rebuilds the proofs that depend on them, audits axioms, rebuilds the harness with -tags verif and runs the correspondence + property oracle.",
}
json.dump(m, open(os.path.join(ROOT, "MANIFEST.json"), "w"), indent=1)
print("MANIFEST.json: %d checks, %d not claimed" % (len(checks), len(na)))
