/-
  Definitions used by the C14 theorems: which identifiers have been handed out (`Issued`), the state
  invariant (`Inv`), monotone growth of states (`Ext`), side-effect-free label lookup (`peek`).
-/
import RdfModel.Model.BlankNodes
namespace RdfModel.C14
open RdfModel.BN

/-- `id` has been handed out by a counter of `s` (string identifiers are never "fresh": always true). -/
def Issued (s : State) : Ident → Prop
  | .bn f v => ∃ c, s.bnfs[f]? = some c ∧ v ≤ c
  | .bnDefault v => v ≤ s.dfltCtr
  | .bnString _ _ => True

/-- Invariant of every reachable state. -/
structure Inv (s : State) : Prop where
  /-- a string factory's `anon` is an allocated factory -/
  strfs_valid : ∀ (j a : Nat), s.strfs[j]? = some a → a < s.bnfs.length
  /-- a mapper's factory is allocated -/
  mapper_factory : ∀ (m : Nat) mp, s.mappers[m]? = some mp → validFactory s mp.factory = true
  /-- a mapper only stores identifiers that a counter has handed out -/
  mapper_issued : ∀ (m : Nat) mp, s.mappers[m]? = some mp → ∀ k v, (k, v) ∈ mp.known → Issued s v
  /-- a mapper never stores one identifier for two keys -/
  mapper_inj : ∀ (m : Nat) mp, s.mappers[m]? = some mp → ∀ k k' v, (k, v) ∈ mp.known → (k', v) ∈ mp.known → k = k'
  int64_bound : ∀ (i : Nat) p, s.int64s[i]? = some p → ∀ k v, (k, v) ∈ p.known → v < p.next
  int64_inj : ∀ (i : Nat) p, s.int64s[i]? = some p → ∀ k k' v, (k, v) ∈ p.known → (k', v) ∈ p.known → k = k'
  uuid_bound : ∀ (i : Nat) p, s.uuids[i]? = some p → ∀ k v, (k, v) ∈ p.known → v < s.uuidPos
  uuid_inj : ∀ (i : Nat) p, s.uuids[i]? = some p → ∀ k k' v, (k, v) ∈ p.known → (k', v) ∈ p.known → k = k'

/-- `s'` extends `s`: counters only grow, objects are never freed, maps only gain keys, formats and
    factories of existing objects never change. -/
structure Ext (s s' : State) : Prop where
  dflt : s.dfltCtr ≤ s'.dfltCtr
  bnfs : ∀ (f c : Nat), s.bnfs[f]? = some c → ∃ c', s'.bnfs[f]? = some c' ∧ c ≤ c'
  strfs : ∀ (j a : Nat), s.strfs[j]? = some a → s'.strfs[j]? = some a
  int64s : ∀ (i : Nat) p, s.int64s[i]? = some p → ∃ p', s'.int64s[i]? = some p' ∧ p'.format = p.format ∧
    ∀ k v, assoc k p.known = some v → assoc k p'.known = some v
  uuids : ∀ (i : Nat) p, s.uuids[i]? = some p → ∃ p', s'.uuids[i]? = some p' ∧ p'.format = p.format ∧
    ∀ k v, assoc k p.known = some v → assoc k p'.known = some v
  mappers : ∀ (i : Nat) p, s.mappers[i]? = some p → ∃ p', s'.mappers[i]? = some p' ∧ p'.factory = p.factory ∧
    ∀ k v, assoc k p.known = some v → assoc k p'.known = some v
  uuidPos : s.uuidPos ≤ s'.uuidPos

/-- The label `p` has already fixed for `n` in state `s` (no side effect); `none` = not fixed yet. -/
def peek (U : Nat → Bytes) (s : State) : ProvRef → Node → Option Out
  | .int64 i, n =>
    match s.int64s[i]? with
    | none => none
    | some p => (assoc n p.known).map (fun idx => sprintf1 p.format int64Verbs (decimal idx))
  | .uuid i, n =>
    match s.uuids[i]? with
    | none => none
    | some p => (assoc n p.known).map (fun pos => sprintf1 p.format uuidVerbs (U pos))
  | .pass scope fallback, n =>
    match n with
    | some (.bnString f v) => if f = scope then some (.label v) else peek U s fallback n
    | _ => peek U s fallback n

/-- The node mapper `m` has already fixed for `n`. -/
def peekMap (s : State) (m : Nat) (n : Node) : Option Ident :=
  match s.mappers[m]? with
  | none => none
  | some mp => assoc n mp.known

/-- operations that hand out a new node on every call -/
def FreshOp (op : Op) : Prop :=
  (∃ f, op = .newBlankNode f) ∨ (∃ j, op = .newStringBlankNode j [])

/-- the factory an operation asks for a node -/
def opFactory : Op → Option FactoryRef
  | .newBlankNode f => some f
  | .newStringBlankNode j _ => some (.strf j)
  | _ => none

/-- int64 / UUID providers (those that own a `known` map) -/
def isLeaf : ProvRef → Bool
  | .int64 _ => true
  | .uuid _ => true
  | .pass _ _ => false

end RdfModel.C14
