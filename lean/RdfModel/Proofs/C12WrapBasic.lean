/-
  Part C12W — helper lemmas about the string primitives of Model/GoUrlFull.lean.
-/
import RdfModel.Props.C12WrapDefs
namespace RdfModel.C12W
open RdfModel.GoUrlFull RdfModel.PIRI

theorem cut_append_sep (sep : Nat) : ∀ (a b : Str), sep ∉ a → cut sep (a ++ sep :: b) = (a, some b)
  | [], b, _ => by simp [cut]
  | c :: a, b, h => by
    have hc : c ≠ sep := fun e => h (by simp [e])
    have ha : sep ∉ a := fun m => h (by simp [m])
    simp [cut, hc, cut_append_sep sep a b ha]

theorem cut_none (sep : Nat) : ∀ (a : Str), sep ∉ a → cut sep a = (a, none)
  | [], _ => by simp [cut]
  | c :: a, h => by
    have hc : c ≠ sep := fun e => h (by simp [e])
    have ha : sep ∉ a := fun m => h (by simp [m])
    simp [cut, hc, cut_none sep a ha]

theorem indexOf_append_sep (sep : Nat) : ∀ (a b : Str), sep ∉ a → indexOf sep (a ++ sep :: b) = some a.length
  | [], b, _ => by simp [indexOf]
  | c :: a, b, h => by
    have hc : c ≠ sep := fun e => h (by simp [e])
    have ha : sep ∉ a := fun m => h (by simp [m])
    simp [indexOf, hc, indexOf_append_sep sep a b ha]

theorem indexOf_none (sep : Nat) : ∀ (a : Str), sep ∉ a → indexOf sep a = none
  | [], _ => by simp [indexOf]
  | c :: a, h => by
    have hc : c ≠ sep := fun e => h (by simp [e])
    have ha : sep ∉ a := fun m => h (by simp [m])
    simp [indexOf, hc, indexOf_none sep a ha]

theorem lastIndexOf_none (sep : Nat) : ∀ (a : Str), sep ∉ a → lastIndexOf sep a = none
  | [], _ => by simp [lastIndexOf]
  | c :: a, h => by
    have hc : c ≠ sep := fun e => h (by simp [e])
    have ha : sep ∉ a := fun m => h (by simp [m])
    simp [lastIndexOf, hc, lastIndexOf_none sep a ha]

theorem escape_id (mode : Mode) : ∀ (s : Str), s.all (fun c => !shouldEscape c mode) = true → escape mode s = s
  | [], _ => by simp [escape]
  | c :: s, h => by
    simp only [List.all_cons, Bool.and_eq_true, Bool.not_eq_true'] at h
    simp [escape, h.1, escape_id mode s h.2]

theorem replaceFirst_same : ∀ (s x : Str), RdfModel.IRI.replaceFirst s x x = s
  | [], x => by
    unfold RdfModel.IRI.replaceFirst
    split
    · rename_i h
      have : x = [] := by cases x <;> simp_all
      simp [this]
    · rfl
  | c :: s, x => by
    unfold RdfModel.IRI.replaceFirst
    split
    · rename_i h
      have := List.isPrefixOf_iff_prefix.mp h
      obtain ⟨t, ht⟩ := this
      rw [← ht]; simp
    · simp [replaceFirst_same s x]

/-! ### setPath / EscapedPath, setFragment / EscapedFragment -/

theorem unescOk_elim {mode : Mode} {s : Str} (h : unescOk mode s = true) : ∃ r, unescape mode s = .ok r := by
  unfold unescOk at h
  split at h
  · rename_i r hr; exact ⟨r, hr⟩
  · cases h

theorem unescapesTo_self {mode : Mode} {s r : Str} (h : unescape mode s = .ok r) : unescapesTo mode s r = true := by
  simp [unescapesTo, h]

/-- `setPath` on a validly encoded path: `EscapedPath` gives the path back, whether or not `RawPath` is set -/
theorem setPath_spec (u : URL) (p path : Str) (hu : unescape .path p = .ok path)
    (hv : validEncoded .path p = true) (hstar : p ≠ pctStar) :
    setPath u p = .ok { u with path := path, rawPath := if escape .path path = p then [] else p } ∧
    ({ u with path := path, rawPath := if escape .path path = p then [] else p } : URL).escapedPath = p := by
  refine ⟨by simp [setPath, hu], ?_⟩
  unfold URL.escapedPath
  by_cases he : escape .path path = p
  · simp only [he, if_true]
    have hne : path ≠ [0x2a] := by
      intro h
      apply hstar
      rw [← he, h]; decide
    simp [hne, he]
  · have hp : p ≠ [] := by
      intro h
      subst h
      simp [unescape] at hu
      subst hu
      exact he (by simp [escape])
    have hp' : p.isEmpty = false := by cases p <;> simp_all
    simp [he, hp', hv, unescapesTo_self hu]

/-- `setFragment` on a validly encoded fragment -/
theorem setFragment_spec (u : URL) (f frag : Str) (hu : unescape .fragment f = .ok frag)
    (hv : validEncoded .fragment f = true) :
    setFragment u f = .ok { u with fragment := frag, rawFragment := if escape .fragment frag = f then [] else f } ∧
    ({ u with fragment := frag, rawFragment := if escape .fragment frag = f then [] else f } : URL).escapedFragment = f := by
  refine ⟨by simp [setFragment, hu], ?_⟩
  unfold URL.escapedFragment
  by_cases he : escape .fragment frag = f
  · simp [he]
  · have hp : f ≠ [] := by
      intro h
      subst h
      simp [unescape] at hu
      subst hu
      exact he (by simp [escape])
    have hp' : f.isEmpty = false := by cases f <;> simp_all
    simp [he, hp', hv, unescapesTo_self hu]

/-- unescaping a non-empty string gives a non-empty string -/
theorem unescape_ne_nil {mode : Mode} : ∀ {s r : Str}, unescape mode s = .ok r → s ≠ [] → r ≠ []
  | [], _, _, h => absurd rfl h
  | c :: s, r, hu, _ => by
    unfold unescape at hu
    split at hu
    · split at hu
      · split at hu
        · split at hu
          · cases hu
          · split at hu
            · cases hu; simp
            · cases hu
        · cases hu
      · cases hu
    · split at hu
      · cases hu
      · split at hu
        · cases hu; simp
        · cases hu

/-- host bytes the model leaves alone are unescaped to themselves -/
theorem unescape_host_id : ∀ (a : Str), a.all hostByteOk = true → unescape .host a = .ok a
  | [], _ => by simp [unescape]
  | c :: a, h => by
    simp only [List.all_cons, Bool.and_eq_true] at h
    have hc := h.1
    unfold hostByteOk at hc
    simp only [Bool.and_eq_true, decide_eq_true_eq, Bool.not_eq_true', bne_iff_ne, ne_eq] at hc
    have h25 : c ≠ 0x25 := by
      intro e; subst e
      have : shouldEscape 0x25 .host = true := by decide
      simp [this] at hc
    unfold unescape
    simp [h25, hc.1.1, hc.1.2, unescape_host_id a h.2]

theorem escape_host_id (a : Str) (h : a.all hostByteOk = true) : escape .host a = a := by
  apply escape_id
  apply List.all_eq_true.mpr
  intro c hc
  have := List.all_eq_true.mp h c hc
  unfold hostByteOk at this
  simp only [Bool.and_eq_true, decide_eq_true_eq, Bool.not_eq_true', bne_iff_ne, ne_eq] at this
  simp [this.1.2]

/-- `strings.Replace(pre + old + suf, old, new, 1)` when the first byte of `old` does not occur in `pre` -/
theorem replaceFirst_at (c : Nat) (o new suf : Str) : ∀ (pre : Str), c ∉ pre →
    RdfModel.IRI.replaceFirst (pre ++ (c :: o) ++ suf) (c :: o) new = pre ++ new ++ suf
  | [], _ => by
    unfold RdfModel.IRI.replaceFirst
    have : (c :: o).isPrefixOf ([] ++ (c :: o) ++ suf) = true := by
      apply List.isPrefixOf_iff_prefix.mpr
      exact ⟨suf, by simp⟩
    rw [if_pos this]
    simp
  | x :: pre, h => by
    have hx : x ≠ c := fun e => h (by simp [e])
    have hp : c ∉ pre := fun m => h (by simp [m])
    have hnp : (c :: o).isPrefixOf (x :: pre ++ (c :: o) ++ suf) = false := by
      simp [List.isPrefixOf, Ne.symm hx]
    have ih := replaceFirst_at c o new suf pre hp
    unfold RdfModel.IRI.replaceFirst
    rw [if_neg (by rw [hnp]; simp)]
    simp only [List.cons_append]
    rw [ih]

end RdfModel.C12W
