/-
  Proofs.C02DocNestDoc — nested-resource mode, DOCUMENT level: every section `AddResource` writes is the
  printed form of a `triples .` block; blocks one after the other are a printed document; C08's
  `decode_print_partial` then says what the decoder reads.
-/
import RdfModel.Proofs.C02DocNestInd
import RdfModel.Proofs.C02DocPermIso
import RdfModel.Props.C08Doc
namespace RdfModel.Proofs.C02Doc
open RdfModel RdfModel.Ttl RdfModel.TtlEnc RdfModel.C02 RdfModel.Desc RdfModel.Spec.TtlPrint

variable {T : Tables}

/-! ### blocks -/

structure BItem where
  b : TA.Block
  sl : List TA.Slot
  text : List Nat

structure BSyn (T : Tables) (x : BItem) : Prop where
  wf : C08.blockWf T false x.b = true
  nb : C08.blockNoBoolPfx x.b = true
  len : x.sl.length = TA.blockSlots x.b
  ng : noGlue x.sl
  pr : ∀ (ch : TA.Choices) (i : Nat) (rest : List Nat), Agree ch i x.sl → TA.pBlock ⟨T, ch⟩ i x.b rest = x.text ++ rest

theorem blocks_print : ∀ (xs : List BItem), (∀ x ∈ xs, BSyn T x) → ∀ (ch : TA.Choices) (i : Nat) (rest : List Nat),
    Agree ch i (xs.flatMap (·.sl)) → TA.pBlocks ⟨T, ch⟩ i (xs.map (·.b)) rest = xs.flatMap (·.text) ++ rest
  | [], _, _, _, _, _ => rfl
  | x :: xs, h, ch, i, rest, hag => by
    have hx := h x List.mem_cons_self
    simp only [List.flatMap_cons] at hag ⊢
    obtain ⟨h1, h2⟩ := agree_append.1 hag
    rw [hx.len] at h2
    simp only [List.map_cons, TA.pBlocks]
    rw [hx.pr ch i _ h1, blocks_print xs (fun y hy => h y (List.mem_cons_of_mem _ hy)) ch _ rest h2]
    simp

theorem agree_shift (l : List TA.Slot) : Agree (({} : TA.Slot) :: l) 1 l := by
  intro k _
  simp [TA.Choices.at, Nat.add_comm 1 k]

/-- blocks one after the other are a printed document that satisfies the hypotheses of C08's theorem -/
theorem doc_print (xs : List BItem) (h : ∀ x ∈ xs, BSyn T x) :
    TA.print T (xs.map (·.b)) (({} : TA.Slot) :: xs.flatMap (·.sl)) = xs.flatMap (·.text) ∧
    C08.docWf T false (xs.map (·.b)) = true ∧ C08.docNoBoolPfx (xs.map (·.b)) = true ∧
    C08.choicesOK (({} : TA.Slot) :: xs.flatMap (·.sl)) = true := by
  refine ⟨?_, ?_, ?_, ?_⟩
  · unfold TA.print
    rw [blocks_print xs h _ 1 [] (agree_shift _)]
    have : TA.Choices.at (({} : TA.Slot) :: xs.flatMap (·.sl)) 0 = {} := rfl
    rw [this, after_punct_nil _ rfl]
    simp
  · simp only [C08.docWf, List.all_eq_true, List.mem_map]
    rintro _ ⟨x, hx, rfl⟩
    exact (h x hx).wf
  · simp only [C08.docNoBoolPfx, List.all_eq_true, List.mem_map]
    rintro _ ⟨x, hx, rfl⟩
    exact (h x hx).nb
  · simp only [C08.choicesOK, List.all_eq_true, List.mem_cons, List.mem_flatMap, C08.slotOK, Bool.not_eq_true']
    rintro s (rfl | ⟨x, hx, hs⟩)
    · rfl
    · exact (h x hx).ng s hs

/-! ### sections -/

section Sections
variable {β : Type} [DecidableEq β] {C : TtlDoc.Cfg} {c : Ctx β} {base : Option (List Nat)}

/-- what a block denotes, in terms of the flattening of the resource `r'` -/
def BlockDen (C : TtlDoc.Cfg) (c : Ctx β) (base : Option (List Nat)) (b : TA.Block) (r' : Resource β)
    (used : List (List Nat)) : Prop :=
  ∀ (D : List Nat → Prop) (st : TA.DState), StOK base c.pm D st → (∀ l ∈ used, D l) →
    ∃ (ts : List (Triple TA.B)),
      TA.dBlock C.resolve st b = some (ts.map quadOf, { st with next := (r'.newTriples st.next).2 }) ∧
      ts.Perm ((r'.newTriples st.next).1.map (Triple.map (sig c.label)))

/-- a section with everything known about it -/
structure SecItem (β : Type) extends BItem where
  r' : Resource β
  used : List (List Nat)

abbrev mkSec (b : TA.Block) (sl : List TA.Slot) (text : List Nat) (r' : Resource β) (used : List (List Nat)) :
    SecItem β := { b := b, sl := sl, text := text, r' := r', used := used }

def SecInv (T : Tables) (C : TtlDoc.Cfg) (c : Ctx β) (base : Option (List Nat)) (r : Resource β) (x : SecItem β) : Prop :=
  BSyn T x.toBItem ∧ resSubj r = resSubj x.r' ∧ DP (resStmts r) (resStmts x.r') ∧ BlockDen C c base x.b x.r' x.used

theorem fuelFor_ok (st : List (Stmt β)) : 2 * stmtsDepth st + 2 ≤ fuelFor st := by
  unfold fuelFor; omega

/-- `AddResource` on a well-formed resource with statements -/
theorem section_inv (S : Setup C T c base) (hC : NestCfgOK C T) (tp : TokPrint T) (r : Resource β)
    (hr : ResourceOK c base r) (hne : resStmts r ≠ []) :
    ∃ x : SecItem β, resourceSection c false r = OR.ok (some x.text, x.used) ∧ SecInv T C c base r x := by
  have hput := fun (st : List (Stmt β)) (hst : st ≠ []) (hok : StmtsOK c base st) =>
    (write_inv S hC tp (fuelFor st)).2.1 0 st hst hok (fuelFor_ok st)
  have hemp : ∀ st : List (Stmt β), st ≠ [] → st.isEmpty = false := by
    intro st h
    cases st with
    | nil => exact absurd rfl h
    | cons _ _ => rfl
  -- the anonymous root, shared by `.anon st` and `.subject none st`
  have anonCase : ∀ (st : List (Stmt β)), st ≠ [] → StmtsOK c base st →
      ∃ x : SecItem β, (write c false (fuelFor st) (.put 0 st)).bind (fun r =>
          OR.ok (some (asc "[]" ++ r.text ++ [sp, 0x2e, nl]), ([] : List (List Nat)) ++ r.used)) = OR.ok (some x.text, x.used) ∧
        BSyn T x.toBItem ∧ none = resSubj x.r' ∧ DP st (resStmts x.r') ∧ BlockDen C c base x.b x.r' x.used := by
    intro st hst hok
    obtain ⟨pr, hpr, pos, sl, ld, body, l', htext, hld, hldn, hsyn, hdp, hden⟩ := hput st hst hok
    refine ⟨mkSec (.triples ⟨.anon, pos⟩) ([tokSlot [] [], tokSlot [] ld] ++ sl [sp] ++ [tokSlot [] [nl]])
      (asc "[]" ++ (ld ++ body) ++ [sp, 0x2e, nl]) (.anon l') pr.used, ?_, ?_, rfl, hdp, ?_⟩
    · rw [hpr]
      simp only [OR.bind, OR.ok, htext, List.nil_append]
    · refine ⟨?_, ?_, ?_, ?_, ?_⟩
      · simp only [C08.blockWf, C08.triplesWf, C08.subjWf, hsyn.wf, Bool.true_and, Bool.or_eq_true, Bool.not_eq_true',
          List.isEmpty_eq_false_iff]
        exact Or.inl hsyn.ne
      · simp only [C08.blockNoBoolPfx, C08.triplesNoBoolPfx, C08.subjNoBoolPfx, hsyn.nb, Bool.true_and]
      · simp only [List.length_append, List.length_cons, List.length_nil, hsyn.len, TA.blockSlots, TA.triplesSlots,
          TA.subjSlots]
      · refine noGlue_append.2 ⟨noGlue_append.2 ⟨?_, hsyn.ng _⟩, noGlue_tok _ _⟩
        intro s hs
        simp only [List.mem_cons, List.mem_nil_iff, or_false] at hs
        rcases hs with rfl | rfl <;> rfl
      · intro ch i rest hag
        obtain ⟨h12, h3⟩ := agree_append.1 hag
        obtain ⟨h1, h2⟩ := agree_append.1 h12
        obtain ⟨h1a, h1b⟩ := agree_two h1
        have h3 := agree_one h3
        simp only [List.length_append, List.length_cons, List.length_nil, hsyn.len] at h2 h3
        simp only [TA.pBlock, TA.pStatement, TA.pTriples, TA.pSubj, TA.pObj, TA.pPunct, TA.subjSlots, TA.triplesSlots,
          h1a, h1b, after_tok _ _ ld hld hldn]
        rw [after_punct_nil _ rfl, hsyn.pr ch (i + 2) [sp] _ ws_sp.1 ws_sp.2 (by simpa using h2)]
        have hidx : i + (2 + TA.posSlots pos + 1) - 1 = i + (0 + 1 + 1 + TA.posSlots pos) := by omega
        rw [hidx, h3, after_tok _ _ [nl] (ws_nltabs 0).1 (by simp)]
        simp [asc]
    · intro D st0 hst0 hD
      obtain ⟨ts, h1, hp1⟩ := hden D { st0 with next := st0.next + 1 } (hst0.next _) hD (.bnode (.fresh st0.next))
      refine ⟨ts, ?_, hp1⟩
      have e : (Term.bnode (Desc.BN.fresh st0.next) : Term (Desc.BN β)).map (sig c.label) = .bnode (.anon st0.next) := rfl
      rw [e] at h1
      simp only [TA.dBlock, TA.dTriples, TA.dSubj, TA.dObj, TA.DState.fresh, h1, List.nil_append]
      rfl
  cases r with
  | anon st =>
    have hst : st ≠ [] := hne
    have hok : StmtsOK c base st := hr
    obtain ⟨x, hx, h1, h2, h3, h4⟩ := anonCase st hst hok
    refine ⟨x, ?_, h1, h2, h3, h4⟩
    simp only [resourceSection, hemp st hst, Bool.false_eq_true, ↓reduceIte]
    exact hx
  | subject so st =>
    have hst : st ≠ [] := hne
    cases so with
    | none =>
      have hok : StmtsOK c base st := hr
      obtain ⟨x, hx, h1, h2, h3, h4⟩ := anonCase st hst hok
      refine ⟨x, ?_, h1, h2, h3, h4⟩
      simp only [resourceSection, hemp st hst, Bool.false_eq_true, ↓reduceIte]
      exact hx
    | some s =>
      obtain ⟨hs, hok⟩ : subjectOK c base s ∧ StmtsOK c base st := hr
      obtain ⟨stext, sx, scs, hsw, hswf, hsnb, hsslots, hspr, hsden⟩ := subject_syn S hC tp s hs
      obtain ⟨pr, hpr, pos, sl, ld, body, l', htext, hld, hldn, hsyn, hdp, hden⟩ := hput st hst hok
      refine ⟨mkSec (.triples ⟨sx, pos⟩) ([tokSlot scs ld] ++ sl [sp] ++ [tokSlot [] [nl]])
        (stext ++ (ld ++ body) ++ [sp, 0x2e, nl]) (.subject (some s) l') (usedOfSubject c.pm s ++ pr.used), ?_, ?_, rfl,
        hdp, ?_⟩
      · simp only [resourceSection, hemp st hst, Bool.false_eq_true, ↓reduceIte, hsw, hpr, OR.bind, OR.ok, htext]
      · refine ⟨?_, ?_, ?_, ?_, ?_⟩
        · simp only [C08.blockWf, C08.triplesWf, hswf, hsyn.wf, Bool.true_and, Bool.or_eq_true, Bool.not_eq_true',
            List.isEmpty_eq_false_iff]
          exact Or.inl hsyn.ne
        · simp only [C08.blockNoBoolPfx, C08.triplesNoBoolPfx, hsnb, hsyn.nb, Bool.true_and]
        · simp only [List.length_append, List.length_cons, List.length_nil, hsyn.len, TA.blockSlots, TA.triplesSlots,
            hsslots]
        · exact noGlue_append.2 ⟨noGlue_append.2 ⟨noGlue_tok _ _, hsyn.ng _⟩, noGlue_tok _ _⟩
        · intro ch i rest hag
          obtain ⟨h12, h3⟩ := agree_append.1 hag
          obtain ⟨h1, h2⟩ := agree_append.1 h12
          have h1 := agree_one h1
          have h3 := agree_one h3
          simp only [List.length_append, List.length_cons, List.length_nil, hsyn.len] at h2 h3
          simp only [TA.pBlock, TA.pStatement, TA.pTriples, TA.triplesSlots, hsslots]
          rw [hspr ch i ld _ hld hldn h1, hsyn.pr ch (i + 1) [sp] _ ws_sp.1 ws_sp.2 (by simpa using h2)]
          have hidx : i + (1 + TA.posSlots pos + 1) - 1 = i + (0 + 1 + TA.posSlots pos) := by omega
          simp only [TA.pPunct]
          rw [hidx, h3, after_tok _ _ [nl] (ws_nltabs 0).1 (by simp)]
          simp
      · intro D st0 hst0 hD
        have hD1 : ∀ l ∈ usedOfSubject c.pm s, D l := fun l hl => hD l (List.mem_append_left _ hl)
        have hD2 : ∀ l ∈ pr.used, D l := fun l hl => hD l (List.mem_append_right _ hl)
        obtain ⟨ts, h1, hp1⟩ := hden D st0 hst0 hD2 (s.map Desc.BN.orig)
        refine ⟨ts, ?_, hp1⟩
        rw [map_orig_sig] at h1
        simp only [TA.dBlock, TA.dTriples, hsden D st0 hst0 hD1, h1, List.nil_append]
        rfl

end Sections

end RdfModel.Proofs.C02Doc
