import RdfModel.Props.C11Ra
#print axioms RdfModel.C11Ra.rdfa_terminates_no_panic
#print axioms RdfModel.C11Ra.rdfa_outcomes
#print axioms RdfModel.C11Ra.rdfa_emits_wf
#print axioms RdfModel.C11Ra.rootless_body_panics
#print axioms RdfModel.C11Ra.rdfa_refines_denote_partial
#print axioms RdfModel.C11Ra.rdfa_refines_denote_resource_partial
#print axioms RdfModel.C11Ra.rdfa_driver_no_panic_wf
#print axioms RdfModel.C11Ra.driver_env_ok
#print axioms RdfModel.C11Ra.rdfa_resolve_text
#print axioms RdfModel.C11Ra.rdfa_refines_denote_literal_text_partial
#print axioms RdfModel.C11Ra.rdfa_refines_denote_resource_text_partial
#print axioms RdfModel.C11Ra.rdfa_refines_denote_typed_partial
#print axioms RdfModel.C11Ra.rdfa_refines_denote_typeof_partial
#print axioms RdfModel.C11Ra.rdfa_refines_denote_chaining_partial
#print axioms RdfModel.C11Ra.rdfa_refines_denote_inlist_partial
#print axioms RdfModel.C11Ra.rdfa_refines_denote_rev_chaining_partial
