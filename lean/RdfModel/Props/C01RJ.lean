/-
  RDF/JSON leg of C01 (round trip), C05 (decoder totality) and C06 (well-formed statements):
  theorems only; helper lemmas live in RdfModel/Proofs/C01RJ*.lean.

  All theorems are about the executable model `Model/RdfJson.lean` that the driver runs.  The JSON
  text layer (`encoding/json`, the `inspectjson` tokenizer) is outside the model: the theorems speak
  about token streams, and the correspondence harness go/cmd/c01rj validates on every run that the
  real encoder's bytes tokenise to `encodeTokens` and that the real decoder behaves like `run` on
  the real tokenizer's tokens.

  `Variant` selects the version of decoder.go: `Variant.current` = with the three `fix:` patches
  (checked assertions; literal checks; rdf:dirLangString rejected), `Variant.legacy` = before them.
-/
import RdfModel.Props.C01RJDefs
import RdfModel.Proofs.C01RJDec
import RdfModel.Proofs.C01RJNext
import RdfModel.Proofs.C01RJNest
import RdfModel.Proofs.C01RJRound
import RdfModel.Proofs.C01RJGrammar
namespace RdfModel.C01RJ
open RdfModel RdfModel.RJ
open scoped List

variable {β : Type}

/-! ## C01 — round trip -/

/-- For every list of well-formed triples, every labeller with non-empty labels and every version
    of the decoder: decoding the token stream the encoder writes on `Close` ends cleanly and yields
    a permutation of the input with every blank node replaced by its label (grouping by subject and
    predicate and key sorting reorder the statements; duplicates are kept).  IRIs, lexical forms
    and labels are arbitrary code-point strings. -/
theorem rdfjson_roundtrip (v : Variant) (label : β → List Nat) (hl : ∀ b, label b ≠ [])
    (ts : List (Triple β)) (hwf : ∀ t ∈ ts, WFTriple t) :
    ∃ out, parseRoot v (encodeTokens (addAll label ts)) .eof = .done out .clean ∧
      out ~ ts.map (relabel label) :=
  Proofs.C01RJ.roundtrip v label hl ts hwf

/-- The same for what a caller observes through `Next`/`Triple`/`Err`. -/
theorem rdfjson_roundtrip_run (v : Variant) (label : β → List Nat) (hl : ∀ b, label b ≠ [])
    (ts : List (Triple β)) (hwf : ∀ t ∈ ts, WFTriple t) :
    ∃ out, run v (encodeTokens (addAll label ts)) .eof = .finished out none ∧
      out ~ ts.map (relabel label) := by
  obtain ⟨out, h1, h2⟩ := rdfjson_roundtrip v label hl ts hwf
  refine ⟨out, ?_, h2⟩
  rw [Proofs.C01RJ.run_closed_form, h1]
  rfl

/-- Relabelling by an injective labeller is injective on triples: distinct blank nodes stay
    distinct, so the permutation above is a dataset isomorphism. -/
theorem relabel_injective (label : β → List Nat) (hinj : Function.Injective label) :
    Function.Injective (relabel label) := by
  have hterm : Function.Injective (Term.map (fun b => BNode.named (label b))) := by
    intro a b h
    cases a <;> cases b <;> simp [Term.map] at h ⊢
    · exact h
    · exact hinj h
    · exact h
  intro a b h
  obtain ⟨s1, p1, o1⟩ := a
  obtain ⟨s2, p2, o2⟩ := b
  simp only [relabel, Triple.map, Triple.mk.injEq] at h
  obtain ⟨h1, h2, h3⟩ := h
  rw [hterm h1, hterm h2, hterm h3]

/-- The token stream the encoder writes is a grammatical RDF/JSON document: accepted by the
    independent recogniser `Spec.RJG.accepts` (W3C note §3: `{ "S" : { "P" : [ O ] } }`, object
    records with `type` ∈ uri/literal/bnode and `value`, optional non-empty `lang` or `datatype`
    on literals only, no duplicate members, strict commas).  Grammaticality of the *bytes* as JSON
    text is outside the model: the harness checks it with the real strict tokenizer on every
    generated dataset and feeds the real tokens to this recogniser. -/
theorem rdfjson_output_grammatical (label : β → List Nat) (ts : List (Triple β))
    (hwf : ∀ t ∈ ts, WFTriple t) :
    Spec.RJG.accepts (encodeTokens (addAll label ts)) = true :=
  Proofs.C01RJ.output_grammatical label ts hwf

/-- The recogniser is not trivial: it refuses what the lenient decoder lets through. -/
example : Spec.RJG.accepts [.beginObject, .valueSep, .endObject] = false ∧
    parseRoot .current [.beginObject, .valueSep, .endObject] .eof = .done [] .clean := by decide

/-- Non-vacuity: a dataset with shared blank nodes, every kind of literal, odd strings. -/
def Witness.label : Nat → List Nat := fun n => [0x62, 0x30 + n]     -- "b0", "b1", …
def Witness.triples : List (Triple Nat) :=
  [ ⟨.bnode 0, .iri [0x70], .bnode 1⟩,
    ⟨.iri [0x68, 0x3a, 0x73], .iri [0x70], .lit [0x22, 0x5c, 0x0a, 0x85, 0x1F41B] xsdString none⟩,
    ⟨.bnode 1, .iri [0x71], .lit [0x78] rdfLangString (some [0x65, 0x6e, 0x2d, 0x55, 0x53])⟩,
    ⟨.bnode 0, .iri [0x70], .lit [] [0x68, 0x3a, 0x64] none⟩,
    ⟨.bnode 0, .iri [0x70], .bnode 1⟩ ]

theorem Witness.labels_nonempty : ∀ b, Witness.label b ≠ [] := by intro b; simp [Witness.label]

theorem Witness.wf : ∀ t ∈ Witness.triples, WFTriple t := by
  intro t ht
  simp only [Witness.triples, List.mem_cons, List.not_mem_nil, or_false] at ht
  rcases ht with rfl | rfl | rfl | rfl | rfl
  · exact ⟨trivial, trivial, trivial⟩
  · exact ⟨by simp [WFSubject, bnPrefix?], trivial, by decide, by decide, by decide⟩
  · exact ⟨trivial, trivial, by decide, by decide, rfl, by decide⟩
  · exact ⟨trivial, trivial, by decide, by decide, by decide⟩
  · exact ⟨trivial, trivial, trivial⟩

/-! ## C05 — no panic, sticky end state, usable accessors -/

/-- With checked type assertions (the repaired decoder.go) `parseRoot` never panics, whatever the
    token stream and however the tokenizer ends. -/
theorem rj_no_panic (v : Variant) (hv : v.checked = true) (toks : List Tok) (e : TEnd) :
    parseRoot v toks e ≠ .panic :=
  Proofs.C01RJ.parse_checked_no_panic v hv e toks .start {}

/-- … and neither does a full iteration (`Triple()` never indexes out of range, fuel suffices). -/
theorem rj_run_no_panic (v : Variant) (hv : v.checked = true) (toks : List Tok) (e : TEnd) :
    run v toks e ≠ .panic ∧ run v toks e ≠ .outOfFuel := by
  rw [Proofs.C01RJ.run_closed_form]
  have := rj_no_panic v hv toks e
  cases h : parseRoot v toks e with
  | panic => exact absurd h this
  | done ss vd => simp

/-- The decoder before the repair (unchecked assertions) does not panic on token streams that are
    `WellNested` — what the `inspectjson` tokenizer produces unless its `EmitWhitespace` option is on
    (that guarantee is an assumption about third-party code, validated by T3 on every run). -/
theorem rj_no_panic_legacy (v : Variant) (toks : List Tok) (e : TEnd) (h : WellNested toks = true) :
    parseRoot v toks e ≠ .panic :=
  Proofs.C01RJ.parse_wellNested_no_panic v e toks .start [.root] {} rfl h

/-- Without that hypothesis the unrepaired decoder does panic: `{"s":{` followed by a whitespace
    token (bytes `{"s":{ "p":[]}}` with `EmitWhitespace`; replayed on the real code). -/
theorem rj_legacy_panics :
    parseRoot .legacy [.beginObject, .str [0x73], .nameSep, .beginObject, .other 4, .str [0x70]] .eof = .panic ∧
    WellNested [.beginObject, .str [0x73], .nameSep, .beginObject, .other 4, .str [0x70]] = false := by
  decide

/-- … and so it does at a member-name position. -/
theorem rj_legacy_panics_member :
    parseRoot .legacy [.beginObject, .str [0x73], .nameSep, .beginObject, .str [0x70], .nameSep,
      .beginArray, .beginObject, .other 4] .eof = .panic := by
  decide

example : WellNested [.beginObject, .str [0x73], .nameSep, .beginObject, .str [0x70], .nameSep,
    .beginArray, .beginObject, .str kType, .nameSep, .str vUri, .valueSep, .valueSep, .endObject,
    .valueSep, .other 0, .endArray, .endObject, .valueSep, .endObject] = true := by decide

/-- `statementsIdx ≥ -1` is preserved by `Next()` (it holds for a fresh decoder). -/
theorem rj_idx_inv (v : Variant) (toks : List Tok) (e : TEnd) (d d' : Dec) (b : Bool)
    (hi : -1 ≤ d.idx) (h : next v toks e d = .ret d' b) : -1 ≤ d'.idx :=
  Proofs.C01RJ.next_idx_inv v toks e d d' b hi h

/-- Latch: once `Next()` has returned false, every later call returns false and `Err()` does not
    change — from any state a fresh decoder can reach, for any number `k` of further calls. -/
theorem rj_latch (v : Variant) (toks : List Tok) (e : TEnd) (d d' : Dec)
    (hi : -1 ≤ d.idx) (h : next v toks e d = .ret d' false) (k : Nat) : StaysEnded v toks e d' k :=
  Proofs.C01RJ.staysEnded_of_ended v toks e k d' (Proofs.C01RJ.ended_of_false v toks e d d' hi h)

/-- Accessors: when `Next()` has just returned true, `Triple()` is in range. -/
theorem rj_accessor (v : Variant) (toks : List Tok) (e : TEnd) (d d' : Dec)
    (hi : -1 ≤ d.idx) (h : next v toks e d = .ret d' true) :
    ∃ t, current d' = some t ∧ t ∈ d'.stmts :=
  Proofs.C01RJ.current_of_true v toks e d d' hi h

example : (-1 : Int) ≤ ({} : Dec).idx := by decide

/-- A full iteration in closed form.  Note the second case: when `parseRoot` returns an error after
    having recognised statements, exactly the first of them is still handed out (the first `Next()`
    returns true although `Err()` is already set). -/
theorem rj_run_closed_form (v : Variant) (toks : List Tok) (e : TEnd) :
    run v toks e =
      match parseRoot v toks e with
      | .panic => .panic
      | .done ss vd => .finished (yieldedOf ss vd) vd.toErr :=
  Proofs.C01RJ.run_closed_form v toks e

/-! ## C06 — every emitted statement is well-formed -/

/-- With the literal checks in force, every statement `parseRoot` appends — also those before an
    error — is well-formed: subject IRI/blank node, predicate IRI, object IRI/blank node/literal
    with a non-empty datatype and a non-empty language tag exactly for rdf:langString; with
    `dirCheck` also: never rdf:dirLangString (the model has no directional tags). -/
theorem rj_emits_wf (v : Variant) (hl : v.litChecks = true) (toks : List Tok) (e : TEnd)
    (ss : List (Triple BNode)) (vd : Verdict) (h : parseRoot v toks e = .done ss vd) :
    ∀ t ∈ ss, WFOut v.dirCheck t :=
  Proofs.C01RJ.parse_wf v hl e toks .start {} ss vd (by intro s hs; cases hs) (by intro t ht; cases ht) h

/-- The same for the statements a caller actually sees, for the fully repaired decoder. -/
theorem rj_yields_wf (toks : List Tok) (e : TEnd) (ys : List (Triple BNode)) (err : Option EClass)
    (h : run .current toks e = .finished ys err) : ∀ t ∈ ys, WFOut true t := by
  rw [Proofs.C01RJ.run_closed_form] at h
  cases hp : parseRoot .current toks e with
  | panic => rw [hp] at h; cases h
  | done ss vd =>
    rw [hp] at h
    simp only [Outcome.finished.injEq] at h
    obtain ⟨rfl, _⟩ := h
    have hall := rj_emits_wf .current rfl toks e ss vd hp
    intro t ht
    apply hall t
    cases vd with
    | clean => exact ht
    | error c => exact List.mem_of_mem_take ht

/-! ### The defects the literal checks repair (witnesses on the model of the unrepaired code;
    each was replayed on the real decoder) -/

/-- The object record `{"type":"literal","value":"x", …}` inside `{"s":{"p":[ … ]}}`. -/
def Witness.doc (extra : List Tok) : List Tok :=
  [.beginObject, .str [0x73], .nameSep, .beginObject, .str [0x70], .nameSep, .beginArray, .beginObject,
   .str kType, .nameSep, .str vLiteral, .valueSep, .str kValue, .nameSep, .str [0x78]] ++ extra ++
  [.endObject, .endArray, .endObject, .endObject]

def Witness.emits (v : Variant) (extra : List Tok) (o : Term BNode) : Prop :=
  parseRoot v (Witness.doc extra) .eof = .done [⟨.iri [0x73], .iri [0x70], o⟩] .clean

def Witness.rejects (v : Variant) (extra : List Tok) : Prop :=
  parseRoot v (Witness.doc extra) .eof = .done [] (.error .syntax)

instance (v : Variant) (x : List Tok) (o : Term BNode) : Decidable (Witness.emits v x o) := by
  unfold Witness.emits; exact inferInstance
instance (v : Variant) (x : List Tok) : Decidable (Witness.rejects v x) := by
  unfold Witness.rejects; exact inferInstance

/-- `"lang": ""` gave an rdf:langString literal with an empty language tag. -/
theorem legacy_empty_lang :
    Witness.emits .legacy [.valueSep, .str kLang, .nameSep, .str []] (.lit [0x78] rdfLangString (some [])) ∧
    Witness.rejects .current [.valueSep, .str kLang, .nameSep, .str []] := by decide

/-- `"datatype": rdf:langString` (with or without `lang`) gave an rdf:langString literal without tag. -/
theorem legacy_langString_datatype :
    Witness.emits .legacy [.valueSep, .str kDatatype, .nameSep, .str rdfLangString] (.lit [0x78] rdfLangString none) ∧
    Witness.emits .legacy [.valueSep, .str kLang, .nameSep, .str [0x65, 0x6e], .valueSep, .str kDatatype, .nameSep, .str rdfLangString]
      (.lit [0x78] rdfLangString none) ∧
    Witness.rejects .current [.valueSep, .str kDatatype, .nameSep, .str rdfLangString] ∧
    Witness.emits .current [.valueSep, .str kLang, .nameSep, .str [0x65, 0x6e], .valueSep, .str kDatatype, .nameSep, .str rdfLangString]
      (.lit [0x78] rdfLangString (some [0x65, 0x6e])) := by decide

/-- `"datatype": ""` gave a literal without a datatype IRI. -/
theorem legacy_empty_datatype :
    Witness.emits .legacy [.valueSep, .str kDatatype, .nameSep, .str []] (.lit [0x78] [] none) ∧
    Witness.rejects .current [.valueSep, .str kDatatype, .nameSep, .str []] := by decide

/-- `"datatype": rdf:dirLangString` gives a literal that cannot carry its direction. -/
theorem legacy_dirLangString :
    Witness.emits .legacy [.valueSep, .str kDatatype, .nameSep, .str rdfDirLangString] (.lit [0x78] rdfDirLangString none) ∧
    Witness.rejects .current [.valueSep, .str kDatatype, .nameSep, .str rdfDirLangString] := by decide

/-- An empty blank-node label is not an ill-formed node: it denotes a fresh anonymous node. -/
example : parseRoot .current [.beginObject, .str [0x5f, 0x3a], .nameSep, .beginObject, .str [0x70], .nameSep,
    .beginArray, .beginObject, .str kType, .nameSep, .str vBnode, .valueSep, .str kValue, .nameSep,
    .str [0x5f, 0x3a], .endObject, .endArray, .endObject, .endObject] .eof
    = .done [⟨.bnode (.anon 0), .iri [0x70], .bnode (.anon 1)⟩] .clean := by decide

end RdfModel.C01RJ
