package main

// T2 for property C16, Turtle/TriG (builder-c16x2). Output: RdfModel/Gen/TtlWriterUses.lean.
//
// The document-level corollary of Props/C16TtlDoc.lean rests on the assumption that the statement layer
// of encoding/turtle and encoding/trig never READS its text writer (field `doc` of Decoder) and never
// tests a recorded location: the writer and the locations are write-only bookkeeping, so they cannot
// influence which statements are decoded. Facts extracted here (purely syntactic, go/ast, every
// non-test .go file of the two packages in the repository's working tree, VERIF_REPO or /repo; files
// with a `//go:build verif` constraint included):
//
//   docUses    one entry per selector expression `<expr>.doc`: (package, file, enclosing function)
//   nilTests   one entry per comparison `x == nil` / `x != nil` whose non-nil operand mentions a
//              location, an offset or the writer (its source text contains "Location", "Offset",
//              "Range" or ".doc", or is exactly a name some result of commitForTextOffsetRange /
//              getTextOffset / uncommittedTextOffset… is assigned to anywhere in the two packages: see
//              utilCalls): (package, file,
//              enclosing function, source text of the comparison, locationOnly) where locationOnly says
//              that the comparison is the whole condition of an `if` whose two branches consist solely of
//              call-free assignments to fields named `…Location` (bookkeeping that cannot reach control)
//   utilFuncs  the functions declared in decoder_offsets_util.go with their result types as written
//   utilCalls  every assignment of the result of a pointer-returning util function to a name, and whether
//              that name is one the nilTests scan recognises
//
// Limits (syntactic approximation, stated in Props/C16TtlDoc.lean): a location that reaches a nil test
// through a name without Location/Offset/Range in it other than by the listed assignments (a function
// parameter, a struct field of another name) would not be seen; no such flow exists in the two packages
// today (the locations live in the evaluationContext fields Cur…Location and in locals listed in utilCalls).
//
// The expectations (which files may touch `doc`; no location test outside decoder_offsets_util.go /
// decoder_config.go; the util functions return nothing, an error, or an offset/range pointer) are
// hand-written in Lean (Props/C16TtlDoc.lean, by decide).

import (
	"bytes"
	"fmt"
	"go/ast"
	"go/parser"
	"go/printer"
	"go/token"
	"os"
	"path/filepath"
	"sort"
	"strings"
)

func init() { generators["c16w"] = genC16W }

func c16wRepo() string {
	if v := os.Getenv("VERIF_REPO"); v != "" {
		return v
	}
	return "/repo"
}

func c16wSrc(fset *token.FileSet, n ast.Node) string {
	var b bytes.Buffer
	printer.Fprint(&b, fset, n)
	return strings.Join(strings.Fields(b.String()), " ")
}

func genC16W(leanRoot string) {
	repo := c16wRepo()
	var docUses, nilTests, utilFuncs, utilCalls []string
	ptrFuncs := map[string]bool{"getTextOffset": true, "commitForTextOffsetRange": true, "uncommittedTextOffset": true, "uncommittedTextOffsetRange": true}
	bound := map[string]bool{} // names the result of a pointer-returning util function is assigned to (first pass, both packages)
	mentions := func(s string) bool {
		return bound[s] || strings.Contains(s, "Location") || strings.Contains(s, "Offset") || strings.Contains(s, "Range") || strings.Contains(s, ".doc")
	}

	// first pass: the names bound to util results
	for _, pkg := range []string{"turtle", "trig"} {
		dir := filepath.Join(repo, "encoding", pkg)
		ents, _ := os.ReadDir(dir)
		for _, e := range ents {
			if e.IsDir() || !strings.HasSuffix(e.Name(), ".go") || strings.HasSuffix(e.Name(), "_test.go") {
				continue
			}
			fset := token.NewFileSet()
			f, err := parser.ParseFile(fset, filepath.Join(dir, e.Name()), nil, parser.SkipObjectResolution)
			if err != nil {
				continue // reported by the second pass
			}
			ast.Inspect(f, func(n ast.Node) bool {
				if x, ok := n.(*ast.AssignStmt); ok && len(x.Lhs) == len(x.Rhs) {
					for i, r := range x.Rhs {
						if ce, ok := r.(*ast.CallExpr); ok {
							if se, ok := ce.Fun.(*ast.SelectorExpr); ok && ptrFuncs[se.Sel.Name] {
								bound[c16wSrc(fset, x.Lhs[i])] = true
							}
						}
					}
				}
				return true
			})
		}
	}
	for _, pkg := range []string{"turtle", "trig"} {
		dir := filepath.Join(repo, "encoding", pkg)
		ents, err := os.ReadDir(dir)
		if err != nil {
			fmt.Fprintln(os.Stderr, "c16w:", err)
			os.Exit(2)
		}
		var files []string
		for _, e := range ents {
			if !e.IsDir() && strings.HasSuffix(e.Name(), ".go") && !strings.HasSuffix(e.Name(), "_test.go") {
				files = append(files, e.Name())
			}
		}
		sort.Strings(files)
		for _, fn := range files {
			fset := token.NewFileSet()
			f, err := parser.ParseFile(fset, filepath.Join(dir, fn), nil, parser.SkipObjectResolution)
			if err != nil {
				fmt.Fprintln(os.Stderr, "c16w:", err)
				os.Exit(2)
			}
			for _, d := range f.Decls {
				fd, ok := d.(*ast.FuncDecl)
				fname := "(package level)"
				var node ast.Node = d
				if ok {
					fname = fd.Name.Name
					if fn == "decoder_offsets_util.go" {
						res := ""
						if fd.Type.Results != nil {
							var rs []string
							for _, r := range fd.Type.Results.List {
								rs = append(rs, c16wSrc(fset, r.Type))
							}
							res = strings.Join(rs, ",")
						}
						utilFuncs = append(utilFuncs, fmt.Sprintf("  (%q, %q, %q)", pkg, fname, res))
					}
				}
				isTest := func(e ast.Expr) (*ast.BinaryExpr, bool) {
					x, ok := e.(*ast.BinaryExpr)
					if !ok || (x.Op != token.EQL && x.Op != token.NEQ) {
						return nil, false
					}
					l, r := c16wSrc(fset, x.X), c16wSrc(fset, x.Y)
					return x, (r == "nil" && mentions(l)) || (l == "nil" && mentions(r))
				}
				// locationOnly: every statement of the block assigns to fields named …Location and does nothing else
				var locationOnly func(st ast.Stmt) bool
				locationOnly = func(st ast.Stmt) bool {
					switch b := st.(type) {
					case nil:
						return true
					case *ast.BlockStmt:
						for _, s := range b.List {
							if !locationOnly(s) {
								return false
							}
						}
						return true
					case *ast.AssignStmt:
						if b.Tok != token.ASSIGN {
							return false
						}
						for _, l := range b.Lhs {
							se, ok := l.(*ast.SelectorExpr)
							if !ok || !strings.HasSuffix(se.Sel.Name, "Location") {
								return false
							}
						}
						for _, r := range b.Rhs {
							pure := true
							ast.Inspect(r, func(n ast.Node) bool {
								if _, ok := n.(*ast.CallExpr); ok {
									pure = false
								}
								return pure
							})
							if !pure {
								return false
							}
						}
						return true
					}
					return false
				}
				handled := map[*ast.BinaryExpr]bool{}
				ast.Inspect(node, func(n ast.Node) bool {
					switch x := n.(type) {
					case *ast.SelectorExpr:
						if x.Sel.Name == "doc" {
							docUses = append(docUses, fmt.Sprintf("  (%q, %q, %q)", pkg, fn, fname))
						}
					case *ast.AssignStmt:
						// results of the pointer-returning util functions bound to a name: the name must be one the
						// nilTests scan recognises (contains Location / Offset / Range)
						for i, r := range x.Rhs {
							ce, ok := r.(*ast.CallExpr)
							if !ok {
								continue
							}
							se, ok := ce.Fun.(*ast.SelectorExpr)
							if !ok || !ptrFuncs[se.Sel.Name] || len(x.Lhs) != len(x.Rhs) {
								continue
							}
							lhs := c16wSrc(fset, x.Lhs[i])
							utilCalls = append(utilCalls, fmt.Sprintf("  (%q, %q, %q, %q, %q, %v)", pkg, fn, fname, se.Sel.Name, lhs, mentions(lhs)))
						}
					case *ast.IfStmt:
						if be, ok := isTest(x.Cond); ok && x.Init == nil {
							handled[be] = true
							nilTests = append(nilTests, fmt.Sprintf("  (%q, %q, %q, %q, %v)", pkg, fn, fname, c16wSrc(fset, be), locationOnly(x.Body) && locationOnly(x.Else)))
						}
					case *ast.BinaryExpr:
						if be, ok := isTest(x); ok && !handled[be] {
							nilTests = append(nilTests, fmt.Sprintf("  (%q, %q, %q, %q, false)", pkg, fn, fname, c16wSrc(fset, be)))
						}
					}
					return true
				})
			}
		}
	}
	var sb strings.Builder
	sb.WriteString("-- GENERATED by /verif/go/cmd/extract (gen_c16w.go) from the repository's sources (T2: go/ast). Do not edit.\n")
	sb.WriteString("namespace RdfModel.Gen.TtlWriterUses\n\n")
	sb.WriteString("/-- every selector expression `<expr>.doc` in encoding/turtle and encoding/trig (non-test files): (package, file, enclosing function) -/\n")
	fmt.Fprintf(&sb, "def docUses : List (String × String × String) := [\n%s\n]\n\n", strings.Join(docUses, ",\n"))
	sb.WriteString("/-- every `== nil` / `!= nil` comparison whose other operand mentions a location, an offset or the writer: (package, file, enclosing function, source, locationOnly); locationOnly = the comparison is the whole condition of an `if` whose branches consist solely of call-free assignments to fields named `…Location` -/\n")
	fmt.Fprintf(&sb, "def nilTests : List (String × String × String × String × Bool) := [\n%s\n]\n\n", strings.Join(nilTests, ",\n"))
	sb.WriteString("/-- functions declared in decoder_offsets_util.go: (package, name, result types as written) -/\n")
	fmt.Fprintf(&sb, "def utilFuncs : List (String × String × String) := [\n%s\n]\n\n", strings.Join(utilFuncs, ",\n"))
	sb.WriteString("/-- every assignment `lhs = <expr>.f(…)` / `lhs := …` with f one of getTextOffset, commitForTextOffsetRange, uncommittedTextOffset, uncommittedTextOffsetRange: (package, file, enclosing function, f, lhs as written, recognised) where recognised says that a later `lhs == nil` test would be listed in nilTests (the name contains Location, Offset or Range) -/\n")
	fmt.Fprintf(&sb, "def utilCalls : List (String × String × String × String × String × Bool) := [\n%s\n]\n\n", strings.Join(utilCalls, ",\n"))
	sb.WriteString("end RdfModel.Gen.TtlWriterUses\n")
	writeIfChanged(filepath.Join(leanRoot, "RdfModel", "Gen", "TtlWriterUses.lean"), sb.String())
}
