/-
  C06 — every statement the Turtle / TriG decoder yields is a well-formed triple or quad
  (statement layer). For ALL inputs, grammatical or not; statements yielded before an error
  count too (`run` collects every statement of every `Next() = true`).

  `WFStmt` (Props/C05TtlDefs.lean): subject present and IRI/blank node, predicate present and an
  IRI, object present (by type), graph name absent or (TriG only) IRI/blank node; a language tag
  occurs only with datatype rdf:langString and is non-empty. Blank nodes carry an identity by
  construction (`BN.anon n` from the factory counter, `BN.lbl l` from a label). Every literal has
  a datatype by construction (`Term.lit` has no optional datatype).

  NOT claimed (and false on the code, finding D41): "datatype rdf:langString ⇒ a tag is present" —
  `"x"^^rdf:langString` is yielded with that datatype and no tag. See `ttl_langString_untagged`.
  Absoluteness of IRIs under an absolute base depends on the IRI resolver (`/repo/iri`, a
  `net/url` wrapper) and is checked by the harness oracle only.
-/
import RdfModel.Props.C05Ttl
namespace RdfModel.C06
open RdfModel RdfModel.TtlDoc

/-- Every statement of every run is well formed (`trig` is the package flag of `C`). -/
theorem doc_emits_wf (C : Cfg) (e : End) (hP : C.P.NoPanic) (hL : C.P.LangNonEmpty)
    (base : Option (List Nat)) (pf : List (List Nat × List Nat)) (inp : List Nat) :
    ∀ s ∈ (run C e base pf inp).1, WFStmt C.trig s :=
  (runLoop_ok hP hL _ _ (mInv_init C e base pf inp)).2.1

/-- Turtle: subject and predicate are never nil, no graph name (repaired code, D11). -/
theorem ttl_emits_wf (resolve) (isSpace) (e : End) (base : Option (List Nat)) (pf : List (List Nat × List Nat))
    (inp : List Nat) : ∀ s ∈ (run (C05.realCfg false resolve isSpace) e base pf inp).1, WFStmt false s := by
  obtain ⟨h1, _, h3⟩ := C05.real_producers_ok _ C05.gen_tables_nul.1
  exact doc_emits_wf (C05.realCfg false resolve isSpace) e h1 h3 base pf inp

/-- TriG (repaired code, D40). -/
theorem trig_emits_wf (resolve) (isSpace) (e : End) (base : Option (List Nat)) (pf : List (List Nat × List Nat))
    (inp : List Nat) : ∀ s ∈ (run (C05.realCfg true resolve isSpace) e base pf inp).1, WFStmt true s := by
  obtain ⟨h1, _, h3⟩ := C05.real_producers_ok _ C05.gen_tables_nul.2
  exact doc_emits_wf (C05.realCfg true resolve isSpace) e h1 h3 base pf inp

/-- In Turtle no statement has a graph name. -/
theorem ttl_default_graph (resolve) (isSpace) (e : End) (base : Option (List Nat)) (pf : List (List Nat × List Nat))
    (inp : List Nat) : ∀ s ∈ (run (C05.realCfg false resolve isSpace) e base pf inp).1, s.g = none := by
  intro s hs
  have := (ttl_emits_wf resolve isSpace e base pf inp s hs).graph
  cases hg : s.g with
  | none => rfl
  | some g => exact absurd (this g hg).1 (by simp)

/-- The full C06 literal condition also demands a tag whenever the datatype is rdf:langString. -/
def litTagged : T → Prop
  | .lit _ dt none => dt ≠ rdfLangString ∧ dt ≠ rdfDirLangString
  | _ => True

/-- full statement (NOT a theorem: false on the code, D41) -/
def doc_emits_tagged : Prop :=
  ∀ (trig : Bool) (e : End) (inp : List Nat),
    ∀ s ∈ (run (C05.realCfg trig (fun _ r => some r) (fun c => c = 0x20)) e none [] inp).1, litTagged s.o

/-- D41 witness: `<a> <b> "x"^^<…#langString> .` yields a literal with datatype rdf:langString and no tag. -/
theorem ttl_langString_untagged : ¬ doc_emits_tagged := by
  intro h
  have := h false .eof (asc "<a> <b> \"x\"^^<http://www.w3.org/1999/02/22-rdf-syntax-ns#langString> .")
    ⟨some (.iri (asc "a")), some (.iri (asc "b")), .lit (asc "x") rdfLangString none, none⟩ (by decide)
  exact this.1 rfl

end RdfModel.C06
