/-
  Definitions used by the document-level theorems of C08 (`Props/C08Doc.lean`) and by the driver
  component `ttlp`: which documents the printer can print (`docWf`), the nesting-free fragment
  (`docFlat`), the blank-node / statement correspondence between `Spec.TurtleAbstract.denote` and
  the decoder model, and the hypotheses that exclude the known deviations of the decoder.
  Core-only.
-/
import RdfModel.Spec.TurtleAbstract
import RdfModel.Props.C02TokensDefs
import RdfModel.Model.TurtleDoc
namespace RdfModel.C08
open RdfModel RdfModel.TA RdfModel.C02 RdfModel.Ttl RdfModel.Spec.TtlPrint

def scalarsB (s : List Nat) : Bool := s.all isScalarB

/-- A prefix label the decoder reads as written: `prefixOK` (PN_PREFIX) and no U+1680 (OGHAM SPACE MARK), the
    one PN_CHARS_BASE character the decoder's white-space test (`unicode.IsSpace`) swallows — finding
    `pname-prefix-space`. -/
def prefixOK2 (T : Tables) (p : List Nat) : Bool := prefixOK T p && !p.contains 0x1680

/-! ### Well-formed documents: every leaf is the value of some token, lists are non-empty where the
    grammar wants them non-empty -/

def iriWf (T : Tables) : IriS → Bool
  | .ref r => scalarsB r
  | .pn p l => prefixOK2 T p && scalarsB p && scalarsB l && (printLocal T [] l).isSome

def litWf (T : Tables) : Lit → Bool
  | .plain lex => scalarsB lex
  | .lang lex tag => scalarsB lex && langOK tag
  | .typed lex dt => scalarsB lex && iriWf T dt
  | .num lex => (match bareLiteralDatatype lex with
      | some dt => dt != xsdBoolean
      | none => false)
  | .bool _ => true

def verbWf (T : Tables) : Verb → Bool
  | .a => true
  | .iri i => iriWf T i

def labelWf (T : Tables) (l : List Nat) : Bool := scalarsB l && labelOK T l

mutual
def objWf (T : Tables) : Obj → Bool
  | .iri i => iriWf T i
  | .bn l => labelWf T l
  | .anon => true
  | .lit l => litWf T l
  | .bnpl pos => !pos.isEmpty && posWf T pos
  | .coll items => itemsWf T items
def itemsWf (T : Tables) : List Obj → Bool
  | [] => true
  | o :: os => objWf T o && itemsWf T os
def poWf (T : Tables) : PO → Bool
  | .mk v os => verbWf T v && !os.isEmpty && itemsWf T os
def posWf (T : Tables) : List PO → Bool
  | [] => true
  | po :: pos => poWf T po && posWf T pos
end

def subjWf (T : Tables) : Subj → Bool
  | .iri i => iriWf T i
  | .bn l => labelWf T l
  | .anon => true
  | .bnpl pos => !pos.isEmpty && posWf T pos
  | .coll items => itemsWf T items

def subjIsBnpl : Subj → Bool
  | .bnpl _ => true
  | _ => false

/-- `triples ::= subject predicateObjectList | blankNodePropertyList predicateObjectList?` -/
def triplesWf (T : Tables) (t : Triples) : Bool :=
  subjWf T t.s && posWf T t.pos && (!t.pos.isEmpty || subjIsBnpl t.s)

def dirWf (T : Tables) : Dir → Bool
  | .prefixAt p r | .prefixKw p r => prefixOK2 T p && scalarsB p && scalarsB r
  | .baseAt r | .baseKw r => scalarsB r

def glabelWf (T : Tables) : GLabel → Bool
  | .iri i => iriWf T i
  | .bn l => labelWf T l
  | .anon => true

/-- `trig = false`: graph blocks do not occur -/
def blockWf (T : Tables) (trig : Bool) : Block → Bool
  | .dir d => dirWf T d
  | .triples t => triplesWf T t
  | .graph kw g body =>
    trig && (match g with | none => !kw | some l => glabelWf T l) && body.all (triplesWf T)

def docWf (T : Tables) (trig : Bool) (doc : Doc) : Bool := doc.all (blockWf T trig)

/-! ### The nesting-free fragment: no `[ … ]` with content, no non-empty `( … )` -/

def objFlat : Obj → Bool
  | .bnpl _ => false
  | .coll (_ :: _) => false
  | _ => true

def poFlat : PO → Bool
  | .mk _ os => os.all objFlat

def subjFlat : Subj → Bool
  | .bnpl _ => false
  | .coll (_ :: _) => false
  | _ => true

def triplesFlat (t : Triples) : Bool := subjFlat t.s && t.pos.all poFlat

def blockFlat : Block → Bool
  | .dir _ => true
  | .triples t => triplesFlat t
  | .graph _ _ body => body.all triplesFlat

def docFlat (doc : Doc) : Bool := doc.all blockFlat

/-! ### Hypotheses that exclude the decoder's known deviations (see Props/C08Doc.lean) -/

/-- finding `pname-bool-prefix`: an object written as a prefixed name whose prefix label starts with
    `true` / `false` is read as the boolean keyword -/
def boolPrefixed (p : List Nat) : Bool := (asc "true").isPrefixOf p || (asc "false").isPrefixOf p

mutual
def objNoBoolPfx : Obj → Bool
  | .iri (.pn p _) => !boolPrefixed p
  | .bnpl pos => posNoBoolPfx pos
  | .coll items => itemsNoBoolPfx items
  | _ => true
def itemsNoBoolPfx : List Obj → Bool
  | [] => true
  | o :: os => objNoBoolPfx o && itemsNoBoolPfx os
def poNoBoolPfx : PO → Bool
  | .mk _ os => itemsNoBoolPfx os
def posNoBoolPfx : List PO → Bool
  | [] => true
  | po :: pos => poNoBoolPfx po && posNoBoolPfx pos
end

def subjNoBoolPfx : Subj → Bool
  | .bnpl pos => posNoBoolPfx pos
  | .coll items => itemsNoBoolPfx items
  | _ => true

def triplesNoBoolPfx (t : Triples) : Bool := subjNoBoolPfx t.s && posNoBoolPfx t.pos

def blockNoBoolPfx : Block → Bool
  | .dir _ => true
  | .triples t => triplesNoBoolPfx t
  | .graph _ _ body => body.all triplesNoBoolPfx

def docNoBoolPfx (doc : Doc) : Bool := doc.all blockNoBoolPfx

/-- finding `keyword-glue`: a keyword not followed by a white-space character -/
def slotOK (s : Slot) : Bool := !s.glue

def choicesOK (ch : Choices) : Bool := ch.all slotOK


/-! ### Table facts (T1) and configuration facts the document-level proofs rest on -/

/-- characters that delimit tokens: white space, `"` `#` `'` `(` `)` `,` `.` `;` `<` `>` `@` `[` `]` `^` `{` `}`
    `:` `%` `\` `+` -/
def delims : List Nat :=
  [0x09, 0x0a, 0x0d, 0x20, 0x22, 0x23, 0x27, 0x28, 0x29, 0x2c, 0x2e, 0x3b, 0x3c, 0x3e, 0x40, 0x5b, 0x5d, 0x5e,
   0x7b, 0x7d, 0x3a, 0x25, 0x5c, 0x2b]

/-- Facts about the regenerated tables beyond `C02.TablesOK`; proved for the tables of this run in
    `Props/C08DocTables.lean` by `decide` on the entries. -/
structure TablesOK2 (T : Tables) : Prop where
  /-- no delimiter is a name character -/
  delim : ∀ d ∈ delims, inRanges T.pnChars d = false
  base_sub : ∀ c, inRanges T.pnCharsBase c = true → inRanges T.pnCharsU c = true
  u_sub : ∀ c, inRanges T.pnCharsU c = true → inRanges T.pnChars c = true
  /-- ASCII letters are PN_CHARS_BASE -/
  alpha : ∀ c, isAlpha c = true → inRanges T.pnCharsBase c = true
  /-- digits and `-` are not PN_CHARS_BASE / PN_CHARS_U (a numeric token does not start a name) -/
  digit_base : ∀ c, (isDigit c = true ∨ c = 0x2d) → inRanges T.pnCharsU c = false
  /-- `_` starts a blank node label, not a prefixed name -/
  base_us : inRanges T.pnCharsBase 0x5f = false
  us : inRanges T.pnCharsU 0x5f = true
  minus : inRanges T.pnChars 0x2d = true
  /-- NUL is not a name character (step budget of the machine, C05) -/
  nul : inRanges T.pnCharsBase 0 = false

/-- Runes that are never white space for the decoder: name characters (but U+1680, which Go's
    `unicode.IsSpace` contains) and delimiters other than the four white-space characters. -/
def solid (T : Tables) (c : Nat) : Bool :=
  (inRanges T.pnChars c && c != 0x1680) || (delims.contains c && !isWsRune c)

/-- What the theorems need from the decoder configuration: the real token producers over the
    tables `T`, `T`'s PN_CHARS_BASE, and a white-space predicate (Go: `unicode.IsSpace`) that
    contains SP/TAB/LF/CR and no name character or delimiter. -/
structure CfgOK (T : Tables) (C : TtlDoc.Cfg) : Prop where
  prod : C.P = TtlDoc.Producers.real T
  pnb : ∀ c, C.pnBase c = inRanges T.pnCharsBase c
  ws : ∀ c, isWsRune c = true → C.isSpace c = true
  nsp : ∀ c, solid T c = true → C.isSpace c = false

/-! ### Correspondence of results -/

def toBN : B → TtlDoc.BN
  | .anon n => .anon n
  | .lbl l => .lbl l

def toStmt (q : QuadB) : TtlDoc.Stmt :=
  { s := some (q.s.map toBN), p := some (q.p.map toBN), o := q.o.map toBN, g := q.g.map (Term.map toBN) }

end RdfModel.C08
