// Command c20t: the date/time family of property C20 (XSD literal mapping) against Model.GoTime.
//
//   - T3, exact agreement required:
//     xsdt.parse  time.Parse(layout, s) for every layout the xsdtype package uses and for random
//     layouts composed of the same elements: error/ok and all fields of the result
//     xsdt.fmt    Time.Format(layout) of arbitrary in-range fields and zone offsets
//     xsdt.map    xsdtype.Map<T>(s): error/ok, the Layout stored in the value, the lexical form of
//     AsObjectValue(), and the model's reading notes (one-digit hour, comma, signed
//     fraction, wide zone offset, dropped fraction) against an independent
//     classification of the input text / of the Go value
//     xsdt.teq    TermEquals of the mapped value on literals and a non-literal
//   - Oracle on the implementation only (what Props/C20Time.lean proves of the model):
//     sound      accepted and no deviation note  =>  in the XSD lexical space (regular expressions
//     of XSD 1.1 Part 2 + day-of-month rule, this file)
//     canonical  accepted, no deviation note, no dropped fraction => the literal is in the lexical
//     space, maps again to the same fields and prints the same text
//     termequals TermEquals(lit) <=> same datatype and text equal to the produced lexical form
//     Inputs inside a deviation class are counted under the known finding of that class
//     (predicates of /verif/known-findings.json, property C20); anything else is a violation.
package main

import (
	"flag"
	"fmt"
	"os"
	"regexp"
	"strconv"
	"strings"
	"time"

	"github.com/dpb587/rdfkit-go/ontology/xsd/xsdtype"
	"github.com/dpb587/rdfkit-go/ontology/xsd/xsdutil"
	"github.com/dpb587/rdfkit-go/rdf"
	"verifharness/vh"
)

var (
	tier     = flag.String("tier", "quick", "quick|thorough")
	driver   = flag.String("driver", "/verif/lean/.lake/build/bin/driver", "lean driver binary")
	out      = flag.String("out", "/verif/evidence/.c20t.report.json", "report path")
	findings = flag.String("findings", "/verif/known-findings.json", "known findings")
	replay   = flag.String("replay", "", "replay file (protocol lines)")
	scale    = flag.Int("scale", 1, "multiply generated case counts")
	nomodel  = flag.Bool("nomodel", false, "oracle on the implementation only")
	hints    = flag.String("hints", "", "file of protocol lines whose inputs are pushed through the oracle first")
)

type mapped struct {
	t      time.Time
	layout string
	lex    string
	dt     string
	teq    func(rdf.Term) bool
}

type ttype struct {
	name    string
	layouts []string // hand-written expectation; the value's Layout must be one of them (and the model's)
	clock   bool
	m       func(string) (mapped, error)
}

func mk[T interface {
	AsObjectValue() rdf.ObjectValue
	TermEquals(rdf.Term) bool
}](f func(string) (T, error), get func(T) (time.Time, string)) func(string) (mapped, error) {
	return func(s string) (mapped, error) {
		v, err := f(s)
		if err != nil {
			return mapped{}, err
		}
		t, l := get(v)
		lit, _ := v.AsObjectValue().(rdf.Literal)
		return mapped{t, l, lit.LexicalForm, string(lit.Datatype), v.TermEquals}, nil
	}
}

var types = []*ttype{
	{"date", []string{"2006-01-02", "2006-01-02Z07:00"}, false,
		mk(xsdtype.MapDate, func(v xsdtype.Date) (time.Time, string) { return v.Time, v.Layout })},
	{"dateTime", []string{"2006-01-02T15:04:05", "2006-01-02T15:04:05Z07:00", "2006-01-02T15:04:05.000000000", "2006-01-02T15:04:05.000000000Z07:00"}, true,
		mk(xsdtype.MapDateTime, func(v xsdtype.DateTime) (time.Time, string) { return v.Time, v.Layout })},
	{"dateTimeStamp", []string{"2006-01-02T15:04:05Z07:00", "2006-01-02T15:04:05.000000000Z07:00"}, true,
		mk(xsdtype.MapDateTimeStamp, func(v xsdtype.DateTimeStamp) (time.Time, string) { return v.Time, v.Layout })},
	{"gDay", []string{"---02", "---02Z07:00"}, false,
		mk(xsdtype.MapGDay, func(v xsdtype.GDay) (time.Time, string) { return v.Time, v.Layout })},
	{"gMonth", []string{"--01", "--01Z07:00"}, false,
		mk(xsdtype.MapGMonth, func(v xsdtype.GMonth) (time.Time, string) { return v.Time, v.Layout })},
	{"gMonthDay", []string{"--01-02", "--01-02Z07:00"}, false,
		mk(xsdtype.MapGMonthDay, func(v xsdtype.GMonthDay) (time.Time, string) { return v.Time, v.Layout })},
	{"gYear", []string{"2006", "2006Z07:00"}, false,
		mk(xsdtype.MapGYear, func(v xsdtype.GYear) (time.Time, string) { return v.Time, v.Layout })},
	{"gYearMonth", []string{"2006-01", "2006-01Z07:00"}, false,
		mk(xsdtype.MapGYearMonth, func(v xsdtype.GYearMonth) (time.Time, string) { return v.Time, v.Layout })},
	{"time", []string{"15:04:05", "15:04:05.000000000", "15:04:05Z", "15:04:05.000000000Z", "15:04:05Z07:00", "15:04:05.000000000Z07:00"}, true,
		mk(xsdtype.MapTime, func(v xsdtype.Time) (time.Time, string) { return v.Time, v.Layout })},
}

func typeByName(n string) *ttype {
	for _, t := range types {
		if t.name == n {
			return t
		}
	}
	return nil
}

// ---------------------------------------------------------------- XSD lexical spaces (judge)

const (
	reYear = `-?([1-9][0-9]{3,}|0[0-9]{3})`
	reTZ   = `(Z|(\+|-)((0[0-9]|1[0-3]):[0-5][0-9]|14:00))`
	reTime = `(([01][0-9]|2[0-3]):[0-5][0-9]:[0-5][0-9](\.[0-9]+)?|(24:00:00(\.0+)?))`
	reMon  = `(0[1-9]|1[0-2])`
	reDay  = `(0[1-9]|[12][0-9]|3[01])`
)

func full(s string) *regexp.Regexp { return regexp.MustCompile(`^(?:` + s + `)$`) }

var specRE = map[string]*regexp.Regexp{
	"dateTime":      full(reYear + `-` + reMon + `-` + reDay + `T` + reTime + reTZ + `?`),
	"dateTimeStamp": full(reYear + `-` + reMon + `-` + reDay + `T` + reTime + reTZ),
	"time":          full(reTime + reTZ + `?`),
	"date":          full(reYear + `-` + reMon + `-` + reDay + reTZ + `?`),
	"gYearMonth":    full(reYear + `-` + reMon + reTZ + `?`),
	"gYear":         full(reYear + reTZ + `?`),
	"gMonthDay":     full(`--` + reMon + `-` + reDay + reTZ + `?`),
	"gDay":          full(`---` + reDay + reTZ + `?`),
	"gMonth":        full(`--` + reMon + reTZ + `?`),
}

var reDateHead = regexp.MustCompile(`^(-?)([0-9]+)-([0-9]{2})-([0-9]{2})`)
var reMonthDay = regexp.MustCompile(`^--([0-9]{2})-([0-9]{2})`)

func mod(digits string, k int) int { // decimal string mod k
	r := 0
	for _, c := range digits {
		r = (r*10 + int(c-'0')) % k
	}
	return r
}

func daysIn(year string, m int) int { // year "" = no year
	switch m {
	case 2:
		if year == "" || (mod(year, 4) == 0 && mod(year, 100) != 0) || mod(year, 400) == 0 {
			return 29
		}
		return 28
	case 4, 6, 9, 11:
		return 30
	}
	return 31
}

func specLexOK(t *ttype, s string) bool {
	if !specRE[t.name].MatchString(s) {
		return false
	}
	switch t.name {
	case "date", "dateTime", "dateTimeStamp":
		m := reDateHead.FindStringSubmatch(s)
		mo, _ := strconv.Atoi(m[3])
		d, _ := strconv.Atoi(m[4])
		return d <= daysIn(m[2], mo)
	case "gMonthDay":
		m := reMonthDay.FindStringSubmatch(s)
		mo, _ := strconv.Atoi(m[1])
		d, _ := strconv.Atoi(m[2])
		return d <= daysIn("", mo)
	}
	return true
}

func refCollapse(s string) string {
	f := strings.FieldsFunc(s, func(r rune) bool { return r == ' ' || r == '\t' || r == '\n' || r == '\r' })
	return strings.Join(f, " ")
}

// ---------------------------------------------------------------- deviation classes, from the text

var (
	reHour1T  = regexp.MustCompile(`^[0-9]:`)
	reHour1DT = regexp.MustCompile(`T[0-9]:`)
	reSigned  = regexp.MustCompile(`[.,][+-]`)
	reTZTail  = regexp.MustCompile(`[+-]([0-9]{2}):([0-9]{2})$`)
)

// notes of an ACCEPTED input a (collapsed), in the order of the model's flags:
// hour1 comma fsign tzWide fracDropped
func notesOf(t *ttype, a string, m mapped) string {
	b := func(x bool) string {
		if x {
			return "1"
		}
		return "0"
	}
	hour1 := t.clock && ((t.name == "time" && reHour1T.MatchString(a)) || (t.name != "time" && reHour1DT.MatchString(a)))
	comma := strings.Contains(a, ",")
	fsign := reSigned.MatchString(a)
	tzWide := false
	if x := reTZTail.FindStringSubmatch(a); x != nil {
		h, _ := strconv.Atoi(x[1])
		mi, _ := strconv.Atoi(x[2])
		tzWide = !((h <= 13 && mi <= 59) || (h == 14 && mi == 0))
	}
	dropped := m.t.Nanosecond() != 0 && !strings.Contains(m.layout, ".000")
	return b(hour1) + b(comma) + b(fsign) + b(tzWide) + b(dropped)
}

var classOfFlag = []string{"time-hour-one-digit", "time-fraction-comma", "time-fraction-signed", "time-tz-out-of-range", "time-fraction-dropped"}

// ---------------------------------------------------------------- harness

type item struct {
	line, goR, kind string
}

type harness struct {
	r     *vh.Rng
	rep   *vh.Report
	known map[string]vh.Finding
	items []item
	seen  map[string]struct{}
}

func (h *harness) add(kind, line, goR string) { h.items = append(h.items, item{line, goR, kind}) }

func fieldsOf(t time.Time) string {
	_, off := t.Zone()
	return fmt.Sprintf("%d %d %d %d %d %d %d %d", t.Year(), int(t.Month()), t.Day(), t.Hour(), t.Minute(), t.Second(), t.Nanosecond(), off)
}

func (h *harness) violation(t *ttype, s, aspect, detail, notes string, allowed []int) {
	op := "xsdt.map " + t.name + " " + vh.XS(s)
	for _, i := range allowed {
		if notes != "" && notes[i] == '1' {
			if f, ok := h.known[classOfFlag[i]]; ok {
				h.rep.Count("known:" + f.Key)
				if h.rep.Hist["known:"+f.Key] <= 2 {
					h.rep.Add(vh.Case{Kind: "known", Key: f.Key, Op: op, Detail: fmt.Sprintf("%s [%s, %s %q]", f.What, aspect, t.name, s)})
				}
				return
			}
		}
	}
	h.rep.Count("violation:" + aspect)
	h.rep.Add(vh.Case{Kind: "violation", Op: op, Detail: fmt.Sprintf("%s: %s — xsd:%s %q", aspect, detail, t.name, s)})
}

func lit(dt, lex string) rdf.Term { return rdf.Literal{Datatype: rdf.IRI(dt), LexicalForm: lex} }

// parseCase: time.Parse(layout, a) against the model
func (h *harness) parseCase(layout, a string) {
	g := "err"
	if tm, err := time.Parse(layout, a); err == nil {
		g = "ok " + fieldsOf(tm)
	}
	h.rep.Count("op:parse")
	h.add("parse", "xsdt.parse "+vh.XS(layout)+" "+vh.XS(a), g)
}

func (h *harness) one(t *ttype, s, origin string) {
	key := t.name + "\x00" + s
	if _, dup := h.seen[key]; dup {
		return
	}
	h.seen[key] = struct{}{}
	a := xsdutil.WhiteSpaceCollapse(s)
	m, err := t.m(s)
	h.rep.Eval("xsdt.map "+t.name+" "+vh.XS(s), err == nil || origin != "mutated")
	h.rep.Count("type:" + t.name)
	h.rep.Count("origin:" + origin)
	inSpec := specLexOK(t, refCollapse(s))
	if inSpec {
		h.rep.Count("spec:in-lexical-space")
	}
	goR := "err"
	if err == nil {
		h.rep.Count("go:accepted")
		notes := notesOf(t, a, m)
		goR = "ok " + vh.XS(m.layout) + " " + vh.XS(m.lex) + " " + notes
		for i, c := range notes {
			if c == '1' {
				h.rep.Count("note:" + classOfFlag[i])
			}
		}
		okLayout := false
		for _, l := range t.layouts {
			okLayout = okLayout || l == m.layout
		}
		if !okLayout {
			h.violation(t, s, "layout", "value carries a layout outside the expected list: "+m.layout, "", nil)
		}
		if m.dt != vh.XSD+t.name {
			h.violation(t, s, "datatype", "literal datatype is "+m.dt, "", nil)
		}
		// sound (partial): outside the four lexical deviation classes the input is in the lexical space
		if !inSpec {
			h.violation(t, s, "sound", fmt.Sprintf("accepted, not in the lexical space, no deviation note; literal %q", m.lex), notes, []int{0, 1, 2, 3})
		}
		// canonical: the literal is a lexical form, maps again to the same fields, prints the same
		m2, err2 := t.m(m.lex)
		switch {
		case !specLexOK(t, m.lex):
			h.violation(t, s, "outlex", fmt.Sprintf("lexical form %q not in the lexical space", m.lex), notes, []int{3})
		case err2 != nil:
			h.violation(t, s, "idempotent", fmt.Sprintf("re-mapping %q fails: %v", m.lex, err2), notes, []int{3})
		case fieldsOf(m2.t) != fieldsOf(m.t):
			h.violation(t, s, "idempotent", fmt.Sprintf("re-mapping %q gives %s, was %s", m.lex, fieldsOf(m2.t), fieldsOf(m.t)), notes, []int{2, 4})
		case m2.lex != m.lex:
			h.violation(t, s, "idempotent", fmt.Sprintf("not stable: %q then %q", m.lex, m2.lex), notes, []int{2, 4})
		}
		dt := vh.XSD + t.name
		for _, p := range [][2]string{{dt, m.lex}, {dt, a}, {dt, s}, {dt, m.lex + " "}, {vh.XSD + "string", m.lex}, {dt, string(h.r.Mutate([]byte(m.lex), []byte("0+-.: 1Z")))}} {
			got := m.teq(lit(p[0], p[1]))
			if got != (p[0] == dt && p[1] == m.lex) {
				h.violation(t, s, "termequals", fmt.Sprintf("TermEquals(%q^^<%s>) = %v, lexical form is %q", p[1], p[0], got, m.lex), "", nil)
			}
			h.add("teq", fmt.Sprintf("xsdt.teq %s %s L %s %s", t.name, vh.XS(s), vh.XS(p[0]), vh.XS(p[1])), fmt.Sprint(got))
		}
		if m.teq(rdf.IRI("http://example.com/")) {
			h.violation(t, s, "termequals", "TermEquals(IRI) = true", "", nil)
		}
		h.add("teq", fmt.Sprintf("xsdt.teq %s %s N", t.name, vh.XS(s)), "false")
	} else {
		h.rep.Count("go:rejected")
		h.add("teq", fmt.Sprintf("xsdt.teq %s %s N", t.name, vh.XS(s)), "err")
	}
	h.add("map", "xsdt.map "+t.name+" "+vh.XS(s), goR)
	for _, l := range t.layouts {
		h.parseCase(l, a)
	}
}

// ---------------------------------------------------------------- generators

func pick[T any](r *vh.Rng, xs ...T) T { return xs[r.Intn(len(xs))] }

func digitsN(r *vh.Rng, n int) string {
	b := make([]byte, n)
	for i := range b {
		b[i] = byte('0' + r.Intn(10))
	}
	if r.Chance(20) {
		for i := range b {
			b[i] = '0'
		}
	}
	return string(b)
}

type shape struct{ year, month, day, clock bool }

var shapes = map[string]shape{
	"dateTime": {true, true, true, true}, "dateTimeStamp": {true, true, true, true}, "date": {true, true, true, false},
	"time": {false, false, false, true}, "gYearMonth": {true, true, false, false}, "gYear": {true, false, false, false},
	"gMonthDay": {false, true, true, false}, "gDay": {false, false, true, false}, "gMonth": {false, true, false, false},
}

func genTime(r *vh.Rng, t *ttype) string {
	sh := shapes[t.name]
	var sb strings.Builder
	if sh.year {
		y := pick(r, "2000", "1999", "2024", "2023", "0001", "0000", "0004", "0100", "0400", "9999", "1900", "2100", "1970")
		switch r.Intn(12) {
		case 0:
			y = pick(r, "10000", "12345", "-0001", "-2000", "-10000", "99999", "+2000", "+200")
		case 1:
			y = pick(r, "200", "02000", "20000x", "２０００", "٢٠٠٠", "2OOO", "２000")
		case 2, 3:
			y = fmt.Sprintf("%04d", r.Intn(10000))
		}
		sb.WriteString(y)
	}
	month := 1 + r.Intn(12)
	if r.Chance(25) {
		month = 2
	}
	if sh.month {
		if sh.year {
			sb.WriteString("-")
		} else {
			sb.WriteString("--")
		}
		if r.Chance(6) {
			month = pick(r, 0, 13, 19, 99)
		}
		if r.Chance(3) {
			sb.WriteString(strconv.Itoa(month))
		} else {
			fmt.Fprintf(&sb, "%02d", month)
		}
	}
	if sh.day {
		if sh.month {
			sb.WriteString("-")
		} else {
			sb.WriteString("---")
		}
		day := 1 + r.Intn(28)
		switch r.Intn(6) {
		case 0, 1:
			day = pick(r, 28, 29, 30, 31)
		case 2:
			day = pick(r, 0, 32, 99)
		}
		if r.Chance(3) {
			sb.WriteString(strconv.Itoa(day))
		} else {
			fmt.Fprintf(&sb, "%02d", day)
		}
	}
	if sh.clock {
		if sh.year {
			sb.WriteString(pick(r, "T", "T", "T", "T", "T", "T", "T", "T", "T", "t", " ", ""))
		}
		hh, mm, ss := r.Intn(24), r.Intn(60), r.Intn(60)
		switch r.Intn(14) {
		case 0:
			hh, mm, ss = 24, 0, 0
		case 1:
			hh = pick(r, 24, 25, 99)
		case 2:
			mm = pick(r, 60, 99)
		case 3:
			ss = pick(r, 60, 61, 99)
		}
		if r.Chance(8) && hh < 10 {
			fmt.Fprintf(&sb, "%d:%02d:%02d", hh, mm, ss)
		} else {
			fmt.Fprintf(&sb, "%02d:%02d:%02d", hh, mm, ss)
		}
		switch r.Intn(10) {
		case 0, 1, 2:
			sb.WriteString("." + digitsN(r, 1+r.Intn(12)))
		case 3:
			sb.WriteString(pick(r, ".", ",", ",5", ",000", ".+12345678", ".-00000000", ",-00000000", ".-12345678", ",+00000001", ".+1234567", ".+123456789", ".5.5", ".000000000", ".123456789", ".1234567891", ".0000000001", ".0", ".50", ".٥", ".５"))
		}
	}
	switch k := r.Intn(10); {
	case k < 3:
	case k < 5:
		sb.WriteString("Z")
	case k < 8:
		fmt.Fprintf(&sb, "%s%02d:%02d", pick(r, "+", "-"), r.Intn(15), pick(r, 0, 0, 30, 45, 59))
	default:
		sb.WriteString(pick(r, "+14:00", "-14:00", "+00:00", "-00:00", "+14:01", "-14:30", "+15:00", "+24:00", "+24:60", "-24:60", "-24:00", "+25:00", "+24:61", "+13:60", "+00:60", "z", "+1:00", "+0100", "+01", "+01:0", "UTC", "+01:00:00", "*01:00", "+01.00", "+０1:00", "ZZ", "Z+01:00"))
	}
	return sb.String()
}

func wrapWs(r *vh.Rng, s string) string {
	ws := func() string { return pick(r, " ", "\t", "\n", "\r", "  ", " \t\r\n", " ", " ", "\x0b") }
	switch r.Intn(12) {
	case 0:
		return ws() + s
	case 1:
		return s + ws()
	case 2:
		return ws() + s + ws()
	case 3:
		if len(s) > 0 {
			p := r.Intn(len(s))
			return s[:p] + ws() + s[p:]
		}
	}
	return s
}

var hot = []byte("-:.,+TZz 0123456789\t")

func (h *harness) generate(n int) {
	for i := 0; i < n; i++ {
		t := types[i%len(types)]
		s := genTime(h.r, t)
		origin := "grammar"
		if h.r.Chance(30) {
			s = string(h.r.Mutate([]byte(s), hot))
			origin = "mutated"
		}
		s = wrapWs(h.r, s)
		h.one(t, s, origin)
		// a string made for one type is a boundary case for its neighbours
		if h.r.Chance(10) {
			h.one(pick(h.r, types...), s, "mutated")
		}
		if i%8 == 0 {
			h.layoutCase()
		}
		if i%4 == 0 {
			h.fmtCase()
		}
		if len(h.items) > 200000 {
			h.flush()
		}
	}
}

// layoutCase: a random layout of the modelled elements against a string written for it (and mutated)
func (h *harness) layoutCase() {
	r := h.r
	elems := []string{"2006", "01", "02", "15", "04", "05", ".000", ".000000000", ",000000", ".0", "Z07:00", "Z", "T", "-", ":", "--", ".", ","}
	n := 1 + r.Intn(7)
	var lay, val strings.Builder
	for i := 0; i < n; i++ {
		e := pick(r, elems...)
		lay.WriteString(e)
		switch e {
		case "2006":
			val.WriteString(pick(r, "2000", "0000", "9999", "1999", "200", "20000", "-200"))
		case "01":
			val.WriteString(pick(r, "01", "12", "13", "00", "2", "07"))
		case "02":
			val.WriteString(pick(r, "01", "28", "29", "30", "31", "32", "00", "5"))
		case "15":
			val.WriteString(pick(r, "00", "23", "24", "7", "12", "1"))
		case "04":
			val.WriteString(pick(r, "00", "59", "60", "5", "30"))
		case "05":
			val.WriteString(pick(r, "00", "59", "60", "5", "30", "30.5", "30,25", "30.123456789123", "30."))
		case ".000", ".000000000", ",000000", ".0":
			val.WriteString(pick(r, ".", ",", "") + digitsN(r, pick(r, len(e)-1, len(e)-1, len(e)-1, len(e), len(e)-2)))
		case "Z07:00":
			val.WriteString(pick(r, "Z", "+01:00", "-14:00", "+24:60", "+25:00", "-00:00", "+0100", "z", ""))
		default:
			val.WriteString(e)
		}
	}
	v := val.String()
	if r.Chance(25) {
		v = string(r.Mutate([]byte(v), hot))
	}
	h.rep.Eval("xsdt.parse "+vh.XS(lay.String())+" "+vh.XS(v), true)
	h.rep.Count("op:layout-random")
	h.parseCase(lay.String(), v)
}

// fmtCase: Time.Format of arbitrary fields
func (h *harness) fmtCase() {
	r := h.r
	var t *ttype = pick(r, types...)
	layout := pick(r, t.layouts...)
	if r.Chance(15) {
		layout = pick(r, "2006-01-02T15:04:05.000Z07:00", "15:04:05,000000", "02.01.2006", "2006-01-02T15:04:05.0")
	}
	y, mo, hh, mi, ss := r.Intn(10000), 1+r.Intn(12), r.Intn(24), r.Intn(60), r.Intn(60)
	d := 1 + r.Intn(28)
	ns := pick(r, 0, 0, 1, 999999999, 500000000, r.Intn(1000000000))
	off := pick(r, 0, 0, 3600, -3600, 5400, 50400, -50400, 90000, -90000, 86400, 30, -30, 59, 61, -61, r.Intn(200000)-100000)
	tm := time.Date(y, time.Month(mo), d, hh, mi, ss, ns, time.FixedZone("", off))
	h.rep.Eval(fmt.Sprintf("xsdt.fmt %s %s", vh.XS(layout), fieldsOf(tm)), true)
	h.rep.Count("op:fmt")
	h.add("fmt", "xsdt.fmt "+vh.XS(layout)+" "+fieldsOf(tm), vh.XS(tm.Format(layout)))
}

// exhaustive: small complete grids
func (h *harness) exhaustive() {
	// every month/day pair 00..39 for gMonthDay and for date in years with each leap rule
	for mo := 0; mo <= 13; mo++ {
		for d := 0; d <= 32; d++ {
			h.one(typeByName("gMonthDay"), fmt.Sprintf("--%02d-%02d", mo, d), "exhaustive")
			for _, y := range []string{"0000", "0004", "0100", "0400", "1900", "2000", "2023", "2024", "2100", "9999"} {
				h.one(typeByName("date"), fmt.Sprintf("%s-%02d-%02d", y, mo, d), "exhaustive")
			}
		}
		h.one(typeByName("gMonth"), fmt.Sprintf("--%02d", mo), "exhaustive")
	}
	for d := 0; d <= 39; d++ {
		h.one(typeByName("gDay"), fmt.Sprintf("---%02d", d), "exhaustive")
	}
	// every zone offset hh:mm with hh 00..26, mm 00..61, both signs
	for hh := 0; hh <= 26; hh++ {
		for mm := 0; mm <= 61; mm++ {
			for _, sg := range []string{"+", "-"} {
				h.one(typeByName("gYear"), fmt.Sprintf("2000%s%02d:%02d", sg, hh, mm), "exhaustive")
			}
		}
	}
	// clock: every hour 0..25 in one- and two-digit spelling x minute/second boundaries
	for hh := 0; hh <= 25; hh++ {
		for _, mm := range []int{0, 59, 60} {
			for _, ss := range []int{0, 59, 60} {
				h.one(typeByName("time"), fmt.Sprintf("%02d:%02d:%02d", hh, mm, ss), "exhaustive")
				h.one(typeByName("time"), fmt.Sprintf("%d:%02d:%02d", hh, mm, ss), "exhaustive")
			}
		}
	}
	// fraction lengths 0..12 with each separator / sign
	for n := 0; n <= 12; n++ {
		for _, sep := range []string{".", ",", ".+", ".-", ",+", ",-"} {
			for _, dg := range []string{strings.Repeat("0", n), strings.Repeat("9", n), strings.Repeat("0", max(n-1, 0)) + "1"[:min(n, 1)]} {
				for _, tz := range []string{"", "Z", "+01:00"} {
					h.one(typeByName("time"), "12:34:56"+sep+dg+tz, "exhaustive")
					h.one(typeByName("dateTime"), "2000-02-29T12:34:56"+sep+dg+tz, "exhaustive")
					h.one(typeByName("dateTimeStamp"), "2000-02-29T12:34:56"+sep+dg+tz, "exhaustive")
				}
			}
		}
	}
	h.rep.Exhaustive = append(h.rep.Exhaustive,
		"gMonthDay --MM-DD and date YYYY-MM-DD for MM 00..13, DD 00..32, years 0000 0004 0100 0400 1900 2000 2023 2024 2100 9999",
		"gMonth --MM for MM 00..13; gDay ---DD for DD 00..39",
		"zone offsets +-hh:mm for hh 00..26, mm 00..61 (on gYear)",
		"time h:mm:ss and hh:mm:ss for hh 0..25, mm,ss in {00,59,60}",
		"fraction of 0..12 digits (all 0, all 9, 0..01) after . , .+ .- ,+ ,- with zone none/Z/+01:00 on time, dateTime, dateTimeStamp")
}

func (h *harness) flush() {
	if *nomodel || len(h.items) == 0 {
		h.items = h.items[:0]
		return
	}
	lines := make([]string, len(h.items))
	for i, it := range h.items {
		lines[i] = it.line
	}
	res, err := vh.Driver{Path: *driver}.RunParallel(lines)
	if err != nil {
		fmt.Fprintln(os.Stderr, err)
		os.Exit(2)
	}
	for i, it := range h.items {
		h.rep.Compared++
		if res[i] == it.goR {
			continue
		}
		if res[i] == "unmodelled" && it.kind == "parse" {
			h.rep.Count("model:layout-unmodelled")
			continue
		}
		h.rep.Count("disagreement:" + it.kind)
		h.rep.Add(vh.Case{Kind: "disagreement", Op: it.line, Go: it.goR, Model: res[i], Detail: "model ≠ implementation (" + it.kind + ")"})
	}
	h.items = h.items[:0]
}

var reReplayOp = regexp.MustCompile(`xsdt\.(?:map|teq) [A-Za-z]+ x[0-9a-f]*|xsdt\.parse x[0-9a-f]* x[0-9a-f]*`)

func (h *harness) replayLine(l string) {
	f := strings.Fields(l)
	if len(f) < 3 {
		return
	}
	if f[0] == "xsdt.parse" {
		lay, e1 := vh.UnX(f[1])
		v, e2 := vh.UnX(f[2])
		if e1 == nil && e2 == nil {
			h.rep.Eval(l, true)
			h.parseCase(string(lay), string(v))
		}
		return
	}
	t := typeByName(f[1])
	b, err := vh.UnX(f[2])
	if t != nil && err == nil {
		h.one(t, string(b), "replay")
	}
}

func main() {
	flag.Parse()
	seed := vh.SeedFromEnv()
	rep := vh.NewReport("C20", *tier, seed, "per date/time datatype (9): strings from the XSD lexical grammar with boundary values (year 0000/negative/5 digits, month 0/13, day vs month length across the leap rules, hour 24, minute/second 60, fractions of 1..12 digits, zone offsets around 14:00 and 24:60, lower-case z, leading +, non-ASCII digits), byte-level mutations, XML and non-XML white space around/inside; random layouts of the modelled elements; Time.Format of random fields; small exhaustive grids. non-trivial = grammar/exhaustive string, any accepted string, every layout/format case")
	fs, err := vh.LoadFindings(*findings)
	if err != nil {
		fmt.Fprintln(os.Stderr, "findings:", err)
		os.Exit(2)
	}
	h := &harness{r: vh.NewRng(seed), rep: rep, known: vh.KnownKeys(fs, "C20"), seen: map[string]struct{}{}}
	if *replay != "" {
		b, err := os.ReadFile(*replay)
		if err != nil {
			fmt.Fprintln(os.Stderr, err)
			os.Exit(2)
		}
		for _, l := range reReplayOp.FindAllString(string(b), -1) {
			h.replayLine(l)
		}
	} else {
		if *hints != "" {
			if b, err := os.ReadFile(*hints); err == nil {
				for _, l := range strings.Split(string(b), "\n") {
					h.replayLine(l)
				}
			}
		}
		h.exhaustive()
		n := 20000 * *scale
		if *tier == "thorough" {
			n = 1500000 * *scale
		}
		h.generate(n)
	}
	h.flush()
	if err := rep.Write(*out); err != nil {
		fmt.Fprintln(os.Stderr, err)
		os.Exit(2)
	}
	fmt.Printf("c20t: %d evaluations, %d compared with the model, %d failures, %d known\n", rep.Evaluations, rep.Compared, rep.Failures(), len(rep.Cases)-rep.Failures())
	if rep.Failures() > 0 {
		os.Exit(1)
	}
}
