/-
  Proofs for part C10C: no outcome of the context machinery model is `panic` (given parsed-IRI
  operations that do not panic), for every fuel.
-/
import RdfModel.Model.JsonLdContext
namespace RdfModel.JLC
open RdfModel RdfModel.JL

variable {P : Type}

def Res.NoPanic {α : Type} : Res P α → Prop
  | .panic => False
  | _ => True

def Out.NoPanic {α : Type} : Out α → Prop
  | .panic => False
  | _ => True

/-- the parsed-IRI operations never panic -/
structure OpsTotal (ops : IriOps P) : Prop where
  parse : ∀ s, ops.parse s ≠ .panic
  resolve : ∀ b r, ops.resolve b r ≠ none
  goAbs : ∀ s, ops.goAbs s ≠ .panic

@[simp] theorem Res.noPanic_ok {α : Type} (a : α) (s : St P) : (Res.ok a s).NoPanic := trivial
@[simp] theorem Res.noPanic_err {α : Type} (e : Err) (s : St P) : (Res.err e s : Res P α).NoPanic := trivial
@[simp] theorem Res.noPanic_unmodelled {α : Type} : (Res.unmodelled : Res P α).NoPanic := trivial
@[simp] theorem Res.noPanic_fuel {α : Type} : (Res.fuel : Res P α).NoPanic := trivial
@[simp] theorem Res.noPanic_panic {α : Type} : (Res.panic : Res P α).NoPanic ↔ False := Iff.rfl
@[simp] theorem Out.noPanic_ok {α : Type} (a : α) : (Out.ok a).NoPanic := trivial
@[simp] theorem Out.noPanic_err {α : Type} (e : Err) : (Out.err e : Out α).NoPanic := trivial
@[simp] theorem Out.noPanic_unmodelled {α : Type} : (Out.unmodelled : Out α).NoPanic := trivial
@[simp] theorem Out.noPanic_fuel {α : Type} : (Out.fuel : Out α).NoPanic := trivial
@[simp] theorem Out.noPanic_panic {α : Type} : (Out.panic : Out α).NoPanic ↔ False := Iff.rfl

theorem Res.bind_noPanic {α β : Type} {r : Res P α} {f : α → St P → Res P β}
    (hr : r.NoPanic) (hf : ∀ a s, (f a s).NoPanic) : (r.bind f).NoPanic := by
  cases r <;> simp_all [Res.bind]

theorem Out.bind_noPanic {α β : Type} {r : Out α} {f : α → Out β}
    (hr : r.NoPanic) (hf : ∀ a, (f a).NoPanic) : (r.bind f).NoPanic := by
  cases r <;> simp_all [Out.bind]

theorem Res.ofExcept_noPanic {α : Type} (s : St P) (e : Except Err α) : (Res.ofExcept s e).NoPanic := by
  cases e <;> simp [Res.ofExcept]

theorem expandTail_noPanic {ops : IriOps P} (ht : OpsTotal ops) (c : Core P) (st : St P) (s : Str) (d v : Bool) :
    (expandTail ops c st s d v).NoPanic := by
  unfold expandTail
  repeat' split
  all_goals (first | (simp; done) | skip)
  · rename_i b _ r _ h
    exact ht.resolve _ _ h
  · rename_i h
    exact ht.parse s h

theorem getKey_of_hasKey (k : Str) : ∀ (ms : List (Str × Json)), hasKey k ms = true → getKey k ms ≠ none
  | [], h => by simp [hasKey] at h
  | (k', v) :: ms, h => by
    unfold getKey
    split
    · simp
    · rename_i hne
      apply getKey_of_hasKey k ms
      simp [hasKey] at h ⊢
      rcases h with h | h
      · exact absurd h hne
      · exact h

theorem suppressCyclic_noPanic (keep : St P → Bool) (r : Res P Unit) (h : r.NoPanic) :
    (suppressCyclic keep r).NoPanic := by
  unfold suppressCyclic
  split
  · split <;> simp
  · exact h

theorem iriExpandRest_noPanic {ops : IriOps P} (ht : OpsTotal ops) (ctdCb : St P → Str → Res P Unit)
    (loc : Option (List (Str × Json)))
    (hc : ∀ st t ms, loc = some ms → hasKey t ms = true → (ctdCb st t).NoPanic)
    (st : St P) (s : Str) (d v : Bool) : (iriExpandRest ops ctdCb loc st s d v).NoPanic := by
  unfold iriExpandRest
  repeat' (first | apply Res.bind_noPanic | apply suppressCyclic_noPanic | intro _ _ | split | dsimp only)
  all_goals (first | (simp; done) | (exact expandTail_noPanic ht _ _ _ _ _) | skip)
  all_goals (apply hc _ _ _ rfl; simp_all)

theorem iriExpandBody_noPanic {ops : IriOps P} (ht : OpsTotal ops) (ctdCb : St P → Str → Res P Unit)
    (loc : Option (List (Str × Json)))
    (hc : ∀ st t ms, loc = some ms → hasKey t ms = true → (ctdCb st t).NoPanic)
    (st : St P) (s : Str) (d v : Bool) : (iriExpandBody ops ctdCb loc st s d v).NoPanic := by
  unfold iriExpandBody
  repeat' (first | apply Res.bind_noPanic | apply suppressCyclic_noPanic | intro _ _ | split | dsimp only)
  all_goals (first | (simp; done) | (exact iriExpandRest_noPanic ht ctdCb _ hc _ _ _ _) | skip)
  all_goals (apply hc _ _ _ rfl; simp_all)

macro "np_split" : tactic =>
  `(tactic| repeat' (first | apply Res.bind_noPanic | intro _ _ | split | dsimp only))

theorem typeStep_noPanic (mode : Mode) (expand : St P → Str → Bool → Res P SIri)
    (he : ∀ st s v, (expand st s v).NoPanic) (vo : List (Str × Json)) (st : St P) :
    (typeStep mode expand vo st).NoPanic := by
  unfold typeStep
  np_split
  all_goals (first | (simp; done) | exact he _ _ _)

theorem indexExpand_noPanic (mode : Mode) (expand : St P → Str → Bool → Res P SIri)
    (he : ∀ st s v, (expand st s v).NoPanic) (v : Json) (st : St P) :
    (indexExpand mode expand v st).NoPanic := by
  unfold indexExpand
  np_split
  all_goals (first | (simp; done) | exact he _ _ _)

theorem reverseStep_noPanic (mode : Mode) (expand : St P → Str → Bool → Res P SIri)
    (he : ∀ st s v, (expand st s v).NoPanic) (term : Str) (vo : List (Str × Json)) (rv : Json) (prot : Bool)
    (tm : Option SIri × Option Str) (st : St P) :
    (reverseStep mode expand term vo rv prot tm st).NoPanic := by
  unfold reverseStep
  np_split
  all_goals (first | (simp; done) | exact he _ _ _ | exact indexExpand_noPanic mode expand he _ _)

theorem iriStep_noPanic (mode : Mode) (expand : St P → Str → Bool → Res P SIri) (ctdCb : St P → Str → Res P Unit)
    (he : ∀ st s v, (expand st s v).NoPanic) (loc : List (Str × Json))
    (hc : ∀ st t, hasKey t loc = true → (ctdCb st t).NoPanic)
    (term : Str) (vo : List (Str × Json)) (simple : Bool) (tm : Option SIri) (st : St P) :
    (iriStep mode expand ctdCb loc term vo simple tm st).NoPanic := by
  unfold iriStep
  np_split
  all_goals (first | (simp; done) | exact he _ _ _ | (apply hc; assumption))

theorem ctdBody_noPanic (mode : Mode) (expand : St P → Str → Bool → Res P SIri) (ctdCb : St P → Str → Res P Unit)
    (nested : Context P → Json → Out (Context P))
    (he : ∀ st s v, (expand st s v).NoPanic) (loc : List (Str × Json))
    (hc : ∀ st t, hasKey t loc = true → (ctdCb st t).NoPanic)
    (hn : ∀ c j, (nested c j).NoPanic)
    (st : St P) (term : Str) (baseStr : Option Str) (prot ov : Bool) (hk : getKey term loc ≠ none) :
    (ctdBody mode expand ctdCb nested loc st term baseStr prot ov).NoPanic := by
  unfold ctdBody
  np_split
  all_goals (try (simp; done))
  all_goals (try exact he _ _ _)
  all_goals (try exact typeStep_noPanic mode expand he _ _)
  all_goals (try exact reverseStep_noPanic mode expand he _ _ _ _ _ _)
  all_goals (try exact iriStep_noPanic mode expand ctdCb he loc hc _ _ _ _ _)
  all_goals (try exact indexExpand_noPanic mode expand he _ _)
  all_goals (try (exfalso; exact hk (by assumption)))
  all_goals (try (rename_i heq; exact (heq ▸ hn _ _ : (Out.panic : Out (Context P)).NoPanic)))

theorem foldl_keys_noPanic (f : St P → Str → Res P Unit) :
    ∀ (keys : List Str) (acc : Res P Unit), acc.NoPanic → (∀ st k, k ∈ keys → (f st k).NoPanic) →
      (keys.foldl (fun acc key => acc.bind fun _ st => f st key) acc).NoPanic
  | [], acc, ha, _ => ha
  | k :: ks, acc, ha, hf => by
    simp only [List.foldl_cons]
    apply foldl_keys_noPanic f ks
    · exact Res.bind_noPanic ha (fun _ st => hf st k (by simp))
    · intro st k' hk'
      exact hf st k' (by simp [hk'])

theorem hasKey_of_mem_keys (k : Str) (ms : List (Str × Json)) (h : k ∈ ms.map (·.1)) : hasKey k ms = true := by
  simp only [hasKey, List.any_eq_true]
  simp only [List.mem_map] at h
  obtain ⟨m, hm, rfl⟩ := h
  exact ⟨m, hm, by simp⟩

macro "op_split" : tactic =>
  `(tactic| repeat' (first | apply Out.bind_noPanic | intro _ | split | dsimp only))

theorem baseStep_noPanic {ops : IriOps P} (ht : OpsTotal ops) (result : Context P) (ms : List (Str × Json)) :
    (baseStep ops result ms).NoPanic := by
  unfold baseStep
  op_split
  all_goals (try (simp; done))
  all_goals (try (rename_i heq; exact absurd heq (ht.parse _)))
  all_goals (try (rename_i heq; exact absurd heq (ht.resolve _ _)))

theorem vocabPre_noPanic {ops : IriOps P} (ht : OpsTotal ops) (mode : Mode) (s : Str) : (vocabPre ops mode s).NoPanic := by
  unfold vocabPre
  op_split
  all_goals (try (simp; done))
  all_goals (try (rename_i heq; exact absurd heq (ht.goAbs _)))

theorem vocabStep_noPanic {ops : IriOps P} (ht : OpsTotal ops) (mode : Mode) (expandNoLocal : St P → Str → Res P SIri)
    (he : ∀ st s, (expandNoLocal st s).NoPanic) (result : Context P) (ms : List (Str × Json)) :
    (vocabStep ops mode expandNoLocal result ms).NoPanic := by
  unfold vocabStep
  op_split
  all_goals (try (simp; done))
  all_goals (try exact vocabPre_noPanic ht _ _)
  all_goals (try (rename_i heq; exact (heq ▸ he _ _ : (Res.panic : Res P SIri).NoPanic)))

theorem termsStep_noPanic (ctdCb : St P → Str → Bool → Res P Unit) (ms : List (Str × Json))
    (hc : ∀ st t b, hasKey t ms = true → (ctdCb st t b).NoPanic) (result : Context P) :
    (termsStep ctdCb result ms).NoPanic := by
  unfold termsStep
  dsimp only
  have h := fun (cp : Bool) => foldl_keys_noPanic (fun st key => ctdCb st key cp) (termKeys ms)
    (Res.ok () { ctx := result, defined := [] }) trivial
    (fun st k (hk : k ∈ termKeys ms) => hc st k cp (hasKey_of_mem_keys k ms (by
      simp only [termKeys, List.mem_filter] at hk; exact hk.1)))
  split
  all_goals (try (simp; done))
  rename_i heq
  exact (heq ▸ h _ : (Res.panic : Res P Unit).NoPanic)

theorem processObj_noPanic {ops : IriOps P} (ht : OpsTotal ops) (mode : Mode)
    (expandNoLocal : St P → Str → Res P SIri) (ctdCb : St P → Str → Bool → Res P Unit)
    (he : ∀ st s, (expandNoLocal st s).NoPanic) (ms : List (Str × Json))
    (hc : ∀ st t b, hasKey t ms = true → (ctdCb st t b).NoPanic) (result : Context P) :
    (processObj ops mode expandNoLocal ctdCb result ms).NoPanic := by
  unfold processObj
  repeat' (first | apply Out.bind_noPanic | intro _)
  · unfold versionStep; op_split; all_goals simp
  · unfold importStep; op_split; all_goals simp
  · exact baseStep_noPanic ht _ _
  · exact vocabStep_noPanic ht mode _ he _ _
  · unfold langStep; op_split; all_goals simp
  · unfold dirStep; op_split; all_goals simp
  · unfold propagateStep; op_split; all_goals simp
  · exact termsStep_noPanic _ _ hc _

theorem processItem_noPanic {ops : IriOps P} (ht : OpsTotal ops) (mode : Mode)
    (expandNoLocal : St P → Str → Res P SIri) (ctdCb : List (Str × Json) → St P → Str → Bool → Res P Unit)
    (he : ∀ st s, (expandNoLocal st s).NoPanic)
    (hc : ∀ ms st t b, hasKey t ms = true → (ctdCb ms st t b).NoPanic)
    (active : Context P) (ov pr : Bool) (result : Context P) (item : Json) :
    (processItem ops mode expandNoLocal ctdCb active ov pr result item).NoPanic := by
  unfold processItem
  split
  · split <;> simp
  · simp
  · exact processObj_noPanic ht mode _ _ he _ (hc _) _
  · simp

theorem foldl_items_noPanic (f : Context P → Json → Out (Context P)) (hf : ∀ c j, (f c j).NoPanic) :
    ∀ (items : List Json) (acc : Out (Context P)), acc.NoPanic →
      (items.foldl (fun acc item => acc.bind fun result => f result item) acc).NoPanic
  | [], acc, ha => ha
  | x :: xs, acc, ha => by
    simp only [List.foldl_cons]
    exact foldl_items_noPanic f hf xs _ (Out.bind_noPanic ha (fun c => hf c x))

theorem processBody_noPanic {ops : IriOps P} (ht : OpsTotal ops) (mode : Mode)
    (expandNoLocal : St P → Str → Res P SIri) (ctdCb : List (Str × Json) → St P → Str → Bool → Res P Unit)
    (he : ∀ st s, (expandNoLocal st s).NoPanic)
    (hc : ∀ ms st t b, hasKey t ms = true → (ctdCb ms st t b).NoPanic)
    (active : Context P) (loc : Json) (ov pr : Bool) :
    (processBody ops mode expandNoLocal ctdCb active loc ov pr).NoPanic := by
  unfold processBody
  dsimp only
  repeat' split
  all_goals (try (simp; done))
  all_goals exact foldl_items_noPanic _ (fun c j => processItem_noPanic ht mode _ _ he hc _ _ _ c j) _ _ (by simp)

/-- no algorithm of the context machinery panics, for any fuel -/
theorem all_noPanic {ops : IriOps P} (ht : OpsTotal ops) (mode : Mode) : ∀ (fuel : Nat),
    (∀ loc st s d v, (iriExpandStr ops mode fuel loc st s d v).NoPanic) ∧
    (∀ loc st term b p o, hasKey term loc = true → (ctd ops mode fuel loc st term b p o).NoPanic) ∧
    (∀ active loc b o p, (processCtx ops mode fuel active loc b o p).NoPanic)
  | 0 => by
    refine ⟨?_, ?_, ?_⟩ <;> intros <;> simp [iriExpandStr, ctd, processCtx]
  | fuel + 1 => by
    obtain ⟨h1, h2, h3⟩ := all_noPanic ht mode fuel
    refine ⟨?_, ?_, ?_⟩
    · intro loc st s d v
      simp only [iriExpandStr]
      apply iriExpandBody_noPanic ht
      intro st t ms hl hk
      subst hl
      exact h2 _ _ _ _ _ _ hk
    · intro loc st term b p o hk
      simp only [ctd]
      exact ctdBody_noPanic mode _ _ _ (fun st s v => h1 _ _ _ _ _) loc (fun st t hk => h2 _ _ _ _ _ _ hk)
        (fun c j => h3 _ _ _ _ _) st term b p o (getKey_of_hasKey _ _ hk)
    · intro active loc b o p
      simp only [processCtx]
      exact processBody_noPanic ht mode _ _ (fun st s => h1 _ _ _ _ _) (fun ms st t b hk => h2 _ _ _ _ _ _ hk) _ _ _ _

end RdfModel.JLC
