/-
  RdfModel.Proofs.IriUnifyUtf8 — the acceptance model of `net/url.Parse` (Model/GoUrl.lean) gives the same answer
  on a list of runes and on its UTF-8 bytes: every function of the model only looks at ASCII elements and treats
  all elements ≥ 0x80 alike.
-/
import RdfModel.Proofs.IriUnifyAccept
namespace RdfModel.Proofs.IriUnify
open RdfModel RdfModel.GoUrlFull

/-- `Exp rs bs`: `bs` is `rs` with every element ≥ 0x80 replaced by a non-empty block of elements ≥ 0x80 -/
inductive Exp : List Nat → List Nat → Prop
  | nil : Exp [] []
  | low (c : Nat) {rs bs : List Nat} (h : c < 0x80) : Exp rs bs → Exp (c :: rs) (c :: bs)
  | high (c : Nat) (blk : List Nat) {rs bs : List Nat} (hc : 0x80 ≤ c) (hne : blk ≠ [])
      (hb : ∀ x ∈ blk, 0x80 ≤ x) : Exp rs bs → Exp (c :: rs) (blk ++ bs)

theorem Exp.refl (s : List Nat) : Exp s s := by
  induction s with
  | nil => exact .nil
  | cons c s ih =>
    by_cases h : c < 0x80
    · exact .low c h ih
    · exact .high c [c] (by omega) (by simp) (by simp; omega) ih

theorem Exp.append {a a' b b' : List Nat} (h1 : Exp a a') (h2 : Exp b b') : Exp (a ++ b) (a' ++ b') := by
  induction h1 with
  | nil => exact h2
  | low c h _ ih => exact .low c h ih
  | high c blk hc hne hb _ ih => rw [List.append_assoc]; exact .high c blk hc hne hb ih

theorem utf8EncodeRune_low (r : Nat) (h : r < 0x80) : utf8EncodeRune r = [r] := by
  have : isScalarB r = true := by simp [isScalarB]; omega
  simp [utf8EncodeRune, runeToStringRune, this, h]

theorem utf8EncodeRune_high (r : Nat) (h : 0x80 ≤ r) :
    utf8EncodeRune r ≠ [] ∧ ∀ x ∈ utf8EncodeRune r, 0x80 ≤ x := by
  have h2 : 0x80 ≤ runeToStringRune r := by
    unfold runeToStringRune; split <;> omega
  unfold utf8EncodeRune
  generalize runeToStringRune r = q at h2
  simp only
  split
  · omega
  · split
    · simp; omega
    · split
      · simp; omega
      · simp; omega

theorem Exp_utf8 (rs : List Nat) : Exp rs (utf8Encode rs) := by
  induction rs with
  | nil => exact .nil
  | cons c rs ih =>
    unfold utf8Encode at ih ⊢
    rw [List.flatMap_cons]
    by_cases h : c < 0x80
    · rw [utf8EncodeRune_low c h]; exact .low c h ih
    · have := utf8EncodeRune_high c (by omega)
      exact .high c _ (by omega) this.1 this.2 ih

/-- inversion at an ASCII head -/
theorem Exp.cons_low {a : Nat} {rs bs' : List Nat} (ha : a < 0x80) (h : Exp (a :: rs) bs') :
    ∃ bs, bs' = a :: bs ∧ Exp rs bs := by
  cases h with
  | low _ _ h' => exact ⟨_, rfl, h'⟩
  | high _ blk hc _ _ _ => omega

theorem Exp.nil_left {bs : List Nat} (h : Exp [] bs) : bs = [] := by
  cases h; rfl

theorem Exp.nil_right' {rs bs : List Nat} (h : Exp rs bs) (hb : bs = []) : rs = [] := by
  cases h with
  | nil => rfl
  | low c _ _ => cases hb
  | high c blk hc hne _ _ => simp at hb; exact absurd hb.1 hne

theorem Exp.nil_right {rs : List Nat} (h : Exp rs []) : rs = [] := h.nil_right' rfl

theorem Exp.eq_of_low {rs bs : List Nat} (h : Exp rs bs) (hl : ∀ c ∈ rs, c < 0x80) : rs = bs := by
  induction h with
  | nil => rfl
  | low c _ _ ih => rw [ih (fun x hx => hl x (List.mem_cons_of_mem _ hx))]
  | high c blk hc _ _ _ _ => have := hl c List.mem_cons_self; omega

/-- a high element on one side iff on the other -/
theorem Exp.all_low_iff {rs bs : List Nat} (h : Exp rs bs) :
    (∀ c ∈ rs, c < 0x80) ↔ (∀ c ∈ bs, c < 0x80) := by
  induction h with
  | nil => simp
  | low c hc _ ih => simp [hc, ih]
  | high c blk hc hne hb _ ih =>
    constructor
    · intro h1; have := h1 c List.mem_cons_self; omega
    · intro h1
      cases blk with
      | nil => exact absurd rfl hne
      | cons x blk =>
        have := h1 x (by simp); have := hb x (by simp); omega

/-! ### predicates over all elements -/

theorem Exp.any_eq {rs bs : List Nat} (h : Exp rs bs) (p : Nat → Bool) (v : Bool)
    (hp : ∀ c, 0x80 ≤ c → p c = v) : rs.any p = bs.any p := by
  induction h with
  | nil => rfl
  | low c _ _ ih => simp [ih]
  | high c blk hc hne hb _ ih =>
    rw [List.any_cons, List.any_append, ih, hp c hc]
    congr 1
    cases blk with
    | nil => exact absurd rfl hne
    | cons x blk =>
      cases v with
      | true => simp [hp x (hb x (by simp))]
      | false =>
        symm
        rw [List.any_eq_false]
        intro y hy; simp [hp y (hb y hy)]

theorem Exp.all_eq {rs bs : List Nat} (h : Exp rs bs) (p : Nat → Bool) (v : Bool)
    (hp : ∀ c, 0x80 ≤ c → p c = v) : rs.all p = bs.all p := by
  have := h.any_eq (fun c => !p c) (!v) (by intro c hc; simp [hp c hc])
  rw [← Bool.not_not (rs.all p), ← Bool.not_not (bs.all p), List.not_all_eq_any_not, List.not_all_eq_any_not]
  exact congrArg _ this

theorem Exp.contains_eq {rs bs : List Nat} (h : Exp rs bs) (a : Nat) (ha : a < 0x80) :
    rs.contains a = bs.contains a := by
  rw [List.contains_eq_any_beq, List.contains_eq_any_beq]
  exact h.any_eq _ false (by intro c hc; simp; omega)

theorem Exp.hasCTL_eq {rs bs : List Nat} (h : Exp rs bs) : GoUrl.hasCTL rs = GoUrl.hasCTL bs := by
  unfold GoUrl.hasCTL
  exact h.any_eq _ false (by intro c hc; simp; omega)

theorem isDigitC_high (c : Nat) (h : 0x80 ≤ c) : GoUrl.isDigitC c = false := by
  simp [GoUrl.isDigitC]; omega

theorem isAlphaC_high (c : Nat) (h : 0x80 ≤ c) : GoUrl.isAlphaC c = false := by
  simp [GoUrl.isAlphaC]; omega

theorem isHexC_high (c : Nat) (h : 0x80 ≤ c) : GoUrl.isHexC c = false := by
  simp [GoUrl.isHexC, GoUrl.isDigitC]; omega

theorem Exp.validUserinfo_eq {rs bs : List Nat} (h : Exp rs bs) :
    GoUrl.validUserinfo rs = GoUrl.validUserinfo bs := by
  unfold GoUrl.validUserinfo
  exact h.all_eq _ false (by intro c hc; simp [isAlphaC_high c hc, isDigitC_high c hc]; omega)

theorem Exp.validOptionalPort_eq {rs bs : List Nat} (h : Exp rs bs) :
    GoUrl.validOptionalPort rs = GoUrl.validOptionalPort bs := by
  cases h with
  | nil => rfl
  | low c _ h' =>
    simp only [GoUrl.validOptionalPort]
    rw [h'.all_eq _ false isDigitC_high]
  | high c blk hc hne hb h' =>
    cases blk with
    | nil => exact absurd rfl hne
    | cons x blk =>
      have := hb x (by simp)
      have h1 : ¬ c = 58 := by omega
      have h2 : ¬ x = 58 := by omega
      simp [GoUrl.validOptionalPort, h1, h2]

/-! ### prefixes and cuts -/

theorem Exp.isPrefixOf_eq (p : List Nat) (hp : ∀ a ∈ p, a < 0x80) {rs bs : List Nat} (h : Exp rs bs) :
    p.isPrefixOf rs = p.isPrefixOf bs := by
  induction p generalizing rs bs with
  | nil => simp
  | cons a p ih =>
    have ha := hp a (by simp)
    cases h with
    | nil => rfl
    | low c _ h' =>
      simp only [List.isPrefixOf]
      rw [ih (fun x hx => hp x (List.mem_cons_of_mem _ hx)) h']
    | high c blk hc hne hb h' =>
      cases blk with
      | nil => exact absurd rfl hne
      | cons x blk =>
        have := hb x (by simp)
        have h1 : (a == c) = false := by simp; omega
        have h2 : (a == x) = false := by simp; omega
        simp [List.isPrefixOf, h1, h2]

/-- `Exp` on optional tails -/
def OExp : Option (List Nat) → Option (List Nat) → Prop
  | none, none => True
  | some a, some b => Exp a b
  | _, _ => False

theorem cut_high_block (sep : Nat) (hs : sep < 0x80) (blk bs : List Nat) (hb : ∀ x ∈ blk, 0x80 ≤ x) :
    GoUrlFull.cut sep (blk ++ bs) = (blk ++ (GoUrlFull.cut sep bs).1, (GoUrlFull.cut sep bs).2) := by
  induction blk with
  | nil => rfl
  | cons x blk ih =>
    have := hb x (by simp)
    have hx : ¬ x = sep := by omega
    simp [GoUrlFull.cut, hx, ih (fun y hy => hb y (List.mem_cons_of_mem _ hy))]

theorem Exp.cut {rs bs : List Nat} (h : Exp rs bs) (sep : Nat) (hs : sep < 0x80) :
    Exp (GoUrlFull.cut sep rs).1 (GoUrlFull.cut sep bs).1 ∧
      OExp (GoUrlFull.cut sep rs).2 (GoUrlFull.cut sep bs).2 := by
  induction h with
  | nil => exact ⟨.nil, trivial⟩
  | low c hc h' ih =>
    by_cases he : c = sep
    · simp [GoUrlFull.cut, he, OExp]; exact ⟨.nil, h'⟩
    · simp only [GoUrlFull.cut, he, if_false]
      exact ⟨.low c hc ih.1, ih.2⟩
  | high c blk hc hne hb h' ih =>
    have he : ¬ c = sep := by omega
    rw [cut_high_block sep hs blk _ hb]
    simp only [GoUrlFull.cut, he, if_false]
    exact ⟨.high c blk hc hne hb ih.1, ih.2⟩

/-! ### the `%XX` checkers as one state machine -/

inductive St where
  | n
  | p1
  | p2 (a : Nat)

/-- `chr`: the test on a plain element; `cond a b`: the extra test on the two hex digits -/
def run (chr : Nat → Bool) (cond : Nat → Nat → Bool) : St → List Nat → Bool
  | .n, [] => true
  | .p1, [] => false
  | .p2 _, [] => false
  | .n, c :: r => if c = 0x25 then run chr cond .p1 r else chr c && run chr cond .n r
  | .p1, a :: r => GoUrl.isHexC a && run chr cond (.p2 a) r
  | .p2 a, b :: r => GoUrl.isHexC b && cond a b && run chr cond .n r

theorem run_high_block (chr : Nat → Bool) (cond : Nat → Nat → Bool) (hchr : ∀ c, 0x80 ≤ c → chr c = true)
    (blk bs : List Nat) (hb : ∀ x ∈ blk, 0x80 ≤ x) : run chr cond .n (blk ++ bs) = run chr cond .n bs := by
  induction blk with
  | nil => rfl
  | cons x blk ih =>
    have := hb x (by simp)
    have hx : ¬ x = 37 := by omega
    simp [run, hx, hchr x this, ih (fun y hy => hb y (List.mem_cons_of_mem _ hy))]

theorem Exp.run_eq (chr : Nat → Bool) (cond : Nat → Nat → Bool) (hchr : ∀ c, 0x80 ≤ c → chr c = true)
    {rs bs : List Nat} (h : Exp rs bs) (st : St) : run chr cond st rs = run chr cond st bs := by
  induction h generalizing st with
  | nil => rfl
  | low c _ _ ih => cases st <;> simp [run, ih]
  | high c blk hc hne hb _ ih =>
    cases st with
    | n =>
      have hx : ¬ c = 37 := by omega
      rw [run_high_block chr cond hchr blk _ hb]
      simp [run, hx, hchr c hc, ih]
    | p1 =>
      cases blk with
      | nil => exact absurd rfl hne
      | cons x blk => simp [run, isHexC_high c hc, isHexC_high x (hb x (by simp))]
    | p2 a =>
      cases blk with
      | nil => exact absurd rfl hne
      | cons x blk => simp [run, isHexC_high c hc, isHexC_high x (hb x (by simp))]

theorem pctOk_run (s : List Nat) : GoUrl.pctOk s = run (fun _ => true) (fun _ _ => true) .n s := by
  fun_induction GoUrl.pctOk s with
  | case1 => rfl
  | case2 a b rest ih => simp [run, ih, Bool.and_assoc]
  | case3 tl hx =>
    match tl with
    | [] => simp [run]
    | [_] => simp [run]
    | a :: b :: r => exact absurd rfl (hx a b r)
  | case4 c rest _ hc ih =>
    have hc' : ¬ c = 37 := hc
    simp [run, hc', ih]

theorem hostEscOk_run (s : List Nat) :
    GoUrl.hostEscOk s =
      run GoUrl.hostCharOk (fun a b => GoUrl.unhexC a ≥ 8 || (a = 0x32 && b = 0x35)) .n s := by
  fun_induction GoUrl.hostEscOk s with
  | case1 => rfl
  | case2 a b rest ih => simp [run, ih, Bool.and_assoc]
  | case3 tl hx =>
    match tl with
    | [] => simp [run]
    | [_] => simp [run]
    | a :: b :: r => exact absurd rfl (hx a b r)
  | case4 c rest _ hc ih =>
    have hc' : ¬ c = 37 := hc
    simp [run, hc', ih]

theorem zoneEscOk_run (s : List Nat) :
    GoUrl.zoneEscOk s =
      run GoUrl.hostCharOk (fun a b => (a = 0x32 && b = 0x35) || GoUrl.unhexC a * 16 + GoUrl.unhexC b = 0x20 ||
        !GoUrlFull.shouldEscape (GoUrl.unhexC a * 16 + GoUrl.unhexC b) .host) .n s := by
  fun_induction GoUrl.zoneEscOk s with
  | case1 => rfl
  | case2 a b rest ih => simp [run, ih, Bool.and_assoc]
  | case3 tl hx =>
    match tl with
    | [] => simp [run]
    | [_] => simp [run]
    | a :: b :: r => exact absurd rfl (hx a b r)
  | case4 c rest _ hc ih =>
    have hc' : ¬ c = 37 := hc
    simp [run, hc', ih]

theorem hostCharOk_high (c : Nat) (h : 0x80 ≤ c) : GoUrl.hostCharOk c = true := by
  simp [GoUrl.hostCharOk, h]

theorem Exp.pctOk_eq {rs bs : List Nat} (h : Exp rs bs) : GoUrl.pctOk rs = GoUrl.pctOk bs := by
  rw [pctOk_run, pctOk_run]; exact h.run_eq _ _ (fun _ _ => rfl) _

theorem Exp.hostEscOk_eq {rs bs : List Nat} (h : Exp rs bs) : GoUrl.hostEscOk rs = GoUrl.hostEscOk bs := by
  rw [hostEscOk_run, hostEscOk_run]; exact h.run_eq _ _ hostCharOk_high _

theorem Exp.zoneEscOk_eq {rs bs : List Nat} (h : Exp rs bs) : GoUrl.zoneEscOk rs = GoUrl.zoneEscOk bs := by
  rw [zoneEscOk_run, zoneEscOk_run]; exact h.run_eq _ _ hostCharOk_high _

/-! ### `getScheme` -/

def SExp : Option (List Nat × List Nat) → Option (List Nat × List Nat) → Prop
  | none, none => True
  | some p, some q => p.1 = q.1 ∧ Exp p.2 q.2
  | _, _ => False

theorem getSchemeAux_high (whole : List Nat) (c : Nat) (rest : List Nat) (i : Nat) (hc : 0x80 ≤ c) :
    GoUrl.getSchemeAux whole (c :: rest) i = some ([], whole) := by
  have h1 : ¬ c = 0x2b := by omega
  have h2 : ¬ c = 0x2d := by omega
  have h3 : ¬ c = 0x2e := by omega
  have h4 : ¬ c = 0x3a := by omega
  simp [GoUrl.getSchemeAux, isAlphaC_high c hc, isDigitC_high c hc, h1, h2, h3, h4]

theorem getSchemeAux_exp {s s' : List Nat} (h : Exp s s') (pre whole whole' : List Nat)
    (hw : whole = pre ++ s) (hw' : whole' = pre ++ s') :
    SExp (GoUrl.getSchemeAux whole s pre.length) (GoUrl.getSchemeAux whole' s' pre.length) := by
  have hww : Exp whole whole' := by rw [hw, hw']; exact (Exp.refl pre).append h
  induction h generalizing pre with
  | nil => exact ⟨rfl, hww⟩
  | low c hc h' ih =>
    have hrec := ih (pre ++ [c]) (by simp [hw]) (by simp [hw'])
    simp only [List.length_append, List.length_singleton] at hrec
    unfold GoUrl.getSchemeAux
    split
    · exact hrec
    · split
      · split
        · exact ⟨rfl, hww⟩
        · exact hrec
      · split
        · split
          · trivial
          · refine ⟨?_, h'⟩
            simp [hw, hw']
        · exact ⟨rfl, hww⟩
  | high c blk hc hne hb h' ih =>
    cases blk with
    | nil => exact absurd rfl hne
    | cons x blk =>
      rw [getSchemeAux_high _ c _ _ hc, List.cons_append, getSchemeAux_high _ x _ _ (hb x (by simp))]
      exact ⟨rfl, hww⟩

theorem Exp.getScheme {s s' : List Nat} (h : Exp s s') : SExp (GoUrl.getScheme s) (GoUrl.getScheme s') :=
  getSchemeAux_exp h [] s s' rfl rfl

/-! ### splitting at the last occurrence, without indices -/

def splitLast (c : Nat) : List Nat → Option (List Nat × List Nat)
  | [] => none
  | x :: r =>
    match splitLast c r with
    | some p => some (x :: p.1, p.2)
    | none => if x = c then some ([], r) else none

theorem splitLast_none (c : Nat) (s : List Nat) (h : GoUrlFull.lastIndexOf c s = none) :
    splitLast c s = none := by
  induction s with
  | nil => rfl
  | cons x r ih =>
    unfold GoUrlFull.lastIndexOf at h
    unfold splitLast
    cases hl : GoUrlFull.lastIndexOf c r with
    | some j => rw [hl] at h; simp at h
    | none =>
      rw [hl] at h
      rw [ih hl]
      by_cases hx : x = c <;> simp [hx] at h ⊢

theorem splitLast_some (c : Nat) (s : List Nat) (i : Nat) (h : GoUrlFull.lastIndexOf c s = some i) :
    splitLast c s = some (s.take i, s.drop (i + 1)) ∧ s.drop i = c :: s.drop (i + 1) := by
  induction s generalizing i with
  | nil => simp [GoUrlFull.lastIndexOf] at h
  | cons x r ih =>
    unfold GoUrlFull.lastIndexOf at h
    unfold splitLast
    cases hl : GoUrlFull.lastIndexOf c r with
    | some j =>
      rw [hl] at h
      simp at h
      subst h
      have := ih j hl
      simp [this.1, this.2]
    | none =>
      rw [hl] at h
      rw [splitLast_none c r hl]
      by_cases hx : x = c
      · simp [hx] at h ⊢; subst h; simp
      · simp [hx] at h

theorem lastIndexOf_drop (c : Nat) (s : List Nat) (k : Nat) :
    GoUrlFull.lastIndexOf c (s.drop k) =
      match GoUrlFull.lastIndexOf c s with
      | some i => if k ≤ i then some (i - k) else none
      | none => none := by
  induction s generalizing k with
  | nil => simp [GoUrlFull.lastIndexOf]
  | cons x r ih =>
    cases k with
    | zero => simp; cases GoUrlFull.lastIndexOf c (x :: r) <;> rfl
    | succ k =>
      simp only [List.drop_succ_cons]
      rw [ih k]
      conv => rhs; unfold GoUrlFull.lastIndexOf
      cases GoUrlFull.lastIndexOf c r with
      | some j => simp
      | none => by_cases hx : x = c <;> simp [hx]

/-- `GoUrl.parseHostOk` without indices -/
def hostOk' (host : List Nat) : Bool :=
  match splitLast 0x5b host with
  | some p =>
    (match splitLast 0x5d p.2 with
      | some q => GoUrl.validOptionalPort q.2 && GoUrl.hostEscOk q.2 && GoUrl.ipLiteralOk q.1
      | none => false)
  | none =>
    (match splitLast 0x3a host with
      | some p => GoUrl.validOptionalPort (0x3a :: p.2)
      | none => true) && GoUrl.hostEscOk host

theorem parseHostOk_eq (host : List Nat) : GoUrl.parseHostOk host = hostOk' host := by
  unfold GoUrl.parseHostOk hostOk'
  simp only [lastIndexOf_eq]
  cases hob : GoUrlFull.lastIndexOf 0x5b host with
  | none =>
    rw [splitLast_none _ _ hob]
    simp only
    cases hc : GoUrlFull.lastIndexOf 0x3a host with
    | none => rw [splitLast_none _ _ hc]
    | some i =>
      have := splitLast_some _ _ _ hc
      rw [this.1]
      simp only
      rw [this.2]
  | some ob =>
    have h1 := splitLast_some _ _ _ hob
    rw [h1.1]
    simp only
    have hd := lastIndexOf_drop 0x5d host (ob + 1)
    cases hcb : GoUrlFull.lastIndexOf 0x5d host with
    | none =>
      rw [hcb] at hd
      rw [splitLast_none _ _ hd]
    | some cb =>
      rw [hcb] at hd
      simp only at hd ⊢
      by_cases hlt : ob + 1 ≤ cb
      · rw [if_pos hlt] at hd
        have h2 := splitLast_some _ _ _ hd
        rw [h2.1]
        have hgt : cb > ob := by omega
        have e1 : List.drop (cb - (ob + 1) + 1) (List.drop (ob + 1) host) = List.drop (cb + 1) host := by
          rw [List.drop_drop]; congr 1; omega
        have e2 : List.take (cb - (ob + 1)) (List.drop (ob + 1) host) = List.drop (ob + 1) (List.take cb host) := by
          rw [List.drop_take]
        simp only [e1, e2, hgt, decide_true, Bool.true_and, Bool.and_assoc]
      · rw [if_neg hlt] at hd
        rw [splitLast_none _ _ hd]
        have hgt : ¬ cb > ob := by omega
        simp [hgt]

def PExp : Option (List Nat × List Nat) → Option (List Nat × List Nat) → Prop
  | none, none => True
  | some p, some q => Exp p.1 q.1 ∧ Exp p.2 q.2
  | _, _ => False

theorem splitLast_cons (c x : Nat) (r : List Nat) :
    splitLast c (x :: r) =
      match splitLast c r with
      | some p => some (x :: p.1, p.2)
      | none => if x = c then some ([], r) else none := rfl

theorem splitLast_high_block (c : Nat) (hc : c < 0x80) (blk bs : List Nat) (hb : ∀ x ∈ blk, 0x80 ≤ x) :
    splitLast c (blk ++ bs) = (splitLast c bs).map (fun p => (blk ++ p.1, p.2)) := by
  induction blk with
  | nil => cases h : splitLast c bs <;> simp [h]
  | cons x blk ih =>
    have := hb x (by simp)
    have hx : ¬ x = c := by omega
    rw [List.cons_append, splitLast_cons]
    rw [ih (fun y hy => hb y (List.mem_cons_of_mem _ hy))]
    cases splitLast c bs <;> simp [hx]

theorem Exp.splitLast {rs bs : List Nat} (h : Exp rs bs) (c : Nat) (hc : c < 0x80) :
    PExp (splitLast c rs) (splitLast c bs) := by
  induction h with
  | nil => trivial
  | low x hx h' ih =>
    rw [splitLast_cons, splitLast_cons]
    cases h1 : IriUnify.splitLast c _ <;> cases h2 : IriUnify.splitLast c _ <;> rw [h1, h2] at ih
    · by_cases he : x = c
      · simp [he]; exact ⟨.nil, h'⟩
      · simp [he]; trivial
    · exact ih.elim
    · exact ih.elim
    · exact ⟨.low x hx ih.1, ih.2⟩
  | high x blk hx hne hb h' ih =>
    rw [splitLast_high_block c hc blk _ hb, splitLast_cons]
    have he : ¬ x = c := by omega
    cases h1 : IriUnify.splitLast c _ <;> cases h2 : IriUnify.splitLast c _ <;> rw [h1, h2] at ih
    · simp [he]; trivial
    · exact ih.elim
    · exact ih.elim
    · exact ⟨.high x blk hx hne hb ih.1, ih.2⟩

/-! ### the zone split -/

def ZExp (rs bs : List Nat) : Option Nat → Option Nat → Prop
  | none, none => True
  | some z, some z' => Exp (rs.take z) (bs.take z') ∧ Exp (rs.drop z) (bs.drop z')
  | _, _ => False

theorem indexPct25_cons_ne (x : Nat) (r : List Nat) (hx : ¬ x = 0x25) :
    GoUrl.indexPct25 (x :: r) = (GoUrl.indexPct25 r).map (· + 1) := by
  have : (37 == x) = false := by simp; omega
  simp [GoUrl.indexPct25, List.isPrefixOf, this]

theorem indexPct25_high_block (blk bs : List Nat) (hb : ∀ x ∈ blk, 0x80 ≤ x) :
    GoUrl.indexPct25 (blk ++ bs) = (GoUrl.indexPct25 bs).map (blk.length + ·) := by
  induction blk with
  | nil => cases h : GoUrl.indexPct25 bs <;> simp [h]
  | cons x blk ih =>
    have := hb x (by simp)
    rw [List.cons_append, indexPct25_cons_ne x _ (by omega), ih (fun y hy => hb y (List.mem_cons_of_mem _ hy))]
    cases GoUrl.indexPct25 bs <;> simp
    omega

theorem Exp.indexPct25 {rs bs : List Nat} (h : Exp rs bs) :
    ZExp rs bs (GoUrl.indexPct25 rs) (GoUrl.indexPct25 bs) := by
  induction h with
  | nil => trivial
  | @low c rs bs hc h' ih =>
    have hpre := Exp.isPrefixOf_eq [0x25, 0x32, 0x35] (by simp) (Exp.low c hc h')
    unfold GoUrl.indexPct25
    rw [← hpre]
    by_cases hp : [0x25, 0x32, 0x35].isPrefixOf (c :: rs) = true
    · simp only [hp, if_true]
      exact ⟨.nil, .low c hc h'⟩
    · simp only [hp]
      cases h1 : GoUrl.indexPct25 rs <;> cases h2 : GoUrl.indexPct25 bs <;> rw [h1, h2] at ih
      · trivial
      · exact ih.elim
      · exact ih.elim
      · exact ⟨.low c hc ih.1, ih.2⟩
  | @high c blk rs bs hc hne hb h' ih =>
    rw [indexPct25_high_block blk _ hb, indexPct25_cons_ne c _ (by omega)]
    cases h1 : GoUrl.indexPct25 rs <;> cases h2 : GoUrl.indexPct25 bs <;> rw [h1, h2] at ih
    · trivial
    · exact ih.elim
    · exact ih.elim
    · simp only [Option.map_some, ZExp, List.take_succ_cons, List.drop_succ_cons,
        List.take_length_add_append, List.drop_length_add_append]
      exact ⟨.high c blk hc hne hb ih.1, ih.2⟩

/-! ### `netip.ParseAddr` accepts ASCII only -/

theorem isDigitC_low (c : Nat) (h : GoUrlFull.isDigitC c = true) : c < 0x80 := by
  simp [GoUrlFull.isDigitC] at h; omega

theorem ishex_low (c : Nat) (h : GoUrlFull.ishex c = true) : c < 0x80 := by
  simp [GoUrlFull.ishex, GoUrlFull.isDigitC] at h; omega

theorem ipv4Loop_low (s : List Nat) (val digLen pos : Nat) (prevDot isFirst : Bool)
    (h : ipv4Loop s val digLen pos prevDot isFirst = true) : ∀ c ∈ s, c < 0x80 := by
  induction s generalizing val digLen pos prevDot isFirst with
  | nil => simp
  | cons c rest ih =>
    unfold ipv4Loop at h
    intro x hx
    rcases List.mem_cons.1 hx with rfl | hx
    · by_cases hd : GoUrlFull.isDigitC x = true
      · exact isDigitC_low x hd
      · by_cases hdot : (x == 0x2e) = true
        · simp at hdot; omega
        · simp [hd, hdot] at h
    · split at h
      · split at h
        · cases h
        · simp only at h
          split at h
          · cases h
          · exact ih _ _ _ _ _ h x hx
      · split at h
        · split at h
          · cases h
          · split at h
            · cases h
            · exact ih _ _ _ _ _ h x hx
        · cases h

theorem drop_length_takeWhile (p : Nat → Bool) (s : List Nat) :
    s.drop (s.takeWhile p).length = s.dropWhile p := by
  induction s with
  | nil => rfl
  | cons x r ih =>
    by_cases hx : p x = true
    · simp [hx, ih]
    · simp [hx]

theorem mem_takeWhile_p (p : Nat → Bool) (s : List Nat) (c : Nat) (h : c ∈ s.takeWhile p) : p c = true := by
  induction s with
  | nil => simp at h
  | cons x r ih =>
    by_cases hx : p x = true
    · simp [hx] at h
      rcases h with rfl | h
      · exact hx
      · exact ih h
    · simp [hx] at h

theorem ipv6Loop_low (fuel : Nat) (s : List Nat) (i : Nat) (e : Bool)
    (h : ipv6Loop fuel s i e = true) : ∀ c ∈ s, c < 0x80 := by
  induction fuel generalizing s i e with
  | zero => simp [ipv6Loop] at h
  | succ fuel ih =>
    have hs : s = s.takeWhile ishex ++ s.drop (s.takeWhile ishex).length := by
      rw [drop_length_takeWhile, List.takeWhile_append_dropWhile]
    have hdig : ∀ c ∈ s.takeWhile ishex, c < 0x80 := fun c hc => ishex_low c (mem_takeWhile_p _ _ _ hc)
    unfold ipv6Loop at h
    simp only at h
    generalize List.drop (List.takeWhile ishex s).length s = rest at h hs
    have key : (∀ c ∈ rest, c < 0x80) → ∀ c ∈ s, c < 0x80 := by
      intro hr c hc
      rw [hs] at hc
      rcases List.mem_append.1 hc with h1 | h1
      · exact hdig c h1
      · exact hr c h1
    split at h
    · simp at h; simp [h.1]
    · split at h
      · cases h
      · split at h
        · cases h
        · split at h
          · by_cases h4 : ipv4Ok s = true
            · exact ipv4Loop_low _ _ _ _ _ _ h4
            · simp [h4] at h
          · apply key
            cases rest with
            | nil => simp
            | cons c rest1 =>
              simp only at h
              by_cases hc : (c != 58) = true
              · simp [hc] at h
              · rw [if_neg hc] at h
                have hc' : c = 58 := by simpa using hc
                cases rest1 with
                | nil => simp at h
                | cons d rest2 =>
                  simp only at h
                  by_cases hd : (d == 58) = true
                  · rw [if_pos hd] at h
                    have hd' : d = 58 := by simpa using hd
                    by_cases he : e = true
                    · simp [he] at h
                    · rw [if_neg he] at h
                      by_cases hr : rest2.isEmpty = true
                      · have : rest2 = [] := by simpa using hr
                        subst this
                        simp [hc', hd']
                      · rw [if_neg hr] at h
                        have := ih _ _ _ h
                        intro x hx
                        simp only [List.mem_cons] at hx
                        rcases hx with rfl | rfl | hx
                        · omega
                        · omega
                        · exact this x hx
                  · rw [if_neg hd] at h
                    have := ih _ _ _ h
                    intro x hx
                    rcases List.mem_cons.1 hx with rfl | hx
                    · omega
                    · exact this x hx

theorem ipv6Ok_low (s : List Nat) (h : ipv6Ok s = true) : ∀ c ∈ s, c < 0x80 := by
  unfold ipv6Ok at h
  split at h
  · rename_i rest
    by_cases hr : rest.isEmpty = true
    · have : rest = [] := by simpa using hr
      subst this; simp
    · rw [if_neg hr] at h
      have := ipv6Loop_low _ _ _ _ h
      intro x hx
      simp only [List.mem_cons] at hx
      rcases hx with rfl | rfl | hx
      · omega
      · omega
      · exact this x hx
  · exact ipv6Loop_low _ _ _ _ h

theorem parseAddrIs6_ipv6Ok (whole s : List Nat) (h : parseAddrIs6 whole s = true) : ipv6Ok whole = true := by
  induction s with
  | nil => simp [parseAddrIs6] at h
  | cons c rest ih =>
    unfold parseAddrIs6 at h
    split at h
    · cases h
    · split at h
      · exact h
      · exact ih h

theorem Exp.parseAddrIs6_eq {a b : List Nat} (h : Exp a b) : parseAddrIs6 a a = parseAddrIs6 b b := by
  by_cases hl : ∀ c ∈ a, c < 0x80
  · rw [h.eq_of_low hl]
  · have hl' : ¬ ∀ c ∈ b, c < 0x80 := fun hb => hl (h.all_low_iff.2 hb)
    have h1 : parseAddrIs6 a a = false := by
      cases hh : parseAddrIs6 a a with
      | false => rfl
      | true => exact absurd (ipv6Ok_low a (parseAddrIs6_ipv6Ok a a hh)) hl
    have h2 : parseAddrIs6 b b = false := by
      cases hh : parseAddrIs6 b b with
      | false => rfl
      | true => exact absurd (ipv6Ok_low b (parseAddrIs6_ipv6Ok b b hh)) hl'
    rw [h1, h2]

theorem indexPct25_prefix (s : List Nat) (z : Nat) (h : GoUrl.indexPct25 s = some z) :
    [0x25, 0x32, 0x35].isPrefixOf (s.drop z) = true := by
  induction s generalizing z with
  | nil => simp [GoUrl.indexPct25] at h
  | cons c rest ih =>
    unfold GoUrl.indexPct25 at h
    split at h
    · rename_i hp
      simp at h; subst h; exact hp
    · cases h1 : GoUrl.indexPct25 rest with
      | none => rw [h1] at h; simp at h
      | some z' =>
        rw [h1] at h; simp at h; subst h
        exact ih z' h1

theorem Exp.length_gt3 {a b : List Nat} (h : Exp a b) (hp : [0x25, 0x32, 0x35].isPrefixOf a = true) :
    decide (a.length > 3) = decide (b.length > 3) := by
  obtain ⟨t, ht⟩ := List.isPrefixOf_iff_prefix.1 hp
  subst ht
  simp only [List.cons_append, List.nil_append] at h
  obtain ⟨b1, rfl, h1⟩ := h.cons_low (by omega)
  obtain ⟨b2, rfl, h2⟩ := h1.cons_low (by omega)
  obtain ⟨b3, rfl, h3⟩ := h2.cons_low (by omega)
  cases h3 with
  | nil => rfl
  | low c _ _ => simp
  | high c blk _ hne _ _ =>
    cases blk with
    | nil => exact absurd rfl hne
    | cons x blk => simp

theorem Exp.ipLiteralOk_eq {a b : List Nat} (h : Exp a b) : GoUrl.ipLiteralOk a = GoUrl.ipLiteralOk b := by
  unfold GoUrl.ipLiteralOk
  have hz := h.indexPct25
  cases h1 : GoUrl.indexPct25 a <;> cases h2 : GoUrl.indexPct25 b <;> rw [h1, h2] at hz
  · simp only
    rw [h.hostEscOk_eq, h.contains_eq 0x25 (by omega), h.parseAddrIs6_eq]
  · exact hz.elim
  · exact hz.elim
  · simp only
    rw [hz.1.hostEscOk_eq, hz.2.zoneEscOk_eq, hz.1.contains_eq 0x25 (by omega), hz.1.parseAddrIs6_eq,
      hz.2.length_gt3 (indexPct25_prefix _ _ h1)]

/-! ### host, authority -/

theorem PExp.cases {o o' : Option (List Nat × List Nat)} (h : PExp o o') :
    (o = none ∧ o' = none) ∨ ∃ p q, o = some p ∧ o' = some q ∧ Exp p.1 q.1 ∧ Exp p.2 q.2 := by
  cases o <;> cases o'
  · exact .inl ⟨rfl, rfl⟩
  · exact h.elim
  · exact h.elim
  · exact .inr ⟨_, _, rfl, rfl, h.1, h.2⟩

theorem Exp.hostOk_eq {a b : List Nat} (h : Exp a b) : hostOk' a = hostOk' b := by
  unfold IriUnify.hostOk'
  rcases (h.splitLast 0x5b (by omega)).cases with ⟨h1, h2⟩ | ⟨p, q, h1, h2, hp1, hp2⟩
  · rw [h1, h2]
    simp only
    rw [h.hostEscOk_eq]
    rcases (h.splitLast 0x3a (by omega)).cases with ⟨h3, h4⟩ | ⟨p, q, h3, h4, _, hp2⟩
    · rw [h3, h4]
    · rw [h3, h4]
      simp only
      rw [(Exp.low 0x3a (by omega) hp2).validOptionalPort_eq]
  · rw [h1, h2]
    simp only
    rcases (hp2.splitLast 0x5d (by omega)).cases with ⟨h3, h4⟩ | ⟨p', q', h3, h4, hq1, hq2⟩
    · rw [h3, h4]
    · rw [h3, h4]
      simp only
      rw [hq2.validOptionalPort_eq, hq2.hostEscOk_eq, hq1.ipLiteralOk_eq]

theorem Exp.parseHostOk_eq {a b : List Nat} (h : Exp a b) : GoUrl.parseHostOk a = GoUrl.parseHostOk b := by
  rw [_root_.RdfModel.Proofs.IriUnify.parseHostOk_eq a, _root_.RdfModel.Proofs.IriUnify.parseHostOk_eq b]
  exact Exp.hostOk_eq h

theorem parseAuthorityOk_split (auth : List Nat) :
    GoUrl.parseAuthorityOk auth =
      match splitLast 0x40 auth with
      | none => GoUrl.parseHostOk auth
      | some p => GoUrl.parseHostOk p.2 && (GoUrl.validUserinfo p.1 && GoUrl.pctOk p.1) := by
  unfold GoUrl.parseAuthorityOk
  rw [lastIndexOf_eq]
  cases hl : GoUrlFull.lastIndexOf 0x40 auth with
  | none => rw [splitLast_none _ _ hl]
  | some i => rw [(splitLast_some _ _ _ hl).1]

theorem Exp.parseAuthorityOk_eq {a b : List Nat} (h : Exp a b) :
    GoUrl.parseAuthorityOk a = GoUrl.parseAuthorityOk b := by
  rw [parseAuthorityOk_split, parseAuthorityOk_split]
  rcases (h.splitLast 0x40 (by omega)).cases with ⟨h1, h2⟩ | ⟨p, q, h1, h2, hp1, hp2⟩
  · rw [h1, h2]; exact h.parseHostOk_eq
  · rw [h1, h2]
    simp only
    rw [hp2.parseHostOk_eq, hp1.validUserinfo_eq, hp1.pctOk_eq]

/-! ### `parse` -/

theorem Exp.drop2 {a b : List Nat} (h : Exp a b) (hp : startsWith [0x2f, 0x2f] a = true) :
    Exp (a.drop 2) (b.drop 2) := by
  obtain ⟨t, ht⟩ := List.isPrefixOf_iff_prefix.1 hp
  subst ht
  simp only [List.cons_append, List.nil_append] at h
  obtain ⟨b1, rfl, h1⟩ := h.cons_low (by omega)
  obtain ⟨b2, rfl, h2⟩ := h1.cons_low (by omega)
  exact h2

theorem OExp.pathOf {o o' : Option (List Nat)} (h : OExp o o') : Exp (pathOf o) (pathOf o') := by
  cases o <;> cases o'
  · exact .nil
  · exact h.elim
  · exact h.elim
  · exact .low 0x2f (by omega) h

theorem Exp.oldRest_eq {a b : List Nat} (h : Exp a b) (scheme : List Nat) :
    oldRest scheme a = oldRest scheme b := by
  unfold oldRest
  have hr := (h.cut 0x3f (by omega)).1
  generalize (GoUrlFull.cut 0x3f a).1 = rest at hr
  generalize (GoUrlFull.cut 0x3f b).1 = rest' at hr
  have e1 : startsWith [0x2f] rest = startsWith [0x2f] rest' := Exp.isPrefixOf_eq [0x2f] (by simp) hr
  have e2 : startsWith [0x2f, 0x2f, 0x2f] rest = startsWith [0x2f, 0x2f, 0x2f] rest' :=
    Exp.isPrefixOf_eq [0x2f, 0x2f, 0x2f] (by simp) hr
  have e3 : startsWith [0x2f, 0x2f] rest = startsWith [0x2f, 0x2f] rest' :=
    Exp.isPrefixOf_eq [0x2f, 0x2f] (by simp) hr
  have e4 := hr.pctOk_eq
  have e5 := (hr.cut 0x2f (by omega)).1.contains_eq 0x3a (by omega)
  simp only [e1, e2, e3, e4, e5]
  by_cases h2 : startsWith [0x2f, 0x2f] rest' = true
  · have hd := hr.drop2 (e3.trans h2)
    have hc := hd.cut 0x2f (by omega)
    simp only [hc.1.parseAuthorityOk_eq, hc.2.pathOf.pctOk_eq]
  · simp [h2]

theorem Exp.singleton_right' {rs bs : List Nat} {c : Nat} (hc : c < 0x80) (h : Exp rs bs) (hb : bs = [c]) :
    rs = [c] := by
  cases h with
  | nil => cases hb
  | low x _ h' =>
    simp at hb
    rw [hb.1, h'.nil_right' hb.2]
  | high x blk hx hne hbk _ =>
    cases blk with
    | nil => exact absurd rfl hne
    | cons y blk =>
      simp at hb
      have := hbk y (by simp)
      omega

theorem Exp.eq_singleton_iff {a b : List Nat} (h : Exp a b) (c : Nat) (hc : c < 0x80) : a = [c] ↔ b = [c] := by
  constructor
  · intro ha
    subst ha
    obtain ⟨bs, rfl, h1⟩ := h.cons_low hc
    rw [h1.nil_left]
  · exact h.singleton_right' hc

theorem Exp.parseNoFrag_eq {a b : List Nat} (h : Exp a b) : GoUrl.parseNoFrag a = GoUrl.parseNoFrag b := by
  rw [parseNoFrag_old, parseNoFrag_old, ← IriUnify.hasCTL_eq, ← IriUnify.hasCTL_eq, ← IriUnify.getScheme_eq,
    ← IriUnify.getScheme_eq, h.hasCTL_eq]
  by_cases h1 : GoUrl.hasCTL b = true
  · simp [h1]
  · simp only [h1]
    by_cases h2 : a = [0x2a]
    · have h2' := (h.eq_singleton_iff 0x2a (by omega)).1 h2
      simp [h2, h2']
    · have h2' : ¬ b = [0x2a] := fun e => h2 ((h.eq_singleton_iff 0x2a (by omega)).2 e)
      simp only [h2, h2', if_false]
      have hs := h.getScheme
      cases h3 : GoUrl.getScheme a <;> cases h4 : GoUrl.getScheme b <;> rw [h3, h4] at hs
      · exact hs.elim
      · exact hs.elim
      · rename_i p q
        obtain ⟨s1, r1⟩ := p
        obtain ⟨s2, r2⟩ := q
        have e1 : s1 = s2 := hs.1
        have e2 : Exp r1 r2 := hs.2
        simp only
        rw [e1, e2.oldRest_eq]

theorem OExp.cases {o o' : Option (List Nat)} (h : OExp o o') :
    (o = none ∧ o' = none) ∨ ∃ p q, o = some p ∧ o' = some q ∧ Exp p q := by
  cases o <;> cases o'
  · exact .inl ⟨rfl, rfl⟩
  · exact h.elim
  · exact h.elim
  · exact .inr ⟨_, _, rfl, rfl, h⟩

theorem Exp.parseAbsOk_eq {a b : List Nat} (h : Exp a b) :
    GoUrl.parseAbsOk a = GoUrl.parseAbsOk b ∧ GoUrl.parseOk a = GoUrl.parseOk b := by
  unfold GoUrl.parseAbsOk GoUrl.parseOk
  rw [cut_eq, cut_eq]
  have hc := h.cut 0x23 (by omega)
  rcases h1 : GoUrlFull.cut 0x23 a with ⟨u, f⟩
  rcases h2 : GoUrlFull.cut 0x23 b with ⟨u', f'⟩
  rw [h1, h2] at hc
  simp only at hc ⊢
  rw [hc.1.parseNoFrag_eq]
  rcases hc.2.cases with ⟨e1, e2⟩ | ⟨p, q, e1, e2, hpq⟩
  · subst e1; subst e2; exact ⟨rfl, rfl⟩
  · subst e1; subst e2
    refine ⟨?_, ?_⟩ <;> simp only [hpq.pctOk_eq]

/-- the acceptance model gives the same answer on runes and on their UTF-8 bytes -/
theorem parseAbsOk_utf8 (rs : List Nat) :
    RdfModel.GoUrl.parseAbsOk (RdfModel.utf8Encode rs) = RdfModel.GoUrl.parseAbsOk rs :=
  ((Exp_utf8 rs).parseAbsOk_eq).1.symm

theorem parseOk_utf8 (rs : List Nat) :
    RdfModel.GoUrl.parseOk (RdfModel.utf8Encode rs) = RdfModel.GoUrl.parseOk rs :=
  ((Exp_utf8 rs).parseAbsOk_eq).2.symm

/-- the `urlOk` the decoders are run with is the acceptance model on the runes -/
theorem urlOk_eq_goUrl (rs : List Nat) : RdfModel.IriUnify.urlOk rs = RdfModel.GoUrl.parseAbsOk rs := by
  unfold RdfModel.IriUnify.urlOk
  rw [absOkBytes_eq, parseAbsOk_utf8]

end RdfModel.Proofs.IriUnify
