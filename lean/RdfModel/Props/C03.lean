/-
  Property C03 — the canonical form depends only on the dataset (theorems only; proofs in
  RdfModel/Proofs/C03*.lean, C04*.lean).

  Model: `Model/Rdfcanon.lean`; `Rdfcanon.canon T H lim ord qs` is `rdfcanon.Canonicalize` on the quad
  sequence `qs` with hash `H`, limits `lim`, and Go's map iteration order `ord`.

  PROVED for all inputs:  shape of the output (sorted, strictly for duplicate-free input; parses back
  to the relabelled dataset; issued map total and injective on the dataset's blank nodes = the renaming
  applied; original indices), never a panic / never a wrong answer under the work limits, invariance
  of Hash First Degree Quads under reordering and relabelling, and invariance of the whole output in
  the case where all first-degree hashes are distinct (`canon_invariant_simple`).
  NOT CLAIMED: `canon_invariant`, the invariance when the N-degree phase runs (it is the correctness
  theorem of RDFC-1.0 itself, false under hash collisions; stated below as a `def … : Prop`).  That
  part is covered by the harness only (relabel × permute variants, 8–72 iteration orders).
  EXTENDED in Props/C03Relabel.lean (round 3): relabelling invariance for ARBITRARY datasets, the
  N-degree phase included (`canon_invariant_relabel`, `spec_equivariant`), the reduction of
  `canon_invariant` to invariance under quad order and map iteration order
  (`canon_invariant_of_order_invariant`), and invariance of the identifiers of all uniquely hashed
  nodes in arbitrary datasets (`canon_invariant_unique_partial`).
-/
import RdfModel.Props.C04
import RdfModel.Props.C01
import RdfModel.Props.C01Tables
import RdfModel.Proofs.C03Parse
namespace RdfModel.C03
open RdfModel RdfModel.C04

variable {β : Type} [DecidableEq β]


/-- Everything below about a result `out` is derived from `Proofs.C03.Shape T qs out`, which holds for every
    result of the model on well-formed input:
    * `lines`  : the lines are the sorted list of `⟨original index, canonical line of the quad
                 relabelled by the issued map⟩`;
    * `total`, `inj`, `ident`, `form` : the issued map is defined on every blank node of the dataset,
      injective, is what `GetBlankNodeIdentifier` answers, and its values are `c14n<decimal>`. -/
theorem shape_of_result (T : NQ.Tables) (hT : TablesCanon T) (H : Str → Str) (lim : Rdfcanon.Limits)
    (ord : List β → List β) (hord : OrdOK ord) (qs : List (Quad β)) (hwf : ∀ q ∈ qs, WFQuad T q)
    (out : Rdfcanon.Out β) (h : Rdfcanon.canon T H lim ord qs = .ok out) : Proofs.C03.Shape T qs out :=
  Proofs.C03.shape_of_ok T hT H lim ord hord qs hwf out h

/-- **issued_map_is_renaming**: the output is the sorted list of the input quads relabelled by the
    issued identifier map; that map is defined and injective on the blank nodes of the dataset and is
    what `GetBlankNodeIdentifier` returns. -/
theorem issued_map_is_renaming {T : NQ.Tables} {qs : List (Quad β)} {out : Rdfcanon.Out β}
    (hs : Proofs.C03.Shape T qs out) :
    out.lines.map (·.encoded) = sortStr (qs.map (Spec.RDFC10.nquad (Proofs.C03.labelOf out))) ∧
    (∀ q ∈ qs, ∀ b ∈ Spec.RDFC10.quadBnodes q, (assoc out.issued b).isSome) ∧
    (∀ b b' v, assoc out.issued b = some v → assoc out.issued b' = some v → b = b') ∧
    (∀ b v, assoc out.issued b = some v → out.identifier b = v) :=
  ⟨Proofs.C03.lines_encoded hs, hs.total, hs.inj, hs.ident⟩

/-- The canonical line is what the N-Quads encoder writes for the relabelled quad. -/
theorem line_is_encoded_quad (T : NQ.Tables) (hT : TablesCanon T) (lab : β → Str) (q : Quad β)
    (hwf : WFQuad T q) : NQ.encodeQuad T false lab true q = some (Spec.RDFC10.nquad lab q) :=
  Proofs.C03.encodeQuad_eq_nquad T (Proofs.C04.encOK_of_tables T hT) lab q hwf

/-- **original_index_correct**: every output line carries the position of the input quad it is the
    relabelling of, and the positions are a permutation of `0 … n-1`. -/
theorem original_index_correct {T : NQ.Tables} {qs : List (Quad β)} {out : Rdfcanon.Out β}
    (hs : Proofs.C03.Shape T qs out) :
    (∀ l ∈ out.lines, ∃ q, qs[l.idx]? = some q ∧ l.encoded = Spec.RDFC10.nquad (Proofs.C03.labelOf out) q) ∧
    (out.lines.map (·.idx)).Perm (List.range qs.length) :=
  Proofs.C03.original_index hs

/-- **lines_sorted_unique**, first half: the lines are in code-point order … -/
theorem lines_sorted {T : NQ.Tables} {qs : List (Quad β)} {out : Rdfcanon.Out β} (hs : Proofs.C03.Shape T qs out) :
    (out.lines.map (·.encoded)).Pairwise (fun a b => strLe a b = true) :=
  Proofs.C03.lines_sorted hs

/-- … second half: strictly, for a duplicate-free sequence of quads the decoder reads back (C01's
    well-formedness: scalar values, IRIs `urlOk` accepts, language tags of the N-Quads grammar). -/
theorem lines_sorted_unique (T : NQ.Tables) (hT1 : C01.TablesOK T) (hT : TablesCanon T) (hL : Proofs.C03.TablesLabel T)
    (urlOk : List Nat → Bool) (qs : List (Quad β)) (out : Rdfcanon.Out β) (hs : Proofs.C03.Shape T qs out)
    (hwf : ∀ q ∈ qs, WFQuad T q) (hwf1 : ∀ q ∈ qs, C01.WFQuad urlOk q) (hnd : qs.Nodup) :
    (out.lines.map (·.encoded)).Pairwise (fun a b => strLt a b = true) :=
  Proofs.C03.lines_strict T hT1 hT hL urlOk qs out hs hwf hwf1 hnd

/-- **parses_back**: the N-Quads decoder (model, C01) reads the canonical bytes back, cleanly, as a
    reordering of the input quads relabelled by the (injective) issued map — an isomorphic dataset. -/
theorem parses_back (T : NQ.Tables) (hT1 : C01.TablesOK T) (hT : TablesCanon T) (hL : Proofs.C03.TablesLabel T)
    (urlOk : List Nat → Bool) (qs : List (Quad β)) (out : Rdfcanon.Out β) (hs : Proofs.C03.Shape T qs out)
    (hwf : ∀ q ∈ qs, WFQuad T q) (hwf1 : ∀ q ∈ qs, C01.WFQuad urlOk q) :
    ∃ qs' : List (Quad β), qs'.Perm qs ∧
      NQ.run T urlOk .eof true out.bytes = (qs'.map (Quad.map (Proofs.C03.labelOf out)), .clean) :=
  Proofs.C03.parses_back T hT1 hT hL urlOk qs out hs hwf hwf1

/-- **Non-isomorphic datasets have different canonical forms** (contrapositive): if two results have
    the same bytes, the two input sequences are reorderings of each other up to the two (injective,
    by `issued_map_is_renaming`) relabellings — the datasets are isomorphic. -/
theorem equal_output_isomorphic {γ : Type} [DecidableEq γ] (T : NQ.Tables) (hT1 : C01.TablesOK T)
    (hT : TablesCanon T) (hL : Proofs.C03.TablesLabel T) (urlOk : List Nat → Bool)
    (qs : List (Quad β)) (out : Rdfcanon.Out β) (hs : Proofs.C03.Shape T qs out)
    (hwf : ∀ q ∈ qs, WFQuad T q) (hwf1 : ∀ q ∈ qs, C01.WFQuad urlOk q)
    (qs2 : List (Quad γ)) (out2 : Rdfcanon.Out γ) (hs2 : Proofs.C03.Shape T qs2 out2)
    (hwf2 : ∀ q ∈ qs2, WFQuad T q) (hwf12 : ∀ q ∈ qs2, C01.WFQuad urlOk q)
    (hb : out.bytes = out2.bytes) :
    ∃ (qs' : List (Quad β)) (qs2' : List (Quad γ)), qs'.Perm qs ∧ qs2'.Perm qs2 ∧
      qs'.map (Quad.map (Proofs.C03.labelOf out)) = qs2'.map (Quad.map (Proofs.C03.labelOf out2)) := by
  obtain ⟨qs', hp, hr⟩ := parses_back T hT1 hT hL urlOk qs out hs hwf hwf1
  obtain ⟨qs2', hp2, hr2⟩ := parses_back T hT1 hT hL urlOk qs2 out2 hs2 hwf2 hwf12
  rw [hb, hr2] at hr
  exact ⟨qs', qs2', hp, hp2, (Prod.mk.inj hr).1.symm⟩

/-- **first_degree_perm**: Hash First Degree Quads does not depend on the order of the quads. -/
theorem first_degree_perm (H : Str → Str) {qs qs' : List (Quad β)} (h : qs.Perm qs') (b : β) :
    Spec.RDFC10.hashFirstDegree H (Spec.RDFC10.bnodeToQuads true qs) b
      = Spec.RDFC10.hashFirstDegree H (Spec.RDFC10.bnodeToQuads true qs') b :=
  Proofs.C03.first_degree_perm H h b

/-- **first_degree_rename**: … nor on the names of the blank nodes. -/
theorem first_degree_rename {γ : Type} [DecidableEq γ] (H : Str → Str) (σ : β → γ)
    (hσ : Function.Injective σ) (qs : List (Quad β)) (b : β) :
    Spec.RDFC10.hashFirstDegree H (Spec.RDFC10.bnodeToQuads true (qs.map (Quad.map σ))) (σ b)
      = Spec.RDFC10.hashFirstDegree H (Spec.RDFC10.bnodeToQuads true qs) b :=
  Proofs.C03.first_degree_rename H σ hσ qs b

/-- The Go code's first-degree hash is the specification's (so the two theorems above are about it). -/
theorem first_degree_model (T : NQ.Tables) (hT : TablesCanon T) (H : Str → Str) (qs : List (Quad β))
    (hwf : ∀ q ∈ qs, WFQuad T q) :
    ∃ st, Rdfcanon.ingest T qs 0 ⟨[], Rdfcanon.newCanonicalIssuer, []⟩ = .ok st ∧
      ∀ b, Rdfcanon.hashFirstDegree H st.b2q b
        = Spec.RDFC10.hashFirstDegree H (Spec.RDFC10.bnodeToQuads true qs) b := by
  obtain ⟨st0, hi1, _, _, hi4, hi5⟩ :=
    Proofs.C04.ingest_wf T qs 0 ⟨[], Rdfcanon.newCanonicalIssuer, []⟩ hwf (by simp)
  refine ⟨st0, hi1, fun b => ?_⟩
  have hsb : Proofs.C04.forget st0.b2q = Spec.RDFC10.bnodeToQuads true qs := by
    rw [hi4, Proofs.C04.bnodeToQuads_eq]; rfl
  exact Proofs.C04.hashFirstDegree_eq T (Proofs.C04.encOK_of_tables T hT) H ⟨hsb, hi5⟩ b

/-- **canon_invariant_simple**: if all first-degree hashes of the dataset are distinct, the Go
    canonicalizer returns a result (no limit is reached) and its bytes are the same for every
    permutation of the quads, every injective relabelling `σ` of the blank nodes, every iteration
    order of Go's maps and every limit configuration; the issued maps correspond through `σ`. -/
theorem canon_invariant_simple {γ : Type} [DecidableEq γ] (T : NQ.Tables) (hT : TablesCanon T)
    (H : Str → Str) (σ : β → γ) (hσ : Function.Injective σ) (qs : List (Quad β)) (qs' : List (Quad γ))
    (hp : qs'.Perm (qs.map (Quad.map σ))) (hwf : ∀ q ∈ qs, WFQuad T q) (hd : Proofs.C03.AllDistinct H qs)
    (lim lim' : Rdfcanon.Limits) (ord : List β → List β) (ord' : List γ → List γ)
    (hord : OrdOK ord) (hord' : OrdOK ord') :
    ∃ out out', Rdfcanon.canon T H lim ord qs = .ok out ∧ Rdfcanon.canon T H lim' ord' qs' = .ok out' ∧
      out.bytes = out'.bytes ∧
      (∀ b ∈ qs.flatMap Spec.RDFC10.quadBnodes, Proofs.C03.labelOf out' (σ b) = Proofs.C03.labelOf out b) :=
  Proofs.C03.canon_invariant_simple T hT H σ hσ qs qs' hp hwf hd lim lim' ord ord' hord hord'

/-- **limit_never_wrong**: on well-formed input the only outcomes are one of the two limit errors or
    a result with the shape above that is the specification's result for every recursion bound ≥
    `maxRecursionDepth + 1` and every admissible enumeration of permutations. No panic, no other answer. -/
theorem limit_never_wrong (T : NQ.Tables) (hT : TablesCanon T) (H : Str → Str) (lim : Rdfcanon.Limits)
    (ord : List β → List β) (hord : OrdOK ord) (qs : List (Quad β)) (hwf : ∀ q ∈ qs, WFQuad T q) :
    (∃ l, Rdfcanon.canon T H lim ord qs = .limit l) ∨
    (∃ out, Rdfcanon.canon T H lim ord qs = .ok out ∧ Proofs.C03.Shape T qs out ∧
      ∀ perms, PermsAgree lim.maxPermutations perms → ∀ fuel, lim.maxRecursionDepth + 1 ≤ fuel →
        Spec.RDFC10.canonFuel H ord perms true fuel qs = some (specView out)) :=
  Proofs.C03.limit_never_wrong T hT H lim ord hord qs hwf

/-- FULL STATEMENT, NOT PROVED, NOT CLAIMED: invariance of the canonical bytes for arbitrary datasets
    (the N-degree phase included), for a hash function without collisions on the strings the algorithm
    hashes (here: injective).  Missing: invariance of Hash N-Degree Quads under `ord` and under the order
    of the blank node lists (a function of the quad order) when hash paths tie only between
    automorphic nodes — the correctness argument of RDFC-1.0 itself, for which no formal proof is
    published.  (Relabelling alone is proved: `canon_invariant_relabel` in Props/C03Relabel.lean, which
    also proves that this statement follows from order invariance.)  Covered by the harness (oracle
    C03) only. -/
def canon_invariant (T : NQ.Tables) (H : Str → Str) : Prop :=
  Function.Injective H →
  ∀ (qs qs' : List (Quad Nat)) (σ : Nat → Nat), Function.Injective σ → qs'.Perm (qs.map (Quad.map σ)) →
  (∀ q ∈ qs, WFQuad T q) → qs.Nodup →
  ∀ (lim : Rdfcanon.Limits) (ord ord' : List Nat → List Nat), OrdOK ord → OrdOK ord' →
  ∀ out out', Rdfcanon.canon T H lim ord qs = .ok out → Rdfcanon.canon T H lim ord' qs' = .ok out' →
    out.bytes = out'.bytes

/-! ### Non-vacuity -/

namespace Witness
open RdfModel.C04.Witness

/-- The witness dataset of `Props/C04.lean` also satisfies C01's well-formedness (any `urlOk` that
    accepts its four IRIs; here: all). -/
theorem wf1 : ∀ q ∈ quads, C01.WFQuad (fun _ => true) q := by
  have sc : ∀ (s : List Nat), s.all isScalarB = true → C01.Scalars s := C01.Witness.scalars
  intro q hq
  simp only [quads, List.mem_cons, List.not_mem_nil, or_false] at hq
  rcases hq with rfl | rfl | rfl
  · exact ⟨trivial, ⟨sc _ (by decide), rfl⟩, trivial, by intro g hg; cases hg; trivial⟩
  · exact ⟨trivial, ⟨sc _ (by decide), rfl⟩,
      ⟨sc _ (by decide), ⟨sc _ (by decide), rfl⟩, rfl, by decide⟩, by intro g hg; cases hg⟩
  · exact ⟨trivial, ⟨sc _ (by decide), rfl⟩, ⟨sc _ (by decide), ⟨sc _ (by decide), rfl⟩, by decide⟩,
      by intro g hg; cases hg; exact ⟨sc _ (by decide), rfl⟩⟩

theorem nodup : quads.Nodup := by decide

/-- A dataset with two blank nodes whose first-degree hashes differ under the identity "hash". -/
def two : List (Quad Nat) := [⟨.bnode 0, p, .bnode 1, none⟩]

theorem two_allDistinct : Proofs.C03.AllDistinct (fun s => s) two := by
  simp [Proofs.C03.AllDistinct, two, Spec.RDFC10.bnodeToQuads, Spec.RDFC10.quadBnodes, Spec.RDFC10.bnodeOf, addToMap,
    Spec.RDFC10.hashFirstDegree, getList, sortStr, Spec.RDFC10.nquad, Spec.RDFC10.term]

end Witness

end RdfModel.C03
