/-
  Property C08, token layer — whatever lexical form a grammar-directed writer chooses for a token
  (`Spec/TurtlePrinter.lean`: every choice the Turtle 1.1 / TriG 1.1 token grammar offers), the
  decoder's producer returns the token's value and stops exactly at the end of the token.
  One model for encoding/turtle and encoding/trig; generic in the tables (`TablesOK`, proved for the
  regenerated tables in `Props/C02TokensTables.lean`). Proofs in `Proofs/C08TokB.lean` and
  `Proofs/C02Tok*.lean`. The document layer (statements, directives, nesting) is `Model/TurtleDoc`.
-/
import RdfModel.Props.C02TokensDefs
import RdfModel.Proofs.C02Tok
import RdfModel.Proofs.C02TokA
import RdfModel.Proofs.C08TokB
namespace RdfModel.C08
open RdfModel RdfModel.Ttl RdfModel.C02 RdfModel.Spec.TtlPrint

/-- IRIREF: each rune raw (where `[^#x00-#x20<>"{}|^`\]` allows), `\uXXXX` or `\UXXXXXXXX`, hex
    digits in either case — every choice list, every scalar string, anything following. -/
theorem decode_print_iriref (T : Tables) (hT : TablesOK T) (e : End) (chs : List Choice) (s : List Nat)
    (hs : Scalars s) (rest : List Nat) :
    produceIRIREF T e (printIRIREF chs s ++ rest) = .ok s rest :=
  Proofs.C08Tok.print_iriref T hT e chs s hs rest

/-- String: the four quoting styles; each rune raw (where the style allows), ECHAR, `\uXXXX` or
    `\UXXXXXXXX`; one or two raw quote characters in a row inside long strings. `StrStop` only
    constrains what follows an *empty short* string. -/
theorem decode_print_string (T : Tables) (hT : TablesOK T) (e : End) (st : Style) (chs : List Choice)
    (s : List Nat) (hs : Scalars s) (rest : List Nat) (hstop : StrStop e st s rest) :
    produceString T e (printString st chs s ++ rest) = .ok s rest :=
  Proofs.C08Tok.print_string T hT e st chs s hs rest hstop

/-- Prefixed name: prefix label as is; each local-name rune raw (where PN_LOCAL allows it at that
    position) or as PN_LOCAL_ESC; `%XX` kept as PERCENT or written `\%XX`. `printPrefixedName`
    answers `none` exactly for values no PN_LOCAL denotes. -/
theorem decode_print_pname (T : Tables) (hT : TablesOK T) (e : End) (chs : List Choice)
    (pfx loc out rest : List Nat) (hp : prefixOK T pfx = true) (hps : Scalars pfx) (hs : Scalars loc)
    (h : printPrefixedName T chs pfx loc = some out) (hstop : LocalStop T e rest) :
    producePrefixedName T e (out ++ rest) = .ok (pfx, loc) rest := by
  simp only [printPrefixedName, Option.map_eq_some_iff] at h
  obtain ⟨l, hl, rfl⟩ := h
  unfold producePrefixedName
  rw [List.append_assoc, List.cons_append, Proofs.C02Tok.pnameNs_ok T e pfx _ hp hps]
  simp only
  rw [Proofs.C08Tok.print_local T hT e chs loc l hs hl rest hstop]

/-- PNAME_NS alone (directives, and names with an empty local part). -/
theorem decode_print_pname_ns (T : Tables) (e : End) (pfx rest : List Nat) (hp : prefixOK T pfx = true)
    (hps : Scalars pfx) : producePNAME_NS T e (pfx ++ 0x3a :: rest) = .ok pfx rest :=
  Proofs.C02Tok.pnameNs_ok T e pfx rest hp hps

/-- Numeric shorthand: every INTEGER / DECIMAL / DOUBLE token (`bareLiteralDatatype` is the token
    grammar) is read back with its grammar rule's datatype and its exact text. -/
theorem decode_print_numeric (e : End) (lex dt rest : List Nat) (h : bareLiteralDatatype lex = some dt)
    (hdt : dt ≠ xsdBoolean) (hstop : NumStop e rest) :
    ∃ k : NumKind, k.datatype = dt ∧ produceNumericLiteral e (lex ++ rest) = .ok (k, lex) rest :=
  Proofs.C02Tok.numeric_shorthand e lex dt rest h hdt hstop

/-- Boolean keywords. -/
theorem decode_print_boolean (e : End) (rest : List Nat) :
    scanBoolean e (asc "true" ++ rest) = .bool true rest ∧
    scanBoolean e (asc "false" ++ rest) = .bool false rest := by
  constructor
  · rcases Proofs.C02Tok.boolean_shorthand e (asc "true") rest (by decide) with h | h
    · exact h.2
    · exact absurd h.1 (by decide)
  · rcases Proofs.C02Tok.boolean_shorthand e (asc "false") rest (by decide) with h | h
    · exact absurd h.1 (by decide)
    · exact h.2

/-- LANGTAG and blank node labels: the text is the value. -/
theorem decode_print_langtag (e : End) (t rest : List Nat) (h : langOK t = true) (hstop : LangStop e rest) :
    produceLANGTAG e (0x40 :: t ++ rest) = .ok t rest :=
  Proofs.C02Tok.langtag_roundtrip e t rest h hstop

theorem decode_print_bnode (T : Tables) (hT : TablesOK T) (e : End) (l rest : List Nat) (hs : Scalars l)
    (hl : labelOK T l = true) (hstop : LabelStop T e rest) :
    produceBlankNode T e (0x5f :: 0x3a :: l ++ rest) = .ok l rest :=
  Proofs.C02Tok.bnode_roundtrip T hT e l rest hs hl hstop

end RdfModel.C08
