/-
  C20F: on the whole lexical space of xsd:double / xsd:float the model of strconv.ParseFloat never
  reports a syntax error (it answers a value or the range error).
-/
import RdfModel.Proofs.C20FloatParse
import RdfModel.Proofs.C20FloatLex
namespace RdfModel.Proofs.C20F
open RdfModel RdfModel.Xsd
open RdfModel.Proofs.C20 (isDigit_eq)
open RdfModel.Spec.Xsd (unsignedNumeral dropSign digits1 doubleLexOK decimalLexOK bNaN bINF signSplit)


/-! ### the special spellings -/

theorem parseFloat_NaN (bits : Nat) : parseFloat bNaN bits = .ok .nan := by
  unfold parseFloat; rfl

theorem parseFloat_INF (bits : Nat) : parseFloat bINF bits = .ok (.inf false) := by
  unfold parseFloat; rfl

theorem parseFloat_pINF (bits : Nat) : parseFloat (0x2B :: bINF) bits = .ok (.inf false) := by
  unfold parseFloat; rfl

theorem parseFloat_mINF (bits : Nat) : parseFloat (0x2D :: bINF) bits = .ok (.inf true) := by
  unfold parseFloat; rfl

theorem dropSign_INF {a : Bytes} (h : dropSign a = bINF) :
    a = bINF ∨ a = 0x2B :: bINF ∨ a = 0x2D :: bINF := by
  cases a with
  | nil => simp [dropSign, bINF] at h
  | cons b r =>
    simp only [dropSign] at h
    split at h
    · next hb => subst h; rcases hb with rfl | rfl <;> simp
    · exact Or.inl h

/-! ### exponent digits -/

theorem rfExp_digits (ds : Bytes) (hd : ∀ c ∈ ds, Spec.Xsd.isDigit c = true) :
    ∀ e us, ∃ ev, rfExp e us ds = (ev, us, []) := by
  induction ds with
  | nil => intro e us; exact ⟨e, by simp [rfExp]⟩
  | cons c r ih =>
    intro e us
    have hc := hd c List.mem_cons_self
    have hc' := (C20.isDigit_iff c).1 hc
    have h1 : c ≠ 0x5F := by omega
    obtain ⟨ev, hev⟩ := ih (fun x hx => hd x (List.mem_cons_of_mem _ hx))
      (if e < 10000 then e * 10 + (c - 0x30) else e) us
    refine ⟨ev, ?_⟩
    rw [rfExp]
    simp only [h1, if_false, isDigit_eq, hc, if_true]
    exact hev


/-- a byte on which the mantissa loop stops -/
def Stop (rest : Bytes) : Prop :=
  ∀ e r, rest = e :: r → Spec.Xsd.isDigit e = false ∧ e ≠ 0x5F ∧ e ≠ 0x2E

theorem rfLoop_stop (st : RF) {rest : Bytes} (h : Stop rest) : rfLoop 10 st rest = (st, rest) := by
  cases rest with
  | nil => exact rfLoop_nil st
  | cons e r =>
    obtain ⟨h0, h1, h2⟩ := h e r rfl
    exact rfLoop_nondigit st e r h0 h1 h2

/-- the mantissa loop on `[0-9]+(\.[0-9]*)?|\.[0-9]+` followed by something it stops at -/
theorem rfLoop_numeral {s rest : Bytes} (h : unsignedNumeral s = some rest) (hr : Stop rest) :
    ∃ st : RF, rfLoop 10 {} s = (st, rest) ∧ st.sawdigits = true ∧ st.underscores = false := by
  obtain ⟨st1, e1, -, -, w1, u1, g1, z1⟩ := rfLoop_span s {} (by simp)
  simp only [spanD] at e1 g1
  unfold unsignedNumeral at h
  generalize Spec.Xsd.spanDigits s = q at *
  obtain ⟨i, r0⟩ := q
  simp only at h e1 g1
  split at h
  · next r' =>
    have w1' : st1.sawdot = false := w1
    obtain ⟨st2, e2, -, -, -, u2, g2, -⟩ :=
      rfLoop_span r' { st1 with sawdot := true, dp := st1.nd } z1
    simp only [spanD] at e2 g2
    generalize Spec.Xsd.spanDigits r' = q2 at *
    obtain ⟨f, r''⟩ := q2
    simp only at h e2 g2
    split at h
    · simp at h
    · next hne =>
      simp only [Option.some.injEq] at h
      subst h
      rw [rfLoop_dot st1 r' w1', e2, rfLoop_stop st2 hr] at e1
      refine ⟨st2, e1, ?_, by rw [u2]; exact u1⟩
      rw [g2]; simp only [g1]
      cases i <;> cases f <;> simp at hne ⊢
  · split at h
    · simp at h
    · next hne =>
      simp only [Option.some.injEq] at h
      subst h
      rw [rfLoop_stop st1 hr] at e1
      refine ⟨st1, e1, ?_, u1⟩
      rw [g1]
      cases i <;> simp at hne ⊢

theorem numeral_head {s rest : Bytes} (h : unsignedNumeral s = some rest) :
    ∃ x t, s = x :: t ∧ (Spec.Xsd.isDigit x = true ∨ x = 0x2E) := by
  cases s with
  | nil => simp [unsignedNumeral, Spec.Xsd.spanDigits] at h
  | cons x t =>
    refine ⟨x, t, rfl, ?_⟩
    by_cases hx : Spec.Xsd.isDigit x = true
    · exact Or.inl hx
    · have hx' : Spec.Xsd.isDigit x = false := by simpa using hx
      unfold unsignedNumeral at h
      rw [C20.spanDigits_nondigit hx'] at h
      simp only at h
      split at h
      · next heq => simp only [List.cons.injEq] at heq; exact Or.inr heq.1
      · simp at h

theorem numeral_nohex {s rest : Bytes} (h : unsignedNumeral s = some rest)
    (hr : ∀ e r, rest = e :: r → lower e ≠ 0x78) :
    ∀ z x c r, s = z :: x :: c :: r → ¬(z = 0x30 ∧ lower x = 0x78) := by
  intro z x c r hs ⟨hz, hl⟩
  subst hs hz
  by_cases hx : Spec.Xsd.isDigit x = true
  · have := (C20.isDigit_iff x).1 hx
    exact lower_ne_x x (by omega) (by omega) hl
  · have hx' : Spec.Xsd.isDigit x = false := by simpa using hx
    have hsd : Spec.Xsd.spanDigits (0x30 :: x :: c :: r) = ([0x30], x :: c :: r) := by
      have h0 : Spec.Xsd.isDigit 0x30 = true := by decide
      rw [Spec.Xsd.spanDigits, C20.spanDigits_nondigit hx']
      simp [h0]
    unfold unsignedNumeral at h
    rw [hsd] at h
    simp only at h
    split at h
    · next heq =>
      simp only [List.cons.injEq] at heq
      rw [heq.1] at hl; revert hl; decide
    · simp at h
      exact hr x (c :: r) h.symm hl


theorem signSplit_cases {a s1 : Bytes} {neg : Bool} (hsp : signSplit a = (neg, s1)) (ha : a ≠ []) :
    (a = 0x2B :: s1 ∧ neg = false) ∨ (a = 0x2D :: s1 ∧ neg = true) ∨
    (a = s1 ∧ neg = false ∧ ∀ z t, s1 = z :: t → z ≠ 0x2B ∧ z ≠ 0x2D) := by
  cases a with
  | nil => exact absurd rfl ha
  | cons b r =>
    by_cases h1 : b = 0x2B
    · subst h1; simp [signSplit] at hsp; simp [hsp]
    · by_cases h2 : b = 0x2D
      · subst h2; simp [signSplit] at hsp; simp [hsp]
      · simp [signSplit, h1, h2] at hsp
        obtain ⟨rfl, rfl⟩ := hsp
        refine Or.inr (Or.inr ⟨rfl, rfl, ?_⟩)
        intro z t hz; cases hz; exact ⟨h1, h2⟩

/-- `readFloat` on mantissa + exponent part -/
theorem readFloat_exp {a s1 : Bytes} {neg : Bool} {st : RF} {e sg d ev : Nat} {r3 t : Bytes} {es : Int}
    (hsp : signSplit a = (neg, s1)) (ha : a ≠ [])
    (hx : ∀ z x c r, s1 = z :: x :: c :: r → ¬(z = 0x30 ∧ lower x = 0x78))
    (hloop : rfLoop 10 {} s1 = (st, e :: sg :: r3)) (hd : st.sawdigits = true)
    (hu : st.underscores = false) (he : lower e = 0x65)
    (h4 : (if sg = 0x2B then ((1 : Int), r3) else if sg = 0x2D then (-1, r3) else (1, sg :: r3)) = (es, d :: t))
    (hdd : Xsd.isDigit d = true)
    (hexp : rfExp 0 false (d :: t) = (ev, false, [])) :
    readFloat a = some (.fin neg st.mant 10
      (if st.mant ≠ 0 then (if st.sawdot then st.dp else (st.nd : Int)) + (ev : Int) * es - st.nd else 0)
      st.nd, a.length) := by
  unfold readFloat
  rcases signSplit_cases hsp ha with ⟨rfl, rfl⟩ | ⟨rfl, rfl⟩ | ⟨rfl, rfl, hb⟩
  · rcases s1 with _ | ⟨z, _ | ⟨x, _ | ⟨c, r'⟩⟩⟩
    · simp [hloop, hd, hu, he, h4, hdd, hexp]
    · simp [hloop, hd, hu, he, h4, hdd, hexp]
    · simp [hloop, hd, hu, he, h4, hdd, hexp]
    · have := hx z x c r' rfl
      simp [if_neg this, hloop, hd, hu, he, h4, hdd, hexp]
  · rcases s1 with _ | ⟨z, _ | ⟨x, _ | ⟨c, r'⟩⟩⟩
    · simp [hloop, hd, hu, he, h4, hdd, hexp]
    · simp [hloop, hd, hu, he, h4, hdd, hexp]
    · simp [hloop, hd, hu, he, h4, hdd, hexp]
    · have := hx z x c r' rfl
      simp [if_neg this, hloop, hd, hu, he, h4, hdd, hexp]
  · rcases a with _ | ⟨z, _ | ⟨x, _ | ⟨c, r'⟩⟩⟩
    · exact absurd rfl ha
    · obtain ⟨h1, h2⟩ := hb z [] rfl
      simp [h1, h2, hloop, hd, hu, he, h4, hdd, hexp]
    · obtain ⟨h1, h2⟩ := hb z [x] rfl
      simp [h1, h2, hloop, hd, hu, he, h4, hdd, hexp]
    · obtain ⟨h1, h2⟩ := hb z (x :: c :: r') rfl
      have := hx z x c r' rfl
      simp [h1, h2, if_neg this, hloop, hd, hu, he, h4, hdd, hexp]

/-- shape of the exponent part `[+-]?[0-9]+` -/
theorem exp_shape {r : Bytes} (h : digits1 (dropSign r) = true) :
    ∃ (sg : Nat) (r3 : Bytes) (es : Int) (d : Nat) (t : Bytes), r = sg :: r3 ∧
      (if sg = 0x2B then ((1 : Int), r3) else if sg = 0x2D then (-1, r3) else (1, sg :: r3)) = (es, d :: t) ∧
      (∀ c ∈ d :: t, Spec.Xsd.isDigit c = true) := by
  cases r with
  | nil => simp [dropSign, digits1] at h
  | cons sg r3 =>
    simp only [dropSign] at h
    by_cases h1 : sg = 0x2B
    · subst h1
      simp only [true_or, if_true] at h
      cases r3 with
      | nil => simp [digits1] at h
      | cons d t =>
        refine ⟨0x2B, d :: t, 1, d, t, rfl, by simp, ?_⟩
        simp only [digits1, Bool.and_eq_true, List.all_eq_true] at h
        exact h.2
    · by_cases h2 : sg = 0x2D
      · subst h2
        simp only [or_true, if_true] at h
        cases r3 with
        | nil => simp [digits1] at h
        | cons d t =>
          refine ⟨0x2D, d :: t, -1, d, t, rfl, by simp, ?_⟩
          simp only [digits1, Bool.and_eq_true, List.all_eq_true] at h
          exact h.2
      · have : ¬(sg = 0x2B ∨ sg = 0x2D) := by simp [h1, h2]
        rw [if_neg this] at h
        refine ⟨sg, r3, 1, sg, r3, rfl, by simp [h1, h2], ?_⟩
        simp only [digits1, Bool.and_eq_true, List.all_eq_true] at h
        exact h.2

/-- mantissa + exponent: `readFloat` consumes the whole string -/
theorem readFloat_sci {a : Bytes} {e : Nat} {r : Bytes}
    (hn : unsignedNumeral (dropSign a) = some (e :: r)) (he : e = 0x45 ∨ e = 0x65)
    (hr : digits1 (dropSign r) = true) :
    special a = none ∧ ∃ neg m x nd, readFloat a = some (.fin neg m 10 x nd, a.length) := by
  have hsp : signSplit a = ((signSplit a).1, dropSign a) := by rw [← signSplit_snd]
  have ha : a ≠ [] := by
    intro h0; subst h0; simp [dropSign, unsignedNumeral, Spec.Xsd.spanDigits] at hn
  have hle : lower e = 0x65 := by rcases he with rfl | rfl <;> decide
  have hstop : Stop (e :: r) := by
    intro e' r' h; cases h
    rcases he with rfl | rfl <;> decide
  obtain ⟨x, t0, hs, hx⟩ := numeral_head hn
  have hnohex := numeral_nohex hn (by
    intro e' r' h; cases h; rw [hle]; decide)
  obtain ⟨st, hl, hd, hu⟩ := rfLoop_numeral hn hstop
  obtain ⟨sg, r3, es, d, t, rfl, h4, hall⟩ := exp_shape hr
  obtain ⟨ev, hev⟩ := rfExp_digits (d :: t) hall 0 false
  have hdd : Xsd.isDigit d = true := by rw [isDigit_eq]; exact hall d List.mem_cons_self
  exact ⟨special_none hsp hs hx, _, _, _, _, readFloat_exp hsp ha hnohex hl hd hu hle h4 hdd hev⟩

/-- on the lexical space of xsd:double (and xsd:float) strconv.ParseFloat (the model) never reports a
    syntax error -/
theorem parseFloat_double {a : Bytes} (h : Spec.Xsd.doubleLexOK a = true) (bits : Nat) :
    (∃ v, parseFloat a bits = .ok v) ∨ parseFloat a bits = .error .range := by
  unfold doubleLexOK at h
  split at h
  · next hnan => subst hnan; exact Or.inl ⟨_, parseFloat_NaN bits⟩
  · split at h
    · next hinf =>
      rcases dropSign_INF hinf with rfl | rfl | rfl
      · exact Or.inl ⟨_, parseFloat_INF bits⟩
      · exact Or.inl ⟨_, parseFloat_pINF bits⟩
      · exact Or.inl ⟨_, parseFloat_mINF bits⟩
    · split at h
      · next heq =>
        have hok : decimalLexOK a = true := by unfold decimalLexOK; rw [heq]
        obtain ⟨neg, n, k, hdl⟩ := decimalLex_of_OK hok
        obtain ⟨nd, hp⟩ := parseFloat_decimal hdl bits
        rw [hp]
        generalize FVal.fin neg n 10 _ nd = v
        by_cases ho : overflows bits v = true
        · rw [if_pos ho]; exact Or.inr rfl
        · rw [if_neg ho]; exact Or.inl ⟨_, rfl⟩
      · next e r heq =>
        simp only [Bool.and_eq_true, decide_eq_true_eq] at h
        obtain ⟨hsn, neg, m, x, nd, hrf⟩ := readFloat_sci heq h.1 h.2
        unfold parseFloat
        rw [hsn, hrf]
        simp only [ne_eq, not_true_eq_false, if_false]
        generalize FVal.fin neg m 10 x nd = v
        by_cases ho : overflows bits v = true
        · rw [if_pos ho]; exact Or.inr rfl
        · rw [if_neg ho]; exact Or.inl ⟨_, rfl⟩
      · simp at h

end RdfModel.Proofs.C20F
