/-
  Property theorems about the executable model of the RDF/XML decoder (Model/RdfXmlDecoder.lean, the
  model the driver op `rxd.dec` runs).  Serves C05 (no panic, termination), C06 (shape of the emitted
  statements), C09 (the decoder itself, not only the fragment semantics).

  Termination / bounded time: `RXD.run` is structural recursion over the token list and performs
  exactly one `RXD.step` per token (no fuel): the decoder model reads each token once and never
  backtracks, so the number of steps is at most the number of tokens — there is nothing to prove beyond
  the definition being accepted by Lean's structural termination checker.  Every loop inside a step is
  structural recursion over the attribute list of the current start tag.

  Proved here (all about `RXD.decode`, the function the driver op `rxd.dec` runs)
    * `rxd_no_panic`            (C05) for every parameter instance with `EmptyRefOK`, every default base, every token
                                list and every terminator the model does not reach `panic`
    * `rxd_no_panic_needs_hyp`  the hypothesis is needed: a witness where `Base.Parse("")` fails panics
    * `rxd_error_hides_statements`  on an error nothing is observable (decoder.go's Next)
    * `rxd_emits_wf`            (C06) every appended statement is well-formed, also before an error; no hypotheses
    * `rxd_decode_render_leaf`  (C09) leaf fragment: decoder model on the tokens of a rendered well-formed plan =
                                the intended triples, as lists
    * `rxd_refines_denote_partial`          … hence = `RX.denoteDoc` of the rendered tree (leaf fragment, exact)
    * `rxd_decode_render_striped`, `rxd_refines_denote_striped_partial`
                                the same for the striped fragment (leaf + nested node elements + parseType="Resource" +
                                property attributes on empty property elements), up to a permutation (same blank nodes)
    * `rxd_decode_write_flat`(`_rfc3986`)   decoder ∘ tokens ∘ flat writer = the graph, exactly
    * `rxd_decode_write_partial`            decoder ∘ tokens ∘ `RX.write g ch` ≅ g for every striped choice
    * `emptyRefNoFrag_rfc3986`  the resolver hypothesis of the above holds for RFC 3986 resolution
    * `rxd_accepts_more`        the decoder accepts a document the grammar rejects ("error iff error" is false)
    * `Witness.rxd_refines_denote_witness`  ONE instance of the full refinement statement incl. a collection (with
                                the renaming it needs), by kernel evaluation
  NOT proved: `RxdRefinesDenote` in full (stays a `def`): parseType="Collection", rdf:ID on node elements, rdf:-namespace
  property attributes (rdf:type="…"), and trees that are not `renderDoc` of a plan
  (attribute order, white space, comments) are covered by the T3 correspondence of go/cmd/c09 -mode dec only.
-/
import RdfModel.Proofs.C09DecNoPanic
import RdfModel.Proofs.C09DecWF
import RdfModel.Proofs.C09DecSim
import RdfModel.Proofs.C09DecRfc
import RdfModel.Proofs.C09DecSim2
import RdfModel.Props.C09
import RdfModel.Props.C09DecDefs
import RdfModel.Model.RdfXmlTokens
import RdfModel.Spec.RFC3986
namespace RdfModel.C09Dec
open RdfModel RdfModel.Desc RdfModel.RX RdfModel.RXD

/-- the parameter instance of the driver (without a render table) -/
def rfcParams : Params :=
  { resolve := fun b r => some (Spec.RFC3986.resolve b r), parseOK := fun _ => true, render := fun _ => some [] }

/-- **C05 for the RDF/XML decoder model.**  Whatever the tokenizer delivers — any token list (balanced or
    not), any terminator — and whatever the default base, the decoder model never reaches a Go panic
    (unchecked type assertion, slice index, nil dereference), as long as `Base.Parse("")` cannot fail. -/
theorem rxd_no_panic (P : Params) (hP : P.EmptyRefOK) (base : Option Str) (toks : List Tok) (fin : Fin) :
    decode P base toks fin ≠ .panic :=
  run_np hP _ _ _ _ _

/-- the hypothesis holds for the driver's instance … -/
example : rfcParams.EmptyRefOK := by intro b; simp [rfcParams]

/-- … and for every instance whose `resolve` is total -/
example (f : Str → Str → Str) (ok : Str → Bool) (r : List Tok → Option Str) :
    Params.EmptyRefOK { resolve := fun b v => some (f b v), parseOK := ok, render := r } := by
  intro b; simp

/-- `ResolveIRI("")` dereferences the result of `Base.Parse("")` without looking at the error: were it
    able to fail, `<rdf:Description rdf:about=""/>` would panic. -/
theorem rxd_no_panic_needs_hyp :
    decode { resolve := fun _ _ => none, parseOK := fun _ => true, render := fun _ => some [] }
      (some (asc "http://e/")) [.start rdfNS n_Description [⟨rdfNS, n_about, []⟩]] .eof = .panic := by
  decide

/-- `Next` returns false as soon as `parseAll` has set an error: no statement is observable then -/
theorem rxd_error_hides_statements (e : E) (ts : List T) : observe (.err e ts) = some (.error e) := rfl

/-! ## Shape of the emitted statements -/

/-- **C06 for the RDF/XML decoder model.**  Every statement appended to `d.statements` — observable or
    discarded because of a later error — has an IRI or blank node as subject (the predicate is an IRI and a
    literal has a datatype by type), and a literal object carries a language tag exactly when its
    datatype is rdf:langString, the tag is then non-empty, and the datatype is never rdf:dirLangString.
    No hypothesis on the parameters, the token list or the terminator.  (Not covered: that IRIs are
    non-empty/absolute — `rdf:datatype=""` without any base yields the datatype IRI `""`, exactly as in Go.) -/
theorem rxd_emits_wf (P : Params) (base : Option Str) (toks : List Tok) (fin : Fin) :
    ∀ t ∈ emitted (decode P base toks fin), WFTriple t :=
  run_wf _ _ _ _ _ (by intro l hl; simp [Ctx.init] at hl) (by intro f hf; cases hf) (by intro t ht; cases ht)

/-! ## The decoder model against the fragment semantics (C09) -/

/-- FULL refinement statement (NOT proved; `rxd_refines_denote_partial` below proves it for rendered plans of
    the leaf fragment with `=` instead of permutation/renaming): on the token stream of a tree the
    denotation accepts, the decoder model yields the denotation up to a permutation of the statements and a
    bijective renaming of generated blank nodes.  Permutation and renaming cannot be dropped: the decoder
    emits the statement of a resourcePropertyElt after the nested node element's statements, emits the
    property-attribute statements of an empty property element before the element's own statement, emits
    rdf:type / rdf:-namespace property attributes of a node element at another position than the other property
    attributes, and numbers a collection cell after its item; the denotation does each the other way round.
    Only this direction can hold: the decoder accepts more than the grammar (non-white-space text between
    elements, attributes without namespace, property attributes on rdf:RDF are ignored; rdf:ID values of property
    elements are not checked for uniqueness), so "error iff error" is false — see `rxd_accepts_more`. -/
def RxdRefinesDenote : Prop :=
  ∀ (rs : Str → Str → Str) (base : Str) (t : Node) (ts : List T), EmptyRefNoFrag rs →
    denoteDoc rs ⟨base, none⟩ t = .ok ts →
    ∃ (ts' : List T) (σ : BN → BN), (∀ a b, σ a = σ b → a = b) ∧ (∀ b, ∃ a, σ a = b) ∧
      decode (mkP rs (fun c => ((rawTable t).lookup c).getD (some []))) (some base) (tokensDoc t) .eof = .ok ts' ∧
      (ts'.map (Triple.map σ)).Perm ts

/-- **Decoder model on rendered plans of the leaf fragment.**  For every resolution function (total, resolving
    the empty reference to something without fragment), every document base and every well-formed plan `d` of
    the LEAF fragment (`leafDoc`, Props/C09DecDefs.lean: typed / rdf:Description node elements with rdf:about /
    rdf:nodeID / anonymous subjects, xml:base and xml:lang on any element, literal property attributes outside
    the RDF namespace, property elements that are literal / rdf:datatype / empty / rdf:resource / rdf:nodeID /
    parseType="Literal"-or-other, written by name or as rdf:li, with or without rdf:ID reification), the decoder
    model run on the token stream of the rendered tree ends cleanly and yields EXACTLY the plan's intended
    triples: same statements, same order, same generated blank nodes.
    `render`: the encoder parameter must give back opaque parseType="Literal" content. -/
theorem rxd_decode_render_leaf (rs : Str → Str → Str) (hf : EmptyRefNoFrag rs) (render : List Tok → Option Str)
    (hr : ∀ c, render [.chars c] = some c) (base : Str) (d : PDoc) (hleaf : leafDoc d = true)
    (hwf : wfDoc rs ⟨base, none⟩ d = true) :
    decode (mkP rs render) (some base) (tokensDoc (renderDoc d)) .eof = .ok (flatDoc d) :=
  doc_sim hf hr base d hleaf hwf

/-- **Refinement to the fragment semantics, partial.**  Under the hypotheses of `rxd_decode_render_leaf` the
    decoder model and `RX.denoteDoc` agree on the rendered tree: same statements in the same order.
    MISSING with respect to `RxdRefinesDenote` (covered by T3 only): trees that are not `renderDoc` of a plan
    (other attribute orders, white-space / split text, comments, processing instructions), and the productions
    outside the leaf fragment: resourcePropertyElt (nested node elements), parseType="Resource",
    parseType="Collection", rdf:ID on node elements (the used-ID bookkeeping), rdf:type and other rdf:-namespace
    property attributes, property attributes / lone rdf:datatype on empty property elements. -/
theorem rxd_refines_denote_partial (rs : Str → Str → Str) (hf : EmptyRefNoFrag rs) (render : List Tok → Option Str)
    (hr : ∀ c, render [.chars c] = some c) (base : Str) (d : PDoc) (hleaf : leafDoc d = true)
    (hwf : wfDoc rs ⟨base, none⟩ d = true) :
    observe (decode (mkP rs render) (some base) (tokensDoc (renderDoc d)) .eof) =
      some ((denoteDoc rs ⟨base, none⟩ (renderDoc d)).mapError (fun _ => E.xmlSyntax)) := by
  rw [rxd_decode_render_leaf rs hf render hr base d hleaf hwf, C09.denote_render rs ⟨base, none⟩ d hwf]
  rfl

theorem leafDoc_flatPlan {β : Type} (label : β → Str) (g : List (Triple β)) : leafDoc (flatPlan label g) = true := by
  simp only [leafDoc, flatPlan, List.all_map, List.all_eq_true]
  intro t _
  simp only [Function.comp, flatPlanNode, leafNode, List.all_nil, List.all_cons, Bool.and_true]
  have h1 : leafSubj (flatSubj label t.s) = true := by cases t.s <;> rfl
  have h2 : leafProp (flatProp1 label t.p t.o) = true := by
    cases t.o with
    | iri i => rfl
    | bnode b => rfl
    | lit lex dt lang =>
      cases lang with
      | some l => simp only [flatProp1]; split <;> rfl
      | none => simp only [flatProp1]; split <;> (try split) <;> rfl
  simp [h1, h2]

/-- **Decoder ∘ tokens ∘ flat writer = identity** (the composition with C09's `flatPlan_ok`): every graph of
    the fragment, written in the unabbreviated style the writer `RX.write` falls back to (one rdf:Description per
    triple, rdf:about / rdf:nodeID subjects, rdf:resource / rdf:nodeID / text objects with xml:lang or
    rdf:datatype), is decoded by the decoder model to exactly that graph, statement by statement in order,
    each blank node `b` becoming the one named `label b`. -/
theorem rxd_decode_write_flat {β : Type} (rs : Str → Str → Str) (hf : EmptyRefNoFrag rs) (render : List Tok → Option Str)
    (hr : ∀ c, render [.chars c] = some c) (base : Str) (label : β → Str) (hl : C09.LabelsOK label)
    (g : List (Triple β)) (hg : ∀ t ∈ g, C09.TripleOK rs base t) :
    decode (mkP rs render) (some base) (tokensDoc (renderDoc (flatPlan label g))) .eof =
      .ok (g.map (Triple.map (fun b => BN.named (label b)))) := by
  obtain ⟨h1, h2⟩ := C09.flatPlan_ok rs base label hl g hg
  rw [rxd_decode_render_leaf rs hf render hr base _ (leafDoc_flatPlan label g) h1, h2]

/-- **Decoder model on rendered plans of the striped fragment.**  The leaf fragment plus the two nesting
    productions resourcePropertyElt (nested node elements, to any depth) and parseType="Resource" (nested property
    lists with their own rdf:li counter and generated blank node), and empty property elements with literal property
    attributes / rdf:resource / rdf:nodeID / a lone rdf:datatype, `stripedDoc` in Props/C09DecDefs.lean: the decoder
    model ends cleanly and yields the plan's intended triples with the SAME generated blank nodes, as a
    permutation (it emits the statement of a resourcePropertyElt, and its reification, after the statements of
    the nested node element, and the property-attribute statements of an empty property element before the
    element's own statement; `flatDoc`/`denoteDoc` do it the other way round). -/
theorem rxd_decode_render_striped (rs : Str → Str → Str) (hf : EmptyRefNoFrag rs) (render : List Tok → Option Str)
    (hr : ∀ c, render [.chars c] = some c) (base : Str) (d : PDoc) (hs : stripedDoc d = true)
    (hwf : wfDoc rs ⟨base, none⟩ d = true) :
    ∃ ts, decode (mkP rs render) (some base) (tokensDoc (renderDoc d)) .eof = .ok ts ∧ ts.Perm (flatDoc d) :=
  docS hf hr base d hs hwf

/-- **Refinement to the fragment semantics, partial (striped fragment).**  On the rendered tree of every
    well-formed striped plan the decoder model and `RX.denoteDoc` both succeed and yield the same statements with
    the same blank nodes, up to a permutation.
    MISSING with respect to `RxdRefinesDenote`: trees that are not `renderDoc` of a plan (attribute order,
    white-space / split text, comments, processing instructions); parseType="Collection" (needs the renaming
    of cells/items); rdf:ID on node elements; rdf:type and other rdf:-namespace property attributes.  All of these
    are exercised by T3 only. -/
theorem rxd_refines_denote_striped_partial (rs : Str → Str → Str) (hf : EmptyRefNoFrag rs) (render : List Tok → Option Str)
    (hr : ∀ c, render [.chars c] = some c) (base : Str) (d : PDoc) (hs : stripedDoc d = true)
    (hwf : wfDoc rs ⟨base, none⟩ d = true) :
    ∃ ts ds, decode (mkP rs render) (some base) (tokensDoc (renderDoc d)) .eof = .ok ts ∧
      denoteDoc rs ⟨base, none⟩ (renderDoc d) = .ok ds ∧ ts.Perm ds := by
  obtain ⟨ts, h1, h2⟩ := rxd_decode_render_striped rs hf render hr base d hs hwf
  exact ⟨ts, flatDoc d, h1, C09.denote_render rs ⟨base, none⟩ d hwf, h2⟩

/-- **Decoder ∘ tokens ∘ writer, partial**: for every choice whose plan lies in the striped fragment the
    decoder model reads back what `RX.write` wrote: the graph up to a permutation of the statements and the
    renaming of blank nodes given by the choice (or by `label` when the choice is invalid and the flat plan is
    used).  With `hσ` injective this is graph isomorphism.
    MISSING: choices outside the striped fragment (collections, rdf:ID subjects, rdf:type attributes, …). -/
theorem rxd_decode_write_partial {β : Type} (rs : Str → Str → Str) (hf : EmptyRefNoFrag rs) (render : List Tok → Option Str)
    (hr : ∀ c, render [.chars c] = some c) (base : Str) (label : β → Str) (hl : C09.LabelsOK label)
    (g : List (Triple β)) (hg : ∀ t ∈ g, C09.TripleOK rs base t) (ch : Choices β) (hs : stripedDoc ch.plan = true) :
    ∃ (out : List T) (σ : β → BN),
      decode (mkP rs render) (some base) (tokensDoc (write rs base label g ch)) .eof = .ok out ∧
      out.Perm (g.map (Triple.map σ)) ∧ (σ = ch.rename ∨ σ = fun b => BN.named (label b)) := by
  unfold write
  split
  · rename_i hc
    simp only [Bool.and_eq_true, List.isPerm_iff] at hc
    obtain ⟨ts, h1, h2⟩ := rxd_decode_render_striped rs hf render hr base _ hs hc.1
    exact ⟨ts, ch.rename, h1, h2.trans hc.2, .inl rfl⟩
  · exact ⟨_, _, rxd_decode_write_flat rs hf render hr base label hl g hg, List.Perm.refl _, .inr rfl⟩

/-- the decoder accepts documents the grammar rejects (stray text between property elements): "error iff
    error" does not hold, only `denote ok → decoder ok` can -/
def strayTree : Node :=
  .elem rdfNS n_RDF [] [.elem rdfNS n_Description [⟨rdfNS, n_about, asc "http://e/s"⟩]
    [.text (asc "stray"), .elem (asc "http://e/") (asc "p") [] [.text (asc "v")]]]

def isSyntaxError : Except Err (List T) → Bool
  | .error .syntax => true
  | _ => false

theorem rxd_accepts_more :
    isSyntaxError (denoteDoc Spec.RFC3986.resolve ⟨asc "http://b/", none⟩ strayTree) = true ∧
    decode rfcParams (some (asc "http://b/")) (tokensDoc strayTree) .eof =
      .ok [⟨.iri (asc "http://e/s"), asc "http://e/p", .lit (asc "v") xsdString none⟩] := by
  decide

/-! ## The hypotheses hold for the driver's instance; non-vacuity -/

/-- RFC 3986 resolution (the driver's instance of `resolve`) resolves the empty reference to a string without
    fragment: the hypothesis `EmptyRefNoFrag` of the theorems above holds for it. -/
theorem emptyRefNoFrag_rfc3986 : EmptyRefNoFrag Spec.RFC3986.resolve := RXD.emptyRefNoFrag_rfc3986

/-- `rxd_decode_write_flat` for RFC 3986 resolution, no hypothesis on the resolver left -/
theorem rxd_decode_write_flat_rfc3986 {β : Type} (render : List Tok → Option Str) (hr : ∀ c, render [.chars c] = some c)
    (base : Str) (label : β → Str) (hl : C09.LabelsOK label) (g : List (Triple β))
    (hg : ∀ t ∈ g, C09.TripleOK Spec.RFC3986.resolve base t) :
    decode (mkP Spec.RFC3986.resolve render) (some base) (tokensDoc (renderDoc (flatPlan label g))) .eof =
      .ok (g.map (Triple.map (fun b => BN.named (label b)))) :=
  rxd_decode_write_flat _ emptyRefNoFrag_rfc3986 render hr base label hl g hg

namespace LeafWitness
def s (x : String) : Str := asc x
def ex : Str := s "http://e/"

/-- a render parameter that gives back opaque content -/
def render : List Tok → Option Str
  | [.chars c] => some c
  | _ => some []

/-- a plan of the leaf fragment: xml:base + xml:lang on rdf:RDF, a typed node with a relative rdf:about and a property
    attribute, a literal property with xml:lang="" and rdf:ID (reified), rdf:li with rdf:datatype, an empty rdf:li,
    rdf:resource under a nested xml:base, rdf:nodeID, parseType="Literal"; an anonymous second node -/
def plan : PDoc :=
  { sc := { base := some (s "http://b/d/"), lang := some (s "en") }
    nodes := [
      .mk {} (.about (s "http://b/d/a") (s "a")) (some (ex, s "T")) [.lit ex (s "pa") (s "v") (some (s "en"))]
        [.lit { lang := some [] } (.el ex (s "p")) (some (s "http://b/d/#r1", s "r1")) (s "hi") none,
         .typed {} (.li (rdfMember 1)) none (s "1") (s "http://b/d/dt") (s "dt"),
         .empty {} (.li (rdfMember 2)) none (some (s "en")),
         .res { base := some (s "http://o/") } (.el ex (s "q")) none (s "http://o/x") (s "x") [],
         .bref {} (.el ex (s "r")) none (s "n1") [],
         .ptLit {} (.el ex (s "t")) none (s "Literal") (s "<a/>")],
      .mk {} (.anon 0) none [] [] ] }

theorem plan_leaf : leafDoc plan = true := by decide
theorem plan_wf : wfDoc Spec.RFC3986.resolve ⟨s "http://b/doc", none⟩ plan = true := by decide

/-- the hypotheses of `rxd_decode_render_leaf` are satisfiable by a non-trivial plan (12 statements) -/
example : decode (mkP Spec.RFC3986.resolve render) (some (s "http://b/doc")) (tokensDoc (renderDoc plan)) .eof =
    .ok (flatDoc plan) :=
  rxd_decode_render_leaf _ emptyRefNoFrag_rfc3986 render (fun _ => rfl) _ plan plan_leaf plan_wf

example : (flatDoc plan).length = 12 := by decide

/-- … and those of the writer theorems by C09's witness graph -/
example : decode (mkP Spec.RFC3986.resolve render) (some C09.Witness.base)
    (tokensDoc (renderDoc (flatPlan C09.Witness.label C09.Witness.g))) .eof =
    .ok (C09.Witness.g.map (Triple.map (fun b => BN.named (C09.Witness.label b)))) :=
  rxd_decode_write_flat_rfc3986 render (fun _ => rfl) _ _ C09.Witness.labelsOK _ C09.Witness.g_ok

/-- a plan of the striped fragment: a nested node element (reified by rdf:ID, typed, with its own rdf:li) and a
    parseType="Resource" property holding an rdf:li and a nested anonymous node -/
def splan : PDoc :=
  { sc := { base := some (s "http://b/d/") }
    nodes := [
      .mk {} (.about (s "http://b/d/a") (s "a")) none []
        [.node {} (.li (rdfMember 1)) (some (s "http://b/d/#r2", s "r2"))
           (.mk { lang := some (s "de") } (.anon 0) (some (ex, s "T")) []
              [.lit {} (.li (rdfMember 1)) none (s "x") (some (s "de"))]),
         .ptRes {} (.el ex (s "u")) none 1
           [.empty {} (.li (rdfMember 1)) none none,
            .node {} (.el ex (s "w")) none (.mk {} (.anon 2) none [] []),
            .res {} (.el ex (s "x")) none (s "http://b/d/o") (s "o") [.lit ex (s "pa") (s "1") none],
            .banon {} (.el ex (s "y")) none 3 none [.lit ex (s "pb") (s "2") none]]] ] }

theorem splan_striped : stripedDoc splan = true := by decide
theorem splan_wf : wfDoc Spec.RFC3986.resolve ⟨s "http://b/doc", none⟩ splan = true := by decide

/-- the hypotheses of `rxd_decode_render_striped` are satisfiable by a plan that uses both nesting productions -/
example : ∃ ts, decode (mkP Spec.RFC3986.resolve render) (some (s "http://b/doc")) (tokensDoc (renderDoc splan)) .eof = .ok ts ∧
    ts.Perm (flatDoc splan) :=
  rxd_decode_render_striped _ emptyRefNoFrag_rfc3986 render (fun _ => rfl) _ splan splan_striped splan_wf

/-- the permutation is needed: here the decoder's order is not `flatDoc`'s -/
example : decode (mkP Spec.RFC3986.resolve render) (some (s "http://b/doc")) (tokensDoc (renderDoc splan)) .eof ≠
    .ok (flatDoc splan) := by decide

/-- the hypotheses of `rxd_decode_write_partial` are satisfiable: C09's witness graph with C09's striped choice
    (relative rdf:about under xml:base, a nested anonymous node element with rdf:li, xml:lang="" on a node, rdf:datatype
    under a nested xml:base) — the writer uses that choice (`C09.Witness.plan2_wf`, `plan2_writes_g`) -/
theorem witness_choice_striped : stripedDoc C09.Witness.plan2 = true := by decide

example : ∃ (out : List T) (σ : Bool → BN),
    decode (mkP Spec.RFC3986.resolve render) (some C09.Witness.base)
      (tokensDoc (write Spec.RFC3986.resolve C09.Witness.base C09.Witness.label C09.Witness.g ⟨C09.Witness.plan2, C09.Witness.rename⟩)) .eof = .ok out ∧
    out.Perm (C09.Witness.g.map (Triple.map σ)) ∧
    (σ = C09.Witness.rename ∨ σ = fun b => BN.named (C09.Witness.label b)) :=
  rxd_decode_write_partial _ emptyRefNoFrag_rfc3986 render (fun _ => rfl) _ _ C09.Witness.labelsOK _ C09.Witness.g_ok
    ⟨C09.Witness.plan2, C09.Witness.rename⟩ witness_choice_striped

end LeafWitness

/-! ## One checked instance of the refinement statement -/

namespace Witness
def exNS : Str := asc "http://e/"
def wTree : Node :=
  .elem rdfNS n_RDF [⟨xmlNS, n_base, asc "http://b/d/"⟩] [
    .elem exNS (asc "T") [⟨rdfNS, n_about, asc "s"⟩, ⟨xmlNS, n_lang, asc "en"⟩, ⟨exNS, asc "a", asc "v"⟩] [
      .elem exNS (asc "p") [⟨rdfNS, n_ID, asc "r1"⟩] [.text (asc "hi")],
      .elem rdfNS n_li [] [.elem rdfNS n_Description [⟨rdfNS, n_nodeID, asc "n"⟩] []],
      .elem exNS (asc "q") [⟨rdfNS, n_parseType, n_Collection⟩] [.elem rdfNS n_Description [] []],
      .elem exNS (asc "r") [⟨rdfNS, n_parseType, n_Resource⟩] [.elem rdfNS n_li [⟨rdfNS, n_resource, asc "#x"⟩] []]]]

def swap01 : BN → BN
  | .gen 0 => .gen 1
  | .gen 1 => .gen 0
  | b => b

def agrees (base : Str) (t : Node) (σ : BN → BN) : Bool :=
  match decode rfcParams (some base) (tokensDoc t) .eof, denoteDoc Spec.RFC3986.resolve ⟨base, none⟩ t with
  | .ok ts, .ok ds => (ts.map (Triple.map σ)).isPerm ds
  | _, _ => false

/-- INSTANCE of `RxdRefinesDenote`, checked by kernel evaluation (not the general theorem): on a tree using a
    typed node element, rdf:about relative to a nested xml:base, xml:lang, a property attribute, a literal
    property element with rdf:ID (reification), rdf:li with a nested rdf:nodeID node, parseType="Collection" and
    parseType="Resource" with its own rdf:li counter, the decoder model yields the denotation up to a
    permutation and the renaming that swaps the collection cell with its item. -/
theorem rxd_refines_denote_witness : agrees (asc "http://b/doc") wTree swap01 = true := by decide
/-- `rxd_emits_wf` is not vacuous: this run emits 13 statements -/
example : (emitted (decode rfcParams (some (asc "http://b/doc")) (tokensDoc wTree) .eof)).length = 13 := by decide

end Witness

end RdfModel.C09Dec
