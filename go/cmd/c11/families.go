package main

// Round-3 generator families (each named in the report's histograms):
//
//	ids on ancestors      `id` attributes are irrelevant markup for RDFa and JSON-LD, and for Microdata they matter only
//	                      as itemref targets: decorateIDs gives any element of a document (html, head, body, wrappers,
//	                      items, property elements, itemref targets and their ancestors) a fresh id that nothing refers
//	                      to. The Microdata writer (Lean `MdPat.build`, knob `wrapId`) additionally wraps items and
//	                      detached property elements in id-carrying elements, inside the proved round trip.
//	prefix scope          a prefix token declared in one sibling subtree and used as an IRI scheme in another (gen.go:
//	                      rdfaChoices, tokenPreds/tokenRes; soup.go: `p:`/`o:` values); scopeStats classifies every use.
//	host default vocab    vocab="<hostVocab>" written by the author, with bare terms that are not predefined (gen.go:
//	                      pickVocab, hostVocabPlain; soup.go).

import (
	"fmt"
	"strings"

	"verifharness/vh"
)

// idsAndRefs: every id value and every itemref token of the document
func idsAndRefs(n *Node, out map[string]bool) {
	if n.Text != nil {
		return
	}
	if v, ok := n.Attr("id"); ok {
		out[v] = true
	}
	if v, ok := n.Attr("itemref"); ok {
		for _, t := range strings.Fields(v) {
			out[t] = true
		}
	}
	for _, k := range n.Kids {
		idsAndRefs(k, out)
	}
}

// decorateIDs gives each element without an id a fresh one with probability pct/100 (in place). A fresh id is equal to
// no id and no itemref token of the document. Returns how many were added.
func decorateIDs(r *vh.Rng, doc *Node, pct int) (added int) {
	taken := map[string]bool{}
	idsAndRefs(doc, taken)
	next := 0
	fresh := func() string {
		for {
			id := fmt.Sprintf("zz%d", next)
			next++
			if !taken[id] {
				taken[id] = true
				return id
			}
		}
	}
	var walk func(n *Node)
	walk = func(n *Node) {
		if n.Text != nil {
			return
		}
		if _, has := n.Attr("id"); !has && r.Chance(pct) {
			n.Attrs = append(n.Attrs, Attr{"id", fresh()})
			added++
		}
		for _, k := range n.Kids {
			walk(k)
		}
	}
	walk(doc)
	return
}

// maybeDecorate: half of the documents get ids on a quarter of their elements
func (h *harness) maybeDecorate(family string, doc *Node) {
	if !h.r.Chance(50) {
		return
	}
	if decorateIDs(h.r, doc, 25) > 0 {
		h.rep.Count(family + ":decorated with unreferenced ids")
	}
	if n := nestedTargets(doc); n > 0 && family != "md-writer" {
		h.rep.Count(family + ":itemref target below an element with an id")
	}
}

// nestedTargets: how many itemref tokens resolve (first element in tree order) to an element that has a proper
// ancestor with an id attribute
func nestedTargets(doc *Node) int {
	type info struct{ nested bool }
	first := map[string]info{}
	var refs []string
	var walk func(n *Node, underID bool)
	walk = func(n *Node, underID bool) {
		if n.Text != nil {
			return
		}
		id, has := n.Attr("id")
		if has {
			if _, dup := first[id]; !dup {
				first[id] = info{underID}
			}
		}
		if v, ok := n.Attr("itemref"); ok {
			refs = append(refs, strings.Fields(v)...)
		}
		for _, k := range n.Kids {
			walk(k, underID || has)
		}
	}
	walk(doc, false)
	c := 0
	for _, r := range refs {
		if i, ok := first[r]; ok && i.nested {
			c++
		}
	}
	return c
}

// scopeStats classifies, for an RDFa document, every use of a declarable prefix token in a TERMorCURIEorAbsIRI or
// SafeCURIEorCURIEorIRI attribute (unsafe spelling) by where the token is declared, and every bare term by the
// vocabulary in scope. Keys are histogram names.
func scopeStats(family string, doc *Node) []string {
	var out []string
	seenDecl := map[string]bool{} // declared by some element earlier in document order
	var walk func(n *Node, scope map[string]bool, vocab string)
	walk = func(n *Node, scope map[string]bool, vocab string) {
		if n.Text != nil {
			return
		}
		if v, ok := n.Attr("vocab"); ok {
			vocab = v
		}
		if v, ok := n.Attr("prefix"); ok {
			f := strings.Fields(v)
			ns := map[string]bool{}
			for k := range scope {
				ns[k] = true
			}
			for i := 0; i+1 < len(f); i += 2 {
				if strings.HasSuffix(f[i], ":") {
					name := strings.ToLower(strings.TrimSuffix(f[i], ":"))
					ns[name] = true
					seenDecl[name] = true
				}
			}
			scope = ns
		}
		for _, a := range n.Attrs {
			switch a.Name {
			case "property", "rel", "rev", "typeof", "datatype", "about", "resource":
				for _, tok := range strings.Fields(a.Val) {
					if strings.HasPrefix(tok, "[") {
						continue
					}
					if sc := tokenScheme(tok); sc != "" && initialPrefixes[sc] == "" {
						switch {
						case scope[sc]:
							out = append(out, family+":prefix token use=in scope (CURIE)")
						case seenDecl[sc]:
							out = append(out, family+":prefix token use=out of scope, declared earlier in the document (IRI)")
						default:
							out = append(out, family+":prefix token use=out of scope, not declared so far (IRI)")
						}
					} else if a.Name != "about" && a.Name != "resource" && !strings.Contains(tok, ":") && vocab == hostVocab {
						if _, predefined := terms11[strings.ToLower(tok)]; predefined {
							out = append(out, family+":term under vocab=host-default predefined")
						} else {
							out = append(out, family+":term under vocab=host-default plain")
						}
					}
				}
			}
		}
		for _, k := range n.Kids {
			walk(k, scope, vocab)
		}
	}
	walk(doc, map[string]bool{}, "")
	return out
}
