/-
  C17 helper lemmas, part 11: the repaired export — termination (unconditional) and the single-graph result.
-/
import RdfModel.Proofs.C17VRoots
namespace RdfModel.Proofs.C17
open RdfModel RdfModel.Desc RdfModel.C17

variable {β : Type} [DecidableEq β]

/-! ### termination: every nested call marks a new once-referenced node -/

theorem filter_length_le {α : Type} (p q : α → Bool) : ∀ (l : List α), (∀ x ∈ l, p x = true → q x = true) →
    (l.filter p).length ≤ (l.filter q).length := by
  intro l
  induction l with
  | nil => intro _; simp
  | cons a l ih =>
    intro h
    have ih' := ih (fun x hx => h x (by simp [hx]))
    have ha := h a (by simp)
    cases hp : p a <;> cases hq : q a
    · simpa [List.filter_cons, hp, hq] using ih'
    · simp only [List.filter_cons, hp, hq, Bool.false_eq_true, if_false, if_true, List.length_cons]; omega
    · rw [hp] at ha; simp [hq] at ha
    · simp only [List.filter_cons, hp, hq, if_true, List.length_cons]; omega

theorem filter_length_lt {α : Type} (p q : α → Bool) : ∀ (l : List α), (∀ x ∈ l, p x = true → q x = true) →
    (∃ x ∈ l, q x = true ∧ p x = false) → (l.filter p).length < (l.filter q).length := by
  intro l
  induction l with
  | nil => intro _ ⟨x, hx, _⟩; cases hx
  | cons a l ih =>
    intro h ⟨x, hx, hqx, hpx⟩
    have hle := filter_length_le p q l (fun x hx => h x (by simp [hx]))
    rcases List.mem_cons.1 hx with rfl | hx'
    · simp only [List.filter_cons, hpx, hqx, Bool.false_eq_true, if_false, if_true, List.length_cons]; omega
    · have ih' := ih (fun x hx => h x (by simp [hx])) ⟨x, hx', hqx, hpx⟩
      have ha := h a (by simp)
      cases hp : p a <;> cases hq : q a
      · simpa [List.filter_cons, hp, hq] using ih'
      · simp only [List.filter_cons, hp, hq, Bool.false_eq_true, if_false, if_true, List.length_cons]; omega
      · rw [hp] at ha; simp [hq] at ha
      · simp only [List.filter_cons, hp, hq, if_true, List.length_cons]; omega

/-- the blank nodes with a reference count -/
def refKeys (B : Builder β) : List β := B.refs.map (·.1)

/-- the once-referenced nodes not yet in the set -/
def mu (B : Builder β) (V : List β) : Nat :=
  ((refKeys B).filter (fun b => B.refCount b == 1 && !decide (b ∈ V))).length

theorem mem_refKeys_of_once (B : Builder β) (b : β) (h : B.refCount b = 1) : b ∈ refKeys B := by
  by_cases hm : b ∈ refKeys B
  · exact hm
  · have := alGet_of_not_mem 0 B.refs b hm
    unfold Builder.refCount at h
    omega

theorem mu_le (B : Builder β) (V : List β) : mu B V ≤ B.refs.length := by
  unfold mu refKeys
  exact Nat.le_trans (List.length_filter_le _ _) (by simp)

theorem mu_mono (B : Builder β) (V V' : List β) (h : ∀ b ∈ V, b ∈ V') : mu B V' ≤ mu B V := by
  unfold mu
  apply filter_length_le
  intro x _ hx
  simp only [Bool.and_eq_true, beq_iff_eq, Bool.not_eq_true', decide_eq_false_iff_not] at hx ⊢
  exact ⟨hx.1, fun hv => hx.2 (h x hv)⟩

theorem mu_lt (B : Builder β) (V : List β) (b : β) (h1 : B.refCount b = 1) (hb : b ∉ V) :
    mu B (b :: V) < mu B V := by
  unfold mu
  apply filter_length_lt
  · intro x _ hx
    simp only [Bool.and_eq_true, beq_iff_eq, Bool.not_eq_true', decide_eq_false_iff_not, List.mem_cons,
      not_or] at hx ⊢
    exact ⟨hx.1, hx.2.2⟩
  · exact ⟨b, mem_refKeys_of_once B b h1, by simp [h1, hb], by simp⟩

theorem exportV_isSome_aux (B : Builder β) (opts : Opts) :
    ∀ k y V, mu B (markSubject V y) < k → (B.exportStatementsV opts k y V).isSome := by
  intro k
  induction k with
  | zero => intro y V h; omega
  | succ k ih =>
    intro y V hmu
    rw [exportStatementsV_succ]
    have hfold : ∀ (l : List (PO β)) (V0 : List β), mu B V0 ≤ k →
        (B.foldStmtsV opts (B.exportStatementsV opts k) l V0).isSome := by
      intro l
      induction l with
      | nil => intro V0 _; rfl
      | cons po rest ihl =>
        intro V0 h0
        simp only [Builder.foldStmtsV]
        by_cases hin : B.isInlV opts V0 po.2 = true
        · simp only [hin, if_true]
          obtain ⟨b, hb, hinl, hbV⟩ := isInlV_spec hin
          have h1 : B.refCount b = 1 := by
            rw [hb] at hinl
            simp only [Builder.isInl, Bool.and_eq_true, beq_iff_eq] at hinl
            exact hinl.2
          have hms : markSubject V0 po.2 = b :: V0 := by rw [hb]; simp [markSubject, mark, hbV]
          have hlt : mu B (markSubject V0 po.2) < k := by
            rw [hms]; have := mu_lt B V0 b h1 hbV; omega
          obtain ⟨⟨lb, V1⟩, hrec⟩ := Option.isSome_iff_exists.1 (ih po.2 V0 hlt)
          simp only [hrec]
          obtain ⟨Wb, alb, nmb, gb⟩ := localV B opts k po.2 V0 lb V1 hrec
          have hsub : ∀ c ∈ V0, c ∈ V1 := by
            intro c hc; rw [gb.marks, hms]; simp [hc]
          have := ihl V1 (Nat.le_trans (mu_mono B V0 V1 hsub) h0)
          obtain ⟨⟨l', V2⟩, hf⟩ := Option.isSome_iff_exists.1 this
          simp [hf]
        · have hin' : B.isInlV opts V0 po.2 = false := by simpa using hin
          simp only [hin', Bool.false_eq_true, if_false]
          obtain ⟨⟨l', V2⟩, hf⟩ := Option.isSome_iff_exists.1 (ihl V0 h0)
          simp [hf]
    exact hfold _ _ (by omega)

theorem refs_length_add1 (B : Builder β) (t : Triple β) : (B.add1 t).refs.length ≤ B.refs.length + 1 := by
  unfold Builder.add1
  cases t.o with
  | iri v => simp
  | lit l d g => simp
  | bnode b =>
    simp only
    have : ∀ (l : List (β × Nat)), (alUpd 0 (· + 1) l b).length ≤ l.length + 1 := by
      intro l
      induction l with
      | nil => simp [alUpd]
      | cons e rest ih =>
        obtain ⟨k, v⟩ := e
        by_cases hk : k = b
        · simp [alUpd, hk]
        · simp only [alUpd, hk, if_false, List.length_cons]; omega
    exact this _

theorem refs_length_add (T : List (Triple β)) : ∀ B : Builder β, (B.add T).refs.length ≤ B.refs.length + T.length := by
  induction T with
  | nil => intro B; simp [Builder.add]
  | cons t rest ih =>
    intro B
    have : B.add (t :: rest) = (B.add1 t).add rest := rfl
    rw [this]
    have h1 := ih (B.add1 t)
    have h2 := refs_length_add1 B t
    simp only [List.length_cons]; omega

theorem refs_length_build (T : List (Triple β)) : (build T).refs.length ≤ T.length := by
  have := refs_length_add T Builder.empty
  simpa [build, Builder.empty] using this

/-- The repaired export terminates for every input: depth at most `|T|+1`. -/
theorem exportV_isSome (T : List (Triple β)) (opts : Opts) (K : Nat) (hK : T.length + 1 ≤ K)
    (y : Term β) (V : List β) : ((build T).exportStatementsV opts K y V).isSome := by
  apply exportV_isSome_aux
  have := mu_le (build T) (markSubject V y)
  have := refs_length_build T
  omega

theorem foldRootsV_isSome (B : Builder β) (opts : Opts) (K : Nat) (pick : Term β → List β → Bool)
    (hterm : ∀ y V, (B.exportStatementsV opts K y V).isSome) :
    ∀ (ord : List (Term β)) (V : List β), (B.foldRootsV opts K pick ord V).isSome := by
  intro ord
  induction ord with
  | nil => intro V; rfl
  | cons s ord ih =>
    intro V
    simp only [Builder.foldRootsV]
    split
    · obtain ⟨⟨st, V1⟩, h⟩ := Option.isSome_iff_exists.1 (hterm s V)
      simp only [Builder.exportResourceV, h, Option.map_some]
      obtain ⟨⟨rs, V2⟩, h2⟩ := Option.isSome_iff_exists.1 (ih V1)
      simp [h2]
    · exact ih V

/-! ### the single-graph result for the repaired export -/

omit [DecidableEq β] in
theorem newTriplesList_append (l₁ l₂ : List (Resource β)) (n : Nat) :
    newTriplesList (l₁ ++ l₂) n =
      ((newTriplesList l₁ n).1 ++ (newTriplesList l₂ (newTriplesList l₁ n).2).1,
        (newTriplesList l₂ (newTriplesList l₁ n).2).2) := by
  induction l₁ generalizing n with
  | nil => simp [newTriplesList]
  | cons r l ih => simp only [List.cons_append, newTriplesList_cons, ih, List.append_assoc]

theorem count_bobjs (T : List (Triple β)) (b : β) : (bobjs T).count b = refs T b := by
  unfold bobjs refs
  induction T with
  | nil => rfl
  | cons t T ih =>
    simp only [List.map_cons, List.countP_cons]
    cases ho : t.o with
    | bnode c =>
      simp only [List.filterMap_cons, bn?, List.count_cons, ih, Term.bnode.injEq, beq_iff_eq, decide_eq_true_eq]
    | iri v =>
      simp only [List.filterMap_cons, bn?, ih]
      simp
    | lit l d g =>
      simp only [List.filterMap_cons, bn?, ih]
      simp

omit [DecidableEq β] in
theorem bobjs_perm {W T : List (Triple β)} (h : W.Perm T) : (bobjs W).Perm (bobjs T) :=
  (h.map _).filterMap _

theorem pick1_ok (B : Builder β) (opts : Opts) : PickOK B opts (B.pick1 opts) := by
  intro s V h
  left
  simpa [Builder.pick1] using h

theorem pick2_ok (B : Builder β) (opts : Opts) : PickOK B opts (B.pick2 opts) := by
  intro s V h
  right
  obtain ⟨b, hb, _, hbV⟩ := isInlV_spec (by simpa [Builder.pick2] using h)
  exact ⟨b, hb, hbV⟩

theorem isInlV_false_of_isInl {B : Builder β} {opts : Opts} {V : List β} {b : β}
    (h1 : B.isInl opts (Term.bnode b) = true) (h2 : B.isInlV opts V (Term.bnode b) = false) : b ∈ V := by
  simp only [Builder.isInl, Bool.and_eq_true, beq_iff_eq] at h1
  simp only [Builder.isInlV, h1.1, h1.2, beq_self_eq_true, Bool.and_self, Bool.true_and,
    Bool.not_eq_false', decide_eq_true_eq] at h2
  exact h2

theorem graph_strongV (T : List (Triple β)) (opts : Opts) (ord1 ord2 : List (Term β))
    (hord1 : ord1.Perm (build T).subjects) (hord2 : ord2.Perm (build T).subjects) (K : Nat)
    (hK : T.length + 1 ≤ K) :
    ∃ (rs : List (Resource β)) (W : List (Triple β)) (al : List β),
      (build T).exportResourcesV opts ord1 ord2 K = some rs ∧ W.Perm T ∧ al.Nodup ∧
      (∀ b ∈ al, anonymizedIn T opts b = true) ∧
      (∀ n, (newTriplesList rs n).2 = n + al.length) ∧
      (∀ n (σ : β → BN β), al.map σ = (List.range' n al.length).map BN.fresh →
          (∀ t ∈ T, ∀ b ∈ tripleNodes t, b ∉ al → σ b = BN.orig b) →
          (newTriplesList rs n).1 = W.map (Triple.map σ)) := by
  have hterm := fun y V => exportV_isSome T opts K hK y V
  obtain ⟨⟨rs1, V1⟩, hf1⟩ := Option.isSome_iff_exists.1
    (foldRootsV_isSome (build T) opts K ((build T).pick1 opts) hterm ord1 [])
  obtain ⟨⟨rs2, V2⟩, hf2⟩ := Option.isSome_iff_exists.1
    (foldRootsV_isSome (build T) opts K ((build T).pick2 opts) hterm ord2 V1)
  obtain ⟨pk1, W1, ali1, al1, nm1, g1⟩ := rootsV (build T) opts K _ (pick1_ok _ opts) ord1 [] rs1 V1 hf1
  obtain ⟨pk2, W2, ali2, al2, nm2, g2⟩ := rootsV (build T) opts K _ (pick2_ok _ opts) ord2 V1 rs2 V2 hf2
  have hn1 : ord1.Nodup := (hord1.nodup_iff).2 (subjects_build_nodup T)
  have hn2 : ord2.Nodup := (hord2.nodup_iff).2 (subjects_build_nodup T)
  -- picked roots: first loop not inlinable, second loop inlinable
  have hpk1 : ∀ s ∈ pk1, (build T).isInl opts s = false := by
    intro s hs
    obtain ⟨Vs, _, hp⟩ := g1.picked_ok s hs
    simpa [Builder.pick1] using hp
  have hpk2 : ∀ s ∈ pk2, ∃ b, s = Term.bnode b ∧ (build T).isInl opts s = true ∧ b ∉ V1 := by
    intro s hs
    obtain ⟨Vs, hVs, hp⟩ := g2.picked_ok s hs
    obtain ⟨b, hb, hi, hbV⟩ := isInlV_spec (by simpa [Builder.pick2] using hp)
    exact ⟨b, hb, hi, fun h => hbV (hVs b h)⟩
  -- the list of all described subjects
  let A : List (Term β) := pk1 ++ pk2 ++ (ali1 ++ ali2).map Term.bnode
  have hA_nodup : A.Nodup := by
    have hali : (ali1 ++ ali2).Nodup := by
      rw [List.nodup_append]
      exact ⟨g1.nodup, g2.nodup, fun c hc d hd hcd => g2.fresh d hd (hcd ▸ g1.marked_ali c hc)⟩
    have hali' : ((ali1 ++ ali2).map Term.bnode).Nodup := by
      unfold List.Nodup at hali ⊢
      rw [List.pairwise_map]
      exact hali.imp (fun hne e => hne (by simpa using e))
    rw [List.nodup_append, List.nodup_append]
    refine ⟨⟨hn1.sublist g1.sub, hn2.sublist g2.sub, ?_⟩, hali', ?_⟩
    · intro s hs s' hs' e
      subst e
      obtain ⟨b, _, hi, _⟩ := hpk2 s hs'
      rw [hpk1 s hs] at hi; cases hi
    · intro s hs s' hs' e
      subst e
      obtain ⟨c, hc, rfl⟩ := List.mem_map.1 hs'
      rcases List.mem_append.1 hs with h1 | h2
      · rcases List.mem_append.1 hc with c1 | c2
        · exact g1.root_not_ali c h1 c1
        · exact g2.fresh c c2 (g1.marked_root c h1)
      · rcases List.mem_append.1 hc with c1 | c2
        · obtain ⟨b, hb, _, hbV⟩ := hpk2 _ h2
          cases hb
          exact hbV (g1.marked_ali c c1)
        · exact g2.root_not_ali c h2 c2
  have hA_cover : ∀ t ∈ T, t.s ∈ A := by
    intro t ht
    have hs : t.s ∈ (build T).subjects := (mem_subjects_build T t.s).2 ⟨t, ht, rfl⟩
    cases hi : (build T).isInl opts t.s with
    | false =>
      rcases g1.cover t.s (hord1.mem_iff.2 hs) with h | ⟨Vs, _, hp⟩
      · simp [A, h]
      · simp [Builder.pick1, hi] at hp
    | true =>
      obtain ⟨c, hc⟩ := isInl_bnode hi
      rcases g2.cover t.s (hord2.mem_iff.2 hs) with h | ⟨Vs, hVs, hp⟩
      · simp [A, h]
      · rw [hc] at hp hi
        have hcV := hVs c (isInlV_false_of_isInl hi (by simpa [Builder.pick2] using hp))
        rcases g2.marks c hcV with h | h | h
        · rcases g1.marks c h with h' | h' | h'
          · cases h'
          · simp [A, hc, h']
          · simp [A, hc, h']
        · simp [A, hc, h]
        · simp [A, hc, h]
  -- W ~ T
  have hW : (W1 ++ W2).Perm T := by
    have e : (W1 ++ W2).Perm (A.flatMap (own (build T))) := by
      refine (List.Perm.append g1.perm g2.perm).trans ?_
      have : ∀ l : List β, l.flatMap (ownB (build T)) = (l.map Term.bnode).flatMap (own (build T)) := by
        intro l; rw [List.flatMap_map]; rfl
      simp only [A, List.flatMap_append, List.map_append, this]
      rw [List.perm_iff_count]
      intro a
      simp only [List.count_append]
      omega
    refine e.trans ?_
    have : A.flatMap (own (build T)) = A.flatMap (fun y => T.filter (fun t => t.s = y)) := by
      congr 1; funext y; exact own_build T y
    rw [this]
    exact group_perm_all T A hA_nodup hA_cover
  have hal_perm : ((al1 ++ al2).map Term.bnode).Perm
      ((ali1.map Term.bnode ++ pk1.filter (isAnonRoot (build T) opts)) ++
        (ali2.map Term.bnode ++ pk2.filter (isAnonRoot (build T) opts))) := by
    rw [List.map_append]
    exact List.Perm.append g1.allocs g2.allocs
  have hal_count : ∀ x, ((al1 ++ al2).map Term.bnode).count x ≤ A.count x := by
    intro x
    rw [hal_perm.count_eq]
    simp only [A, List.count_append, List.map_append]
    have c1 := (List.filter_sublist (p := isAnonRoot (build T) opts) (l := pk1)).count_le x
    have c2 := (List.filter_sublist (p := isAnonRoot (build T) opts) (l := pk2)).count_le x
    omega
  have hal_mem : ∀ b ∈ al1 ++ al2, (b ∈ ali1 ++ ali2) ∨
      (isAnonRoot (build T) opts (Term.bnode b) = true ∧ Term.bnode b ∈ pk1 ++ pk2) := by
    intro b hb
    have := hal_perm.mem_iff.1 (List.mem_map.2 ⟨b, hb, rfl⟩)
    simp only [List.mem_append, List.mem_map, List.mem_filter, Term.bnode.injEq, exists_eq_right] at this
    rcases this with (h | h) | (h | h)
    · exact Or.inl (List.mem_append.2 (Or.inl h))
    · exact Or.inr ⟨h.2, List.mem_append.2 (Or.inl h.1)⟩
    · exact Or.inl (List.mem_append.2 (Or.inr h))
    · exact Or.inr ⟨h.2, List.mem_append.2 (Or.inr h.1)⟩
  have hpk_sub : ∀ s ∈ pk1 ++ pk2, ∃ t ∈ T, t.s = s := by
    intro s hs
    rcases List.mem_append.1 hs with h | h
    · exact (mem_subjects_build T s).1 (hord1.mem_iff.1 (g1.sub.subset h))
    · exact (mem_subjects_build T s).1 (hord2.mem_iff.1 (g2.sub.subset h))
  have hali_inl : ∀ b ∈ ali1 ++ ali2, (build T).isInl opts (Term.bnode b) = true := by
    intro b hb
    rcases List.mem_append.1 hb with h | h
    · exact g1.inl b h
    · exact g2.inl b h
  refine ⟨rs1 ++ rs2, W1 ++ W2, al1 ++ al2, ?_, hW, ?_, ?_, ?_, ?_⟩
  · simp [Builder.exportResourcesV, hf1, hf2]
  · -- Nodup
    have : ((al1 ++ al2).map Term.bnode).Nodup := by
      rw [List.nodup_iff_count]
      intro x
      exact Nat.le_trans (hal_count x) (List.nodup_iff_count.1 hA_nodup x)
    exact nodup_of_map _ _ this
  · intro b hb
    unfold anonymizedIn
    rcases hal_mem b hb with h | ⟨h1, h2⟩
    · have := hali_inl b h
      simp only [Builder.isInl, refCount_build, Bool.and_eq_true, beq_iff_eq] at this
      simp [this.1, this.2]
    · simp only [isAnonRoot, refCount_build, Bool.and_eq_true, beq_iff_eq] at h1
      obtain ⟨t, ht, hts⟩ := hpk_sub _ h2
      have : T.any (fun t => decide (t.s = Term.bnode b)) = true :=
        List.any_eq_true.2 ⟨t, ht, by simp [hts]⟩
      simp [h1.1, h1.2, this]
  · intro n
    rw [newTriplesList_append]
    simp only [g1.count, g2.count, List.length_append]
    omega
  · intro n σ hal hfix
    obtain ⟨hal1, hal2⟩ := (split_alloc σ al1 al2 n).1 (by simpa using hal)
    -- blank nodes referenced by name are not allocated
    have hobjs : (bobjs T).Perm ((ali1 ++ nm1) ++ (ali2 ++ nm2)) := by
      refine (bobjs_perm hW).symm.trans ?_
      rw [bobjs_append]
      exact List.Perm.append g1.objs g2.objs
    have hnm : ∀ b ∈ nm1 ++ nm2, σ b = BN.orig b := by
      intro b hb
      have hbT : b ∈ bobjs T := by
        apply hobjs.mem_iff.2
        simp only [List.mem_append] at hb ⊢
        rcases hb with h | h
        · exact Or.inl (Or.inr h)
        · exact Or.inr (Or.inr h)
      obtain ⟨o, ho, hob⟩ := List.mem_filterMap.1 hbT
      obtain ⟨t, ht, rfl⟩ := List.mem_map.1 ho
      have hto : t.o = Term.bnode b := by
        cases h : t.o with
        | bnode c => simp [h, bn?] at hob; rw [hob]
        | iri v => simp [h, bn?] at hob
        | lit l d g => simp [h, bn?] at hob
      apply hfix t ht b (mem_tripleNodes_o hto)
      intro hbal
      have hcnt := hobjs.count_eq b
      rw [count_bobjs] at hcnt
      simp only [List.count_append] at hcnt
      have hnmpos : 0 < nm1.count b + nm2.count b := by
        rcases List.mem_append.1 hb with h | h
        · have := List.count_pos_iff.2 h; omega
        · have := List.count_pos_iff.2 h; omega
      rcases hal_mem b hbal with h | ⟨h1, _⟩
      · have hi := hali_inl b h
        simp only [Builder.isInl, refCount_build, Bool.and_eq_true, beq_iff_eq] at hi
        have hapos : 0 < ali1.count b + ali2.count b := by
          rcases List.mem_append.1 h with h' | h'
          · have := List.count_pos_iff.2 h'; omega
          · have := List.count_pos_iff.2 h'; omega
        omega
      · simp only [isAnonRoot, refCount_build, Bool.and_eq_true, beq_iff_eq] at h1
        omega
    have hroot : ∀ s ∈ pk1 ++ pk2, isAnonRoot (build T) opts s = false → s.map σ = s.map BN.orig := by
      intro s hs hsa
      apply term_map_orig_eq
      intro b hsb
      subst hsb
      obtain ⟨t, ht, hts⟩ := hpk_sub _ hs
      apply hfix t ht b (mem_tripleNodes_s hts)
      intro hbal
      rcases hal_mem b hbal with h | ⟨h1, _⟩
      · -- b both a picked root and inlined: contradicts Nodup A
        have h1 : 1 ≤ (pk1 ++ pk2).count (Term.bnode b) := List.count_pos_iff.2 hs
        have h2 : 1 ≤ ((ali1 ++ ali2).map Term.bnode).count (Term.bnode b) :=
          List.count_pos_iff.2 (List.mem_map.2 ⟨b, h, rfl⟩)
        have := List.nodup_iff_count.1 hA_nodup (Term.bnode b)
        simp only [A, List.count_append] at this h1 h2
        omega
      · rw [hsa] at h1; cases h1
    rw [newTriplesList_append]
    simp only [g1.count]
    rw [g1.image n σ hal1 (fun b hb => hnm b (by simp [hb])) (fun s hs => hroot s (by simp [hs]))]
    rw [g2.image (n + al1.length) σ hal2 (fun b hb => hnm b (by simp [hb])) (fun s hs => hroot s (by simp [hs]))]
    simp

/-- C17 for one graph, repaired export: no shape hypothesis. -/
theorem flatten_exportV (T : List (Triple β)) (opts : Opts) (ord1 ord2 : List (Term β))
    (hord1 : ord1.Perm (build T).subjects) (hord2 : ord2.Perm (build T).subjects) (n : Nat) :
    ∃ rs, (build T).exportResourcesV opts ord1 ord2 (T.length + 1) = some rs ∧
      Spec.Iso (newTriplesList rs n).1 T := by
  obtain ⟨rs, W, al, hrs, hpT, hnd, _, _, himage⟩ :=
    graph_strongV T opts ord1 ord2 hord1 hord2 (T.length + 1) (Nat.le_refl _)
  refine ⟨rs, hrs, sigmaOf al n, sigmaOf_injective al n, ?_⟩
  rw [himage n (sigmaOf al n) (sigmaOf_map al n hnd) (fun _ _ b _ hb => sigmaOf_not_mem al n b hb)]
  exact hpT.map _

end RdfModel.Proofs.C17
