/-
  C19 helper lemmas: the hashed concatenation of `bindNode` is unambiguous on well-formed literals
  (so the intern key is injective), and `TermEquals` is structural equality on well-formed terms.
-/
import RdfModel.Props.C19Defs
namespace RdfModel.Proofs.C19
open RdfModel.DS RdfModel.C19

/-! ### quoting is prefix-free and LF-free -/

theorem quoteBody_prefix_free : ∀ (a b r r' : Bytes),
    quoteBody a ++ 0x22 :: r = quoteBody b ++ 0x22 :: r' → a = b ∧ r = r' := by
  intro a
  induction a with
  | nil =>
    intro b r r' h
    cases b with
    | nil => simpa [quoteBody] using h
    | cons d b =>
      exfalso
      simp only [quoteBody, List.nil_append] at h
      split at h
      · simp at h
      · split at h
        · simp at h
        · split at h
          · simp at h
          · simp at h; omega
  | cons c a ih =>
    intro b r r' h
    cases b with
    | nil =>
      exfalso
      simp only [quoteBody, List.nil_append] at h
      split at h
      · simp at h
      · split at h
        · simp at h
        · split at h
          · simp at h
          · simp at h; omega
    | cons d b =>
      simp only [quoteBody] at h
      by_cases hc1 : c = 0x22
      · by_cases hd1 : d = 0x22
        · subst hc1 hd1; simp at h
          have := ih b r r' h; simp [this.1, this.2]
        · by_cases hd2 : d = 0x5c
          · subst hc1 hd2; simp at h
          · by_cases hd3 : d = 0x0a
            · subst hc1 hd3; simp at h
            · simp [hc1, hd1, hd2, hd3] at h; omega
      · by_cases hc2 : c = 0x5c
        · by_cases hd1 : d = 0x22
          · subst hc2 hd1; simp at h
          · by_cases hd2 : d = 0x5c
            · subst hc2 hd2; simp at h
              have := ih b r r' h; simp [this.1, this.2]
            · by_cases hd3 : d = 0x0a
              · subst hc2 hd3; simp at h
              · simp [hc2, hd1, hd2, hd3] at h; omega
        · by_cases hc3 : c = 0x0a
          · by_cases hd1 : d = 0x22
            · subst hc3 hd1; simp at h
            · by_cases hd2 : d = 0x5c
              · subst hc3 hd2; simp at h
              · by_cases hd3 : d = 0x0a
                · subst hc3 hd3; simp at h
                  have := ih b r r' h; simp [this.1, this.2]
                · simp [hc3, hd1, hd2, hd3] at h; omega
          · by_cases hd1 : d = 0x22
            · subst hd1; simp [hc1, hc2, hc3] at h
            · by_cases hd2 : d = 0x5c
              · subst hd2; simp [hc1, hc2, hc3] at h
              · by_cases hd3 : d = 0x0a
                · subst hd3; simp [hc1, hc2, hc3] at h
                · simp [hc1, hc2, hc3, hd1, hd2, hd3] at h
                  have := ih b r r' h.2; simp [h.1, this.1, this.2]

theorem quote_prefix_free (a b r r' : Bytes) (h : quote a ++ r = quote b ++ r') : a = b ∧ r = r' := by
  simp only [quote, List.cons_append, List.append_assoc, List.cons.injEq, true_and] at h
  exact quoteBody_prefix_free a b r r' h

theorem quote_injective (a b : Bytes) (h : quote a = quote b) : a = b :=
  (quote_prefix_free a b [] [] (by simpa using h)).1

theorem quoteBody_no_lf : ∀ a : Bytes, 0x0a ∉ quoteBody a := by
  intro a
  induction a with
  | nil => simp [quoteBody]
  | cons c a ih =>
    simp only [quoteBody]
    split
    · simp [ih]
    · split
      · simp [ih]
      · split
        · simp [ih]
        · simp [ih]; omega

theorem quote_no_lf (a : Bytes) : 0x0a ∉ quote a := by
  simp [quote, quoteBody_no_lf]

/-! ### the concatenation is unambiguous -/

theorem split_at_lf : ∀ (x y r r' : Bytes), 0x0a ∉ x → 0x0a ∉ y →
    x ++ 0x0a :: r = y ++ 0x0a :: r' → x = y ∧ r = r' := by
  intro x
  induction x with
  | nil =>
    intro y r r' _ hy h
    cases y with
    | nil => simpa using h
    | cons d y => simp at h; simp [← h.1] at hy
  | cons c x ih =>
    intro y r r' hx hy h
    cases y with
    | nil => simp at h; simp [h.1] at hx
    | cons d y =>
      simp at h hx hy
      have := ih y r r' hx.2 hy.2 h.2
      simp [h.1, this.1, this.2]

theorem tagLine_eq (t t' : Tag) (r r' : Bytes)
    (h : tagLine (some t) ++ r = tagLine (some t') ++ r') : t = t' ∧ r = r' := by
  cases t with
  | lang l =>
    cases t' with
    | lang l' =>
      simp only [tagLine, List.append_assoc, List.append_cancel_left_eq] at h
      have := quote_prefix_free l l' _ _ h
      simp at this; simp [this.1, this.2]
    | dirLang l' d' =>
      simp only [tagLine, List.append_assoc, List.append_cancel_left_eq] at h
      have := quote_prefix_free l l' _ _ h
      simp [bDir] at this
  | dirLang l d =>
    cases t' with
    | lang l' =>
      simp only [tagLine, List.append_assoc, List.append_cancel_left_eq] at h
      have := quote_prefix_free l l' _ _ h
      simp [bDir] at this
    | dirLang l' d' =>
      simp only [tagLine, List.append_assoc, List.append_cancel_left_eq] at h
      have h1 := quote_prefix_free l l' _ _ h
      have h2 := h1.2
      simp only [List.append_cancel_left_eq] at h2
      have h3 := quote_prefix_free d d' _ _ h2
      simp at h3; simp [h1.1, h3.1, h3.2]

/-- The byte string hashed by `bindNode` determines a well-formed literal. -/
theorem literal_key_injective (a b : Literal) (ha : WFLiteral a) (hb : WFLiteral b)
    (h : litKeyBytes a = litKeyBytes b) : a = b := by
  obtain ⟨adt, alex, atag⟩ := a
  obtain ⟨bdt, blex, btag⟩ := b
  simp only [litKeyBytes, List.append_assoc, List.singleton_append] at h
  simp only [WFLiteral] at ha hb
  have h1 := split_at_lf adt bdt _ _ ha.1 hb.1 h
  obtain ⟨hdt, hrest⟩ := h1
  subst hdt
  have htag : atag.isSome = btag.isSome := by rw [ha.2, hb.2]
  cases atag with
  | none =>
    cases btag with
    | none => simp [tagLine] at hrest; simp [hrest]
    | some t' => simp at htag
  | some t =>
    cases btag with
    | none => simp at htag
    | some t' =>
      have := tagLine_eq t t' _ _ hrest
      simp [this.1, this.2]

/-- `keyOf` is injective on well-formed terms: two well-formed terms are interned as the same node
    only if they are the same term. (For IRIs and blank nodes this needs no hypothesis.) -/
theorem keyOf_injective (a b : Term) (ha : WFTerm a) (hb : WFTerm b) (h : keyOf a = keyOf b) : a = b := by
  cases a <;> cases b <;> simp [keyOf] at h
  · simp [h]
  · simp [h]
  · rename_i l m
    simp only [WFTerm] at ha hb
    rw [literal_key_injective l m ha hb h]

/-! ### `TermEquals` is structural equality -/

theorem BId.equals_iff (a b : BId) : a.equals b = true ↔ a = b := by
  cases a <;> cases b <;> simp [BId.equals] <;> grind

theorem Tag.equals_iff (a b : Tag) : a.equals b = true ↔ a = b := by
  cases a <;> cases b <;> simp [Tag.equals]

theorem Literal.equals_iff (a b : Literal) : a.equals b = true ↔ a = b := by
  obtain ⟨adt, alex, atag⟩ := a
  obtain ⟨bdt, blex, btag⟩ := b
  simp only [Literal.equals]
  cases atag <;> cases btag <;> simp [Tag.equals_iff] <;> grind

/-- For a term with an identifier (every IRI, every literal, every blank node made by a factory)
    `TermEquals` is equality of terms; against nil it is false. -/
theorem termEquals_iff (t : Term) (u : Option Term) (ht : ∀ id, t = .bnode id → id.isSome) :
    t.termEquals u = true ↔ u = some t := by
  cases t with
  | iri v =>
    cases u with
    | none => simp [Term.termEquals]
    | some u => cases u <;> simp [Term.termEquals] <;> grind
  | bnode id =>
    cases id with
    | none => simpa using ht none rfl
    | some i =>
      cases u with
      | none => simp [Term.termEquals]
      | some u =>
        cases u with
        | bnode j => cases j <;> simp [Term.termEquals, BId.equals_iff] <;> grind
        | _ => simp [Term.termEquals]
  | lit l =>
    cases u with
    | none => simp [Term.termEquals]
    | some u => cases u <;> simp [Term.termEquals, Literal.equals_iff] <;> grind

end RdfModel.Proofs.C19
