/-
  RdfModel.Model.RdfJson — executable model of encoding/rdfjson (encoder.go, decoder.go).

  The JSON *text* layer is outside the model: `encoding/json` marshalling on the encoder side and
  the third-party `inspectjson` tokenizer on the decoder side.  The decoder is modelled over the
  token stream the tokenizer hands to `parseRoot` (`Tok`) plus the error the tokenizer returns when
  the tokens run out (`TEnd`); the encoder is modelled up to the token stream of the JSON value that
  `Close` marshals (map keys sorted, as `encoding/json` does).  The recorded assumption
  "tokenise (json.Marshal v) = tokens of v with sorted keys" is validated on every run by the
  correspondence harness go/cmd/c01rj (T3).

  `parse` follows decoder.go:parseRoot loop by loop: one `PState` per `t.Next()` call site, the same
  `continue` on ValueSeparatorToken, the same error returns.  The two UNCHECKED type assertions
  `token.(inspectjson.StringToken)` (predicate key, member name) are explicit `panic` outcomes; the
  `Variant` record says which repairs of the Go code are in force, so that the behaviour before the
  `fix:` commits stays stated (and provable) next to the current one.
-/
import RdfModel.Model.Term
namespace RdfModel.RJ
open RdfModel

/-! ## Tokens -/

/-- What `inspectjson.Tokenizer.Next` can return. `other` = number (0), true (1), false (2),
    null (3), whitespace (4, only with the `EmitWhitespace` tokenizer option). -/
inductive Tok where
  | beginObject | endObject | beginArray | endArray | nameSep | valueSep
  | str (s : List Nat)
  | other (kind : Nat)
  deriving Repr, DecidableEq, Inhabited

/-- The error `Tokenizer.Next` returns once the tokens are exhausted (it is sticky):
    `io.EOF` (clean end of input), `io.ErrUnexpectedEOF`, the reader's own error, a syntax error. -/
inductive TEnd where | eof | ueof | io | syntax
  deriving Repr, DecidableEq, Inhabited

/-- Error classes of `Decoder.Err()` (message text is never compared). -/
inductive EClass where | eof | io | syntax
  deriving Repr, DecidableEq, Inhabited

def TEnd.cls : TEnd → EClass
  | .eof => .eof | .ueof => .eof | .io => .io | .syntax => .syntax

inductive Verdict where
  | clean
  | error (e : EClass)
  deriving Repr, DecidableEq, Inhabited

/-- Which repairs of decoder.go are in force.
    * `checked`: the member-name / predicate-key type assertions are checked (`v, ok := …`).
    * `litChecks`: `"lang": ""`, `"datatype": ""` and `"datatype": rdf:langString` without `lang`
      are rejected; `datatype` rdf:langString together with `lang` yields the tagged literal.
    * `dirCheck`: `"datatype": rdf:dirLangString` is rejected (RDF/JSON cannot carry a direction). -/
structure Variant where
  checked : Bool
  litChecks : Bool
  dirCheck : Bool
  deriving Repr, DecidableEq, Inhabited

/-- decoder.go as it was before the `fix:` commits. -/
def Variant.legacy : Variant := ⟨false, false, false⟩
/-- decoder.go with every repair (what the driver runs by default). -/
def Variant.current : Variant := ⟨true, true, true⟩

/-! ## Terms on the decoder side -/

/-- Blank nodes made by `blanknodes.StringFactory.NewStringBlankNode`: identified by their label,
    or — for the empty label — a fresh anonymous node (numbered in creation order). -/
inductive BNode where
  | named (l : List Nat)
  | anon (n : Nat)
  deriving Repr, DecidableEq, Inhabited

structure Triple (β : Type) where
  s : Term β
  p : Term β
  o : Term β
  deriving Repr, DecidableEq, Inhabited

def Triple.map {β γ : Type} (f : β → γ) (t : Triple β) : Triple γ :=
  ⟨t.s.map f, t.p.map f, t.o.map f⟩

/-! ## Key constants (explicit code points, so that `decide`/`simp` can compare them) -/

def kDatatype : List Nat := [0x64, 0x61, 0x74, 0x61, 0x74, 0x79, 0x70, 0x65]
def kLang : List Nat := [0x6c, 0x61, 0x6e, 0x67]
def kType : List Nat := [0x74, 0x79, 0x70, 0x65]
def kValue : List Nat := [0x76, 0x61, 0x6c, 0x75, 0x65]
def vLiteral : List Nat := [0x6c, 0x69, 0x74, 0x65, 0x72, 0x61, 0x6c]
def vUri : List Nat := [0x75, 0x72, 0x69]
def vBnode : List Nat := [0x62, 0x6e, 0x6f, 0x64, 0x65]

/-- `strings.HasPrefix(s, "_:")` / `s[2:]`. -/
def bnPrefix? : List Nat → Option (List Nat)
  | 0x5f :: 0x3a :: rest => some rest
  | _ => none

/-- `bnStringFactory.NewStringBlankNode(label)`; `n` counts the anonymous nodes made so far. -/
def mkBNode (label : List Nat) (n : Nat) : BNode × Nat :=
  if label.isEmpty then (.anon n, n + 1) else (.named label, n)

/-! ## Decoder: parseRoot -/

/-- `objectMembers`: the four optional string members of an object record. -/
structure Members where
  datatype : Option (List Nat) := none
  lang : Option (List Nat) := none
  type : Option (List Nat) := none
  value : Option (List Nat) := none
  deriving Repr, DecidableEq, Inhabited

def Members.set (m : Members) (name v : List Nat) : Members :=
  if name = kDatatype then { m with datatype := some v }
  else if name = kLang then { m with lang := some v }
  else if name = kType then { m with type := some v }
  else if name = kValue then { m with value := some v }
  else m

def isMemberKey (name : List Nat) : Bool :=
  name = kDatatype || name = kLang || name = kType || name = kValue

/-- The `case "literal"` branch. -/
def finishLiteral (v : Variant) (value : List Nat) (m : Members) : Option (Term BNode) :=
  if v.litChecks && m.lang = some [] then none                         -- "invalid lang: empty"
  else if v.litChecks && m.datatype = some [] then none                -- "invalid datatype: empty"
  else if v.dirCheck && m.datatype = some rdfDirLangString then none   -- "unsupported datatype"
  else
    match m.datatype, m.lang with
    | some d, lang =>
      if !v.litChecks || d ≠ rdfLangString then some (.lit value d none)
      else match lang with
        | some l => some (.lit value rdfLangString (some l))
        | none => none                                                 -- "missing key: lang"
    | none, some l => some (.lit value rdfLangString (some l))
    | none, none => some (.lit value xsdString none)

/-- What happens at the `}` of an object record: the object term (and the new anonymous-node
    counter), or `none` = one of the `return fmt.Errorf(…)` (missing key, invalid bnode value,
    unexpected type, and the literal checks). -/
def finishObject (v : Variant) (m : Members) (anon : Nat) : Option (Term BNode × Nat) :=
  match m.type, m.value with
  | none, _ => none
  | some _, none => none
  | some ty, some value =>
    if ty = vLiteral then (finishLiteral v value m).map (fun t => (t, anon))
    else if ty = vUri then some (.iri value, anon)
    else if ty = vBnode then
      match bnPrefix? value with
      | none => none
      | some l => let r := mkBNode l anon; some (.bnode r.1, r.2)
    else none

/-- Subject key: `_:label` is a blank node, anything else an IRI. -/
def subjectOf (key : List Nat) (anon : Nat) : Term BNode × Nat :=
  match bnPrefix? key with
  | some l => let r := mkBNode l anon; (.bnode r.1, r.2)
  | none => (.iri key, anon)

/-- One state per `t.Next()` call site of `parseRoot`. -/
inductive PState where
  | start                                          -- first token: must be `{`
  | subjects                                       -- top of the subject loop
  | subjColon (s : Term BNode)
  | subjOpen (s : Term BNode)
  | preds (s : Term BNode)                         -- top of the predicate loop
  | predColon (s : Term BNode) (p : List Nat)
  | predOpen (s : Term BNode) (p : List Nat)
  | objs (s : Term BNode) (p : List Nat)           -- top of the object-array loop
  | members (s : Term BNode) (p : List Nat) (m : Members)   -- top of the member loop
  | memColon (s : Term BNode) (p : List Nat) (m : Members) (name : List Nat)
  | memValue (s : Term BNode) (p : List Nat) (m : Members) (name : List Nat)
  | trailing                                       -- after the root object's `}`
  deriving Repr, DecidableEq, Inhabited

/-- Outcome of `parseRoot`: a recovered panic, or `d.statements` (everything appended, also when an
    error is returned) with the returned error. -/
inductive Result where
  | panic
  | done (stmts : List (Triple BNode)) (v : Verdict)
  deriving Repr, DecidableEq, Inhabited

/-- `d.statements` (most recent first) and the anonymous-node counter. -/
structure Acc where
  stmts : List (Triple BNode) := []
  anon : Nat := 0
  deriving Repr, DecidableEq, Inhabited

def Acc.fail (a : Acc) (e : EClass) : Result := .done a.stmts.reverse (.error e)

/-- `parseRoot`, one token per step. -/
def parse (v : Variant) (e : TEnd) : PState → List Tok → Acc → Result
  | st, [], acc =>
    -- `t.Next()` returns the tokenizer's error
    match st, e with
    | .trailing, .eof => .done acc.stmts.reverse .clean       -- errors.Is(err, io.EOF) → nil
    | _, _ => acc.fail e.cls
  | .start, t :: rest, acc =>
    match t with
    | .beginObject => parse v e .subjects rest acc
    | _ => acc.fail .syntax
  | .subjects, t :: rest, acc =>
    match t with
    | .endObject => parse v e .trailing rest acc
    | .valueSep => parse v e .subjects rest acc
    | .str key => let r := subjectOf key acc.anon; parse v e (.subjColon r.1) rest { acc with anon := r.2 }
    | _ => acc.fail .syntax
  | .subjColon s, t :: rest, acc =>
    match t with
    | .nameSep => parse v e (.subjOpen s) rest acc
    | _ => acc.fail .syntax
  | .subjOpen s, t :: rest, acc =>
    match t with
    | .beginObject => parse v e (.preds s) rest acc
    | _ => acc.fail .syntax
  | .preds s, t :: rest, acc =>
    match t with
    | .endObject => parse v e .subjects rest acc
    | .valueSep => parse v e (.preds s) rest acc
    | .str p => parse v e (.predColon s p) rest acc
    | _ => if v.checked then acc.fail .syntax else .panic     -- token.(inspectjson.StringToken)
  | .predColon s p, t :: rest, acc =>
    match t with
    | .nameSep => parse v e (.predOpen s p) rest acc
    | _ => acc.fail .syntax
  | .predOpen s p, t :: rest, acc =>
    match t with
    | .beginArray => parse v e (.objs s p) rest acc
    | _ => acc.fail .syntax
  | .objs s p, t :: rest, acc =>
    match t with
    | .endArray => parse v e (.preds s) rest acc
    | .valueSep => parse v e (.objs s p) rest acc
    | .beginObject => parse v e (.members s p {}) rest acc
    | _ => acc.fail .syntax
  | .members s p m, t :: rest, acc =>
    match t with
    | .endObject =>
      match finishObject v m acc.anon with
      | none => acc.fail .syntax
      | some (o, n) => parse v e (.objs s p) rest { stmts := ⟨s, .iri p, o⟩ :: acc.stmts, anon := n }
    | .valueSep => parse v e (.members s p m) rest acc
    | .str name =>
      if isMemberKey name then parse v e (.memColon s p m name) rest acc
      else acc.fail .syntax                                   -- "unexpected key"
    | _ => if v.checked then acc.fail .syntax else .panic     -- nameToken.(inspectjson.StringToken)
  | .memColon s p m name, t :: rest, acc =>
    match t with
    | .nameSep => parse v e (.memValue s p m name) rest acc
    | _ => acc.fail .syntax
  | .memValue s p m name, t :: rest, acc =>
    match t with
    | .str val => parse v e (.members s p (m.set name val)) rest acc
    | _ => acc.fail .syntax
  | .trailing, _ :: _, acc => acc.fail .syntax                -- "unexpected token" after the root object

/-- `Decoder.parseRoot()` on the tokens the tokenizer yields, then the error `e`. -/
def parseRoot (v : Variant) (toks : List Tok) (e : TEnd) : Result := parse v e .start toks {}

/-! ## Decoder: Next / Err / Triple -/

/-- The mutable fields of `Decoder`. -/
structure Dec where
  err : Option EClass := none          -- d.err
  stmts : List (Triple BNode) := []    -- d.statements
  idx : Int := -1                      -- d.statementsIdx
  deriving Repr, DecidableEq, Inhabited

inductive NextR where
  | panic
  | ret (d : Dec) (more : Bool)
  deriving Repr, DecidableEq, Inhabited

def Verdict.toErr : Verdict → Option EClass
  | .clean => none
  | .error e => some e

/-- `Decoder.Next()`. -/
def next (v : Variant) (toks : List Tok) (e : TEnd) (d : Dec) : NextR :=
  if d.err.isSome then .ret d false
  else
    let parsed : Option Dec :=
      if d.idx = -1 then
        match parseRoot v toks e with
        | .panic => none
        | .done ss vd => some { d with stmts := d.stmts ++ ss, err := vd.toErr }
      else some d
    match parsed with
    | none => .panic
    | some d1 =>
      let d2 := { d1 with idx := d1.idx + 1 }
      .ret d2 (decide (d2.idx < (d2.stmts.length : Int)))

/-- `Decoder.Triple()`: `r.statements[r.statementsIdx].triple` (index panic = `none`). -/
def current (d : Dec) : Option (Triple BNode) :=
  if d.idx < 0 then none else d.stmts[d.idx.toNat]?

/-- What a caller observes from `for d.Next() { use d.Triple() }; d.Err()`. -/
inductive Outcome where
  | panic
  | finished (yielded : List (Triple BNode)) (err : Option EClass)
  | outOfFuel                     -- never produced (theorem `run_closed_form`)
  deriving Repr, DecidableEq, Inhabited

def drive (v : Variant) (toks : List Tok) (e : TEnd) : Nat → Dec → List (Triple BNode) → Outcome
  | 0, _, _ => .outOfFuel
  | fuel + 1, d, acc =>
    match next v toks e d with
    | .panic => .panic
    | .ret d' false => .finished acc.reverse d'.err
    | .ret d' true =>
      match current d' with
      | none => .panic
      | some t => drive v toks e fuel d' (t :: acc)

/-- A full iteration over a fresh decoder. -/
def run (v : Variant) (toks : List Tok) (e : TEnd) : Outcome :=
  drive v toks e (toks.length + 2) {} []

/-! ## What the tokenizer guarantees: well-nested token streams -/

/-- Position inside the innermost open container. -/
inductive Frame where
  | root        -- nothing read yet: a value must follow
  | done        -- the root value is complete: no further token
  | arr         -- inside an array
  | objName     -- inside an object, at a member-name position (after `{` or `,`)
  | objColon    -- after a member name
  | objValue    -- after the `:`
  | objAfter    -- after a member value
  deriving Repr, DecidableEq, Inhabited

/-- The frame after the value that was expected there has been read. -/
def Frame.afterValue : Frame → Option Frame
  | .root => some .done
  | .arr => some .arr
  | .objValue => some .objAfter
  | _ => none

/-- One token against the frame stack (innermost first); `none` = not a token a JSON tokenizer
    can produce here. Extra commas (lax mode) are tolerated wherever a comma may stand. -/
def wnStep : List Frame → Tok → Option (List Frame)
  | [], _ => none
  | f :: stk, t =>
    match f, t with
    | .objName, .str _ => some (.objColon :: stk)
    | .objName, .endObject => some stk
    | .objName, .valueSep => some (.objName :: stk)
    | .objName, _ => none
    | .objColon, .nameSep => some (.objValue :: stk)
    | .objColon, _ => none
    | .objAfter, .valueSep => some (.objName :: stk)
    | .objAfter, .endObject => some stk
    | .objAfter, _ => none
    | .done, _ => none
    | .arr, .valueSep => some (.arr :: stk)
    | .arr, .endArray => some stk
    | f, t =>
      -- a value is expected (`root`, `arr`, `objValue`)
      match f.afterValue with
      | none => none
      | some f' =>
        match t with
        | .str _ => some (f' :: stk)
        | .other k => if k = 4 then none else some (f' :: stk)     -- whitespace is not a value
        | .beginObject => some (.objName :: f' :: stk)
        | .beginArray => some (.arr :: f' :: stk)
        | _ => none

def wnFrom : List Frame → List Tok → Bool
  | _, [] => true
  | stk, t :: rest =>
    match wnStep stk t with
    | none => false
    | some stk' => wnFrom stk' rest

/-- The token list is a prefix of a well-nested JSON token stream in which every member-name
    position holds a string, `}` or `,` — what `inspectjson.Tokenizer` guarantees as long as the
    `EmitWhitespace` option is off (validated by T3 on every real token stream). -/
def WellNested (toks : List Tok) : Bool := wnFrom [.root] toks

/-! ## Encoder -/

/-- One element of the object array: a Go `map[string]string` with keys among
    `type`, `value`, `lang`, `datatype`. -/
structure ObjRec where
  type : List Nat
  value : List Nat
  lang : Option (List Nat) := none
  datatype : Option (List Nat) := none
  deriving Repr, DecidableEq, Inhabited

/-- `w.buf`: `map[string]map[string][]any` as association lists (keys unique, insertion order). -/
abbrev PMap := List (List Nat × List ObjRec)
abbrev State := List (List Nat × PMap)

/-- `"_:" + label`. -/
def bnKey (l : List Nat) : List Nat := 0x5f :: 0x3a :: l

/-- The `switch o := t.Object.(type)` of `AddTriple`. -/
def objRec {β : Type} (label : β → List Nat) : Term β → ObjRec
  | .bnode b => { type := vBnode, value := bnKey (label b) }
  | .iri v => { type := vUri, value := v }
  | .lit lex dt tag =>
    if dt = rdfLangString then
      match tag with
      | some l => { type := vLiteral, value := lex, lang := some l }
      | none => { type := vLiteral, value := lex }
    else if dt ≠ xsdString then { type := vLiteral, value := lex, datatype := some dt }
    else { type := vLiteral, value := lex }

/-- `w.buf[sData][pData] = append(w.buf[sData][pData], oData)` on the inner map. -/
def insertObj (p : List Nat) (o : ObjRec) : PMap → PMap
  | [] => [(p, [o])]
  | (k, os) :: rest => if k = p then (k, os ++ [o]) :: rest else (k, os) :: insertObj p o rest

/-- … and on the outer map (creating the inner map when the subject is new). -/
def insertSPO (s p : List Nat) (o : ObjRec) : State → State
  | [] => [(s, [(p, [o])])]
  | (k, ps) :: rest => if k = s then (k, insertObj p o ps) :: rest else (k, ps) :: insertSPO s p o rest

/-- `Encoder.AddTriple`; `none` = "invalid type" error, buffer unchanged. -/
def addTriple {β : Type} (label : β → List Nat) (st : State) (t : Triple β) : Option State :=
  let sKey : Option (List Nat) :=
    match t.s with
    | .bnode b => some (bnKey (label b))
    | .iri v => some v
    | .lit .. => none
  match sKey, t.p with
  | some s, .iri p => some (insertSPO s p (objRec label t.o) st)
  | _, _ => none

/-- `AddTriple` with nil-able positions (`none` = a nil interface value: "invalid type"). -/
def addTripleRaw {β : Type} (label : β → List Nat) (st : State) :
    Option (Term β) → Option (Term β) → Option (Term β) → Option State
  | some s, some p, some o => addTriple label st ⟨s, p, o⟩
  | _, _, _ => none

/-- A sequence of `AddTriple` calls on a fresh encoder (failed calls leave the buffer unchanged). -/
def addAllFrom {β : Type} (label : β → List Nat) : State → List (Triple β) → State
  | st, [] => st
  | st, t :: ts => addAllFrom label ((addTriple label st t).getD st) ts

def addAll {β : Type} (label : β → List Nat) (ts : List (Triple β)) : State := addAllFrom label [] ts

/-- Go string comparison (`strings.Compare` on UTF-8 bytes) coincides with lexicographic order
    of code points for valid strings. `ltStr a b` = `a < b`. -/
def ltStr : List Nat → List Nat → Bool
  | [], [] => false
  | [], _ :: _ => true
  | _ :: _, [] => false
  | a :: as, b :: bs => if a < b then true else if b < a then false else ltStr as bs

/-- Insertion into a key-sorted association list. -/
def insertSorted {α : Type} (k : List Nat) (v : α) : List (List Nat × α) → List (List Nat × α)
  | [] => [(k, v)]
  | (k', v') :: rest => if ltStr k' k then (k', v') :: insertSorted k v rest else (k, v) :: (k', v') :: rest

/-- Keys in sorted order, as `encoding/json` writes a map. -/
def sortKeys {α : Type} : List (List Nat × α) → List (List Nat × α)
  | [] => []
  | (k, v) :: rest => insertSorted k v (sortKeys rest)

/-- `x₁ , x₂ , … , xₙ` -/
def joinSep : List (List Tok) → List Tok
  | [] => []
  | x :: xs => x ++ xs.flatMap (fun y => Tok.valueSep :: y)

def member (k : List Nat) (v : List Nat) : List Tok := [.str k, .nameSep, .str v]

/-- An object record with its keys in sorted order: datatype, lang, type, value. -/
def recTokens (r : ObjRec) : List Tok :=
  let fields : List (List Tok) :=
    (match r.datatype with | some d => [member kDatatype d] | none => []) ++
    (match r.lang with | some l => [member kLang l] | none => []) ++
    [member kType r.type, member kValue r.value]
  Tok.beginObject :: (joinSep fields ++ [Tok.endObject])

def predTokens (e : List Nat × List ObjRec) : List Tok :=
  Tok.str e.1 :: Tok.nameSep :: Tok.beginArray :: (joinSep (e.2.map recTokens) ++ [Tok.endArray])

def subjTokens (e : List Nat × PMap) : List Tok :=
  Tok.str e.1 :: Tok.nameSep :: Tok.beginObject :: (joinSep (e.2.map predTokens) ++ [Tok.endObject])

/-- The token stream of a buffer whose keys are written in the order given. -/
def rawTokens (st : State) : List Tok :=
  Tok.beginObject :: (joinSep (st.map subjTokens) ++ [Tok.endObject])

/-- The order in which `encoding/json` writes the buffer: every map with its keys sorted. -/
def sortState (st : State) : State := sortKeys (st.map (fun e => (e.1, sortKeys e.2)))

/-- The token stream of the JSON text written by `Close` (under the recorded assumption). -/
def encodeTokens (st : State) : List Tok := rawTokens (sortState st)

end RdfModel.RJ
