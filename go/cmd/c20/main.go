// Command c20: property C20 (XSD literal mapping).
//
//   - T3 correspondence: every generated (datatype, string) is mapped by the real packages
//     (xsdtype.Map* and the xsdobject.Map* wrappers) and by the compiled Lean driver
//     (Model.Xsd over the regenerated Gen.XsdFacts); canonical results are diffed. Same for
//     TermEquals and WhiteSpaceCollapse.
//   - Spec tie: Spec.XsdLexical.accepts (Lean) is diffed against the regular expressions printed in
//     XSD 1.1 Part 2 (this file, spec.go) on every generated string.
//   - Property oracle, evaluated on the Go implementation only: soundness (accepted ⇒ in the lexical
//     space), completeness on canonical forms of representable values, validity of the produced
//     lexical form, same value, idempotence of re-mapping, TermEquals ⇔ canonical form.
//   - Known findings: classes of /verif/known-findings.json, predicates in known.go.
package main

import (
	"flag"
	"fmt"
	"os"
	"regexp"
	"strconv"
	"strings"

	"verifharness/vh"
)

var (
	tier     = flag.String("tier", "quick", "quick|thorough")
	driver   = flag.String("driver", "/verif/lean/.lake/build/bin/driver", "lean driver binary")
	out      = flag.String("out", "/verif/evidence/.c20.report.json", "report path")
	findings = flag.String("findings", "/verif/known-findings.json", "known findings")
	replay   = flag.String("replay", "", "replay file (one protocol line per line)")
	scale    = flag.Int("scale", 1, "multiply generated case counts (search mode uses 10)")
	nomodel  = flag.Bool("nomodel", false, "property oracle on the implementation only (search mode / driver unavailable)")
	hints    = flag.String("hints", "", "file of protocol lines that disagreed; their inputs are pushed through the oracle first")
)

var reReplayOp = regexp.MustCompile(`xsd\.(?:map|teq|accepts|lexok) [A-Za-z0-9]+ x[0-9a-f]*|xsd\.collapse x[0-9a-f]*`)

type item struct {
	line string // protocol line for the driver
	goR  string // implementation result in the driver's canonical form
	kind string // "map" | "teq" | "collapse" | "spec"
	desc string
}

type harness struct {
	r     *vh.Rng
	rep   *vh.Report
	known map[string]vh.Finding
	items []item
	seen  map[string]struct{}
}

func (h *harness) add(kind, line, goR, desc string) {
	h.items = append(h.items, item{line: line, goR: goR, kind: kind, desc: desc})
}

// violation records a property failure on the implementation, or a known finding when the
// (type, input, aspect) falls into a listed class.
func (h *harness) violation(t *xtype, s, aspect, detail string, lex string) {
	op := "xsd.map " + t.name + " " + vh.XS(s)
	for _, key := range classify(t, s, aspect, lex) {
		if f, ok := h.known[key]; ok {
			h.rep.Count("known:" + f.Key)
			if h.rep.Hist["known:"+f.Key] > 2 { // two samples per class; the rest only counted
				return
			}
			h.rep.Add(vh.Case{Kind: "known", Key: f.Key, Op: op, Detail: fmt.Sprintf("%s [%s, %s %q]", f.What, aspect, t.name, s)})
			return
		}
	}
	h.rep.Count("violation:" + aspect)
	h.rep.Add(vh.Case{Kind: "violation", Op: op, Detail: fmt.Sprintf("%s: %s — xsd:%s %q", aspect, detail, t.name, s)})
}

// one runs a single (type, string) through implementation, oracle and (queued) model.
func (h *harness) one(t *xtype, s string, canonical, representable bool, origin string) {
	key := t.name + "\x00" + s
	if _, dup := h.seen[key]; dup {
		return
	}
	h.seen[key] = struct{}{}

	v, err := t.mapVal(s)
	ov, oerr := t.mapObj(s)
	goR := "err"
	lex := ""
	if err == nil {
		lex = lexOf(v)
		goR = "ok " + vh.XS(lex)
	}
	h.rep.Eval("xsd.map "+t.name+" "+vh.XS(s), err == nil || origin != "mutated")
	h.rep.Count("type:" + t.name)
	h.rep.Count("origin:" + origin)
	if err == nil {
		h.rep.Count("go:accepted")
	} else {
		h.rep.Count("go:rejected")
	}

	// xsdobject.Map* is a thin wrapper: same verdict, same literal
	if (err == nil) != (oerr == nil) || (err == nil && (lexOf(v) != litLex(ov) || dtOf(v) != litDt(ov))) {
		h.violation(t, s, "wrapper", "xsdobject.Map"+t.goName+" differs from xsdtype.Map"+t.goName, lex)
	}

	norm := specNormalize(t, s)
	inSpec := specLexOK(t, norm)
	if inSpec {
		h.rep.Count("spec:in-lexical-space")
	}

	// ---- property oracle on the implementation
	if err == nil && !inSpec {
		h.violation(t, s, "sound", "accepted, but not in the lexical space; literal "+fmt.Sprintf("%q", lex), lex)
	}
	if err != nil && canonical && representable {
		h.violation(t, s, "complete", "canonical lexical form of a representable value rejected: "+err.Error(), "")
	}
	if err == nil {
		if !specLexOK(t, lex) {
			h.violation(t, s, "outlex", fmt.Sprintf("AsObjectValue() lexical form %q is not in the lexical space", lex), lex)
		} else if inSpec {
			if same, why := sameValue(t, norm, lex); !same {
				h.violation(t, s, "samevalue", fmt.Sprintf("literal %q denotes a different value: %s", lex, why), lex)
			}
		}
		if dtOf(v) != vh.XSD+t.name {
			h.violation(t, s, "datatype", "literal datatype is "+dtOf(v), lex)
		}
		v2, err2 := t.mapVal(lex)
		switch {
		case err2 != nil:
			h.violation(t, s, "idempotent", fmt.Sprintf("re-mapping the literal %q fails: %v", lex, err2), lex)
		case !valuesEqual(v, v2):
			h.violation(t, s, "idempotent", fmt.Sprintf("re-mapping the literal %q gives a different value (%v vs %v)", lex, v, v2), lex)
		case lexOf(v2) != lex:
			h.violation(t, s, "idempotent", fmt.Sprintf("canonicalisation not stable: %q then %q", lex, lexOf(v2)), lex)
		}
		// TermEquals agrees with the canonical form
		dt := vh.XSD + t.name
		probes := []struct {
			dt, lex string
		}{{dt, lex}, {dt, norm}, {dt, s}, {dt, lex + " "}, {vh.XSD + otherName(t.name), lex}, {dt, h.mutateLex(lex)}}
		for _, p := range probes {
			got := v.TermEquals(lit(p.dt, p.lex))
			want := p.dt == dt && p.lex == lex
			if got != want {
				h.violation(t, s, "termequals", fmt.Sprintf("TermEquals(%q^^<%s>) = %v, canonical form is %q", p.lex, p.dt, got, lex), lex)
			}
			h.add("teq", fmt.Sprintf("xsd.teq %s %s L %s %s", t.name, vh.XS(s), vh.XS(p.dt), vh.XS(p.lex)), fmt.Sprint(got), "")
		}
		if v.TermEquals(iri("http://example.com/")) {
			h.violation(t, s, "termequals", "TermEquals(IRI) = true", lex)
		}
		h.add("teq", fmt.Sprintf("xsd.teq %s %s N", t.name, vh.XS(s)), "false", "")
	}

	// ---- queued for the model / the Lean spec
	h.add("map", "xsd.map "+t.name+" "+vh.XS(s), goR, origin)
	h.add("spec", "xsd.accepts "+t.name+" "+vh.XS(s), fmt.Sprint(inSpec), origin)
	if err == nil {
		h.add("spec", "xsd.lexok "+t.name+" "+vh.XS(lex), fmt.Sprint(specLexOK(t, lex)), "output")
	}
}

func (h *harness) mutateLex(lex string) string {
	m := string(h.r.Mutate([]byte(lex), []byte("0+-. 1")))
	if m == lex {
		return lex + "0"
	}
	return m
}

// collapseCase: xsdutil.WhiteSpaceCollapse against an independent implementation, the model and the spec.
func (h *harness) collapseCase(s string) {
	got := goCollapse(s)
	want := refCollapse(s)
	h.rep.Eval("xsd.collapse "+vh.XS(s), strings.ContainsAny(s, " \t\r\n"))
	h.rep.Count("op:collapse")
	if got != want {
		h.rep.Count("violation:collapse")
		h.rep.Add(vh.Case{Kind: "violation", Op: "xsd.collapse " + vh.XS(s), Detail: fmt.Sprintf("collapse: WhiteSpaceCollapse(%q) = %q, XSD whiteSpace=collapse gives %q", s, got, want)})
	}
	h.add("collapse", "xsd.collapse "+vh.XS(s), vh.XS(got), "")
	h.add("collapse", "xsd.speccollapse "+vh.XS(s), vh.XS(want), "ref")
}

// flush sends the queued protocol lines through the Lean driver and diffs the answers (T3).
func (h *harness) flush() {
	if *nomodel || len(h.items) == 0 {
		h.items = h.items[:0]
		return
	}
	lines := make([]string, len(h.items))
	for i, it := range h.items {
		lines[i] = it.line
	}
	res, err := vh.Driver{Path: *driver}.RunParallel(lines)
	if err != nil {
		fmt.Fprintln(os.Stderr, err)
		os.Exit(2)
	}
	for i, it := range h.items {
		h.rep.Compared++
		m := res[i]
		switch it.kind {
		case "map":
			// "ok ~": the model accepts and does not determine the text (a float was formatted)
			if m == it.goR || (m == "ok ~" && strings.HasPrefix(it.goR, "ok ")) {
				if m == "ok ~" {
					h.rep.Count("model:lexical-form-undetermined")
				}
				continue
			}
		case "teq":
			if m == it.goR || m == "unknown" {
				continue
			}
		default:
			if m == it.goR {
				continue
			}
		}
		what := "model ≠ implementation"
		if it.kind == "spec" || it.desc == "ref" {
			what = "Lean spec ≠ XSD regular expression / reference of the harness"
		}
		h.rep.Count("disagreement:" + it.kind)
		h.rep.Add(vh.Case{Kind: "disagreement", Op: it.line, Go: it.goR, Model: m, Detail: what + " (" + it.kind + " " + it.desc + ")"})
	}
	h.items = h.items[:0]
}

// strconvCase ties the models of strconv.ParseFloat / ParseInt / ParseUint to the standard library
// directly, whatever lexical checks the repository puts in front of them.
func (h *harness) strconvCase(s string) {
	h.rep.Eval("xsd.pf "+vh.XS(s), true)
	h.rep.Count("op:strconv")
	for _, bits := range []int{32, 64} {
		r := "err"
		if _, err := strconv.ParseFloat(s, bits); err == nil {
			r = "ok"
		}
		h.add("strconv", fmt.Sprintf("xsd.pf %d %s", bits, vh.XS(s)), r, "ParseFloat")
	}
	for _, bits := range []int{8, 16, 32, 64} {
		r := "err"
		if v, err := strconv.ParseInt(s, 10, bits); err == nil {
			r = "ok " + strconv.FormatInt(v, 10)
		}
		h.add("strconv", fmt.Sprintf("xsd.pi %d %s", bits, vh.XS(s)), r, "ParseInt")
		r = "err"
		if v, err := strconv.ParseUint(s, 10, bits); err == nil {
			r = "ok " + strconv.FormatUint(v, 10)
		}
		h.add("strconv", fmt.Sprintf("xsd.pu %d %s", bits, vh.XS(s)), r, "ParseUint")
	}
}

func parseLine(l string) (t *xtype, s string, ok bool) {
	f := strings.Fields(l)
	if len(f) < 3 || !strings.HasPrefix(f[0], "xsd.") {
		return nil, "", false
	}
	t = typeByName(f[1])
	b, err := vh.UnX(f[2])
	if t == nil || err != nil {
		return nil, "", false
	}
	return t, string(b), true
}

func main() {
	flag.Parse()
	if *floatMode == "only" { // part C20F, see float_main.go
		os.Exit(runFloat())
	}
	seed := vh.SeedFromEnv()
	rep := vh.NewReport("C20", *tier, seed, "per datatype (27): strings from the XSD lexical grammar (canonical and non-canonical), canonical forms at the range boundaries of the Go type, a hand-picked boundary corpus, byte-level mutations just outside the grammar, all optionally wrapped in XML white space; non-trivial = grammar/canonical/corpus string, or any string the implementation accepts")
	fs, err := vh.LoadFindings(*findings)
	if err != nil {
		fmt.Fprintln(os.Stderr, "findings:", err)
		os.Exit(2)
	}
	h := &harness{r: vh.NewRng(seed), rep: rep, known: vh.KnownKeys(fs, "C20"), seen: map[string]struct{}{}}

	if *replay != "" {
		b, err := os.ReadFile(*replay)
		if err != nil {
			fmt.Fprintln(os.Stderr, err)
			os.Exit(2)
		}
		// protocol lines, one per line or embedded in a replay JSON written by ./check
		for _, l := range reReplayOp.FindAllString(string(b), -1) {
			if t, s, ok := parseLine(l); ok {
				h.one(t, s, false, false, "replay")
			} else if f := strings.Fields(l); len(f) == 2 && f[0] == "xsd.collapse" {
				if raw, err := vh.UnX(f[1]); err == nil {
					h.collapseCase(string(raw))
				}
			}
		}
	} else {
		if *hints != "" {
			if b, err := os.ReadFile(*hints); err == nil {
				for _, l := range strings.Split(string(b), "\n") {
					if t, s, ok := parseLine(l); ok {
						h.one(t, s, false, false, "hint")
					}
				}
			}
		}
		n := 2500 * *scale
		if *tier == "thorough" {
			n = 150000 * *scale
		}
		h.generate(n)
	}

	if *nomodel {
		if err := rep.Write(*out); err != nil {
			fmt.Fprintln(os.Stderr, err)
			os.Exit(2)
		}
		fmt.Printf("c20 (oracle only): %d evaluations, %d failures\n", rep.Evaluations, rep.Failures())
		if rep.Failures() > 0 {
			os.Exit(1)
		}
		return
	}

	h.flush()
	if err := rep.Write(*out); err != nil {
		fmt.Fprintln(os.Stderr, err)
		os.Exit(2)
	}
	fmt.Printf("c20: %d evaluations, %d compared with the model, %d failures, %d known\n", rep.Evaluations, rep.Compared, rep.Failures(), len(rep.Cases)-rep.Failures())
	if rep.Failures() > 0 {
		os.Exit(1)
	}
}
