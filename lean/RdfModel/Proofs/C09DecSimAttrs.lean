/-
  Helper lemmas for Props/C09Dec.lean, part 4b: empty property elements WITH property attributes
  (rdf:resource / rdf:nodeID / a generated blank node described by literal property attributes), for the striped
  fragment.  The decoder emits the property-attribute statements BEFORE the element's own statement.
-/
import RdfModel.Proofs.C09DecSim
namespace RdfModel.RXD
open RdfModel RdfModel.Desc RdfModel.RX RdfModel.C09Dec

variable {rs : Str → Str → Str} {render : List Tok → Option Str}

theorem peltAttrLoop_append (A B : List Attr) (x : PInfo) :
    peltAttrLoop (A ++ B) x = match peltAttrLoop A x with
      | none => none
      | some y => peltAttrLoop B y := by
  induction A generalizing x with
  | nil => simp [peltAttrLoop]
  | cons a A ih =>
    simp only [List.cons_append, peltAttrLoop]
    repeat' split
    all_goals first | exact ih _ | rfl | simp_all

theorem peltAttrLoop_plain (B : List Attr) (hB : ∀ a ∈ B, PlainAttr a) (y : PInfo) : peltAttrLoop B y = some y := by
  induction B with
  | nil => rfl
  | cons a B ih =>
    have h1 : a.ns ≠ rdfNS := (hB a (by simp)).1
    simp only [peltAttrLoop, h1, false_and, if_false]
    exact ih (fun x hx => hB x (by simp [hx]))

theorem stdAttrs_split (i : AttrInfo) : stdAttrs i = stdAttrs { i with props := [] } ++ i.props := by
  simp [stdAttrs]

theorem peltAttrLoop_stdP (i : AttrInfo) (hp : ∀ a ∈ i.props, PlainAttr a) (ha : i.about = none)
    (hid : ∀ v, i.id = some v → isNCName v = true) :
    peltAttrLoop (stdAttrs i) {} = some
      { pt := match i.parseType with
              | none => []
              | some pt => if pt = n_Literal ∨ pt = n_Resource ∨ pt = n_Collection then pt else n_Literal
        rdfID := i.id, rdfResource := i.resource } := by
  rw [stdAttrs_split, peltAttrLoop_append, peltAttrLoop_std { i with props := [] } rfl ha hid]
  exact peltAttrLoop_plain _ hp _

theorem props_start_genericP (hf : EmptyRefNoFrag rs) (i : AttrInfo) (hp : ∀ a ∈ i.props, PlainAttr a) (ha : i.about = none)
    (hpt : i.parseType = none) (hid : ∀ v, i.id = some v → isNCName v = true) {env : Env} {ctx : Ctx}
    (hrel : CtxRel env ctx) (nm : PName) (li : Nat) (hname : wfName li nm = true) (s : Term BN) (ret : Ret)
    (below : List Frame) (ctx0 : Ctx) (st : St) :
    ∃ nctx st1, step (mkP rs render) ctx0 (.props ctx s li ret :: below) st (.start nm.ns nm.name (stdAttrs i)) =
        .cont (.pelt ctx nctx s nm.pred (stdAttrs i) i.id [] [] [] :: .props ctx s (nm.nextLi li) ret :: below) st1 ∧
      st1.next = st.next ∧ st1.out = st.out := by
  obtain ⟨c', st1, hpca, _, hn, ho, _⟩ := pca_std (render := render) hf i hp hrel st
  obtain ⟨_, hpred, hli⟩ := wfName_facts li nm hname
  refine ⟨c', st1, ?_, hn, ho⟩
  simp only [step, propNameForbidden_of_wfName hname, peltEntry, peltAttrLoop_stdP i hp ha hid, hpt, hpca,
    nil_ne_Literal, nil_ne_Resource, nil_ne_Collection, false_and, if_false, hpred, hli]
  rfl

theorem emptyLoop_stdD (i : AttrInfo) (ha : i.about = none) (hpt : i.parseType = none)
    (hn : ∀ n, i.nodeID = some n → isNCName n = true) :
    emptyLoop (rdfPart i) {} = some ⟨i.resource, i.nodeID, i.datatype.isSome, false,
      (if i.nodeID.isSome then 1 else 0) + (if i.resource.isSome then 1 else 0)⟩ := by
  have e1 : n_nodeID ≠ n_ID := by decide
  have e2 : n_nodeID ≠ n_resource := by decide
  have e3 : n_resource ≠ n_ID := by decide
  have e4 : n_datatype ≠ n_ID := by decide
  have e5 : n_datatype ≠ n_resource := by decide
  have e6 : n_datatype ≠ n_nodeID := by decide
  have e7 : n_resource ≠ n_nodeID := by decide
  simp only [rdfPart, ha, hpt]
  cases hN : i.nodeID with
  | none =>
    cases i.id <;> cases i.resource <;> cases i.datatype <;> simp [optAttr, emptyLoop, e1, e2, e3, e4, e5, e6, e7]
  | some n =>
    have := hn n hN
    cases i.id <;> cases i.resource <;> cases i.datatype <;> simp [optAttr, emptyLoop, e1, e2, e3, e4, e5, e6, e7, this]

theorem emptyAttrLoop_skip_append (P : Params) (ctx : Ctx) (o : Term BN) (A B : List Attr)
    (hA : ∀ a ∈ A, a.ns = rdfNS ∧ (a.name = n_ID ∨ a.name = n_resource ∨ a.name = n_nodeID ∨ a.name = n_datatype)) (st : St) :
    emptyAttrLoop P ctx o (A ++ B) st = emptyAttrLoop P ctx o B st := by
  induction A with
  | nil => rfl
  | cons a A ih =>
    obtain ⟨h1, h2⟩ := hA a (by simp)
    simp only [List.cons_append, emptyAttrLoop, h1, h2, and_self, if_true]
    exact ih (fun x hx => hA x (by simp [hx]))

theorem emptyAttrLoop_plain {env : Env} {ctx : Ctx} (hrel : CtxRel env ctx) (P : Params) (o : Term BN) (ho : WFSubj o)
    (B : List Attr) (hB : ∀ a ∈ B, PlainAttr a) (st : St) :
    ∃ st1, emptyAttrLoop P ctx o B st = .ok () st1 ∧
      st1.out = (B.map (propAttrTriple rs env o)).reverse ++ st.out ∧ st1.next = st.next := by
  induction B generalizing st with
  | nil => exact ⟨st, rfl, by simp, rfl⟩
  | cons a B ih =>
    have h1 : a.ns ≠ rdfNS := (hB a (by simp)).1
    have hs : asSubject o = some o := by cases o <;> simp_all [asSubject, WFSubj]
    obtain ⟨st1, e1, e2, e3⟩ := ih (fun x hx => hB x (by simp [hx])) (st.emit ⟨o, a.ns ++ a.name, mkLitCtx a.val ctx⟩)
    refine ⟨st1, ?_, ?_, by rw [e3]; rfl⟩
    · simp only [emptyAttrLoop, h1, false_and, if_false, hs]
      exact e1
    · rw [e2]; simp [St.emit, propAttrTriple, h1, mkLitCtx, hrel.2]

/-- the rdf:datatype attribute may be present (then the element denotes a blank node) -/
theorem rdfPart_skipD (i : AttrInfo) (ha : i.about = none) (hpt : i.parseType = none) :
    ∀ a ∈ rdfPart i, a.ns = rdfNS ∧ (a.name = n_ID ∨ a.name = n_resource ∨ a.name = n_nodeID ∨ a.name = n_datatype) :=
  rdfPart_skip i ha hpt

/-- empty property element that is NOT the plain empty literal: object from rdf:resource / rdf:nodeID / a new blank
    node; property attributes first, then the element's statement and its reification -/
theorem peltEnd_emptyP (hf : EmptyRefNoFrag rs) (i : AttrInfo) (hp : ∀ a ∈ i.props, PlainAttr a) (ha : i.about = none)
    (hpt : i.parseType = none) (hnn : ∀ n, i.nodeID = some n → isNCName n = true)
    (hone : i.nodeID = none ∨ i.resource = none)
    (hsome : i.props ≠ [] ∨ i.resource.isSome ∨ i.nodeID.isSome ∨ i.datatype.isSome)
    {env : Env} {ctx : Ctx} (hrel : CtxRel env ctx) (s : Term BN) (pred : Str) (id : PId) (hi : i.id = PId.val id)
    {S S' : RX.St} (hidwf : wfId rs (env.push rs i.base i.lang) id S = some S') (st : St) :
    ∃ st1 o, peltEnd (mkP rs render) ctx s pred (stdAttrs i) i.id [] [] st = .ok () st1 ∧
      o = (match i.resource, i.nodeID with
        | some r, _ => Term.iri (rs (env.push rs i.base i.lang).base r)
        | none, some n => .bnode (.named n)
        | none, none => .bnode (.gen st.next)) ∧
      st1.out = (withReify (PId.iri id) ⟨s, pred, o⟩).reverse ++
        (i.props.map (propAttrTriple rs (env.push rs i.base i.lang) o)).reverse ++ st.out ∧
      st1.next = (match i.resource, i.nodeID with | none, none => st.next + 1 | _, _ => st.next) := by
  obtain ⟨c', st1, hpca, hrel', hn, ho, _⟩ := pca_std (render := render) hf i hp hrel st
  have hres := fun v => resolveIRI_sim (render := render) hf hrel' v
  have hcond : ¬(i.props = [] ∧ True ∧ i.resource = none ∧ i.nodeID = none ∧ i.datatype.isSome = false) := by
    intro ⟨h1, _, h2, h3, h4⟩
    rcases hsome with h | h | h | h
    · exact h h1
    · simp [h2] at h
    · simp [h3] at h
    · simp [h4] at h
  -- the object and the state after choosing it
  have hobj : ∃ o st2, emptyObject (mkP rs render) c' ⟨i.resource, i.nodeID, i.datatype.isSome, false,
        (if i.nodeID.isSome then 1 else 0) + (if i.resource.isSome then 1 else 0)⟩ st1 = .ok o st2 ∧ WFSubj o ∧
      o = (match i.resource, i.nodeID with
        | some r, _ => Term.iri (rs (env.push rs i.base i.lang).base r)
        | none, some n => .bnode (.named n)
        | none, none => .bnode (.gen st.next)) ∧ st2.out = st1.out ∧
      st2.next = (match i.resource, i.nodeID with | none, none => st.next + 1 | _, _ => st.next) := by
    cases hR : i.resource with
    | some r => exact ⟨_, st1, by simp [emptyObject, hres], by simp [WFSubj], rfl, rfl, by simp [hn]⟩
    | none =>
      cases hN : i.nodeID with
      | some n => exact ⟨_, st1, by simp [emptyObject], by simp [WFSubj], rfl, rfl, by simp [hn]⟩
      | none => exact ⟨st1.fresh.1, st1.fresh.2, by simp [emptyObject], by simp [WFSubj, St.fresh], by simp [St.fresh, hn], rfl,
          by simp [St.fresh, hn]⟩
  obtain ⟨o, st2, hobj1, hwo, hoeq, hout2, hnext2⟩ := hobj
  obtain ⟨st3, hl1, hl2, hl3⟩ := emptyAttrLoop_plain (rs := rs) hrel' (mkP rs render) o hwo i.props hp st2
  obtain ⟨st4, h1, h2, h3⟩ := optReify_sim (render := render) hf hrel' hidwf ⟨s, pred, o⟩ (st3.emit ⟨s, pred, o⟩) st3.out rfl
  have hnames : ¬((if i.nodeID.isSome then 1 else 0) + (if i.resource.isSome then 1 else 0) > 1) := by
    rcases hone with h | h <;> simp [h] <;> split <;> omega
  refine ⟨st4, o, ?_, hoeq, by rw [h2, hl2, hout2, ho, List.append_assoc], by rw [h3]; simp only [St.emit]; rw [hl3, hnext2]⟩
  unfold peltEnd
  simp only [ne_eq, not_true_eq_false, if_false, hpca, emptyLoop_stdD i ha hpt hnn, hnames, hcond, hobj1,
    emptyAttrLoop_skip_append _ _ _ _ _ (rdfPart_skipD i ha hpt), hl1, hi, h1]

/-- the whole empty property element with property attributes / rdf:resource / rdf:nodeID / rdf:datatype -/
theorem empty_elt_simP (hf : EmptyRefNoFrag rs) (i : AttrInfo) (hp : ∀ a ∈ i.props, PlainAttr a) (ha : i.about = none)
    (hpt : i.parseType = none) (hnn : ∀ n, i.nodeID = some n → isNCName n = true)
    (hone : i.nodeID = none ∨ i.resource = none)
    (hsome : i.props ≠ [] ∨ i.resource.isSome ∨ i.nodeID.isSome ∨ i.datatype.isSome)
    {env : Env} {ctx : Ctx} (hrel : CtxRel env ctx) (nm : PName) (li : Nat)
    (hname : wfName li nm = true) (s : Term BN) (id : PId) (hi : i.id = PId.val id)
    {S S' : RX.St} (hidwf : wfId rs (env.push rs i.base i.lang) id S = some S')
    (ret : Ret) (below : List Frame) (ctx0 : Ctx) (st : St) (rest : List Tok) (fin : Fin) :
    ∃ st1 o, run (mkP rs render) ctx0 (.props ctx s li ret :: below) st
        (.start nm.ns nm.name (stdAttrs i) :: .end_ nm.ns nm.name :: rest) fin =
        run (mkP rs render) ctx0 (.props ctx s (nm.nextLi li) ret :: below) st1 rest fin ∧
      o = (match i.resource, i.nodeID with
        | some r, _ => Term.iri (rs (env.push rs i.base i.lang).base r)
        | none, some n => .bnode (.named n)
        | none, none => .bnode (.gen st.next)) ∧
      st1.out = (withReify (PId.iri id) ⟨s, nm.pred, o⟩).reverse ++
        (i.props.map (propAttrTriple rs (env.push rs i.base i.lang) o)).reverse ++ st.out ∧
      st1.next = (match i.resource, i.nodeID with | none, none => st.next + 1 | _, _ => st.next) := by
  have hidn := pidVal_ncname hidwf
  obtain ⟨nctx, st1, h1, hn1, ho1⟩ := props_start_genericP (render := render) hf i hp ha hpt (by rw [hi]; exact hidn) hrel nm li
    hname s ret below ctx0 st
  obtain ⟨st2, o, h2, hoeq, ho2, hn2⟩ := peltEnd_emptyP (render := render) hf i hp ha hpt hnn hone hsome hrel s nm.pred id hi hidwf st1
  refine ⟨st2, o, ?_, by rw [hoeq, hn1], by rw [ho2, ho1], by rw [hn2, hn1]⟩
  rw [run_step h1, run_step (stk' := .props ctx s (nm.nextLi li) ret :: below) (st' := st2) (by simp [step, h2])]

end RdfModel.RXD
