/-
  Driver handler for component `ttlo` (property C16, Turtle / TriG statement layer with text offsets:
  `Model.TurtleDocOffsets`).

    ttlo.dec <pkg:turtle|trig> <end:eof|io> <capture 0|1> <columns 0|1> <dbl 0|1> <byte,line,col> <base:x<hex>|-> x<hex bytes>
      → <stmt>;<stmt>…|<verdict>|<error position>
        stmt    = s,p,o,g@<s>/<p>/<o>/<g>    terms as `ttld.dec` (blank nodes renumbered by first
                  occurrence), range = b.l.c-b.l.c or - (absent)
        verdict = clean | err:<eof|io|syntax|pfx|resolve> | panic | out-of-fuel
        error   = E- | Eb<byte> | Et<b.l.c> | Er<b.l.c>-<b.l.c>
      columns = 0 prints `*` for every column (documents outside `TW.simple`).
      dbl = 1: the code before patch c16d-1 (`CfgO.dbl`, capture-off byte offset of the hand-back error sites).
    ttlo.erased <pkg> <end> <capture> <base> <bytes>  →  the `ttld.dec` answer computed from the
      instrumented run with sizes / writer / ranges forgotten (run-time cross-check of `doc_erasure`).

  IRI resolution: `Driver.TtlDoc.resolveSafe` (RFC 3986 on the safe fragment), as for `ttld.dec`.
-/
import RdfModel.Driver.Wire
import RdfModel.Driver.NQO
import RdfModel.Driver.TtlDoc
import RdfModel.Model.TurtleDocOffsets
namespace RdfModel.Driver.TtlDocO
open RdfModel RdfModel.Wire RdfModel.TW RdfModel.NQO RdfModel.TtlDocO RdfModel.Driver.NQO

def cfgOf (pkg : String) (dbl : Bool := false) : Option CfgO :=
  let mk (trig : Bool) (T : Ttl.Tables) : CfgO :=
    { trig := trig, T := T, resolve := Driver.TtlDoc.resolveSafe,
      isSpace := inRanges Gen.unicodeSpace, pnBase := inRanges T.pnCharsBase, dbl := dbl }
  if pkg = "turtle" then some (mk false Gen.turtle)
  else if pkg = "trig" then some (mk true Gen.trig)
  else none

def showRanges (withCols : Bool) (init : Offset) (rg : Ranges) : String :=
  showRange withCols init rg.s ++ "/" ++ showRange withCols init rg.p ++ "/" ++
    showRange withCols init rg.o ++ "/" ++ showRange withCols init rg.g

def zipShow (withCols : Bool) (init : Offset) : List String → List StmtO → List String
  | w :: ws, s :: ss => (w ++ "@" ++ showRanges withCols init s.rg) :: zipShow withCols init ws ss
  | _, _ => []

def handle (op : String) (args : List String) : Option String :=
  match op, args with
  | "dec", [pkg, e, cap, wc, dbl, init, base, inp] => do
    let C ← cfgOf pkg (dbl = "1")
    let e ← (if e = "eof" then some NQ.End.eof else if e = "io" then some NQ.End.ioerr else none)
    let init ← parseOffset init
    let base ← Driver.TtlDoc.optRunes base
    let rs ← sizedTok inp
    let withCols := wc = "1"
    let out := runO C e (cap = "1") base [] rs
    let wires := Driver.TtlDoc.showStmts [] (out.stmts.map (·.st))
    pure (String.intercalate ";" (zipShow withCols init wires out.stmts) ++ "|" ++
      Driver.TtlDoc.showVerdict out.verdict ++ "|" ++ showErrPos withCols (evalEOff onePer init out.eoff))
  | "erased", [pkg, e, cap, base, inp] => do
    let C ← cfgOf pkg
    let e ← (if e = "eof" then some NQ.End.eof else if e = "io" then some NQ.End.ioerr else none)
    let base ← Driver.TtlDoc.optRunes base
    let rs ← sizedTok inp
    let out := runO C e (cap = "1") base [] rs
    pure (String.intercalate ";" (Driver.TtlDoc.showStmts [] (out.stmts.map (·.st))) ++ "|" ++
      Driver.TtlDoc.showVerdict out.verdict)
  | _, _ => none

end RdfModel.Driver.TtlDocO
