/-
  Proofs for C10D (2): every statement the model emits is well-formed (C06), also the statements
  appended before an error. Invariant carried through the eight mutual functions: `ECtx.ok`.
-/
import RdfModel.Props.C10DDefs
namespace RdfModel.Proofs.C10D
open RdfModel RdfModel.Desc RdfModel.JLD RdfModel.C10D

/-- every statement appended by the call is well-formed -/
def AllWf (r : R) : Prop := ∀ q ∈ R.quads r, WfRQ q = true

def ListWf (qs : List RQ) : Prop := ∀ q ∈ qs, WfRQ q = true

theorem allWf_ok {qs : List RQ} {n : Nat} (h : ListWf qs) : AllWf (.ok qs n) := h
theorem allWf_err {e : Err} {qs : List RQ} (h : ListWf qs) : AllWf (.err e qs) := h
theorem allWf_panic : AllWf .panic := by intro q hq; simp [R.quads] at hq
theorem listWf_nil : ListWf [] := by intro q hq; simp at hq
theorem listWf_cons {q : RQ} {qs : List RQ} (h1 : WfRQ q = true) (h2 : ListWf qs) : ListWf (q :: qs) := by
  intro x hx
  rcases List.mem_cons.1 hx with rfl | hx
  · exact h1
  · exact h2 x hx
theorem listWf_append {a b : List RQ} (h1 : ListWf a) (h2 : ListWf b) : ListWf (a ++ b) := by
  intro x hx
  rcases List.mem_append.1 hx with hx | hx
  · exact h1 x hx
  · exact h2 x hx

theorem allWf_andThen {r : R} {f : Nat → R} (hr : AllWf r) (hf : ∀ n, AllWf (f n)) : AllWf (r.andThen f) := by
  cases r with
  | panic => exact allWf_panic
  | err e q => exact hr
  | ok q n =>
    have h2 := hf n
    simp only [R.andThen]
    cases h : f n with
    | panic => exact allWf_panic
    | err e q2 => rw [h] at h2; exact listWf_append hr h2
    | ok q2 n2 => rw [h] at h2; exact listWf_append hr h2

theorem allWf_pre {qs : List RQ} {r : R} (hq : ListWf qs) (hr : AllWf r) : AllWf (R.pre qs r) := by
  cases r with
  | panic => exact allWf_panic
  | err e q => exact listWf_append hq hr
  | ok q n => exact listWf_append hq hr

theorem allWf_wrapList {r : R} (hr : AllWf r) : AllWf r.wrapList := by
  cases r <;> exact hr

theorem allWf_ite {c : Prop} [Decidable c] {a b : R} (ha : AllWf a) (hb : AllWf b) : AllWf (if c then a else b) := by
  split <;> assumption

/-! ### constants -/

theorem xsdString_ne : xsdString ≠ [] ∧ xsdString ≠ rdfLangString ∧ xsdString ≠ rdfDirLangString := by decide
theorem xsdBoolean_ne : xsdBoolean ≠ [] ∧ xsdBoolean ≠ rdfLangString ∧ xsdBoolean ≠ rdfDirLangString := by decide
theorem xsdInteger_ne : xsdInteger ≠ [] ∧ xsdInteger ≠ rdfLangString ∧ xsdInteger ≠ rdfDirLangString := by decide
theorem xsdDouble_ne : xsdDouble ≠ [] ∧ xsdDouble ≠ rdfLangString ∧ xsdDouble ≠ rdfDirLangString := by decide
theorem rdfJSON_ne : rdfJSON ≠ [] ∧ rdfJSON ≠ rdfLangString ∧ rdfJSON ≠ rdfDirLangString := by decide
theorem preds_ne : rdfType ≠ [] ∧ rdfValue ≠ [] ∧ rdfDirection ≠ [] ∧ rdfLanguage ≠ [] ∧ rdfFirst ≠ [] ∧ rdfRest ≠ [] := by decide

theorem i18n_ne (x : Str) : i18nNs ++ x ≠ [] ∧ i18nNs ++ x ≠ rdfLangString ∧ i18nNs ++ x ≠ rdfDirLangString := by
  have hlen : 5 ≤ i18nNs.length := by decide
  have take5 : (i18nNs ++ x).take 5 = i18nNs.take 5 := List.take_append_of_le_length hlen
  refine ⟨?_, ?_, ?_⟩
  · intro h
    have := congrArg List.length h
    simp at this
    have h0 : i18nNs ≠ [] := by decide
    exact h0 this.1
  · intro h
    have h1 : (i18nNs ++ x).take 5 = rdfLangString.take 5 := by rw [h]
    rw [take5] at h1
    exact absurd h1 (by decide)
  · intro h
    have h1 : (i18nNs ++ x).take 5 = rdfDirLangString.take 5 := by rw [h]
    rw [take5] at h1
    exact absurd h1 (by decide)

/-! ### single statements -/

theorem wfrq_mk {s o g : Option T} {p : Str} (hs : wfSubject s = true) (hp : p ≠ []) (ho : wfObject o = true)
    (hg : wfGraph g = true) : WfRQ ⟨s, p, o, g⟩ = true := by
  simp [WfRQ, hs, hp, ho, hg]

/-- an untagged literal whose datatype is set, and is not one of the two tagged-string datatypes -/
theorem wfObject_plain (lex dt : Str) (h : dt ≠ [] ∧ dt ≠ rdfLangString ∧ dt ≠ rdfDirLangString) :
    wfObject (some (lit lex dt none)) = true := by
  simp [wfObject, lit, h.1, h.2.1, h.2.2]

/-- `if len(lit.Datatype) == 0 { lit.Datatype = xsd:string }` -/
theorem wfObject_finish (lex dt : Str) (h : dt ≠ rdfLangString ∧ dt ≠ rdfDirLangString) :
    wfObject (some (lit lex (if dt = [] then xsdString else dt) none)) = true := by
  split
  · exact wfObject_plain _ _ xsdString_ne
  · rename_i h0; exact wfObject_plain _ _ ⟨h0, h.1, h.2⟩

theorem wfObject_lang (lex tag : Str) (h : tag ≠ []) : wfObject (some (lit lex rdfLangString (some tag))) = true := by
  simp [wfObject, lit, h]

theorem wfSubject_object {s : Option T} (h : wfSubject s = true) : wfObject s = true := by
  cases s with
  | none => simp [wfSubject] at h
  | some t => cases t <;> simp_all [wfSubject, wfObject]

theorem wfSubject_graph {t : T} (h : wfSubject (some t) = true) : wfGraph (some t) = true := by
  cases t <;> simp_all [wfSubject, wfGraph]

theorem wfLang_ne {l : Str} (h : isWellFormedLang l = true) : l ≠ [] := by
  intro h0; subst h0; simp [isWellFormedLang] at h

theorem wfIri_ne {k : Str} (h : isWellFormedIRI k = true) : k ≠ [] := by
  intro h0; subst h0; simp [isWellFormedIRI, wfIriGo] at h

/-! ### decodeValueNode -/

theorem decodeStringValue_wf (cfg : Cfg) (g s : Option T) (p dt0 lex : Str) (atLang atDir : Option Exp) (n : Nat)
    (hdir : cfg.dir ≠ .other) (hs : wfSubject s = true) (hp : p ≠ []) (hg : wfGraph g = true)
    (hdt : dt0 ≠ rdfLangString ∧ dt0 ≠ rdfDirLangString) :
    AllWf (decodeStringValue cfg g s p dt0 lex atLang atDir n) := by
  have one : ∀ (o : T), wfObject (some o) = true → ∀ m, AllWf (.ok [⟨s, p, some o, g⟩] m) := by
    intro o ho m
    exact allWf_ok (listWf_cons (wfrq_mk hs hp ho hg) listWf_nil)
  have fin : ∀ dt, dt ≠ rdfLangString ∧ dt ≠ rdfDirLangString → ∀ m,
      AllWf (.ok [⟨s, p, some (lit lex (if dt = [] then xsdString else dt) none), g⟩] m) :=
    fun dt h m => one _ (wfObject_finish lex dt h) m
  have finLang : ∀ l : Str, l ≠ [] → ∀ m,
      AllWf (.ok [⟨s, p, some (lit lex (if rdfLangString = [] then xsdString else rdfLangString) (some l)), g⟩] m) := by
    intro l hl m
    have : (if rdfLangString = [] then xsdString else rdfLangString) = rdfLangString := by decide
    rw [this]
    exact one _ (wfObject_lang lex l hl) m
  unfold decodeStringValue
  simp only []
  split
  · exact fin dt0 hdt n
  · split
    · exact allWf_err listWf_nil
    · rename_i lang? hlang
      split
      · exact allWf_ok listWf_nil
      · rename_i hwfl
        split
        · exact allWf_err listWf_nil
        · rename_i dir? hdirR
          split
          · exact allWf_ok listWf_nil
          · split
            · exact fin dt0 hdt n
            · -- no explicit datatype
              have hl : ∀ l, lang? = some l → l ≠ [] := by
                intro l hl; subst hl
                simp only [Bool.not_eq_true, Bool.not_eq_eq_eq_not, Bool.not_false] at hwfl
                exact wfLang_ne (by simpa using hwfl)
              cases lang? with
              | none =>
                simp only [Option.isSome_none, Bool.false_eq_true, if_false, Option.getD_none]
                split
                · split
                  · exact fin [] (by decide) n
                  · exact fin _ ⟨(i18n_ne _).2.1, (i18n_ne _).2.2⟩ n
                  · refine allWf_ok ?_
                    simp only [List.append_nil]
                    have hnode : wfSubject (some (Term.bnode (BN.fresh n) : T)) = true := rfl
                    refine listWf_cons (wfrq_mk hs hp rfl hg) (listWf_cons (wfrq_mk hnode preds_ne.2.1 (wfObject_plain _ _ xsdString_ne) hg)
                      (listWf_cons (wfrq_mk hnode preds_ne.2.2.1 (wfObject_plain _ _ xsdString_ne) hg) listWf_nil))
                  · rename_i ho; exact absurd ho hdir
                · exact fin [] (by decide) n
              | some l =>
                have hl' := hl l rfl
                simp only [Option.isSome_some, if_true, Option.getD_some]
                split
                · split
                  · exact finLang l hl' n
                  · exact fin _ ⟨(i18n_ne _).2.1, (i18n_ne _).2.2⟩ n
                  · refine allWf_ok ?_
                    have hnode : wfSubject (some (Term.bnode (BN.fresh n) : T)) = true := rfl
                    refine listWf_append (listWf_cons (wfrq_mk hs hp rfl hg) (listWf_cons (wfrq_mk hnode preds_ne.2.1 (wfObject_plain _ _ xsdString_ne) hg)
                      (listWf_cons (wfrq_mk hnode preds_ne.2.2.1 (wfObject_plain _ _ xsdString_ne) hg) listWf_nil)))
                      (listWf_cons (wfrq_mk hnode preds_ne.2.2.2.1 (wfObject_plain _ _ xsdString_ne) hg) listWf_nil)
                  · rename_i ho; exact absurd ho hdir
                · exact finLang l hl' n

end RdfModel.Proofs.C10D
