/-
  Driver component "xsd": Model.Xsd (with the facts regenerated into Gen.XsdFacts) and
  Spec.XsdLexical behind the line protocol.
    xsd.map <type> x<hex>                  → ok x<hex> | ok ~ | err | unmodelled
    xsd.teq <type> x<hex> L x<dt> x<lex>   → true | false | err | unknown     (TermEquals of the mapped value)
    xsd.teq <type> x<hex> N                → same, for a non-literal term
    xsd.accepts <type> x<hex>              → true | false    (Spec: lexical space after whiteSpace normalisation)
    xsd.lexok <type> x<hex>                → true | false    (Spec: lexical space, string taken as is)
    xsd.collapse x<hex>                    → x<hex>          (model of xsdutil.WhiteSpaceCollapse)
    xsd.speccollapse x<hex>                → x<hex>          (Spec.collapse)
    xsd.pf <bits> x<hex>                   → ok | err        (model of strconv.ParseFloat: accepted and in range)
    xsd.pi <bits> x<hex>                   → ok <int> | err  (model of strconv.ParseInt base 10)
    xsd.pu <bits> x<hex>                   → ok <nat> | err  (model of strconv.ParseUint base 10)
-/
import RdfModel.Driver.Wire
import RdfModel.Model.Xsd
import RdfModel.Gen.XsdFacts
namespace RdfModel.Driver.Xsd
open RdfModel RdfModel.Wire RdfModel.Xsd

def showRes : MapRes → String
  | .ok (some b) => "ok " ++ tokOfBytes b
  | .ok none => "ok ~"
  | .err => "err"
  | .unmodelled => "unmodelled"

def showTeq : TeqRes → String
  | .val b => toString b
  | .mapErr => "err"
  | .unknown => "unknown"

def handle (op : String) (args : List String) : Option String :=
  match op, args with
  | "map", [ty, inp] => do
    let T ← Spec.Xsd.Dt.ofName ty
    let bs ← bytesTok inp
    pure (showRes (mapObject Gen.xsdFacts T bs))
  | "teq", [ty, inp, "L", dt, lex] => do
    let T ← Spec.Xsd.Dt.ofName ty
    let bs ← bytesTok inp
    let d ← bytesTok dt
    let l ← bytesTok lex
    pure (showTeq (termEqualsObject Gen.xsdFacts T bs (.literal d l)))
  | "teq", [ty, inp, "N"] => do
    let T ← Spec.Xsd.Dt.ofName ty
    let bs ← bytesTok inp
    pure (showTeq (termEqualsObject Gen.xsdFacts T bs .notLiteral))
  | "accepts", [ty, inp] => do
    let T ← Spec.Xsd.Dt.ofName ty
    let bs ← bytesTok inp
    pure (toString (Spec.Xsd.accepts T bs))
  | "lexok", [ty, inp] => do
    let T ← Spec.Xsd.Dt.ofName ty
    let bs ← bytesTok inp
    pure (toString (Spec.Xsd.lexOK T bs))
  | "collapse", [inp] => do
    let bs ← bytesTok inp
    pure (tokOfBytes (whiteSpaceCollapse bs))
  | "speccollapse", [inp] => do
    let bs ← bytesTok inp
    pure (tokOfBytes (Spec.Xsd.collapse bs))
  | "pf", [bits, inp] => do
    let b ← bits.toNat?
    let bs ← bytesTok inp
    pure (match parseFloat bs b with | .ok _ => "ok" | .error _ => "err")
  | "pi", [bits, inp] => do
    let b ← bits.toNat?
    let bs ← bytesTok inp
    pure (match parseInt bs 10 b with | .ok v => "ok " ++ toString v | .error _ => "err")
  | "pu", [bits, inp] => do
    let b ← bits.toNat?
    let bs ← bytesTok inp
    pure (match parseUint bs 10 b with | .ok v => "ok " ++ toString v | .error _ => "err")
  | _, _ => none

end RdfModel.Driver.Xsd
