/-
  RdfModel.Model.Pipe — executable model of format conversion through the I/O registry and the
  `rdfkit pipe` command (property C18).

  Go code followed, function by function:
    rdfio/rdfiotypes/registry.go      Registry.ResolveDecoderType / ResolveEncoderType   → `resolveDecoderType`, `resolveEncoderType`
                                      Registry.NewDecoder / NewEncoder (manager lookup)   → `openDecoderType`, `openEncoderType`
    cmd/rdfkit/cmdflags/*.go          EncodingInput.Open / EncodingOutput.Open (fallback)  → `openDecoderType`, `openEncoderType`
    rdfio/fileresource/manager.go     NewReader / NewWriter (name → file name, IRI)         → `fileName`, `fileIRI`
    path/filepath                     Base, Ext (POSIX)                                     → `filepathBase`, `filepathExt`
    rdfio/rdfiotypes/decoder.go       DecoderHandle.GetQuadsDecoder                         → `getQuadsDecoder`
    rdfio/rdfiotypes/encoder.go       EncoderHandle.GetQuadsEncoder,
                                      PropagateDecoderPipeBlankNodeStringProvider           → `getQuadsEncoder`, `pipeProvider`
    encoding/encodingutil/quad_as_triple.go, triples_as_quad.go                             → `quadAsTriple`, `tripleAsQuad`
    cmd/rdfkit/pipecmd/command.go     the decode → adapt → encode loop                      → `pipeStatements`, `labelQuads`, `pipeNQ`
    cmd/rdfkit/cmdflags/encoding_output.go   EncodingOutput.Open (flags → EncoderOptions)     → `OutFlags`, `encoderBase`
    rdfio/rdfiotypes/registry.go      Registry.NewEncoder (`BaseIRI` defaults to `ww.GetIRI()`) → `encoderBase`
    rdfio/rdfiotypes/params.go, kvstrings   LoadAndApplyParams / Collection.ImportStrings    → `splitFirst`, `parseBool`, `importAll`
    encoding/{nquads,ntriples}/…rdfio/encoder.go, encoder_params.go   `ascii`                 → `NQParams`, `nqAscii`, `pipeNQp`
    encoding/rdfjson/rdfjsonrdfio/encoder.go (no parameters)                                  → `rjParamsOK`, `pipeRJ`
    encoding/turtle/turtlerdfio/encoder.go, encoder_params.go   `buffered`, `iris.useBase`,
                                      `iris.usePrefix`, `resources` → `turtle.EncoderConfig`    → `TtlParams`, `ttlPrefixes`, `ttlOptions`, `pipeTtl`
    (the Turtle / RDF-JSON encoders themselves are `Model/TurtleEncoder.lean` (C02) and `Model/RdfJson.lean` (C01))

  Conventions.
  * Go strings are byte lists (`Str`); `strings.ToLower` is modelled for ASCII only (`asciiLower`); T3 feeds
    ASCII names and media types (non-ASCII case folding is outside the model).
  * A Go `map[string]T` is an association list with distinct keys; lookup is `BN.assoc`. Iteration over a map
    (`for fileExt, cti := range r.FileExts`) happens in an order Go does not specify: the order is the explicit
    parameter `ord` (a permutation of the table).
  * Magic-byte resolvers are Go closures over regular expressions (outside the model): the model takes the
    list of their answers on the peeked bytes, in registry order (`magic : Option (List (Option Cti))`,
    `none` = `GetMagicBytes` reported no bytes).
  * Blank nodes, factories and label providers are those of `Model/BlankNodes.lean` (C14). Labels (`BN.Bytes`)
    are read as code-point lists here (`[]rune(label)`; decoders only produce valid UTF-8 labels, for which
    string equality and rune-list equality coincide), because that is what `Model/NQuads.lean` writes.
  Core-only imports.
-/
import RdfModel.Model.Term
import RdfModel.Model.BlankNodes
import RdfModel.Model.NQuads
import RdfModel.Model.TurtleEncoder
import RdfModel.Model.RdfJson
namespace RdfModel.Pipe
open RdfModel

abbrev Str := List Nat
/-- `encoding.ContentTypeIdentifier` -/
abbrev Cti := Str

/-! ## path/filepath (POSIX), strings -/

def asciiLower (s : Str) : Str := s.map (fun c => if 0x41 ≤ c ∧ c ≤ 0x5a then c + 32 else c)

/-- `strings.HasSuffix` -/
def hasSuffix (s suf : Str) : Bool := suf.isSuffixOf s

/-- `strings.TrimPrefix` -/
def trimPrefix (s pre : Str) : Str := if pre.isPrefixOf s then s.drop pre.length else s

def dropTrailingSlashes (rev : Str) : Str := rev.dropWhile (· = 0x2f)

/-- `filepath.Base`: last element of the path; trailing slashes removed first; `.` for the empty path,
    `/` for a path of slashes only. -/
def filepathBase (path : Str) : Str :=
  if path = [] then [0x2e]
  else
    let r := dropTrailingSlashes path.reverse
    let last := (r.takeWhile (· ≠ 0x2f)).reverse
    if last = [] then [0x2f] else last

/-- scan backwards over the final path element for the last dot -/
def extRev : Str → Str → Str
  | [], _ => []
  | c :: rest, acc =>
    if c = 0x2f then []
    else if c = 0x2e then c :: acc
    else extRev rest (c :: acc)

/-- `filepath.Ext`: the suffix beginning at the final dot in the final slash-separated element; empty if
    there is no dot. -/
def filepathExt (path : Str) : Str := extRev path.reverse []

/-! ## The registry -/

/-- The tables of `rdfiotypes.Registry` that type resolution consults. `decoders` / `encoders` are the key
    sets of `DecoderManagers` / `EncoderManagers`. -/
structure Registry where
  aliases : List (Str × Cti)
  mediaTypes : List (Str × Cti)
  fileExts : List (Str × Cti)
  decoders : List Cti
  encoders : List Cti
  deriving Repr, DecidableEq, Inhabited

/-- What `ResolveDecoderType` asks of an `rdfiotypes.Reader`. -/
structure ReaderInfo where
  /-- `GetMediaType()`: `(Type, Subtype)` when ok -/
  mediaType : Option (Str × Str)
  /-- `GetMagicBytes()` ok ⇒ the answers of `MagicBytesResolvers` on the peeked bytes, in order -/
  magic : Option (List (Option Cti))
  /-- `GetFileName()` when ok -/
  fileName : Option Str
  deriving Repr, DecidableEq, Inhabited

/-- `if len(t) > 0 { if cti, ok := r.Aliases[t]; ok {…} else if _, ok := managers[t]; ok {…} }` -/
def resolveByType (aliases : List (Str × Cti)) (managers : List Cti) (t : Str) : Option Cti :=
  if t ≠ [] then
    match BN.assoc t aliases with
    | some cti => some cti
    | none => if t ∈ managers then some t else none
  else none

/-- `r.MediaTypes[strings.ToLower(mt.Type+"/"+mt.Subtype)]` -/
def resolveByMedia (mediaTypes : List (Str × Cti)) (rr : ReaderInfo) : Option Cti :=
  match rr.mediaType with
  | some (ty, sub) => BN.assoc (asciiLower (ty ++ 0x2f :: sub)) mediaTypes
  | none => none

/-- first resolver that answers -/
def firstSome {α : Type} : List (Option α) → Option α
  | [] => none
  | some a :: _ => some a
  | none :: rest => firstSome rest

def resolveByMagic (rr : ReaderInfo) : Option Cti :=
  match rr.magic with
  | some answers => firstSome answers
  | none => none

/-- `for fileExt, cti := range r.FileExts { if strings.HasSuffix(fileNameLower, fileExt) { return cti } }`
    with the map visited in the order `ord`. -/
def resolveByExt (ord : List (Str × Cti)) (rr : ReaderInfo) : Option Cti :=
  match rr.fileName with
  | some fn => (ord.find? (fun e => hasSuffix (asciiLower fn) e.1)).map (·.2)
  | none => none

/-- `Registry.ResolveDecoderType(rr, t)` -/
def resolveDecoderType (reg : Registry) (ord : List (Str × Cti)) (rr : ReaderInfo) (t : Str) : Option Cti :=
  match resolveByType reg.aliases reg.decoders t with
  | some c => some c
  | none =>
    match resolveByMedia reg.mediaTypes rr with
    | some c => some c
    | none =>
      match resolveByMagic rr with
      | some c => some c
      | none => resolveByExt ord rr

/-- `Registry.ResolveEncoderType(ww, t)`; `fileName` = `ww.GetFileName()` when ok.
    Note: exact, case-sensitive lookup of `filepath.Ext(fileName)` (the decoder side lower-cases and
    matches suffixes). -/
def resolveEncoderType (reg : Registry) (fileName : Option Str) (t : Str) : Option Cti :=
  match resolveByType reg.aliases reg.encoders t with
  | some c => some c
  | none =>
    match fileName with
    | some fn => BN.assoc (filepathExt fn) reg.fileExts
    | none => none

/-- `cmdflags.EncodingInput.Open` + `Registry.NewDecoder`: the option builder resolves the type (or takes
    `fallback`), `NewDecoder` resolves the resulting string again and looks the manager up.
    `none` = `ErrUnknownEncoding`. The two resolutions iterate the extension map independently. -/
def openDecoderType (reg : Registry) (ord1 ord2 : List (Str × Cti)) (rr : ReaderInfo) (t : Str) (fallback : Cti) :
    Option Cti :=
  let t1 := (resolveDecoderType reg ord1 rr t).getD fallback
  match resolveDecoderType reg ord2 rr t1 with
  | some c => if c ∈ reg.decoders then some c else none
  | none => none

/-- `cmdflags.EncodingOutput.Open` + `Registry.NewEncoder` -/
def openEncoderType (reg : Registry) (fileName : Option Str) (t : Str) (fallback : Cti) : Option Cti :=
  let t1 := (resolveEncoderType reg fileName t).getD fallback
  match resolveEncoderType reg fileName t1 with
  | some c => if c ∈ reg.encoders then some c else none
  | none => none

/-! ## fileresource: resource name → file name / IRI -/

def filePrefix : Str := RdfModel.asc "file://"

/-- `fp := strings.TrimPrefix(opts.Name, "file://")`; `""`/`"-"` is stdin/stdout (file name `std`),
    otherwise `filepath.Base(fp)`; `GetFileName` is ok iff the name is non-empty. -/
def fileName (std : Str) (name : Str) : Option Str :=
  let fp := trimPrefix name filePrefix
  let fn := if fp = [] ∨ fp = [0x2d] then std else filepathBase fp
  if fn = [] then none else some fn

/-- `GetIRI()` of a file reader/writer (`dev` = `/dev/stdin` or `/dev/stdout`) -/
def fileIRI (dev : Str) (name : Str) : Str :=
  let fp := trimPrefix name filePrefix
  if fp = [] ∨ fp = [0x2d] then filePrefix ++ dev else filePrefix ++ fp

/-! ## Triples/quads adapters -/

inductive Kind where | triples | quads
  deriving Repr, DecidableEq, Inhabited

/-- `QuadAsTripleEncoder.AddQuad`: `AddTriple(ctx, quad.Triple)` — the graph name is dropped, whatever it is. -/
def quadAsTriple {β : Type} (q : Quad β) : Quad β := { q with g := none }

/-- `TripleAsQuadDecoder.Quad()` with `graphName == nil` (as `GetQuadsDecoder` constructs it). A triple is a
    `Quad` whose `g` the triples decoder never sets. -/
def tripleAsQuad {β : Type} (t : Quad β) : Quad β := { t with g := none }

/-- `DecoderHandle.GetQuadsDecoder()` applied to the statements the decoder yields -/
def getQuadsDecoder {β : Type} : Kind → List (Quad β) → List (Quad β)
  | .quads, qs => qs
  | .triples, ts => ts.map tripleAsQuad

/-- `EncoderHandle.GetQuadsEncoder().AddQuad`: what reaches the underlying encoder -/
def getQuadsEncoder {β : Type} : Kind → Quad β → Quad β
  | .quads, q => q
  | .triples, q => quadAsTriple q

/-- The statements handed to the target encoder by the loop of `pipecmd` (`for decoderQuads.Next() { … }`),
    in order. -/
def pipeStatements {β : Type} (src tgt : Kind) (decoded : List (Quad β)) : List (Quad β) :=
  (getQuadsDecoder src decoded).map (getQuadsEncoder tgt)

/-- What the property asks a triples-only target to receive: the default graph. -/
def defaultGraph {β : Type} (qs : List (Quad β)) : List (Quad β) := qs.filter (fun q => q.g.isNone)

/-! ## Blank-node labels -/

open BN in
/-- The label provider an rdfio encoder manager installs: `PropagateDecoderPipeBlankNodeStringProvider(h)`
    if it returns one, else the encoder's own default `NewInt64StringProvider("b%d")`.
    `h` = `DecoderHandle.DecoderBlankNodes` (`none` = nil). -/
def pipeProvider (U : Nat → Bytes) (s : State) (h : Option FactoryRef) : State × Option ProvRef :=
  match step U s (.propagate h) with
  | (s', .prov p) => (s', some p)
  | (s', .noProv) =>
    match step U s' (.newInt64Provider (BN.asc "b%d")) with
    | (s'', .prov p) => (s'', some p)
    | (s'', _) => (s'', none)
  | (s', _) => (s', none)

open BN in
/-- one term through `bnStringProvider.GetBlankNodeString`; `none` = outside the model (`unsupported`/`bad`) -/
def labelTerm (U : Nat → Bytes) (p : ProvRef) (s : State) : Term Node → State × Option (Term Bytes)
  | .iri v => (s, some (.iri v))
  | .lit l d t => (s, some (.lit l d t))
  | .bnode n =>
    match getLabel U s p n with
    | (s', .label l) => (s', some (.bnode l))
    | (s', _) => (s', none)

/-- all four positions labelled ⇒ the labelled quad (`d = some none`: no graph name) -/
def mkQuad (a b c : Option (Term BN.Bytes)) (d : Option (Option (Term BN.Bytes))) : Option (Quad BN.Bytes) :=
  match a, b, c, d with
  | some a, some b, some c, some d => some ⟨a, b, c, d⟩
  | _, _, _, _ => none

open BN in
/-- `AddQuad`/`AddTriple` of the line-based encoders ask for labels in the order subject, object, graph name
    (a predicate is never a blank node in a statement the encoder accepts). -/
def labelQuad (U : Nat → Bytes) (p : ProvRef) (s : State) (q : Quad Node) : State × Option (Quad Bytes) :=
  let r1 := labelTerm U p s q.s
  let r2 := labelTerm U p r1.1 q.p
  let r3 := labelTerm U p r2.1 q.o
  match q.g with
  | none => (r3.1, mkQuad r1.2 r2.2 r3.2 (some none))
  | some g =>
    let r4 := labelTerm U p r3.1 g
    (r4.1, mkQuad r1.2 r2.2 r3.2 (r4.2.map some))

def consOpt {α : Type} : Option α → Option (List α) → Option (List α)
  | some a, some l => some (a :: l)
  | _, _ => none

open BN in
def labelQuads (U : Nat → Bytes) (p : ProvRef) : State → List (Quad Node) → State × Option (List (Quad Bytes))
  | s, [] => (s, some [])
  | s, q :: rest =>
    let r1 := labelQuad U p s q
    let r2 := labelQuads U p r1.1 rest
    (r2.1, consOpt r1.2 r2.2)

/-! ## The pipe into a line-based target (N-Triples / N-Quads) -/

inductive PipeResult where
  | ok (doc : List Nat)
  /-- `write: …`: `AddQuad` returned an error at statement `k`; what was written before stays written -/
  | writeErr (k : Nat) (doc : List Nat)
  | outside
  deriving Repr, DecidableEq, Inhabited

open BN in
/-- the loop of `pipecmd`: label and encode statement by statement; stops at the first statement the
    encoder refuses (`AddQuad` error ⇒ `write: …`, exit status 1) -/
def pipeLoop (T : NQ.Tables) (ascii quads : Bool) (U : Nat → Bytes) (p : ProvRef) :
    Nat → State → List (Quad Node) → List Nat → PipeResult
  | _, _, [], acc => .ok acc
  | k, s, q :: rest, acc =>
    match labelQuad U p s q with
    | (s', some lq) =>
      match NQ.encodeQuad T ascii id quads lq with
      | some line => pipeLoop T ascii quads U p (k + 1) s' rest (acc ++ line)
      | none => .writeErr k acc
    | (_, none) => .outside

open BN in
/-- `rdfkit pipe` with an N-Quads (`quads = true`) or N-Triples (`quads = false`) target:
    `decoded` = the statements the source decoder yields (blank nodes as Go values), `h` = its
    `DecoderBlankNodes`, `src` = whether it is a triples or a quads decoder. -/
def pipeNQ (T : NQ.Tables) (ascii quads : Bool) (U : Nat → Bytes) (s : State) (h : Option FactoryRef)
    (src : Kind) (decoded : List (Quad Node)) : PipeResult :=
  match pipeProvider U s h with
  | (s1, some p) =>
    pipeLoop T ascii quads U p 0 s1 (pipeStatements src (if quads then .quads else .triples) decoded) []
  | (_, none) => .outside

/-! ## `--out-param KEY[=VALUE]` → encoder options (builder-c18b)

  Conventions of this part: parameter strings, prefix labels, namespaces and base IRIs are code-point lists
  (`[]rune(s)` of a valid UTF-8 Go string; the Go code splits at the ASCII bytes `=` and `:` and compares with ASCII
  keys only, which commutes with UTF-8 decoding), because that is what `Model/TurtleEncoder.lean` works on. -/

/-- `strings.SplitN(raw, sep, 2)`: `(before, some after)` at the first `sep`; `(raw, none)` when there is none -/
def splitFirst (sep : Nat) : List Nat → List Nat × Option (List Nat)
  | [] => ([], none)
  | c :: rest =>
    if c = sep then ([], some rest)
    else let r := splitFirst sep rest; (c :: r.1, r.2)

/-- `strconv.ParseBool` -/
def parseBool (v : List Nat) : Option Bool :=
  if v = RdfModel.asc "1" ∨ v = RdfModel.asc "t" ∨ v = RdfModel.asc "T" ∨ v = RdfModel.asc "true" ∨
     v = RdfModel.asc "TRUE" ∨ v = RdfModel.asc "True" then some true
  else if v = RdfModel.asc "0" ∨ v = RdfModel.asc "f" ∨ v = RdfModel.asc "F" ∨ v = RdfModel.asc "false" ∨
     v = RdfModel.asc "FALSE" ∨ v = RdfModel.asc "False" then some false
  else none

/-- a boolean parameter (`kvref.BoolPtr`): `KEY` alone is `KEY=true` (`GetImpliedValue`); `none` = error -/
def boolParam (v : Option (List Nat)) : Option Bool := parseBool (v.getD (RdfModel.asc "true"))

/-- `Collection.ImportStrings`: the raw strings in order, the first error aborts (`none`) -/
def importAll {P : Type} (f : P → List Nat → Option P) : P → List (List Nat) → Option P
  | p, [] => some p
  | p, raw :: rest =>
    match f p raw with
    | some p' => importAll f p' rest
    | none => none

/-- `nquadsrdfio.encoderParams` / `ntriplesrdfio.encoderParams` -/
structure NQParams where
  ascii : Option Bool := none
  deriving Repr, DecidableEq, Inhabited

def NQParams.import1 (p : NQParams) (raw : List Nat) : Option NQParams :=
  let kv := splitFirst 0x3d raw
  if kv.1 = RdfModel.asc "ascii" then (boolParam kv.2).map (fun b => { p with ascii := some b })
  else none

/-- the `ascii` flag the N-Quads / N-Triples encoder ends up with: `SetASCII(*params.Ascii)` only when the
    parameter was given (`ApplyDefaults` does nothing), else the encoder's own default `false`; `none` =
    `params: …` error -/
def nqAscii (raw : List (List Nat)) : Option Bool :=
  (importAll NQParams.import1 {} raw).map (fun p => p.ascii.getD false)

/-- `rdfjsonrdfio.encoderParams`: an empty collection — every parameter is an `unknown key` error -/
def rjParamsOK (raw : List (List Nat)) : Bool := raw.isEmpty

/-- `turtlerdfio.encoderParams` -/
structure TtlParams where
  buffered : Option Bool := none
  irisUseBase : Option Bool := none
  irisUsePrefixes : List (List Nat) := []
  resources : Option Bool := none
  deriving Repr, DecidableEq, Inhabited

def TtlParams.import1 (p : TtlParams) (raw : List Nat) : Option TtlParams :=
  let kv := splitFirst 0x3d raw
  if kv.1 = RdfModel.asc "buffered" then (boolParam kv.2).map (fun b => { p with buffered := some b })
  else if kv.1 = RdfModel.asc "iris.useBase" then (boolParam kv.2).map (fun b => { p with irisUseBase := some b })
  else if kv.1 = RdfModel.asc "iris.usePrefix" then
    -- `kvref.StringList`: appends; no implied value (`ErrMissingValue`)
    kv.2.map (fun v => { p with irisUsePrefixes := p.irisUsePrefixes ++ [v] })
  else if kv.1 = RdfModel.asc "resources" then (boolParam kv.2).map (fun b => { p with resources := some b })
  else none

/-- `encoderParams.ApplyDefaults` -/
def TtlParams.applyDefaults (p : TtlParams) : TtlParams :=
  { buffered := some (p.buffered.getD true)
    irisUseBase := some (p.irisUseBase.getD true)
    irisUsePrefixes := if p.irisUsePrefixes.isEmpty then [RdfModel.asc "rdfa-context"] else p.irisUsePrefixes
    resources := some (p.resources.getD false) }

/-- the loop over `params.IrisUsePrefixes` in `turtlerdfio.encoder.NewEncoder`; `rdfa` =
    `rdfacontext.AppendWidelyUsedInitialContext(nil)`; `none` = `flag[prefixes]: invalid prefix format` -/
def ttlPrefixes (rdfa : List Prefix.Mapping) : List (List Nat) → List Prefix.Mapping → Option (List Prefix.Mapping)
  | [], acc => some acc
  | p :: rest, acc =>
    if p = RdfModel.asc "rdfa-context" then ttlPrefixes rdfa rest (acc ++ rdfa)
    else if p = RdfModel.asc "none" then ttlPrefixes rdfa rest []
    else
      match splitFirst 0x3a p with
      | (l, some ns) => ttlPrefixes rdfa rest (acc ++ [⟨l, ns⟩])
      | (_, none) => none

/-- `turtlerdfio.encoder.NewEncoder`: parameters → (`turtle.EncoderConfig`, wrap in `BufferedTriplesEncoder`?).
    `base` = `opts.BaseIRI` (see `encoderBase`). `SetBuffered(true)` only when `buffered`; `SetBase` only when
    `iris.useBase`; `SetPrefixes` only for a non-empty list; `bufferedSort` and the directive modes are never
    set by the command. `none` = the command fails with `output: encoder: …`. -/
def ttlOptions (rdfa : List Prefix.Mapping) (raw : List (List Nat)) (base : List Nat) : Option (TtlEnc.Config × Bool) :=
  match importAll TtlParams.import1 {} raw with
  | none => none
  | some p0 =>
    let p := p0.applyDefaults
    match ttlPrefixes rdfa p.irisUsePrefixes [] with
    | none => none
    | some prefixes =>
      some ({ base := if p.irisUseBase = some true then some base else none
              prefixes := prefixes
              buffered := if p.buffered = some true then some true else none },
            p.resources = some true)

/-- `cmdflags.EncodingOutput` (the `--out*` flags of `rdfkit pipe`) -/
structure OutFlags where
  /-- `--out`, `-o` -/
  name : List Nat := []
  /-- `--out-type` -/
  type : List Nat := []
  /-- `--out-base` -/
  base : List Nat := []
  /-- `--out-param` (repeatable) -/
  params : List (List Nat) := []
  deriving Repr, DecidableEq, Inhabited

/-- `EncoderOptions.BaseIRI` as the encoder manager sees it: `--out-base` when non-empty
    (`EncoderOptions.ApplyOptions`), else `ww.GetIRI()` (`Registry.NewEncoder`) — the IRI of the OUTPUT
    resource. The decoder's base (`--in-base` / the input's IRI) is not propagated to the encoder. -/
def encoderBase (f : OutFlags) : List Nat :=
  if f.base ≠ [] then f.base else fileIRI (RdfModel.asc "/dev/stdout") f.name

/-! ## The pipe into Turtle and RDF/JSON -/

/-- a labelled statement as an `rdf.Triple` of `Model/Description.lean` (`none`: a predicate that is not an IRI
    — not constructible in Go, `rdf.PredicateValue`) -/
def toTriple {β : Type} (q : Quad β) : Option (Desc.Triple β) :=
  match q.p with
  | .iri p => some ⟨q.s, p, q.o⟩
  | _ => none

def toTriples {β : Type} : List (Quad β) → Option (List (Desc.Triple β))
  | [] => some []
  | q :: rest => consOpt (toTriple q) (toTriples rest)

/-- the same statement for `Model/RdfJson.lean` -/
def toRJ {β : Type} (q : Quad β) : RJ.Triple β := ⟨q.s, q.p, q.o⟩

inductive OutResult where
  | ok (doc : List Nat)
  /-- `output: encoder: …`: bad parameter, bad prefix format -/
  | openErr
  /-- `write: …` (`AddQuad` returned an error) or an error of `Close` -/
  | writeErr
  /-- Go run-time panic (`RelativizeIRI` on an insane base, see `Prefix.relativizeB`) -/
  | panic
  | outside
  deriving Repr, DecidableEq, Inhabited

def OutResult.ofRes : TtlEnc.Res (List Nat) → OutResult
  | .ok d => .ok d
  | .err => .writeErr
  | .panic => .panic

def OutResult.ofOR : TtlEnc.OR (List Nat) → OutResult
  | some r => OutResult.ofRes r
  | none => .outside

open BN in
/-- `rdfkit pipe` with a **Turtle** target: `raw` = the `--out-param` strings, `base` = `encoderBase`, `mk` = the
    prefix manager built from the prefix list (parameter: see `pipeTtl`), `ord1`/`ord2` = iteration orders of `ExportResources`
    (`resources` only). Code points of the document.
    Labels: the provider is asked in statement order (subject, object) by `AddTriple`. With `resources` the Go
    encoder asks only at `Close`, in writing order and never for a node it inlines as `[ … ]`: the fresh UUID
    texts are then drawn in another order (and fewer of them) — the model's document and Go's agree up to a
    renaming of the fresh texts `U k`; labelled nodes are unaffected. -/
def pipeTtlWith (T : Ttl.Tables) (rdfa : List Prefix.Mapping) (mk : List Prefix.Mapping → Prefix.PM)
    (raw : List (List Nat)) (base : List Nat)
    (ord1 ord2 : List (Term Bytes)) (U : Nat → Bytes) (s : State) (h : Option FactoryRef)
    (src : Kind) (decoded : List (Quad Node)) : OutResult :=
  match ttlOptions rdfa raw base with
  | none => .openErr
  | some (cfg, resources) =>
    match pipeProvider U s h with
    | (s1, some p) =>
      match (labelQuads U p s1 (pipeStatements src .triples decoded)).2 with
      | none => .outside
      | some lqs =>
        match toTriples lqs with
        | none => .outside
        | some ts =>
          let pm := mk cfg.prefixes
          if resources then OutResult.ofOR (TtlEnc.encodeResourcesWith T false cfg pm id ord1 ord2 ts)
          else OutResult.ofRes (TtlEnc.encodePlainWith T cfg pm id ts)
    | (_, none) => .outside

open BN in
/-- … with the manager `iri.NewPrefixManager(cfg.prefixes)` (`S` = the tie-break of its unstable sort) -/
def pipeTtl (T : Ttl.Tables) (rdfa : List Prefix.Mapping) (S : Prefix.Sorter) (raw : List (List Nat)) (base : List Nat)
    (ord1 ord2 : List (Term Bytes)) (U : Nat → Bytes) (s : State) (h : Option FactoryRef)
    (src : Kind) (decoded : List (Quad Node)) : OutResult :=
  pipeTtlWith T rdfa (Prefix.new S) raw base ord1 ord2 U s h src decoded

open BN in
/-- The Turtle pipe with the label ASSIGNMENT as a parameter: `assign` is the function from blank nodes to labels
    that the (stateful) label provider realises over the run. Which fresh UUID text an unlabelled node gets depends
    on the order of first requests — statement order for `AddTriple`, writing order at `Close` with `resources`
    (where inlined nodes get none) — but every such run is `pipeTtlAssign` for SOME assignment; `pipeTtlWith` is
    the instance where the provider is asked in statement order (`Props/C18Targets.lean: pipe_ttl_assign_link`).
    Theorems stated for every admissible `assign` therefore do not depend on the draw order. -/
def pipeTtlAssign (T : Ttl.Tables) (rdfa : List Prefix.Mapping) (mk : List Prefix.Mapping → Prefix.PM)
    (raw : List (List Nat)) (base : List Nat) (ord1 ord2 : List (Term Bytes)) (assign : Node → Bytes)
    (src : Kind) (decoded : List (Quad Node)) : OutResult :=
  match ttlOptions rdfa raw base with
  | none => .openErr
  | some (cfg, resources) =>
    match toTriples ((pipeStatements src .triples decoded).map (Quad.map assign)) with
    | none => .outside
    | some ts =>
      let pm := mk cfg.prefixes
      if resources then OutResult.ofOR (TtlEnc.encodeResourcesWith T false cfg pm id ord1 ord2 ts)
      else OutResult.ofRes (TtlEnc.encodePlainWith T cfg pm id ts)

/-- the `AddTriple` calls of the pipe loop on the RDF/JSON encoder: the first refused statement ends the
    command (`write: …`) -/
def rjAddAll : RJ.State → List (RJ.Triple (List Nat)) → Option RJ.State
  | st, [] => some st
  | st, t :: rest =>
    match RJ.addTriple id st t with
    | some st' => rjAddAll st' rest
    | none => none

inductive RJResult where
  /-- the JSON token stream of the document `Close` marshals (the JSON text layer is outside the model) -/
  | ok (toks : List RJ.Tok)
  | openErr
  | writeErr
  | outside
  deriving Repr, DecidableEq, Inhabited

open BN in
/-- `rdfkit pipe` with an **RDF/JSON** target -/
def pipeRJ (raw : List (List Nat)) (U : Nat → Bytes) (s : State) (h : Option FactoryRef)
    (src : Kind) (decoded : List (Quad Node)) : RJResult :=
  if !rjParamsOK raw then .openErr
  else
    match pipeProvider U s h with
    | (s1, some p) =>
      match (labelQuads U p s1 (pipeStatements src .triples decoded)).2 with
      | none => .outside
      | some lqs =>
        match rjAddAll [] (lqs.map toRJ) with
        | some st => .ok (RJ.encodeTokens st)
        | none => .writeErr
    | (_, none) => .outside

open BN in
/-- `rdfkit pipe` with an N-Quads / N-Triples target and `--out-param`s -/
def pipeNQp (T : NQ.Tables) (quads : Bool) (raw : List (List Nat)) (U : Nat → Bytes) (s : State)
    (h : Option FactoryRef) (src : Kind) (decoded : List (Quad Node)) : Option PipeResult :=
  (nqAscii raw).map (fun ascii => pipeNQ T ascii quads U s h src decoded)

end RdfModel.Pipe
