/-
  C05 — "decoders are total": statement layer of the Turtle and TriG decoders.

  All theorems are about `Model/TurtleDoc.lean` (the model the driver executes, one model for both
  packages, flag `Cfg.trig`) and hold for EVERY input, stream ending, default base, prefix table,
  resolver, white-space and PN_CHARS_BASE table. The token producers are a parameter; the
  hypotheses on them (`NoPanic`, `Consumes`, `LangNonEmpty`) are proved for the real producers
  (`real_producers_ok`), so the `…_real` corollaries speak about exactly what `ttld.dec` runs.

  What "total" means here: Lean functions terminate by construction, so the content is
    * no input reaches the explicit `panic` outcomes (unchecked type assertion in
      `reader_scan_triplesOrGraph_E1`, `r.statements[0]` after `Next() = true`, producer panics);
    * the fuel (`St.cost + 1`, at most `64·|input| + 42` scan-function calls per `Next()` and in
      total) is never exhausted: a linear bound on the number of scan steps;
    * after `Next()` has returned false it keeps returning false and `Err()` is unchanged;
    * `Next() = true` implies `r.statements` is non-empty (accessors usable).
  Memory and wall-clock are outside the model.
-/
import RdfModel.Proofs.TtlDocInv
import RdfModel.Proofs.TtlDocFuel
import RdfModel.Proofs.TtlDocReal
import RdfModel.Gen.TtlTables
namespace RdfModel.C05
open RdfModel RdfModel.TtlDoc

/-- No input reaches a panic (repaired code: D6 in the token layer, D11/D40 here). -/
theorem ttl_doc_no_panic (C : Cfg) (e : End) (hP : C.P.NoPanic) (hL : C.P.LangNonEmpty)
    (base : Option (List Nat)) (pf : List (List Nat × List Nat)) (inp : List Nat) :
    (run C e base pf inp).2 ≠ .panic :=
  (runLoop_ok hP hL _ _ (mInv_init C e base pf inp)).1

/-- The fuel `run` and `next` start with always suffices … -/
theorem ttl_fuel_suffices (C : Cfg) (e : End) (hC : C.P.Consumes)
    (base : Option (List Nat)) (pf : List (List Nat × List Nat)) (inp : List Nat) :
    (run C e base pf inp).2 ≠ .outOfFuel :=
  runLoop_fuel hC _ _ (Nat.lt_succ_self _)

/-- … also for a single `Next()` from any decoder state whatsoever, … -/
theorem ttl_next_fuel_suffices (C : Cfg) (e : End) (hC : C.P.Consumes) (st : St) : next C e st ≠ .outOfFuel :=
  (next_fuel hC st).1

/-- … and it is linear in the input: at most `64·|input| + 42` scan-function calls. -/
theorem ttl_fuel_linear (base : Option (List Nat)) (pf : List (List Nat × List Nat)) (inp : List Nat) :
    (init base pf inp).cost + 1 ≤ 64 * inp.length + 42 := by
  have := init_cost base pf inp; omega

/-- Error latch / end of iteration: once `Next()` has returned false, it returns false on each of
    the next `n` calls and `Err()` (the `err` field) never changes. No hypotheses at all. -/
theorem ttl_latch (C : Cfg) (e : End) (st st₁ : St) (h : next C e st = .no st₁) (n : Nat) :
    ∃ stₙ, afterFalse C e n st₁ = some stₙ ∧ stₙ.err = st₁.err := by
  rcases next_no_dead C e st st₁ h with hd | ⟨herr, he, _, _⟩
  · exact ⟨st₁, afterFalse_of_dead C e n st₁ hd, rfl⟩
  · exact afterFalse_of_err C e n st₁ (by rw [he]; exact herr)

/-- Accessor usability: whenever `Next()` has just returned true, `r.statements[0]` exists. -/
theorem ttl_accessors (C : Cfg) (e : End) (st st' : St) (h : next C e st = .yes st') : st'.stmts ≠ [] :=
  nextLoop_yes C e _ _ _ _ h

/-! ### The hypotheses hold for the real token producers -/

theorem real_producers_ok (T : Ttl.Tables) (hT : inRanges T.pnCharsBase 0 = false) :
    (Producers.real T).NoPanic ∧ (Producers.real T).Consumes ∧ (Producers.real T).LangNonEmpty :=
  ⟨real_noPanic T, real_consumes T hT, real_langNonEmpty T⟩

/-- table fact (T1, regenerated on every run): NUL is not a PN_CHARS_BASE rune in either package -/
theorem gen_tables_nul : inRanges Gen.turtle.pnCharsBase 0 = false ∧ inRanges Gen.trig.pnCharsBase 0 = false := by
  decide

/-- the configuration the driver runs for package `turtle` (`trig := false`) or `trig` -/
def realCfg (trig : Bool) (resolve : Option (List Nat) → List Nat → Option (List Nat)) (isSpace : Nat → Bool) : Cfg :=
  let T := if trig then Gen.trig else Gen.turtle
  { trig := trig, P := Producers.real T, resolve := resolve, isSpace := isSpace, pnBase := inRanges T.pnCharsBase }

theorem ttl_doc_total_real (trig : Bool) (resolve) (isSpace) (e : End) (base : Option (List Nat))
    (pf : List (List Nat × List Nat)) (inp : List Nat) :
    (run (realCfg trig resolve isSpace) e base pf inp).2 ≠ .panic ∧
    (run (realCfg trig resolve isSpace) e base pf inp).2 ≠ .outOfFuel := by
  have hT : inRanges (if trig then Gen.trig else Gen.turtle).pnCharsBase 0 = false := by
    cases trig
    · exact gen_tables_nul.1
    · exact gen_tables_nul.2
  obtain ⟨h1, h2, h3⟩ := real_producers_ok _ hT
  exact ⟨ttl_doc_no_panic _ e h1 h3 base pf inp, ttl_fuel_suffices _ e h2 base pf inp⟩

/-! ### Non-vacuity: the hypotheses are satisfiable (the real producers), and runs do something -/

example : (Producers.real Gen.turtle).NoPanic ∧ (Producers.real Gen.turtle).Consumes ∧ (Producers.real Gen.turtle).LangNonEmpty :=
  real_producers_ok _ gen_tables_nul.1

/-- `<a> <b> ( 1 ) .` yields three triples and a clean end -/
example :
    let r := run (realCfg false (fun _ r => some r) (fun c => c = 0x20)) .eof none [] (asc "<a> <b> ( 1 ) .")
    r.1.length = 3 ∧ r.2 = .clean := by decide

end RdfModel.C05
