package main

// Abstract XML element trees (the Go mirror of RX.Node), their wire form (S-expression tokens of
// Driver/RdfXml.lean) and the serialiser to XML text with random lexical choices.

import (
	"fmt"
	"strings"
	"unicode/utf8"

	"verifharness/vh"
)

const (
	rdfNS = "http://www.w3.org/1999/02/22-rdf-syntax-ns#"
	xmlNS = "http://www.w3.org/XML/1998/namespace"
)

type Attr struct{ NS, Name, Val string }

type Node struct {
	Kind  byte // 'e' element, 't' text, 'r' opaque XML content
	NS    string
	Name  string
	Attrs []Attr
	Kids  []*Node
	Text  string
}

func (n *Node) attr(ns, name string) (string, bool) {
	for _, a := range n.Attrs {
		if a.NS == ns && a.Name == name {
			return a.Val, true
		}
	}
	return "", false
}

// ---------------------------------------------------------------- wire form

func (n *Node) wire(sb *strings.Builder) {
	switch n.Kind {
	case 't':
		sb.WriteString("( t " + vh.XS(n.Text) + " )")
	case 'r':
		sb.WriteString("( r " + vh.XS(n.Text) + " )")
	default:
		sb.WriteString("( e " + vh.XS(n.NS) + " " + vh.XS(n.Name) + " (")
		for _, a := range n.Attrs {
			sb.WriteString(" ( " + vh.XS(a.NS) + " " + vh.XS(a.Name) + " " + vh.XS(a.Val) + " )")
		}
		sb.WriteString(" ) (")
		for _, k := range n.Kids {
			sb.WriteByte(' ')
			k.wire(sb)
		}
		sb.WriteString(" ) )")
	}
}

func (n *Node) Wire() string {
	var sb strings.Builder
	n.wire(&sb)
	return sb.String()
}

type sexp struct {
	atom string
	list []*sexp
	isL  bool
}

func parseSexp(toks []string) (*sexp, error) {
	stack := []*sexp{{isL: true}}
	for _, t := range toks {
		switch t {
		case "(":
			stack = append(stack, &sexp{isL: true})
		case ")":
			if len(stack) < 2 {
				return nil, fmt.Errorf("unbalanced )")
			}
			top := stack[len(stack)-1]
			stack = stack[:len(stack)-1]
			stack[len(stack)-1].list = append(stack[len(stack)-1].list, top)
		default:
			stack[len(stack)-1].list = append(stack[len(stack)-1].list, &sexp{atom: t})
		}
	}
	if len(stack) != 1 || len(stack[0].list) != 1 {
		return nil, fmt.Errorf("unbalanced (")
	}
	return stack[0].list[0], nil
}

func unx(s *sexp) (string, error) {
	if s.isL {
		return "", fmt.Errorf("atom expected")
	}
	b, err := vh.UnX(s.atom)
	return string(b), err
}

func treeOfSexp(s *sexp) (*Node, error) {
	if !s.isL || len(s.list) < 2 || s.list[0].isL {
		return nil, fmt.Errorf("bad tree")
	}
	switch s.list[0].atom {
	case "t", "r":
		v, err := unx(s.list[1])
		if err != nil {
			return nil, err
		}
		return &Node{Kind: s.list[0].atom[0], Text: v}, nil
	case "e":
		if len(s.list) != 5 {
			return nil, fmt.Errorf("bad element")
		}
		ns, e1 := unx(s.list[1])
		name, e2 := unx(s.list[2])
		if e1 != nil || e2 != nil {
			return nil, fmt.Errorf("bad element name")
		}
		n := &Node{Kind: 'e', NS: ns, Name: name}
		for _, a := range s.list[3].list {
			if len(a.list) != 3 {
				return nil, fmt.Errorf("bad attr")
			}
			x, e1 := unx(a.list[0])
			y, e2 := unx(a.list[1])
			z, e3 := unx(a.list[2])
			if e1 != nil || e2 != nil || e3 != nil {
				return nil, fmt.Errorf("bad attr")
			}
			n.Attrs = append(n.Attrs, Attr{x, y, z})
		}
		for _, k := range s.list[4].list {
			kn, err := treeOfSexp(k)
			if err != nil {
				return nil, err
			}
			n.Kids = append(n.Kids, kn)
		}
		return n, nil
	}
	return nil, fmt.Errorf("bad tree tag %q", s.list[0].atom)
}

// ---------------------------------------------------------------- serialiser

// lexical choices are drawn from r; the output is well-formed XML 1.0 whose infoset is the tree
// (text nodes may be split by comments / CDATA sections; white space, comments and processing
// instructions are inserted only where RDF/XML ignores them).
type ser struct {
	r       *vh.Rng
	sb      strings.Builder
	noDefNS bool // never declare a default namespace (opaque content with elements is present)
	plain   bool // no random lexical variation (canonical-ish output, used for replay display)
	hist    map[string]int
}

type binding struct{ prefix, ns string }

// scope is the list of namespace declarations in force, innermost last; prefix "" = default.
type scope []binding

func (s scope) lookupPrefix(p string) (string, bool) {
	for i := len(s) - 1; i >= 0; i-- {
		if s[i].prefix == p {
			return s[i].ns, true
		}
	}
	return "", false
}

// usable prefixes for ns: bound to ns and not shadowed
func (s scope) prefixesFor(ns string, allowDefault bool) []string {
	var out []string
	seen := map[string]bool{}
	for i := len(s) - 1; i >= 0; i-- {
		p := s[i].prefix
		if seen[p] {
			continue
		}
		seen[p] = true
		if s[i].ns == ns && (p != "" || allowDefault) {
			out = append(out, p)
		}
	}
	return out
}

var prefixPool = []string{"rdf", "r", "ex", "a", "b", "ns1", "x-y", "_p", "é", "rdfs", "p.q", "RDF", "xs"}

func (s *ser) count(k string) {
	if s.hist != nil {
		s.hist[k]++
	}
}

func (s *ser) ws(min int) string {
	if s.plain {
		return strings.Repeat(" ", min)
	}
	n := min
	if s.r.Chance(30) {
		n += s.r.Intn(3)
	}
	var sb strings.Builder
	for i := 0; i < n; i++ {
		sb.WriteString(vh.Pick(s.r, []string{" ", " ", " ", "\n", "\t", "\r\n", "\r"}))
	}
	return sb.String()
}

func (s *ser) charRef(c rune) string {
	switch s.r.Intn(3) {
	case 0:
		return fmt.Sprintf("&#%d;", c)
	case 1:
		return fmt.Sprintf("&#x%x;", c)
	default:
		return fmt.Sprintf("&#x%04X;", c)
	}
}

func (s *ser) escAttr(v string, q byte) string {
	var sb strings.Builder
	for _, c := range v {
		switch {
		case c == '<':
			sb.WriteString(s.pickS("&lt;", s.charRef(c)))
		case c == '&':
			sb.WriteString(s.pickS("&amp;", s.charRef(c)))
		case c == rune(q):
			if q == '"' {
				sb.WriteString(s.pickS("&quot;", s.charRef(c)))
			} else {
				sb.WriteString(s.pickS("&apos;", s.charRef(c)))
			}
		case c == '\t' || c == '\n' || c == '\r':
			sb.WriteString(s.charRef(c)) // literal white space would be normalised to a space
		case c == '>' && !s.plain && s.r.Bool():
			sb.WriteString("&gt;")
		case (c == '"' || c == '\'') && !s.plain && s.r.Chance(30):
			sb.WriteString(s.pickS(map[rune]string{'"': "&quot;", '\'': "&apos;"}[c], s.charRef(c)))
		case !s.plain && s.r.Chance(4):
			sb.WriteString(s.charRef(c))
		default:
			sb.WriteRune(c)
		}
	}
	return sb.String()
}

func (s *ser) pickS(a, b string) string {
	if s.plain || s.r.Chance(70) {
		return a
	}
	return b
}

// escText writes character data; chunks of it may become CDATA sections, comments may be interleaved.
func (s *ser) escText(v string) string {
	var sb strings.Builder
	rs := []rune(v)
	i := 0
	for i < len(rs) {
		// a CDATA chunk
		if !s.plain && s.r.Chance(6) {
			j := i + 1 + s.r.Intn(6)
			if j > len(rs) {
				j = len(rs)
			}
			chunk := string(rs[i:j])
			if !strings.Contains(chunk, "]]>") && !strings.ContainsRune(chunk, '\r') && !strings.HasSuffix(chunk, "]") {
				sb.WriteString("<![CDATA[" + chunk + "]]>")
				s.count("text:cdata")
				i = j
				continue
			}
		}
		if !s.plain && s.r.Chance(2) {
			sb.WriteString("<!--" + vh.Pick(s.r, []string{"", " c ", "<x>&amp;", "- - "}) + "-->")
			s.count("text:comment")
		}
		c := rs[i]
		switch {
		case c == '<':
			sb.WriteString(s.pickS("&lt;", s.charRef(c)))
		case c == '&':
			sb.WriteString(s.pickS("&amp;", s.charRef(c)))
		case c == '>':
			if (i >= 2 && rs[i-1] == ']' && rs[i-2] == ']') || (!s.plain && s.r.Bool()) || s.plain {
				sb.WriteString(s.pickS("&gt;", s.charRef(c)))
			} else {
				sb.WriteRune(c)
			}
		case c == '\r':
			sb.WriteString(s.charRef(c)) // a literal CR would be normalised to LF
		case (c == '"' || c == '\'') && !s.plain && s.r.Chance(20):
			sb.WriteString(map[rune]string{'"': "&quot;", '\'': "&apos;"}[c])
		case !s.plain && s.r.Chance(4):
			sb.WriteString(s.charRef(c))
			s.count("text:charref")
		default:
			sb.WriteRune(c)
		}
		i++
	}
	return sb.String()
}

// misc: white space, comments, processing instructions where RDF/XML ignores them
func (s *ser) misc() {
	if s.plain {
		return
	}
	for s.r.Chance(35) {
		switch s.r.Intn(10) {
		case 0:
			s.sb.WriteString("<!--" + vh.Pick(s.r, []string{"", " comment ", "<ex:p>x</ex:p>", "&"}) + "-->")
			s.count("misc:comment")
		case 1:
			s.sb.WriteString("<?" + vh.Pick(s.r, []string{"pi", "x-y data", "target a=\"b\""}) + "?>")
			s.count("misc:pi")
		default:
			s.sb.WriteString(s.ws(1))
		}
	}
}

func (s *ser) freshPrefix(sc scope, local map[string]bool) string {
	for tries := 0; ; tries++ {
		p := vh.Pick(s.r, prefixPool)
		if tries > 3 || s.r.Chance(15) {
			p = fmt.Sprintf("%s%d", p, s.r.Intn(50))
		}
		if strings.HasPrefix(strings.ToLower(p), "xml") || local[p] {
			continue
		}
		_ = sc
		local[p] = true // never handed out twice on one start tag (declared or in use)
		return p
	}
}

// role of an element in the striping
const (
	roleRoot = iota
	roleNode
	roleProp
)

func (s *ser) element(n *Node, sc scope, role int) {
	// namespaces needed by this start tag
	type need struct {
		ns     string
		isAttr bool
	}
	var needs []need
	needs = append(needs, need{n.NS, false})
	for _, a := range n.Attrs {
		if a.NS != "" && a.NS != xmlNS {
			needs = append(needs, need{a.NS, true})
		}
	}
	local := map[string]bool{} // prefixes declared on this element
	var decls []binding
	cur := append(scope{}, sc...)
	// random extra declarations (unused or for later use), including rebinding of prefixes in use
	if !s.plain && s.r.Chance(8) {
		p := s.freshPrefix(cur, local)
		local[p] = true
		b := binding{p, vh.Pick(s.r, []string{"http://unused.example/", rdfNS, "http://e/", "urn:x:"})}
		decls = append(decls, b)
		cur = append(cur, b)
	}
	choose := func(ns string, isAttr bool) string {
		if ns == "" {
			if !isAttr {
				if d, ok := cur.lookupPrefix(""); ok && d != "" {
					local[""] = true
					b := binding{"", ""}
					decls = append(decls, b)
					cur = append(cur, b)
				}
			}
			return ""
		}
		cands := cur.prefixesFor(ns, !isAttr)
		if len(cands) > 0 && (s.plain || !s.r.Chance(6)) {
			p := vh.Pick(s.r, cands)
			local[p] = true // in use on this tag: must not be rebound by a later declaration here
			return p
		}
		// declare here
		var p string
		if !isAttr && !s.noDefNS && !local[""] && !s.plain && s.r.Chance(20) {
			local[""] = true
			p = ""
			s.count("ns:default")
		} else {
			p = s.freshPrefix(cur, local)
		}
		if _, bound := cur.lookupPrefix(p); bound {
			s.count("ns:shadow")
		}
		local[p] = true
		b := binding{p, ns}
		decls = append(decls, b)
		cur = append(cur, b)
		return p
	}
	// attributes first: a later default-namespace declaration for the element cannot disturb them,
	// but a rebinding made for the element could shadow a prefix chosen for an attribute, so choose
	// the element name first and re-validate
	qname := func(p, local string) string {
		if p == "" {
			return local
		}
		return p + ":" + local
	}
	ep := choose(n.NS, false)
	aps := make([]string, len(n.Attrs))
	for i, a := range n.Attrs {
		switch a.NS {
		case "":
			aps[i] = ""
		case xmlNS:
			aps[i] = "xml"
		default:
			aps[i] = choose(a.NS, true)
		}
	}
	// re-validate: every chosen prefix must still resolve to its namespace in cur
	ok := func(p, ns string) bool {
		v, b := cur.lookupPrefix(p)
		return (b && v == ns) || (!b && ns == "" && p == "")
	}
	if !ok(ep, n.NS) {
		ep = choose(n.NS, false)
	}
	for i, a := range n.Attrs {
		if a.NS != "" && a.NS != xmlNS && !ok(aps[i], a.NS) {
			aps[i] = choose(a.NS, true)
		}
	}
	_ = needs
	// start tag
	s.sb.WriteString("<" + qname(ep, n.Name))
	type outAttr struct{ name, val string }
	var outs []outAttr
	for _, d := range decls {
		if d.prefix == "" {
			outs = append(outs, outAttr{"xmlns", d.ns})
		} else {
			outs = append(outs, outAttr{"xmlns:" + d.prefix, d.ns})
		}
	}
	for i, a := range n.Attrs {
		outs = append(outs, outAttr{qname(aps[i], a.Name), a.Val})
	}
	if !s.plain {
		for i := len(outs) - 1; i > 0; i-- {
			j := s.r.Intn(i + 1)
			outs[i], outs[j] = outs[j], outs[i]
		}
	}
	for _, a := range outs {
		q := byte('"')
		if !s.plain && s.r.Chance(35) {
			q = '\''
		}
		eq := "="
		if !s.plain && s.r.Chance(10) {
			eq = s.ws(0) + "=" + s.ws(0)
		}
		s.sb.WriteString(s.ws(1) + a.name + eq + string(q) + s.escAttr(a.val, q) + string(q))
	}
	if !s.plain && s.r.Chance(15) {
		s.sb.WriteString(s.ws(1))
	}
	// content
	pt, hasPT := n.attr(rdfNS, "parseType")
	kidRole := -1 // -1: literal content (text / raw), no insertion
	switch role {
	case roleRoot:
		kidRole = roleNode
		if !(n.NS == rdfNS && n.Name == "RDF") {
			kidRole = roleProp // the root is a node element itself
		}
	case roleNode:
		kidRole = roleProp
	case roleProp:
		if hasPT {
			switch pt {
			case "Resource":
				kidRole = roleProp
			case "Collection":
				kidRole = roleNode
			}
		} else {
			for _, k := range n.Kids {
				if k.Kind == 'e' {
					kidRole = roleNode
				}
			}
		}
	}
	if len(n.Kids) == 0 {
		// an empty property element must stay empty (comments do not count); other empty elements may
		// hold white space
		canWS := kidRole != -1
		switch {
		case !s.plain && canWS && s.r.Chance(30):
			s.sb.WriteString(">")
			s.misc()
			s.sb.WriteString("</" + qname(ep, n.Name) + s.ws(0) + ">")
		case !s.plain && !canWS && s.r.Chance(10):
			s.sb.WriteString("><!-- -->" + "</" + qname(ep, n.Name) + ">")
		case !s.plain && s.r.Chance(30):
			s.sb.WriteString("></" + qname(ep, n.Name) + s.ws(0) + ">")
		default:
			s.sb.WriteString("/>")
		}
		return
	}
	s.sb.WriteString(">")
	for _, k := range n.Kids {
		if kidRole != -1 {
			s.misc()
		}
		switch k.Kind {
		case 'e':
			r := kidRole
			if r == -1 {
				r = roleNode
			}
			s.element(k, cur, r)
		case 't':
			s.sb.WriteString(s.escText(k.Text))
		case 'r':
			s.sb.WriteString(k.Text)
		}
	}
	if kidRole != -1 {
		s.misc()
	}
	s.sb.WriteString("</" + qname(ep, n.Name) + s.ws(0) + ">")
}

func hasRawElements(n *Node) bool {
	if n.Kind == 'r' && strings.Contains(n.Text, "<") {
		return true
	}
	for _, k := range n.Kids {
		if hasRawElements(k) {
			return true
		}
	}
	return false
}

// Serialise writes the document for tree root.
func Serialise(r *vh.Rng, root *Node, plain bool, hist map[string]int) []byte {
	s := &ser{r: r, plain: plain, hist: hist, noDefNS: hasRawElements(root)}
	if !plain {
		switch r.Intn(5) {
		case 0:
			s.sb.WriteString("<?xml version=\"1.0\"?>")
		case 1:
			s.sb.WriteString("<?xml version='1.0' encoding='UTF-8'?>")
		case 2:
			s.sb.WriteString("<?xml version=\"1.0\" encoding=\"utf-8\" standalone=\"yes\"?>\n")
		}
		s.misc()
	}
	s.element(root, scope{}, roleRoot)
	if !plain {
		s.misc()
	}
	return []byte(s.sb.String())
}

func validXMLText(v string) bool {
	if !utf8.ValidString(v) {
		return false
	}
	for _, c := range v {
		ok := c == 0x9 || c == 0xA || c == 0xD || (c >= 0x20 && c <= 0xD7FF) || (c >= 0xE000 && c <= 0xFFFD) || (c >= 0x10000 && c <= 0x10FFFF)
		if !ok {
			return false
		}
	}
	return true
}
