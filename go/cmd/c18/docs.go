package main

// Source documents for the end-to-end part: random datasets written by the library encoders (nt, nq, ttl,
// rdf/json), by small serialisers of this harness (trig, rdf/xml, json-ld, html+rdfa), hand-written
// templates with anonymous nodes / collections, and the W3C test-suite documents shipped in the repository.

import (
	"archive/tar"
	"bytes"
	"compress/gzip"
	"context"
	"encoding/json"
	"fmt"
	"html"
	"io"
	"os"
	"path/filepath"
	"sort"
	"strings"
	"unicode/utf8"

	"verifharness/vh"

	"github.com/dpb587/rdfkit-go/encoding/nquads"
	"github.com/dpb587/rdfkit-go/encoding/ntriples"
	"github.com/dpb587/rdfkit-go/encoding/rdfjson"
	"github.com/dpb587/rdfkit-go/encoding/turtle"
	"github.com/dpb587/rdfkit-go/iri"
	"github.com/dpb587/rdfkit-go/iri/rdfacontext"
	"github.com/dpb587/rdfkit-go/rdf"
	"github.com/dpb587/rdfkit-go/rdfdescription"
	"github.com/dpb587/rdfkit-go/rdfdescription/rdfdescriptionutil"
)

// source formats: registry identifier, an alias, the file extension, the media type
type format struct {
	name  string
	cti   string
	alias []string
	ext   string
	media string
	kind  string // "t" triples decoder, "q" quads decoder
	sniff bool   // a magic-byte resolver exists for the format
}

var formats = map[string]format{
	"nt":     {"nt", "org.w3.n-triples", []string{"nt", "ntriples", "n-triples"}, ".nt", "application/n-triples", "t", false},
	"nq":     {"nq", "org.w3.n-quads", []string{"nq", "nquads", "n-quads"}, ".nq", "application/n-quads", "q", false},
	"ttl":    {"ttl", "org.w3.turtle", []string{"ttl", "turtle"}, ".ttl", "text/turtle", "t", false},
	"trig":   {"trig", "org.w3.trig", []string{"trig"}, ".trig", "application/trig", "q", false},
	"rdfxml": {"rdfxml", "org.w3.rdf-xml", []string{"rdfxml", "rdf-xml", "xml"}, ".rdf", "application/rdf+xml", "t", true},
	"rj":     {"rj", "org.w3.rdf-json", []string{"rj", "rdfjson", "rdf-json"}, ".rj", "application/rdf+json", "t", true},
	"jsonld": {"jsonld", "org.json-ld.document", []string{"jsonld"}, ".jsonld", "application/ld+json", "q", true},
	"html":   {"html", "public.html", []string{"html", "htm", "xhtml"}, ".html", "text/html", "q", true},
}

var sourceNames = []string{"nt", "nq", "ttl", "trig", "rdfxml", "rj", "jsonld", "html"}
var targetNames = []string{"nt", "nq", "ttl", "rj"}

// ---------------------------------------------------------------- corpus

type corpusDoc struct {
	format string
	name   string
	body   []byte
}

func loadArchive(path string, pick func(name string) (string, bool), out *[]corpusDoc) {
	f, err := os.Open(path)
	if err != nil {
		return
	}
	defer f.Close()
	gz, err := gzip.NewReader(f)
	if err != nil {
		return
	}
	tr := tar.NewReader(gz)
	for {
		hdr, err := tr.Next()
		if err != nil {
			return
		}
		if hdr.Typeflag != tar.TypeReg || hdr.Size > 16*1024 || strings.Contains(filepath.Base(hdr.Name), "._") {
			continue
		}
		if fm, ok := pick(hdr.Name); ok {
			b, err := io.ReadAll(tr)
			if err == nil && utf8.Valid(b) {
				*out = append(*out, corpusDoc{format: fm, name: hdr.Name, body: b})
			}
		}
	}
}

func loadCorpus(repo string) map[string][]corpusDoc {
	var all []corpusDoc
	bySuffix := func(suffix, fm string) func(string) (string, bool) {
		return func(n string) (string, bool) { return fm, strings.HasSuffix(n, suffix) }
	}
	loadArchive(filepath.Join(repo, "encoding/jsonld/testsuites/w3c-github-json-ld-api-toRdf/testdata.tar.gz"), func(n string) (string, bool) {
		return "jsonld", strings.Contains(n, "/toRdf/") && strings.HasSuffix(n, "-in.jsonld")
	}, &all)
	loadArchive(filepath.Join(repo, "encoding/rdfxml/testsuites/w3-2013-RDFXMLTests/testdata.tar.gz"), bySuffix(".rdf", "rdfxml"), &all)
	loadArchive(filepath.Join(repo, "encoding/htmlrdfa/testsuites/rdfa-info-test-suite/testdata.tar.gz"), func(n string) (string, bool) {
		return "html", strings.Contains(n, "/rdfa1.1/html5/") && strings.HasSuffix(n, ".html")
	}, &all)
	loadArchive(filepath.Join(repo, "encoding/trig/testsuites/w3-2013-TrigTests/testdata.tar.gz"), bySuffix(".trig", "trig"), &all)
	loadArchive(filepath.Join(repo, "encoding/turtle/testsuites/w3-2013-TurtleTests/testdata.tar.gz"), bySuffix(".ttl", "ttl"), &all)
	loadArchive(filepath.Join(repo, "encoding/nquads/testsuites/w3-2013-N-QuadsTests/testdata.tar.gz"), bySuffix(".nq", "nq"), &all)
	loadArchive(filepath.Join(repo, "encoding/ntriples/testsuites/w3-2013-N-TriplesTests/testdata.tar.gz"), bySuffix(".nt", "nt"), &all)
	sort.Slice(all, func(i, j int) bool { return all[i].format+all[i].name < all[j].format+all[j].name })
	m := map[string][]corpusDoc{}
	for _, d := range all {
		if strings.Contains(d.name, "manifest") {
			continue
		}
		m[d.format] = append(m[d.format], d)
	}
	return m
}

// ---------------------------------------------------------------- generated documents

var labelPools = [][]string{
	{"b0", "b1", "b2", "b3", "b4"},
	{"x", "a.b", "0", "a-b", "n_1"},
	{"é", "x·y", "_a", "9", "A"},
	{"b1", "b0", "c", "b10", "b01"},
}

// IRIs of namespaces that the rdfa-context preset and the iris.usePrefix lists of the cases bind
var vocabIRIs = []string{
	"http://schema.org/name", "http://schema.org/Review", "http://schema.org/reviewRating", "https://schema.org/name",
	"http://purl.org/dc/terms/title", "http://xmlns.com/foaf/0.1/name", "http://www.w3.org/2000/01/rdf-schema#label",
	"http://example.org/ns#p", "http://example.org/ns#q", "http://example.org/x", "http://example.org/ns/deep#r",
	"https://example.org/s", "http://a/b",
}

const rdfType = "http://www.w3.org/1999/02/22-rdf-syntax-ns#type"

// twinDataset: two or three distinct blank nodes that are never objects and whose descriptions are identical
// (two reviews with the same rating): same predicates, same IRI/literal objects, optionally one nested
// once-referenced blank node each, again with identical descriptions.
func twinDataset(r *vh.Rng, graphs bool) []vh.GQuad {
	iri := func() vh.GTerm { return vh.GTerm{Kind: vh.KIRI, IRI: vh.Pick(r, vocabIRIs)} }
	lit := func() vh.GTerm {
		switch r.Intn(3) {
		case 0:
			return vh.GTerm{Kind: vh.KLit, Lex: vh.Pick(r, []string{"5", "4", "same"}), DT: vh.XSD + "integer"}
		case 1:
			return vh.GTerm{Kind: vh.KLit, Lex: vh.Pick(r, []string{"good", "x", ""}), DT: vh.RDFLangString, Lang: "en"}
		}
		return vh.GTerm{Kind: vh.KLit, Lex: vh.Pick(r, []string{"Widget", "a b", "é"}), DT: vh.XSDString}
	}
	type po struct{ p, o vh.GTerm }
	var desc, nested []po
	if r.Chance(50) {
		desc = append(desc, po{vh.GTerm{Kind: vh.KIRI, IRI: rdfType}, iri()})
	}
	for i, n := 0, 1+r.Intn(2); i < n; i++ {
		if r.Bool() {
			desc = append(desc, po{iri(), lit()})
		} else {
			desc = append(desc, po{iri(), iri()})
		}
	}
	var nestP vh.GTerm
	if r.Chance(50) {
		nestP = iri()
		for i, n := 0, 1+r.Intn(2); i < n; i++ {
			nested = append(nested, po{iri(), lit()})
		}
	}
	var g *vh.GTerm
	if graphs && r.Chance(30) {
		t := iri()
		g = &t
	}
	var qs []vh.GQuad
	for t, k := 0, 2+r.Intn(2); t < k; t++ {
		s := vh.GTerm{Kind: vh.KBNode, BNode: 2 * t}
		for _, d := range desc {
			qs = append(qs, vh.GQuad{S: s, P: d.p, O: d.o, G: g})
		}
		if nested != nil {
			n := vh.GTerm{Kind: vh.KBNode, BNode: 2*t + 1}
			qs = append(qs, vh.GQuad{S: s, P: nestP, O: n, G: g})
			for _, d := range nested {
				qs = append(qs, vh.GQuad{S: n, P: d.p, O: d.o, G: g})
			}
		}
	}
	if r.Chance(50) { // something else in the dataset
		qs = append(qs, vh.GQuad{S: iri(), P: iri(), O: lit()})
	}
	return qs
}

// e2eDataset: IRIs that net/url accepts (D3 is C01's finding), arbitrary literals; a share of the datasets uses
// IRIs of well-known namespaces (so that prefix lists have something to compact), another share has twin nodes
func e2eDataset(r *vh.Rng, graphs bool, nb int) []vh.GQuad {
	if r.Chance(20) {
		return twinDataset(r, graphs)
	}
	qs := r.Dataset(vh.DatasetOpts{MaxQuads: 6, NBNodes: nb, NIRIs: 4, Graphs: graphs})
	if r.Chance(35) {
		m := map[string]string{}
		sub := func(t *vh.GTerm) {
			if t != nil && t.Kind == vh.KIRI {
				if _, ok := m[t.IRI]; !ok {
					m[t.IRI] = vh.Pick(r, vocabIRIs)
				}
				t.IRI = m[t.IRI]
			}
		}
		for i := range qs {
			sub(&qs[i].S)
			sub(&qs[i].P)
			sub(&qs[i].O)
			sub(qs[i].G)
		}
	}
	return qs
}

func encodeNTNQ(quads bool, ascii bool, tbl *vh.BNTable, qs []vh.GQuad) ([]byte, error) {
	var buf bytes.Buffer
	ctx := context.Background()
	if quads {
		e, err := nquads.NewEncoder(&buf, nquads.EncoderConfig{}.SetASCII(ascii).SetBlankNodeStringProvider(tbl))
		if err != nil {
			return nil, err
		}
		for _, q := range qs {
			if err := e.AddQuad(ctx, tbl.Quad(q)); err != nil {
				return nil, err
			}
		}
		e.Close()
	} else {
		e, err := ntriples.NewEncoder(&buf, ntriples.EncoderConfig{}.SetASCII(ascii).SetBlankNodeStringProvider(tbl))
		if err != nil {
			return nil, err
		}
		for _, q := range qs {
			if err := e.AddTriple(ctx, tbl.Quad(q).Triple); err != nil {
				return nil, err
			}
		}
		e.Close()
	}
	return buf.Bytes(), nil
}

type ttlOpts struct {
	buffered  *bool
	resources *bool
	useBase   *bool
	prefixes  []string // raw iris.usePrefix values; nil = unset
	base      string   // --out-base / the writer's IRI
}

func (o ttlOpts) params() []string {
	var p []string
	b := func(k string, v *bool) {
		if v != nil {
			p = append(p, fmt.Sprintf("%s=%v", k, *v))
		}
	}
	b("buffered", o.buffered)
	b("resources", o.resources)
	b("iris.useBase", o.useBase)
	for _, x := range o.prefixes {
		p = append(p, "iris.usePrefix="+x)
	}
	return p
}

// encodeTurtleLib: the Turtle encoder configured by hand the way turtlerdfio does (defaults: buffered,
// useBase, rdfa-context prefixes), without the registry. Used for source documents and for the codec-only
// reference run.
func encodeTurtleLib(o ttlOpts, prov interface {
	GetBlankNodeString(rdf.BlankNode) string
}, triples []rdf.Triple) (out []byte, err error) {
	defer func() {
		if p := recover(); p != nil {
			err = fmt.Errorf("panic: %v", p)
		}
	}()
	var buf bytes.Buffer
	cfg := turtle.EncoderConfig{}
	if prov != nil {
		cfg = cfg.SetBlankNodeStringProvider(prov)
	}
	if o.buffered == nil || *o.buffered {
		cfg = cfg.SetBuffered(true)
	}
	if o.useBase == nil || *o.useBase {
		cfg = cfg.SetBase(o.base)
	}
	raw := o.prefixes
	if len(raw) == 0 {
		raw = []string{"rdfa-context"}
	}
	var prefixes iri.PrefixMappingList
	for _, p := range raw {
		if p == "rdfa-context" {
			prefixes = rdfaContext(prefixes)
			continue
		} else if p == "none" {
			prefixes = nil
			continue
		}
		s := strings.SplitN(p, ":", 2)
		if len(s) != 2 {
			return nil, fmt.Errorf("bad prefix")
		}
		prefixes = append(prefixes, iri.PrefixMapping{Prefix: s[0], Expanded: s[1]})
	}
	if len(prefixes) > 0 {
		cfg = cfg.SetPrefixes(prefixes)
	}
	e, err := turtle.NewEncoder(&buf, cfg)
	if err != nil {
		return nil, err
	}
	ctx := context.Background()
	if o.resources != nil && *o.resources {
		w := rdfdescriptionutil.NewBufferedTriplesEncoder(ctx, e, rdfdescription.DefaultExportResourceOptions)
		for _, t := range triples {
			if err := w.AddTriple(ctx, t); err != nil {
				return nil, err
			}
		}
		if err := w.Close(); err != nil {
			return nil, err
		}
	} else {
		for _, t := range triples {
			if err := e.AddTriple(ctx, t); err != nil {
				return nil, err
			}
		}
		if err := e.Close(); err != nil {
			return nil, err
		}
	}
	return buf.Bytes(), nil
}

func encodeRJ(prov interface {
	GetBlankNodeString(rdf.BlankNode) string
}, triples []rdf.Triple) (out []byte, err error) {
	defer func() {
		if p := recover(); p != nil {
			err = fmt.Errorf("panic: %v", p)
		}
	}()
	var buf bytes.Buffer
	cfg := rdfjson.EncoderConfig{}
	if prov != nil {
		cfg = cfg.SetBlankNodeStringProvider(prov)
	}
	e, err := rdfjson.NewEncoder(&buf, cfg)
	if err != nil {
		return nil, err
	}
	ctx := context.Background()
	for _, t := range triples {
		if err := e.AddTriple(ctx, t); err != nil {
			return nil, err
		}
	}
	if err := e.Close(); err != nil {
		return nil, err
	}
	return buf.Bytes(), nil
}

func ntTerm(t vh.GTerm, label func(int) string) string {
	var buf bytes.Buffer
	switch t.Kind {
	case vh.KIRI:
		ntriples.WriteIRI(&buf, rdf.IRI(t.IRI), false)
	case vh.KBNode:
		buf.WriteString("_:" + label(t.BNode))
	default:
		l := rdf.Literal{Datatype: rdf.IRI(t.DT), LexicalForm: t.Lex}
		if t.DT == vh.RDFLangString {
			l.Tag = rdf.LanguageLiteralTag{Language: t.Lang}
		}
		ntriples.WriteLiteral(&buf, l, false)
	}
	return buf.String()
}

// genTriG: N-Triples-style statements grouped into graph blocks, default-graph statements at top level.
func genTriG(r *vh.Rng, qs []vh.GQuad, label func(int) string) []byte {
	var sb strings.Builder
	for _, q := range qs {
		stmt := ntTerm(q.S, label) + " " + ntTerm(q.P, label) + " " + ntTerm(q.O, label) + " ."
		if q.G == nil {
			if r.Chance(30) {
				sb.WriteString("{ " + stmt + " }\n")
			} else {
				sb.WriteString(stmt + "\n")
			}
		} else {
			kw := ""
			if r.Chance(30) {
				kw = "GRAPH "
			}
			sb.WriteString(kw + ntTerm(*q.G, label) + " { " + stmt + " }\n")
		}
	}
	return []byte(sb.String())
}

// xmlText: characters XML 1.0 cannot carry are dropped; CR is written as a character reference.
func xmlText(s string) string {
	var sb strings.Builder
	for _, c := range s {
		switch {
		case c == '&':
			sb.WriteString("&amp;")
		case c == '<':
			sb.WriteString("&lt;")
		case c == '>':
			sb.WriteString("&gt;")
		case c == '"':
			sb.WriteString("&quot;")
		case c == '\r':
			sb.WriteString("&#xD;")
		case c == '\t' || c == '\n':
			sb.WriteRune(c)
		case c < 0x20 || c == 0xFFFE || c == 0xFFFF || c == utf8.RuneError || (c >= 0x7F && c <= 0x9F):
			// not representable / discouraged: dropped
		default:
			sb.WriteRune(c)
		}
	}
	return sb.String()
}

var xmlPredicates = []string{"http://example.org/ns#p", "http://example.org/ns#q", "http://purl.org/dc/terms/title", "http://example.org/v/rel"}

func splitNS(p string) (string, string) {
	i := strings.LastIndexAny(p, "#/")
	return p[:i+1], p[i+1:]
}

func qnameable(local string) bool {
	if local == "" {
		return false
	}
	for i, c := range local {
		if !((c >= 'a' && c <= 'z') || (c >= 'A' && c <= 'Z') || c == '_' || (i > 0 && c >= '0' && c <= '9')) {
			return false
		}
	}
	return true
}

// genRDFXML: one rdf:Description per statement; predicates are replaced by QName-able ones.
func genRDFXML(r *vh.Rng, qs []vh.GQuad, label func(int) string) []byte {
	var sb strings.Builder
	if r.Chance(70) {
		sb.WriteString("<?xml version=\"1.0\" encoding=\"UTF-8\"?>\n")
	}
	sb.WriteString("<rdf:RDF xmlns:rdf=\"http://www.w3.org/1999/02/22-rdf-syntax-ns#\">\n")
	xlabel := func(i int) string { return fmt.Sprintf("n%d", i) } // rdf:nodeID is an NCName
	_ = label
	for k, q := range qs {
		_ = k
		ns, local := splitNS(q.P.IRI) // QName-able predicates are kept; others are replaced by one that depends on the predicate only
		if !qnameable(local) || ns == "" {
			ns, local = splitNS(xmlPredicates[(len(q.P.IRI)+int(q.P.IRI[len(q.P.IRI)-1]))%len(xmlPredicates)])
		}
		if q.S.Kind == vh.KBNode {
			fmt.Fprintf(&sb, " <rdf:Description rdf:nodeID=\"%s\">\n", xlabel(q.S.BNode))
		} else {
			fmt.Fprintf(&sb, " <rdf:Description rdf:about=\"%s\">\n", xmlText(q.S.IRI))
		}
		switch q.O.Kind {
		case vh.KIRI:
			fmt.Fprintf(&sb, "  <p:%s xmlns:p=\"%s\" rdf:resource=\"%s\"/>\n", local, ns, xmlText(q.O.IRI))
		case vh.KBNode:
			fmt.Fprintf(&sb, "  <p:%s xmlns:p=\"%s\" rdf:nodeID=\"%s\"/>\n", local, ns, xlabel(q.O.BNode))
		default:
			attr := ""
			if q.O.DT == vh.RDFLangString {
				attr = fmt.Sprintf(" xml:lang=\"%s\"", xmlText(q.O.Lang))
			} else if q.O.DT != vh.XSDString {
				attr = fmt.Sprintf(" rdf:datatype=\"%s\"", xmlText(q.O.DT))
			}
			fmt.Fprintf(&sb, "  <p:%s xmlns:p=\"%s\"%s>%s</p:%s>\n", local, ns, attr, xmlText(q.O.Lex), local)
		}
		sb.WriteString(" </rdf:Description>\n")
	}
	if r.Chance(40) { // an anonymous node (parseType=Resource) and a typed node
		sb.WriteString(" <rdf:Description rdf:about=\"http://example.org/anon\"><p:has xmlns:p=\"http://example.org/ns#\" rdf:parseType=\"Resource\"><p:v>1</p:v></p:has></rdf:Description>\n")
		sb.WriteString(" <p:Thing xmlns:p=\"http://example.org/ns#\"><p:v>2</p:v></p:Thing>\n")
	}
	sb.WriteString("</rdf:RDF>\n")
	return []byte(sb.String())
}

func jsonldNode(t vh.GTerm, label func(int) string) map[string]any {
	switch t.Kind {
	case vh.KIRI:
		return map[string]any{"@id": t.IRI}
	case vh.KBNode:
		return map[string]any{"@id": "_:" + label(t.BNode)}
	default:
		v := map[string]any{"@value": t.Lex}
		if t.DT == vh.RDFLangString {
			v["@language"] = t.Lang
		} else if t.DT != vh.XSDString {
			v["@type"] = t.DT
		}
		return v
	}
}

// genJSONLD: expanded form, one node object per statement, named graphs as {"@id": g, "@graph": […]}.
func genJSONLD(r *vh.Rng, qs []vh.GQuad, label func(int) string) []byte {
	var top []any
	for _, q := range qs {
		n := jsonldNode(q.S, label)
		n[q.P.IRI] = []any{jsonldNode(q.O, label)}
		if q.G == nil {
			top = append(top, n)
		} else {
			g := jsonldNode(*q.G, label)
			g["@graph"] = []any{n}
			top = append(top, g)
		}
	}
	if r.Chance(30) { // an anonymous node object (no @id)
		top = append(top, map[string]any{"http://example.org/ns#p": []any{map[string]any{"http://example.org/ns#q": []any{map[string]any{"@value": "anon"}}}}})
	}
	if top == nil {
		top = []any{}
	}
	var b []byte
	if r.Chance(50) {
		b, _ = json.MarshalIndent(top, "", " ")
	} else {
		b, _ = json.Marshal(top)
	}
	return append(b, '\n')
}

// genHTML: RDFa with absolute IRIs, blank nodes as _:label CURIEs, optionally an embedded JSON-LD script
// that reuses the same labels (they denote different nodes) and a Microdata item.
func genHTML(r *vh.Rng, qs []vh.GQuad, label func(int) string) []byte {
	var sb strings.Builder
	if r.Chance(80) {
		sb.WriteString("<!DOCTYPE html>\n")
	}
	sb.WriteString("<html><head><title>t</title>")
	if r.Chance(40) {
		sb.WriteString("<script type=\"application/ld+json\">")
		b, _ := json.Marshal([]any{map[string]any{"@id": "_:" + label(0), "http://example.org/ns#fromScript": []any{map[string]any{"@id": "_:" + label(1)}}}})
		sb.Write(b)
		sb.WriteString("</script>")
	}
	sb.WriteString("</head><body>\n")
	ref := func(t vh.GTerm) string {
		if t.Kind == vh.KBNode {
			return "_:" + label(t.BNode)
		}
		return t.IRI
	}
	for _, q := range qs {
		if q.G != nil {
			continue // RDFa has no named graphs
		}
		fmt.Fprintf(&sb, "<div about=\"%s\">", html.EscapeString(ref(q.S)))
		if q.O.Kind == vh.KLit {
			attr := ""
			if q.O.DT == vh.RDFLangString {
				attr = fmt.Sprintf(" lang=\"%s\"", html.EscapeString(q.O.Lang))
			} else if q.O.DT != vh.XSDString {
				attr = fmt.Sprintf(" datatype=\"%s\"", html.EscapeString(q.O.DT))
			} else {
				attr = " datatype=\"\""
			}
			fmt.Fprintf(&sb, "<span property=\"%s\"%s content=\"%s\"></span>", html.EscapeString(q.P.IRI), attr, html.EscapeString(strings.ReplaceAll(q.O.Lex, "\x00", "")))
		} else {
			fmt.Fprintf(&sb, "<span rel=\"%s\" resource=\"%s\"></span>", html.EscapeString(q.P.IRI), html.EscapeString(ref(q.O)))
		}
		sb.WriteString("</div>\n")
	}
	if r.Chance(30) {
		sb.WriteString("<div itemscope itemtype=\"http://example.org/ns#T\"><span itemprop=\"http://example.org/ns#name\">md</span><div itemprop=\"http://example.org/ns#sub\" itemscope><span itemprop=\"http://example.org/ns#name\">inner</span></div></div>\n")
	}
	sb.WriteString("</body></html>\n")
	return []byte(sb.String())
}

// hand-written Turtle / TriG with anonymous nodes, collections, nesting, relative IRIs, prefixes
// two reviews with the same rating: distinct blank nodes with identical descriptions, in every format that has
// an anonymous-node syntax
var twinTemplates = map[string][]string{
	"ttl":    {"@prefix schema: <http://schema.org/> .\n<http://example.com/product> schema:name \"Widget\" .\n[] a schema:Review ; schema:itemReviewed <http://example.com/product> ; schema:reviewRating [ schema:ratingValue 5 ] .\n[] a schema:Review ; schema:itemReviewed <http://example.com/product> ; schema:reviewRating [ schema:ratingValue 5 ] .\n[] a schema:Review ; schema:itemReviewed <http://example.com/product> ; schema:reviewRating [ schema:ratingValue 4 ] .\n"},
	"trig":   {"@prefix schema: <http://schema.org/> .\n[] a schema:Review ; schema:reviewRating [ schema:ratingValue 5 ] .\n[] a schema:Review ; schema:reviewRating [ schema:ratingValue 5 ] .\n<http://example.com/g> { [] schema:name \"n\" . [] schema:name \"n\" . }\n"},
	"jsonld": {"{\"@context\":{\"@vocab\":\"http://schema.org/\"},\"@graph\":[{\"@type\":\"Review\",\"reviewRating\":{\"ratingValue\":5}},{\"@type\":\"Review\",\"reviewRating\":{\"ratingValue\":5}}]}\n"},
	"html": {"<html><body>\n<div itemscope itemtype=\"http://schema.org/Review\"><span itemprop=\"name\">same</span><div itemprop=\"reviewRating\" itemscope><span itemprop=\"ratingValue\">5</span></div></div>\n<div itemscope itemtype=\"http://schema.org/Review\"><span itemprop=\"name\">same</span><div itemprop=\"reviewRating\" itemscope><span itemprop=\"ratingValue\">5</span></div></div>\n</body></html>\n",
		"<html><body vocab=\"http://schema.org/\">\n<div typeof=\"Review\"><span property=\"name\">same</span></div>\n<div typeof=\"Review\"><span property=\"name\">same</span></div>\n</body></html>\n"},
	"rdfxml": {"<rdf:RDF xmlns:rdf=\"http://www.w3.org/1999/02/22-rdf-syntax-ns#\" xmlns:s=\"http://schema.org/\">\n<s:Review><s:reviewRating rdf:parseType=\"Resource\"><s:ratingValue>5</s:ratingValue></s:reviewRating></s:Review>\n<s:Review><s:reviewRating rdf:parseType=\"Resource\"><s:ratingValue>5</s:ratingValue></s:reviewRating></s:Review>\n</rdf:RDF>\n"},
}

var turtleTemplates = []string{
	"@prefix ex: <http://example.org/ns#> .\nex:a ex:p [ ex:q \"x\" ] , [ ex:q \"y\" ] .\n_:l1 ex:p _:l2 .\n",
	"@prefix ex: <http://example.org/ns#> .\nex:a ex:list ( 1 2.5 \"three\" ex:four [ ex:q true ] ) .\n[] ex:p [] .\n",
	"@prefix : <http://example.org/ns#> .\n[ :p [ :q [ :r \"deep\" ] ] ; :s _:x ] .\n_:x :t _:x .\n",
	"@base <http://example.org/base/> .\n<a> <p> <../b> , <#frag> , <?q=1> .\n<> <p> \"self\"@en-GB .\n",
	"PREFIX ex: <http://example.org/ns#>\nex:a ex:p () ; ex:q ( ( ) ( 1 ) ) .\n",
	"<a> <http://example.org/ns#rel> <b> .\n[] <http://example.org/ns#rel> <c/d> .\n",
}

var trigTemplates = []string{
	"@prefix ex: <http://example.org/ns#> .\nex:g1 { ex:a ex:p [ ex:q \"x\" ] . _:s ex:p _:s . }\nex:g2 { _:s ex:p [ ] . }\n{ ex:a ex:p ( 1 2 ) . }\n",
	"@prefix ex: <http://example.org/ns#> .\n_:g { ex:a ex:p _:g . }\nGRAPH _:g { [] ex:p [] . }\n[] ex:p \"default\" .\n",
	"@prefix ex: <http://example.org/ns#> .\n[] { ex:a ex:p ex:b . }\nex:a ex:q [ ex:r ( [] [] ) ] .\n",
}

var jsonldTemplates = []string{
	"{\"@context\":{\"ex\":\"http://example.org/ns#\"},\"@id\":\"ex:a\",\"ex:p\":{\"ex:q\":\"anon\"},\"ex:list\":{\"@list\":[1,\"two\",{\"@id\":\"ex:three\"}]}}\n",
	"{\"@context\":{\"@vocab\":\"http://example.org/ns#\"},\"@graph\":[{\"@id\":\"_:b0\",\"p\":{\"@id\":\"_:b1\"}},{\"@id\":\"http://example.org/g\",\"@graph\":[{\"@id\":\"_:b0\",\"q\":true}]}]}\n",
	"[{\"@id\":\"_:x\",\"http://example.org/ns#p\":[{\"@value\":\"v\",\"@language\":\"en-us\"},{\"@value\":1.5},{\"@value\":\"2\",\"@type\":\"http://www.w3.org/2001/XMLSchema#integer\"}]}]\n",
	"{\"@id\":\"rel\",\"http://example.org/ns#p\":{\"@id\":\"other#frag\"}}\n",
}

// RDF/JSON that other producers write: an empty value array first, a first subject longer than the 1024 bytes
// the registry peeks at, labels that are no N-Triples labels
var rjTemplates = []string{
	"{\"http://example.org/s\":{\"http://example.org/empty\":[],\"http://example.org/p\":[{\"type\":\"literal\",\"value\":\"x\"}]}}\n",
	"{\"http://example.org/" + strings.Repeat("long", 300) + "\":{\"http://example.org/p\":[{\"value\":\"x\",\"type\":\"literal\",\"lang\":\"en\"}]}}\n",
	"{\"_:a b\":{\"http://example.org/p\":[{\"type\":\"bnode\",\"value\":\"_:c<d\"},{\"type\":\"bnode\",\"value\":\"_:e.\"}]}}\n",
}

// documents whose first KiB looks like another format to a magic-byte resolver
var lookalikeTemplates = map[string][]string{
	"nt":   {"<http://example.org/a> <http://example.org/p> \"<div itemscope>x</div>\" .\n<http://example.org/a> <http://example.org/p> _:b .\n"},
	"nq":   {"<http://example.org/a> <http://example.org/p> \"<rdf:RDF x\" <http://example.org/g> .\n"},
	"ttl":  {"<http://example.org/a> <http://example.org/p> '<div vocab=\"http://schema.org/\">x</div>' .\n"},
	"trig": {"{ <http://example.org/a> <http://example.org/p> <http://example.org/b> . }\n<http://example.org/g> { <http://example.org/a> <http://example.org/p> \"x\" . }\n"},
}

var rdfxmlTemplates = []string{
	"<?xml version=\"1.0\"?>\n<rdf:RDF xmlns:rdf=\"http://www.w3.org/1999/02/22-rdf-syntax-ns#\" xmlns:ex=\"http://example.org/ns#\">\n<rdf:Description rdf:about=\"rel\"><ex:p rdf:resource=\"other#f\"/><ex:l rdf:parseType=\"Collection\"><rdf:Description rdf:about=\"http://example.org/1\"/><rdf:Description/></ex:l></rdf:Description>\n<ex:T rdf:ID=\"frag\"><ex:q xml:lang=\"de\">wert</ex:q><ex:r rdf:nodeID=\"n1\"/></ex:T>\n<rdf:Description rdf:nodeID=\"n1\"><ex:q rdf:datatype=\"http://www.w3.org/2001/XMLSchema#integer\">5</ex:q></rdf:Description>\n</rdf:RDF>\n",
	"<rdf:RDF xmlns:rdf=\"http://www.w3.org/1999/02/22-rdf-syntax-ns#\" xmlns:ex=\"http://example.org/ns#\" xml:base=\"http://example.org/base/\">\n<rdf:Description rdf:about=\"a\"><ex:p><rdf:Description><ex:q>nested</ex:q></rdf:Description></ex:p><ex:x rdf:parseType=\"Literal\"><b>bold</b></ex:x></rdf:Description>\n</rdf:RDF>\n",
}

var htmlTemplates = []string{
	"<!DOCTYPE html>\n<html prefix=\"ex: http://example.org/ns#\"><head><title>T</title></head><body>\n<div about=\"http://example.org/a\" typeof=\"ex:T\"><span property=\"ex:name\">Name</span><div rel=\"ex:knows\"><div typeof=\"ex:P\"><span property=\"ex:name\" lang=\"fr\">Anon</span></div></div><a rel=\"ex:home\" href=\"rel/page\">h</a></div>\n<div vocab=\"http://schema.org/\" typeof=\"Person\"><span property=\"name\">V</span></div>\n</body></html>\n",
	"<html><body><div itemscope itemtype=\"http://schema.org/Person\" itemid=\"http://example.org/p1\"><span itemprop=\"name\">N</span><div itemprop=\"address\" itemscope itemtype=\"http://schema.org/PostalAddress\"><span itemprop=\"addressLocality\">L</span></div></div>\n<script type=\"application/ld+json\">{\"@context\":{\"@vocab\":\"http://schema.org/\"},\"@id\":\"_:b0\",\"name\":\"J\",\"knows\":{\"@id\":\"_:b1\"}}</script>\n<p about=\"_:b0\" property=\"http://example.org/ns#p\" resource=\"_:b1\">x</p></body></html>\n",
}

// rdfaContext: the prefixes the encoder manager adds for "rdfa-context"
func rdfaContext(l iri.PrefixMappingList) iri.PrefixMappingList {
	return rdfacontext.AppendWidelyUsedInitialContext(l)
}

type sourceDoc struct {
	format string
	origin string // "gen", "template", "corpus:<name>"
	body   []byte
}

func (g *gen) sourceDoc(fm string) sourceDoc {
	r := g.r
	pool := vh.Pick(r, labelPools)
	label := func(i int) string {
		if i >= len(pool) {
			return fmt.Sprintf("%s%d", pool[i%len(pool)], i/len(pool))
		}
		return pool[i]
	}
	tbl := vh.NewBNTable(label)
	// corpus
	if docs := g.corpus[fm]; len(docs) > 0 && r.Chance(map[string]int{"nt": 10, "nq": 10, "ttl": 25, "trig": 30, "rdfxml": 50, "jsonld": 50, "html": 50, "rj": 0}[fm]) {
		d := vh.Pick(r, docs)
		return sourceDoc{fm, "corpus:" + d.name, d.body}
	}
	if tw := twinTemplates[fm]; len(tw) > 0 && r.Chance(6) {
		return sourceDoc{fm, "template", []byte(vh.Pick(r, tw))}
	}
	if la := lookalikeTemplates[fm]; len(la) > 0 && r.Chance(3) {
		return sourceDoc{fm, "lookalike", []byte(vh.Pick(r, la))}
	}
	tmpl := map[string][]string{"ttl": turtleTemplates, "trig": trigTemplates, "jsonld": jsonldTemplates, "rdfxml": rdfxmlTemplates, "html": htmlTemplates}[fm]
	if len(tmpl) > 0 && r.Chance(25) {
		return sourceDoc{fm, "template", []byte(vh.Pick(r, tmpl))}
	}
	if fm == "rj" && r.Chance(6) {
		return sourceDoc{fm, "template", []byte(vh.Pick(r, rjTemplates))}
	}
	if (fm == "rj" || fm == "jsonld") && r.Chance(4) {
		pool = []string{"a b", "c<d", "e.", "-f", "ok"} // admitted by these formats, not by N-Triples
	}
	nb := 1 + r.Intn(4)
	switch fm {
	case "nt":
		b, _ := encodeNTNQ(false, r.Chance(20), tbl, e2eDataset(r, false, nb))
		return sourceDoc{fm, "gen", b}
	case "nq":
		b, _ := encodeNTNQ(true, r.Chance(20), tbl, e2eDataset(r, true, nb))
		return sourceDoc{fm, "gen", b}
	case "ttl":
		qs := e2eDataset(r, false, nb)
		var ts []rdf.Triple
		for _, q := range qs {
			ts = append(ts, tbl.Quad(q).Triple)
		}
		o := ttlOpts{base: "http://example.org/base/doc"}
		if r.Chance(50) {
			t := true
			o.resources = &t // nested anonymous nodes
		}
		if r.Chance(30) {
			o.prefixes = []string{"none"}
		}
		b, err := encodeTurtleLib(o, tbl, ts)
		if err != nil {
			b, _ = encodeNTNQ(false, false, tbl, qs)
		}
		return sourceDoc{fm, "gen", b}
	case "trig":
		return sourceDoc{fm, "gen", genTriG(r, e2eDataset(r, true, nb), label)}
	case "rj":
		qs := e2eDataset(r, false, nb)
		var ts []rdf.Triple
		for _, q := range qs {
			ts = append(ts, tbl.Quad(q).Triple)
		}
		b, _ := encodeRJ(tbl, ts)
		if r.Chance(15) && len(b) > 2 { // other producers indent
			var v any
			if json.Unmarshal(b, &v) == nil {
				b, _ = json.MarshalIndent(v, "", "  ")
			}
		}
		return sourceDoc{fm, "gen", b}
	case "rdfxml":
		return sourceDoc{fm, "gen", genRDFXML(r, e2eDataset(r, false, nb), label)}
	case "jsonld":
		return sourceDoc{fm, "gen", genJSONLD(r, e2eDataset(r, true, nb), label)}
	default:
		return sourceDoc{fm, "gen", genHTML(r, e2eDataset(r, false, nb), label)}
	}
}
