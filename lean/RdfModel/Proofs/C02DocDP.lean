/-
  Proofs.C02DocDP — "deep permutation" of statement trees and resource lists (definitions only):
  reordering the statements of every (nested) statement list, reordering the resources, dropping
  resources without statements. The Turtle encoder's nested-resource mode writes a deep permutation of
  its input (grouping by predicate, sorted sections); `Proofs/C02DocPermIso.lean` proves that flattening
  (`Desc.newTriplesList`) is invariant under it up to graph isomorphism.
-/
import RdfModel.Model.Description
namespace RdfModel.Proofs.C02Doc
open RdfModel RdfModel.Desc

/-- deep permutation of statement lists -/
inductive DP {β : Type} : List (Stmt β) → List (Stmt β) → Prop
  | nil : DP [] []
  | obj (p : List Nat) (o : Term β) {l l' : List (Stmt β)} : DP l l' → DP (.obj p o :: l) (.obj p o :: l')
  | anon (p : List Nat) {a a' l l' : List (Stmt β)} : DP a a' → DP l l' → DP (.anon p a :: l) (.anon p a' :: l')
  | swap (x y : Stmt β) (l : List (Stmt β)) : DP (x :: y :: l) (y :: x :: l)
  | trans {a b c : List (Stmt β)} : DP a b → DP b c → DP a c

def resStmts {β : Type} : Resource β → List (Stmt β)
  | .subject _ st => st
  | .anon st => st

/-- explicit subject; `none` for `[]`-style roots (`.anon st` and `.subject none st` flatten identically) -/
def resSubj {β : Type} : Resource β → Option (Term β)
  | .subject s _ => s
  | .anon _ => none

inductive RP {β : Type} : List (Resource β) → List (Resource β) → Prop
  | nil : RP [] []
  | cons {r r' : Resource β} {rs rs' : List (Resource β)} : resSubj r = resSubj r' → DP (resStmts r) (resStmts r') →
      RP rs rs' → RP (r :: rs) (r' :: rs')
  | drop {r : Resource β} {rs rs' : List (Resource β)} : resStmts r = [] → RP rs rs' → RP (r :: rs) rs'
  | swap (x y : Resource β) (l : List (Resource β)) : RP (x :: y :: l) (y :: x :: l)
  | trans {a b c : List (Resource β)} : RP a b → RP b c → RP a c

variable {β : Type}

theorem DP.refl : (l : List (Stmt β)) → DP l l
  | [] => .nil
  | .obj p o :: l => .obj p o (DP.refl l)
  | .anon p a :: l => .anon p (DP.refl a) (DP.refl l)

theorem DP.cons (x : Stmt β) {l l' : List (Stmt β)} (h : DP l l') : DP (x :: l) (x :: l') := by
  cases x with
  | obj p o => exact .obj p o h
  | anon p a => exact .anon p (DP.refl a) h

theorem DP.of_perm {l l' : List (Stmt β)} (h : l.Perm l') : DP l l' := by
  induction h with
  | nil => exact .nil
  | cons x _ ih => exact DP.cons x ih
  | swap x y l => exact .swap y x l
  | trans _ _ ih1 ih2 => exact .trans ih1 ih2

theorem DP.append_left (a : List (Stmt β)) {b b' : List (Stmt β)} (h : DP b b') : DP (a ++ b) (a ++ b') := by
  induction a with
  | nil => exact h
  | cons x a ih => exact DP.cons x ih

theorem DP.append_right {a a' : List (Stmt β)} (b : List (Stmt β)) (h : DP a a') : DP (a ++ b) (a' ++ b) := by
  induction h with
  | nil => exact DP.refl b
  | obj p o _ ih => exact .obj p o ih
  | anon p ha _ _ ih => exact .anon p ha ih
  | swap x y l => exact .swap x y (l ++ b)
  | trans _ _ ih1 ih2 => exact .trans ih1 ih2

theorem DP.append {a a' b b' : List (Stmt β)} (h1 : DP a a') (h2 : DP b b') : DP (a ++ b) (a' ++ b') :=
  .trans (DP.append_right b h1) (DP.append_left a' h2)

theorem RP.refl : (rs : List (Resource β)) → RP rs rs
  | [] => .nil
  | r :: rs => .cons rfl (DP.refl _) (RP.refl rs)

theorem RP.of_perm {rs rs' : List (Resource β)} (h : rs.Perm rs') : RP rs rs' := by
  induction h with
  | nil => exact .nil
  | cons x _ ih => exact .cons rfl (DP.refl _) ih
  | swap x y l => exact .swap y x l
  | trans _ _ ih1 ih2 => exact .trans ih1 ih2

end RdfModel.Proofs.C02Doc
