/-
  Property C18 — converting between formats through the registry / `rdfkit pipe` preserves the dataset
  (theorems only; helper lemmas live in RdfModel/Proofs/C18*.lean).

  All theorems are about `Model/Pipe.lean`, the executable model the driver runs (`Driver/Pipe.lean`,
  component `pipe`), and about `Gen/RegistryFacts.lean`, the registry contents regenerated from
  `rdfio.Registry` on every run.

  What is proved here
    * `resolve_priority`, `resolve_encoder_priority` — the order alias > exact identifier > media type >
      magic bytes > file extension (decoder) and alias > exact identifier > extension (encoder), exactly as coded,
      for every registry;
    * `resolve_ext_order_irrelevant` — Go's unspecified map iteration order cannot change the result when the
      extension table is suffix-consistent; `registry_unambiguous` proves that (and the other table facts) for
      the regenerated registry by `decide`;
    * `open_decoder_stable`, `open_encoder_stable` — the CLI resolves the type twice (option builder, then
      `NewDecoder`); with no alias shadowing an identifier the second resolution returns the first result;
    * `pipe_labels_injective` — one source node ↦ one label, two source nodes ↦ two labels;
    * `pipe_triples_restricts_default_graph` is FALSE on the code as it is (D20): stated, refuted by witness,
      `_partial` proved under "no named graphs";
    * `pipe_nq_preserves`, `pipe_nt_preserves` — composition with C01's round-trip theorems;
    * `pipe_codec_preserves_partial` (+ Turtle / RDF-JSON instances) — the same composition over an ABSTRACT codec
      with the target's round trip as an explicit hypothesis. SUPERSEDED for the real codecs by
      `Props/C18Targets.lean` (builder-c18b): `pipe_preserves_ttl_plain`, `pipe_preserves_rdfjson` discharge the
      hypothesis with `C02.plain_doc_iso` / `C01RJ.rdfjson_roundtrip` on the executable encoder/decoder models,
      including the `--out-param` / `--out-base` plumbing; `pipe_preserves_ttl_resources_partial` for
      `resources=true`. The abstract theorems are kept (they hold for every codec).
  Outside the model: the source decoders (the dataset they yield is a universally quantified input), gzip
  filters, HTTP, the regular expressions of the magic-byte resolvers (their answers are an input), cobra
  flag parsing, non-ASCII case folding of file names.
-/
import RdfModel.Props.C18Defs
import RdfModel.Props.C01
import RdfModel.Props.C01Tables
import RdfModel.Proofs.C18
import RdfModel.Proofs.C18Labels
import RdfModel.Proofs.C18Pipe
namespace RdfModel.C18
open RdfModel RdfModel.Pipe RdfModel.BN RdfModel.NQ RdfModel.C01

/-! ## Type resolution -/

/-- `ResolveDecoderType`: the priority chain, exactly as coded. An alias hit wins whatever the media type,
    the magic bytes and the file name say; then the exact identifier of a registered decoder; then (also
    when a non-empty `t` matched nothing!) the media type; then the first magic-byte resolver that answers;
    then the file extension. -/
theorem resolve_priority (reg : Registry) (ord : List (Str × Cti)) (rr : ReaderInfo) (t : Str) :
    (∀ c, t ≠ [] → BN.assoc t reg.aliases = some c → resolveDecoderType reg ord rr t = some c) ∧
    (t ≠ [] → BN.assoc t reg.aliases = none → t ∈ reg.decoders → resolveDecoderType reg ord rr t = some t) ∧
    ((t = [] ∨ (BN.assoc t reg.aliases = none ∧ t ∉ reg.decoders)) →
      (∀ c, resolveByMedia reg.mediaTypes rr = some c → resolveDecoderType reg ord rr t = some c) ∧
      (resolveByMedia reg.mediaTypes rr = none →
        (∀ c, resolveByMagic rr = some c → resolveDecoderType reg ord rr t = some c) ∧
        (resolveByMagic rr = none → resolveDecoderType reg ord rr t = resolveByExt ord rr))) := by
  refine ⟨fun c ht ha => Proofs.C18.resolveDecoderType_of_type (Proofs.C18.resolveByType_alias ht ha),
    fun ht ha hm => Proofs.C18.resolveDecoderType_of_type (Proofs.C18.resolveByType_id ht ha hm), ?_⟩
  intro h
  have h0 := (Proofs.C18.resolveByType_none_iff reg.aliases reg.decoders t).mpr h
  exact ⟨fun c hm => Proofs.C18.resolveDecoderType_of_media h0 hm,
    fun h1 => ⟨fun c hg => Proofs.C18.resolveDecoderType_of_magic h0 h1 hg,
      fun h2 => Proofs.C18.resolveDecoderType_of_ext h0 h1 h2⟩⟩

/-- `ResolveEncoderType`: alias > exact identifier of a registered encoder > `FileExts[filepath.Ext(name)]`
    (exact, case-sensitive lookup; no media type, no sniffing). -/
theorem resolve_encoder_priority (reg : Registry) (fn : Option Str) (t : Str) :
    (∀ c, t ≠ [] → BN.assoc t reg.aliases = some c → resolveEncoderType reg fn t = some c) ∧
    (t ≠ [] → BN.assoc t reg.aliases = none → t ∈ reg.encoders → resolveEncoderType reg fn t = some t) ∧
    ((t = [] ∨ (BN.assoc t reg.aliases = none ∧ t ∉ reg.encoders)) →
      resolveEncoderType reg fn t = fn.bind (fun f => BN.assoc (filepathExt f) reg.fileExts)) := by
  refine ⟨fun c ht ha => Proofs.C18.resolveEncoderType_of_type (Proofs.C18.resolveByType_alias ht ha),
    fun ht ha hm => Proofs.C18.resolveEncoderType_of_type (Proofs.C18.resolveByType_id ht ha hm), ?_⟩
  intro h
  exact Proofs.C18.resolveEncoderType_of_ext ((Proofs.C18.resolveByType_none_iff reg.aliases reg.encoders t).mpr h)

/-- The loop over the `FileExts` map visits it in an unspecified order; with a suffix-consistent table every
    order gives the same answer. -/
theorem resolve_ext_order_irrelevant (reg : Registry) (hc : SuffixConsistent reg.fileExts)
    (ord ord' : List (Str × Cti)) (hp : ord.Perm reg.fileExts) (hp' : ord'.Perm reg.fileExts)
    (rr : ReaderInfo) (t : Str) :
    resolveDecoderType reg ord rr t = resolveDecoderType reg ord' rr t :=
  Proofs.C18.resolveDecoderType_perm hc hp hp' rr t

/-- The CLI resolves twice (`cmdflags.EncodingInput.Open`, then `Registry.NewDecoder` on the resulting
    identifier). If no alias shadows a decoder identifier, the type chosen the first time (or the fallback)
    is the decoder that is opened. -/
theorem open_decoder_stable (reg : Registry) (hs : aliasShadowFree reg.aliases reg.decoders = true)
    (hne : [] ∉ reg.decoders) (ord1 ord2 : List (Str × Cti)) (rr : ReaderInfo) (t : Str) (fallback c : Cti)
    (h1 : (resolveDecoderType reg ord1 rr t).getD fallback = c) (hc : c ∈ reg.decoders) :
    openDecoderType reg ord1 ord2 rr t fallback = some c :=
  Proofs.C18.openDecoderType_stable hs hne ord1 ord2 rr t fallback c h1 hc

theorem open_encoder_stable (reg : Registry) (hs : aliasShadowFree reg.aliases reg.encoders = true)
    (hne : [] ∉ reg.encoders) (fn : Option Str) (t : Str) (fallback c : Cti)
    (h1 : (resolveEncoderType reg fn t).getD fallback = c) (hc : c ∈ reg.encoders) :
    openEncoderType reg fn t fallback = some c :=
  Proofs.C18.openEncoderType_stable hs hne fn t fallback c h1 hc

/-! ## The regenerated registry -/

open Gen.RegistryFacts in
/-- The registry `rdfkit` uses, as regenerated on this run: keys unique; every alias / media type / extension
    names a registered type; no alias shadows an identifier; extension keys have the documented shape and are
    suffix-consistent; the alias `x` and the extension `.x` agree. -/
theorem registry_unambiguous : RegistryOK registry where
  alias_keys := by decide
  media_keys := by decide
  ext_keys := by decide
  decoders_nodup := by decide
  encoders_nodup := by decide
  targets := by decide
  shadow_dec := by decide
  shadow_enc := by decide
  ext_shape := by decide
  media_lower := by decide
  ext_suffix := by decide
  stem := by decide

/-- The other generated tables agree with the registry (kinds listed for every codec, a codec's own extension
    and media type resolve to it, the magic-byte resolvers name the right format on the probe documents, the
    fallback types of `pipecmd` are registered). -/
theorem registry_facts : FactsOK where
  dec_kinds := by decide
  enc_kinds := by decide
  metadata := by decide
  probes := by decide
  fallback_dec := by decide
  fallback_enc := by decide

open Gen.RegistryFacts in
/-- The eight source formats and four target formats of the property are registered with the kinds and
    parameters the harness (and the composition theorems below) assume; `rdfkit pipe` falls back to TriG for
    reading and N-Quads for writing. -/
theorem registry_as_expected :
    decoderKinds = expectedDecoders ∧
    expectedEncoders.all (fun e => encoderKinds.contains e) = true ∧
    pipeDecoderFallback = asc "org.w3.trig" ∧ pipeEncoderFallback = asc "org.w3.n-quads" := by decide

open Gen.RegistryFacts in
/-- For the regenerated registry, type resolution is a function of (type flag, media type, magic answers,
    file name) only. -/
theorem gen_ext_order_irrelevant (ord ord' : List (Str × Cti)) (hp : ord.Perm registry.fileExts)
    (hp' : ord'.Perm registry.fileExts) (rr : ReaderInfo) (t : Str) :
    resolveDecoderType registry ord rr t = resolveDecoderType registry ord' rr t :=
  resolve_ext_order_irrelevant registry (Proofs.C18.suffixConsistent_of_B registry_unambiguous.ext_suffix)
    ord ord' hp hp' rr t

open Gen.RegistryFacts in
/-- … and whatever `rdfkit pipe` resolves for its input is the decoder it opens. -/
theorem gen_open_decoder_stable (ord1 ord2 : List (Str × Cti)) (rr : ReaderInfo) (t : Str) (c : Cti)
    (h1 : (resolveDecoderType registry ord1 rr t).getD pipeDecoderFallback = c) (hc : c ∈ registry.decoders) :
    openDecoderType registry ord1 ord2 rr t pipeDecoderFallback = some c :=
  open_decoder_stable registry registry_unambiguous.shadow_dec (by decide) ord1 ord2 rr t _ c h1 hc

open Gen.RegistryFacts in
theorem gen_open_encoder_stable (fn : Option Str) (t : Str) (c : Cti)
    (h1 : (resolveEncoderType registry fn t).getD pipeEncoderFallback = c) (hc : c ∈ registry.encoders) :
    openEncoderType registry fn t pipeEncoderFallback = some c :=
  open_encoder_stable registry registry_unambiguous.shadow_enc (by decide) fn t _ c h1 hc

open Gen.RegistryFacts in
/-- Non-vacuity / illustration on the regenerated registry: `--in-type nq` on a file called `x.ttl` whose
    bytes the RDF/JSON resolver claims is read as N-Quads; without the flag the magic answer wins over the
    extension; without either the extension decides; nothing at all ⇒ the TriG fallback. -/
example :
    let rr : ReaderInfo := { mediaType := none, magic := some [some (asc "org.w3.rdf-json"), none, none, none, none],
                             fileName := some (asc "x.ttl") }
    resolveDecoderType registry registry.fileExts rr (asc "nq") = some (asc "org.w3.n-quads") ∧
    resolveDecoderType registry registry.fileExts rr [] = some (asc "org.w3.rdf-json") ∧
    resolveDecoderType registry registry.fileExts { rr with magic := none } [] = some (asc "org.w3.turtle") ∧
    openDecoderType registry registry.fileExts registry.fileExts
      { mediaType := none, magic := none, fileName := some (asc "stdin") } [] pipeDecoderFallback = some (asc "org.w3.trig") ∧
    resolveEncoderType registry (some (asc "out.NT")) [] = none ∧
    resolveEncoderType registry (some (asc "out.nt")) [] = some (asc "org.w3.n-triples") := by decide

/-! ## Blank-node labels -/

/-- One source blank node never gets two labels and two source blank nodes never share one.
    `s` is any state satisfying C14's invariant (every reachable state does: `Proofs.C14.inv_init`,
    `step_inv`), `j` the decoder's string factory, `qs` the statements in the order the encoder asks for
    labels. The provider that `PropagateDecoderPipeBlankNodeStringProvider` installs labels every occurrence of a
    node `n` with `σ n` for one function `σ` (a labelled node keeps its label; any other node gets the text of
    a UUID), and `σ` is injective on the nodes that occur — provided UUID texts are pairwise distinct (`hU`,
    crypto/rand) and no label of the source document is the text of a UUID drawn in this process (`hcol`;
    see `C14.passthrough_collision_uuid` for why this cannot be dropped). -/
theorem pipe_labels_injective (U : Nat → Bytes) (hU : Function.Injective U) (s : State) (hI : C14.Inv s)
    (j : Nat) (hj : j < s.strfs.length) (qs : List (Quad Node))
    (hcol : ∀ v, some (.bnString j v) ∈ nodesOf qs → ∀ k, v ≠ U k) :
    ∃ (p : ProvRef) (s1 : State) (σ : Node → Bytes),
      pipeProvider U s (some (.strf j)) = (s1, some p) ∧
      (labelQuads U p s1 qs).2 = some (qs.map (Quad.map σ)) ∧
      (∀ n ∈ nodesOf qs, ∀ m ∈ nodesOf qs, σ n = σ m → n = m) ∧
      (∀ v, σ (some (.bnString j v)) = v) ∧
      (∀ n ∈ nodesOf qs, (∃ v, n = some (.bnString j v)) ∨ ∃ k, σ n = U k) :=
  Proofs.C18.pipe_labels U hU s hI j hj qs hcol

/-! ## A triples-only target -/

/-- The property as stated: a triples-only target receives the dataset *restricted to the default graph*. -/
def pipe_triples_restricts_default_graph : Prop :=
  ∀ (β : Type) (src : Kind) (decoded : List (Quad β)),
    pipeStatements src .triples decoded = (defaultGraph (getQuadsDecoder src decoded)).map quadAsTriple

/-- What the code does instead (D20): `QuadAsTripleEncoder` hands every statement to the triples encoder with
    its graph name dropped — the output is the union of all graphs. -/
theorem pipe_triples_writes_all_graphs {β : Type} (src : Kind) (decoded : List (Quad β)) :
    pipeStatements src .triples decoded = decoded.map quadAsTriple :=
  Proofs.C18.pipeStatements_triples src decoded

/-- Witness: one statement in the named graph `<g>` reaches an N-Triples / Turtle / RDF-JSON target. -/
theorem pipe_triples_restricts_default_graph_false : ¬ pipe_triples_restricts_default_graph := by
  intro h
  have := h Unit .quads [⟨.iri [97], .iri [112], .iri [98], some (.iri [103])⟩]
  simp [pipeStatements, getQuadsDecoder, getQuadsEncoder, defaultGraph] at this

/-- Proved part: the stated behaviour holds when the source dataset has no named graph — in particular for
    every triples source (N-Triples, Turtle, RDF/XML, RDF/JSON). Missing for the full statement: nothing can be
    proved for a quads source with named graphs (the witness above). -/
theorem pipe_triples_restricts_default_graph_partial {β : Type} (src : Kind) (decoded : List (Quad β))
    (h : src = .triples ∨ ∀ q ∈ decoded, q.g = none) :
    pipeStatements src .triples decoded = (defaultGraph (getQuadsDecoder src decoded)).map quadAsTriple := by
  rw [pipe_triples_writes_all_graphs]
  have hall : ∀ q ∈ getQuadsDecoder src decoded, q.g.isNone = true := by
    intro q hq
    cases src with
    | triples =>
      simp only [getQuadsDecoder, List.mem_map] at hq
      obtain ⟨q0, _, rfl⟩ := hq
      rfl
    | quads =>
      rcases h with h | h
      · cases h
      · simp [getQuadsDecoder] at hq; simp [h q hq]
  rw [defaultGraph, List.filter_eq_self.mpr hall]
  cases src <;> simp [getQuadsDecoder, quadAsTriple, tripleAsQuad, Function.comp_def]

/-! ## Composition: the pipe into N-Quads / N-Triples preserves the dataset -/

/-- `rdfkit pipe` into **N-Quads**.
    GIVEN that the source decoder yields the statements `qs` over the blank nodes `β` of the dataset
    (`node` embeds them into Go values of the decoder's string factory `j`; `src` says whether it is a triples
    or a quads decoder) — the source decoders themselves are outside this theorem —
    the pipe succeeds, and decoding its output with the N-Quads decoder yields exactly the statements the
    source decoder yielded (a triples source in the default graph), blank nodes renamed by an injective `σ`:
    the output dataset is isomorphic to the source dataset (`C01.relabel_injective`).
    Hypotheses: C01's (`TablesOK` — proved for the regenerated tables —, well-formed statements), C14's
    invariant, pairwise distinct well-formed UUID texts, every node of `β` occurs, source labels are
    well-formed N-Quads labels and are not UUID texts drawn by this process. -/
theorem pipe_nq_preserves {β : Type} (T : Tables) (hT : TablesOK T) (urlOk : List Nat → Bool) (ascii : Bool)
    (U : Nat → Bytes) (hU : Function.Injective U) (hUok : ∀ k, labelOK T (U k) = true)
    (s : State) (hI : C14.Inv s) (j : Nat) (hj : j < s.strfs.length)
    (node : β → Node) (hnode : Function.Injective node) (src : Kind) (qs : List (Quad β))
    (hocc : ∀ b, b ∈ nodesOf (getQuadsDecoder src qs))
    (hscope : ∀ b v, node b = some (.bnString j v) → labelOK T v = true ∧ ∀ k, v ≠ U k)
    (hwf : ∀ q ∈ qs, WFQuad urlOk q) :
    ∃ σ : β → List Nat, Function.Injective σ ∧ ∃ doc,
      pipeNQ T ascii true U s (some (.strf j)) src (qs.map (Quad.map node)) = .ok doc ∧
      run T urlOk .eof true doc = ((getQuadsDecoder src qs).map (Quad.map σ), .clean) := by
  have hps : pipeStatements src .quads qs = getQuadsDecoder src qs := by
    simp [pipeStatements, Proofs.C18.getQuadsEncoder_quads]
  obtain ⟨σ, hl, hdoc⟩ := Proofs.C18.pipe_writes T urlOk ascii true U hU hUok s hI j hj node hnode src qs
    (by simpa [hps] using hocc) hscope hwf
  refine ⟨σ, hl.inj, _, hdoc, ?_⟩
  simp only [if_true, hps]
  have hwf' := Proofs.C18.wf_pipeStatements urlOk src .quads qs hwf
  rw [hps] at hwf'
  exact nquads_roundtrip T hT urlOk ascii σ hl _ hwf'

/-- `rdfkit pipe` into **N-Triples**: as above; the output is the source statements with their graph names
    dropped (all graphs merged — D20 — which is the default graph when the source has no named graph:
    `pipe_triples_restricts_default_graph_partial`). Blank nodes that occur only as graph names are never
    labelled, hence `hocc` ranges over the triples. -/
theorem pipe_nt_preserves {β : Type} (T : Tables) (hT : TablesOK T) (urlOk : List Nat → Bool) (ascii : Bool)
    (U : Nat → Bytes) (hU : Function.Injective U) (hUok : ∀ k, labelOK T (U k) = true)
    (s : State) (hI : C14.Inv s) (j : Nat) (hj : j < s.strfs.length)
    (node : β → Node) (hnode : Function.Injective node) (src : Kind) (qs : List (Quad β))
    (hocc : ∀ b, b ∈ nodesOf (qs.map quadAsTriple))
    (hscope : ∀ b v, node b = some (.bnString j v) → labelOK T v = true ∧ ∀ k, v ≠ U k)
    (hwf : ∀ q ∈ qs, WFQuad urlOk q) :
    ∃ σ : β → List Nat, Function.Injective σ ∧ ∃ doc,
      pipeNQ T ascii false U s (some (.strf j)) src (qs.map (Quad.map node)) = .ok doc ∧
      run T urlOk .eof false doc = ((qs.map quadAsTriple).map (Quad.map σ), .clean) := by
  have hps : pipeStatements src .triples qs = qs.map quadAsTriple := Proofs.C18.pipeStatements_triples src qs
  obtain ⟨σ, hl, hdoc⟩ := Proofs.C18.pipe_writes T urlOk ascii false U hU hUok s hI j hj node hnode src qs
    (by simpa [hps] using hocc) hscope hwf
  refine ⟨σ, hl.inj, _, hdoc, ?_⟩
  simp only [Bool.false_eq_true, if_false, hps]
  have hwf' := Proofs.C18.wf_pipeStatements urlOk src .triples qs hwf
  rw [hps] at hwf'
  rw [ntriples_roundtrip T hT urlOk ascii σ hl _ hwf']
  congr 1
  apply List.map_congr_left
  intro q hq
  obtain ⟨q0, _, rfl⟩ := List.mem_map.mp hq
  rfl

/-! ## Composition for the targets whose round trip is proved elsewhere (Turtle, RDF/JSON) -/

/-- Statement over an abstract `Codec`: for every codec that round-trips on well-labelled input, the pipe
    preserves. (The statements for the REAL Turtle and RDF/JSON codecs — `Model.TurtleEncoder` / `Model.TurtleDoc`,
    `Model.RdfJson` — are `pipe_preserves_ttl_plain`, `pipe_preserves_ttl_resources(_partial)` and
    `pipe_preserves_rdfjson` in `Props/C18Targets.lean`.) -/
def pipe_codec_preserves (c : Codec) (P : List (Quad (List Nat)) → Prop) : Prop :=
  RoundTrips c P →
  ∀ (U : Nat → Bytes), Function.Injective U → ∀ (s : State), C14.Inv s → ∀ (j : Nat), j < s.strfs.length →
  ∀ (src : Kind) (decoded : List (Quad Node)),
    (∀ v, some (.bnString j v) ∈ nodesOf (pipeStatements src .triples decoded) → ∀ k, v ≠ U k) →
    (∀ σ : Node → Bytes, (∀ v, σ (some (.bnString j v)) = v) →
      (∀ n ∈ nodesOf (pipeStatements src .triples decoded), (∃ v, n = some (.bnString j v)) ∨ ∃ k, σ n = U k) →
      P ((pipeStatements src .triples decoded).map (Quad.map σ))) →
    ∃ (p : ProvRef) (s1 : State) (σ : Node → Bytes) (doc : List Nat) (out : List (Quad (List Nat))),
      pipeProvider U s (some (.strf j)) = (s1, some p) ∧
      (labelQuads U p s1 (pipeStatements src .triples decoded)).2 = some ((decoded.map quadAsTriple).map (Quad.map σ)) ∧
      (∀ n ∈ nodesOf (decoded.map quadAsTriple), ∀ m ∈ nodesOf (decoded.map quadAsTriple), σ n = σ m → n = m) ∧
      c.encode ((decoded.map quadAsTriple).map (Quad.map σ)) = some doc ∧
      c.decode doc = some out ∧
      IsoSets out ((decoded.map quadAsTriple).map (Quad.map σ))

/-- Proved for every abstract codec: GIVEN the target's round trip (`RoundTrips c P`, an explicit hypothesis;
    for the real Turtle / RDF-JSON codecs it is discharged in `Props/C18Targets.lean`) the pipe writes
    a document that decodes to the source statements (graph names dropped) up to an injective relabelling.
    PARTIAL because (a) the hypothesis is not discharged here, (b) labels are requested in statement order
    (subject, object), whereas the buffered / resources modes of the Turtle encoder and the RDF/JSON encoder ask
    in their own order — the conclusion about `σ` does not depend on the order, but that is argued, not proved —,
    (c) `iris.useBase` / `iris.usePrefix` only change how IRIs are written and are part of the codec hypothesis. -/
theorem pipe_codec_preserves_partial (c : Codec) (P : List (Quad (List Nat)) → Prop) : pipe_codec_preserves c P := by
  intro hrt U hU s hI j hj src decoded hcol hP
  obtain ⟨p, s1, σ, hprov, hlab, hinj, hown, hU'⟩ :=
    Proofs.C18.pipe_labels U hU s hI j hj (pipeStatements src .triples decoded) hcol
  have hps : pipeStatements src .triples decoded = decoded.map quadAsTriple :=
    Proofs.C18.pipeStatements_triples src decoded
  obtain ⟨doc, out, henc, hdec, hiso⟩ := hrt _ (hP σ hown hU')
  rw [hps] at hlab hinj henc hiso
  exact ⟨p, s1, σ, doc, out, hprov, by rw [hps]; exact hlab, hinj, henc, hdec, hiso⟩

/-- Turtle target (`--out-type ttl`, any of buffered / resources / iris.useBase / iris.usePrefix): instance of
    the above for whatever codec model C02 provides. -/
theorem pipe_ttl_preserves_partial (turtle : Codec) (P : List (Quad (List Nat)) → Prop) :
    pipe_codec_preserves turtle P := pipe_codec_preserves_partial turtle P

/-- RDF/JSON target (`--out-type rj`): instance for the codec of `Model.RdfJson` (C01RJ). -/
theorem pipe_rdfjson_preserves_partial (rdfjson : Codec) (P : List (Quad (List Nat)) → Prop) :
    pipe_codec_preserves rdfjson P := pipe_codec_preserves_partial rdfjson P

/-! ## Non-vacuity: concrete objects satisfying the hypotheses -/

namespace Witness

/-- process state after `blanknodes.NewStringFactory()` (the decoder's factory is `strf 0`) -/
def s0 : State := (step driverU (init 0) .newStringFactory).1

theorem s0_inv : C14.Inv s0 := Proofs.C14.step_inv driverU (Proofs.C14.inv_init 0) .newStringFactory

/-- a Turtle-like source: the labelled node `_:x` and two anonymous nodes, `_:x` and one anonymous node
    occurring twice, one of them as a graph name -/
def stmts : List (Quad Node) :=
  [ ⟨.bnode (some (.bnString 0 (BN.asc "x"))), .iri (RdfModel.asc "http://e/p"), .bnode (some (.bn 0 1)), none⟩,
    ⟨.bnode (some (.bn 0 2)), .iri (RdfModel.asc "http://e/p"), .bnode (some (.bnString 0 (BN.asc "x"))),
      some (.bnode (some (.bn 0 1)))⟩ ]

theorem driverU_head (k : Nat) : (driverU k).head? = some 60 := by
  have : BN.asc "<U" = [60, 85] := by decide
  simp [driverU, this]

theorem stmts_hcol : ∀ v, some (.bnString 0 v) ∈ nodesOf stmts → ∀ k, v ≠ driverU k := by
  intro v hv k h
  have hx : v = BN.asc "x" := by
    simp [stmts, nodesOf, quadNodes, termNodes] at hv
    exact hv
  have h1 := driverU_head k
  rw [← h, hx] at h1
  revert h1; decide

/-- the hypotheses of `pipe_labels_injective` hold for `driverU`, `s0`, factory 0, `stmts` … -/
example : Function.Injective driverU ∧ C14.Inv s0 ∧ 0 < s0.strfs.length ∧
    (∀ v, some (.bnString 0 v) ∈ nodesOf stmts → ∀ k, v ≠ driverU k) :=
  ⟨Proofs.C14.driverU_inj, s0_inv, by decide, stmts_hcol⟩

/-- … and this is what the model (and the driver) computes: `_:x` keeps its label, the anonymous nodes get the
    first and second UUID of the process, consistently. -/
example :
    (pipeProvider driverU s0 (some (.strf 0))).2 = some (.pass 0 (.uuid 0)) ∧
    (labelQuads driverU (.pass 0 (.uuid 0)) (pipeProvider driverU s0 (some (.strf 0))).1 stmts).2 =
      some [ ⟨.bnode (BN.asc "x"), .iri (RdfModel.asc "http://e/p"), .bnode (BN.asc "<U0>"), none⟩,
             ⟨.bnode (BN.asc "<U1>"), .iri (RdfModel.asc "http://e/p"), .bnode (BN.asc "x"), some (.bnode (BN.asc "<U0>"))⟩ ] := by
  decide

/-- UUID texts for the composition theorems: `u`, `uu`, `uuu`, … (pairwise distinct, well-formed labels) -/
def U (k : Nat) : Bytes := List.replicate (k + 1) 0x75

theorem U_inj : Function.Injective U := by
  intro a b h
  have := congrArg List.length h
  simp [U] at this
  exact this

theorem U_ok (k : Nat) : labelOK Gen.nquads (U k) = true := by
  have h1 : inRanges Gen.nquads.pnCharsU 0x75 = true := by decide
  have h2 : inRanges Gen.nquads.pnChars 0x75 = true := by decide
  simp only [U, List.replicate_succ, labelOK, h1, Bool.true_or, Bool.true_and, Bool.and_eq_true, List.all_eq_true]
  refine ⟨fun x hx => ?_, ?_⟩
  · rw [List.eq_of_mem_replicate hx]; simp [h2]
  · cases hk : (List.replicate k 0x75).getLast? with
    | none => rfl
    | some z =>
      have hz : z ∈ List.replicate k 0x75 := List.mem_of_getLast? hk
      simp only
      rw [List.eq_of_mem_replicate hz]; exact h2

/-- the source dataset over its two blank nodes; node 0 is `_:x`, node 1 is anonymous -/
def node : Fin 2 → Node
  | 0 => some (.bnString 0 (BN.asc "x"))
  | 1 => some (.bn 0 1)

def p : Term (Fin 2) := .iri (RdfModel.asc "http://example.org/p")

def quads : List (Quad (Fin 2)) :=
  [ ⟨.bnode 0, p, .lit [0x61, 0x22, 0x0a, 0xe9] xsdString none, some (.iri (RdfModel.asc "http://example.org/g"))⟩,
    ⟨.bnode 1, p, .bnode 0, some (.bnode 1)⟩ ]

theorem node_inj : Function.Injective node := by
  intro a b h
  match a, b with
  | 0, 0 => rfl
  | 1, 1 => rfl
  | 0, 1 => simp [node] at h
  | 1, 0 => simp [node] at h

theorem quads_wf : ∀ q ∈ quads, WFQuad (fun _ => true) q := by
  intro q hq
  simp only [quads, List.mem_cons, List.not_mem_nil, or_false] at hq
  rcases hq with rfl | rfl
  · exact ⟨trivial, ⟨C01.Witness.scalars _ (by decide), rfl⟩,
      ⟨C01.Witness.scalars _ (by decide), ⟨C01.Witness.scalars _ (by decide), rfl⟩, by decide⟩,
      fun g hg => by cases hg; exact ⟨C01.Witness.scalars _ (by decide), rfl⟩⟩
  · exact ⟨trivial, ⟨C01.Witness.scalars _ (by decide), rfl⟩, trivial, fun g hg => by cases hg; trivial⟩

theorem quads_scope : ∀ b v, node b = some (.bnString 0 v) → labelOK Gen.nquads v = true ∧ ∀ k, v ≠ U k := by
  intro b v h
  match b with
  | 0 =>
    simp only [node, Option.some.injEq, Ident.bnString.injEq, true_and] at h
    subst h
    refine ⟨by decide, fun k hk => ?_⟩
    have := congrArg List.head? hk
    simp [U, List.replicate_succ] at this
    revert this; decide
  | 1 => simp [node] at h

/-- the hypotheses of `pipe_nq_preserves` hold at the regenerated N-Quads tables for this dataset (quads source) -/
example : TablesOK Gen.nquads ∧ Function.Injective U ∧ (∀ k, labelOK Gen.nquads (U k) = true) ∧ C14.Inv s0 ∧
    0 < s0.strfs.length ∧ Function.Injective node ∧ (∀ b, b ∈ nodesOf (getQuadsDecoder .quads quads)) ∧
    (∀ b v, node b = some (.bnString 0 v) → labelOK Gen.nquads v = true ∧ ∀ k, v ≠ U k) ∧
    (∀ q ∈ quads, WFQuad (fun _ => true) q) :=
  ⟨gen_nquads_ok, U_inj, U_ok, s0_inv, by decide, node_inj, by decide, quads_scope, quads_wf⟩

/-- The theorem instantiated: the pipe of the witness dataset into N-Quads round-trips. -/
theorem nq_roundtrip (ascii : Bool) :
    ∃ σ : Fin 2 → List Nat, Function.Injective σ ∧ ∃ doc,
      pipeNQ Gen.nquads ascii true U s0 (some (.strf 0)) .quads (quads.map (Quad.map node)) = .ok doc ∧
      run Gen.nquads (fun _ => true) .eof true doc = (quads.map (Quad.map σ), .clean) :=
  pipe_nq_preserves Gen.nquads gen_nquads_ok _ ascii U U_inj U_ok s0 s0_inv 0 (by decide) node node_inj .quads quads
    (by decide) quads_scope quads_wf

/-- a trivial codec (identity encoding of the statement list) round-trips: `RoundTrips` is satisfiable -/
example : RoundTrips { encode := fun qs => some (qs.flatMap (fun _ => [0])), decode := fun _ => some [] }
    (fun qs => qs = []) := by
  intro qs h
  subst h
  exact ⟨[], [], rfl, rfl, id, by intro a ha; simp [nodesOf] at ha, by simp⟩

end Witness

/-! ## Detection by file extension is overridden by magic bytes (finding `magic-overrides-extension`) -/

/-- FULL statement of "type given by file extension": with no explicit type and no media type, a file whose name
    carries a registered extension is read as the type that extension names. -/
def extension_decides : Prop :=
  ∀ (reg : Registry) (ord : List (Str × Cti)) (rr : ReaderInfo) (c : Cti),
    rr.mediaType = none → resolveByExt ord rr = some c → resolveDecoderType reg ord rr [] = some c

open Gen.RegistryFacts in
/-- Witness on the regenerated registry: `lit.nt`, whose first bytes the lax HTML resolver (the fifth) claims —
    e.g. the N-Triples line `<a:a> <a:p> "<div itemscope>x</div>" .` — is read as HTML (and converts to the empty
    dataset; replayed on the binary by the harness, class `magic-overrides-extension`). -/
theorem extension_decides_witness :
    let rr : ReaderInfo := { mediaType := none, magic := some [none, none, none, none, some (asc "public.html")],
                             fileName := some (asc "lit.nt") }
    resolveByExt registry.fileExts rr = some (asc "org.w3.n-triples") ∧
    resolveDecoderType registry registry.fileExts rr [] = some (asc "public.html") := by decide

theorem extension_decides_false : ¬ extension_decides := by
  intro h
  have hw := extension_decides_witness
  have := h Gen.RegistryFacts.registry Gen.RegistryFacts.registry.fileExts _ _ rfl hw.1
  rw [hw.2] at this
  revert this; decide

/-- Proved part: the extension decides when no magic-byte resolver answers. Missing for the full statement:
    nothing (it is false, by the priority order the code implements: `resolve_priority`). -/
theorem extension_decides_partial (reg : Registry) (ord : List (Str × Cti)) (rr : ReaderInfo) (c : Cti)
    (hm : rr.mediaType = none) (hg : resolveByMagic rr = none) (he : resolveByExt ord rr = some c) :
    resolveDecoderType reg ord rr [] = some c := by
  have h0 : resolveByType reg.aliases reg.decoders [] = none := Proofs.C18.resolveByType_empty _ _
  have h1 : resolveByMedia reg.mediaTypes rr = none := by simp [resolveByMedia, hm]
  rw [Proofs.C18.resolveDecoderType_of_ext h0 h1 hg, he]

/-! ## Labels are handed through verbatim (finding `label-not-valid-in-target`) -/

/-- Witness for why `pipe_nq_preserves` needs `labelOK` of the source labels: the label `a b` (admitted by the
    RDF/JSON and JSON-LD decoders) is written verbatim and the N-Quads decoder does not read the output back. -/
theorem invalid_label_witness :
    ∃ doc, pipeNQ Gen.nquads false true driverU Witness.s0 (some (.strf 0)) .quads
        [⟨.bnode (some (.bnString 0 [97, 32, 98])), .iri (RdfModel.asc "a:p"), .iri (RdfModel.asc "a:o"), none⟩] = .ok doc ∧
      (run Gen.nquads (fun _ => true) .eof true doc).2 ≠ .clean := by
  refine ⟨RdfModel.asc "_:a b <a:p> <a:o> .\n", by decide, by decide⟩

end RdfModel.C18
