/-
  Proofs/C11MdTerm — the depth budget `fuelFor doc` of Model/MicrodataDecoder.walk is never exhausted and the
  itemtype panic is unreachable (part C11MD, property C05 for the Microdata decoder).

  The argument is the visited-set discipline of the Go code: an element with `itemscope` is entered into
  `ResolvedItemscopes` BEFORE its `itemref`s are followed, and an element found there is not expanded again.  So
  along any chain of nested `walk` calls the items whose itemrefs are being followed are pairwise different, and
  between two itemref jumps the chain only descends the tree.
-/
import RdfModel.Proofs.C11MdBasic
namespace RdfModel.Mdd
open RdfModel RdfModel.Desc

def lookupR (r : List (Nat × Subj)) (id : Nat) : Option Subj :=
  match r.find? (fun e => e.1 == id) with
  | some e => some e.2
  | none => none

theorem lookup_eq (st : St) (id : Nat) : st.lookup id = lookupR st.resolved id := rfl

theorem lookupR_cons (i : Nat) (s : Subj) (r : List (Nat × Subj)) (j : Nat) :
    lookupR ((i, s) :: r) j = if i = j then some s else lookupR r j := by
  unfold lookupR
  simp only [List.find?_cons]
  by_cases h : i = j
  · simp [h]
  · have : (i == j) = false := by simpa using h
    simp [this, h]

/-- number of nodes of the document whose identity is not yet in ResolvedItemscopes -/
def unresR (doc : Node) (r : List (Nat × Subj)) : Nat :=
  ((subnodes doc).filter (fun m => (lookupR r m.id).isNone)).length

theorem filter_len_le {α : Type} (l : List α) (p q : α → Bool) (hqp : ∀ x, q x = true → p x = true) :
    (l.filter q).length ≤ (l.filter p).length := by
  induction l with
  | nil => simp
  | cons y ys ih =>
    simp only [List.filter_cons]
    cases hq : q y <;> cases hp : p y
    · simpa using ih
    · simp; omega
    · have := hqp y hq; simp [hp] at this
    · simpa using ih

theorem filter_len_lt {α : Type} (l : List α) (p q : α → Bool) (hqp : ∀ x, q x = true → p x = true)
    (n : α) (hn : n ∈ l) (hpn : p n = true) (hqn : q n = false) :
    (l.filter q).length + 1 ≤ (l.filter p).length := by
  induction l with
  | nil => simp at hn
  | cons x xs ih =>
    simp only [List.mem_cons] at hn
    rcases hn with rfl | hn
    · simp only [List.filter_cons, hpn, hqn, ↓reduceIte, List.length_cons, Bool.false_eq_true]
      exact Nat.succ_le_succ (filter_len_le xs p q hqp)
    · have := ih hn
      simp only [List.filter_cons]
      cases hq : q x <;> cases hp : p x
      · simpa using this
      · simp; omega
      · have := hqp x hq; simp [hp] at this
      · simpa using this

theorem unresR_cons_lt (doc n : Node) (hn : n ∈ subnodes doc) (r : List (Nat × Subj)) (s : Subj)
    (hun : lookupR r n.id = none) : unresR doc ((n.id, s) :: r) + 1 ≤ unresR doc r := by
  unfold unresR
  apply filter_len_lt _ _ _ _ n hn
  · simp [hun]
  · simp [lookupR_cons]
  · intro x hx
    simp only [lookupR_cons] at hx
    split at hx
    · simp at hx
    · exact hx

def unres (doc : Node) (st : St) : Nat := unresR doc st.resolved

/-- the invariant: nothing went wrong so far and at most `U` identities are still unresolved -/
def Good (doc : Node) (U : Nat) (st : St) : Prop := st.bad = none ∧ unres doc st ≤ U

theorem good_skel {doc : Node} {U : Nat} {a b : St} (h : b.skel = a.skel) (g : Good doc U a) : Good doc U b := by
  unfold Good unres at *
  rw [skel_bad h, skel_resolved h]; exact g

theorem good_mono {doc : Node} {U V : Nat} {st : St} (h : U ≤ V) (g : Good doc U st) : Good doc V st :=
  ⟨g.1, Nat.le_trans g.2 h⟩

/-- what the induction over the budget provides for the recursive calls `w` -/
def WGood (w : Ctx → Node → St → St) (doc : Node) (f : Nat) : Prop :=
  ∀ (ctx : Ctx) (n : Node) (st : St) (U : Nat), n ∈ subnodes doc → Good doc U st →
    height n + 1 + U * (height doc + 1) ≤ f → Good doc U (w ctx n st)

theorem kids_good {w : Ctx → Node → St → St} {doc : Node} {f : Nat} (ih : WGood w doc f) (ctx : Ctx) (n : Node) (st : St)
    (U : Nat) (hn : n ∈ subnodes doc) (g : Good doc U st) (hf : height n + U * (height doc + 1) ≤ f) :
    Good doc U (walkKidsWith w ctx n.kids st) := by
  unfold walkKidsWith
  apply foldl_inv (Good doc U) _ _ _ g
  intro s k hk hs
  apply ih ctx k s U (kid_sub hn hk) hs
  have := height_kid hk
  omega

theorem itemrefs_good {w : Ctx → Node → St → St} {doc : Node} {f : Nat} (ih : WGood w doc f) (ctx : Ctx) (n : Node)
    (refs : List Bytes) (st : St) (U : Nat) (g : Good doc U st) (hf : height doc + 1 + U * (height doc + 1) ≤ f) :
    Good doc U (itemrefsWith w doc ctx n refs st) := by
  unfold itemrefsWith
  apply foldl_inv (Good doc U) _ _ _ g
  intro s ref _ hs
  unfold itemrefStep
  split
  · exact hs
  · split
    · exact hs
    · rename_i target ht
      split
      · exact hs
      · split
        · exact hs
        · apply ih _ target { s with copies := s.copies + ctx.recursed.length } U (findId_mem ht) ⟨hs.1, hs.2⟩
          have := height_sub doc target (findId_mem ht)
          omega

theorem expand_good {E : Env} {w : Ctx → Node → St → St} {doc : Node} {f : Nat} (ih : WGood w doc f) (ctx : Ctx) (n : Node)
    (a : ItemAttrs) (next : Subj) (st : St) (U : Nat) (hn : n ∈ subnodes doc) (g : Good doc U st)
    (hun : lookupR st.resolved n.id = none) (hf : height n + U * (height doc + 1) ≤ f) :
    Good doc U (expandItem E w doc ctx n a next st) := by
  unfold expandItem
  simp only
  generalize hR : (if a.itemtype ≠ [] then emitTypes E next (typeTokens a.itemtype) st else ([], st)) = R
  have hsk : R.2.skel = st.skel := by
    rw [← hR]; split
    · exact emitTypes_skel E _ _ st (typeTokens_ne _)
    · rfl
  have g3 : Good doc U R.2 := good_skel hsk g
  have hun' : lookupR R.2.resolved n.id = none := by rw [skel_resolved hsk]; exact hun
  have hlt := unresR_cons_lt doc n hn R.2.resolved next hun'
  have hU : unresR doc R.2.resolved ≤ U := g3.2
  obtain ⟨V, rfl⟩ : ∃ V, U = V + 1 := ⟨U - 1, by omega⟩
  have hmul : (V + 1) * (height doc + 1) = V * (height doc + 1) + (height doc + 1) := Nat.succ_mul _ _
  generalize hS : ({ R.2 with resolved := (n.id, next) :: R.2.resolved, expansions := R.2.expansions + 1 } : St) = S
  have g4 : Good doc V S := by
    rw [← hS]
    refine ⟨g3.1, ?_⟩
    show unresR doc ((n.id, next) :: R.2.resolved) ≤ V
    omega
  have g5 : Good doc V (if a.itemref ≠ [] then
      itemrefsWith w doc { ctx with subj := some next, types := R.1 } n (fields (trimSpace a.itemref)) S else S) := by
    split
    · apply itemrefs_good ih _ n _ _ V g4
      have := height_sub doc n hn
      omega
    · exact g4
  apply good_mono (Nat.le_succ V)
  apply kids_good ih _ n _ V hn g5
  omega

theorem step_good {E : Env} {w : Ctx → Node → St → St} {doc : Node} {f : Nat} (ih : WGood w doc f) :
    WGood (walkStep E w doc) doc (f + 1) := by
  intro ctx n st U hn g hf
  have g0 : Good doc U { st with steps := st.steps + 1 } := ⟨g.1, g.2⟩
  unfold walkStep
  simp only
  generalize hS0 : ({ st with steps := st.steps + 1 } : St) = st0 at g0
  split
  · exact kids_good ih ctx n _ U hn g0 (by omega)
  · split
    · unfold visitItem
      simp only
      have hsub := itemSubject_skel E (scanAttrs n.attrs {}) (st0.lookup n.id) st0
      generalize hR : itemSubject E (scanAttrs n.attrs {}) (st0.lookup n.id) st0 = r at hsub
      have g1 : Good doc U r.2 := by
        refine ⟨?_, ?_⟩
        · rw [hsub.2.2.2.1]; exact g0.1
        · unfold unres; rw [hsub.1]; exact g0.2
      have hk := linkItem_skel E ctx (scanAttrs n.attrs {}) r.1 r.2
      have g2 : Good doc U (linkItem E ctx (scanAttrs n.attrs {}) r.1 r.2) := good_skel hk g1
      split
      · exact g2
      · rename_i hnone
        apply expand_good ih ctx n _ _ _ U hn g2
        · rw [skel_resolved hk, hsub.1]; exact hnone
        · omega
    · exact kids_good ih ctx n _ U hn (good_skel (propElem_skel E ctx n _ _) g0) (by omega)

theorem walk_good (E : Env) (doc : Node) : ∀ f, WGood (walk E doc f) doc f := by
  intro f
  induction f with
  | zero =>
    intro ctx n st U _ _ hf
    omega
  | succ f ih =>
    have := step_good (E := E) ih
    intro ctx n st U hn g hf
    show Good doc U (walkStep E (walk E doc f) doc ctx n st)
    exact this ctx n st U hn g hf

theorem unres_init (doc : Node) : unres doc {} ≤ (subnodes doc).length := by
  unfold unres unresR
  exact List.length_filter_le _ _

/-- the run on any tree (any identities) ends with no failure flag -/
theorem run_bad_none (E : Env) (doc : Node) : (run E doc).bad = none := by
  unfold run fuelFor
  have h := walk_good E doc (((subnodes doc).length + 1) * (height doc + 1)) {} doc {} (subnodes doc).length
    (self_mem doc) ⟨rfl, unres_init doc⟩ (by
      have := Nat.succ_mul (subnodes doc).length (height doc + 1)
      simp only [Nat.succ_eq_add_one] at this
      omega)
  exact h.1

end RdfModel.Mdd
