/-
  RdfModel.Proofs.IriUnifyAccept — the acceptance model of `net/url.Parse` (Model/GoUrl.lean) agrees with the
  acceptance read off the full model (Model/GoUrlFull.lean) on every input the full model covers
  (everything but `PErr.unmodelled`: '%' inside an IP literal).
-/
import RdfModel.Model.IriUnify
namespace RdfModel.Proofs.IriUnify
open RdfModel RdfModel.GoUrlFull

/-- the result is a success -/
def okE {α : Type} : Except PErr α → Bool
  | .ok _ => true
  | .error _ => false

/-- the result is the `unmodelled` refusal -/
def unm {α : Type} : Except PErr α → Bool
  | .error .unmodelled => true
  | _ => false

/-! ### 1. helpers that are literally the same function -/

theorem cut_eq (sep : Nat) (s : List Nat) : GoUrl.cut sep s = GoUrlFull.cut sep s := by
  induction s with
  | nil => rfl
  | cons c rest ih =>
    unfold GoUrl.cut GoUrlFull.cut
    rw [ih]

theorem hasCTL_eq (s : List Nat) : GoUrl.hasCTL s = GoUrlFull.hasCTL s := by
  unfold GoUrl.hasCTL GoUrlFull.hasCTL
  congr 1

theorem isDigitC_eq (c : Nat) : GoUrl.isDigitC c = GoUrlFull.isDigitC c := rfl

theorem isHexC_eq (c : Nat) : GoUrl.isHexC c = GoUrlFull.ishex c := rfl

theorem isAlphaC_eq (c : Nat) : GoUrl.isAlphaC c = (isLowerC c || isUpperC c) := rfl

theorem validOptionalPort_eq (s : List Nat) : GoUrl.validOptionalPort s = GoUrlFull.validOptionalPort s := by
  cases s with
  | nil => rfl
  | cons c rest =>
    simp [GoUrl.validOptionalPort, GoUrlFull.validOptionalPort]
    rfl

theorem validUserinfo_eq (s : List Nat) : GoUrl.validUserinfo s = GoUrlFull.validUserinfo s := by
  unfold GoUrl.validUserinfo GoUrlFull.validUserinfo
  congr 1

theorem getSchemeAux_eq (whole s : List Nat) (i : Nat) :
    GoUrl.getSchemeAux whole s i = GoUrlFull.getSchemeAux whole s i := by
  induction s generalizing i with
  | nil => rfl
  | cons c rest ih =>
    unfold GoUrl.getSchemeAux GoUrlFull.getSchemeAux
    simp only [isAlphaC_eq, isDigitC_eq, ih, beq_iff_eq, decide_eq_true_eq, Bool.or_eq_true]

theorem getScheme_eq (s : List Nat) : GoUrl.getScheme s = GoUrlFull.getScheme s :=
  getSchemeAux_eq s s 0

/-! ### 3. `unescape` -/

theorem unm_unescape (mode : Mode) (s : List Nat) : unm (unescape mode s) = false := by
  fun_induction unescape mode s <;> simp_all [unm]

theorem okE_unescape_pct (mode : Mode) (hm : mode ≠ .host) (s : List Nat) :
    okE (unescape mode s) = GoUrl.pctOk s := by
  fun_induction GoUrl.pctOk s with
  | case1 => simp [unescape, okE]
  | case2 a b rest ih =>
    unfold unescape
    simp [hm, isHexC_eq]
    rw [← ih]
    by_cases h : ishex a = true ∧ ishex b = true
    · rw [if_pos h]; cases unescape mode rest <;> simp [okE, h.1, h.2]
    · rw [if_neg h]
      have : (ishex a && ishex b) = false := by simpa using h
      simp [okE, this]
  | case3 tl hx =>
    unfold unescape
    match tl with
    | [] => simp [okE]
    | [_] => simp [okE]
    | a :: b :: r => exact absurd rfl (hx a b r)
  | case4 c rest _ hc ih =>
    unfold unescape
    have hc' : ¬ c = 37 := hc
    simp only [hm, hc', if_false, beq_iff_eq, false_and, Bool.false_and]
    rw [← ih]
    cases unescape mode rest <;> simp [okE]

end RdfModel.Proofs.IriUnify
