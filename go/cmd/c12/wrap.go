package main

// Part C12W ("-part wrap"): T3 correspondence of the real iri.ParsedIRI (on top of the real net/url) with the
// executable Lean model Model/ParsedIRI.lean on top of Model/GoUrlFull.lean (driver component `piri`).
// The model must reproduce the code EXACTLY — String(), the private flags and every field of the wrapped
// url.URL — on every input, including the inputs of the 16 classes on which both deviate from RFC 3986.
// The only tolerated difference: the model answers `unmodelled` for IP literals with a zone / escape
// ('%' between '[' and ']'); exactly those inputs are skipped, and counted.
//
//	piri.parse <s>                 ParseIRI(s)
//	piri.resolve <base> <ref>      ParseIRI(base).Parse(ref)
//	piri.chain <base> <ref>...     re-basing history on one ParsedIRI, every step
//	piri.base <s>                  NewBaseIRI(ParseIRI(s)): the five indices
//	piri.class <p|r> <a> <b>       the known-deviation class predicates, Go (classes.go) vs Lean (C12Defs.classes)
//	piri.hyp <p|r> <a> <b>         (no Go side) is the input inside the sub-language of the theorems? counted only

import (
	"errors"
	"fmt"
	"net/url"
	"strings"

	"verifharness/vh"

	"github.com/dpb587/rdfkit-go/iri"
)

func errClass(err error) string {
	var ue *url.Error
	if errors.As(err, &ue) {
		err = ue.Err
	}
	var ee url.EscapeError
	if errors.As(err, &ee) {
		return "escape"
	}
	var he url.InvalidHostError
	if errors.As(err, &he) {
		return "hostchar"
	}
	m := err.Error()
	switch {
	case m == "net/url: invalid control character in URL":
		return "ctl"
	case m == "missing protocol scheme":
		return "scheme"
	case m == "first path segment in URL cannot contain colon":
		return "colon"
	case strings.HasPrefix(m, "invalid port "):
		return "port"
	case m == "missing ']' in host":
		return "bracket"
	case strings.HasPrefix(m, "invalid host: "), m == "invalid IP-literal":
		return "ip"
	case m == "net/url: invalid userinfo":
		return "userinfo"
	}
	return "other:" + m
}

func wState(p *iri.ParsedIRI) string {
	u := p.URL()
	ff, opq := iri.VerifFlags(p)
	user := "-"
	if u.User != nil {
		pw, set := u.User.Password()
		user = vh.XS(u.User.Username()) + ":" + vh.XS(pw) + ":" + vh.B01(set)
	}
	return strings.Join([]string{vh.XS(p.String()), vh.B01(ff), vh.B01(opq), vh.XS(u.Scheme), vh.XS(u.Opaque), user,
		vh.XS(u.Host), vh.XS(u.Path), vh.XS(u.RawPath), vh.B01(u.OmitHost), vh.B01(u.ForceQuery), vh.XS(u.RawQuery),
		vh.XS(u.Fragment), vh.XS(u.RawFragment)}, ",")
}

func wParse(s string) (res string) {
	defer func() {
		if recover() != nil {
			res = "panic"
		}
	}()
	p, err := iri.ParseIRI(s)
	if err != nil {
		return "err " + errClass(err)
	}
	return "ok " + wState(p)
}

func wResolve(base, ref string) (res string) {
	defer func() {
		if recover() != nil {
			res = "panic"
		}
	}()
	b, err := iri.ParseIRI(base)
	if err != nil {
		return "err-base " + errClass(err)
	}
	t, err := b.Parse(ref)
	if err != nil {
		return "err-ref " + errClass(err)
	}
	return "ok " + wState(t)
}

func wChain(base string, refs []string) (res string) {
	steps := []string{}
	defer func() {
		if recover() != nil {
			res = strings.Join(append(steps, "panic"), ";")
		}
	}()
	cur, err := iri.ParseIRI(base)
	if err != nil {
		return "err-base " + errClass(err)
	}
	for _, r := range refs {
		next, err := cur.Parse(r)
		if err != nil {
			steps = append(steps, "err-ref "+errClass(err))
			break
		}
		steps = append(steps, "ok "+wState(next))
		cur = next
	}
	return strings.Join(steps, ";")
}

func wBase(s string) (res string) {
	defer func() {
		if recover() != nil {
			res = "panic"
		}
	}()
	b, err := iri.ParseBaseIRI(s)
	if err != nil {
		return "err " + errClass(err)
	}
	ix := b.VerifIndices()
	return fmt.Sprintf("%d,%d,%d,%d,%d", ix[0], ix[1], ix[2], ix[3], ix[4])
}

// mayBeUnmodelled: the only inputs the model declines: an IP literal carrying '%'
func mayBeUnmodelled(ss ...string) bool {
	for _, s := range ss {
		if i := strings.IndexByte(s, '['); i >= 0 && strings.Contains(s[i:], "%") {
			return true
		}
	}
	return false
}

func (g *run) wSingle(s string) {
	got := wParse(s)
	g.add("w-parse", "piri.parse "+vh.XS(s), got, s, "", true)
	g.rep.Count("w-parse:" + outcomeKind(got))
	g.add("w-base", "piri.base "+vh.XS(s), wBase(s), s, "", strings.HasPrefix(got, "ok"))
	g.wClass(true, s, "")
}

func (g *run) wPair(base, ref string) {
	got := wResolve(base, ref)
	g.add("w-resolve", "piri.resolve "+vh.XS(base)+" "+vh.XS(ref), got, base, ref, strings.HasPrefix(got, "ok"))
	g.rep.Count("w-resolve:" + outcomeKind(got))
	g.wClass(false, base, ref)
	g.shape(base, ref)
}

func (g *run) wChain(b0 string, refs []string) {
	toks := []string{vh.XS(b0)}
	for _, r := range refs {
		toks = append(toks, vh.XS(r))
	}
	got := wChain(b0, refs)
	g.add("w-chain", "piri.chain "+strings.Join(toks, " "), got, b0, strings.Join(refs, " "), strings.Count(got, "ok ") > 1)
	g.rep.Count(fmt.Sprintf("w-chain:steps-ok-%d", strings.Count(got, "ok ")))
}

func (g *run) wClass(isParse bool, a, b string) {
	k, op := "r", "iri.resolve"
	if isParse {
		k, op = "p", "iri.parse"
	}
	cls := classify(op, a, b)
	want := strings.Join(cls, ",")
	if want == "" {
		want = "-"
		g.rep.Count("w-class:" + k + ":outside-all-classes")
	} else {
		g.rep.Count("w-class:" + k + ":inside-some-class")
	}
	g.add("w-class", "piri.class "+k+" "+vh.XS(a)+" "+vh.XS(b), want, a, b, want != "-")
	// counted only: how much of the stream lies inside the hypotheses of the C12W theorems
	g.add("w-hyp", "piri.hyp "+k+" "+vh.XS(a)+" "+vh.XS(b), "", a, b, false)
}

func outcomeKind(got string) string {
	f := strings.Fields(got)
	if len(f) == 0 {
		return "empty"
	}
	if f[0] == "ok" || f[0] == "panic" {
		return f[0]
	}
	return strings.Join(f, ":")
}

// wCompare: judgement of one `piri.*` line in flush; returns true when handled
func (g *run) wCompare(it item, model string) bool {
	if !strings.HasPrefix(it.kind, "w-") {
		return false
	}
	if it.kind == "w-hyp" {
		isParse := strings.HasPrefix(it.line, "piri.hyp p ")
		k := "r"
		if isParse {
			k = "p"
		}
		g.rep.Count("w-hyp:" + k + ":" + model)
		if model != "0" && model != "1" {
			g.rep.Add(vh.Case{Kind: "disagreement", Op: it.line, Go: "0|1", Model: model, Detail: "piri.hyp: unexpected answer"})
		}
		if model == "1" {
			// inside the hypotheses of the C12W theorems: the conclusion is evaluated on the CODE (a theorem about
			// the model plus T3 predicts it), and the hypotheses must not meet any known deviation class
			var got, want string
			var cls []string
			if isParse {
				got, want, cls = goParse(it.a), vh.XS(it.a), classify("iri.parse", it.a, "")
			} else {
				got, want, cls = goResolve(it.a, it.b), vh.XS(rfcResolve(it.a, it.b)), classify("iri.resolve", it.a, it.b)
			}
			if got != want {
				g.rep.Add(vh.Case{Kind: "violation", Op: it.line, Go: got, Model: want,
					Detail: fmt.Sprintf("inside the hypothesis of the C12W theorem (%s) but the code gives %s, expected %s: a=%q b=%q", k, show(got), show(want), it.a, it.b)})
			}
			// the class predicates over-approximate (e.g. relative-first-segment-encoded-colon holds on every first
			// segment with %3a, base-empty-query-dropped is repaired): the theorems also cover such inputs; counted
			for _, c := range cls {
				g.rep.Count("w-hyp:" + k + ":1-inside-class:" + c)
			}
		}
		return true
	}
	if model == it.goR {
		return true
	}
	if strings.Contains(model, "unmodelled") {
		if mayBeUnmodelled(it.a, it.b) {
			g.rep.Count("w-unmodelled-skipped:" + it.kind)
			return true
		}
		g.rep.Add(vh.Case{Kind: "disagreement", Op: it.line, Go: it.goR, Model: model, Detail: it.kind + ": the model declined an input that carries no IP literal with '%'"})
		return true
	}
	g.rep.Add(vh.Case{Kind: "disagreement", Op: it.line, Go: it.goR, Model: model,
		Detail: fmt.Sprintf("%s: model of ParsedIRI/net/url differs from the code on a=%q b=%q%s", it.kind, it.a, it.b, firstDiff(it.goR, model))})
	return true
}

var stateFields = []string{"String()", "forceFragment", "isOpaque", "Scheme", "Opaque", "User", "Host", "Path", "RawPath", "OmitHost", "ForceQuery", "RawQuery", "Fragment", "RawFragment"}

func firstDiff(a, b string) string {
	if !strings.HasPrefix(a, "ok ") || !strings.HasPrefix(b, "ok ") || strings.Contains(a, ";") {
		return ""
	}
	fa, fb := strings.Split(a[3:], ","), strings.Split(b[3:], ",")
	for i := range fa {
		if i < len(fb) && i < len(stateFields) && fa[i] != fb[i] {
			return fmt.Sprintf(" (first differing field %s: code %s, model %s)", stateFields[i], show(fa[i]), show(fb[i]))
		}
	}
	return ""
}

// wExhaustive: every string of length <= n over a delimiter-heavy alphabet through piri.parse, and every pair of
// strings of length <= m through piri.resolve: the corners of Parse/String (scheme detection, '?'/'#' cuts,
// ForceQuery, authority, brackets, escapes, the "./" and "//" rules of String).
func (g *run) wExhaustive(n, m int) {
	alpha := []byte("a:/?#.%2@[]*")
	var all func(k int) []string
	all = func(k int) []string {
		res := []string{""}
		cur := []string{""}
		for i := 0; i < k; i++ {
			next := make([]string, 0, len(cur)*len(alpha))
			for _, p := range cur {
				for _, c := range alpha {
					next = append(next, p+string([]byte{c}))
				}
			}
			res = append(res, next...)
			cur = next
		}
		return res
	}
	singles := all(n)
	for _, s := range singles {
		got := wParse(s)
		g.add("w-parse", "piri.parse "+vh.XS(s), got, s, "", true)
		g.rep.Count("w-parse:" + outcomeKind(got))
	}
	short := all(m)
	bases := []string{}
	for _, s := range short {
		bases = append(bases, "x:"+s, "http://h"+s)
	}
	cnt := 0
	for _, b := range append(bases, short...) {
		for _, r := range short {
			got := wResolve(b, r)
			g.add("w-resolve", "piri.resolve "+vh.XS(b)+" "+vh.XS(r), got, b, r, strings.HasPrefix(got, "ok"))
			g.rep.Count("w-resolve:" + outcomeKind(got))
			cnt++
		}
	}
	g.rep.Exhaustive = append(g.rep.Exhaustive, fmt.Sprintf("piri.parse: all %d strings of length <= %d over %q; piri.resolve: %d pairs (base = \"x:\"+s, \"http://h\"+s or s; reference = t; s, t of length <= %d over the same alphabet)", len(singles), n, alpha, cnt, m))
}

// wIPv6: IP literals (the model carries its own rendering of netip.ParseAddr as reached from parseHost):
// structured addresses (groups, one or several "::", embedded IPv4, too many / too few groups, over-long groups)
// and random strings over the alphabet of addresses; with and without port; zones ('%') are generated too and
// land in the counted `unmodelled` bucket.
func (g *run) wIPv6(n int) {
	hexs := []string{"0", "1", "a", "F", "ff", "0db8", "2001", "12345", "g", ""}
	v4s := []string{"1.2.3.4", "192.0.2.1", "256.1.1.1", "1.2.3", "1.2.3.4.5", "01.2.3.4", "1..2.3", "0.0.0.0", "1.2.3.4."}
	alpha := []byte("01fF:.:%2g[]")
	for i := 0; i < n; i++ {
		var h string
		switch g.r.Intn(4) {
		case 0: // random
			k := g.r.Intn(12)
			b := make([]byte, k)
			for j := range b {
				b[j] = alpha[g.r.Intn(len(alpha))]
			}
			h = string(b)
		default:
			k := g.r.Intn(10)
			parts := []string{}
			for j := 0; j < k; j++ {
				parts = append(parts, vh.Pick(g.r, hexs[:8+g.r.Intn(3)]))
			}
			h = strings.Join(parts, ":")
			if g.r.Chance(50) {
				pos := g.r.Intn(len(h) + 1)
				h = h[:pos] + "::" + h[pos:]
			}
			if g.r.Chance(25) {
				if h != "" && !strings.HasSuffix(h, ":") {
					h += ":"
				}
				h += vh.Pick(g.r, v4s)
			}
			if g.r.Chance(4) {
				h += vh.Pick(g.r, []string{"%25en0", "%25", "%en0", "%2541"})
			}
		}
		s := vh.Pick(g.r, []string{"http://", "x://", "//", "http://u@"}) + "[" + h + "]" + vh.Pick(g.r, []string{"", "", ":80", ":", ":x", "x"}) + vh.Pick(g.r, []string{"", "/p", "?q"})
		got := wParse(s)
		g.add("w-parse", "piri.parse "+vh.XS(s), got, s, "", true)
		g.rep.Count("w-ipv6:" + outcomeKind(got))
	}
}
