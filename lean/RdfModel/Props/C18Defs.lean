/-
  Definitions used by the C18 theorems: well-formedness of a registry (decidable, checked on the
  regenerated tables), blank nodes of a statement list, isomorphism up to relabelling, an abstract
  target codec for the composition theorems.
-/
import RdfModel.Model.Pipe
import RdfModel.Gen.RegistryFacts
namespace RdfModel.C18
open RdfModel RdfModel.Pipe

/-! ## Registry facts (all decidable) -/

def keys (m : List (Str × Cti)) : List Str := m.map (·.1)

/-- Whenever one extension is a suffix of another (`.html` / `.xhtml`) both name the same type: the answer of
    the suffix loop in `ResolveDecoderType` then does not depend on Go's map iteration order. -/
def SuffixConsistent (exts : List (Str × Cti)) : Prop :=
  ∀ e1 ∈ exts, ∀ e2 ∈ exts, e1.1 <:+ e2.1 → e1.2 = e2.2

def suffixConsistentB (exts : List (Str × Cti)) : Bool :=
  exts.all (fun e1 => exts.all (fun e2 => !(e1.1.isSuffixOf e2.1) || e1.2 == e2.2))

/-- An extension key as the registry documents it: lower case, a leading dot, no further dot or slash. -/
def extKeyOK (k : Str) : Bool :=
  match k with
  | c :: rest => c == 0x2e && !rest.isEmpty && rest.all (fun x => x != 0x2e && x != 0x2f) && asciiLower k == k
  | [] => false

/-- An alias never shadows the identifier of a *different* registered type (`Aliases[t]` is consulted
    before `managers[t]`). -/
def aliasShadowFree (aliases : List (Str × Cti)) (managers : List Cti) : Bool :=
  managers.all (fun c => match BN.assoc c aliases with | none => true | some c' => c' == c)

structure RegistryOK (reg : Registry) : Prop where
  alias_keys : (keys reg.aliases).Nodup
  media_keys : (keys reg.mediaTypes).Nodup
  ext_keys : (keys reg.fileExts).Nodup
  decoders_nodup : reg.decoders.Nodup
  encoders_nodup : reg.encoders.Nodup
  /-- every alias, media type and extension names a type that has a decoder or an encoder -/
  targets : (reg.aliases ++ reg.mediaTypes ++ reg.fileExts).all
    (fun e => reg.decoders.contains e.2 || reg.encoders.contains e.2) = true
  shadow_dec : aliasShadowFree reg.aliases reg.decoders = true
  shadow_enc : aliasShadowFree reg.aliases reg.encoders = true
  ext_shape : reg.fileExts.all (fun e => extKeyOK e.1) = true
  media_lower : reg.mediaTypes.all (fun e => asciiLower e.1 == e.1) = true
  ext_suffix : suffixConsistentB reg.fileExts = true
  /-- the alias `x` and the extension `.x` name the same type -/
  stem : reg.fileExts.all (fun e => match BN.assoc (e.1.drop 1) reg.aliases with
    | none => true | some c => c == e.2) = true

/-- Facts tying the other generated tables to the registry. -/
structure FactsOK : Prop where
  dec_kinds : Gen.RegistryFacts.decoderKinds.map (·.1) = Gen.RegistryFacts.registry.decoders
  enc_kinds : Gen.RegistryFacts.encoderKinds.map (·.1) = Gen.RegistryFacts.registry.encoders
  /-- a codec's own extension and media type resolve to it (for the types that have an extension at all) -/
  metadata : Gen.RegistryFacts.metadata.all (fun m =>
      !(Gen.RegistryFacts.registry.fileExts.any (fun e => e.2 == m.1)) ||
      (BN.assoc m.2.1 Gen.RegistryFacts.registry.fileExts == some m.1 &&
       BN.assoc m.2.2 Gen.RegistryFacts.registry.mediaTypes == some m.1)) = true
  /-- on every probe document the first resolver that answers names the document's own format -/
  probes : Gen.RegistryFacts.magicProbes.all (fun p =>
      p.2.length == Gen.RegistryFacts.magicResolverCount &&
      (match firstSome p.2 with | none => true | some c => c == p.1)) = true
  fallback_dec : Gen.RegistryFacts.registry.decoders.contains Gen.RegistryFacts.pipeDecoderFallback = true
  fallback_enc : Gen.RegistryFacts.registry.encoders.contains Gen.RegistryFacts.pipeEncoderFallback = true

/-- Hand-written expectation: the eight source formats of the property, with the kind of decoder and
    whether its blank-node factory reaches the encoder (`true`) or the encoder keeps its default provider. -/
def expectedDecoders : List (Cti × Kind × Bool) :=
  [ (asc "org.json-ld.document", .quads, true), (asc "org.w3.n-quads", .quads, true),
    (asc "org.w3.n-triples", .triples, true), (asc "org.w3.rdf-json", .triples, true),
    (asc "org.w3.rdf-xml", .triples, true), (asc "org.w3.trig", .quads, true),
    (asc "org.w3.turtle", .triples, true), (asc "public.html", .quads, false) ]

/-- Hand-written expectation: the four target formats of the property with their parameters. -/
def expectedEncoders : List (Cti × Kind × List Str) :=
  [ (asc "org.w3.n-quads", .quads, [asc "ascii"]),
    (asc "org.w3.n-triples", .triples, [asc "ascii"]),
    (asc "org.w3.rdf-json", .triples, []),
    (asc "org.w3.turtle", .triples, [asc "buffered", asc "iris.useBase", asc "iris.usePrefix", asc "resources"]) ]

/-! ## Blank nodes of statements -/

def termNodes {β : Type} : Term β → List β
  | .bnode b => [b]
  | _ => []

def quadNodes {β : Type} (q : Quad β) : List β :=
  termNodes q.s ++ termNodes q.p ++ termNodes q.o ++ (match q.g with | some g => termNodes g | none => [])

def nodesOf {β : Type} (qs : List (Quad β)) : List β := qs.flatMap quadNodes

/-! ## An abstract target codec (for the targets whose round trip is proved elsewhere) -/

/-- A target format as the pipe uses it: `encode` = the encoder fed the labelled statements one by one and
    closed; `decode` = a decoder of the same format run on the bytes (`none` = an error). Labels are the
    blank-node carrier on both sides. -/
structure Codec where
  encode : List (Quad (List Nat)) → Option (List Nat)
  decode : List Nat → Option (List (Quad (List Nat)))

/-- `out` is `inp` up to a renaming of labels that merges no two labels, as sets of statements. -/
def IsoSets (out inp : List (Quad (List Nat))) : Prop :=
  ∃ ρ : List Nat → List Nat, (∀ a ∈ nodesOf inp, ∀ b ∈ nodesOf inp, ρ a = ρ b → a = b) ∧
    ∀ q, q ∈ out ↔ q ∈ inp.map (Quad.map ρ)

/-- The round-trip property of a codec on statement lists satisfying `P` (what C01 / C02 prove for the
    respective format). -/
def RoundTrips (c : Codec) (P : List (Quad (List Nat)) → Prop) : Prop :=
  ∀ qs, P qs → ∃ doc out, c.encode qs = some doc ∧ c.decode doc = some out ∧ IsoSets out qs

end RdfModel.C18
