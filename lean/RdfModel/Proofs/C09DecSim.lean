/-
  Helper lemmas for Props/C09Dec.lean, part 3: the decoder model run on the token stream of a rendered
  well-formed plan of the LEAF fragment produces exactly the plan's intended triples.
-/
import RdfModel.Model.RdfXmlTokens
import RdfModel.Proofs.C09Round
import RdfModel.Props.C09DecDefs
namespace RdfModel.RXD
open RdfModel RdfModel.Desc RdfModel.RX RdfModel.C09Dec

/-- the parameter instance: total resolution `rs`, every base parses, `render` given -/
def mkP (rs : Str → Str → Str) (render : List Tok → Option Str) : Params :=
  { resolve := fun b v => some (rs b v), parseOK := fun _ => true, render := render }

/-- resolving the empty reference yields no fragment (RFC 3986 §5.2.2: the fragment of the reference) -/
def EmptyRefNoFrag (rs : Str → Str → Str) : Prop := ∀ b, dropFragment (rs b []) = rs b []

/-- the decoder context stands for the environment of the denotation -/
def CtxRel (env : Env) (ctx : Ctx) : Prop := ctx.base = some env.base ∧ ctx.lang = env.lang

/-- a property attribute that the decoder files under `otherAttrList` -/
def PlainAttr (a : Attr) : Prop := a.ns ≠ rdfNS ∧ a.ns ≠ xmlNS ∧ a.ns ≠ xmlnsSpace ∧ a.ns ≠ []

variable {rs : Str → Str → Str} {render : List Tok → Option Str}

theorem resolveIRI_sim (hf : EmptyRefNoFrag rs) {env : Env} {ctx : Ctx} (h : CtxRel env ctx) (v : Str) :
    resolveIRI (mkP rs render) ctx v = .ok (rs env.base v) := by
  unfold resolveIRI
  rw [h.1]
  simp only [mkP]
  split
  · rename_i hv; subst hv; rw [hf]
  · rfl

/-! ### processCommonAttr on `stdAttrs` -/

theorem xmlNS_ne_rdfNS : xmlNS ≠ rdfNS := by decide

theorem commonLoop_rdf (P : Params) (A B : List Attr) (hA : ∀ a ∈ A, a.ns = rdfNS) (ctx : Ctx) (ra oa : List Attr) (st : St) :
    commonLoop P (A ++ B) ctx ra oa st = commonLoop P B ctx (A.reverse ++ ra) oa st := by
  induction A generalizing ra with
  | nil => rfl
  | cons a A ih =>
    have ha : a.ns = rdfNS := hA a (by simp)
    simp only [List.cons_append, commonLoop, ha, if_true]
    rw [ih (fun x hx => hA x (by simp [hx]))]
    simp

theorem commonLoop_plain (P : Params) (B : List Attr) (hB : ∀ a ∈ B, PlainAttr a) (ctx : Ctx) (ra oa : List Attr) (st : St) :
    commonLoop P B ctx ra oa st = .ok ⟨ctx, ra.reverse, oa.reverse ++ B⟩ st := by
  induction B generalizing oa with
  | nil => simp [commonLoop]
  | cons a B ih =>
    obtain ⟨h1, h2, h3, h4⟩ := hB a (by simp)
    simp only [commonLoop, h1, h2, h3, h4, if_false, false_and]
    rw [ih (fun x hx => hB x (by simp [hx]))]
    simp

/-- the rdf: attributes of `stdAttrs i`, in order -/
def rdfPart (i : AttrInfo) : List Attr :=
  optAttr rdfNS n_ID i.id ++ optAttr rdfNS n_about i.about ++ optAttr rdfNS n_nodeID i.nodeID ++
  optAttr rdfNS n_resource i.resource ++ optAttr rdfNS n_datatype i.datatype ++ optAttr rdfNS n_parseType i.parseType

theorem optAttr_ns {ns name : Str} {v : Option Str} {a : Attr} (h : a ∈ optAttr ns name v) : a.ns = ns := by
  cases v with
  | none => simp [optAttr] at h
  | some x => simp only [optAttr, List.mem_singleton] at h; subst h; rfl

theorem rdfPart_ns (i : AttrInfo) : ∀ a ∈ rdfPart i, a.ns = rdfNS := by
  intro a ha
  simp only [rdfPart, List.mem_append] at ha
  rcases ha with ((((ha | ha) | ha) | ha) | ha) | ha <;> exact optAttr_ns ha

/-- `processCommonAttr` on the attribute list of a rendered element -/
theorem pca_std (hf : EmptyRefNoFrag rs) (i : AttrInfo) (hp : ∀ a ∈ i.props, PlainAttr a) {env : Env} {ctx : Ctx}
    (h : CtxRel env ctx) (st : St) :
    ∃ ctx' st', processCommonAttr (mkP rs render) ctx (stdAttrs i) st = .ok ⟨ctx', rdfPart i, i.props⟩ st' ∧
      CtxRel (env.push rs i.base i.lang) ctx' ∧ st'.next = st.next ∧ st'.out = st.out ∧ st'.used = st.used := by
  have tail : ∀ ctx1 st1, commonLoop (mkP rs render) (rdfPart i ++ i.props) ctx1 [] [] st1 =
      .ok ⟨ctx1, rdfPart i, i.props⟩ st1 := by
    intro ctx1 st1
    rw [commonLoop_rdf _ _ _ (rdfPart_ns i), commonLoop_plain _ _ hp]
    simp
  have hstd : stdAttrs i = optAttr xmlNS n_base i.base ++ (optAttr xmlNS n_lang i.lang ++ (rdfPart i ++ i.props)) := by
    simp [stdAttrs, rdfPart, List.append_assoc]
  unfold processCommonAttr
  rw [hstd]
  have hres := fun v => resolveIRI_sim (render := render) hf h v
  have hx := xmlNS_ne_rdfNS
  have hlb : n_lang ≠ n_base := by decide
  cases hb : i.base with
  | none =>
    cases hl : i.lang with
    | none =>
      refine ⟨ctx, st, ?_, ?_, rfl, rfl, rfl⟩
      · simpa [optAttr] using tail ctx st
      · simpa [Env.push, CtxRel] using h
    | some l =>
      refine ⟨{ ctx with lang := if l = [] then none else some l }, st, ?_, ?_, rfl, rfl, rfl⟩
      · simp only [optAttr, List.nil_append, List.cons_append, commonLoop, hx, if_false, if_true]
        exact tail _ _
      · refine ⟨h.1, ?_⟩
        cases l <;> simp [Env.push]
  | some b =>
    cases hl : i.lang with
    | none =>
      refine ⟨{ ctx with base := some (rs env.base b), used := st.maps }, { st with maps := st.maps + 1 }, ?_, ?_, rfl, rfl, rfl⟩
      · simp only [optAttr, List.nil_append, List.cons_append, commonLoop, hx, if_false, if_true, hres, hlb.symm]
        simp only [mkP, if_true]
        exact tail _ _
      · exact ⟨rfl, by simpa [Env.push] using h.2⟩
    | some l =>
      refine ⟨{ ctx with base := some (rs env.base b), used := st.maps, lang := if l = [] then none else some l },
        { st with maps := st.maps + 1 }, ?_, ?_, rfl, rfl, rfl⟩
      · simp only [optAttr, List.nil_append, List.cons_append, commonLoop, hx, if_false, if_true, hres, hlb.symm]
        simp only [mkP, if_true]
        exact tail _ _
      · refine ⟨rfl, ?_⟩
        cases l <;> simp [Env.push]

/-! ### reification -/

theorem addReify_sim (hf : EmptyRefNoFrag rs) {env : Env} {ctx : Ctx} (h : CtxRel env ctx) (v : Str) (t : T) (st : St)
    (out : List T) (ho : st.out = t :: out) :
    ∃ st', addReify (mkP rs render) ctx v 0 st = .ok () st' ∧
      st'.out = (reify (rs env.base (cHash :: v)) t).reverse ++ st.out ∧ st'.next = st.next := by
  unfold addReify
  rw [resolveIRI_sim hf h]
  simp only [ho, List.getElem?_cons_zero]
  exact ⟨_, rfl, by simp [reify], rfl⟩

theorem wfId_facts {env : Env} {id : PId} {S S' : RX.St} (h : wfId rs env id S = some S') :
    S'.next = S.next ∧ (∀ iri v, id = some (iri, v) → isNCName v = true ∧ rs env.base (cHash :: v) = iri) := by
  cases id with
  | none => simp only [wfId, Option.some.injEq] at h; subst h; exact ⟨rfl, by simp⟩
  | some p =>
    obtain ⟨iri, v⟩ := p
    simp only [wfId] at h
    split at h
    · rename_i hc
      simp only [Option.some.injEq] at h
      subst h
      simp only [Bool.and_eq_true, decide_eq_true_eq] at hc
      refine ⟨rfl, ?_⟩
      intro iri' v' he
      simp only [Option.some.injEq, Prod.mk.injEq] at he
      obtain ⟨rfl, rfl⟩ := he
      exact ⟨hc.1.1, hc.2⟩
    · simp at h

theorem optReify_sim (hf : EmptyRefNoFrag rs) {env : Env} {ctx : Ctx} (h : CtxRel env ctx) {id : PId} {S S' : RX.St}
    (hid : wfId rs env id S = some S') (t : T) (st : St) (out : List T) (ho : st.out = t :: out) :
    ∃ st', optReify (mkP rs render) ctx (PId.val id) 0 st = .ok () st' ∧
      st'.out = (withReify (PId.iri id) t).reverse ++ out ∧ st'.next = st.next := by
  cases id with
  | none => exact ⟨st, rfl, by simp [withReify, PId.iri, ho], rfl⟩
  | some p =>
    obtain ⟨iri, v⟩ := p
    obtain ⟨st', h1, h2, h3⟩ := addReify_sim (render := render) hf h v t st out ho
    have := ((wfId_facts hid).2 iri v rfl).2
    refine ⟨st', by simpa [optReify, PId.val] using h1, ?_, h3⟩
    rw [h2, ho, this]
    simp [withReify, PId.iri]

theorem run_step {P : Params} {ctx0 : Ctx} {stk stk' : List Frame} {st st' : St} {tok : Tok}
    (h : step P ctx0 stk st tok = .cont stk' st') (rest : List Tok) (fin : Fin) :
    run P ctx0 stk st (tok :: rest) fin = run P ctx0 stk' st' rest fin := by
  simp [run, h]

/-! ### names -/

theorem nil_ne_Literal : ([] : Str) ≠ n_Literal := by decide
theorem nil_ne_Resource : ([] : Str) ≠ n_Resource := by decide
theorem nil_ne_Collection : ([] : Str) ≠ n_Collection := by decide

theorem propNameForbidden_of_wfName {li : Nat} {nm : PName} (h : wfName li nm = true) :
    propNameForbidden nm.ns nm.name = false := by
  have := (wfName_facts li nm h).1
  simp only [propNameForbidden, Bool.and_eq_false_iff, decide_eq_false_iff_not]
  by_cases hns : nm.ns = rdfNS
  · right
    cases hb : badPropName nm.name with
    | false => rfl
    | true => exact absurd ⟨hns, hb⟩ this
  · left; exact hns

/-- `peltAttrLoop` on a rendered property element without property attributes -/
theorem peltAttrLoop_std (i : AttrInfo) (hp : i.props = []) (ha : i.about = none)
    (hid : ∀ v, i.id = some v → isNCName v = true) :
    peltAttrLoop (stdAttrs i) {} = some
      { pt := match i.parseType with
              | none => []
              | some pt => if pt = n_Literal ∨ pt = n_Resource ∨ pt = n_Collection then pt else n_Literal
        rdfID := i.id, rdfResource := i.resource } := by
  have hx : xmlNS ≠ rdfNS := xmlNS_ne_rdfNS
  have e1 : n_nodeID ≠ n_ID := by decide
  have e2 : n_nodeID ≠ n_resource := by decide
  have e3 : n_nodeID ≠ n_parseType := by decide
  have e4 : n_datatype ≠ n_ID := by decide
  have e5 : n_datatype ≠ n_resource := by decide
  have e6 : n_datatype ≠ n_parseType := by decide
  have e7 : n_resource ≠ n_ID := by decide
  have e8 : n_parseType ≠ n_ID := by decide
  have e9 : n_parseType ≠ n_resource := by decide
  simp only [stdAttrs, hp, ha, List.append_nil]
  cases hI : i.id with
  | none =>
    cases i.base <;> cases i.lang <;> cases i.nodeID <;> cases i.resource <;> cases i.datatype <;>
      cases i.parseType <;>
      simp [optAttr, peltAttrLoop, hx, e1, e2, e3, e4, e5, e6, e7, e8, e9] <;>
      (try split) <;> simp_all
  | some v =>
    have hv := hid v hI
    cases i.base <;> cases i.lang <;> cases i.nodeID <;> cases i.resource <;> cases i.datatype <;>
      cases i.parseType <;>
      simp [optAttr, peltAttrLoop, hx, e1, e2, e3, e4, e5, e6, e7, e8, e9, hv] <;>
      (try split) <;> simp_all


/-! ### property elements: entry -/

theorem props_start_generic (hf : EmptyRefNoFrag rs) (i : AttrInfo) (hp : i.props = []) (ha : i.about = none)
    (hpt : i.parseType = none) (hid : ∀ v, i.id = some v → isNCName v = true) {env : Env} {ctx : Ctx}
    (hrel : CtxRel env ctx) (nm : PName) (li : Nat) (hname : wfName li nm = true) (s : Term BN) (ret : Ret)
    (below : List Frame) (ctx0 : Ctx) (st : St) :
    ∃ nctx st1, step (mkP rs render) ctx0 (.props ctx s li ret :: below) st (.start nm.ns nm.name (stdAttrs i)) =
        .cont (.pelt ctx nctx s nm.pred (stdAttrs i) i.id [] [] [] :: .props ctx s (nm.nextLi li) ret :: below) st1 ∧
      CtxRel (env.push rs i.base i.lang) nctx ∧ st1.next = st.next ∧ st1.out = st.out := by
  obtain ⟨c', st1, hpca, hrel', hn, ho, _⟩ := pca_std (render := render) hf i (by simp [hp]) hrel st
  obtain ⟨_, hpred, hli⟩ := wfName_facts li nm hname
  refine ⟨c', st1, ?_, hrel', hn, ho⟩
  simp only [step, propNameForbidden_of_wfName hname, peltEntry, peltAttrLoop_std i hp ha hid, hpt, hpca,
    nil_ne_Literal, nil_ne_Resource, nil_ne_Collection, false_and, if_false, hpred, hli]
  rfl

theorem props_start_lit (hf : EmptyRefNoFrag rs) (i : AttrInfo) (hp : i.props = []) (ha : i.about = none)
    (hres : i.resource = none) (pt : Str) (hpt : i.parseType = some pt) (hpt1 : pt ≠ n_Resource) (hpt2 : pt ≠ n_Collection)
    (hid : ∀ v, i.id = some v → isNCName v = true) {env : Env} {ctx : Ctx}
    (hrel : CtxRel env ctx) (nm : PName) (li : Nat) (hname : wfName li nm = true) (s : Term BN) (ret : Ret)
    (below : List Frame) (ctx0 : Ctx) (st : St) :
    ∃ nctx st1, step (mkP rs render) ctx0 (.props ctx s li ret :: below) st (.start nm.ns nm.name (stdAttrs i)) =
        .cont (.lit nctx s nm.pred (rdfPart i) 0 [] :: .props ctx s (nm.nextLi li) ret :: below) st1 ∧
      CtxRel (env.push rs i.base i.lang) nctx ∧ st1.next = st.next ∧ st1.out = st.out := by
  obtain ⟨c', st1, hpca, hrel', hn, ho, _⟩ := pca_std (render := render) hf i (by simp [hp]) hrel st
  obtain ⟨_, hpred, hli⟩ := wfName_facts li nm hname
  refine ⟨c', st1, ?_, hrel', hn, ho⟩
  have hptv : (if pt = n_Literal ∨ pt = n_Resource ∨ pt = n_Collection then pt else n_Literal) = n_Literal := by
    split
    · rename_i h; rcases h with h | h | h
      · exact h
      · exact absurd h hpt1
      · exact absurd h hpt2
    · rfl
  simp only [step, propNameForbidden_of_wfName hname, peltEntry, peltAttrLoop_std i hp ha hid, hpt, hpca, hptv, hres,
    Option.isSome_none, Bool.false_eq_true, and_false, if_false, if_true, hpred, hli]

/-! ### property elements: `case xml.EndElement` -/

theorem datatypeLoop_std (hf : EmptyRefNoFrag rs) (i : AttrInfo) {env : Env} {ctx : Ctx} (hrel : CtxRel env ctx)
    (hdt : ∀ d, i.datatype = some d → rs env.base d ≠ rdfLangString ∧ rs env.base d ≠ rdfDirLangString) (st : St) :
    datatypeLoop (mkP rs render) ctx (rdfPart i) none st = .ok (i.datatype.map (rs env.base)) st := by
  have e1 : n_ID ≠ n_datatype := by decide
  have e2 : n_about ≠ n_datatype := by decide
  have e3 : n_nodeID ≠ n_datatype := by decide
  have e4 : n_resource ≠ n_datatype := by decide
  have e5 : n_parseType ≠ n_datatype := by decide
  have hres := fun v => resolveIRI_sim (render := render) hf hrel v
  simp only [rdfPart]
  cases hd : i.datatype with
  | none =>
    cases i.id <;> cases i.about <;> cases i.nodeID <;> cases i.resource <;> cases i.parseType <;>
      simp [optAttr, datatypeLoop, e1, e2, e3, e4, e5]
  | some d =>
    obtain ⟨h1, h2⟩ := hdt d hd
    cases i.id <;> cases i.about <;> cases i.nodeID <;> cases i.resource <;> cases i.parseType <;>
      simp [optAttr, datatypeLoop, e1, e2, e3, e4, e5, hres, h1, h2]

theorem peltEnd_text (hf : EmptyRefNoFrag rs) (i : AttrInfo) (hp : i.props = []) {env : Env} {ctx : Ctx}
    (hrel : CtxRel env ctx) (s : Term BN) (pred lex : Str) (hlex : lex ≠ []) (id : PId) (hi : i.id = PId.val id)
    {S S' : RX.St} (hidwf : wfId rs (env.push rs i.base i.lang) id S = some S')
    (hdt : ∀ d, i.datatype = some d → rs (env.push rs i.base i.lang).base d ≠ rdfLangString ∧
      rs (env.push rs i.base i.lang).base d ≠ rdfDirLangString) (st : St) :
    ∃ st1, peltEnd (mkP rs render) ctx s pred (stdAttrs i) i.id [] lex st = .ok () st1 ∧
      st1.out = (withReify (PId.iri id) ⟨s, pred,
        match i.datatype with
        | none => mkLit lex (env.push rs i.base i.lang).lang
        | some d => .lit lex (rs (env.push rs i.base i.lang).base d) none⟩).reverse ++ st.out ∧
      st1.next = st.next := by
  obtain ⟨c', st1, hpca, hrel', hn, ho, _⟩ := pca_std (render := render) hf i (by simp [hp]) hrel st
  have hd := datatypeLoop_std (render := render) hf i hrel' hdt st1
  have hlang : c'.lang = (env.push rs i.base i.lang).lang := hrel'.2
  obtain ⟨st2, h1, h2, h3⟩ := optReify_sim (render := render) hf hrel' hidwf
    ⟨s, pred, match i.datatype with
      | none => mkLit lex (env.push rs i.base i.lang).lang
      | some d => .lit lex (rs (env.push rs i.base i.lang).base d) none⟩
    (st1.emit ⟨s, pred, match i.datatype with
      | none => mkLit lex (env.push rs i.base i.lang).lang
      | some d => .lit lex (rs (env.push rs i.base i.lang).base d) none⟩) st1.out rfl
  refine ⟨st2, ?_, by rw [h2, ho], by rw [h3]; exact hn⟩
  unfold peltEnd
  simp only [ne_eq, not_true_eq_false, if_false, hlex, not_false_eq_true, if_true, hpca, hd, hi]
  rw [← h1]
  cases i.datatype <;> simp [mkLitCtx, hlang]

theorem emptyLoop_std (i : AttrInfo) (ha : i.about = none) (hpt : i.parseType = none) (hdt : i.datatype = none)
    (hn : ∀ n, i.nodeID = some n → isNCName n = true) :
    emptyLoop (rdfPart i) {} = some ⟨i.resource, i.nodeID, false, false,
      (if i.nodeID.isSome then 1 else 0) + (if i.resource.isSome then 1 else 0)⟩ := by
  have e1 : n_nodeID ≠ n_ID := by decide
  have e2 : n_nodeID ≠ n_resource := by decide
  have e3 : n_resource ≠ n_ID := by decide
  simp only [rdfPart, ha, hpt, hdt]
  cases hN : i.nodeID with
  | none =>
    cases i.id <;> cases i.resource <;> simp [optAttr, emptyLoop, e1, e2, e3]
  | some n =>
    have := hn n hN
    cases i.id <;> cases i.resource <;> simp [optAttr, emptyLoop, e1, e2, e3, this]

theorem emptyAttrLoop_skip (P : Params) (ctx : Ctx) (o : Term BN) (A : List Attr)
    (hA : ∀ a ∈ A, a.ns = rdfNS ∧ (a.name = n_ID ∨ a.name = n_resource ∨ a.name = n_nodeID ∨ a.name = n_datatype)) (st : St) :
    emptyAttrLoop P ctx o A st = .ok () st := by
  induction A with
  | nil => rfl
  | cons a A ih =>
    obtain ⟨h1, h2⟩ := hA a (by simp)
    simp only [emptyAttrLoop, h1, h2, and_self, if_true]
    exact ih (fun x hx => hA x (by simp [hx]))

theorem rdfPart_skip (i : AttrInfo) (ha : i.about = none) (hpt : i.parseType = none) :
    ∀ a ∈ rdfPart i, a.ns = rdfNS ∧ (a.name = n_ID ∨ a.name = n_resource ∨ a.name = n_nodeID ∨ a.name = n_datatype) := by
  intro a h
  simp only [rdfPart, ha, hpt, optAttr, List.append_nil, List.mem_append] at h
  rcases h with ((h | h) | h) | h
  · cases hv : i.id <;> simp [hv, optAttr] at h; subst h; exact ⟨rfl, .inl rfl⟩
  · cases hv : i.nodeID <;> simp [hv, optAttr] at h; subst h; exact ⟨rfl, .inr (.inr (.inl rfl))⟩
  · cases hv : i.resource <;> simp [hv, optAttr] at h; subst h; exact ⟨rfl, .inr (.inl rfl)⟩
  · cases hv : i.datatype <;> simp [hv, optAttr] at h; subst h; exact ⟨rfl, .inr (.inr (.inr rfl))⟩

/-- empty property element (no character data): plain empty literal, rdf:resource, or rdf:nodeID -/
theorem peltEnd_empty (hf : EmptyRefNoFrag rs) (i : AttrInfo) (hp : i.props = []) (ha : i.about = none)
    (hpt : i.parseType = none) (hdt : i.datatype = none) (hnn : ∀ n, i.nodeID = some n → isNCName n = true)
    (hone : i.nodeID = none ∨ i.resource = none)
    {env : Env} {ctx : Ctx} (hrel : CtxRel env ctx) (s : Term BN) (pred : Str) (id : PId) (hi : i.id = PId.val id)
    {S S' : RX.St} (hidwf : wfId rs (env.push rs i.base i.lang) id S = some S') (st : St) :
    ∃ st1, peltEnd (mkP rs render) ctx s pred (stdAttrs i) i.id [] [] st = .ok () st1 ∧
      st1.out = (withReify (PId.iri id) ⟨s, pred,
        match i.resource, i.nodeID with
        | some r, _ => .iri (rs (env.push rs i.base i.lang).base r)
        | none, some n => .bnode (.named n)
        | none, none => mkLit [] (env.push rs i.base i.lang).lang⟩).reverse ++ st.out ∧
      st1.next = st.next := by
  obtain ⟨c', st1, hpca, hrel', hn, ho, _⟩ := pca_std (render := render) hf i (by simp [hp]) hrel st
  have hlang : c'.lang = (env.push rs i.base i.lang).lang := hrel'.2
  have hres := fun v => resolveIRI_sim (render := render) hf hrel' v
  have hskip := fun o st => emptyAttrLoop_skip (mkP rs render) c' o _ (rdfPart_skip i ha hpt) st
  unfold peltEnd
  simp only [ne_eq, not_true_eq_false, if_false, hpca, emptyLoop_std i ha hpt hdt hnn, hp]
  cases hR : i.resource with
  | some r =>
    have hN : i.nodeID = none := by rcases hone with h | h; exact h; simp [hR] at h
    obtain ⟨st2, h1, h2, h3⟩ := optReify_sim (render := render) hf hrel' hidwf ⟨s, pred, .iri (rs (env.push rs i.base i.lang).base r)⟩
      (st1.emit ⟨s, pred, .iri (rs (env.push rs i.base i.lang).base r)⟩) st1.out rfl
    refine ⟨st2, ?_, by rw [h2, ho], by rw [h3]; exact hn⟩
    simp [hN, emptyObject, hR, hres, hskip, hi, h1]
  | none =>
    cases hN : i.nodeID with
    | some n =>
      obtain ⟨st2, h1, h2, h3⟩ := optReify_sim (render := render) hf hrel' hidwf ⟨s, pred, .bnode (.named n)⟩
        (st1.emit ⟨s, pred, .bnode (.named n)⟩) st1.out rfl
      refine ⟨st2, ?_, by rw [h2, ho], by rw [h3]; exact hn⟩
      simp [hN, emptyObject, hR, hskip, hi, h1]
    | none =>
      obtain ⟨st2, h1, h2, h3⟩ := optReify_sim (render := render) hf hrel' hidwf ⟨s, pred, mkLit [] (env.push rs i.base i.lang).lang⟩
        (st1.emit ⟨s, pred, mkLit [] (env.push rs i.base i.lang).lang⟩) st1.out rfl
      refine ⟨st2, ?_, by rw [h2, ho], by rw [h3]; exact hn⟩
      simp [hi, mkLitCtx, hlang, h1]

/-! ### property elements: whole elements -/

theorem pidVal_ncname {env : Env} {id : PId} {S S' : RX.St} (h : wfId rs env id S = some S') :
    ∀ v, PId.val id = some v → isNCName v = true := by
  intro v hv
  cases id with
  | none => simp [PId.val] at hv
  | some p =>
    obtain ⟨iri, w⟩ := p
    simp only [PId.val, Option.map_some, Option.some.injEq] at hv
    subst hv
    exact ((wfId_facts h).2 iri w rfl).1

theorem text_elt_sim (hf : EmptyRefNoFrag rs) (i : AttrInfo) (hp : i.props = []) (ha : i.about = none)
    (hpt : i.parseType = none) {env : Env} {ctx : Ctx} (hrel : CtxRel env ctx) (nm : PName) (li : Nat)
    (hname : wfName li nm = true) (s : Term BN) (lex : Str) (hlex : lex ≠ []) (id : PId) (hi : i.id = PId.val id)
    {S S' : RX.St} (hidwf : wfId rs (env.push rs i.base i.lang) id S = some S')
    (hdt : ∀ d, i.datatype = some d → rs (env.push rs i.base i.lang).base d ≠ rdfLangString ∧
      rs (env.push rs i.base i.lang).base d ≠ rdfDirLangString)
    (ret : Ret) (below : List Frame) (ctx0 : Ctx) (st : St) (rest : List Tok) (fin : Fin) :
    ∃ st1, run (mkP rs render) ctx0 (.props ctx s li ret :: below) st
        (.start nm.ns nm.name (stdAttrs i) :: .chars lex :: .end_ nm.ns nm.name :: rest) fin =
        run (mkP rs render) ctx0 (.props ctx s (nm.nextLi li) ret :: below) st1 rest fin ∧
      st1.out = (withReify (PId.iri id) ⟨s, nm.pred,
        match i.datatype with
        | none => mkLit lex (env.push rs i.base i.lang).lang
        | some d => .lit lex (rs (env.push rs i.base i.lang).base d) none⟩).reverse ++ st.out ∧
      st1.next = st.next := by
  have hidn := pidVal_ncname hidwf
  obtain ⟨nctx, st1, h1, _, hn1, ho1⟩ := props_start_generic (render := render) hf i hp ha hpt (by rw [hi]; exact hidn) hrel nm li hname s ret below ctx0 st
  obtain ⟨st2, h2, ho2, hn2⟩ := peltEnd_text (render := render) hf i hp hrel s nm.pred lex hlex id hi hidwf hdt st1
  refine ⟨st2, ?_, by rw [ho2, ho1], by rw [hn2, hn1]⟩
  rw [run_step h1, run_step (stk' := .pelt ctx nctx s nm.pred (stdAttrs i) i.id [] lex [] :: .props ctx s (nm.nextLi li) ret :: below) (st' := st1) (by simp [step]),
    run_step (stk' := .props ctx s (nm.nextLi li) ret :: below) (st' := st2) (by simp [step, h2])]

theorem empty_elt_sim (hf : EmptyRefNoFrag rs) (i : AttrInfo) (hp : i.props = []) (ha : i.about = none)
    (hpt : i.parseType = none) (hdt : i.datatype = none) (hnn : ∀ n, i.nodeID = some n → isNCName n = true)
    (hone : i.nodeID = none ∨ i.resource = none) {env : Env} {ctx : Ctx} (hrel : CtxRel env ctx) (nm : PName) (li : Nat)
    (hname : wfName li nm = true) (s : Term BN) (id : PId) (hi : i.id = PId.val id)
    {S S' : RX.St} (hidwf : wfId rs (env.push rs i.base i.lang) id S = some S')
    (ret : Ret) (below : List Frame) (ctx0 : Ctx) (st : St) (rest : List Tok) (fin : Fin) :
    ∃ st1, run (mkP rs render) ctx0 (.props ctx s li ret :: below) st
        (.start nm.ns nm.name (stdAttrs i) :: .end_ nm.ns nm.name :: rest) fin =
        run (mkP rs render) ctx0 (.props ctx s (nm.nextLi li) ret :: below) st1 rest fin ∧
      st1.out = (withReify (PId.iri id) ⟨s, nm.pred,
        match i.resource, i.nodeID with
        | some r, _ => .iri (rs (env.push rs i.base i.lang).base r)
        | none, some n => .bnode (.named n)
        | none, none => mkLit [] (env.push rs i.base i.lang).lang⟩).reverse ++ st.out ∧
      st1.next = st.next := by
  have hidn := pidVal_ncname hidwf
  obtain ⟨nctx, st1, h1, _, hn1, ho1⟩ := props_start_generic (render := render) hf i hp ha hpt (by rw [hi]; exact hidn) hrel nm li hname s ret below ctx0 st
  obtain ⟨st2, h2, ho2, hn2⟩ := peltEnd_empty (render := render) hf i hp ha hpt hdt hnn hone hrel s nm.pred id hi hidwf st1
  refine ⟨st2, ?_, by rw [ho2, ho1], by rw [hn2, hn1]⟩
  rw [run_step h1, run_step (stk' := .props ctx s (nm.nextLi li) ret :: below) (st' := st2) (by simp [step, h2])]

theorem reifyEachID_std (hf : EmptyRefNoFrag rs) (i : AttrInfo) (ha : i.about = none) (hnn : i.nodeID = none)
    (hres : i.resource = none) (hdt : i.datatype = none) {env : Env} {ctx : Ctx} (hrel : CtxRel env ctx)
    (id : PId) (hi : i.id = PId.val id) {S S' : RX.St} (hidwf : wfId rs env id S = some S')
    (t : T) (st : St) (out : List T) (ho : st.out = t :: out) :
    ∃ st', reifyEachID (mkP rs render) ctx (rdfPart i) st = .ok () st' ∧
      st'.out = (withReify (PId.iri id) t).reverse ++ out ∧ st'.next = st.next := by
  have e1 : n_parseType ≠ n_ID := by decide
  obtain ⟨st', h1, h2, h3⟩ := optReify_sim (render := render) hf hrel hidwf t st out ho
  refine ⟨st', ?_, h2, h3⟩
  rw [← h1]
  simp only [rdfPart, ha, hnn, hres, hdt, hi, optAttr, List.append_nil]
  cases id with
  | none => cases i.parseType <;> simp [PId.val, optAttr, reifyEachID, optReify, e1]
  | some p =>
    cases i.parseType <;> simp [PId.val, optAttr, reifyEachID, optReify, e1] <;>
      (cases addReify (mkP rs render) ctx p.2 0 st <;> rfl)

theorem ptlit_elt_sim (hf : EmptyRefNoFrag rs) (hr : ∀ c, render [.chars c] = some c) (i : AttrInfo) (hp : i.props = [])
    (ha : i.about = none) (hnn : i.nodeID = none) (hres : i.resource = none) (hdt : i.datatype = none)
    (pt : Str) (hpt : i.parseType = some pt) (hpt1 : pt ≠ n_Resource) (hpt2 : pt ≠ n_Collection)
    {env : Env} {ctx : Ctx} (hrel : CtxRel env ctx) (nm : PName) (li : Nat)
    (hname : wfName li nm = true) (s : Term BN) (content : Str) (id : PId) (hi : i.id = PId.val id)
    {S S' : RX.St} (hidwf : wfId rs (env.push rs i.base i.lang) id S = some S')
    (ret : Ret) (below : List Frame) (ctx0 : Ctx) (st : St) (rest : List Tok) (fin : Fin) :
    ∃ st1, run (mkP rs render) ctx0 (.props ctx s li ret :: below) st
        (.start nm.ns nm.name (stdAttrs i) :: .chars content :: .end_ nm.ns nm.name :: rest) fin =
        run (mkP rs render) ctx0 (.props ctx s (nm.nextLi li) ret :: below) st1 rest fin ∧
      st1.out = (withReify (PId.iri id) ⟨s, nm.pred, .lit content rdfXMLLiteral none⟩).reverse ++ st.out ∧
      st1.next = st.next := by
  have hidn := pidVal_ncname hidwf
  obtain ⟨nctx, st1, h1, hrel', hn1, ho1⟩ := props_start_lit (render := render) hf i hp ha hres pt hpt hpt1 hpt2
    (by rw [hi]; exact hidn) hrel nm li hname s ret below ctx0 st
  obtain ⟨st2, h2, ho2, hn2⟩ := reifyEachID_std (render := render) hf i ha hnn hres hdt hrel' id hi hidwf
    ⟨s, nm.pred, .lit content rdfXMLLiteral none⟩ (st1.emit ⟨s, nm.pred, .lit content rdfXMLLiteral none⟩) st1.out rfl
  refine ⟨st2, ?_, by rw [ho2, ho1], by rw [hn2]; exact hn1⟩
  rw [run_step h1,
    run_step (stk' := .lit nctx s nm.pred (rdfPart i) 0 [.chars content] :: .props ctx s (nm.nextLi li) ret :: below) (st' := st1)
      (by simp [step, hr, mkP]),
    run_step (stk' := .props ctx s (nm.nextLi li) ret :: below) (st' := st2) (by
      have h2' := h2
      simp only [mkP] at h2'
      simp [step, hr, mkP, h2'])]

theorem map_pair_some {α β : Type} {o : Option β} {a a' : α} {b : β} (h : o.map (fun x => (a, x)) = some (a', b)) :
    o = some b ∧ a = a' := by
  cases o with
  | none => simp at h
  | some x => simp only [Option.map_some, Option.some.injEq, Prod.mk.injEq] at h; exact ⟨by rw [h.2], h.1⟩

/-- one leaf property element -/
theorem prop_sim (hf : EmptyRefNoFrag rs) (hr : ∀ c, render [.chars c] = some c) (p : PProp) (hleaf : leafProp p = true)
    {env : Env} {ctx : Ctx} (hrel : CtxRel env ctx) (s : Term BN) (li li1 : Nat) (S S1 : RX.St)
    (hwf : wfProp rs env li S p = some (li1, S1)) (ret : Ret) (below : List Frame) (ctx0 : Ctx) (st : St)
    (hn : st.next = S.next) (rest : List Tok) (fin : Fin) :
    ∃ st1, run (mkP rs render) ctx0 (.props ctx s li ret :: below) st (tokens (renderProp p) ++ rest) fin =
        run (mkP rs render) ctx0 (.props ctx s li1 ret :: below) st1 rest fin ∧
      st1.out = (flatProp s p).reverse ++ st.out ∧ st1.next = S1.next := by
  cases p with
  | lit sc nm id lex lang =>
    simp only [wfProp] at hwf
    split at hwf
    · rename_i hc
      simp only [Bool.and_eq_true, decide_eq_true_eq, ne_eq, decide_not, Bool.not_eq_true', decide_eq_false_iff_not] at hc
      obtain ⟨hid, rfl⟩ := map_pair_some hwf
      obtain ⟨st1, h1, h2, h3⟩ := text_elt_sim (render := render) hf
        { base := sc.base, lang := sc.lang, id := PId.val id } rfl rfl rfl hrel nm li hc.1.1 s lex hc.1.2 id rfl hid
        (by simp) ret below ctx0 st rest fin
      refine ⟨st1, ?_, ?_, by rw [h3, hn, (wfId_facts hid).1]⟩
      · simpa [renderProp, tokens, tokensList] using h1
      · rw [h2]; simp [flatProp, hc.2]
    · simp at hwf
  | typed sc nm id lex dt ref =>
    simp only [wfProp] at hwf
    split at hwf
    · rename_i hc
      simp only [Bool.and_eq_true, decide_eq_true_eq, ne_eq, decide_not, Bool.not_eq_true', decide_eq_false_iff_not] at hc
      obtain ⟨hid, rfl⟩ := map_pair_some hwf
      obtain ⟨st1, h1, h2, h3⟩ := text_elt_sim (render := render) hf
        { base := sc.base, lang := sc.lang, id := PId.val id, datatype := some ref } rfl rfl rfl hrel nm li hc.1.1.1.1 s lex
        hc.1.1.1.2 id rfl hid
        (by intro d hd; simp only [Option.some.injEq] at hd; subst hd; rw [hc.1.1.2]; exact ⟨hc.1.2, hc.2⟩)
        ret below ctx0 st rest fin
      refine ⟨st1, ?_, ?_, by rw [h3, hn, (wfId_facts hid).1]⟩
      · simpa [renderProp, tokens, tokensList] using h1
      · rw [h2]; simp [flatProp, hc.1.1.2]
    · simp at hwf
  | empty sc nm id lang =>
    simp only [wfProp] at hwf
    split at hwf
    · rename_i hc
      simp only [Bool.and_eq_true, decide_eq_true_eq] at hc
      obtain ⟨hid, rfl⟩ := map_pair_some hwf
      obtain ⟨st1, h1, h2, h3⟩ := empty_elt_sim (render := render) hf
        { base := sc.base, lang := sc.lang, id := PId.val id } rfl rfl rfl rfl (by simp) (by simp) hrel nm li hc.1 s id rfl hid
        ret below ctx0 st rest fin
      refine ⟨st1, ?_, ?_, by rw [h3, hn, (wfId_facts hid).1]⟩
      · simpa [renderProp, tokens, tokensList] using h1
      · rw [h2]; simp [flatProp, hc.2]
    · simp at hwf
  | res sc nm id iri ref pattrs =>
    simp only [leafProp, List.isEmpty_iff] at hleaf
    subst hleaf
    simp only [wfProp] at hwf
    split at hwf
    · rename_i hc
      simp only [Bool.and_eq_true, decide_eq_true_eq] at hc
      obtain ⟨hid, rfl⟩ := map_pair_some hwf
      obtain ⟨st1, h1, h2, h3⟩ := empty_elt_sim (render := render) hf
        { base := sc.base, lang := sc.lang, id := PId.val id, resource := some ref } rfl rfl rfl rfl (by simp) (by simp) hrel nm li
        hc.1.1 s id rfl hid ret below ctx0 st rest fin
      refine ⟨st1, ?_, ?_, by rw [h3, hn, (wfId_facts hid).1]⟩
      · simpa [renderProp, tokens, tokensList] using h1
      · rw [h2]; simp [flatProp, hc.1.2]
    · simp at hwf
  | bref sc nm id l pattrs =>
    simp only [leafProp, List.isEmpty_iff] at hleaf
    subst hleaf
    simp only [wfProp] at hwf
    split at hwf
    · rename_i hc
      simp only [Bool.and_eq_true, decide_eq_true_eq] at hc
      obtain ⟨hid, rfl⟩ := map_pair_some hwf
      obtain ⟨st1, h1, h2, h3⟩ := empty_elt_sim (render := render) hf
        { base := sc.base, lang := sc.lang, id := PId.val id, nodeID := some l } rfl rfl rfl rfl
        (by intro n hn'; simp only [Option.some.injEq] at hn'; subst hn'; exact hc.1.2) (by simp) hrel nm li
        hc.1.1 s id rfl hid ret below ctx0 st rest fin
      refine ⟨st1, ?_, ?_, by rw [h3, hn, (wfId_facts hid).1]⟩
      · simpa [renderProp, tokens, tokensList] using h1
      · rw [h2]; simp [flatProp]
    · simp at hwf
  | ptLit sc nm id pt content =>
    simp only [wfProp] at hwf
    split at hwf
    · rename_i hc
      simp only [Bool.and_eq_true, decide_eq_true_eq, ne_eq, decide_not, Bool.not_eq_true', decide_eq_false_iff_not] at hc
      obtain ⟨hid, rfl⟩ := map_pair_some hwf
      obtain ⟨st1, h1, h2, h3⟩ := ptlit_elt_sim (render := render) hf hr
        { base := sc.base, lang := sc.lang, id := PId.val id, parseType := some pt } rfl rfl rfl rfl rfl pt rfl hc.1.2 hc.2
        hrel nm li hc.1.1 s content id rfl hid ret below ctx0 st rest fin
      refine ⟨st1, ?_, ?_, by rw [h3, hn, (wfId_facts hid).1]⟩
      · simpa [renderProp, tokens, tokensList] using h1
      · rw [h2]; simp [flatProp]
    · simp at hwf
  | banon _ _ _ _ _ _ => simp [leafProp] at hleaf
  | node _ _ _ _ => simp [leafProp] at hleaf
  | ptRes _ _ _ _ _ => simp [leafProp] at hleaf
  | ptColl _ _ _ _ _ => simp [leafProp] at hleaf

/-! ### property element lists, node elements, documents -/

theorem props_sim (hf : EmptyRefNoFrag rs) (hr : ∀ c, render [.chars c] = some c) (ps : List PProp)
    (hleaf : ps.all leafProp = true) {env : Env} {ctx : Ctx} (hrel : CtxRel env ctx) (s : Term BN) (li : Nat)
    (S S1 : RX.St) (hwf : wfProps rs env li S ps = some S1) (ret : Ret) (below : List Frame) (ctx0 : Ctx) (st : St)
    (hn : st.next = S.next) (rest : List Tok) (fin : Fin) :
    ∃ li1 st1, run (mkP rs render) ctx0 (.props ctx s li ret :: below) st (tokensList (renderProps ps) ++ rest) fin =
        run (mkP rs render) ctx0 (.props ctx s li1 ret :: below) st1 rest fin ∧
      st1.out = (flatProps s ps).reverse ++ st.out ∧ st1.next = S1.next := by
  induction ps generalizing li S st with
  | nil =>
    simp only [wfProps, Option.some.injEq] at hwf
    subst hwf
    exact ⟨li, st, by simp [renderProps, tokensList], by simp [flatProps], hn⟩
  | cons p ps ih =>
    simp only [List.all_cons, Bool.and_eq_true] at hleaf
    simp only [wfProps] at hwf
    split at hwf
    · simp at hwf
    · rename_i li' S' hp
      obtain ⟨st1, h1, h2, h3⟩ := prop_sim (render := render) hf hr p hleaf.1 hrel s li li' S S' hp ret below ctx0 st hn
        (tokensList (renderProps ps) ++ rest) fin
      obtain ⟨li2, st2, h4, h5, h6⟩ := ih hleaf.2 li' S' hwf st1 h3
      refine ⟨li2, st2, ?_, ?_, h6⟩
      · simp only [renderProps, tokensList, List.append_assoc]
        rw [h1, h4]
      · rw [h5, h2]; simp [flatProps]

theorem litAttrLoop_sim {env : Env} {ctx : Ctx} (hrel : CtxRel env ctx) (s : Term BN) (as : List Attr)
    (hns : ∀ a ∈ as, a.ns ≠ rdfNS) (st : St) :
    (litAttrLoop ctx s as st).out = (as.map (propAttrTriple rs env s)).reverse ++ st.out ∧
    (litAttrLoop ctx s as st).next = st.next := by
  induction as generalizing st with
  | nil => simp [litAttrLoop]
  | cons a as ih =>
    have ha : a.ns ≠ rdfNS := hns a (by simp)
    obtain ⟨h1, h2⟩ := ih (fun x hx => hns x (by simp [hx])) (st.emit ⟨s, a.ns ++ a.name, mkLitCtx a.val ctx⟩)
    simp only [litAttrLoop]
    refine ⟨?_, by rw [h2]; rfl⟩
    rw [h1]
    simp [St.emit, propAttrTriple, ha, mkLitCtx, hrel.2]

theorem plain_of_wf {env : Env} {pattrs : List PAttr} (hpl : pattrs.all plainPAttr = true)
    (hwf : wfPAttrs rs env pattrs = true) : ∀ a ∈ pattrs.map PAttr.render, PlainAttr a := by
  intro a ha
  have hprop := wfPAttrs_isProp rs env pattrs hwf a ha
  obtain ⟨b, hb, rfl⟩ := List.mem_map.mp ha
  have := List.all_eq_true.mp hpl b hb
  cases b with
  | type _ _ => simp [plainPAttr] at this
  | lit ns name val lang =>
    simp only [plainPAttr, Bool.and_eq_true, decide_eq_true_eq] at this
    simp only [isPropAttr, PAttr.render, Bool.and_eq_true, decide_eq_true_eq, ne_eq, decide_not, Bool.not_eq_true',
      decide_eq_false_iff_not] at hprop
    exact ⟨this.1, of_decide_eq_true hprop.1.2, this.2, of_decide_eq_true hprop.1.1⟩

theorem nodeEntry_sim (hf : EmptyRefNoFrag rs) (sc : Scope) (subj : Subj) (typ : Option (Str × Str)) (pattrs : List PAttr)
    (hls : leafSubj subj = true) (hpl : pattrs.all plainPAttr = true) {env : Env} {ctx : Ctx} (hrel : CtxRel env ctx)
    (S S0 : RX.St) (htyp : wfTyp typ = true) (hpa : wfPAttrs rs (env.push rs sc.base sc.lang) pattrs = true)
    (hsub : wfSubj rs (env.push rs sc.base sc.lang) S subj = some S0) (st : St) (hn : st.next = S.next) :
    ∃ nctx st1, nodeEntry (mkP rs render) ctx (typNs typ) (typName typ)
        (stdAttrs (subj.info sc (pattrs.map PAttr.render))) st = .ok (.props nctx subj.term 0 (.node subj.term)) st1 ∧
      CtxRel (env.push rs sc.base sc.lang) nctx ∧
      st1.out = (typTriple subj.term typ ++ pattrs.map (PAttr.triple subj.term)).reverse ++ st.out ∧
      st1.next = S0.next := by
  have hplain := plain_of_wf hpl hpa
  obtain ⟨f1, f2, f3, f4, f5, f6, f7, f8⟩ := Subj.info_fields sc (pattrs.map PAttr.render) subj
  obtain ⟨nctx, st1, hpca, hrel', hn1, ho1, _⟩ := pca_std (render := render) hf (subj.info sc (pattrs.map PAttr.render))
    (by rw [f1]; exact hplain) hrel st
  rw [f7, f8] at hrel'
  rw [f1] at hpca
  have hres := fun v => resolveIRI_sim (render := render) hf hrel' v
  have hlit := litAttrLoop_sim (rs := rs) hrel' subj.term (pattrs.map PAttr.render)
    (fun a ha => (hplain a ha).1)
  have htr := wfPAttrs_triples rs (env.push rs sc.base sc.lang) subj.term pattrs hpa
  have e1 : n_about ≠ n_ID := by decide
  have e2 : n_about ≠ n_nodeID := by decide
  have e3 : n_nodeID ≠ n_ID := by decide
  have e4 : n_about ≠ n_type := by decide
  have e5 : n_nodeID ≠ n_type := by decide
  obtain ⟨_, htt⟩ := wfTyp_facts subj.term typ htyp
  have htype : ∀ st' : St, (if typNs typ = rdfNS ∧ typName typ = n_Description then st'
      else st'.emit ⟨subj.term, rdfType, .iri (typNs typ ++ typName typ)⟩).out = (typTriple subj.term typ).reverse ++ st'.out ∧
      (if typNs typ = rdfNS ∧ typName typ = n_Description then st'
      else st'.emit ⟨subj.term, rdfType, .iri (typNs typ ++ typName typ)⟩).next = st'.next := by
    intro st'
    rw [← htt]
    unfold typeTriple
    split <;> simp [St.emit]
  refine ⟨nctx, ?_⟩
  unfold nodeEntry
  simp only [hpca]
  cases subj with
  | id _ _ => simp [leafSubj] at hls
  | about iri ref =>
    simp only [wfSubj] at hsub
    split at hsub
    · rename_i hc
      simp only [Option.some.injEq] at hsub
      subst hsub
      simp only [Subj.term] at hlit htype htr ⊢
      simp only [Subj.info, rdfPart, optAttr, List.nil_append, List.append_nil, subjLoop, e1, e2, if_false, if_true, hres, hc,
        Nat.zero_add, gt_iff_lt, Nat.lt_irrefl, subjOrFresh, nodeRdfLoop, or_true, true_or, List.reverse_nil]
      refine ⟨_, rfl, hrel', ?_, ?_⟩
      · rw [(hlit _).1, (htype _).1, ho1, htr]; simp
      · rw [(hlit _).2, (htype _).2, hn1, hn]
    · simp at hsub
  | nodeID l =>
    simp only [wfSubj] at hsub
    split at hsub
    · rename_i hc
      simp only [Option.some.injEq] at hsub
      subst hsub
      simp only [Subj.term] at hlit htype htr ⊢
      simp only [Subj.info, rdfPart, optAttr, List.nil_append, List.append_nil, subjLoop, e3, if_false, if_true, hc,
        Bool.not_true, Bool.false_eq_true, Nat.zero_add, gt_iff_lt, Nat.lt_irrefl, subjOrFresh, nodeRdfLoop, or_true, true_or,
        List.reverse_nil]
      refine ⟨_, rfl, hrel', ?_, ?_⟩
      · rw [(hlit _).1, (htype _).1, ho1, htr]; simp
      · rw [(hlit _).2, (htype _).2, hn1, hn]
    · simp at hsub
  | anon n =>
    simp only [wfSubj] at hsub
    split at hsub
    · rename_i hc
      simp only [Option.some.injEq] at hsub
      subst hsub
      subst hc
      simp only [Subj.term] at hlit htype htr ⊢
      simp only [Subj.info, rdfPart, optAttr, List.nil_append, List.append_nil, subjLoop, gt_iff_lt, Nat.not_lt_zero, if_false,
        subjOrFresh, St.fresh, nodeRdfLoop, List.reverse_nil, hn1, hn]
      refine ⟨_, rfl, hrel', ?_, ?_⟩
      · rw [(hlit _).1, (htype _).1, htr]; simp [ho1]
      · rw [(hlit _).2, (htype _).2]
    · simp at hsub

theorem nodeNameForbidden_of_wfTyp {typ : Option (Str × Str)} (h : wfTyp typ = true) :
    nodeNameForbidden (typNs typ) (typName typ) = false := by
  have := (wfTyp_facts (.iri []) typ h).1
  simp only [nodeNameForbidden, Bool.and_eq_false_iff, decide_eq_false_iff_not]
  by_cases hns : typNs typ = rdfNS
  · right
    cases hb : badNodeName (typName typ) with
    | false => rfl
    | true => exact absurd ⟨hns, hb⟩ this
  · left; exact hns

/-- one leaf node element below rdf:RDF -/
theorem node_sim (hf : EmptyRefNoFrag rs) (hr : ∀ c, render [.chars c] = some c) (n : PNode) (hleaf : leafNode n = true)
    {env : Env} {ctx : Ctx} (hrel : CtxRel env ctx) (S S1 : RX.St) (hwf : wfNode rs env S n = some S1)
    (below : List Frame) (ctx0 : Ctx) (st : St) (hn : st.next = S.next) (rest : List Tok) (fin : Fin) :
    ∃ st1, run (mkP rs render) ctx0 (.rdf ctx :: below) st (tokens (renderNode n) ++ rest) fin =
        run (mkP rs render) ctx0 (.rdf ctx :: below) st1 rest fin ∧
      st1.out = (flatNode n).reverse ++ st.out ∧ st1.next = S1.next := by
  cases n with
  | mk sc subj typ pattrs props =>
    simp only [leafNode, Bool.and_eq_true] at hleaf
    simp only [wfNode] at hwf
    split at hwf
    · rename_i hc
      simp only [Bool.and_eq_true] at hc
      split at hwf
      · simp at hwf
      · rename_i S0 hsub
        obtain ⟨nctx, st1, h1, hrel', ho1, hn1⟩ := nodeEntry_sim (render := render) hf sc subj typ pattrs hleaf.1.1 hleaf.1.2 hrel
          S S0 hc.1 hc.2 hsub st hn
        obtain ⟨li1, st2, h2, ho2, hn2⟩ := props_sim (render := render) hf hr props hleaf.2 hrel' subj.term 0 S0 S1 hwf
          (.node subj.term) (.rdf ctx :: below) ctx0 st1 hn1 (.end_ (typNs typ) (typName typ) :: rest) fin
        refine ⟨st2, ?_, ?_, hn2⟩
        · simp only [renderNode, tokens, List.cons_append, List.append_assoc, List.nil_append]
          rw [run_step (stk' := .props nctx subj.term 0 (.node subj.term) :: .rdf ctx :: below) (st' := st1)
            (by simp [step, nodeNameForbidden_of_wfTyp hc.1, callNode, h1]), h2,
            run_step (stk' := .rdf ctx :: below) (st' := st2) (by simp [step, propsReturn, nodeReturn])]
        · rw [ho2, ho1]; simp [flatNode]
    · simp at hwf

theorem nodes_sim (hf : EmptyRefNoFrag rs) (hr : ∀ c, render [.chars c] = some c) (ns : List PNode)
    (hleaf : ns.all leafNode = true) {env : Env} {ctx : Ctx} (hrel : CtxRel env ctx) (S S1 : RX.St)
    (hwf : wfNodes rs env S ns = some S1) (below : List Frame) (ctx0 : Ctx) (st : St) (hn : st.next = S.next)
    (rest : List Tok) (fin : Fin) :
    ∃ st1, run (mkP rs render) ctx0 (.rdf ctx :: below) st (tokensList (renderNodes ns) ++ rest) fin =
        run (mkP rs render) ctx0 (.rdf ctx :: below) st1 rest fin ∧
      st1.out = (flatNodes ns).reverse ++ st.out ∧ st1.next = S1.next := by
  induction ns generalizing S st with
  | nil =>
    simp only [wfNodes, Option.some.injEq] at hwf
    subst hwf
    exact ⟨st, by simp [renderNodes, tokensList], by simp [flatNodes], hn⟩
  | cons n ns ih =>
    simp only [List.all_cons, Bool.and_eq_true] at hleaf
    simp only [wfNodes] at hwf
    split at hwf
    · simp at hwf
    · rename_i S' hp
      obtain ⟨st1, h1, h2, h3⟩ := node_sim (render := render) hf hr n hleaf.1 hrel S S' hp below ctx0 st hn
        (tokensList (renderNodes ns) ++ rest) fin
      obtain ⟨st2, h4, h5, h6⟩ := ih hleaf.2 S' hwf st1 h3
      refine ⟨st2, ?_, ?_, h6⟩
      · simp only [renderNodes, tokensList, List.append_assoc]
        rw [h1, h4]
      · rw [h5, h2]; simp [flatNodes]

/-- a whole leaf document -/
theorem doc_sim (hf : EmptyRefNoFrag rs) (hr : ∀ c, render [.chars c] = some c) (base : Str) (d : PDoc)
    (hleaf : leafDoc d = true) (hwf : wfDoc rs ⟨base, none⟩ d = true) :
    decode (mkP rs render) (some base) (tokensDoc (renderDoc d)) .eof = .ok (flatDoc d) := by
  have hrel : CtxRel ⟨base, none⟩ (Ctx.init (some base)) := ⟨rfl, rfl⟩
  obtain ⟨ctx1, st1, hpca, hrel1, hn1, ho1, _⟩ := pca_std (render := render) hf
    { base := d.sc.base, lang := d.sc.lang } (by simp) hrel St.init
  simp only [wfDoc, Option.isSome_iff_exists] at hwf
  obtain ⟨S1, hS1⟩ := hwf
  obtain ⟨st2, h2, ho2, _⟩ := nodes_sim (render := render) hf hr d.nodes hleaf hrel1 RX.St.init S1 hS1 [] (Ctx.init (some base)) st1
    (by rw [hn1]; rfl) [.end_ rdfNS n_RDF] .eof
  have hrp : rdfPart { base := d.sc.base, lang := d.sc.lang } = [] := by simp [rdfPart, optAttr]
  unfold decode
  simp only [tokensDoc, renderDoc, tokens]
  rw [run_step (stk' := [.rdf ctx1]) (st' := st1) (by simp [step, hpca, hrp]), h2,
    run_step (stk' := []) (st' := st2) (by simp [step])]
  simp [run, finish, ho2, ho1, St.init, flatDoc]

end RdfModel.RXD
