/-
  C09 helper lemmas, part 1: reading back the attributes written by `stdAttrs`.
-/
import RdfModel.Spec.RdfXmlFragment
namespace RdfModel.RX
open RdfModel

theorem xmlNS_ne_rdfNS : xmlNS ≠ rdfNS := by decide
theorem rdfNS_ne_nil : rdfNS ≠ [] := by decide
theorem xmlNS_ne_nil : xmlNS ≠ [] := by decide

theorem getAttr_optAttr_append (ns n : Str) (o : Option Str) (rest : List Attr) (ns' n' : Str) :
    getAttr (optAttr ns n o ++ rest) ns' n' =
      if ns = ns' ∧ n = n' then (match o with | some v => some v | none => getAttr rest ns' n')
      else getAttr rest ns' n' := by
  cases o with
  | none => simp [optAttr]
  | some v =>
    by_cases h : ns = ns' ∧ n = n'
    · simp [optAttr, getAttr, h]
    · simp [optAttr, getAttr, h]

theorem getAttr_props_xml {ps : List Attr} (h : ∀ a ∈ ps, isPropAttr a = true) (n : Str) :
    getAttr ps xmlNS n = none := by
  unfold getAttr
  rw [Option.map_eq_none_iff, List.find?_eq_none]
  intro a ha
  have := h a ha
  simp [isPropAttr] at this
  simp [this.1.2]

theorem getAttr_props_syntax {ps : List Attr} (h : ∀ a ∈ ps, isPropAttr a = true) (n : Str)
    (hn : syntaxAttrName n = true) : getAttr ps rdfNS n = none := by
  unfold getAttr
  rw [Option.map_eq_none_iff, List.find?_eq_none]
  intro a ha
  have := h a ha
  simp [isPropAttr] at this
  simp only [decide_eq_true_eq, not_and]
  intro h1 h2
  rcases this.2 with h3 | h3
  · exact h3 h1
  · rw [h2, hn] at h3; exact absurd h3.2 (by simp)

theorem filter_optAttr_xml (n : Str) (o : Option Str) : (optAttr xmlNS n o).filter isPropAttr = [] := by
  cases o <;> simp [optAttr, isPropAttr]

theorem filter_optAttr_syntax (n : Str) (hn : syntaxAttrName n = true) (o : Option Str) :
    (optAttr rdfNS n o).filter isPropAttr = [] := by
  cases o <;> simp [optAttr, isPropAttr, hn]

theorem any_optAttr_bad_xml (n : Str) (o : Option Str) : (optAttr xmlNS n o).any isBadAttr = false := by
  cases o <;> simp [optAttr, isBadAttr, xmlNS_ne_rdfNS]

theorem any_optAttr_bad_syntax (n : Str) (hn : badAttrName n = false) (o : Option Str) :
    (optAttr rdfNS n o).any isBadAttr = false := by
  cases o <;> simp [optAttr, isBadAttr, hn]

theorem any_optAttr_unsup (ns n : Str) (hns : ns ≠ []) (o : Option Str) :
    (optAttr ns n o).any isUnsupAttr = false := by
  cases o <;> simp [optAttr, isUnsupAttr, hns]

theorem props_not_bad {ps : List Attr} (h : ∀ a ∈ ps, isPropAttr a = true) : ps.any isBadAttr = false := by
  rw [List.any_eq_false]
  intro a ha
  have := h a ha
  simp [isPropAttr] at this
  simp only [isBadAttr, Bool.and_eq_true, decide_eq_true_eq, not_and, Bool.not_eq_true]
  intro h1
  rcases this.2 with h3 | h3
  · exact absurd h1 h3
  · exact h3.1

theorem props_not_unsup {ps : List Attr} (h : ∀ a ∈ ps, isPropAttr a = true) :
    ps.any isUnsupAttr = false := by
  rw [List.any_eq_false]
  intro a ha
  have := h a ha
  simp [isPropAttr] at this
  simp [isUnsupAttr, this.1.1]

/-- Reading back: the attribute record of the attributes written for `i` is `i`. -/
theorem info_stdAttrs (i : AttrInfo) (hp : ∀ a ∈ i.props, isPropAttr a = true)
    (hb : i.bad = false) (hu : i.unsup = false) : info (stdAttrs i) = i := by
  have hx := getAttr_props_xml hp
  have hs := getAttr_props_syntax hp
  have e1 : getAttr (stdAttrs i) xmlNS n_base = i.base := by
    simp only [stdAttrs, List.append_assoc, getAttr_optAttr_append]
    simp (decide := true) [hx]; cases i.base <;> rfl
  have e2 : getAttr (stdAttrs i) xmlNS n_lang = i.lang := by
    simp only [stdAttrs, List.append_assoc, getAttr_optAttr_append]
    simp (decide := true) [hx]; cases i.lang <;> rfl
  have e3 : getAttr (stdAttrs i) rdfNS n_ID = i.id := by
    simp only [stdAttrs, List.append_assoc, getAttr_optAttr_append]
    simp (decide := true) [hs]; cases i.id <;> rfl
  have e4 : getAttr (stdAttrs i) rdfNS n_about = i.about := by
    simp only [stdAttrs, List.append_assoc, getAttr_optAttr_append]
    simp (decide := true) [hs]; cases i.about <;> rfl
  have e5 : getAttr (stdAttrs i) rdfNS n_nodeID = i.nodeID := by
    simp only [stdAttrs, List.append_assoc, getAttr_optAttr_append]
    simp (decide := true) [hs]; cases i.nodeID <;> rfl
  have e6 : getAttr (stdAttrs i) rdfNS n_resource = i.resource := by
    simp only [stdAttrs, List.append_assoc, getAttr_optAttr_append]
    simp (decide := true) [hs]; cases i.resource <;> rfl
  have e7 : getAttr (stdAttrs i) rdfNS n_datatype = i.datatype := by
    simp only [stdAttrs, List.append_assoc, getAttr_optAttr_append]
    simp (decide := true) [hs]; cases i.datatype <;> rfl
  have e8 : getAttr (stdAttrs i) rdfNS n_parseType = i.parseType := by
    simp only [stdAttrs, List.append_assoc, getAttr_optAttr_append]
    simp (decide := true) [hs]; cases i.parseType <;> rfl
  have e9 : (stdAttrs i).filter isPropAttr = i.props := by
    simp only [stdAttrs, List.filter_append, filter_optAttr_xml]
    rw [filter_optAttr_syntax _ (by decide), filter_optAttr_syntax _ (by decide),
      filter_optAttr_syntax _ (by decide), filter_optAttr_syntax _ (by decide),
      filter_optAttr_syntax _ (by decide), filter_optAttr_syntax _ (by decide)]
    simp only [List.nil_append]
    exact List.filter_eq_self.mpr hp
  have e10 : (stdAttrs i).any isBadAttr = false := by
    simp only [stdAttrs, List.any_append, any_optAttr_bad_xml, props_not_bad hp]
    rw [any_optAttr_bad_syntax _ (by decide), any_optAttr_bad_syntax _ (by decide),
      any_optAttr_bad_syntax _ (by decide), any_optAttr_bad_syntax _ (by decide),
      any_optAttr_bad_syntax _ (by decide), any_optAttr_bad_syntax _ (by decide)]
    rfl
  have e11 : (stdAttrs i).any isUnsupAttr = false := by
    simp only [stdAttrs, List.any_append, props_not_unsup hp,
      any_optAttr_unsup _ _ xmlNS_ne_nil, any_optAttr_unsup _ _ rdfNS_ne_nil]
    rfl
  unfold info
  rw [e1, e2, e3, e4, e5, e6, e7, e8, e9, e10, e11]
  cases i
  simp_all

theorem getAttr_cons (a : Attr) (as : List Attr) (ns n : Str) :
    getAttr (a :: as) ns n = if a.ns = ns ∧ a.name = n then some a.val else getAttr as ns n := by
  by_cases h : a.ns = ns ∧ a.name = n <;> simp [getAttr, List.find?, h]

theorem getAttr_none_of_not_mem {as : List Attr} {ns n : Str} (h : (ns, n) ∉ as.map attrKey) :
    getAttr as ns n = none := by
  induction as with
  | nil => rfl
  | cons a as ih =>
    simp only [List.map_cons, List.mem_cons, not_or] at h
    rw [getAttr_cons, if_neg, ih h.2]
    intro hc
    exact h.1 (by simp [attrKey, hc.1, hc.2])

/-- Attribute order does not matter: looking an attribute up by name gives the same value in every
    permutation of an attribute list with pairwise distinct names. -/
theorem getAttr_perm {as bs : List Attr} (h : as.Perm bs) (hn : (as.map attrKey).Nodup) (ns n : Str) :
    getAttr as ns n = getAttr bs ns n := by
  induction h with
  | nil => rfl
  | cons a _ ih =>
    simp only [List.map_cons, List.nodup_cons] at hn
    rw [getAttr_cons, getAttr_cons, ih hn.2]
  | swap a b l =>
    simp only [List.map_cons, List.nodup_cons, List.mem_cons, not_or] at hn
    simp only [getAttr_cons]
    by_cases ha : a.ns = ns ∧ a.name = n
    · by_cases hb : b.ns = ns ∧ b.name = n
      · exact absurd (by simp [attrKey, ha.1, ha.2, hb.1, hb.2] : attrKey b = attrKey a) hn.1.1
      · simp [ha, hb]
    · simp [ha]
  | trans h1 _ ih1 ih2 =>
    rw [ih1 hn, ih2 ((h1.map attrKey).nodup_iff.mp hn)]

/-- The attribute record of an element does not depend on the order of its attributes: the named
    attributes are equal, the property attributes are a permutation. -/
theorem info_perm {as bs : List Attr} (h : as.Perm bs) (hn : (as.map attrKey).Nodup) :
    (info as).base = (info bs).base ∧ (info as).lang = (info bs).lang ∧ (info as).id = (info bs).id ∧
    (info as).about = (info bs).about ∧ (info as).nodeID = (info bs).nodeID ∧
    (info as).resource = (info bs).resource ∧ (info as).datatype = (info bs).datatype ∧
    (info as).parseType = (info bs).parseType ∧ (info as).props.Perm (info bs).props ∧
    (info as).bad = (info bs).bad ∧ (info as).unsup = (info bs).unsup := by
  refine ⟨getAttr_perm h hn _ _, getAttr_perm h hn _ _, getAttr_perm h hn _ _, getAttr_perm h hn _ _,
    getAttr_perm h hn _ _, getAttr_perm h hn _ _, getAttr_perm h hn _ _, getAttr_perm h hn _ _,
    h.filter _, h.any_eq, h.any_eq⟩

end RdfModel.RX
