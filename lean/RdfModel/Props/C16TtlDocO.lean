/-
  Property C16 — captured text offsets, Turtle / TriG STATEMENT LAYER (theorems only; proofs in
  RdfModel/Proofs/C16TtlDocO*.lean).

  Model: `Model.TurtleDocOffsets` (namespace `TtlDocO`): the statement machine of `Model.TurtleDoc`
  instrumented with the text-offset bookkeeping of encoding/{turtle,trig}/decoder*.go — sized runes,
  rune-buffer byte offset, writer history, `commit` / `commitForTextOffsetRange` at Go's call sites,
  `…Location` fields, ranges captured by closures, the four optional ranges per statement, offsets
  attached to errors.  The driver runs it (op `ttlo.dec`); go/cmd/c16d compares it with both Go
  packages: statements, every range, verdict and error offset (T3).

  Conventions: input = decoded runes `(code point, byte size)` as `RuneBuffer.NextRune` yields them (an
  ill-formed byte is `(0xFFFD, 1)`); `C : CfgO` is any configuration (package flag `trig`, any tables,
  resolver, white-space and PN_CHARS_BASE predicates); `e` the stream ending; `capture` on or off.
-/
import RdfModel.Proofs.C16TtlDocOErase
import RdfModel.Proofs.C16TtlDocOInv
import RdfModel.Proofs.C16TtlDocOErr
import RdfModel.Gen.TtlTables
namespace RdfModel.C16TtlDocO
open RdfModel RdfModel.TW RdfModel.NQO RdfModel.TtlDoc RdfModel.TtlDocO

/-! ## 1. Turning offset capture on never changes the decoded statements (document level)

Forgetting byte sizes, bookkeeping, ranges and error offsets of the instrumented statement machine
gives EXACTLY the statement machine `TtlDoc.run` (Model/TurtleDoc.lean, the model tied to Go by
`ttld.dec` and used by C02/C05/C06/C07/C08): same statements in the same order, same verdict, for
every input, both stream endings, both packages, every base / prefix configuration, capture on or
off.  (The proof is a simulation over the continuation stack: `stepFnO_erase` for each of the 37 scan
functions, then `scan`, the `Next` loop and the run loop.) -/

theorem doc_erasure (C : CfgO) (e : End) (capture : Bool) (base : Option (List Nat))
    (prefixes : List (List Nat × List Nat)) (inp : List RP) :
    ((runO C e capture base prefixes inp).stmts.map (·.st), (runO C e capture base prefixes inp).verdict)
      = TtlDoc.run C.base e base prefixes (runes inp) :=
  Proofs.C16TtlDocO.runO_erase C e capture base prefixes inp

/-- Capture on = capture off, at document level: statements and verdict agree. -/
theorem doc_capture_on_eq_off (C : CfgO) (e : End) (base : Option (List Nat))
    (prefixes : List (List Nat × List Nat)) (inp : List RP) :
    (runO C e true base prefixes inp).stmts.map (·.st) = (runO C e false base prefixes inp).stmts.map (·.st) ∧
    (runO C e true base prefixes inp).verdict = (runO C e false base prefixes inp).verdict := by
  have h1 := doc_erasure C e true base prefixes inp
  have h2 := doc_erasure C e false base prefixes inp
  rw [← h2] at h1
  exact ⟨congrArg Prod.fst h1, congrArg Prod.snd h1⟩

/-- One `Next()` call at a time: the decoder object with bookkeeping forgotten steps exactly like the
    base decoder object (so the equality also holds for every prefix of the statement stream). -/
theorem next_erasure (C : CfgO) (e : End) (st : StO) :
    Proofs.C16TtlDocO.eraseNext (nextO C e st) = TtlDoc.next C.base e st.erase :=
  Proofs.C16TtlDocO.nextO_erase C e st

/-! ## 2. Commit discipline (capture on)

`Disc inp s rest` (Props/C16TtlDocODefs.lean): while the reader has not ended, the committed text followed
by the unread input (handed-back runes included) IS the document — every consumed rune has been written
to the text cursor exactly once, in order; this is the invariant whose violation the defects D17 (the
`.` after an N-Quads graph name) and D18 (`""` in Turtle) were.  After the reader has ended the committed
text is a prefix of the document (white space read immediately before the end is never committed: `scan`
drops its `uncommitted` list when `NextRune` fails — harmless, nothing is reported after it), possibly
followed by zero `DecodedRune`s of size 0 that closures ignoring `err` hand back to the rune buffer.
`Inv` adds: every range held in an evaluation context, a closure or a pending statement is in the
committed text.  The theorem holds after ANY number of `Next()` calls, for every document,
configuration, package and stream ending.  A state in which `Err() != nil` keeps the bookkeeping of the
last successful scan function (Go's writer may have advanced further; nothing reads it afterwards). -/

/-- State after `n` calls of `Next()` (none: a call panicked). -/
def stepsO (C : CfgO) (e : End) : Nat → StO → Option StO
  | 0, st => some st
  | n + 1, st =>
    match nextO C e st with
    | .yes st' => stepsO C e n st'
    | .no st' => stepsO C e n st'
    | .panic => none
    | .outOfFuel => none

theorem inv_steps (C : CfgO) (e : End) (inp : List RP) : ∀ (n : Nat) (st st' : StO), Inv inp st →
    stepsO C e n st = some st' → Inv inp st'
  | 0, st, st', h, hs => by simp only [stepsO, Option.some.injEq] at hs; exact hs ▸ h
  | n + 1, st, st', h, hs => by
    simp only [stepsO] at hs
    have hn := Proofs.C16TtlDocO.nextO_inv C e inp st h
    cases hq : nextO C e st with
    | yes st1 => rw [hq] at hs hn; exact inv_steps C e inp n st1 st' hn hs
    | no st1 => rw [hq] at hs hn; exact inv_steps C e inp n st1 st' hn hs
    | panic => rw [hq] at hs; cases hs
    | outOfFuel => rw [hq] at hs; cases hs

theorem doc_commit_discipline (C : CfgO) (e : End) (base : Option (List Nat))
    (prefixes : List (List Nat × List Nat)) (inp : List RP) (n : Nat) (st : StO)
    (h : stepsO C e n (initO true base prefixes inp) = some st) : Inv inp st :=
  inv_steps C e inp n _ st (Proofs.C16TtlDocO.initO_inv base prefixes inp) h

/-- The discipline component alone: committed text ++ unread input = the document (until the reader ends). -/
theorem doc_commit_discipline_text (C : CfgO) (e : End) (base : Option (List Nat))
    (prefixes : List (List Nat × List Nat)) (inp : List RP) (n : Nat) (st : StO)
    (h : stepsO C e n (initO true base prefixes inp) = some st) :
    On st.s ∧ (txt st.s ++ st.inp = inp ∨
      ∃ pre zs, txt st.s = pre ++ zs ∧ pre <+: inp ∧ AllNul zs ∧ AllNul st.inp) :=
  (doc_commit_discipline C e base prefixes inp n st h).1

/-- The hypothesis is satisfiable by a non-trivial run: two statements, the second in a graph block,
    read by two `Next()` calls of the TriG configuration over the regenerated tables. -/
example : ∃ st, stepsO ⟨true, Gen.trig, fun _ r => some r, fun _ => false, fun _ => false, false⟩ .eof 2
    (initO true none [] ((asc "<a> <b> <c> . <g> { <a> <b> <c> }").map (fun c => (c, 1)))) = some st ∧
    st.stmts.length = 1 := by
  refine ⟨_, rfl, ?_⟩
  decide

/-! ## 3. Every reported range lies inside the document

`RgInside inp rg`: the text before the range's start is a prefix of the text before its end, which is a
prefix of the document `inp` (followed by zero runes of size 0 in the degenerate end-of-input case).
Consequences for the concrete `cursorio.TextOffsetRange` (`range_offsets_inside`): initial byte ≤ From
byte ≤ Until byte ≤ initial byte + length of the document, the same for lines (for EVERY grapheme
counter), byte = initial + bytes of the text before, line = initial + LFs of the text before, the range
is the range of the run with initial offset zero shifted by the initial offset, and on `TW.simple`
text the whole offset (column included) is the position computed from the text. -/

theorem doc_ranges_inside (C : CfgO) (e : End) (base : Option (List Nat))
    (prefixes : List (List Nat × List Nat)) (inp : List RP) :
    ∀ m ∈ (runO C e true base prefixes inp).stmts,
      RgInside inp m.rg.s ∧ RgInside inp m.rg.p ∧ RgInside inp m.rg.o ∧ RgInside inp m.rg.g := by
  intro m hm
  exact Proofs.C16TtlDocO.runLoopO_inside C e inp _ _ (Proofs.C16TtlDocO.initO_inv base prefixes inp) m hm

/-- Capture off: no range at all is reported. -/
theorem size_le_of_prefix {a b : List RP} (h : a <+: b) : size a ≤ size b ∧ countLF a ≤ countLF b := by
  obtain ⟨t, rfl⟩ := h
  rw [Proofs.C16.size_append, Proofs.C16.countLF_append]; omega

theorem allNul_size {zs : List RP} (h : AllNul zs) : size zs = 0 ∧ countLF zs = 0 := by
  induction zs with
  | nil => exact ⟨rfl, rfl⟩
  | cons z zs ih =>
    have hz := h z List.mem_cons_self
    have := ih (fun y hy => h y (List.mem_cons_of_mem _ hy))
    subst hz
    simp [size, countLF, this.1, this.2]

theorem range_offsets_inside (cols : List Nat → Nat) (init : Offset) {inp : List RP} {rg : Rg}
    (h : RgInside inp rg) (r : SRange) (hr : rg = some r) :
    let fu := evalRange cols init r
    init.byte ≤ fu.1.byte ∧ fu.1.byte ≤ fu.2.byte ∧ fu.2.byte ≤ init.byte + size inp ∧
    init.line ≤ fu.1.line ∧ fu.1.line ≤ fu.2.line ∧ fu.2.line ≤ init.line + countLF inp ∧
    fu.1.byte = init.byte + size (histRunes r.1) ∧ fu.1.line = init.line + countLF (histRunes r.1) ∧
    fu.2.byte = init.byte + size (histRunes r.2) ∧ fu.2.line = init.line + countLF (histRunes r.2) ∧
    fu = (shift init (evalRange cols zero r).1, shift init (evalRange cols zero r).2) ∧
    (ColsSimple cols → simple (runes (histRunes r.2)) = true →
      fu.2 = posAfter init (histRunes r.2)) := by
  obtain ⟨h1, p, zs, h2, h3, h4⟩ := h r hr
  have a1 := size_le_of_prefix h1
  have a2 := size_le_of_prefix h3
  have a3 := allNul_size h4
  have e2 : size (histRunes r.2) = size p ∧ countLF (histRunes r.2) = countLF p := by
    rw [h2, Proofs.C16.size_append, Proofs.C16.countLF_append]; omega
  simp only [evalRange]
  rw [Proofs.C16.histOffset_byte, Proofs.C16.histOffset_byte, Proofs.C16.histOffset_line, Proofs.C16.histOffset_line]
  refine ⟨by omega, by omega, by omega, by omega, by omega, by omega, rfl, rfl, rfl, rfl, ?_, ?_⟩
  · rw [Proofs.C16.histOffset_shift cols init r.1, Proofs.C16.histOffset_shift cols init r.2]
  · intro hc hs
    exact Proofs.C16.histOffset_simple hc init r.2 hs

/-- The hypotheses of `range_offsets_inside` are met by the ranges `doc_ranges_inside` talks about, and
    such ranges exist: the object of `<a> <b> <c> .` carries one (capture on). -/
example : ((runO ⟨false, Gen.turtle, fun _ r => some r, fun _ => false, fun _ => false, false⟩ .eof true none []
    ((asc "<a> <b> <c> .").map (fun c => (c, 1)))).stmts.map (fun m => m.rg.o.isSome)) = [true] := by decide

/-! ## 4. Offsets reported with errors lie inside the document; byte accounting (capture on AND off)

`EOff.bound` (Props/C16Defs.lean): the byte position an error offset refers to, relative to the start of
the input (for a range: its larger end; 0 when the error carries no offset).  Whatever the run ends with —
an error raised by the statement layer itself (`newOffsetError` with its `readUncommitted` / `readIgnored`
arguments, including the sites where Go hands the rune back first and the capture-off offset is short by
the rune's size), by a token producer, or a resolution / unknown-prefix error carrying the token's
range — the position is at most the length of the document.  For the concrete value the API shows
(`evalEOff`): a bare byte offset (capture off) is ≤ the document length; a text offset / range (capture on)
has initial byte ≤ byte ≤ initial byte + document length.  The invariant behind it (`byte_accounting`):
after any number of `Next()` calls the rune buffer's byte offset plus the bytes still unread is the
document length, and the writer holds at most what the buffer has handed out. -/

theorem doc_error_offset_inside (C : CfgO) (e : End) (capture : Bool) (base : Option (List Nat))
    (prefixes : List (List Nat × List Nat)) (inp : List RP) :
    C16.EOff.bound (runO C e capture base prefixes inp).eoff ≤ size inp :=
  Proofs.C16TtlDocO.runLoopO_B C e (size inp) _ _ (Proofs.C16TtlDocO.initO_B capture base prefixes inp)

theorem doc_error_position_inside (C : CfgO) (e : End) (capture : Bool) (base : Option (List Nat))
    (prefixes : List (List Nat × List Nat)) (inp : List RP) (cols : List Nat → Nat) (init : Offset) :
    C16.ErrInside init (size inp) (evalEOff cols init (runO C e capture base prefixes inp).eoff) :=
  Proofs.C16Ttl.errInside_of_bound cols init _ _ (doc_error_offset_inside C e capture base prefixes inp)

theorem byte_accounting (C : CfgO) (e : End) (capture : Bool) (base : Option (List Nat))
    (prefixes : List (List Nat × List Nat)) (inp : List RP) : ∀ (n : Nat) (st st' : StO),
    Proofs.C16TtlDocO.BInv (size inp) st → stepsO C e n st = some st' →
    st'.s.bo + size st'.inp = size inp ∧ (∀ h, st'.s.doc = some h → size (histRunes h) ≤ st'.s.bo)
  | 0, st, st', h, hs => by
    simp only [stepsO, Option.some.injEq] at hs
    subst hs
    exact ⟨h.1, fun d hd => by have := h.2.1 d hd; omega⟩
  | n + 1, st, st', h, hs => by
    simp only [stepsO] at hs
    have hn := Proofs.C16TtlDocO.nextO_B C e (size inp) st h
    cases hq : nextO C e st with
    | yes st1 => rw [hq] at hs hn; exact byte_accounting C e capture base prefixes inp n st1 st' hn hs
    | no st1 => rw [hq] at hs hn; exact byte_accounting C e capture base prefixes inp n st1 st' hn hs
    | panic => rw [hq] at hs; cases hs
    | outOfFuel => rw [hq] at hs; cases hs

/-! ### Defect D45 (patch c16d-1), as a fact about the model

`<s> .` (Turtle, capture off): the `.` at byte 4 is not a predicate.  `reader_scan_PredicateObjectList` hands
it back, `…_Required` then reports it with the rune as `readIgnored`: before the patch (`dbl = true`) the
byte offset is 3 — short by the size of the rune (for `[]‰` Go reports -1; the model truncates at 0) —
after the patch 4, the start of the offending rune.  Both are "inside the document" in the sense of
`doc_error_offset_inside`; only the repaired value is the position of the rune. -/

theorem handback_offset_short_legacy :
    C16.EOff.bound (runO ⟨false, Gen.turtle, fun _ r => some r, fun _ => false, fun _ => false, true⟩ .eof false none []
      ((asc "<s> .").map (fun c => (c, 1)))).eoff = 3 ∧
    C16.EOff.bound (runO ⟨false, Gen.turtle, fun _ r => some r, fun _ => false, fun _ => false, false⟩ .eof false none []
      ((asc "<s> .").map (fun c => (c, 1)))).eoff = 4 := by decide

/-- Capture off: no statement carries a range (there is no writer to produce one). -/
example : (runO ⟨false, Gen.turtle, fun _ r => some r, fun _ => false, fun _ => false, false⟩ .eof false none []
    ((asc "<a> <b> <c> , [ <p> ( 1 ) ] .").map (fun c => (c, 1)))).stmts.all
      (fun m => m.rg.s.isNone && m.rg.p.isNone && m.rg.o.isNone && m.rg.g.isNone) = true := by decide

end RdfModel.C16TtlDocO
