// Command c10d: part C10D (serves C10, C05, C06). Correspondence (T3) between
// RdfModel.Model.JsonLdToRdf — the Lean model of the deserialize-to-RDF stage of /repo's JSON-LD
// decoder (encoding/jsonld/decoder.go: decodeElement, decodeValueNode, Next) — and the real code.
//
// The cut is the expanded form: for every document the real decoder is run (statements in emission
// order, blank nodes renumbered by first occurrence, error class) and, separately, the hook
// jsonld.VerifExpand renders the value jsonldinternal.Expand hands to decodeElement; the driver op
// `jld.run` evaluates the model on that tree. EXACT agreement is required. `jld.inv` checks the
// invariant of the expansion output the no-panic theorem assumes (C10D.ExpOK) and the representation
// invariant (sorted members) on every tree. Synthetic trees (also ones the expansion never produces:
// wrong shapes, nil values, blank-node properties, reversed lists) are pushed through the real
// decodeElement with the hook jsonld.VerifDecodeExpanded and compared with `jld.all`.
// `jld.flat` ties C10D.expandFlat (the expansion of JL.writeFlat documents used by theorem
// jld_refines_fragment_partial) to the real expansion.
package main

import (
	"flag"
	"fmt"
	"os"
	"strings"

	"verifharness/vh"
)

var (
	tier     = flag.String("tier", "quick", "quick|thorough")
	driver   = flag.String("driver", "/verif/lean/.lake/build/bin/driver", "lean driver binary")
	out      = flag.String("out", "/verif/evidence/.c10d.report.json", "report path")
	findings = flag.String("findings", "/verif/known-findings.json", "known findings")
	replay   = flag.String("replay", "", "replay file (one protocol line per line)")
	scale    = flag.Int("scale", 1, "multiply generated case counts (search mode uses 10)")
	nomodel  = flag.Bool("nomodel", false, "property oracles on the implementation only")
	hints    = flag.String("hints", "", "file of protocol lines that disagreed; replayed first")
	only     = flag.String("only", "", "development: run only the named stages (corpus,write,mutate,flat,synthetic,values)")
	verbose  = flag.Bool("v", false, "development: print every case")
)

type item struct {
	line  string
	check func(model string)
}

type harness struct {
	r     *vh.Rng
	rep   *vh.Report
	known map[string]vh.Finding
	items []item
	hash  uint64
}

func (h *harness) stable(s string) {
	if h.hash == 0 {
		h.hash = 14695981039346656037
	}
	for i := 0; i < len(s); i++ {
		h.hash ^= uint64(s[i])
		h.hash *= 1099511628211
	}
	h.hash ^= 0xff
	h.hash *= 1099511628211
}

func (h *harness) add(line string, check func(model string)) {
	h.items = append(h.items, item{line, check})
}

func repoDir() string {
	if d := os.Getenv("VERIF_REPO"); d != "" {
		return d
	}
	return "/repo"
}

func stage(name string) bool {
	if *only == "" {
		return true
	}
	for _, s := range strings.Split(*only, ",") {
		if s == name {
			return true
		}
	}
	return false
}

func modeTok(mode11 bool) string {
	if mode11 {
		return "11"
	}
	return "10"
}

func baseTok(base string) string {
	if base == "" {
		return "-"
	}
	return vh.XS(base)
}

func main() {
	flag.Parse()
	seed := vh.SeedFromEnv()
	rep := vh.NewReport("C10D", *tier, seed, "documents: every W3C toRdf and expand test input shipped in /repo under its manifest options and under the other rdfDirection / processing modes; documents of the Lean fragment writer (jl.write) for generated datasets under random choices; structural and byte-level mutations of both (strict and lax tokenizer); JL.writeFlat documents; synthetic expanded trees pushed through the real decodeElement; the bounded-exhaustive family of value objects. Non-trivial = the expansion succeeded and the expanded tree contains an object (document cases) / the tree contains an object (synthetic cases)")
	h := &harness{r: vh.NewRng(seed), rep: rep}
	fs, err := vh.LoadFindings(*findings)
	if err != nil {
		fmt.Fprintln(os.Stderr, "findings:", err)
		os.Exit(2)
	}
	h.known = vh.KnownKeys(fs, "C10")

	n := 1500 * *scale
	if *tier == "thorough" {
		n = 60000 * *scale
	}
	if *replay != "" {
		h.replayFile(*replay)
	} else {
		if *hints != "" {
			h.replayFile(*hints)
		}
		if stage("corpus") {
			h.corpus()
		}
		if stage("values") {
			h.valueObjectsExhaustive()
		}
		if stage("write") {
			h.writeCases(n)
		}
		if stage("mutate") {
			h.mutateCases(2 * n)
		}
		if stage("flat") {
			h.flatCases(n / 2)
		}
		if stage("synthetic") {
			h.syntheticCases(4 * n)
		}
	}

	if !*nomodel {
		for round := 0; len(h.items) > 0 && round < 4; round++ {
			items := h.items
			h.items = nil
			lines := make([]string, len(items))
			for i, it := range items {
				lines[i] = it.line
			}
			res, err := vh.Driver{Path: *driver}.RunParallel(lines)
			if err != nil {
				fmt.Fprintln(os.Stderr, err)
				os.Exit(2)
			}
			for i, it := range items {
				rep.Compared++
				it.check(res[i])
			}
		}
	}
	rep.Hist["case-stream-hash"] = int(h.hash % 1000000007)
	if c := loaderCalls.Load(); c > 0 {
		rep.Hist["document-loader-calls"] = int(c)
	}
	if rep.Cases == nil {
		rep.Cases = []vh.Case{}
	}
	if err := rep.Write(*out); err != nil {
		fmt.Fprintln(os.Stderr, err)
		os.Exit(2)
	}
	fmt.Printf("c10d: %d evaluations, %d compared with the model, %d failures, %d known\n", rep.Evaluations, rep.Compared, rep.Failures(), len(rep.Cases)-rep.Failures())
	if rep.Failures() > 0 {
		os.Exit(1)
	}
}

// replayFile: each line is `doc <mode|-> <base x..|-> <dir> <lax 0|1> x<hex of document>` or
// `tree <dir> <tree>`.
func (h *harness) replayFile(path string) {
	b, err := os.ReadFile(path)
	if err != nil {
		fmt.Fprintln(os.Stderr, "replay:", err)
		os.Exit(2)
	}
	for _, l := range strings.Split(string(b), "\n") {
		f := strings.Fields(l)
		switch {
		case len(f) == 6 && f[0] == "doc":
			o := opts{dir: f[3], lax: f[4] == "1"}
			if f[1] != "-" {
				o.mode = f[1]
			}
			if f[2] != "-" {
				bs, _ := vh.UnX(f[2])
				o.base = string(bs)
			}
			if o.dir == "-" {
				o.dir = ""
			}
			text, err := vh.UnX(f[5])
			if err == nil {
				h.docCase("replay", text, o)
			}
		case len(f) == 3 && f[0] == "tree":
			h.treeCase("replay", f[2], f[1])
		}
	}
}
