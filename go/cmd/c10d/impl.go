package main

// The implementation side (real decoder, hooks) and the comparison with the model.

import (
	"bytes"
	"context"
	"encoding/hex"
	"encoding/json"
	"errors"
	"fmt"
	"runtime/debug"
	"strconv"
	"strings"
	"sync/atomic"

	"verifharness/vh"

	"github.com/dpb587/inspectjson-go/inspectjson"
	"github.com/dpb587/rdfkit-go/encoding/jsonld"
	"github.com/dpb587/rdfkit-go/encoding/jsonld/jsonldtype"
	"github.com/dpb587/rdfkit-go/rdf"
)

var loaderCalls atomic.Int64

var refusingLoader = jsonldtype.DocumentLoaderFunc(func(ctx context.Context, url string, opts jsonldtype.DocumentLoaderOptions) (jsonldtype.RemoteDocument, error) {
	loaderCalls.Add(1)
	return jsonldtype.RemoteDocument{}, errors.New("c10d harness: document loading is disabled")
})

// labelOf is the blank node labeller of the copied generators (gen.go).
func labelOf(i int) string {
	if i == 0 {
		return "b"
	}
	return "n" + strconv.Itoa(i)
}

func gquadsWire(qs []vh.GQuad) string {
	if len(qs) == 0 {
		return "-"
	}
	parts := make([]string, len(qs))
	for i, q := range qs {
		g := "-"
		if q.G != nil {
			g = q.G.Wire(labelOf)
		}
		parts[i] = q.S.Wire(labelOf) + "," + q.P.Wire(labelOf) + "," + q.O.Wire(labelOf) + "," + g
	}
	return strings.Join(parts, ";")
}

// opts are the decoder options that matter to expansion and to the stage under study.
type opts struct {
	mode          string // "", "json-ld-1.0", "json-ld-1.1"
	base          string
	dir           string // "", "i18n-datatype", "compound-literal"
	lax           bool
	expandContext []byte
}

func (o opts) String() string {
	return fmt.Sprintf("mode=%q base=%q dir=%q lax=%v ectx=%d", o.mode, o.base, o.dir, o.lax, len(o.expandContext))
}

func (o opts) cfg() jsonld.DecoderConfig {
	c := jsonld.DecoderConfig{}.SetDocumentLoader(refusingLoader)
	if o.mode != "" {
		c = c.SetProcessingMode(o.mode)
	}
	if o.base != "" {
		c = c.SetDefaultBase(o.base)
	}
	if o.dir != "" {
		c = c.SetRDFDirection(o.dir)
	}
	if o.lax {
		c = c.SetParserOptions(inspectjson.TokenizerConfig{}.SetLax(true))
	}
	if o.expandContext != nil {
		if v, err := inspectjson.Parse(bytes.NewReader(o.expandContext)); err == nil && v != nil {
			c = c.SetExpandContext(v)
		}
	}
	return c
}

func dirTok(dir string) string {
	switch dir {
	case "":
		return "-"
	case "i18n-datatype":
		return "i18n"
	case "compound-literal":
		return "compound"
	}
	return "other"
}

func panicSite(stack string) string {
	for _, l := range strings.Split(stack, "\n") {
		l = strings.TrimSpace(l)
		if i := strings.Index(l, "/encoding/jsonld/"); i >= 0 && strings.Contains(l, ".go:") && !strings.Contains(l, "export_verif.go") {
			s := l[i+1:]
			if j := strings.IndexByte(s, ' '); j >= 0 {
				s = s[:j]
			}
			return s
		}
	}
	return "?"
}

type decOut struct {
	quads    []rdf.Quad
	err      error
	panicked string
	protocol string // violation of the Next/Err protocol, if any
}

// runDecoder iterates the real decoder to the end and probes the terminal state (C05).
func runDecoder(text []byte, o opts) (res decOut) {
	defer func() {
		if r := recover(); r != nil {
			res.panicked = fmt.Sprintf("%s: %v", panicSite(string(debug.Stack())), r)
		}
	}()
	d, err := jsonld.NewDecoder(bytes.NewReader(text), o.cfg())
	if err != nil {
		res.err = err
		return
	}
	for d.Next() {
		res.quads = append(res.quads, d.Quad())
		if len(res.quads) > 1<<20 {
			res.protocol = "more than 2^20 statements"
			return
		}
	}
	res.err = d.Err()
	if d.Next() || d.Next() {
		res.protocol = "Next returned true after false"
	}
	if e2 := d.Err(); (e2 == nil) != (res.err == nil) || (e2 != nil && e2.Error() != res.err.Error()) {
		res.protocol = "Err changed after the end"
	}
	if err := d.Close(); err != nil {
		res.protocol = "Close failed: " + err.Error()
	}
	return
}

func hookExpand(text []byte, o opts) (tree, stage string, err error) {
	defer func() {
		if r := recover(); r != nil {
			stage = "panic"
			err = fmt.Errorf("%s: %v", panicSite(string(debug.Stack())), r)
		}
	}()
	return jsonld.VerifExpand(bytes.NewReader(text), o.cfg())
}

func hookDecode(tree, dir string) (quads []rdf.Quad, err error, panicked string) {
	defer func() {
		if r := recover(); r != nil {
			panicked = fmt.Sprintf("%s: %v", panicSite(string(debug.Stack())), r)
		}
	}()
	quads, err = jsonld.VerifDecodeExpanded(tree, dir)
	return
}

// ---------------------------------------------------------------- canonical statements

type numbering struct {
	ids map[string]int
}

func (n *numbering) of(k string) string {
	if n.ids == nil {
		n.ids = map[string]int{}
	}
	id, ok := n.ids[k]
	if !ok {
		id = len(n.ids)
		n.ids[k] = id
	}
	return "b" + strconv.Itoa(id)
}

func hx(s string) string { return hex.EncodeToString([]byte(s)) }

// canonGo renders the decoder's statements with blank nodes numbered by first occurrence.
func canonGo(qs []rdf.Quad) []string {
	labels := map[rdf.BlankNodeIdentifier]int{}
	term := func(t rdf.Term) string {
		switch v := t.(type) {
		case nil:
			return "-"
		case rdf.IRI:
			return "I" + hx(string(v))
		case rdf.BlankNode:
			if v.Identifier == nil {
				return "b?nil-identifier"
			}
			id, ok := labels[v.Identifier]
			if !ok {
				// identifiers are compared with EqualsBlankNodeIdentifier (string identifiers are not pointer-equal)
				for k, kid := range labels {
					if k.EqualsBlankNodeIdentifier(v.Identifier) {
						id, ok = kid, true
						break
					}
				}
				if !ok {
					id = len(labels)
					labels[v.Identifier] = id
				}
			}
			return "b" + strconv.Itoa(id)
		case rdf.Literal:
			tag := "-"
			switch tg := v.Tag.(type) {
			case nil:
			case rdf.LanguageLiteralTag:
				tag = hx(tg.Language)
			case rdf.DirectionalLanguageLiteralTag:
				tag = hx(tg.Language + "--" + tg.BaseDirection)
			default:
				tag = fmt.Sprintf("?%T", tg)
			}
			return "L" + hx(v.LexicalForm) + "." + hx(string(v.Datatype)) + "." + tag
		}
		return fmt.Sprintf("?%T", t)
	}
	out := make([]string, len(qs))
	for i, q := range qs {
		var g rdf.Term
		if q.GraphName != nil {
			g = q.GraphName
		}
		var s, p, o rdf.Term
		if q.Triple.Subject != nil {
			s = q.Triple.Subject
		}
		if q.Triple.Predicate != nil {
			p = q.Triple.Predicate
		}
		if q.Triple.Object != nil {
			o = q.Triple.Object
		}
		out[i] = term(s) + "," + term(p) + "," + term(o) + "," + term(g)
	}
	return out
}

// canonModel renumbers the blank nodes (B<hex>, F<n>) of the model's statements by first occurrence.
func canonModel(s string) ([]string, error) {
	if s == "-" {
		return nil, nil
	}
	var num numbering
	parts := strings.Split(s, ";")
	out := make([]string, len(parts))
	for i, q := range parts {
		ts := strings.Split(q, ",")
		if len(ts) != 4 {
			return nil, fmt.Errorf("statement %q", q)
		}
		for j, t := range ts {
			if t != "" && (t[0] == 'B' || t[0] == 'F') {
				ts[j] = num.of(t)
			}
		}
		out[i] = strings.Join(ts, ",")
	}
	return out, nil
}

var tyNames = map[string]string{
	"<nil>":                                    "nil",
	"*jsonldinternal.ExpandedArray":            "array",
	"*jsonldinternal.ExpandedObject":           "object",
	"*jsonldinternal.ExpandedScalarPrimitive":  "primitive",
	"inspectjson.NullValue":                    "jnull",
	"inspectjson.StringValue":                  "jstring",
	"inspectjson.NumberValue":                  "jnumber",
	"inspectjson.BooleanValue":                 "jboolean",
	"inspectjson.ObjectValue":                  "jobject",
	"inspectjson.ArrayValue":                   "jarray",
}

// errClass maps the error of the deserialize stage to the model's enum.
func errClass(err error) string {
	if err == nil {
		return "-"
	}
	m := err.Error()
	pre := ""
	for strings.HasPrefix(m, "decode list item: ") {
		pre += "li:"
		m = strings.TrimPrefix(m, "decode list item: ")
	}
	switch {
	case strings.HasPrefix(m, "unexpected expanded value for "):
		rest := strings.TrimPrefix(m, "unexpected expanded value for ")
		i := strings.LastIndex(rest, ": ")
		if i < 0 {
			return pre + "?" + m
		}
		ty, ok := tyNames[rest[i+2:]]
		if !ok {
			ty = "?" + rest[i+2:]
		}
		return pre + "shape:" + hx(rest[:i]) + ":" + ty
	case strings.HasPrefix(m, "unexpected value type: "):
		return pre + "vt:" + hx(strings.TrimPrefix(m, "unexpected value type: "))
	case strings.HasPrefix(m, "marshal for @json: "):
		return pre + "marshal"
	}
	return pre + "?" + m
}

// ---------------------------------------------------------------- C06 oracle on the implementation

const (
	rdfLangString    = "http://www.w3.org/1999/02/22-rdf-syntax-ns#langString"
	rdfDirLangString = "http://www.w3.org/1999/02/22-rdf-syntax-ns#dirLangString"
)

// illFormed mirrors C10D.WfRQ on rdf.Quad values.
func illFormed(q rdf.Quad) string {
	switch s := q.Triple.Subject.(type) {
	case rdf.IRI:
	case rdf.BlankNode:
		if s.Identifier == nil {
			return "subject blank node without identity"
		}
	default:
		return fmt.Sprintf("subject %T", s)
	}
	switch p := q.Triple.Predicate.(type) {
	case rdf.IRI:
		if p == "" {
			return "empty predicate"
		}
	default:
		return fmt.Sprintf("predicate %T", p)
	}
	switch o := q.Triple.Object.(type) {
	case rdf.IRI:
	case rdf.BlankNode:
		if o.Identifier == nil {
			return "object blank node without identity"
		}
	case rdf.Literal:
		switch tg := o.Tag.(type) {
		case nil:
			if o.Datatype == "" || o.Datatype == rdfLangString || o.Datatype == rdfDirLangString {
				return "untagged literal with datatype " + strconv.Quote(string(o.Datatype))
			}
		case rdf.LanguageLiteralTag:
			if o.Datatype != rdfLangString || tg.Language == "" {
				return "language-tagged literal: datatype " + strconv.Quote(string(o.Datatype)) + " tag " + strconv.Quote(tg.Language)
			}
		default:
			return fmt.Sprintf("literal tag %T", tg)
		}
	default:
		return fmt.Sprintf("object %T", o)
	}
	switch g := q.GraphName.(type) {
	case nil:
	case rdf.IRI:
	case rdf.BlankNode:
		if g.Identifier == nil {
			return "graph blank node without identity"
		}
	default:
		return fmt.Sprintf("graph name %T", g)
	}
	return ""
}

// ---------------------------------------------------------------- cases

var featureKeys = []string{"@list", "@reverse", "@included", "@graph", "@type", "@language", "@direction", "@index", "@value", "@id"}

func treeFeatures(rep *vh.Report, tree string) {
	for _, k := range featureKeys {
		if strings.Contains(tree, hx(k)+";") {
			rep.Count("tree:" + k)
		}
	}
	if strings.Contains(tree, "Ps"+hx("@json")+";") {
		rep.Count("tree:@json")
	}
	if strings.Contains(tree, "Pd") {
		rep.Count("tree:native-number")
	}
	if strings.Contains(tree, "Pt") || strings.Contains(tree, "Pf") {
		rep.Count("tree:native-boolean")
	}
	if strings.Contains(tree, hx("_:")) {
		rep.Count("tree:blank-node-identifier")
	}
}

func replayDoc(text []byte, o opts) string {
	m := o.mode
	if m == "" {
		m = "-"
	}
	d := o.dir
	if d == "" {
		d = "-"
	}
	return fmt.Sprintf("doc %s %s %s %s %s", m, baseTok(o.base), d, vh.B01(o.lax), vh.X(text))
}

// docCase: one document through the real decoder, the hook and the model.
func (h *harness) docCase(what string, text []byte, o opts) {
	desc := fmt.Sprintf("%s %s doc=%s", what, o, clip(string(text), 600))
	dec := runDecoder(text, o)
	tree, stg, herr := hookExpand(text, o)
	h.stable(what + o.String() + string(text))
	h.rep.Count("op:doc")
	if *verbose {
		fmt.Println("DOC", desc, "stage", stg, "tree", tree)
	}
	if dec.protocol != "" {
		h.rep.Add(vh.Case{Kind: "violation", Op: replayDoc(text, o), Go: dec.protocol, Detail: "C05 iteration protocol — " + desc})
	}
	for _, q := range dec.quads {
		if bad := illFormed(q); bad != "" {
			h.rep.Add(vh.Case{Kind: "violation", Op: replayDoc(text, o), Go: bad, Detail: "C06 ill-formed statement — " + desc})
			break
		}
	}
	if stg != "" {
		// the document does not reach the stage under study
		h.rep.Count("stage-failed:" + stg)
		h.rep.Eval(desc, false)
		switch {
		case stg == "panic" || dec.panicked != "":
			// panics inside tokenizer/expansion belong to the C05 search (cmd/c05x); only counted here
			h.rep.Count("panic-before-deserialize")
			if (stg == "panic") != (dec.panicked != "") {
				h.rep.Add(vh.Case{Kind: "disagreement", Op: replayDoc(text, o), Go: "decoder panic: " + dec.panicked, Model: "hook: " + fmt.Sprint(herr), Detail: "hook and decoder differ before the deserialize stage — " + desc})
			}
		case dec.err == nil || len(dec.quads) > 0:
			h.rep.Add(vh.Case{Kind: "disagreement", Op: replayDoc(text, o), Go: fmt.Sprintf("err=%v quads=%d", dec.err, len(dec.quads)), Model: "hook: " + stg + ": " + fmt.Sprint(herr), Detail: "the hook failed before the deserialize stage but the decoder went on — " + desc})
		case stg != "config" && !strings.HasPrefix(dec.err.Error(), stg+": "):
			h.rep.Add(vh.Case{Kind: "disagreement", Op: replayDoc(text, o), Go: dec.err.Error(), Model: "hook: " + stg + ": " + fmt.Sprint(herr), Detail: "hook and decoder fail in different steps — " + desc})
		}
		return
	}
	nontrivial := strings.Contains(tree, "O")
	h.rep.Eval(desc, nontrivial)
	treeFeatures(h.rep, tree)
	if strings.ContainsAny(tree, "Z?") {
		h.rep.Add(vh.Case{Kind: "violation", Op: replayDoc(text, o), Go: clip(tree, 400), Detail: "the expansion produced a typed nil pointer or a value of an unknown type (outside the inductive type Exp) — " + desc})
		return
	}
	if *nomodel {
		if dec.panicked != "" {
			h.rep.Add(vh.Case{Kind: "violation", Op: replayDoc(text, o), Go: "panic " + dec.panicked, Detail: "C05 decoder panic in the deserialize stage — " + desc})
		}
		return
	}
	h.add("jld.inv "+tree, func(model string) {
		if model != "expok=1 sorted=1" {
			h.rep.Add(vh.Case{Kind: "violation", Op: replayDoc(text, o), Model: model, Go: clip(tree, 400), Detail: "the expansion output violates the invariant the decoder relies on (C10D.ExpOK: no nil inspectjson.Value, no panicking AsBuiltin; members sorted) — " + desc})
		}
	})
	h.add("jld.run "+dirTok(o.dir)+" "+tree, func(model string) {
		h.compareRun(replayDoc(text, o), desc, model, dec)
	})
}

func (h *harness) compareRun(op, desc, model string, dec decOut) {
	goS := ""
	if dec.panicked != "" {
		goS = "panic"
		h.rep.Count("deserialize:panic")
		h.rep.Add(vh.Case{Kind: "violation", Op: op, Go: "panic " + dec.panicked, Model: model, Detail: "C05 decoder panic in the deserialize stage — " + desc})
	} else {
		qs := canonGo(dec.quads)
		q := "-"
		if len(qs) > 0 {
			q = strings.Join(qs, ";")
		}
		goS = "done " + q + " " + errClass(dec.err)
		if dec.err != nil {
			h.rep.Count("deserialize:error")
		} else {
			h.rep.Count("deserialize:ok")
			if len(qs) == 0 {
				h.rep.Count("deserialize:ok-empty")
			}
		}
	}
	modelS := model
	if strings.HasPrefix(model, "done ") {
		f := strings.Fields(model)
		if len(f) == 3 {
			qs, err := canonModel(f[1])
			if err == nil {
				q := "-"
				if len(qs) > 0 {
					q = strings.Join(qs, ";")
				}
				modelS = "done " + q + " " + f[2]
			}
		}
	}
	if goS != modelS {
		h.rep.Add(vh.Case{Kind: "disagreement", Op: op, Go: clip(goS, 1500), Model: clip(modelS, 1500), Detail: "model and decoder differ — " + desc})
	}
}

// treeCase: a synthetic expanded tree through the real decodeElement (hook) and the model (`jld.all`).
func (h *harness) treeCase(what, tree, dirT string) {
	dir := map[string]string{"-": "", "i18n": "i18n-datatype", "compound": "compound-literal", "other": "bogus-direction"}[dirT]
	desc := fmt.Sprintf("%s dir=%s tree=%s", what, dirT, clip(tree, 600))
	quads, err, panicked := hookDecode(tree, dir)
	h.stable(what + dirT + tree)
	h.rep.Count("op:tree")
	h.rep.Eval(desc, strings.Contains(tree, "O"))
	if err != nil && strings.HasPrefix(err.Error(), "verif tree: ") {
		h.rep.Add(vh.Case{Kind: "disagreement", Op: "tree " + dirT + " " + tree, Go: err.Error(), Detail: "the harness generated a tree the hook cannot read — " + desc})
		return
	}
	if *nomodel {
		return
	}
	h.add("jld.all "+dirT+" "+tree, func(model string) {
		goS := ""
		switch {
		case panicked != "":
			goS = "panic"
			h.rep.Count("tree:panic")
		default:
			qs := canonGo(quads)
			q := "-"
			if len(qs) > 0 {
				q = strings.Join(qs, ";")
			}
			if err != nil {
				goS = "err " + errClass(err) + " " + q
				h.rep.Count("tree:error")
			} else {
				goS = "ok " + q
				h.rep.Count("tree:ok")
			}
		}
		modelS := model
		f := strings.Fields(model)
		switch {
		case len(f) == 3 && f[0] == "ok":
			if qs, e := canonModel(f[1]); e == nil {
				modelS = "ok " + joinOrDash(qs)
			}
		case len(f) == 3 && f[0] == "err":
			if qs, e := canonModel(f[2]); e == nil {
				modelS = "err " + f[1] + " " + joinOrDash(qs)
			}
		}
		if goS != modelS {
			h.rep.Add(vh.Case{Kind: "disagreement", Op: "tree " + dirT + " " + tree, Go: clip(goS+" "+panicked, 1500), Model: clip(modelS, 1500), Detail: "model and decodeElement differ on a synthetic tree — " + desc})
		}
	})
}

func joinOrDash(qs []string) string {
	if len(qs) == 0 {
		return "-"
	}
	return strings.Join(qs, ";")
}

func clip(s string, n int) string {
	if len(s) > n {
		return s[:n] + "…"
	}
	return s
}

// jsonText is what decodeValueNode writes for an `@json` value.
func jsonText(v any) (string, bool) {
	buf := &bytes.Buffer{}
	enc := json.NewEncoder(buf)
	enc.SetEscapeHTML(false)
	if err := enc.Encode(v); err != nil {
		return "", false
	}
	return string(buf.Bytes()[:buf.Len()-1]), true
}
