/-
  C06 (part: decoders without a parsing model) — emission sites.

  Property text: "each statement a decoder yields has an IRI or blank node as subject, an IRI as
  predicate, an IRI, blank node or literal as object and nothing, an IRI or a blank node as graph
  name; none of these is nil".

  What T2 gives (Gen/EmitSites.lean, regenerated from the Go sources on every run): every composite
  literal of type rdf.Triple / rdf.Quad and every assignment to a field of such a value in the
  decoder packages, with the static class of the expression in each position. The *kinds* of the
  terms are enforced by Go's type system (closed position interfaces: a literal cannot stand in
  subject position); what the type system does not exclude is `nil`.

  `emit_sites_static` : every site either has a concrete value type (rdf.IRI, rdf.BlankNode,
  rdf.Literal — cannot be nil) in subject, predicate and object position, or is one of the
  hand-reviewed dynamic sites below (key = package, function, ordinal within the function, and the
  class pattern seen at review time; no file:line). A new site, a site whose classes changed, or a
  shape the extractor does not understand (`unknown`) makes the theorem fail.

  This is a *static* table plus a human review, not a proof that the dynamic sites never carry nil:
  for RDF/XML, JSON-LD, RDFa and Microdata that is checked only by the search oracle of
  go/cmd/c05x -prop C06 (every statement every decoder yields on every generated input). For
  N-Triples, N-Quads, RDF/JSON, Turtle and TriG it is proved on their models elsewhere in /verif.
-/
import RdfModel.Model.EmitSite
import RdfModel.Gen.EmitSites
namespace RdfModel.C06X
open RdfModel.EmitSite

structure Reviewed where
  pkg : String
  func : String
  ord : Nat
  pattern : String   -- classes of subject, predicate, object, graph: v i a n c - ?
  why : String

/-- Hand-written review of every emission site with an interface-typed (nil-able), absent or copied
    position. pattern letters: v value type, i interface, a absent, c copied triple, - untouched. -/
def reviewedDynamicSites : List Reviewed := [
  ⟨"encoding/encodingutil", "(TripleAsQuadDecoder).Quad", 0, "ccci",
    "copies the triple the wrapped triples decoder has just yielded; graphName nil = default graph"⟩,
  ⟨"encoding/htmlmicrodata", "(*Decoder).walk", 0, "ivia",
    "inside the else of `if ectx.CurrentSubject == nil`; nextSubject is assigned in both branches above (rdf.IRI from @itemid or a fresh blank node)"⟩,
  ⟨"encoding/htmlmicrodata", "(*Decoder).walk", 1, "ivva",
    "nextSubject assigned in both branches above (rdf.IRI from @itemid or a fresh blank node)"⟩,
  ⟨"encoding/htmlmicrodata", "(*Decoder).walk", 2, "ivia",
    "inside `if len(attrItemprop) > 0 && ectx.CurrentSubject != nil`; objectValue comes from parseMicrodataItemvalue, every return of which is an rdf.IRI or rdf.Literal value"⟩,
  ⟨"encoding/htmlrdfa", "(*Decoder).walkNode", 1, "ivva",
    "inside `if typedResource != nil && attrTypeof != nil`; typedResource only ever holds the result of resolveIRI (rdf.SubjectValue) or a blank node, so the assertion to SubjectValue holds"⟩,
  ⟨"encoding/htmlrdfa", "(*Decoder).walkNode", 2, "ivia",
    "inside `if currentObjectResource != nil`; newSubject is non-nil here: set from @about/@resource/@href/@src when they resolve, else from the root (document base, never nil: emptyURL) or the parent object — after patch c05x-6-fix-rdfa-nil-terms (before it an unresolvable @about left it nil: finding)"⟩,
  ⟨"encoding/htmlrdfa", "(*Decoder).walkNode", 3, "ivia",
    "inside `if currentObjectResource != nil`; newSubject is non-nil here: set from @about/@resource/@href/@src when they resolve, else from the root (document base, never nil: emptyURL) or the parent object — after patch c05x-6-fix-rdfa-nil-terms (before it an unresolvable @about left it nil: finding)"⟩,
  ⟨"encoding/htmlrdfa", "(*Decoder).walkNode", 4, "ivia",
    "currentPropertyValue is a literal on every textual path, a resolved resource (`s != nil` checked), or typedResource, which after patch c05x-6 is never nil when @typeof is present; newSubject is non-nil here: set from @about/@resource/@href/@src when they resolve, else from the root (document base, never nil: emptyURL) or the parent object — after patch c05x-6-fix-rdfa-nil-terms (before it an unresolvable @about left it nil: finding)"⟩,
  ⟨"encoding/htmlrdfa", "(*Decoder).walkNode", 5, "ivia",
    "inside `if !skipElement && newSubject != nil`; ectx.ParentSubject is the non-nil newSubject of an ancestor (root element: document base)"⟩,
  ⟨"encoding/htmlrdfa", "(*Decoder).walkNode", 6, "ivia",
    "inside `if !skipElement && newSubject != nil`; ectx.ParentSubject is the non-nil newSubject of an ancestor (root element: document base)"⟩,
  ⟨"encoding/htmlrdfa", "(*Decoder).walkNode", 7, "ivva",
    "newSubject is non-nil here: set from @about/@resource/@href/@src when they resolve, else from the root (document base, never nil: emptyURL) or the parent object — after patch c05x-6-fix-rdfa-nil-terms (before it an unresolvable @about left it nil: finding)"⟩,
  ⟨"encoding/htmlrdfa", "(*Decoder).walkNode", 8, "vvia",
    "listItem ranges over listMapping objects, which are appended only from currentObjectResource (non-nil checked), newSubject (step 12, non-nil checked) and currentPropertyValue (see site 4)"⟩,
  ⟨"encoding/htmlrdfa", "(*Decoder).walkNode", 11, "ivva",
    "newSubject is non-nil here: set from @about/@resource/@href/@src when they resolve, else from the root (document base, never nil: emptyURL) or the parent object — after patch c05x-6-fix-rdfa-nil-terms (before it an unresolvable @about left it nil: finding)"⟩,
  ⟨"encoding/htmlrdfa", "(*Decoder).walkNode", 12, "iiia",
    "bindings of a query over the statements emitted so far (property copying); non-nil because those statements are"⟩,
  ⟨"encoding/jsonld", "(*Decoder).decodeElement", 0, "iivi",
    "inside `if ectx.ActiveProperty != nil`; ActiveSubject and ActiveProperty are always assigned together (node object: selfSubject / member key; list: list cell / rdf:first), and ActiveProperty is reset to nil whenever ActiveSubject is (@graph, @included)"⟩,
  ⟨"encoding/jsonld", "(*Decoder).decodeElement", 1, "iivi",
    "inside `if ectx.ActiveProperty != nil`; ActiveSubject and ActiveProperty are always assigned together (node object: selfSubject / member key; list: list cell / rdf:first), and ActiveProperty is reset to nil whenever ActiveSubject is (@graph, @included)"⟩,
  ⟨"encoding/jsonld", "(*Decoder).decodeElement", 4, "iiii",
    "inside `if ectx.ActiveProperty != nil`; ActiveSubject and ActiveProperty are always assigned together (node object: selfSubject / member key; list: list cell / rdf:first), and ActiveProperty is reset to nil whenever ActiveSubject is (@graph, @included); selfSubject is an rdf.IRI or a blank node on every path that reaches here (ill-formed @id returns earlier)"⟩,
  ⟨"encoding/jsonld", "(*Decoder).decodeElement", 5, "iiii",
    "inside `if ectx.ActiveProperty != nil`; ActiveSubject and ActiveProperty are always assigned together (node object: selfSubject / member key; list: list cell / rdf:first), and ActiveProperty is reset to nil whenever ActiveSubject is (@graph, @included); selfSubject is an rdf.IRI or a blank node on every path that reaches here (ill-formed @id returns earlier)"⟩,
  ⟨"encoding/jsonld", "(*Decoder).decodeElement", 6, "ivii",
    "ectx.ActiveSubject = selfSubject is assigned just above (non-nil); effectiveObject assigned in both branches (blank node / rdf.IRI)"⟩,
  ⟨"encoding/jsonld", "(*Decoder).decodeValueNode", 0, "iivi",
    "decodeValueNode is only called under `if ectx.ActiveProperty != nil` in decodeElement; inside `if ectx.ActiveProperty != nil`; ActiveSubject and ActiveProperty are always assigned together (node object: selfSubject / member key; list: list cell / rdf:first), and ActiveProperty is reset to nil whenever ActiveSubject is (@graph, @included)"⟩,
  ⟨"encoding/jsonld", "(*Decoder).decodeValueNode", 4, "iivi",
    "decodeValueNode is only called under `if ectx.ActiveProperty != nil` in decodeElement; inside `if ectx.ActiveProperty != nil`; ActiveSubject and ActiveProperty are always assigned together (node object: selfSubject / member key; list: list cell / rdf:first), and ActiveProperty is reset to nil whenever ActiveSubject is (@graph, @included)"⟩,
  ⟨"encoding/nquads", "(*Decoder).Next", 0, "aaaa",
    "rdf.Quad{}/rdf.Triple{} reset of the current statement when the input ends cleanly; Next returns `currentQuad.Triple.Subject != nil`, i.e. false, there: never observable after Next == true"⟩,
  ⟨"encoding/nquads", "(*Decoder).Next", 1, "aaaa",
    "rdf.Quad{}/rdf.Triple{} reset of the current statement when the input ends cleanly; Next returns `currentQuad.Triple.Subject != nil`, i.e. false, there: never observable after Next == true"⟩,
  ⟨"encoding/nquads", "(*Decoder).Next", 2, "aaaa",
    "rdf.Quad{}/rdf.Triple{} reset of the current statement when the input ends cleanly; Next returns `currentQuad.Triple.Subject != nil`, i.e. false, there: never observable after Next == true"⟩,
  ⟨"encoding/nquads", "(*Decoder).Next", 3, "iiii",
    "subject/predicate/object come from captureSubjectOrGraphValue/capturePredicate/captureObject, each of which returns a non-nil term or an error that leaves Next before this literal; proved on Model.NQuads (C06 nq_emits_wf), graph name nil = default graph"⟩,
  ⟨"encoding/ntriples", "(*Decoder).Next", 0, "aaaa",
    "rdf.Quad{}/rdf.Triple{} reset of the current statement when the input ends cleanly; Next returns `currentQuad.Triple.Subject != nil`, i.e. false, there: never observable after Next == true"⟩,
  ⟨"encoding/ntriples", "(*Decoder).Next", 1, "aaaa",
    "rdf.Quad{}/rdf.Triple{} reset of the current statement when the input ends cleanly; Next returns `currentQuad.Triple.Subject != nil`, i.e. false, there: never observable after Next == true"⟩,
  ⟨"encoding/ntriples", "(*Decoder).Next", 2, "aaaa",
    "rdf.Quad{}/rdf.Triple{} reset of the current statement when the input ends cleanly; Next returns `currentQuad.Triple.Subject != nil`, i.e. false, there: never observable after Next == true"⟩,
  ⟨"encoding/ntriples", "(*Decoder).Next", 3, "iiia",
    "subject/predicate/object come from captureSubjectOrGraphValue/capturePredicate/captureObject, each of which returns a non-nil term or an error that leaves Next before this literal; proved on Model.NQuads (C06 nq_emits_wf), graph name nil = default graph"⟩,
  ⟨"encoding/rdfjson", "(*Decoder).parseRoot", 0, "iiva",
    "subjectValue and predicateValue are assigned when the subject key and the predicate key are read, which the token grammar forces before any object is reached; proved on Model.RdfJson (rj_emits_wf, builder-rdfjson)"⟩,
  ⟨"encoding/rdfjson", "(*Decoder).parseRoot", 1, "iiva",
    "subjectValue and predicateValue are assigned when the subject key and the predicate key are read, which the token grammar forces before any object is reached; proved on Model.RdfJson (rj_emits_wf, builder-rdfjson)"⟩,
  ⟨"encoding/rdfjson", "(*Decoder).parseRoot", 2, "iiva",
    "subjectValue and predicateValue are assigned when the subject key and the predicate key are read, which the token grammar forces before any object is reached; proved on Model.RdfJson (rj_emits_wf, builder-rdfjson)"⟩,
  ⟨"encoding/rdfjson", "(*Decoder).parseRoot", 3, "iiva",
    "subjectValue and predicateValue are assigned when the subject key and the predicate key are read, which the token grammar forces before any object is reached; proved on Model.RdfJson (rj_emits_wf, builder-rdfjson)"⟩,
  ⟨"encoding/rdfjson", "(*Decoder).parseRoot", 4, "iiva",
    "subjectValue and predicateValue are assigned when the subject key and the predicate key are read, which the token grammar forces before any object is reached; proved on Model.RdfJson (rj_emits_wf, builder-rdfjson)"⟩,
  ⟨"encoding/rdfxml", "(*Decoder).addReify", 1, "vvia",
    "copies the positions of a statement that has just been appended (rdf:ID reification)"⟩,
  ⟨"encoding/rdfxml", "(*Decoder).addReify", 2, "vvia",
    "copies the positions of a statement that has just been appended (rdf:ID reification)"⟩,
  ⟨"encoding/rdfxml", "(*Decoder).addReify", 3, "vvia",
    "copies the positions of a statement that has just been appended (rdf:ID reification)"⟩,
  ⟨"encoding/rdfxml", "(*Decoder).processNodeElt", 0, "ivva",
    "eSubject is assigned on every path before the first emission: rdf:about / rdf:ID / rdf:nodeID, otherwise a fresh blank node"⟩,
  ⟨"encoding/rdfxml", "(*Decoder).processNodeElt", 1, "ivva",
    "eSubject is assigned on every path before the first emission: rdf:about / rdf:ID / rdf:nodeID, otherwise a fresh blank node"⟩,
  ⟨"encoding/rdfxml", "(*Decoder).processNodeElt", 2, "ivva",
    "eSubject is assigned on every path before the first emission: rdf:about / rdf:ID / rdf:nodeID, otherwise a fresh blank node"⟩,
  ⟨"encoding/rdfxml", "(*Decoder).processParseTypeCollectionPropertyElt", 0, "iiva",
    "ectx.ParentSubject/ParentPredicate are set by processChildren_PropertyEltList from the enclosing node element's subject and the property element's name before any property production runs"⟩,
  ⟨"encoding/rdfxml", "(*Decoder).processParseTypeCollectionPropertyElt", 1, "vvia",
    "eSubject is the subject returned by processNodeElt with a nil error (non-nil, see processNodeElt)"⟩,
  ⟨"encoding/rdfxml", "(*Decoder).processParseTypeCollectionPropertyElt", 2, "ivva",
    "lastContainer is assigned from nextContainer (fresh blank node) in the first iteration, and these literals are only reached once it is set"⟩,
  ⟨"encoding/rdfxml", "(*Decoder).processParseTypeCollectionPropertyElt", 3, "vvia",
    "eSubject is the subject returned by processNodeElt with a nil error (non-nil, see processNodeElt)"⟩,
  ⟨"encoding/rdfxml", "(*Decoder).processParseTypeCollectionPropertyElt", 4, "iiva",
    "ectx.ParentSubject/ParentPredicate are set by processChildren_PropertyEltList from the enclosing node element's subject and the property element's name before any property production runs"⟩,
  ⟨"encoding/rdfxml", "(*Decoder).processParseTypeCollectionPropertyElt", 5, "ivva",
    "lastContainer is assigned from nextContainer (fresh blank node) in the first iteration, and these literals are only reached once it is set"⟩,
  ⟨"encoding/rdfxml", "(*Decoder).processParseTypeLiteralPropertyElt", 0, "iiva",
    "ectx.ParentSubject/ParentPredicate are set by processChildren_PropertyEltList from the enclosing node element's subject and the property element's name before any property production runs"⟩,
  ⟨"encoding/rdfxml", "(*Decoder).processParseTypeResourcePropertyElt", 0, "iiva",
    "ectx.ParentSubject/ParentPredicate are set by processChildren_PropertyEltList from the enclosing node element's subject and the property element's name before any property production runs"⟩,
  ⟨"encoding/rdfxml", "(*Decoder).processPropertyElt", 0, "iiva",
    "ectx.ParentSubject/ParentPredicate are set by processChildren_PropertyEltList from the enclosing node element's subject and the property element's name before any property production runs"⟩,
  ⟨"encoding/rdfxml", "(*Decoder).processPropertyElt", 1, "iiaa",
    "ectx.ParentSubject/ParentPredicate are set by processChildren_PropertyEltList from the enclosing node element's subject and the property element's name before any property production runs; the object is absent in the literal and filled by exactly one of the assignments #2–#5 right below (empty literal / rdf:resource / rdf:nodeID / fresh blank node: if-else chain without a fall-through) before the statement is appended"⟩,
  ⟨"encoding/rdfxml", "(*Decoder).processPropertyElt", 6, "ivva",
    "`ot.triple.Object.(rdf.SubjectValue)`: in this branch the object was assigned by #3–#5 (rdf.IRI or blank node), so the assertion holds"⟩,
  ⟨"encoding/rdfxml", "(*Decoder).processPropertyElt", 7, "ivva",
    "`ot.triple.Object.(rdf.SubjectValue)`: in this branch the object was assigned by #3–#5 (rdf.IRI or blank node), so the assertion holds"⟩,
  ⟨"encoding/rdfxml", "(*Decoder).processPropertyElt", 8, "iiia",
    "ectx.ParentSubject/ParentPredicate are set by processChildren_PropertyEltList from the enclosing node element's subject and the property element's name before any property production runs; s is the subject returned by processNodeElt with a nil error"⟩,
  ⟨"encoding/trig", "reader_scan_Object", 0, "iivi",
    "ectx.CurSubject/CurPredicate are set by the statement layer before an object is scanned; proved on Model.TurtleDoc (ttl_emits_wf / trig_emits_wf) for the tree with fix-ttl-collection-subject (D11: before it `()` as a subject emitted (nil, nil, rdf:nil))"⟩,
  ⟨"encoding/trig", "reader_scan_Object", 1, "iivi",
    "ectx.CurSubject/CurPredicate are set by the statement layer before an object is scanned; proved on Model.TurtleDoc (ttl_emits_wf / trig_emits_wf) for the tree with fix-ttl-collection-subject (D11: before it `()` as a subject emitted (nil, nil, rdf:nil))"⟩,
  ⟨"encoding/trig", "reader_scan_Object", 2, "iivi",
    "ectx.CurSubject/CurPredicate are set by the statement layer before an object is scanned; proved on Model.TurtleDoc (ttl_emits_wf / trig_emits_wf) for the tree with fix-ttl-collection-subject (D11: before it `()` as a subject emitted (nil, nil, rdf:nil))"⟩,
  ⟨"encoding/trig", "reader_scan_Object", 3, "iivi",
    "ectx.CurSubject/CurPredicate are set by the statement layer before an object is scanned; proved on Model.TurtleDoc (ttl_emits_wf / trig_emits_wf) for the tree with fix-ttl-collection-subject (D11: before it `()` as a subject emitted (nil, nil, rdf:nil))"⟩,
  ⟨"encoding/trig", "reader_scan_Object", 4, "iivi",
    "ectx.CurSubject/CurPredicate are set by the statement layer before an object is scanned; proved on Model.TurtleDoc (ttl_emits_wf / trig_emits_wf) for the tree with fix-ttl-collection-subject (D11: before it `()` as a subject emitted (nil, nil, rdf:nil))"⟩,
  ⟨"encoding/trig", "reader_scan_Object", 5, "iivi",
    "ectx.CurSubject/CurPredicate are set by the statement layer before an object is scanned; proved on Model.TurtleDoc (ttl_emits_wf / trig_emits_wf) for the tree with fix-ttl-collection-subject (D11: before it `()` as a subject emitted (nil, nil, rdf:nil))"⟩,
  ⟨"encoding/trig", "reader_scan_Object", 6, "iivi",
    "ectx.CurSubject/CurPredicate are set by the statement layer before an object is scanned; proved on Model.TurtleDoc (ttl_emits_wf / trig_emits_wf) for the tree with fix-ttl-collection-subject (D11: before it `()` as a subject emitted (nil, nil, rdf:nil))"⟩,
  ⟨"encoding/trig", "reader_scan_collection", 0, "iivi",
    "ectx.CurSubject/CurPredicate are set by the statement layer before an object is scanned; proved on Model.TurtleDoc (ttl_emits_wf / trig_emits_wf) for the tree with fix-ttl-collection-subject (D11: before it `()` as a subject emitted (nil, nil, rdf:nil))"⟩,
  ⟨"encoding/trig", "reader_scan_collection", 1, "iiii",
    "ectx.CurSubject/CurPredicate are set by the statement layer before an object is scanned; proved on Model.TurtleDoc (ttl_emits_wf / trig_emits_wf) for the tree with fix-ttl-collection-subject (D11: before it `()` as a subject emitted (nil, nil, rdf:nil)); openSubject is a fresh blank node"⟩,
  ⟨"encoding/trig", "reader_scan_collection_Continue", 0, "ivvi",
    "ectx.CurSubject is the current list cell (a blank node allocated by reader_scan_collection); nectx.CurSubject the next cell"⟩,
  ⟨"encoding/trig", "reader_scan_collection_Continue", 1, "ivii",
    "ectx.CurSubject is the current list cell (a blank node allocated by reader_scan_collection); nectx.CurSubject the next cell"⟩,
  ⟨"encoding/trig", "reader_scan_object_PrefixedName", 0, "iivi",
    "ectx.CurSubject/CurPredicate are set by the statement layer before an object is scanned; proved on Model.TurtleDoc (ttl_emits_wf / trig_emits_wf) for the tree with fix-ttl-collection-subject (D11: before it `()` as a subject emitted (nil, nil, rdf:nil))"⟩,
  ⟨"encoding/turtle", "reader_scan_Object", 0, "iiva",
    "ectx.CurSubject/CurPredicate are set by the statement layer before an object is scanned; proved on Model.TurtleDoc (ttl_emits_wf / trig_emits_wf) for the tree with fix-ttl-collection-subject (D11: before it `()` as a subject emitted (nil, nil, rdf:nil))"⟩,
  ⟨"encoding/turtle", "reader_scan_Object", 1, "iiva",
    "ectx.CurSubject/CurPredicate are set by the statement layer before an object is scanned; proved on Model.TurtleDoc (ttl_emits_wf / trig_emits_wf) for the tree with fix-ttl-collection-subject (D11: before it `()` as a subject emitted (nil, nil, rdf:nil))"⟩,
  ⟨"encoding/turtle", "reader_scan_Object", 2, "iiva",
    "ectx.CurSubject/CurPredicate are set by the statement layer before an object is scanned; proved on Model.TurtleDoc (ttl_emits_wf / trig_emits_wf) for the tree with fix-ttl-collection-subject (D11: before it `()` as a subject emitted (nil, nil, rdf:nil))"⟩,
  ⟨"encoding/turtle", "reader_scan_Object", 3, "iiva",
    "ectx.CurSubject/CurPredicate are set by the statement layer before an object is scanned; proved on Model.TurtleDoc (ttl_emits_wf / trig_emits_wf) for the tree with fix-ttl-collection-subject (D11: before it `()` as a subject emitted (nil, nil, rdf:nil))"⟩,
  ⟨"encoding/turtle", "reader_scan_Object", 4, "iiva",
    "ectx.CurSubject/CurPredicate are set by the statement layer before an object is scanned; proved on Model.TurtleDoc (ttl_emits_wf / trig_emits_wf) for the tree with fix-ttl-collection-subject (D11: before it `()` as a subject emitted (nil, nil, rdf:nil))"⟩,
  ⟨"encoding/turtle", "reader_scan_Object", 5, "iiva",
    "ectx.CurSubject/CurPredicate are set by the statement layer before an object is scanned; proved on Model.TurtleDoc (ttl_emits_wf / trig_emits_wf) for the tree with fix-ttl-collection-subject (D11: before it `()` as a subject emitted (nil, nil, rdf:nil))"⟩,
  ⟨"encoding/turtle", "reader_scan_Object", 6, "iiva",
    "ectx.CurSubject/CurPredicate are set by the statement layer before an object is scanned; proved on Model.TurtleDoc (ttl_emits_wf / trig_emits_wf) for the tree with fix-ttl-collection-subject (D11: before it `()` as a subject emitted (nil, nil, rdf:nil))"⟩,
  ⟨"encoding/turtle", "reader_scan_collection", 0, "iiva",
    "ectx.CurSubject/CurPredicate are set by the statement layer before an object is scanned; proved on Model.TurtleDoc (ttl_emits_wf / trig_emits_wf) for the tree with fix-ttl-collection-subject (D11: before it `()` as a subject emitted (nil, nil, rdf:nil))"⟩,
  ⟨"encoding/turtle", "reader_scan_collection", 1, "iiia",
    "ectx.CurSubject/CurPredicate are set by the statement layer before an object is scanned; proved on Model.TurtleDoc (ttl_emits_wf / trig_emits_wf) for the tree with fix-ttl-collection-subject (D11: before it `()` as a subject emitted (nil, nil, rdf:nil)); openSubject is a fresh blank node"⟩,
  ⟨"encoding/turtle", "reader_scan_collection_Continue", 0, "ivva",
    "ectx.CurSubject is the current list cell (a blank node allocated by reader_scan_collection); nectx.CurSubject the next cell"⟩,
  ⟨"encoding/turtle", "reader_scan_collection_Continue", 1, "ivia",
    "ectx.CurSubject is the current list cell (a blank node allocated by reader_scan_collection); nectx.CurSubject the next cell"⟩,
  ⟨"encoding/turtle", "reader_scan_object_PrefixedName", 0, "iiva",
    "ectx.CurSubject/CurPredicate are set by the statement layer before an object is scanned; proved on Model.TurtleDoc (ttl_emits_wf / trig_emits_wf) for the tree with fix-ttl-collection-subject (D11: before it `()` as a subject emitted (nil, nil, rdf:nil))"⟩
]

def _root_.RdfModel.EmitSite.Site.reviewed (x : Site) : Bool :=
  reviewedDynamicSites.any fun r => r.pkg == x.pkg && r.func == x.func && r.ord == x.ord && r.pattern == x.pattern

set_option maxRecDepth 200000 in
/-- T2 + review: every emission site is statically non-nil in subject, predicate and object, or reviewed. -/
theorem emit_sites_static :
    ∀ s ∈ Gen.EmitSites.sites, s.allFieldsValueTyped = true ∨ s.reviewed = true := by
  decide

/-- the extractor understood every site (no `unknown` class) and type-checked every package -/
theorem emit_sites_understood :
    Gen.EmitSites.problems = [] ∧ ∀ s ∈ Gen.EmitSites.sites, s.hasUnknown = false := by
  decide

/-- every decoder package that builds statements itself contributes sites (the table is not empty
    for a silly reason such as a failed package load) -/
theorem emit_sites_cover_packages :
    ["encoding/ntriples", "encoding/nquads", "encoding/turtle", "encoding/trig", "encoding/rdfjson",
     "encoding/rdfxml", "encoding/jsonld", "encoding/htmlrdfa", "encoding/htmlmicrodata", "encoding/encodingutil"].all
      (fun p => Gen.EmitSites.sites.any (fun s => s.pkg == p)) = true := by
  decide

/-- no reviewed site carries the literal `nil` or an absent subject/predicate, except the N-Triples /
    N-Quads resets at end of input -/
theorem emit_sites_no_nil_literal :
    ∀ s ∈ Gen.EmitSites.sites, s.s ≠ .nilLit ∧ s.p ≠ .nilLit ∧ s.o ≠ .nilLit := by
  decide

/-- example of a site that is value-typed everywhere, and of one that is not (hypothesis-free sanity) -/
example : (⟨"p", "f", 0, .triple, .value, .value, .value, .absent, ""⟩ : Site).allFieldsValueTyped = true := by decide
example : (⟨"p", "f", 0, .triple, .iface, .value, .value, .absent, ""⟩ : Site).allFieldsValueTyped = false := by decide

end RdfModel.C06X
