/-
  Axiom audit for the Turtle/TriG token-producer theorems of C16 (`Props/C16Ttl.lean`).
-/
import RdfModel.Props.C16Ttl

#print axioms RdfModel.C16Ttl.erase_IRIREF
#print axioms RdfModel.C16Ttl.erase_String
#print axioms RdfModel.C16Ttl.erase_PNAME_NS
#print axioms RdfModel.C16Ttl.erase_PrefixedName
#print axioms RdfModel.C16Ttl.erase_BlankNode
#print axioms RdfModel.C16Ttl.erase_LANGTAG
#print axioms RdfModel.C16Ttl.erase_NumericLiteral
#print axioms RdfModel.C16Ttl.capture_irrelevant_String
#print axioms RdfModel.C16Ttl.spec_IRIREF
#print axioms RdfModel.C16Ttl.spec_String
#print axioms RdfModel.C16Ttl.spec_PNAME_NS
#print axioms RdfModel.C16Ttl.spec_PrefixedName
#print axioms RdfModel.C16Ttl.spec_BlankNode
#print axioms RdfModel.C16Ttl.spec_BlankNode_labelOnly
#print axioms RdfModel.C16Ttl.spec_LANGTAG
#print axioms RdfModel.C16Ttl.spec_NumericLiteral
#print axioms RdfModel.C16Ttl.range_positions
#print axioms RdfModel.C16Ttl.writer_advances
#print axioms RdfModel.C16Ttl.inStep_preserved
#print axioms RdfModel.C16Ttl.err_inside_IRIREF
#print axioms RdfModel.C16Ttl.err_inside_String
#print axioms RdfModel.C16Ttl.err_inside_PNAME_NS
#print axioms RdfModel.C16Ttl.err_inside_PrefixedName
#print axioms RdfModel.C16Ttl.err_inside_BlankNode
#print axioms RdfModel.C16Ttl.err_inside_LANGTAG
#print axioms RdfModel.C16Ttl.err_inside_NumericLiteral
#print axioms RdfModel.C16Ttl.string_discipline_fails_legacy
#print axioms RdfModel.C16Ttl.blank_node_range_label_only
