package main

// RDF/JSON and JSON-LD: JSON token checks (see the header of whole.go).

import (
	"bytes"
	"fmt"
	"math"
	"strconv"
	"strings"
	"unicode/utf16"
	"unicode/utf8"

	"github.com/dpb587/rdfkit-go/rdf"
)

func jsonWS(b byte) bool { return b == ' ' || b == '\t' || b == '\n' || b == '\r' }

// jsonSkipWS: layout (and, in lax mode, comments) from i.
func jsonSkipWS(s string, i int, lax bool) int {
	for i < len(s) {
		switch {
		case jsonWS(s[i]):
			i++
		case lax && strings.HasPrefix(s[i:], "//"):
			k := strings.IndexByte(s[i:], '\n')
			if k < 0 {
				return len(s)
			}
			i += k
		case lax && strings.HasPrefix(s[i:], "/*"):
			k := strings.Index(s[i+2:], "*/")
			if k < 0 {
				return len(s)
			}
			i += k + 4
		default:
			return i
		}
	}
	return i
}

// jsonStringEnd: s[i]=='"'; index after the closing quote, or -1.
func jsonStringEnd(s string, i int) int {
	for k := i + 1; k < len(s); k++ {
		switch s[k] {
		case '\\':
			k++
		case '"':
			return k + 1
		}
	}
	return -1
}

func isNumChar(b byte) bool {
	return (b >= '0' && b <= '9') || b == '-' || b == '+' || b == '.' || b == 'e' || b == 'E'
}

func isAlnum(b byte) bool {
	return (b >= '0' && b <= '9') || (b >= 'a' && b <= 'z') || (b >= 'A' && b <= 'Z') || b == '_'
}

// jsonKind: s is exactly one JSON value (no surrounding layout): kind 's' string, 'n' number,
// 't' true, 'f' false, 'z' null, 'o' object, 'a' array. Containers are checked for balance only
// (strings and, in lax mode, comments skipped).
func jsonKind(s string, lax bool) (byte, bool) {
	if s == "" {
		return 0, false
	}
	switch c := s[0]; {
	case c == '"':
		return 's', jsonStringEnd(s, 0) == len(s)
	case c == '{' || c == '[':
		var stack []byte
		i := 0
		for i < len(s) {
			i = jsonSkipWS(s, i, lax)
			if i >= len(s) {
				break
			}
			switch s[i] {
			case '"':
				e := jsonStringEnd(s, i)
				if e < 0 {
					return 0, false
				}
				i = e
				continue
			case '{', '[':
				stack = append(stack, s[i])
			case '}', ']':
				if len(stack) == 0 || (s[i] == '}') != (stack[len(stack)-1] == '{') {
					return 0, false
				}
				stack = stack[:len(stack)-1]
				if len(stack) == 0 {
					k := byte('o')
					if c == '[' {
						k = 'a'
					}
					return k, i == len(s)-1
				}
			}
			i++
		}
		return 0, false
	case c == '-' || (c >= '0' && c <= '9'):
		for i := 0; i < len(s); i++ {
			if !isNumChar(s[i]) {
				return 0, false
			}
		}
		if _, err := strconv.ParseFloat(s, 64); err != nil {
			if ne, ok := err.(*strconv.NumError); !ok || ne.Err != strconv.ErrRange {
				return 0, false
			}
		}
		return 'n', true
	}
	w := s
	if lax {
		w = strings.ToLower(s)
	}
	switch w {
	case "true":
		return 't', true
	case "false":
		return 'f', true
	case "null":
		return 'z', true
	}
	return 0, false
}

// jsonUnquote: decoded text of a JSON string token, mirroring inspectjson: an escape of a surrogate
// not followed by `\u` decodes to U+FFFD, followed by `\uXXXX` to utf16.DecodeRune of the pair; an
// unknown escape keeps both runes (lax mode); ill-formed bytes decode to U+FFFD each.
func jsonUnquote(s string) (string, bool) {
	if len(s) < 2 || s[0] != '"' || s[len(s)-1] != '"' {
		return "", false
	}
	s = s[1 : len(s)-1]
	var out []rune
	hex4 := func(h string) (rune, bool) {
		if len(h) < 4 {
			return 0, false
		}
		v, err := strconv.ParseUint(h[:4], 16, 32)
		return rune(v), err == nil
	}
	for i := 0; i < len(s); {
		if s[i] == '"' {
			return "", false
		}
		if s[i] != '\\' {
			r, n := utf8.DecodeRuneInString(s[i:])
			out = append(out, r)
			i += n
			continue
		}
		if i+1 >= len(s) {
			return "", false
		}
		c := s[i+1]
		i += 2
		switch c {
		case '"', '\\', '/':
			out = append(out, rune(c))
		case 'b':
			out = append(out, '\b')
		case 'f':
			out = append(out, '\f')
		case 'n':
			out = append(out, '\n')
		case 'r':
			out = append(out, '\r')
		case 't':
			out = append(out, '\t')
		case 'u':
			r, ok := hex4(s[i:])
			if !ok {
				return "", false
			}
			i += 4
			if utf16.IsSurrogate(r) {
				if strings.HasPrefix(s[i:], "\\u") {
					r2, ok := hex4(s[i+2:])
					if !ok {
						return "", false
					}
					i += 6
					r = utf16.DecodeRune(r, r2)
				} else {
					r = utf8.RuneError
				}
			}
			out = append(out, r)
		default:
			r, n := utf8.DecodeRuneInString(s[i-1:])
			out = append(out, '\\', r)
			i += n - 1
		}
	}
	return string(out), true
}

// nextNonWS: first byte of doc at or after i that is not JSON layout (0 at the end).
func nextNonWS(doc []byte, i int64, lax bool) byte {
	k := jsonSkipWS(string(doc[i:]), 0, lax)
	if int(i)+k >= len(doc) {
		return 0
	}
	return doc[int(i)+k]
}

func scalarDelimited(sc sliceCtx) bool {
	if sc.fb > 0 && isAlnum(sc.doc[sc.fb-1]) {
		return false
	}
	if int(sc.ub) < len(sc.doc) && (isAlnum(sc.doc[sc.ub]) || sc.doc[sc.ub] == '.' || sc.doc[sc.ub] == '+' || sc.doc[sc.ub] == '-') {
		return false
	}
	return true
}

// ---------------------------------------------------------------- RDF/JSON

// flatObject: members of a JSON object whose names and values are all strings (last duplicate wins).
func flatObject(s string) (map[string]string, bool) {
	m := map[string]string{}
	if len(s) < 2 || s[0] != '{' || s[len(s)-1] != '}' {
		return nil, false
	}
	i := jsonSkipWS(s, 1, false)
	if i == len(s)-1 {
		return m, true
	}
	for {
		i = jsonSkipWS(s, i, false)
		if i >= len(s) || s[i] != '"' {
			return nil, false
		}
		e := jsonStringEnd(s, i)
		if e < 0 {
			return nil, false
		}
		k, ok := jsonUnquote(s[i:e])
		if !ok {
			return nil, false
		}
		i = jsonSkipWS(s, e, false)
		if i >= len(s) || s[i] != ':' {
			return nil, false
		}
		i = jsonSkipWS(s, i+1, false)
		if i >= len(s) || s[i] != '"' {
			return nil, false
		}
		e = jsonStringEnd(s, i)
		if e < 0 {
			return nil, false
		}
		v, ok := jsonUnquote(s[i:e])
		if !ok {
			return nil, false
		}
		m[k] = v
		i = jsonSkipWS(s, e, false)
		if i >= len(s) {
			return nil, false
		}
		if s[i] == ',' {
			i++
			continue
		}
		return m, s[i] == '}' && i == len(s)-1
	}
}

func rdfjsonSlice(sc sliceCtx) (sub, msg string) {
	s := sc.slice
	kind, ok := jsonKind(s, false)
	if !ok {
		return "not-json-token", "slice is not exactly one JSON value"
	}
	switch sc.slot {
	case 0, 1:
		if kind != 's' {
			return "not-json-string", "subject/predicate slice is not a JSON string literal"
		}
		if nextNonWS(sc.doc, sc.ub, false) != ':' {
			return "not-member-name", "subject/predicate string is not followed by `:`"
		}
		text, ok := jsonUnquote(s)
		if !ok {
			return "not-json-string", "string literal does not decode"
		}
		if l, isB := labelOf(sc.res, sc.term); isB {
			if sc.slot == 1 || text != "_:"+l {
				return "content-mismatch", fmt.Sprintf("string decodes to %s, term is blank node %q", quoteClip(text), l)
			}
			return "", ""
		}
		if _, isB := sc.term.(rdf.BlankNode); isB && sc.slot == 0 && text == "_:" {
			return "", "" // the blank node with the empty label
		}
		if iri, isI := termIRI(sc.term); !isI || text != iri || (sc.slot == 0 && strings.HasPrefix(text, "_:")) {
			return "content-mismatch", fmt.Sprintf("string decodes to %s, term is %v", quoteClip(text), sc.term)
		}
		return "", ""
	case 2:
		if kind != 'o' {
			return "not-json-object", "object slice is not a JSON object"
		}
		if p := prevNonWS(sc.doc, sc.fb); p != '[' && p != ',' {
			return "not-array-element", fmt.Sprintf("object is preceded by %q, not `[` or `,`", p)
		}
		m, ok := flatObject(s)
		if !ok {
			return "not-flat-object", "object slice is not an object of string members"
		}
		switch v := sc.term.(type) {
		case rdf.IRI:
			if m["type"] != "uri" || m["value"] != string(v) {
				return "content-mismatch", fmt.Sprintf("object %v does not describe IRI %s", m, v)
			}
		case rdf.BlankNode:
			l, _ := labelOf(sc.res, v) // "" for the empty label
			if m["type"] != "bnode" || m["value"] != "_:"+l {
				return "content-mismatch", fmt.Sprintf("object %v does not describe blank node %q", m, l)
			}
		case rdf.Literal:
			if m["type"] != "literal" || m["value"] != v.LexicalForm {
				return "content-mismatch", fmt.Sprintf("object %v does not describe literal %q", m, clip(v.LexicalForm, 80))
			}
			dt, hasDT := m["datatype"]
			lang, hasLang := m["lang"]
			switch {
			case hasDT && dt != rdfLangStr:
				if string(v.Datatype) != dt || v.Tag != nil {
					return "content-mismatch", fmt.Sprintf("object has datatype %q, literal %s", dt, v.Datatype)
				}
			case hasLang:
				lt, isLT := v.Tag.(rdf.LanguageLiteralTag)
				if !isLT || lt.Language != lang {
					return "content-mismatch", fmt.Sprintf("object has lang %q, literal tag %v", lang, v.Tag)
				}
			default:
				if string(v.Datatype) != xsdNS+"string" {
					return "content-mismatch", fmt.Sprintf("plain object, literal datatype %s", v.Datatype)
				}
			}
		default:
			return "term", fmt.Sprintf("unexpected term type %T", sc.term)
		}
		return "", ""
	}
	return "graph", "RDF/JSON has no graph names"
}

func prevNonWS(doc []byte, i int64) byte {
	for k := i - 1; k >= 0; k-- {
		if !jsonWS(doc[k]) {
			return doc[k]
		}
	}
	return 0
}

// ---------------------------------------------------------------- JSON-LD

func jsonldNoContext(doc []byte) bool {
	return !bytes.Contains(doc, []byte("@context")) && !bytes.Contains(doc, []byte("\\u"))
}

// jsonldSlice: lax = tokens of the lax tokenizer (combined HTML decoder).
func jsonldSlice(sc sliceCtx, lax bool) (sub, msg string) {
	s := sc.slice
	kind, ok := jsonKind(s, lax)
	if !ok {
		return "jsonld-not-json-token", "slice is not exactly one JSON value"
	}
	if (kind == 'n' || kind == 't' || kind == 'f' || kind == 'z') && !scalarDelimited(sc) {
		return "jsonld-not-json-token", "scalar slice is part of a longer token"
	}
	noCtx := jsonldNoContext(sc.doc)
	text := ""
	if kind == 's' {
		if text, ok = jsonUnquote(s); !ok {
			return "jsonld-not-json-token", "string literal does not decode"
		}
	}
	isKey := nextNonWS(sc.doc, sc.ub, lax) == ':'
	// resource: IRI or blank node term in subject / object / graph position
	resource := func() (string, string) {
		if _, isB := sc.term.(rdf.BlankNode); isB && !labelsKnown(sc.c.format) {
			// labelled or generated: unknown
			if kind == 'o' || (kind == 's' && (!noCtx || strings.HasPrefix(text, "_:"))) {
				return "", ""
			}
			return "jsonld-bnode-range", fmt.Sprintf("blank node with a range that is neither `{…}` nor a `\"_:…\"` string (kind %c)", kind)
		}
		if isAnon(sc.res, sc.term) {
			if kind == 's' && text == "_:" {
				return "", "" // the blank node with the empty label
			}
			if kind != 'o' {
				return "jsonld-anon-range", "generated blank node with a range that is not an object `{…}`"
			}
			return "", ""
		}
		if kind != 's' {
			return "jsonld-resource-not-string", fmt.Sprintf("IRI / labelled blank node with a range that is not a string token (kind %c)", kind)
		}
		if l, isB := labelOf(sc.res, sc.term); isB {
			if noCtx && text != "_:"+l {
				return "jsonld-content-mismatch", fmt.Sprintf("string decodes to %s, term is blank node %q (no @context in the document)", quoteClip(text), l)
			}
			return "", ""
		}
		iri, _ := termIRI(sc.term)
		if noCtx && hasScheme(text) && !strings.HasPrefix(text, "_:") && text != iri {
			return "jsonld-content-mismatch", fmt.Sprintf("string decodes to absolute %s, term is %s (no @context in the document)", quoteClip(text), iri)
		}
		return "", ""
	}
	switch sc.slot {
	case 0, 3:
		return resource()
	case 1:
		if kind != 's' {
			return "jsonld-predicate-not-string", "predicate slice is not a JSON string literal"
		}
		p, _ := termIRI(sc.term)
		if p == rdfFirst || p == rdfRest {
			return "jsonld-list-first-has-property-key", fmt.Sprintf("%s carries the range of the member name %s of the list property", p[len(rdfNS):], quoteClip(text))
		}
		if !noCtx {
			return "", ""
		}
		if !isKey {
			return "jsonld-predicate-not-member-name", "predicate string is not followed by `:` (no @context in the document)"
		}
		if p == rdfType && text == "@type" {
			return "", ""
		}
		if text != p {
			return "jsonld-content-mismatch", fmt.Sprintf("member name decodes to %s, predicate is %s (no @context in the document)", quoteClip(text), p)
		}
		return "", ""
	}
	// object
	lit, isLit := sc.term.(rdf.Literal)
	if !isLit {
		return resource()
	}
	if string(lit.Datatype) == rdfJSON {
		return "", ""
	}
	switch kind {
	case 's':
		if text != lit.LexicalForm {
			return "jsonld-content-mismatch", fmt.Sprintf("string decodes to %s, lexical form is %s", quoteClip(text), quoteClip(lit.LexicalForm))
		}
	case 'n':
		a, err1 := strconv.ParseFloat(s, 64)
		b, err2 := strconv.ParseFloat(lit.LexicalForm, 64)
		if (err1 != nil && !math.IsInf(a, 0)) || err2 != nil || a != b {
			return "jsonld-content-mismatch", fmt.Sprintf("number token %s, lexical form %s", quoteClip(s), quoteClip(lit.LexicalForm))
		}
	case 't', 'f':
		if strings.ToLower(s) != lit.LexicalForm {
			return "jsonld-content-mismatch", fmt.Sprintf("token %s, lexical form %s", s, quoteClip(lit.LexicalForm))
		}
	default:
		return "jsonld-literal-range", fmt.Sprintf("literal (datatype %s) with a range of kind %c", lit.Datatype, kind)
	}
	return "", ""
}

// jsonldMissing: doc = the document (nil when unknown).
func jsonldMissing(c cfg, res *result, i, slot int, doc []byte) string {
	q := res.stmts[i].quad
	p := predIRI(res, i)
	anonOrUnknown := func(t rdf.Term) bool {
		if _, isB := t.(rdf.BlankNode); isB && !labelsKnown(c.format) {
			return true
		}
		return isAnon(res, t)
	}
	switch slot {
	case 0:
		if anonOrUnknown(q.Triple.Subject) {
			return "" // list cell
		}
		return "jsonld-subject: an IRI / labelled blank node subject is read from an @id string"
	case 1:
		if p == rdfFirst || p == rdfRest {
			return ""
		}
		// @reverse properties carry no range (ActivePropertyRange is never set)
		if doc == nil || bytes.Contains(doc, []byte("@reverse")) || bytes.Contains(doc, []byte("\\u")) {
			return ""
		}
		// list / set / graph objects generated by a `@container` coercion carry no property range
		if bytes.Contains(doc, []byte("@container")) || bytes.Contains(doc, []byte("@json")) {
			return "" // values of list / set / language / index / id / type maps: the expansion gives them no property range
		}
		return "jsonld-predicate: a predicate is read from a member name"
	case 2:
		if o, ok := termIRI(q.Triple.Object); ok && o == rdfNil {
			return ""
		}
		if anonOrUnknown(q.Triple.Object) {
			return "" // list head / next cell
		}
		return "jsonld-object: a value is read from a token"
	}
	if anonOrUnknown(q.GraphName) {
		return "" // implicit graph object of an `@container: @graph` term: generated, no source object
	}
	return "jsonld-graph: a graph name is the subject of the object holding @graph"
}
