package vh

import (
	"errors"
	"fmt"
	"io"
	"runtime"
	"strings"
	"sync"

	"github.com/dpb587/rdfkit-go/rdf"
	"github.com/dpb587/rdfkit-go/rdf/blanknodes"
)

// BNTable materialises generated blank-node identities as rdf.BlankNode values and labels them.
type BNTable struct {
	f      rdf.BlankNodeFactory
	nodes  map[int]rdf.BlankNode
	labels map[rdf.BlankNodeIdentifier]string
	Label  func(int) string
}

func NewBNTable(label func(int) string) *BNTable {
	return &BNTable{f: rdf.NewBlankNodeFactory(), nodes: map[int]rdf.BlankNode{}, labels: map[rdf.BlankNodeIdentifier]string{}, Label: label}
}

func (t *BNTable) Node(i int) rdf.BlankNode {
	if n, ok := t.nodes[i]; ok {
		return n
	}
	n := t.f.NewBlankNode()
	t.nodes[i] = n
	if t.Label != nil {
		t.labels[n.Identifier] = t.Label(i)
	}
	return n
}

// GetBlankNodeString implements blanknodes.StringProvider with the table's labels.
func (t *BNTable) GetBlankNodeString(bn rdf.BlankNode) string { return t.labels[bn.Identifier] }

var _ blanknodes.StringProvider = (*BNTable)(nil)

func (t *BNTable) Term(g GTerm) rdf.Term {
	switch g.Kind {
	case KIRI:
		return rdf.IRI(g.IRI)
	case KBNode:
		return t.Node(g.BNode)
	default:
		l := rdf.Literal{Datatype: rdf.IRI(g.DT), LexicalForm: g.Lex}
		if g.DT == RDFLangString {
			l.Tag = rdf.LanguageLiteralTag{Language: g.Lang}
		}
		return l
	}
}

func (t *BNTable) Quad(q GQuad) rdf.Quad {
	out := rdf.Quad{Triple: rdf.Triple{
		Subject:   t.Term(q.S).(rdf.SubjectValue),
		Predicate: t.Term(q.P).(rdf.PredicateValue),
		Object:    t.Term(q.O).(rdf.ObjectValue),
	}}
	if q.G != nil {
		out.GraphName = t.Term(*q.G).(rdf.GraphNameValue)
	}
	return out
}

// TermWire renders a decoded term in the wire form; bn recovers blank-node labels.
func TermWire(t rdf.Term, bn func(rdf.BlankNode) string) string {
	switch v := t.(type) {
	case nil:
		return "-"
	case rdf.IRI:
		return "I" + XS(string(v))[1:]
	case rdf.BlankNode:
		return "B" + XS(bn(v))[1:]
	case rdf.Literal:
		lang := "-"
		switch tag := v.Tag.(type) {
		case nil:
		case rdf.LanguageLiteralTag:
			lang = XS(tag.Language)[1:]
		default:
			lang = fmt.Sprintf("?%T", tag)
		}
		return "L" + XS(v.LexicalForm)[1:] + "." + XS(string(v.Datatype))[1:] + "." + lang
	}
	return fmt.Sprintf("?%T", t)
}

func QuadWire(q rdf.Quad, bn func(rdf.BlankNode) string) string {
	g := "-"
	if q.GraphName != nil {
		g = TermWire(q.GraphName, bn)
	}
	return TermWire(q.Triple.Subject, bn) + "," + TermWire(q.Triple.Predicate, bn) + "," + TermWire(q.Triple.Object, bn) + "," + g
}

// ---------------------------------------------------------------- readers with a chosen ending

var ErrInjected = errors.New("injected reader failure")

// EndReader yields the bytes, then io.EOF or ErrInjected forever. Chunk > 0 limits each Read.
type EndReader struct {
	B     []byte
	Fail  bool
	Chunk int
}

func (r *EndReader) Read(p []byte) (int, error) {
	if len(r.B) == 0 {
		if r.Fail {
			return 0, ErrInjected
		}
		return 0, io.EOF
	}
	n := len(p)
	if r.Chunk > 0 && n > r.Chunk {
		n = r.Chunk
	}
	if n > len(r.B) {
		n = len(r.B)
	}
	copy(p, r.B[:n])
	r.B = r.B[n:]
	return n, nil
}

// ErrClass maps a decoder error to the protocol's small enum.
func ErrClass(err error) string {
	switch {
	case err == nil:
		return "clean"
	case errors.Is(err, ErrInjected):
		return "err:io"
	case errors.Is(err, io.EOF), errors.Is(err, io.ErrUnexpectedEOF):
		return "err:eof"
	case strings.Contains(err.Error(), "parse url:") || strings.Contains(err.Error(), "relative urls are not allowed"):
		return "err:url"
	}
	return "err:syntax"
}

// RunParallel splits lines over several driver processes.
func (d Driver) RunParallel(lines []string) ([]string, error) {
	n := runtime.NumCPU()
	if len(lines) < 20000 || n < 2 {
		return d.Run(lines)
	}
	chunk := (len(lines) + n - 1) / n
	out := make([]string, len(lines))
	var wg sync.WaitGroup
	var mu sync.Mutex
	var firstErr error
	for i := 0; i < len(lines); i += chunk {
		j := i + chunk
		if j > len(lines) {
			j = len(lines)
		}
		wg.Add(1)
		go func(i, j int) {
			defer wg.Done()
			res, err := d.Run(lines[i:j])
			if err != nil {
				mu.Lock()
				if firstErr == nil {
					firstErr = err
				}
				mu.Unlock()
				return
			}
			copy(out[i:j], res)
		}(i, j)
	}
	wg.Wait()
	return out, firstErr
}
