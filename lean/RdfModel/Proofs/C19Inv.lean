/-
  C19 helper lemmas: the representation invariant of the in-memory dataset and what each
  operation does to the set of stored quads.
-/
import RdfModel.Proofs.C19Key
import RdfModel.Proofs.C19Assoc
import RdfModel.Proofs.C19Iter
namespace RdfModel.Proofs.C19
open RdfModel.DS RdfModel.C19

/-- A node's key is the key of its stored term, and the stored term is well-formed. -/
def NodeOK (n : Node) : Prop := keyOf n.t = n.key ∧ WFTerm n.t

theorem NodeOK.key_iff {n : Node} (h : NodeOK n) {t : Term} (ht : WFTerm t) :
    n.key = keyOf t ↔ n.t = t :=
  ⟨fun hk => keyOf_injective _ _ h.2 ht (h.1.trans hk), fun e => by rw [← e]; exact h.1.symm⟩

/-- A subject's statement list: nodes fine, identities below the allocation counter, no two
    statements with the same predicate and object nodes, no two with the same identity. -/
def StmtsOK (bound : Nat) (l : List Stmt) : Prop :=
  (∀ st ∈ l, NodeOK st.p ∧ NodeOK st.o ∧ st.id < bound) ∧
  l.Pairwise (fun a b => ¬(a.p.key = b.p.key ∧ a.o.key = b.o.key)) ∧
  l.Pairwise (fun a b => a.id ≠ b.id)

def GraphInv (bound : Nat) (G : SubjMap) : Prop :=
  (keys G).Nodup ∧ ∀ k n l, (k, (n, l)) ∈ G → n.key = k ∧ NodeOK n ∧ StmtsOK bound l

def NodesInv (nodes : List (NodeKey × Node)) : Prop :=
  ∀ k n, alookup k nodes = some n → n.key = k ∧ NodeOK n

structure Inv (s : State) : Prop where
  nodes : NodesInv s.nodes
  gkeys : (keys s.graphs).Nodup
  graph : ∀ g G, (g, G) ∈ s.graphs → GraphInv s.nextId G
  gwf : ∀ g G, (g, G) ∈ s.graphs → WFGraphName g

theorem StmtsOK.mono {b b' : Nat} (h : b ≤ b') {l : List Stmt} (hl : StmtsOK b l) : StmtsOK b' l :=
  ⟨fun st hst => ⟨(hl.1 st hst).1, (hl.1 st hst).2.1, Nat.lt_of_lt_of_le (hl.1 st hst).2.2 h⟩, hl.2⟩

theorem GraphInv.mono {b b' : Nat} (h : b ≤ b') {G : SubjMap} (hG : GraphInv b G) : GraphInv b' G :=
  ⟨hG.1, fun k n l hm => ⟨(hG.2 k n l hm).1, (hG.2 k n l hm).2.1, (hG.2 k n l hm).2.2.mono h⟩⟩

/-! ### bindNode -/

theorem bindNode_graphs (s : State) (t : Term) : (bindNode s t).1.graphs = s.graphs := by
  unfold bindNode; split <;> rfl

theorem bindNode_nextId (s : State) (t : Term) : (bindNode s t).1.nextId = s.nextId := by
  unfold bindNode; split <;> rfl

theorem bindNode_spec (s : State) (t : Term) (hn : NodesInv s.nodes) (ht : WFTerm t) :
    (bindNode s t).2.key = keyOf t ∧ NodeOK (bindNode s t).2 ∧ NodesInv (bindNode s t).1.nodes := by
  unfold bindNode
  split
  · rename_i n hl
    exact ⟨(hn _ _ hl).1, (hn _ _ hl).2, hn⟩
  · rename_i hl
    refine ⟨rfl, ⟨rfl, ht⟩, ?_⟩
    intro k n h
    simp only [alookup_append] at h
    split at h
    · rename_i v hv; simp at h; subst h; exact hn _ _ hv
    · simp only [alookup] at h
      split at h
      · rename_i hk; simp at h; subst h; exact ⟨hk, rfl, ht⟩
      · simp at h

theorem bindNode_term (s : State) (t : Term) (hn : NodesInv s.nodes) (ht : WFTerm t) :
    (bindNode s t).2.t = t :=
  ((bindNode_spec s t hn ht).2.1.key_iff ht).1 (bindNode_spec s t hn ht).1

theorem bindNode_inv (s : State) (t : Term) (hi : Inv s) (ht : WFTerm t) : Inv (bindNode s t).1 :=
  ⟨(bindNode_spec s t hi.nodes ht).2.2,
   by rw [bindNode_graphs]; exact hi.gkeys,
   by rw [bindNode_graphs, bindNode_nextId]; exact hi.graph,
   by rw [bindNode_graphs]; exact hi.gwf⟩

/-! ### stmtsAt / setStmts / ensureGraph -/

theorem stmtsAt_congr {s s' : State} (h : s'.graphs = s.graphs) (g : Option Term) (k : NodeKey) :
    stmtsAt s' g k = stmtsAt s g k := by
  unfold stmtsAt; rw [h]

theorem abs_congr {s s' : State} (h : s'.graphs = s.graphs) : abs s' = abs s := by
  unfold abs; rw [h]

theorem setStmts_graphs {s : State} {g : Option Term} {G : SubjMap} (hg : alookup g s.graphs = some G)
    (n : Node) (l : List Stmt) :
    (setStmts s g n l).graphs = aset g (aset n.key (n, l) G) s.graphs := by
  unfold setStmts; rw [hg]

theorem stmtsAt_setStmts {s : State} {g : Option Term} {G : SubjMap} (hg : alookup g s.graphs = some G)
    (n : Node) (l : List Stmt) (g' : Option Term) (k' : NodeKey) :
    stmtsAt (setStmts s g n l) g' k' = if g' = g ∧ k' = n.key then l else stmtsAt s g' k' := by
  unfold stmtsAt
  rw [setStmts_graphs hg, alookup_aset]
  by_cases h1 : g' = g
  · subst h1
    simp only [↓reduceIte, true_and, hg, alookup_aset]
    by_cases h2 : k' = n.key
    · simp [h2]
    · simp [h2]
  · simp [h1]

theorem createGraph_graphs (s : State) (g : Option Term) :
    (createGraph s g).graphs = aset g [] s.graphs := by
  unfold createGraph
  cases g with
  | none => rfl
  | some t => simp [bindNode_graphs]

theorem ensureGraph_graphs (s : State) (g : Option Term) :
    (ensureGraph s g).graphs = s.graphs ∨
      (alookup g s.graphs = none ∧ (ensureGraph s g).graphs = s.graphs ++ [(g, [])]) := by
  unfold ensureGraph
  split
  · exact Or.inl rfl
  · rename_i h
    exact Or.inr ⟨h, by rw [createGraph_graphs, aset_of_alookup_none _ h]⟩

theorem ensureGraph_nextId (s : State) (g : Option Term) : (ensureGraph s g).nextId = s.nextId := by
  unfold ensureGraph
  split
  · rfl
  · unfold createGraph
    cases g with
    | none => rfl
    | some t => simp [bindNode_nextId]

theorem ensureGraph_has (s : State) (g : Option Term) : ∃ G, alookup g (ensureGraph s g).graphs = some G := by
  unfold ensureGraph
  split
  · rename_i G h; exact ⟨G, h⟩
  · exact ⟨[], by rw [createGraph_graphs, alookup_aset_self]⟩

theorem abs_ensureGraph (s : State) (g : Option Term) : abs (ensureGraph s g) = abs s := by
  rcases ensureGraph_graphs s g with h | ⟨_, h⟩
  · exact abs_congr h
  · unfold abs; rw [h]; simp

theorem stmtsAt_ensureGraph (s : State) (g g' : Option Term) (k : NodeKey) :
    stmtsAt (ensureGraph s g) g' k = stmtsAt s g' k := by
  rcases ensureGraph_graphs s g with h | ⟨hn, h⟩
  · exact stmtsAt_congr h g' k
  · unfold stmtsAt
    rw [h, alookup_append]
    cases hl : alookup g' s.graphs with
    | some G => rfl
    | none =>
      simp only [alookup]
      by_cases hgg : g = g' <;> simp [hgg, alookup]

theorem registerGraph_inv (s1 : State) (g : Option Term) (hi : Inv s1) (hg : WFGraphName g) :
    Inv { s1 with graphs := aset g [] s1.graphs } := by
  refine ⟨hi.nodes, nodup_keys_aset _ _ _ hi.gkeys, ?_, ?_⟩
  · intro g' G' hm
    rcases mem_aset hm with ⟨_, rfl⟩ | hm'
    · exact ⟨by simp [keys], by simp⟩
    · exact hi.graph g' G' hm'
  · intro g' G' hm
    rcases mem_aset hm with ⟨rfl, _⟩ | hm'
    · exact hg
    · exact hi.gwf g' G' hm'

theorem createGraph_inv (s : State) (g : Option Term) (hi : Inv s) (hg : WFGraphName g) :
    Inv (createGraph s g) := by
  cases g with
  | none => exact registerGraph_inv s none hi hg
  | some t => exact registerGraph_inv (bindNode s t).1 (some t) (bindNode_inv s t hi hg) hg

theorem ensureGraph_inv (s : State) (g : Option Term) (hi : Inv s) (hg : WFGraphName g) :
    Inv (ensureGraph s g) := by
  unfold ensureGraph
  split
  · exact hi
  · exact createGraph_inv s g hi hg

/-! ### membership in the abstraction -/

theorem mem_abs (s : State) (q : Quad) :
    q ∈ abs s ↔ ∃ g G k n l st, (g, G) ∈ s.graphs ∧ (k, (n, l)) ∈ G ∧ st ∈ l ∧ q = getQuad g n st := by
  unfold abs
  simp only [List.mem_flatMap, List.mem_map, Prod.exists]
  constructor
  · rintro ⟨g, G, hg, k, n, l, hk, st, hst, rfl⟩
    exact ⟨g, G, k, n, l, st, hg, hk, hst, rfl⟩
  · rintro ⟨g, G, k, n, l, st, hg, hk, hst, rfl⟩
    exact ⟨g, G, hg, k, n, l, hk, st, hst, rfl⟩

/-- Under the invariant, a quad is stored iff it is well-formed and the subject's list in its graph
    holds a statement with its predicate and object keys. -/
theorem mem_abs_iff {s : State} (hi : Inv s) (q : Quad) :
    q ∈ abs s ↔ WFQuad q ∧ ∃ st ∈ stmtsAt s q.g (keyOf q.s), st.p.key = keyOf q.p ∧ st.o.key = keyOf q.o := by
  rw [mem_abs]
  constructor
  · rintro ⟨g, G, k, n, l, st, hg, hk, hst, rfl⟩
    obtain ⟨hGk, hGe⟩ := hi.graph g G hg
    obtain ⟨hnk, hn, hl⟩ := hGe k n l hk
    obtain ⟨hp, ho, _⟩ := hl.1 st hst
    refine ⟨⟨hn.2, hp.2, ho.2, hi.gwf g G hg⟩, st, ?_, hp.1.symm, ho.1.symm⟩
    simp only [getQuad, stmtsAt]
    simp only [(mem_iff_alookup hi.gkeys).1 hg, hn.1, hnk, (mem_iff_alookup hGk).1 hk]
    exact hst
  · rintro ⟨⟨hws, hwp, hwo, _⟩, st, hst, hp, ho⟩
    unfold stmtsAt at hst
    split at hst
    · simp at hst
    · rename_i G hG
      split at hst
      · simp at hst
      · rename_i n l hl
        have hg := alookup_some_mem hG
        have hk := alookup_some_mem hl
        obtain ⟨_, hGe⟩ := hi.graph _ G hg
        obtain ⟨hnk, hn, hls⟩ := hGe _ n l hk
        obtain ⟨hpo, hoo, _⟩ := hls.1 st hst
        refine ⟨q.g, G, _, n, l, st, hg, hk, hst, ?_⟩
        have e1 : n.t = q.s := (hn.key_iff hws).1 hnk
        have e2 : st.p.t = q.p := (hpo.key_iff hwp).1 hp
        have e3 : st.o.t = q.o := (hoo.key_iff hwo).1 ho
        simp [getQuad, e1, e2, e3]

theorem wf_of_mem_abs {s : State} (hi : Inv s) {q : Quad} (h : q ∈ abs s) : WFQuad q :=
  ((mem_abs_iff hi q).1 h).1

end RdfModel.Proofs.C19
