/-
  C20F on the facts regenerated from /repo on this run (T2, `Gen.xsdFacts`; `C20.gen_float_ok` proves
  the conditions the theorems need), and boundary witnesses evaluated in the model (each is also a
  T3 corpus entry, so the Go code is known to agree).
-/
import RdfModel.Props.C20Float
import RdfModel.Props.C20Facts
namespace RdfModel.C20F
open RdfModel RdfModel.XsdF
open RdfModel.Xsd (Bytes FVal FloatTy TermArg mapFloat overflows termEqualsText MapRes)
open RdfModel.Spec.Xsd (accepts collapse decimalLex)

theorem gen_floatfamily_sound (T : FloatTy) (s : Bytes) (x : GF)
    (h : mapFloatX (Gen.xsdFacts.float T) s = .ok x) : accepts T.dt s = true :=
  floatfamily_sound T _ (C20.gen_float_ok T) s x h

theorem gen_decimal_complete (s : Bytes) (h : accepts .decimal s = true) :
    ∃ neg n k nd, decimalLex (collapse s) = some (neg, n, k) ∧
      mapFloat (Gen.xsdFacts.float .decimal) s =
        (if overflows 64 (decFVal neg n k nd) = true then .error .range else .ok (decFVal neg n k nd)) :=
  decimal_complete _ (C20.gen_float_ok .decimal) s h

theorem gen_decimal_value (s : Bytes) (v : FVal) (h : mapFloat (Gen.xsdFacts.float .decimal) s = .ok v) :
    ∃ neg n k nd, decimalLex (collapse s) = some (neg, n, k) ∧ v = decFVal neg n k nd :=
  decimal_value _ (C20.gen_float_ok .decimal) s v h

theorem gen_literal_reads_back (T : FloatTy) (d : Dec) (h : decWF d = true) :
    ∃ nd, mapFloat (Gen.xsdFacts.float T) (fmtF d) =
      (if overflows (bitsOf T) (decFVal d.neg (decValue d).1 (decValue d).2 nd) = true then .error .range
       else .ok (decFVal d.neg (decValue d).1 (decValue d).2 nd)) :=
  literal_reads_back T _ (C20.gen_float_ok T) d h

theorem gen_termEquals (T : FloatTy) (x : GF) (l : Bytes)
    (hl : lexGF (Gen.xsdFacts.float T).objFmt (Gen.xsdFacts.float T).objBits x = some l) (t : TermArg) :
    termEqualsText (Gen.xsdFacts.float T).datatype (Gen.xsdFacts.float T).eqDatatypeSame
      (lexGF (Gen.xsdFacts.float T).eqFmt (Gen.xsdFacts.float T).eqBits x) t
      = some (decide (t = .literal (C20.dtIRI T.dt) l)) :=
  floatfamily_termEquals T _ (C20.gen_float_ok T) x l hl t

/-! ### boundary witnesses (model = Go by T3) -/

/-- xsd:decimal is a float64 in the Go code: 2^53 + 1 is mapped to the literal of 2^53 -/
theorem witness_decimal_is_float64 :
    mapObjectX Gen.xsdFacts .decimal (asc "9007199254740993") = .ok (some (asc "9007199254740992")) := by
  decide +kernel

/-- leading `+`, leading and trailing zeros, white space are normalised away -/
theorem witness_decimal_normalises :
    mapObjectX Gen.xsdFacts .decimal (asc " +00012.3400\n") = .ok (some (asc "12.34")) ∧
    mapObjectX Gen.xsdFacts .decimal (asc ".5") = .ok (some (asc "0.5")) ∧
    mapObjectX Gen.xsdFacts .decimal (asc "5.") = .ok (some (asc "5")) := by
  decide +kernel

/-- negative zero keeps its sign (not the XSD canonical form `0`) -/
theorem witness_decimal_negative_zero :
    mapObjectX Gen.xsdFacts .decimal (asc "-0.0") = .ok (some (asc "-0")) := by decide +kernel

/-- no exponent is ever written: 1e21 and 1e-7 as xsd:double -/
theorem witness_double_plain_notation :
    mapObjectX Gen.xsdFacts .double (asc "1e21") = .ok (some (asc "1000000000000000000000")) ∧
    mapObjectX Gen.xsdFacts .double (asc "1E-7") = .ok (some (asc "0.0000001")) ∧
    mapObjectX Gen.xsdFacts .float (asc "0.1") = .ok (some (asc "0.1")) := by
  decide +kernel

theorem witness_specials :
    mapObjectX Gen.xsdFacts .double (asc "+INF") = .ok (some (asc "INF")) ∧
    mapObjectX Gen.xsdFacts .float (asc "-INF") = .ok (some (asc "-INF")) ∧
    mapObjectX Gen.xsdFacts .double (asc "NaN") = .ok (some (asc "NaN")) ∧
    mapObjectX Gen.xsdFacts .decimal (asc "NaN") = .err ∧
    mapObjectX Gen.xsdFacts .decimal (asc "1e5") = .err ∧
    mapObjectX Gen.xsdFacts .double (asc "Infinity") = .err ∧
    mapObjectX Gen.xsdFacts .double (asc "0x1p-2") = .err := by
  decide +kernel

end RdfModel.C20F
