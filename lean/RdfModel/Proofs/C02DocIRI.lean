/-
  Proofs.C02DocIRI — what the decoder reads back from `writeIRI`'s output (C02 `writeIRI_expand`):
  prefix compaction (Model/Prefix.lean), base relativisation (C13 `relativize_checked`) and the
  `<…>` fallback, composed with the token theorems (Props/C02Tokens.lean).
-/
import RdfModel.Props.C02DocDefs
import RdfModel.Props.C02Tokens
import RdfModel.Proofs.C13Rel
namespace RdfModel.Proofs.C02Doc
open RdfModel RdfModel.Ttl RdfModel.TtlEnc RdfModel.C02 RdfModel.TtlDoc

/-- the decoder's environment agrees with the encoder's: same base, every mapping of the manager is
    what the decoder's table answers for its label -/
structure EnvOK (env : Env) (base : Option (List Nat)) (pm : Prefix.PM) (D : List Nat → Prop) : Prop where
  base : env.base = base
  /-- `D`: the labels the document declares (all of the table, or — buffered header — the used ones) -/
  pfx : ∀ m ∈ pm.ordered, D m.pfx → lookupPfx m.pfx env.prefixes = some m.expanded

theorem scalars_of_iriOK {v : List Nat} (h : iriOK v = true) : Scalars v := by
  intro c hc
  simp only [iriOK, List.all_eq_true, Bool.and_eq_true] at h
  exact (isScalarB_iff c).1 (h c hc).1

theorem rawOK_of_iriOK {v : List Nat} (h : iriOK v = true) : ∀ c ∈ v, Spec.TtlPrint.iriRawOK c = true := by
  intro c hc
  simp only [iriOK, List.all_eq_true, Bool.and_eq_true] at h
  exact (h c hc).2

/-! ### prefix compaction -/

theorem compactIn_spec (v : List Nat) : ∀ (ms : List Prefix.Mapping) (pr : Prefix.PrefixRef),
    Prefix.compactIn v ms = some pr → ∃ m ∈ ms, m.pfx = pr.pfx ∧ m.expanded ++ pr.reference = v
  | [], pr, h => by simp [Prefix.compactIn] at h
  | m :: ms, pr, h => by
    unfold Prefix.compactIn at h
    split at h
    · next hc =>
      injection h with h
      subst h
      refine ⟨m, List.mem_cons_self, rfl, ?_⟩
      simp only
      conv => rhs; rw [← List.take_append_drop m.expanded.length v]
      rw [hc.2]
    · obtain ⟨m', hm', h1, h2⟩ := compactIn_spec v ms pr h
      exact ⟨m', List.mem_cons_of_mem _ hm', h1, h2⟩

/-- a local name of IRI characters that `format_PN_LOCAL` accepts is written without percent-encoding -/
theorem localOK_of_format (T : Tables) (hT : DocTablesOK T) : ∀ (first : Bool) (loc out : List Nat),
    formatLocalFrom T first loc = some out → (∀ c ∈ loc, Spec.TtlPrint.iriRawOK c = true) →
    localOKFrom T first loc = true
  | _, [], _, _, _ => rfl
  | first, c :: rest, out, h, hraw => by
    unfold formatLocalFrom at h
    unfold localOKFrom
    have hc := hraw c List.mem_cons_self
    have hrest : ∀ x ∈ rest, Spec.TtlPrint.iriRawOK x = true := fun x hx => hraw x (List.mem_cons_of_mem _ hx)
    split at h
    · next h0 =>
      simp only [Option.map_eq_some_iff] at h
      obtain ⟨t, ht, _⟩ := h
      simp [h0, localOK_of_format T hT false rest t ht hrest]
    · next h1 =>
      have := hT.loc_pct first rest.isEmpty c h1
      rw [hc] at this
      cases this
    · next h2 =>
      simp only [Option.map_eq_some_iff] at h
      obtain ⟨t, ht, _⟩ := h
      simp [h2, localOK_of_format T hT false rest t ht hrest]
    · cases h

/-! ### base relativisation: what a candidate is made of -/

theorem mem_of_drop {α} {l : List α} {n : Nat} {x : α} (h : x ∈ l.drop n) : x ∈ l := List.mem_of_mem_drop h

theorem rootRelative_mem (ri : Nat) (v r : List Nat) (h : Prefix.rootRelative ri v = .some r) : ∀ c ∈ r, c ∈ v := by
  unfold Prefix.rootRelative at h
  split at h
  · cases h
  · injection h with h; subst h; intro c hc; exact mem_of_drop hc

theorem candidateAbs_mem (rb : Prefix.BaseIRI) (ri di : Nat) (v r : List Nat)
    (h : Prefix.candidateAbs rb ri di v = .some r) :
    ∀ c ∈ r, c ∈ v ∨ c = Spec.RFC3986Lite.cDot ∨ c = Spec.RFC3986Lite.cSlash := by
  unfold Prefix.candidateAbs at h
  simp only at h
  split at h
  · next o ho =>
    -- the switch produced an outcome
    subst h
    split at ho
    · split at ho
      · cases ho
      · split at ho
        · split at ho
          · split at ho
            · cases ho
            · injection ho with ho; injection ho with ho; subst ho
              intro c hc; exact Or.inl (mem_of_drop hc)
          · split at ho
            · injection ho with ho; injection ho with ho; subst ho
              intro c hc; exact Or.inl (mem_of_drop hc)
            · cases ho
        · cases ho
    · cases ho
  · split at h
    · split at h
      · cases h
      · split at h
        · split at h
          · injection h with h; subst h
            intro c hc
            simp only [List.cons_append, List.nil_append, List.mem_cons] at hc
            rcases hc with rfl | rfl | hc
            · exact Or.inr (Or.inl rfl)
            · exact Or.inr (Or.inr rfl)
            · exact Or.inl (mem_of_drop hc)
          · injection h with h; subst h
            intro c hc; exact Or.inl (mem_of_drop hc)
        · intro c hc; exact Or.inl (rootRelative_mem _ _ _ h c hc)
    · intro c hc; exact Or.inl (rootRelative_mem _ _ _ h c hc)

theorem candidate_mem (rb : Prefix.BaseIRI) (v r : List Nat) (h : Prefix.candidate rb v = .some r) :
    ∀ c ∈ r, c ∈ v ∨ c = Spec.RFC3986Lite.cDot ∨ c = Spec.RFC3986Lite.cSlash := by
  unfold Prefix.candidate at h
  simp only at h
  split at h
  · next r' hr' =>
    injection h with h; subst h
    split at hr'
    · split at hr'
      · injection hr' with hr'; subst hr'; intro c hc; exact Or.inl (mem_of_drop hc)
      · split at hr'
        · injection hr' with hr'; subst hr'; intro c hc; exact Or.inl (mem_of_drop hc)
        · cases hr'
    · cases hr'
  · split at h
    · cases h
    · next ri di _ =>
      split at h
      · cases h
      · split at h
        · injection h with h; subst h; intro c hc; cases hc
        · exact candidateAbs_mem rb ri di v r h

theorem scalars_of_relativize (b v r : List Nat) (hv : Scalars v) (h : Prefix.relativize b v = .some r) : Scalars r := by
  obtain ⟨_, _, hc⟩ := Proofs.C13.relativize_checked b v r h
  intro c hcr
  rcases candidate_mem _ v r hc c hcr with h1 | h1 | h1
  · exact hv c h1
  · subst h1; decide
  · subst h1; decide


/-! ### the decoder's two ways of reading an IRI -/

variable {C : Cfg} {T : Tables}

/-- `<` formatIRI r `>` is read as `r` and resolved -/
theorem iriIRIREF_text (hT : DocTablesOK T) (hC : CfgOK C T) (e : NQ.End) (env : Env) (r v rest : List Nat)
    (hr : Scalars r) (hres : resolveIRI C env r = some v) :
    iriIRIREF C e env (0x3c :: (formatIRI T false r ++ 0x3e :: rest)) = .ok v rest := by
  unfold iriIRIREF
  rw [hC.prod]
  simp only [Producers.real]
  rw [C02.iriref_roundtrip T hT.tok e false r hr rest]
  simp only [hres]

/-- `pfx:out` is read as the prefixed name `(pfx, loc)` and expanded -/
theorem iriPName_text (hT : DocTablesOK T) (hC : CfgOK C T) (e : NQ.End) (env : Env) (pfx loc out v rest : List Nat)
    (hp : prefixOK T pfx = true) (hps : Scalars pfx) (hs : Scalars loc) (hok : PNLocalOK T loc = true)
    (hout : format_PN_LOCAL T loc = some out) (hstop : LocalStop T e rest) (hex : env.expand pfx loc = some v) :
    iriPName C e env (pfx ++ 0x3a :: (out ++ rest)) = .ok v rest := by
  obtain ⟨out', h1, h2⟩ := C02.pname_roundtrip T hT.tok e pfx loc rest hp hps hs hok hstop
  rw [hout] at h1
  injection h1 with h1
  subst h1
  unfold iriPName
  rw [hC.prod]
  simp only [Producers.real]
  rw [h2]
  simp only [hex]

/-- what the decoder makes of the text `writeIRI` produced, followed by `rest` -/
def decodeWritten (C : Cfg) (T : Tables) (e : NQ.End) (env : Env) (w : Written) (rest : List Nat) : IriRes :=
  match w with
  | .pname p _ out => iriPName C e env (p ++ 0x3a :: (out ++ rest))
  | .rel r => iriIRIREF C e env (0x3c :: (formatIRI T false r ++ 0x3e :: rest))
  | .full v => iriIRIREF C e env (0x3c :: (formatIRI T false v ++ 0x3e :: rest))

theorem labelSafe_parts {isSpace : Nat → Bool} {p : List Nat} (h : labelSafe isSpace T p = true) :
    prefixOK T p = true ∧ Scalars p ∧ (∀ c ∈ p, isSpace c = false) ∧
    (asc "true").isPrefixOf p = false ∧ (asc "false").isPrefixOf p = false := by
  simp only [labelSafe, Bool.and_eq_true, List.all_eq_true, Bool.not_eq_true'] at h
  obtain ⟨⟨⟨h1, h2⟩, h3⟩, h4⟩ := h
  exact ⟨h1, fun c hc => (isScalarB_iff c).1 (h2 c hc).1, fun c hc => (h2 c hc).2, h3, h4⟩

/-- C02 `writeIRI_expand`, all three branches: under the same base / prefix environment the decoder
    reads the written form back as the original IRI. -/
theorem decode_writeIRI {β : Type} (hT : DocTablesOK T) (hC : CfgOK C T) (c : Ctx β) (hcT : c.T = T)
    (base : Option (List Nat)) (hcb : c.base = base.map Prefix.newBaseIRI) (hbase : ∀ b, base = some b → baseOK b)
    (hlab : ∀ m ∈ c.pm.ordered, labelSafe C.isSpace T m.pfx = true)
    (env : Env) (D : List Nat → Prop) (henv : EnvOK env base c.pm D) (v : List Nat) (hv : iriTermOK c base v)
    (hD : ∀ l ∈ usedOfIRI c.pm v, D l) (w : Written)
    (hw : writeIRIForm c v = .ok w) (e : NQ.End) (rest : List Nat) (hstop : LocalStop T e rest) :
    decodeWritten C T e env w rest = .ok v rest := by
  have hsv : Scalars v := scalars_of_iriOK hv.1
  unfold writeIRIForm at hw
  cases hcl : compactLocal c.T c.pm v with
  | some x =>
    obtain ⟨p, loc, out⟩ := x
    rw [hcl] at hw
    injection hw with hw
    subst hw
    -- prefixed name
    unfold compactLocal at hcl
    cases hcp : Prefix.compact c.pm v with
    | none => rw [hcp] at hcl; cases hcl
    | some pr =>
      rw [hcp] at hcl
      simp only [Option.map_eq_some_iff, Prod.mk.injEq] at hcl
      obtain ⟨out', hfmt, h1, h2, h3⟩ := hcl
      subst h1 h2 h3
      rw [hcT] at hfmt
      obtain ⟨m, hm, hmp, hmv⟩ := compactIn_spec v c.pm.ordered pr hcp
      obtain ⟨hpo, hps, _, _, _⟩ := labelSafe_parts (hlab m hm)
      rw [hmp] at hpo hps
      have hsl : Scalars pr.reference := by
        intro x hx
        exact hsv x (by rw [← hmv]; exact List.mem_append_right _ hx)
      have hrawl : ∀ x ∈ pr.reference, Spec.TtlPrint.iriRawOK x = true := by
        intro x hx
        exact rawOK_of_iriOK hv.1 x (by rw [← hmv]; exact List.mem_append_right _ hx)
      have hok : PNLocalOK T pr.reference = true := localOK_of_format T hT true _ _ hfmt hrawl
      have hex : env.expand pr.pfx pr.reference = some v := by
        unfold Env.expand
        have hDm : D m.pfx := hD m.pfx (by simp [usedOfIRI, hcp, hmp])
        rw [← hmp, henv.pfx m hm hDm]
        simp [hmv]
      exact iriPName_text hT hC e env pr.pfx pr.reference out' v rest hpo hps hsl hok hfmt hstop hex
  | none =>
    rw [hcl] at hw
    simp only at hw
    cases hb : base with
    | none =>
      rw [hb] at hcb
      simp only [Option.map_none] at hcb
      rw [hcb] at hw
      injection hw with hw
      subst hw
      exact iriIRIREF_text hT hC e env v v rest hsv (by simp [resolveIRI, henv.base, hb])
    | some b =>
      rw [hb] at hcb
      simp only [Option.map_some] at hcb
      rw [hcb] at hw
      simp only at hw
      have hbok := hbase b hb
      cases hrel : Prefix.relativizeB (Prefix.newBaseIRI b) v with
      | panic => rw [hrel] at hw; cases hw
      | some r =>
        rw [hrel] at hw
        injection hw with hw
        subst hw
        have hrel' : Prefix.relativize b v = .some r := hrel
        have hchk := Proofs.C13.relativize_checked b v r hrel'
        have hres : Prefix.goResolve b r = v := (hchk.2.1 hbok.2.2.1).2
        exact iriIRIREF_text hT hC e env r v rest (scalars_of_relativize b v r hsv hrel')
          (by simp [resolveIRI, henv.base, hb, hC.res_some, hres])
      | none =>
        rw [hrel] at hw
        injection hw with hw
        subst hw
        have hfull : writeIRIForm c v = .ok (.full v) := by
          unfold writeIRIForm
          rw [hcl, hcb]
          simp only [hrel]
        have hst := hv.2 hfull
        simp only [stableUnder, hb, beq_iff_eq] at hst
        exact iriIRIREF_text hT hC e env v v rest hsv
          (by simp [resolveIRI, henv.base, hb, hC.res_some, hst])

end RdfModel.Proofs.C02Doc
