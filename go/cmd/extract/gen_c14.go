package main

// T2 generator for property C14: structural facts about locking and atomic counters in the
// blank-node factories, label providers and mapper  ->  lean/RdfModel/Gen/LockFacts.lean
//
// Purely syntactic (go/ast). For every method declared in the anchored files it interprets the body
// statement by statement with an abstract state "mutex held / not held" and records whether every use
// of a map-typed receiver field happens while the receiver's mutex is held, whether the mutex is
// released on every return path, whether atomic-typed receiver fields are only used as `x.f.Add(1)`,
// and whether any receiver field is assigned. Code shapes the interpreter does not understand
// (loops, switch, select, go, closures, address-of a receiver field, defer of anything but Unlock,
// branches that join with different lock states) yield `unknown`; the consuming theorem
// `RdfModel.C14.all_ops_atomic` then fails instead of guessing.

import (
	"fmt"
	"go/ast"
	"go/parser"
	"go/token"
	"os"
	"path/filepath"
	"sort"
	"strings"
)

func init() { generators["c14"] = genC14 }

var c14Files = []string{
	"rdf/blank_node_factory.go",
	"rdf/blank_node_factory_default.go",
	"rdf/blanknodes/string_factory.go",
	"rdf/blanknodes/int64_string_provider.go",
	"rdf/blanknodes/uuid_string_provider.go",
	"rdf/blanknodes/mapper.go",
}

type c14Field struct {
	strct, name, kind, typ string
}

type c14Method struct {
	recv, name    string
	exported      bool
	ptrRecv       bool
	needsPtr      bool
	mapAccesses   int
	unguarded     int
	lockOps       int
	balanced      string // yes | no | unknown
	atomicUses    int
	atomicBad     int
	fieldWrites   int
	unknownReason string
}

func c14TypeString(e ast.Expr) string {
	switch t := e.(type) {
	case *ast.Ident:
		return t.Name
	case *ast.StarExpr:
		return "*" + c14TypeString(t.X)
	case *ast.SelectorExpr:
		return c14TypeString(t.X) + "." + t.Sel.Name
	case *ast.MapType:
		return "map[" + c14TypeString(t.Key) + "]" + c14TypeString(t.Value)
	case *ast.ArrayType:
		return "[]" + c14TypeString(t.Elt)
	case *ast.InterfaceType:
		return "interface"
	case *ast.FuncType:
		return "func"
	case *ast.ChanType:
		return "chan"
	case *ast.StructType:
		return "struct"
	}
	return fmt.Sprintf("?%T", e)
}

func c14FieldKind(typ string) string {
	switch {
	case strings.HasPrefix(typ, "map["):
		return "map"
	case typ == "sync.Mutex" || typ == "sync.RWMutex" || typ == "*sync.Mutex" || typ == "*sync.RWMutex":
		return "mutex"
	case typ == "atomic.Int64" || typ == "*atomic.Int64":
		return "atomic"
	case typ == "int" || typ == "int64" || typ == "uint64" || typ == "int32" || typ == "uint32" || typ == "uint":
		return "plaininteger" // a mutable-looking counter type: only acceptable when never written by a method
	}
	return "other"
}

// c14Interp interprets one method body.
type c14Interp struct {
	recv     string            // receiver identifier
	kinds    map[string]string // field name -> kind, of the receiver's struct
	m        *c14Method
	deferred bool
	unknown  string
	entry    bool                     // lock state on entry (false for an API method, the caller's state for an inlined helper)
	helpers  map[string]*ast.FuncDecl // other methods of the same receiver type (inlined at their call sites)
	depth    int
}

func (in *c14Interp) fail(why string) {
	if in.unknown == "" {
		in.unknown = why
	}
}

// recvField returns the field name when e is `recv.f`.
func (in *c14Interp) recvField(e ast.Expr) (string, bool) {
	if se, ok := e.(*ast.SelectorExpr); ok {
		if id, ok := se.X.(*ast.Ident); ok && id.Name == in.recv && in.recv != "" && in.recv != "_" {
			return se.Sel.Name, true
		}
	}
	return "", false
}

// mutexCall recognises recv.<mutexfield>.Lock() / .Unlock().
func (in *c14Interp) mutexCall(e ast.Expr) (string, bool) {
	call, ok := e.(*ast.CallExpr)
	if !ok || len(call.Args) != 0 {
		return "", false
	}
	se, ok := call.Fun.(*ast.SelectorExpr)
	if !ok {
		return "", false
	}
	f, ok := in.recvField(se.X)
	if !ok || in.kinds[f] != "mutex" {
		return "", false
	}
	return se.Sel.Name, true
}

// expr walks an expression evaluated while the mutex is (not) held.
func (in *c14Interp) expr(e ast.Node, locked bool) {
	if e == nil {
		return
	}
	ast.Inspect(e, func(n ast.Node) bool {
		switch x := n.(type) {
		case *ast.FuncLit:
			in.fail("function literal")
			return false
		case *ast.UnaryExpr:
			if x.Op == token.AND {
				if _, ok := in.recvField(x.X); ok {
					in.fail("address of a receiver field")
				}
			}
		case *ast.StarExpr:
			if id, ok := x.X.(*ast.Ident); ok && id.Name == in.recv {
				in.fail("receiver dereferenced (copy of the struct)")
			}
		case *ast.CallExpr:
			if op, ok := in.mutexCall(x); ok {
				in.fail("mutex " + op + " inside an expression")
				return false
			}
			// recv.helper(...): another method of the same type
			if se, ok := x.Fun.(*ast.SelectorExpr); ok {
				if name, ok := in.recvField(se); ok {
					if _, isField := in.kinds[name]; !isField {
						if fd, ok := in.helpers[name]; ok {
							for _, a := range x.Args {
								in.expr(a, locked)
							}
							in.inline(fd, locked)
							return false
						}
					}
				}
			}
			// recv.<atomic>.Add(1)
			if se, ok := x.Fun.(*ast.SelectorExpr); ok {
				if f, ok := in.recvField(se.X); ok && in.kinds[f] == "atomic" {
					in.m.atomicUses++
					lit, isLit := (ast.Expr)(nil), false
					if len(x.Args) == 1 {
						lit = x.Args[0]
						_, isLit = lit.(*ast.BasicLit)
					}
					if !(se.Sel.Name == "Add" && isLit && lit.(*ast.BasicLit).Value == "1") {
						in.m.atomicBad++
					}
					for _, a := range x.Args {
						in.expr(a, locked)
					}
					return false
				}
			}
		case *ast.SelectorExpr:
			if f, ok := in.recvField(x); ok {
				switch in.kinds[f] {
				case "map":
					in.m.mapAccesses++
					if !locked {
						in.m.unguarded++
					}
				case "atomic":
					// any use that is not the receiver of a call handled above
					in.m.atomicUses++
					in.m.atomicBad++
				case "mutex":
					in.fail("mutex used other than Lock()/Unlock() statement")
				case "":
					in.fail("unknown receiver field " + f)
				}
				return false
			}
		}
		return true
	})
}

// block interprets statements; returns the lock state after them and whether control cannot fall through.
func (in *c14Interp) block(stmts []ast.Stmt, locked bool) (bool, bool) {
	for _, st := range stmts {
		var term bool
		locked, term = in.stmt(st, locked)
		if term {
			return locked, true
		}
	}
	return locked, false
}

// atReturn: the lock state after the return (a deferred Unlock releases it) must be the state on entry.
func (in *c14Interp) atReturn(locked bool) {
	if (locked && !in.deferred) != in.entry {
		in.m.balanced = "no"
	}
}

// inline interprets a call `recv.helper(...)` of another method of the same receiver type in the current
// lock state; its accesses count for the calling method. The helper must leave the lock state unchanged.
func (in *c14Interp) inline(fd *ast.FuncDecl, locked bool) {
	if in.depth >= 3 {
		in.fail("helper calls nested too deeply or recursive")
		return
	}
	recvName := ""
	if len(fd.Recv.List[0].Names) == 1 {
		recvName = fd.Recv.List[0].Names[0].Name
	}
	sub := &c14Interp{recv: recvName, kinds: in.kinds, m: in.m, entry: locked, helpers: in.helpers, depth: in.depth + 1}
	l, term := sub.block(fd.Body.List, locked)
	if !term {
		sub.atReturn(l)
	}
	if sub.unknown != "" {
		in.fail("in helper " + fd.Name.Name + ": " + sub.unknown)
	}
}

func (in *c14Interp) assignTarget(lhs ast.Expr, locked bool) {
	// direct index assignment into a map field: a guarded (or unguarded) map access
	if t, ok := lhs.(*ast.IndexExpr); ok {
		if f, ok := in.recvField(t.X); ok && in.kinds[f] == "map" {
			in.m.mapAccesses++
			if !locked {
				in.m.unguarded++
			}
			in.expr(t.Index, locked)
			return
		}
	}
	// any other assignment whose target is reached through a receiver field (recv.f, *recv.f, recv.f[i], recv.f.g …)
	base := lhs
	for {
		switch t := base.(type) {
		case *ast.StarExpr:
			base = t.X
			continue
		case *ast.ParenExpr:
			base = t.X
			continue
		case *ast.IndexExpr:
			in.expr(t.Index, locked)
			base = t.X
			continue
		case *ast.SelectorExpr:
			if _, ok := in.recvField(t); ok {
				in.m.fieldWrites++
				return
			}
			base = t.X
			continue
		}
		break
	}
	in.expr(lhs, locked)
}

func (in *c14Interp) stmt(st ast.Stmt, locked bool) (bool, bool) {
	switch s := st.(type) {
	case *ast.ExprStmt:
		if op, ok := in.mutexCall(s.X); ok {
			in.m.lockOps++
			switch op {
			case "Lock":
				if locked {
					in.m.balanced = "no"
				}
				return true, false
			case "Unlock":
				if !locked {
					in.m.balanced = "no"
				}
				return false, false
			default:
				in.fail("mutex method " + op)
				return locked, false
			}
		}
		in.expr(s.X, locked)
		if call, ok := s.X.(*ast.CallExpr); ok {
			if id, ok := call.Fun.(*ast.Ident); ok && id.Name == "panic" {
				return locked, true // abnormal termination: no balance requirement
			}
		}
		return locked, false
	case *ast.AssignStmt:
		for _, r := range s.Rhs {
			in.expr(r, locked)
		}
		for _, l := range s.Lhs {
			in.assignTarget(l, locked)
		}
		return locked, false
	case *ast.IncDecStmt:
		in.assignTarget(s.X, locked)
		return locked, false
	case *ast.DeclStmt:
		in.expr(s.Decl, locked)
		return locked, false
	case *ast.ReturnStmt:
		for _, r := range s.Results {
			in.expr(r, locked)
		}
		in.atReturn(locked)
		return locked, true
	case *ast.BlockStmt:
		return in.block(s.List, locked)
	case *ast.IfStmt:
		if s.Init != nil {
			var t bool
			locked, t = in.stmt(s.Init, locked)
			if t {
				in.fail("terminating if-init")
			}
		}
		in.expr(s.Cond, locked)
		l1, t1 := in.block(s.Body.List, locked)
		l2, t2 := locked, false
		if s.Else != nil {
			l2, t2 = in.stmt(s.Else, locked)
		}
		switch {
		case t1 && t2:
			return locked, true
		case t1:
			return l2, false
		case t2:
			return l1, false
		default:
			if l1 != l2 {
				in.fail("branches join with different lock states")
			}
			return l1, false
		}
	case *ast.DeferStmt:
		if op, ok := in.mutexCall(s.Call); ok && op == "Unlock" {
			in.m.lockOps++
			if !locked {
				in.m.balanced = "no"
			}
			in.deferred = true
			return locked, false
		}
		in.fail("defer of something other than Unlock")
		return locked, false
	case *ast.EmptyStmt:
		return locked, false
	default:
		in.fail(fmt.Sprintf("statement %T", st))
		return locked, false
	}
}

func c14LeanStr(s string) string {
	return "\"" + strings.ReplaceAll(strings.ReplaceAll(s, "\\", "\\\\"), "\"", "\\\"") + "\""
}

func genC14(leanRoot string) {
	repo := os.Getenv("VERIF_REPO")
	if repo == "" {
		repo = "/repo"
	}
	fset := token.NewFileSet()
	structs := map[string]map[string]string{} // struct -> field -> kind
	var fields []c14Field
	var files []*ast.File
	for _, rel := range c14Files {
		f, err := parser.ParseFile(fset, filepath.Join(repo, rel), nil, 0)
		if err != nil {
			fmt.Fprintln(os.Stderr, "c14:", err)
			os.Exit(2)
		}
		files = append(files, f)
		for _, d := range f.Decls {
			gd, ok := d.(*ast.GenDecl)
			if !ok || gd.Tok != token.TYPE {
				continue
			}
			for _, sp := range gd.Specs {
				ts := sp.(*ast.TypeSpec)
				stt, ok := ts.Type.(*ast.StructType)
				if !ok {
					continue
				}
				structs[ts.Name.Name] = map[string]string{}
				for _, fl := range stt.Fields.List {
					typ := c14TypeString(fl.Type)
					names := fl.Names
					if len(names) == 0 { // embedded
						names = []*ast.Ident{{Name: typ}}
					}
					for _, nm := range names {
						k := c14FieldKind(typ)
						structs[ts.Name.Name][nm.Name] = k
						fields = append(fields, c14Field{ts.Name.Name, nm.Name, k, typ})
					}
				}
			}
		}
	}
	methodDecls := map[string]map[string]*ast.FuncDecl{} // receiver type -> method name -> declaration
	for _, f := range files {
		for _, d := range f.Decls {
			if fd, ok := d.(*ast.FuncDecl); ok && fd.Recv != nil && fd.Body != nil {
				rt := fd.Recv.List[0].Type
				if st, ok := rt.(*ast.StarExpr); ok {
					rt = st.X
				}
				rn := c14TypeString(rt)
				if methodDecls[rn] == nil {
					methodDecls[rn] = map[string]*ast.FuncDecl{}
				}
				methodDecls[rn][fd.Name.Name] = fd
			}
		}
	}
	var methods []c14Method
	foreign := 0 // selectors x.f in non-method functions where f names a map/atomic/mutex field of some struct
	shared := map[string]bool{}
	for _, fs := range structs {
		for n, k := range fs {
			if k == "map" || k == "atomic" || k == "mutex" {
				shared[n] = true
			}
		}
	}
	for _, f := range files {
		for _, d := range f.Decls {
			fd, ok := d.(*ast.FuncDecl)
			if !ok || fd.Body == nil {
				continue
			}
			if fd.Recv == nil {
				ast.Inspect(fd.Body, func(n ast.Node) bool {
					if se, ok := n.(*ast.SelectorExpr); ok && shared[se.Sel.Name] {
						if _, isIdent := se.X.(*ast.Ident); isIdent {
							// could be a package selector (atomic.Int64): packages are not field names here
							if id := se.X.(*ast.Ident); id.Name != "atomic" && id.Name != "sync" {
								foreign++
							}
						} else {
							foreign++
						}
					}
					return true
				})
				continue
			}
			rt := fd.Recv.List[0].Type
			ptr := false
			if st, ok := rt.(*ast.StarExpr); ok {
				ptr = true
				rt = st.X
			}
			rname := c14TypeString(rt)
			kinds, ok := structs[rname]
			m := c14Method{recv: rname, name: fd.Name.Name, exported: ast.IsExported(fd.Name.Name), ptrRecv: ptr, balanced: "yes"}
			if !ok {
				m.unknownReason = "receiver type is not a struct of the anchored files"
				methods = append(methods, m)
				continue
			}
			for fname, k := range kinds {
				typ := ""
				for _, fl := range fields {
					if fl.strct == rname && fl.name == fname {
						typ = fl.typ
					}
				}
				if k == "map" || (k == "mutex" && !strings.HasPrefix(typ, "*")) || (k == "atomic" && !strings.HasPrefix(typ, "*")) {
					m.needsPtr = true
				}
			}
			recvName := ""
			if len(fd.Recv.List[0].Names) == 1 {
				recvName = fd.Recv.List[0].Names[0].Name
			}
			in := &c14Interp{recv: recvName, kinds: kinds, m: &m, helpers: methodDecls[rname]}
			locked, term := in.block(fd.Body.List, false)
			if !term {
				in.atReturn(locked)
			}
			m.unknownReason = in.unknown
			methods = append(methods, m)
		}
	}
	sort.Slice(methods, func(i, j int) bool {
		if methods[i].recv != methods[j].recv {
			return methods[i].recv < methods[j].recv
		}
		return methods[i].name < methods[j].name
	})
	sort.Slice(fields, func(i, j int) bool {
		if fields[i].strct != fields[j].strct {
			return fields[i].strct < fields[j].strct
		}
		return fields[i].name < fields[j].name
	})

	var sb strings.Builder
	sb.WriteString("-- GENERATED by /verif/go/cmd/extract (gen_c14.go) from /repo (T2: go/ast facts). Do not edit.\n")
	sb.WriteString("namespace RdfModel.Gen.LockFacts\n\n")
	sb.WriteString("inductive Tri where | yes | no | unknown\n  deriving DecidableEq, Repr\n\n")
	sb.WriteString("structure FieldFact where\n  struct : String\n  field : String\n  kind : String\n  type : String\n  deriving DecidableEq, Repr\n\n")
	sb.WriteString(`structure MethodFact where
  recv : String
  name : String
  /-- exported method (API operation); unexported methods are helpers: their bodies are interpreted inline at
      the call sites inside API methods, in the lock state of the call, and the standalone facts listed for
      them (interpreted as if called without the mutex held) are informational -/
  exported : Bool
  /-- declared on a pointer receiver -/
  ptrRecv : Bool
  /-- the receiver struct holds a map, a mutex value or an atomic value (a value receiver would copy it) -/
  needsPtr : Bool
  /-- uses of map-typed receiver fields -/
  mapAccesses : Nat
  /-- every one of them happens while the receiver's mutex is held -/
  mapGuarded : Tri
  /-- Lock()/Unlock() statements on the receiver's mutex -/
  lockOps : Nat
  /-- no double Lock, no Unlock without Lock, mutex released on every return path -/
  lockBalanced : Tri
  /-- uses of atomic-typed receiver fields -/
  atomicUses : Nat
  /-- every one of them is ` + "`recv.f.Add(1)`" + ` -/
  atomicOnlyAdd : Tri
  /-- assignments to receiver fields (other than index assignments into a map field) -/
  fieldWrites : Nat
  deriving DecidableEq, Repr

`)
	sb.WriteString("def fields : List FieldFact := [\n")
	for i, f := range fields {
		sep := ","
		if i == len(fields)-1 {
			sep = ""
		}
		fmt.Fprintf(&sb, "  ⟨%s, %s, %s, %s⟩%s\n", c14LeanStr(f.strct), c14LeanStr(f.name), c14LeanStr(f.kind), c14LeanStr(f.typ), sep)
	}
	sb.WriteString("]\n\n")
	tri := func(unknown string, bad bool) string {
		if unknown != "" {
			return ".unknown"
		}
		if bad {
			return ".no"
		}
		return ".yes"
	}
	sb.WriteString("def methods : List MethodFact := [\n")
	for i, m := range methods {
		sep := ","
		if i == len(methods)-1 {
			sep = ""
		}
		bal := tri(m.unknownReason, m.balanced != "yes")
		fmt.Fprintf(&sb, "  { recv := %s, name := %s, exported := %v, ptrRecv := %v, needsPtr := %v, mapAccesses := %d, mapGuarded := %s, lockOps := %d, lockBalanced := %s, atomicUses := %d, atomicOnlyAdd := %s, fieldWrites := %d }%s",
			c14LeanStr(m.recv), c14LeanStr(m.name), m.exported, m.ptrRecv, m.needsPtr, m.mapAccesses, tri(m.unknownReason, m.unguarded > 0), m.lockOps, bal,
			m.atomicUses, tri(m.unknownReason, m.atomicBad > 0), m.fieldWrites, sep)
		if m.unknownReason != "" {
			fmt.Fprintf(&sb, " -- unknown: %s", m.unknownReason)
		}
		sb.WriteString("\n")
	}
	sb.WriteString("]\n\n")
	fmt.Fprintf(&sb, "/-- selectors naming a map/mutex/atomic field inside plain functions (constructors) of the anchored files -/\ndef foreignAccesses : Nat := %d\n\n", foreign)
	sb.WriteString("end RdfModel.Gen.LockFacts\n")
	writeIfChanged(filepath.Join(leanRoot, "RdfModel", "Gen", "LockFacts.lean"), sb.String())
}
