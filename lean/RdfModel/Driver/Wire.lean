/-
  RdfModel.Driver.Wire — line-protocol helpers for the driver (hex tokens, term tokens).
  Token forms:  x<hex>  bytes (UTF-8, possibly ill-formed);  I<hex> IRI;  B<hex> blank node label;
  L<hexlex>.<hexdt>.<hexlang|-> literal;  -  absent.
-/
import RdfModel.Model.Term
namespace RdfModel.Wire
open RdfModel

def hexVal (c : Char) : Option Nat :=
  if '0' ≤ c ∧ c ≤ '9' then some (c.toNat - 48)
  else if 'a' ≤ c ∧ c ≤ 'f' then some (c.toNat - 87)
  else if 'A' ≤ c ∧ c ≤ 'F' then some (c.toNat - 55)
  else none

def unhexChars : List Char → Option (List Nat)
  | [] => some []
  | a :: b :: rest => do
    let x ← hexVal a
    let y ← hexVal b
    let r ← unhexChars rest
    pure ((x * 16 + y) :: r)
  | _ => none

def unhex (s : String) : Option (List Nat) := unhexChars s.toList

def hexDigit (n : Nat) : Char := if n < 10 then Char.ofNat (48 + n) else Char.ofNat (87 + n)

def hexOfBytes (bs : List Nat) : String :=
  String.ofList (bs.flatMap (fun b => [hexDigit (b / 16 % 16), hexDigit (b % 16)]))

/-- `x<hex>` → bytes -/
def bytesTok (s : String) : Option (List Nat) :=
  match s.toList with
  | 'x' :: rest => unhexChars rest
  | _ => none

/-- `x<hex>` → runes, decoding UTF-8 the way Go does -/
def runesTok (s : String) : Option (List Nat) := (bytesTok s).map utf8Decode

/-- runes → `x<hex of UTF-8>` -/
def tokOfRunes (rs : List Nat) : String := "x" ++ hexOfBytes (utf8Encode rs)
def tokOfBytes (bs : List Nat) : String := "x" ++ hexOfBytes bs

def hexRunes (rs : List Nat) : String := hexOfBytes (utf8Encode rs)

def parseTerm (s : String) : Option (Option (Term (List Nat))) :=
  match s.toList with
  | ['-'] => some none
  | 'I' :: rest => (unhexChars rest).map (fun b => some (.iri (utf8Decode b)))
  | 'B' :: rest => (unhexChars rest).map (fun b => some (.bnode (utf8Decode b)))
  | 'L' :: rest =>
    match (String.ofList rest).splitOn "." with
    | [l, d, t] => do
      let lex ← unhex l
      let dt ← unhex d
      let tag ← (if t = "-" then some none else (unhex t).map some)
      pure (some (.lit (utf8Decode lex) (utf8Decode dt) (tag.map utf8Decode)))
    | _ => none
  | _ => none

def showTerm : Term (List Nat) → String
  | .iri v => "I" ++ hexRunes v
  | .bnode b => "B" ++ hexRunes b
  | .lit l d t => "L" ++ hexRunes l ++ "." ++ hexRunes d ++ "." ++
      (match t with | some x => hexRunes x | none => "-")

def showOptTerm : Option (Term (List Nat)) → String
  | some t => showTerm t
  | none => "-"

def showQuad (q : Quad (List Nat)) : String :=
  showTerm q.s ++ "," ++ showTerm q.p ++ "," ++ showTerm q.o ++ "," ++ showOptTerm q.g

end RdfModel.Wire
