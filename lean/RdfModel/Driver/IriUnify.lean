/-
  Driver handler for component `iriu` (part IRIU, serves C01 / C12 / C13): the unified IRI models.

    iriu.url <s>        → <a> <b> <c> <d>   acceptance of `url.Parse(s)` / `IsAbs()` as `abs | rel | bad`:
                            a = Model.GoUrl on the runes of s (what the NT/NQ driver used before round 3d)
                            b = Model.GoUrl on the bytes of s
                            c = Model.GoUrlFull on the bytes of s (`unm` where it declines)
                            d = 0|1, `IriUnify.urlOk` on the runes (what the NT/NQ driver uses now)
    iriu.rel <b> <v>    → bad-base <class> | base-panic | panic | none | some:<rel>
                            `ParseBaseIRI(b)` then `RelativizeIRI(v)` over Model/ParsedIRI.lean (`relativizeCode`)
    iriu.res <b> <r>    → ok <s> | err <class> | panic      `PIRI.resolveStr`
-/
import RdfModel.Driver.Wire
import RdfModel.Driver.PIRI
import RdfModel.Model.IriUnify
namespace RdfModel.Driver.IriUnify
open RdfModel RdfModel.Wire RdfModel.IriUnify

def showAcc (abs ok : Bool) : String := if abs then "abs" else if ok then "rel" else "bad"

def showOutcome : Prefix.Outcome → String
  | .panic => "panic"
  | .none => "none"
  | .some r => "some:" ++ tokOfBytes r

def handle (op : String) (args : List String) : Option String :=
  match op, args with
  | "url", [s] => do
    let bs ← bytesTok s
    let rs := utf8Decode bs
    let a := showAcc (GoUrl.parseAbsOk rs) (GoUrl.parseOk rs)
    let b := showAcc (GoUrl.parseAbsOk bs) (GoUrl.parseOk bs)
    let c := if fullUnmodelled bs then "unm" else showAcc (fullAbsOk bs) (fullOk bs)
    pure (a ++ " " ++ b ++ " " ++ c ++ " " ++ (if urlOk rs then "1" else "0"))
  | "rel", [b, v] => do
    let b ← bytesTok b
    let v ← bytesTok v
    pure (match relativizeCode b v with
      | .badBase e => "bad-base " ++ Driver.PIRI.errName e
      | .basePanic => "base-panic"
      | .res o => showOutcome o)
  | "res", [b, r] => do
    let b ← bytesTok b
    let r ← bytesTok r
    pure (match PIRI.resolveStr b r with
      | .ok (some s) => "ok " ++ tokOfBytes s
      | .ok none => "panic"
      | .error e => "err " ++ Driver.PIRI.errName e)
  | _, _ => none

end RdfModel.Driver.IriUnify
