// Command c11ra ties the Lean model of the RDFa decoder (lean/RdfModel/Model/RdfaDecoder.lean, driver op `rdfa.dec`) to
// /repo/encoding/htmlrdfa: every HTML document is parsed in Go with the entry points the decoder uses (html.ParseDocument with and
// without text offsets, x/net/html.Parse + html.NewDocument), the resulting DOM is sent to the driver as a wire-encoded tree
// together with oracle tables for the model's parameters (iri.ParsedIRI operations, strings.ToLower on non-ASCII strings, the
// xsdobject time mappers, xmlRender), and the model's ordered statements (blank nodes by first occurrence) / outcome are compared
// with the real decoder on the same bytes.  It also evaluates the C05 life-cycle and C06 well-formedness oracles on the real decoder.
package main

import (
	"archive/tar"
	"compress/gzip"
	"encoding/hex"
	"encoding/json"
	"flag"
	"fmt"
	"io"
	"os"
	"path/filepath"
	"regexp"
	"runtime/debug"
	"runtime/pprof"
	"sort"
	"strconv"
	"strings"
	"time"

	"verifharness/vh"

	enchtml "github.com/dpb587/rdfkit-go/encoding/html"
	"github.com/dpb587/rdfkit-go/encoding/htmlrdfa"
	"github.com/dpb587/rdfkit-go/iri"
	"github.com/dpb587/rdfkit-go/iri/rdfacontext"
	"github.com/dpb587/rdfkit-go/ontology/xsd/xsdobject"
	"github.com/dpb587/rdfkit-go/rdf"
	xhtml "golang.org/x/net/html"
)

var (
	tier     = flag.String("tier", "quick", "quick|thorough")
	driver   = flag.String("driver", "/verif/lean/.lake/build/bin/driver", "path of the Lean driver")
	out      = flag.String("out", "/verif/evidence/C11RA.harness.json", "report path")
	findings = flag.String("findings", "/verif/known-findings.json", "known findings")
	replay   = flag.String("replay", "", "replay file (evidence JSON or lines `<cfg> <hex base> <hex html>`)")
	scale    = flag.Int("scale", 1, "multiply the number of generated cases")
	nomodel  = flag.Bool("nomodel", false, "oracle only: do not run the Lean driver")
	hints    = flag.String("hints", "", "unused")
	only     = flag.String("only", "", "comma-separated families: corpus,soup,wild,mutated")
	repoDir  = flag.String("repo", "", "repository root (default $VERIF_REPO or /repo)")
	cpuprof  = flag.String("cpuprofile", "", "write a CPU profile (development aid)")
)

func hx(s string) string { return hex.EncodeToString([]byte(s)) }

// ---------------------------------------------------------------- configuration

type config struct {
	profile int     // htmlrdfa.HtmlProcessingProfile, 0 = not set
	vocab   *string // SetDefaultVocabulary
	pfx     int     // 0 = default (widely used initial context), 1 = SetDefaultPrefixes(customPrefixes)
	mode    int     // 0 ParseDocument, 1 ParseDocument + text offsets, 2 x/net/html.Parse + NewDocument
}

var customPrefixes = iri.PrefixMappingList{
	{Prefix: "ex", Expanded: "http://custom.example/ex#"},
	{Prefix: "schema", Expanded: "http://schema.org/"},
	{Prefix: "rdfa", Expanded: "http://www.w3.org/ns/rdfa#"},
	{Prefix: "rdf", Expanded: "http://www.w3.org/1999/02/22-rdf-syntax-ns#"},
	{Prefix: "empty", Expanded: ""},
}

func (c config) String() string {
	v := "-"
	if c.vocab != nil {
		v = "h" + hx(*c.vocab)
	}
	return fmt.Sprintf("p%d.%s.x%d.m%d", c.profile, v, c.pfx, c.mode)
}

func parseConfig(s string) (config, error) {
	f := strings.Split(s, ".")
	var c config
	if len(f) != 4 || len(f[0]) < 2 || len(f[2]) < 2 || len(f[3]) < 2 {
		return c, fmt.Errorf("bad config %q", s)
	}
	var err error
	if c.profile, err = strconv.Atoi(f[0][1:]); err != nil {
		return c, err
	}
	if f[1] != "-" {
		b, err := hex.DecodeString(f[1][1:])
		if err != nil {
			return c, err
		}
		v := string(b)
		c.vocab = &v
	}
	if c.pfx, err = strconv.Atoi(f[2][1:]); err != nil {
		return c, err
	}
	c.mode, err = strconv.Atoi(f[3][1:])
	return c, err
}

func (c config) prefixList() iri.PrefixMappingList {
	if c.pfx == 1 {
		return customPrefixes
	}
	return rdfacontext.NewWidelyUsedInitialContext().GetPrefixMappings()
}

// ---------------------------------------------------------------- the real decoder

type goRun struct {
	parseErr string
	newErr   string
	panic    string
	stack    string
	stmts    []string
	triples  []rdf.Triple
	err      string // Err() after the end
	life     string // C05 life-cycle violation
	wf       string // C06 violation
	root     *xhtml.Node
	base     string
}

func parseDoc(text, base string, mode int) (*enchtml.Document, error) {
	if mode == 2 {
		root, err := xhtml.Parse(strings.NewReader(text))
		if err != nil {
			return nil, err
		}
		return enchtml.NewDocument(root, base)
	}
	opts := enchtml.DocumentConfig{}
	if base != "" {
		opts = opts.SetLocation(base)
	}
	if mode == 1 {
		opts = opts.SetCaptureTextOffsets(true)
	}
	return enchtml.ParseDocument(strings.NewReader(text), opts)
}

const (
	xsdStringIRI  = "http://www.w3.org/2001/XMLSchema#string"
	rdfLangString = "http://www.w3.org/1999/02/22-rdf-syntax-ns#langString"
	rdfDirLang    = "http://www.w3.org/1999/02/22-rdf-syntax-ns#dirLangString"
)

type bnNames struct{ ids map[rdf.BlankNodeIdentifier]int }

func (b *bnNames) name(n rdf.BlankNode) string {
	if _, ok := b.ids[n.Identifier]; !ok {
		b.ids[n.Identifier] = len(b.ids)
	}
	return fmt.Sprintf("B%d", b.ids[n.Identifier])
}

func showLit(l rdf.Literal) string {
	tag := "-"
	switch t := l.Tag.(type) {
	case nil:
	case rdf.LanguageLiteralTag:
		tag = hx(t.Language)
	default:
		tag = hx(fmt.Sprintf("?%T", l.Tag))
	}
	return "L" + hx(l.LexicalForm) + "." + hx(string(l.Datatype)) + "." + tag
}

// wfTriple: the C06 statement shape
func wfTriple(t rdf.Triple) string {
	switch s := t.Subject.(type) {
	case nil:
		return "nil subject"
	case rdf.IRI:
	case rdf.BlankNode:
		if s.Identifier == nil {
			return "subject blank node without identity"
		}
	default:
		return fmt.Sprintf("subject of kind %T", s)
	}
	switch t.Predicate.(type) {
	case nil:
		return "nil predicate"
	case rdf.IRI:
	default:
		return fmt.Sprintf("predicate of kind %T", t.Predicate)
	}
	switch o := t.Object.(type) {
	case nil:
		return "nil object"
	case rdf.IRI:
	case rdf.BlankNode:
		if o.Identifier == nil {
			return "object blank node without identity"
		}
	case rdf.Literal:
		if o.Datatype == "" {
			return "literal without datatype"
		}
		switch tag := o.Tag.(type) {
		case nil:
			if o.Datatype == rdfLangString || o.Datatype == rdfDirLang {
				return "language-string datatype without tag"
			}
		case rdf.LanguageLiteralTag:
			if o.Datatype != rdfLangString {
				return "language tag on datatype " + string(o.Datatype)
			}
			if tag.Language == "" {
				return "empty language tag"
			}
		default:
			return fmt.Sprintf("literal tag of kind %T", o.Tag)
		}
	default:
		return fmt.Sprintf("object of kind %T", o)
	}
	return ""
}

func runGo(text, base string, cfg config) (res goRun) {
	defer func() {
		if r := recover(); r != nil {
			res.panic = fmt.Sprint(r)
			res.stack = string(debug.Stack())
		}
	}()
	doc, err := parseDoc(text, base, cfg.mode)
	if err != nil {
		res.parseErr = err.Error()
		return
	}
	res.root = doc.GetRoot()
	res.base = doc.GetInfo().BaseURL
	dc := htmlrdfa.DecoderConfig{}
	if cfg.profile != 0 {
		dc = dc.SetHtmlProcessingProfile(htmlrdfa.HtmlProcessingProfile(cfg.profile))
	}
	if cfg.vocab != nil {
		dc = dc.SetDefaultVocabulary(*cfg.vocab)
	}
	if cfg.pfx == 1 {
		dc = dc.SetDefaultPrefixes(customPrefixes)
	}
	d, err := htmlrdfa.NewDecoder(doc, dc)
	if err != nil {
		res.newErr = err.Error()
		return
	}
	names := &bnNames{ids: map[rdf.BlankNodeIdentifier]int{}}
	term := func(t rdf.Term) string {
		switch v := t.(type) {
		case nil:
			return "-"
		case rdf.IRI:
			return "I" + hx(string(v))
		case rdf.BlankNode:
			return names.name(v)
		case rdf.Literal:
			return showLit(v)
		}
		return fmt.Sprintf("?%T", t)
	}
	for d.Next() {
		t := d.Triple()
		_ = d.Statement()
		_ = d.StatementTextOffsets()
		if w := wfTriple(t); w != "" && res.wf == "" {
			res.wf = fmt.Sprintf("statement %d: %s", len(res.stmts), w)
		}
		p := "-"
		if pi, ok := t.Predicate.(rdf.IRI); ok {
			p = hx(string(pi))
		}
		res.stmts = append(res.stmts, term(t.Subject)+" "+p+" "+term(t.Object))
		res.triples = append(res.triples, t)
	}
	e1 := d.Err()
	for i := 0; i < 3; i++ {
		if d.Next() {
			res.life = "Next returned true after false"
		}
		if d.Err() != e1 {
			res.life = "Err changed after the end"
		}
	}
	if e1 != nil {
		res.err = e1.Error()
		if len(res.stmts) > 0 {
			res.life = "statements yielded although walkNode failed: " + e1.Error()
		}
	}
	if err := d.Close(); err != nil {
		res.life = "Close: " + err.Error()
	}
	return
}

// ---------------------------------------------------------------- oracle tables for the model's parameters

var timeMappers = []func(string) (rdf.ObjectValue, error){
	func(s string) (rdf.ObjectValue, error) { return xsdobject.MapDuration(s) },
	func(s string) (rdf.ObjectValue, error) { return xsdobject.MapDateTime(s) },
	func(s string) (rdf.ObjectValue, error) { return xsdobject.MapDate(s) },
	func(s string) (rdf.ObjectValue, error) { return xsdobject.MapTime(s) },
	func(s string) (rdf.ObjectValue, error) { return xsdobject.MapGYearMonth(s) },
	func(s string) (rdf.ObjectValue, error) { return xsdobject.MapGYear(s) },
}

type oracle struct {
	tab  map[string]string
	objs map[string]*iri.ParsedIRI // a base, by its String()
	// hypothesis EnvOK of the theorems fails for an entry
	envBad string
}

func okey(k int, a, b string) string { return fmt.Sprintf("%d:%s:%s", k, hx(a), hx(b)) }

// kind 0: iri.ParseIRI(v), DropFragment (what newDecoder does with the document base and walkNode with <base href>)
func (o *oracle) parseBase(v string) {
	u, err := iri.ParseIRI(v)
	if err != nil {
		o.tab[okey(0, v, "")] = "!"
		return
	}
	u.DropFragment()
	o.objs[u.String()] = u
	o.tab[okey(0, v, "")] = hx(u.String())
}

func (o *oracle) base(key string) *iri.ParsedIRI {
	if u, ok := o.objs[key]; ok {
		return u
	}
	u, err := iri.ParseIRI(key)
	if err != nil {
		return nil
	}
	o.objs[key] = u
	return u
}

// kind 2: base.Parse(ref).String()
func (o *oracle) resolve(b, ref string) {
	u := o.base(b)
	if u == nil {
		o.tab[okey(2, b, ref)] = "!"
		return
	}
	r, err := u.Parse(ref)
	if err != nil {
		o.tab[okey(2, b, ref)] = "!"
		return
	}
	o.tab[okey(2, b, ref)] = hx(r.String())
}

// kind 1: base.ResolveReference(ParseIRI(v)) (xml:base)
func (o *oracle) xmlBase(b, v string) {
	u := o.base(b)
	p, err := iri.ParseIRI(v)
	if u == nil || err != nil {
		o.tab[okey(1, b, v)] = "!"
		return
	}
	r := u.ResolveReference(p)
	o.objs[r.String()] = r
	o.tab[okey(1, b, v)] = hx(r.String())
}

func (o *oracle) lower(s string) {
	for i := 0; i < len(s); i++ {
		if s[i] >= 0x80 {
			o.tab[okey(3, s, "")] = hx(strings.ToLower(s))
			return
		}
	}
}

func (o *oracle) times(v string) {
	for i, f := range timeMappers {
		k := okey(10+i, v, "")
		if m, err := f(v); err == nil {
			if l, ok := m.(rdf.Literal); ok && l.Tag == nil {
				o.tab[k] = hx(l.LexicalForm) + "." + hx(string(l.Datatype))
				if l.Datatype == "" || l.Datatype == rdfLangString || l.Datatype == rdfDirLang {
					o.envBad = fmt.Sprintf("time mapper %d on %q: datatype %q", i, v, l.Datatype)
				}
			} else {
				o.envBad = fmt.Sprintf("time mapper %d on %q: %T", i, v, m)
				o.tab[k] = hx(fmt.Sprintf("?%T", m)) + "."
			}
		} else {
			o.tab[k] = "!"
		}
	}
}

// answer adds the entry the driver asked for; false = not a kind that can be asked
func (o *oracle) answer(q string) bool {
	f := strings.Split(q, ":")
	if len(f) != 3 {
		return false
	}
	a, e1 := hex.DecodeString(f[1])
	b, e2 := hex.DecodeString(f[2])
	if e1 != nil || e2 != nil {
		return false
	}
	switch f[0] {
	case "0":
		o.parseBase(string(a))
	case "1":
		o.xmlBase(string(a), string(b))
	case "2":
		o.resolve(string(a), string(b))
	default:
		return false
	}
	return true
}

func tableWire(m map[string]string) string {
	if len(m) == 0 {
		return "-"
	}
	ks := make([]string, 0, len(m))
	for k := range m {
		ks = append(ks, k)
	}
	sort.Strings(ks)
	var sb strings.Builder
	for i, k := range ks {
		if i > 0 {
			sb.WriteByte(',')
		}
		sb.WriteString(k + "=" + m[k])
	}
	return sb.String()
}

func collectText(sb *strings.Builder, n *xhtml.Node) {
	if n.Type == xhtml.TextNode {
		sb.WriteString(n.Data)
	}
	for c := n.FirstChild; c != nil; c = c.NextSibling {
		collectText(sb, c)
	}
}

type modelCase struct {
	head string // "rdfa.dec <cfg> <xBASE> <P>"
	tree string
	o    *oracle
}

func (m *modelCase) line() string { return m.head + " " + tableWire(m.o.tab) + " " + m.tree }

// buildModelCase wire-encodes the DOM and pre-computes the oracle entries that do not depend on run-time bases
func buildModelCase(root *xhtml.Node, base string, cfg config) *modelCase {
	o := &oracle{tab: map[string]string{}, objs: map[string]*iri.ParsedIRI{}}
	docKey := ""
	if base != "" {
		o.parseBase(base)
		if u, err := iri.ParseIRI(base); err == nil {
			u.DropFragment()
			docKey = u.String()
		}
	} else {
		u, _ := iri.ParseIRI("")
		o.objs[""] = u
	}
	var toks []string
	id := 0
	var walk func(n *xhtml.Node)
	walk = func(n *xhtml.Node) {
		my := id
		id++
		data := ""
		if n.Type == xhtml.TextNode || n.Type == xhtml.DoctypeNode {
			data = n.Data
		}
		toks = append(toks, fmt.Sprintf("N%d.%s.%s.%s", int(n.Type), hx(n.Namespace), hx(n.DataAtom.String()), hx(data)))
		for _, a := range n.Attr {
			toks = append(toks, "A"+hx(a.Namespace)+"."+hx(a.Key)+"."+hx(a.Val))
			if strings.HasPrefix(a.Key, "xmlns:") {
				o.lower(a.Key[6:])
			}
			for _, f := range strings.Fields(a.Val) {
				o.lower(f)
				if len(f) >= 2 && f[0] == '[' && f[len(f)-1] == ']' {
					o.lower(f[1 : len(f)-1])
				}
			}
			o.lower(a.Val)
			if len(a.Val) >= 2 && a.Val[0] == '[' && a.Val[len(a.Val)-1] == ']' {
				o.lower(a.Val[1 : len(a.Val)-1])
			}
			switch a.Key {
			case "about", "resource", "href", "src":
				o.resolve(docKey, a.Val)
				if len(a.Val) >= 2 && a.Val[0] == '[' && a.Val[len(a.Val)-1] == ']' {
					o.resolve(docKey, a.Val[1:len(a.Val)-1])
				}
				if a.Key == "href" && n.Data == "base" {
					o.parseBase(a.Val)
				}
			case "datetime":
				o.times(a.Val)
			case "datatype":
				if n.Type == xhtml.ElementNode {
					if s, err := xmlRender(n); err == nil {
						o.tab[okey(20, fmt.Sprint(my), "")] = hx(s)
					} else {
						o.tab[okey(20, fmt.Sprint(my), "")] = "!"
					}
					if s, err := htmlRender(n); err == nil {
						o.tab[okey(21, fmt.Sprint(my), "")] = hx(s)
					} else {
						o.tab[okey(21, fmt.Sprint(my), "")] = "!"
					}
				}
			}
		}
		if n.DataAtom.String() == "time" {
			var sb strings.Builder
			collectText(&sb, n)
			o.times(sb.String())
		}
		for c := n.FirstChild; c != nil; c = c.NextSibling {
			walk(c)
		}
		toks = append(toks, "/")
	}
	walk(root)
	pf := map[string]string{}
	for _, pm := range cfg.prefixList() {
		pf[hx(pm.Prefix)] = hx(pm.Expanded)
	}
	v := "-"
	if cfg.vocab != nil {
		v = hx(*cfg.vocab)
	}
	return &modelCase{head: fmt.Sprintf("rdfa.dec %d:%s %s %s", cfg.profile, v, vh.XS(base), tableWire(pf)), tree: strings.Join(toks, " "), o: o}
}

// canonModel renumbers the model's blank nodes by first occurrence
func canonModel(ans string) (stmts []string, unordered bool, outcome string) {
	if !strings.HasPrefix(ans, "ok ") {
		return nil, false, ans
	}
	body := ans[3:]
	if len(body) < 1 {
		return nil, false, "malformed: " + ans
	}
	unordered = body[0] == '1'
	body = strings.TrimPrefix(body[1:], " ")
	ids := map[string]int{}
	ren := func(t string) string {
		if strings.HasPrefix(t, "B") {
			if _, ok := ids[t]; !ok {
				ids[t] = len(ids)
			}
			return fmt.Sprintf("B%d", ids[t])
		}
		return t
	}
	if body != "" {
		for _, s := range strings.Split(body, ";") {
			f := strings.Split(s, " ")
			if len(f) != 3 {
				return nil, false, "malformed statement: " + s
			}
			stmts = append(stmts, ren(f[0])+" "+f[1]+" "+ren(f[2]))
		}
	}
	return stmts, unordered, "ok"
}

// quadsOf turns canonical statement strings into quads (for the graph comparison of `unordered` runs)
func quadsOf(stmts []string) ([]rdf.Quad, error) {
	bn := map[string]rdf.BlankNode{}
	term := func(s string) (rdf.Term, error) {
		if s == "" {
			return nil, fmt.Errorf("empty term")
		}
		switch s[0] {
		case 'I':
			b, err := hex.DecodeString(s[1:])
			return rdf.IRI(b), err
		case 'B':
			if _, ok := bn[s]; !ok {
				bn[s] = rdf.NewBlankNode()
			}
			return bn[s], nil
		case 'L':
			f := strings.Split(s[1:], ".")
			if len(f) != 3 {
				return nil, fmt.Errorf("bad literal %q", s)
			}
			l, e1 := hex.DecodeString(f[0])
			d, e2 := hex.DecodeString(f[1])
			if e1 != nil || e2 != nil {
				return nil, fmt.Errorf("bad literal %q", s)
			}
			lit := rdf.Literal{LexicalForm: string(l), Datatype: rdf.IRI(d)}
			if f[2] != "-" {
				t, err := hex.DecodeString(f[2])
				if err != nil {
					return nil, err
				}
				lit.Tag = rdf.LanguageLiteralTag{Language: string(t)}
			}
			return lit, nil
		}
		return nil, fmt.Errorf("bad term %q", s)
	}
	var qs []rdf.Quad
	for _, s := range stmts {
		f := strings.Split(s, " ")
		if len(f) != 3 {
			return nil, fmt.Errorf("bad statement %q", s)
		}
		su, e1 := term(f[0])
		pb, e2 := hex.DecodeString(f[1])
		ob, e3 := term(f[2])
		if e1 != nil || e2 != nil || e3 != nil {
			return nil, fmt.Errorf("bad statement %q", s)
		}
		sv, ok1 := su.(rdf.SubjectValue)
		ov, ok2 := ob.(rdf.ObjectValue)
		if !ok1 || !ok2 {
			return nil, fmt.Errorf("bad statement %q", s)
		}
		qs = append(qs, rdf.Quad{Triple: rdf.Triple{Subject: sv, Predicate: rdf.IRI(pb), Object: ov}})
	}
	return qs, nil
}

// ---------------------------------------------------------------- harness

type pending struct {
	family, base, text string
	cfg                config
	g                  goRun
	m                  *modelCase
	htmlLit            bool // the document is in the class of the fixed finding C11RA-rdf-html-literal
}

type harness struct {
	r     *vh.Rng
	rep   *vh.Report
	drv   vh.Driver
	fam   map[string]bool
	queue []pending
	pool  []string
	known map[string]vh.Finding // C05 known findings by key
	knownC11 map[string]vh.Finding
}

func (h *harness) want(f string) bool { return len(h.fam) == 0 || h.fam[f] }

func caseDetail(p pending) string {
	return fmt.Sprintf("family=%s cfg=%s base=%q html=%q replay-line: %s %s %s", p.family, p.cfg, p.base, truncate(p.text, 3000), p.cfg, hx(p.base), hx(p.text))
}

func truncate(s string, n int) string {
	if len(s) > n {
		return s[:n] + "…"
	}
	return s
}

func bucket(n int) string {
	switch {
	case n == 0:
		return "0"
	case n <= 3:
		return "1-3"
	case n <= 10:
		return "4-10"
	case n <= 30:
		return "11-30"
	}
	return "31+"
}

func firstFrames(stack string) string {
	var keep []string
	for _, l := range strings.Split(stack, "\n") {
		if strings.Contains(l, "rdfkit-go") || strings.Contains(l, "inspecthtml") || strings.Contains(l, "cursorio") {
			keep = append(keep, strings.TrimSpace(l))
			if len(keep) >= 6 {
				break
			}
		}
	}
	return strings.Join(keep, " | ")
}

// predicate of C05's known finding D27a: nil dereference inside the third-party metadata index, reached through
// encoding/html.(*Document).GetNodeMetadata, only with text-offset capture
func metadataNilDeref(g goRun) bool {
	return strings.Contains(g.panic, "nil pointer dereference") && strings.Contains(g.stack, "inspecthtml.(*ParseMetadata).GetNodeMetadata")
}

// class of the FIXED finding C11RA-rdf-html-literal (patch c11ra-1-fix-rdf-html-literal): some element carries @property and a
// @datatype whose value names rdf:HTML (ends in "HTML") and has an element child. Only counted (histogram); nothing is tolerated.
func htmlLiteralWithChildren(n *xhtml.Node) bool {
	if n == nil {
		return false
	}
	if n.Type == xhtml.ElementNode {
		dt, prop, kid := false, false, false
		for _, a := range n.Attr {
			if a.Namespace == "" && a.Key == "datatype" && strings.HasSuffix(strings.TrimSpace(a.Val), "HTML") {
				dt = true
			}
			if a.Namespace == "" && a.Key == "property" {
				prop = true
			}
		}
		for c := n.FirstChild; c != nil; c = c.NextSibling {
			if c.Type == xhtml.ElementNode {
				kid = true
			}
		}
		if dt && prop && kid {
			return true
		}
	}
	for c := n.FirstChild; c != nil; c = c.NextSibling {
		if htmlLiteralWithChildren(c) {
			return true
		}
	}
	return false
}

// known C05 classes of the HTML stack that are not the RDFa decoder's (third-party capture-mode panics, listed by C05X)
func thirdPartyPanic(g goRun) bool {
	return !strings.Contains(g.stack, "encoding/htmlrdfa")
}

var tGo, tBuild, tDrv, tCmp time.Duration

func (h *harness) one(family, base, text string, cfg config) {
	t0 := time.Now()
	g := runGo(text, base, cfg)
	tGo += time.Since(t0)
	h.rep.Count("family:" + family)
	h.rep.Count(fmt.Sprintf("cfg:profile=%d", cfg.profile))
	h.rep.Count(fmt.Sprintf("cfg:mode=%d", cfg.mode))
	p := pending{family: family, base: base, text: text, cfg: cfg, g: g}
	h.rep.Eval(cfg.String()+"|"+base+"|"+text, len(g.stmts) > 0)
	switch {
	case g.panic != "":
		if f, ok := h.known["D27a"]; ok && cfg.mode == 1 && metadataNilDeref(g) {
			// C05 known finding D27a: text-offset capture only (the model has no text offsets)
			h.rep.Count("known:D27a")
			h.rep.Add(vh.Case{Kind: "known", Key: f.Key, Op: "C05 no panic", Go: "panic: " + g.panic, Detail: truncate(caseDetail(p), 600)})
			return
		}
		if thirdPartyPanic(g) {
			// a panic below html.ParseDocument (inspecthtml / cursorio, capture mode): C05X's listed findings, not this part's subject
			h.rep.Count("go:panic-outside-htmlrdfa")
			return
		}
		h.rep.Count("go:panic")
		h.rep.Add(vh.Case{Kind: "violation", Op: "C05 no panic", Go: "panic: " + g.panic + "\n" + firstFrames(g.stack), Detail: caseDetail(p)})
		h.rep.Count("fail:panic")
		return
	case g.parseErr != "":
		h.rep.Count("go:parse-error")
		return
	}
	if g.newErr != "" {
		h.rep.Count("go:new-error")
	}
	if g.life != "" {
		h.rep.Add(vh.Case{Kind: "violation", Op: "C05 life cycle", Go: g.life, Detail: caseDetail(p)})
		h.rep.Count("fail:life")
	}
	if g.wf != "" {
		h.rep.Add(vh.Case{Kind: "violation", Op: "C06 well-formed", Go: g.wf + " in " + strings.Join(g.stmts, ";"), Detail: caseDetail(p)})
		h.rep.Count("fail:wf")
	}
	if g.err != "" {
		h.rep.Count("go:err")
	}
	h.rep.Count("statements:" + bucket(len(g.stmts)))
	if *nomodel {
		return
	}
	t1 := time.Now()
	p.m = buildModelCase(g.root, g.base, cfg)
	if p.m.o.envBad != "" {
		h.rep.Add(vh.Case{Kind: "disagreement", Op: "EnvOK (hypothesis of rdfa_terminates_no_panic / rdfa_emits_wf)", Go: p.m.o.envBad, Detail: caseDetail(p)})
		h.rep.Count("fail:envok")
	}
	tBuild += time.Since(t1)
	p.htmlLit = htmlLiteralWithChildren(g.root)
	if p.htmlLit {
		h.rep.Count("class:rdfa-html-literal-children")
	}
	p.g.root = nil
	h.queue = append(h.queue, p)
	if len(h.queue) >= 1500 {
		h.flush()
	}
}

func (h *harness) flush() {
	if len(h.queue) == 0 {
		return
	}
	answers := make([]string, len(h.queue))
	todo := make([]int, len(h.queue))
	for i := range h.queue {
		todo[i] = i
	}
	for round := 0; len(todo) > 0 && round < 12; round++ {
		lines := make([]string, len(todo))
		for j, i := range todo {
			lines[j] = h.queue[i].m.line()
		}
		if d := os.Getenv("C11RA_DUMP"); d != "" {
			if f, err := os.OpenFile(d, os.O_APPEND|os.O_CREATE|os.O_WRONLY, 0o644); err == nil {
				f.WriteString(strings.Join(lines, "\n") + "\n")
				f.Close()
			}
		}
		t2 := time.Now()
		outs, err := runPar(h.drv, lines, 6)
		tDrv += time.Since(t2)
		if err != nil {
			fmt.Println("driver:", err)
			os.Exit(2)
		}
		var next []int
		for j, i := range todo {
			answers[i] = outs[j]
			if strings.HasPrefix(outs[j], "need ") {
				okAll := true
				for _, q := range strings.Split(outs[j][5:], ",") {
					if !h.queue[i].m.o.answer(q) {
						okAll = false
					}
				}
				if okAll {
					next = append(next, i)
					h.rep.Count("oracle:rounds")
				}
			}
		}
		todo = next
	}
	t3 := time.Now()
	defer func() { tCmp += time.Since(t3) }()
	for i, p := range h.queue {
		h.rep.Compared++
		stmts, unordered, outcome := canonModel(answers[i])
		goOutcome := "ok"
		switch {
		case p.g.newErr != "":
			goOutcome = "newerr"
		case p.g.err != "":
			goOutcome = "err"
		}
		goS, moS := strings.Join(p.g.stmts, ";"), strings.Join(stmts, ";")
		same := outcome == goOutcome && goS == moS
		if !same && outcome == "ok" && goOutcome == "ok" && unordered && len(stmts) == len(p.g.stmts) {
			// Go's order came from map iteration: compare the graphs (multisets up to blank-node renaming)
			a, e1 := quadsOf(p.g.stmts)
			b, e2 := quadsOf(stmts)
			if e1 == nil && e2 == nil && vh.IsomorphicMulti(a, b) {
				same = true
				h.rep.Count("compared:as-graph(map-order)")
			}
		}
		if unordered {
			h.rep.Count("model:unordered")
		}
		h.rep.Count("outcome:" + goOutcome)
		if !same {
			h.rep.Count("fail:disagreement:" + p.family)
			h.rep.Add(vh.Case{Kind: "disagreement", Op: truncate(p.m.line(), 4000), Go: goOutcome + " " + goS, Model: truncate(answers[i], 20) + " " + moS, Detail: caseDetail(p)})
		}
	}
	h.queue = h.queue[:0]
}

// runPar splits the lines over `workers` driver processes (vh.RunParallel only does so for very long batches)
func runPar(d vh.Driver, lines []string, workers int) ([]string, error) {
	if len(lines) < 64 || workers < 2 {
		return d.Run(lines)
	}
	chunk := (len(lines) + workers - 1) / workers
	outs := make([]string, len(lines))
	errs := make(chan error, workers)
	n := 0
	for i := 0; i < len(lines); i += chunk {
		j := min(i+chunk, len(lines))
		n++
		go func(i, j int) {
			res, err := d.Run(lines[i:j])
			if err == nil {
				copy(outs[i:j], res)
			}
			errs <- err
		}(i, j)
	}
	var first error
	for ; n > 0; n-- {
		if err := <-errs; err != nil && first == nil {
			first = err
		}
	}
	return outs, first
}

// ---------------------------------------------------------------- families

var profiles = []int{0, 0, 0, 0, 0b1, 0b110, 0b1110, 0b11110, 0b111110}

func (h *harness) randConfig(allowCapture bool) config {
	c := config{profile: vh.Pick(h.r, profiles), mode: h.r.Intn(3)}
	if !allowCapture && c.mode == 1 {
		c.mode = 2 * h.r.Intn(2)
	}
	if h.r.Chance(12) {
		v := vh.Pick(h.r, []string{"http://cfgvocab.example/v#", "", "http://www.w3.org/1999/xhtml/vocab#", "rel#"})
		c.vocab = &v
	}
	if h.r.Chance(12) {
		c.pfx = 1
	}
	return c
}

// the rdfa.info test suite shipped with the repository (rdfa1.1 × html4, html5, xhtml1, xhtml5; svg/xml host languages are not run
// by the repository's own test either), each document under the profile its directory names, under no profile, and in capture mode
func (h *harness) corpus(dir string, stride int) {
	f, err := os.Open(filepath.Join(dir, "encoding/htmlrdfa/testsuites/rdfa-info-test-suite/testdata.tar.gz"))
	if err != nil {
		h.rep.Count("harness:corpus-missing")
		return
	}
	defer f.Close()
	gz, err := gzip.NewReader(f)
	if err != nil {
		h.rep.Count("harness:corpus-missing")
		return
	}
	tr := tar.NewReader(gz)
	re := regexp.MustCompile(`test-suite/test-cases/(rdfa1\.[01])/(html4|html5|xhtml1|xhtml5)/([^/]+\.x?html)$`)
	prof := map[string]int{"html4": 0b11110, "html5": 0b111110, "xhtml1": 0b110, "xhtml5": 0b1110}
	k := 0
	for {
		hd, err := tr.Next()
		if err != nil {
			break
		}
		m := re.FindStringSubmatch(hd.Name)
		if m == nil {
			continue
		}
		b, err := io.ReadAll(tr)
		if err != nil {
			continue
		}
		text := string(b)
		if len(h.pool) < 6000 {
			h.pool = append(h.pool, text)
		}
		k++
		if stride > 1 && k%stride != int(h.rep.Seed)%stride {
			continue
		}
		loc := "http://rdfa.info/test-suite/test-cases/" + m[1] + "/" + m[2] + "/" + m[3]
		h.one("corpus", loc, text, config{profile: prof[m[2]], mode: k % 3})
		h.one("corpus", loc, text, config{profile: 0, mode: (k + 1) % 3})
	}
	// the snippets of decoder_test.go
	if b, err := os.ReadFile(filepath.Join(dir, "encoding/htmlrdfa/decoder_test.go")); err == nil {
		for _, m := range regexp.MustCompile("(?s)Snippet:\\s*`([^`]*)`").FindAllStringSubmatch(string(b), -1) {
			h.pool = append(h.pool, m[1])
			for mode := 0; mode < 3; mode++ {
				h.one("corpus", "http://example.com/dir/page.html", m[1], config{mode: mode})
				h.one("corpus", "", m[1], config{mode: mode, profile: 0b111110})
			}
		}
	}
}

func (h *harness) soupFamily(n int) {
	for i := 0; i < n; i++ {
		base := vh.Pick(h.r, bases)
		s := &soup{r: h.r, base: base}
		l := &layout{r: h.r, plain: h.r.Chance(10)}
		text := l.renderDoc(s.rdfaDoc())
		if len(h.pool) < 9000 {
			h.pool = append(h.pool, text)
		}
		h.one("soup", base, text, h.randConfig(true))
	}
}

func (h *harness) wildFamily(n int) {
	for i := 0; i < n; i++ {
		base := vh.Pick(h.r, bases)
		if h.r.Chance(8) {
			base = vh.Pick(h.r, wildBases)
		}
		s := &soup{r: h.r, base: base, wild: true}
		doc, doctype := s.wildDoc()
		l := &layout{r: h.r, plain: true}
		var sb strings.Builder
		sb.WriteString(doctype)
		l.render(&sb, doc, false)
		text := sb.String()
		if len(h.pool) < 12000 {
			h.pool = append(h.pool, text)
		}
		h.one("wild", base, text, h.randConfig(true))
	}
}

// every entry of htmlIgnoredLinkRels (decoder_html_util.go) and the same keywords on the other link elements, under a local
// vocabulary so that the keyword resolves, with and without @inlist, hanging and with @href, under every profile
var linkRelWords = []string{"alternate", "canonical", "author", "bookmark", "dns-prefetch", "expect", "external", "icon", "manifest", "modulepreload",
	"nofollow", "noopener", "noreferrer", "opener", "pingback", "preconnect", "prefetch", "preload", "privacy-policy", "stylesheet", "tag",
	"terms-of-service", "help", "license", "next", "prev", "search", "me", "NoFollow", "STYLESHEET"}

func (h *harness) linkRelFamily() {
	n := 0
	for _, tag := range []string{"a", "area", "link", "form", "span"} {
		for _, w := range linkRelWords {
			for _, prof := range []int{0, 0b1, 0b110, 0b1110, 0b11110, 0b111110} {
				attrs := "rel=\"" + w + " other\""
				switch n % 3 {
				case 0:
					attrs += " href=\"http://x.example/t\""
				case 1:
					attrs += " href=\"http://x.example/t\" inlist=\"\""
				}
				end := "</" + tag + ">"
				if voidTags[tag] {
					end = ""
				}
				text := "<html><head></head><body vocab=\"http://v.example/\"><" + tag + " " + attrs + "><b about=\"#k\">x</b>" + end + "</body></html>"
				h.one("linkrel", "http://ex.org/doc", text, config{profile: prof, mode: n % 3})
				n++
			}
		}
	}
}

var hotHTML = []byte("<>/=\"' \t\n[]_:#aboutpropertyrelrevresourcetypeofvocabprefixinlistcontentdatatypehrefsrc&;-!")

func (h *harness) mutatedFamily(n int) {
	if len(h.pool) == 0 {
		return
	}
	for i := 0; i < n; i++ {
		b := []byte(vh.Pick(h.r, h.pool))
		k := 1 + h.r.Intn(3)
		for j := 0; j < k; j++ {
			b = h.r.Mutate(b, hotHTML)
		}
		if h.r.Chance(20) && len(b) > 0 {
			b = b[:h.r.Intn(len(b))]
		}
		if h.r.Chance(10) {
			pos := h.r.Intn(len(b) + 1)
			ins := vh.Pick(h.r, []string{"\xff", "\xc2", "\xe2\x80", " ", " ", "\xe1\x9a", "\x00", "\xf0\x9f", "É", "İ"})
			b = append(b[:pos:pos], append([]byte(ins), b[pos:]...)...)
		}
		base := vh.Pick(h.r, bases)
		if h.r.Chance(10) {
			base = vh.Pick(h.r, wildBases)
		}
		// capture mode excluded: its third-party panics on malformed markup are C05's listed findings
		h.one("mutated", base, string(b), h.randConfig(false))
	}
}

func (h *harness) replayFile(path string) {
	b, err := os.ReadFile(path)
	if err != nil {
		fmt.Fprintln(os.Stderr, "replay:", err)
		os.Exit(2)
	}
	var lines []string
	var js struct {
		Cases []vh.Case `json:"cases"`
	}
	if json.Unmarshal(b, &js) == nil && len(js.Cases) > 0 {
		for _, c := range js.Cases {
			if i := strings.Index(c.Detail, "replay-line: "); i >= 0 {
				lines = append(lines, c.Detail[i+len("replay-line: "):])
			}
		}
	} else {
		lines = strings.Split(string(b), "\n")
	}
	for _, l := range lines {
		f := strings.Fields(l)
		if len(f) < 2 || strings.HasPrefix(l, "#") {
			continue
		}
		cfg, err := parseConfig(f[0])
		base, e1 := hex.DecodeString(f[1])
		var text []byte
		var e2 error
		if len(f) >= 3 {
			text, e2 = hex.DecodeString(f[2])
		}
		if err != nil || e1 != nil || e2 != nil {
			continue
		}
		h.one("replay", string(base), string(text), cfg)
	}
	h.flush()
}

func main() {
	flag.Parse()
	_ = hints
	if *cpuprof != "" {
		if f, err := os.Create(*cpuprof); err == nil {
			pprof.StartCPUProfile(f)
			defer pprof.StopCPUProfile()
		}
	}
	seed := vh.SeedFromEnv()
	rep := vh.NewReport("C11RA", *tier, seed, "HTML documents (the rdfa.info test-suite documents shipped under encoding/htmlrdfa/testsuites and the decoder_test.go snippets; go/cmd/c11's RDFa attribute soup inside the fragment; an unconstrained soup over everything walkNode reads: xmlns:/xml:lang/xml:base, <base href>, <time>, XMLLiteral/HTML/langString datatypes, rdfa:copy patterns, html@version and XHTML+RDFa doctypes, head/body attributes, link-relation filter, `_:`/`[]`/unresolvable CURIEs, odd @prefix lists, non-ASCII prefixes and terms; byte-mutated renderings of all of these) x parse path (ParseDocument, +text offsets, x/net/html+NewDocument) x HtmlProcessingProfile (unset, disabled, xhtml1, xhtml5, html4, html5) x default vocabulary x default prefixes x document location; each parsed DOM is run through the real decoder and through the Lean model (ordered statements with blank nodes by first occurrence, outcome); non-trivial = the real decoder yields at least one statement; distinct = by (configuration, location, document bytes)")
	fs, err := vh.LoadFindings(*findings)
	if err != nil {
		fmt.Fprintln(os.Stderr, "findings:", err)
		os.Exit(2)
	}
	known := map[string]vh.Finding{}
	knownC11 := map[string]vh.Finding{}
	for _, f := range fs {
		if f.Property == "C05" && f.Status == "known" {
			known[f.Key] = f
		}
		if f.Property == "C11" && f.Status == "known" {
			knownC11[f.Key] = f
		}
	}
	// inspecthtml writes diagnostics ("regex attr failed …") to os.Stderr in capture mode
	realStderr := os.Stderr
	if devnull, err := os.OpenFile(os.DevNull, os.O_WRONLY, 0); err == nil {
		os.Stderr = devnull
	}
	defer func() { os.Stderr = realStderr }()
	if len(htmlrdfa.InitialContext) != 0 {
		rep.Add(vh.Case{Kind: "disagreement", Op: "htmlrdfa.InitialContext", Go: fmt.Sprint(len(htmlrdfa.InitialContext), " entries"), Model: "empty (AddPrefixMappings(InitialContext...) is modelled as a no-op)"})
	}
	h := &harness{r: vh.NewRng(seed), rep: rep, drv: vh.Driver{Path: *driver}, fam: map[string]bool{}, known: known, knownC11: knownC11}
	if *only != "" {
		for _, f := range strings.Split(*only, ",") {
			h.fam[f] = true
		}
	}
	dir := *repoDir
	if dir == "" {
		dir = os.Getenv("VERIF_REPO")
	}
	if dir == "" {
		dir = "/repo"
	}
	if *replay != "" {
		h.replayFile(*replay)
	} else {
		n := 20000
		stride := 4
		if *tier == "thorough" {
			n = 300000
			stride = 1
		}
		n *= *scale
		if h.want("corpus") {
			h.corpus(dir, stride)
			rep.Exhaustive = append(rep.Exhaustive, fmt.Sprintf("rdfa.info test-suite documents rdfa1.0/1.1 x html4/html5/xhtml1/xhtml5 (every %d-th per run at this tier) under the directory's profile and under no profile; all decoder_test.go snippets x 3 parse paths", stride))
			h.flush()
		}
		if h.want("linkrel") {
			h.linkRelFamily()
			rep.Exhaustive = append(rep.Exhaustive, "link-relation filter: every keyword of htmlIgnoredLinkRels (+ 8 others) x {a, area, link, form, span} x 6 profiles, as @rel with @href, with @href+@inlist, and hanging")
			h.flush()
		}
		for done := 0; done < n; {
			b := min(n-done, 12000)
			done += b
			if h.want("soup") {
				h.soupFamily(b * 20 / 100)
			}
			if h.want("wild") {
				h.wildFamily(b * 50 / 100)
			}
			if h.want("mutated") {
				h.mutatedFamily(b * 30 / 100)
			}
			h.flush()
		}
	}
	rep.Hist["time_ms:go-decoder"] = int(tGo.Milliseconds())
	rep.Hist["time_ms:oracle-tables"] = int(tBuild.Milliseconds())
	rep.Hist["time_ms:lean-driver"] = int(tDrv.Milliseconds())
	rep.Hist["time_ms:compare"] = int(tCmp.Milliseconds())
	if rep.Cases == nil {
		rep.Cases = []vh.Case{}
	}
	if err := rep.Write(*out); err != nil {
		fmt.Fprintln(os.Stderr, err)
		os.Exit(2)
	}
	fmt.Printf("c11ra: %d evaluations (%d distinct non-trivial), %d compared with the model, %d failures\n", rep.Evaluations, rep.Distinct, rep.Compared, rep.Failures())
	for _, k := range vh.SortedKeys(rep.Hist) {
		if strings.HasPrefix(k, "fail:") || strings.HasPrefix(k, "harness:") {
			fmt.Printf("  %s = %d\n", k, rep.Hist[k])
		}
	}
	if rep.Failures() > 0 {
		os.Exit(1)
	}
}
