/-
  Proofs.C02DocSteps — single scan-function calls of the Turtle statement machine on the pieces of text
  the encoder writes (property C02, document level).  Everything is stated with `Run` / `Step1`
  (Proofs/C02DocRun.lean): no fuel, no `Next()` boundaries.
-/
import RdfModel.Proofs.C02DocRun
import RdfModel.Proofs.C02DocIRI
namespace RdfModel.Proofs.C02Doc
open RdfModel RdfModel.Ttl RdfModel.TtlEnc RdfModel.C02 RdfModel.TtlDoc

variable {C : Cfg} {T : Tables} {e : NQ.End}

/-- a machine state with nothing pending -/
abbrev mk (stack : List Frame) (inp : List Nat) (env : Env) : St := { stack := stack, inp := inp, env := env }

/-- the state after a scan-function call that returned `o` -/
def after (stk : List Frame) (o : Out) : St :=
  pushCur o.cur (mk (if o.term then [] else o.push.reverse ++ stk) o.inp o.env)

theorem step_of_scanFn {f : Frame} {stk : List Frame} {inp : List Nat} {env : Env} {o : Out}
    (h : scanFn C e f inp env = .ok o) :
    Step1 C e (mk (f :: stk) inp env) o.emit.toList (after stk o) := by
  refine ⟨rfl, rfl, f, stk, o.cur, applyOut (mk stk inp env) o, rfl, ?_, ?_, ?_⟩
  · simp only [scan, mk, h]
  · simp [applyOut, mk]
  · simp [after, applyOut, mk]

theorem run_of_scanFn {f : Frame} {stk : List Frame} {inp : List Nat} {env : Env} {o : Out}
    (h : scanFn C e f inp env = .ok o) : Run C e (mk (f :: stk) inp env) o.emit.toList (after stk o) :=
  Run.one (step_of_scanFn h)

/-! ### white space -/

/-- a rune at which `scan` stops skipping -/
def Vis (C : Cfg) (c : Nat) : Prop := c ≠ 0x23 ∧ isWs C c = false

theorem scanFn_vis {f : Frame} {c : Nat} {rest : List Nat} {env : Env} (h : Vis C c) :
    scanFn C e f (c :: rest) env = stepFn C e f.k f.x env (.rune c rest) := by
  unfold scanFn skipWs
  simp [h.1, h.2]

theorem scanFn_ws {f : Frame} {w : Nat} {inp : List Nat} {env : Env} (h : isWs C w = true) (h2 : w ≠ 0x23) :
    scanFn C e f (w :: inp) env = scanFn C e f inp env := by
  unfold scanFn
  conv => lhs; unfold skipWs
  simp [h, h2]

theorem scanFn_sp {f : Frame} {inp : List Nat} {env : Env} :
    scanFn C e f (0x20 :: inp) env = scanFn C e f inp env := scanFn_ws (by simp [isWs]) (by decide)

theorem scanFn_nl {f : Frame} {inp : List Nat} {env : Env} :
    scanFn C e f (0x0a :: inp) env = scanFn C e f inp env := scanFn_ws (by simp [isWs]) (by decide)

theorem scanFn_tab {f : Frame} {inp : List Nat} {env : Env} :
    scanFn C e f (0x09 :: inp) env = scanFn C e f inp env := scanFn_ws (by simp [isWs]) (by decide)

theorem scanFn_nls {f : Frame} {inp : List Nat} {env : Env} : ∀ k : Nat,
    scanFn C e f (List.replicate k 0x0a ++ inp) env = scanFn C e f inp env
  | 0 => rfl
  | k + 1 => by rw [List.replicate_succ, List.cons_append, scanFn_nl, scanFn_nls k]

theorem scanFn_tabs {f : Frame} {inp : List Nat} {env : Env} : ∀ k : Nat,
    scanFn C e f (tabs k ++ inp) env = scanFn C e f inp env
  | 0 => rfl
  | k + 1 => by
    unfold tabs
    rw [List.replicate_succ, List.cons_append]
    exact (scanFn_tab).trans (scanFn_tabs k)

theorem scanFn_nil_nls {f : Frame} {env : Env} (k : Nat) :
    scanFn C e f (List.replicate k 0x0a) env = stepFn C e f.k f.x env .fail := by
  have := scanFn_nls (C := C) (e := e) (f := f) (inp := []) (env := env) k
  rw [List.append_nil] at this
  rw [this]
  rfl

theorem vis_ascii (hC : CfgOK C T) {c : Nat} (h1 : 0x21 ≤ c) (h2 : c ≤ 0x7e) (h3 : c ≠ 0x23) : Vis C c := by
  refine ⟨h3, ?_⟩
  simp only [isWs, hC.vis c h1 h2, Bool.or_false, Bool.or_eq_false_iff, decide_eq_false_iff_not]
  omega

/-- the first rune of a prefix label -/
theorem vis_label_head (hT : DocTablesOK T) {c : Nat} (hb : inRanges T.pnCharsBase c = true) (hs : C.isSpace c = false) :
    Vis C c := by
  have hlt : ¬ c < 0x41 := by
    intro h
    have := hT.base_ascii c (by omega) hb
    simp [isAlpha, NQ.isAlpha] at this
    omega
  refine ⟨by omega, ?_⟩
  simp only [isWs, hs, Bool.or_false, Bool.or_eq_false_iff, decide_eq_false_iff_not]
  omega

/-! ### the end of a statement: ` .` -/

/-- `reader_scan_ObjectList_Continue`, `…PredicateObjectList_Continue`, `…Triples_End` on ` .` -/
theorem run_statement_end (hC : CfgOK C T) (x2 x1 x0 : Ectx) (K : List Frame) (rest : List Nat) (env : Env) :
    Run C e (mk (⟨x2, .objListContinue⟩ :: ⟨x1, .polContinue⟩ :: ⟨x0, .triplesEnd⟩ :: K) (0x20 :: 0x2e :: rest) env) []
      (mk K rest env) := by
  have hv : Vis C 0x2e := vis_ascii hC (by decide) (by decide) (by decide)
  have s1 : scanFn C e ⟨x2, .objListContinue⟩ (0x20 :: 0x2e :: rest) env = .ok { inp := 0x2e :: rest, env := env } := by
    rw [scanFn_sp, scanFn_vis hv]; rfl
  have s2 : scanFn C e ⟨x1, .polContinue⟩ (0x2e :: rest) env = .ok { inp := 0x2e :: rest, env := env } := by
    rw [scanFn_vis hv]; rfl
  have s3 : scanFn C e ⟨x0, .triplesEnd⟩ (0x2e :: rest) env = .ok { inp := rest, env := env } := by
    rw [scanFn_vis hv]; rfl
  have r1 := run_of_scanFn (stk := ⟨x1, .polContinue⟩ :: ⟨x0, .triplesEnd⟩ :: K) s1
  have r2 := run_of_scanFn (stk := ⟨x0, .triplesEnd⟩ :: K) s2
  have r3 := run_of_scanFn (stk := K) s3
  exact (r1.trans r2).trans r3

/-- end of input at statement level: `terminate()` -/
theorem run_eof (x : Ectx) (K : List Frame) (k : Nat) (env : Env) :
    Run C .eof (mk (⟨x, .statement⟩ :: K) (List.replicate k 0x0a) env) [] (mk [] [] env) := by
  have s1 : scanFn C .eof ⟨x, .statement⟩ (List.replicate k 0x0a) env = .ok { inp := [], env := env, term := true } := by
    rw [scanFn_nil_nls]; rfl
  exact run_of_scanFn (stk := K) s1


/-! ### stop conditions after a token: the encoder writes a space (or a line feed) -/

theorem localStop_sp (hT : TablesOK T) (r : List Nat) : LocalStop T e (0x20 :: r) := by
  simp only [LocalStop]
  exact ⟨hT.pn_sp, hT.pnU_sp, by decide, by decide, by decide, by decide, by decide⟩

theorem localStop_nl (hT : TablesOK T) (r : List Nat) : LocalStop T e (0x0a :: r) := by
  simp only [LocalStop]
  exact ⟨hT.pn_lf, hT.pnU_lf, by decide, by decide, by decide, by decide, by decide⟩

theorem labelStop_sp (hT : TablesOK T) (r : List Nat) : LabelStop T e (0x20 :: r) := by
  simp only [LabelStop]; exact ⟨hT.pn_sp, by decide⟩

theorem labelStop_nl (hT : TablesOK T) (r : List Nat) : LabelStop T e (0x0a :: r) := by
  simp only [LabelStop]; exact ⟨hT.pn_lf, by decide⟩

/-! ### keyword look-alikes: a prefix label that starts like `BASE` / `PREFIX` -/

theorem matchKw_label : ∀ (kw : List (Nat × Nat)), (∀ p ∈ kw, p.1 ≠ 0x3a ∧ p.2 ≠ 0x3a) →
    ∀ (l more : List Nat), matchKw kw (l ++ 0x3a :: more) = .mismatch ∨
      ∃ l1 l2, l = l1 ++ l2 ∧ matchKw kw (l ++ 0x3a :: more) = .ok (l2 ++ 0x3a :: more)
  | [], _, l, more => Or.inr ⟨[], l, rfl, rfl⟩
  | (u, lo) :: ks, hkw, [], more => by
    left
    have := hkw (u, lo) List.mem_cons_self
    simp only [List.nil_append, matchKw]
    rw [if_neg]
    intro h
    rcases h with h | h
    · exact this.1 h.symm
    · exact this.2 h.symm
  | (u, lo) :: ks, hkw, c :: l, more => by
    simp only [List.cons_append, matchKw]
    split
    · rcases matchKw_label ks (fun p hp => hkw p (List.mem_cons_of_mem _ hp)) l more with h | ⟨l1, l2, h1, h2⟩
      · exact Or.inl h
      · exact Or.inr ⟨c :: l1, l2, by rw [h1]; rfl, h2⟩
    · exact Or.inl rfl

theorem kwFallback_turtle (hC : CfgOK C T) (x : Ectx) (env : Env) (inp : List Nat) :
    kwFallback C e x env inp = .ok { cur := some ⟨x, .subjPName⟩, push := [⟨x, .triplesEnd⟩], inp := inp, env := env } := by
  simp [kwFallback, hC.trig]

theorem kwCI_ne (s : String) (h : ∀ c ∈ asc s, c ≠ 0x3a ∧ c + 0x20 ≠ 0x3a) : ∀ p ∈ kwCI s, p.1 ≠ 0x3a ∧ p.2 ≠ 0x3a := by
  intro p hp
  simp only [kwCI, List.mem_map] at hp
  obtain ⟨c, hc, rfl⟩ := hp
  exact h c hc

theorem stepKwBase_label (hC : CfgOK C T) (x : Ectx) (env : Env) (c : Nat) (l more : List Nat)
    (hl : ∀ y ∈ l, C.isSpace y = false ∧ y ≠ 0x3c) :
    stepKwBase C e x env c (l ++ 0x3a :: more) = kwFallback C e x env (c :: (l ++ 0x3a :: more)) := by
  unfold stepKwBase
  rcases matchKw_label (kwCI "ASE") (kwCI_ne "ASE" (by decide)) l more with h | ⟨l1, l2, rfl, h⟩
  · rw [h]
  · rw [h]
    cases l2 with
    | nil =>
      have : C.isSpace 0x3a = false := hC.vis 0x3a (by decide) (by decide)
      simp [this]
    | cons y l2 =>
      have := hl y (by simp)
      simp [this.1, this.2]

theorem stepKwSpace_label (hC : CfgOK C T) (x : Ectx) (env : Env) (s : String) (k : Cont) (c : Nat) (l more : List Nat)
    (hs : ∀ c ∈ asc s, c ≠ 0x3a ∧ c + 0x20 ≠ 0x3a) (hl : ∀ y ∈ l, C.isSpace y = false) :
    stepKwSpace C e x env (kwCI s) k c (l ++ 0x3a :: more) = kwFallback C e x env (c :: (l ++ 0x3a :: more)) := by
  unfold stepKwSpace
  rcases matchKw_label (kwCI s) (kwCI_ne s hs) l more with h | ⟨l1, l2, rfl, h⟩
  · rw [h]
  · rw [h]
    cases l2 with
    | nil =>
      have : C.isSpace 0x3a = false := hC.vis 0x3a (by decide) (by decide)
      simp [this]
    | cons y l2 =>
      have := hl y (by simp)
      simp [this]

/-- ASCII members of PN_CHARS_BASE are letters -/
theorem base_ne (hT : DocTablesOK T) {c : Nat} (hb : inRanges T.pnCharsBase c = true) (k : Nat) (hk : k < 0x80)
    (hna : isAlpha k = false) : c ≠ k := by
  intro h
  subst h
  rw [hT.base_ascii c hk hb] at hna
  cases hna

/-- label characters: the first is PN_CHARS_BASE, the others PN_CHARS or '.', none is ':' -/
theorem prefixOK_cons {c : Nat} {l : List Nat} (h : prefixOK T (c :: l) = true) :
    inRanges T.pnCharsBase c = true ∧ ∀ y ∈ l, (inRanges T.pnChars y = true ∨ y = 0x2e) ∧ y ≠ 0x3a := by
  simp only [prefixOK, Bool.and_eq_true, List.all_eq_true, Bool.or_eq_true, decide_eq_true_eq, bne_iff_ne, ne_eq] at h
  exact ⟨h.1.1, fun y hy => h.2 y hy⟩

theorem label_tail_ne_lt (hT : DocTablesOK T) {c : Nat} {l : List Nat} (h : prefixOK T (c :: l) = true) :
    ∀ y ∈ l, y ≠ 0x3c := by
  intro y hy h1
  subst h1
  rcases ((prefixOK_cons h).2 _ hy).1 with h2 | h2
  · rw [hT.pn_lt] at h2; cases h2
  · cases h2

/-- At statement level a prefixed name — whatever its label looks like (`base:`, `PREFIX9:` …) — starts
    the subject production. -/
theorem stepStatementRune_pname (hT : DocTablesOK T) (hC : CfgOK C T) (x : Ectx) (env : Env) (p more : List Nat)
    (hp : labelSafe C.isSpace T p = true) (c0 : Nat) (r0 : List Nat) (h0 : c0 :: r0 = p ++ 0x3a :: more) :
    stepStatementRune C e x env c0 r0 =
      .ok { cur := some ⟨x, .subjPName⟩, push := [⟨x, .triplesEnd⟩], inp := c0 :: r0, env := env } := by
  obtain ⟨hpo, _, hsp, _, _⟩ := labelSafe_parts hp
  cases p with
  | nil =>
    simp only [List.nil_append, List.cons.injEq] at h0
    obtain ⟨rfl, rfl⟩ := h0
    simp [stepStatementRune, stepSubjectStart, hC.trig]
  | cons c l =>
    simp only [List.cons_append, List.cons.injEq] at h0
    obtain ⟨rfl, rfl⟩ := h0
    have hb := (prefixOK_cons hpo).1
    have hl : ∀ y ∈ l, C.isSpace y = false := fun y hy => hsp y (List.mem_cons_of_mem _ hy)
    have hlt := label_tail_ne_lt hT hpo
    have n40 := base_ne hT hb 0x40 (by decide) (by decide)
    have n3c := base_ne hT hb 0x3c (by decide) (by decide)
    have n5f := base_ne hT hb 0x5f (by decide) (by decide)
    have n5b := base_ne hT hb 0x5b (by decide) (by decide)
    have n28 := base_ne hT hb 0x28 (by decide) (by decide)
    unfold stepStatementRune
    rw [if_neg n40]
    split
    · rw [stepKwBase_label hC x env c0 l more (fun y hy => ⟨hl y hy, hlt y hy⟩)]
      exact kwFallback_turtle hC x env _
    · split
      · rw [stepKwSpace_label hC x env "REFIX" _ c0 l more (by decide) hl]
        exact kwFallback_turtle hC x env _
      · simp [hC.trig, stepSubjectStart, n3c, n5f, n5b, n28, hC.pnBase, hb]


/-! ### the shared assumptions of the statement lemmas -/

/-- decoder-side image of an input term: blank node `b` becomes the labelled node `label b` -/
def dterm {β : Type} (label : β → List Nat) (t : Term β) : TtlDoc.T := t.map (fun b => BN.lbl (label b))

structure Setup {β : Type} (C : Cfg) (T : Tables) (c : Ctx β) (base : Option (List Nat)) : Prop where
  hT : DocTablesOK T
  hC : CfgOK C T
  cT : c.T = T
  cb : c.base = base.map Prefix.newBaseIRI
  baseOK : ∀ b, base = some b → baseOK b
  labels : ∀ m ∈ c.pm.ordered, labelSafe C.isSpace T m.pfx = true
  lbl : LabelOK T c.label

theorem writeIRI_ok {β : Type} {c : Ctx β} {v S : List Nat} (h : writeIRI c v = .ok S) :
    ∃ w, writeIRIForm c v = .ok w ∧ S = w.text c.T := by
  unfold writeIRI Res.map Res.bind at h
  cases hw : writeIRIForm c v with
  | ok w => rw [hw] at h; injection h with h; exact ⟨w, rfl, h.symm⟩
  | err => rw [hw] at h; cases h
  | panic => rw [hw] at h; cases h

/-- a prefixed name's text starts with a visible rune: ':' or the label's PN_CHARS_BASE head; if that
    is the letter `a`, a rune that is not white space follows (so it is not the keyword `a`) -/
theorem pname_head (hT : DocTablesOK T) (hC : CfgOK C T) {p : List Nat} (hp : labelSafe C.isSpace T p = true)
    (more : List Nat) :
    ∃ c0 r0, p ++ 0x3a :: more = c0 :: r0 ∧ Vis C c0 ∧ (c0 = 0x3a ∨ inRanges T.pnCharsBase c0 = true) ∧
      (c0 = 0x61 → ∃ r1 r2, r0 = r1 :: r2 ∧ C.isSpace r1 = false) := by
  obtain ⟨hpo, _, hsp, _, _⟩ := labelSafe_parts hp
  cases p with
  | nil =>
    exact ⟨0x3a, more, rfl, vis_ascii hC (by decide) (by decide) (by decide), Or.inl rfl, fun h => by cases h⟩
  | cons c l =>
    have hb := (prefixOK_cons hpo).1
    refine ⟨c, l ++ 0x3a :: more, rfl, vis_label_head hT hb (hsp c List.mem_cons_self), Or.inr hb, fun _ => ?_⟩
    cases l with
    | nil => exact ⟨0x3a, more, rfl, hC.vis 0x3a (by decide) (by decide)⟩
    | cons y l => exact ⟨y, l ++ 0x3a :: more, rfl, hsp y (by simp)⟩

/-! ### subject -/

/-- frames on the stack once the subject of a statement at document level is read -/
def subjFrames (x : Ectx) (s : TtlDoc.T) (K : List Frame) : List Frame :=
  ⟨{ x with subj := some s }, .polRequired⟩ :: ⟨{ x with subj := some s }, .polContinue⟩ :: ⟨x, .triplesEnd⟩ ::
    ⟨x, .statement⟩ :: K

theorem run_subject_iriref (hC : CfgOK C T) (x : Ectx) (K : List Frame) (k : Nat) (env : Env) (body v rest : List Nat)
    (h : iriIRIREF C e env (0x3c :: (body ++ 0x3e :: rest)) = .ok v rest) :
    Run C e (mk (⟨x, .statement⟩ :: K) (List.replicate k 0x0a ++ 0x3c :: (body ++ 0x3e :: rest)) env) []
      (mk (subjFrames x (.iri v) K) rest env) := by
  have hv : Vis C 0x3c := vis_ascii hC (by decide) (by decide) (by decide)
  have s1 : scanFn C e ⟨x, .statement⟩ (List.replicate k 0x0a ++ 0x3c :: (body ++ 0x3e :: rest)) env =
      .ok { cur := some ⟨x, .subjIRIREF⟩, push := [⟨x, .statement⟩, ⟨x, .triplesEnd⟩],
            inp := 0x3c :: (body ++ 0x3e :: rest), env := env } := by
    rw [scanFn_nls, scanFn_vis hv]
    simp [stepFn, withSelf, stepStatementRune, stepSubjectStart, hC.trig]
  have s2 : scanFn C e ⟨x, .subjIRIREF⟩ (0x3c :: (body ++ 0x3e :: rest)) env =
      .ok { cur := some ⟨{ x with subj := some (.iri v) }, .polRequired⟩,
            push := [⟨{ x with subj := some (.iri v) }, .polContinue⟩], inp := rest, env := env } := by
    rw [scanFn_vis hv]
    simp [stepFn, subjectOf, termIRIREF, IriRes.toTerm, h, subjectTail]
  exact (run_of_scanFn (stk := K) s1).trans (run_of_scanFn (stk := ⟨x, .triplesEnd⟩ :: ⟨x, .statement⟩ :: K) s2)

theorem run_subject_pname (hT : DocTablesOK T) (hC : CfgOK C T) (x : Ectx) (K : List Frame) (k : Nat) (env : Env)
    (p out v rest : List Nat) (hp : labelSafe C.isSpace T p = true)
    (h : iriPName C e env (p ++ 0x3a :: (out ++ rest)) = .ok v rest) :
    Run C e (mk (⟨x, .statement⟩ :: K) (List.replicate k 0x0a ++ (p ++ 0x3a :: (out ++ rest))) env) []
      (mk (subjFrames x (.iri v) K) rest env) := by
  obtain ⟨c0, r0, h0, hv, _, _⟩ := pname_head hT hC hp (out ++ rest)
  rw [h0] at h ⊢
  have s1 : scanFn C e ⟨x, .statement⟩ (List.replicate k 0x0a ++ c0 :: r0) env =
      .ok { cur := some ⟨x, .subjPName⟩, push := [⟨x, .statement⟩, ⟨x, .triplesEnd⟩], inp := c0 :: r0, env := env } := by
    rw [scanFn_nls, scanFn_vis hv]
    simp only [stepFn, stepStatementRune_pname hT hC x env p (out ++ rest) hp c0 r0 h0.symm, withSelf]
  have s2 : scanFn C e ⟨x, .subjPName⟩ (c0 :: r0) env =
      .ok { cur := some ⟨{ x with subj := some (.iri v) }, .polRequired⟩,
            push := [⟨{ x with subj := some (.iri v) }, .polContinue⟩], inp := rest, env := env } := by
    rw [scanFn_vis hv]
    simp [stepFn, subjectOf, termPName, IriRes.toTerm, h, subjectTail]
  exact (run_of_scanFn (stk := K) s1).trans (run_of_scanFn (stk := ⟨x, .triplesEnd⟩ :: ⟨x, .statement⟩ :: K) s2)

theorem termBNode_label (hT : DocTablesOK T) (hC : CfgOK C T) (env : Env) (l rest : List Nat) (hs : Scalars l)
    (hl : labelOK T l = true) (hstop : LabelStop T e rest) :
    termBNode C e env (0x5f :: 0x3a :: (l ++ rest)) = .ok (.bnode (.lbl l)) rest env := by
  have hne : l ≠ [] := by intro h; subst h; simp [labelOK] at hl
  have := C02.bnode_roundtrip T hT.tok e l rest hs hl hstop
  unfold termBNode
  rw [hC.prod]
  simp only [Producers.real]
  rw [show (0x5f :: 0x3a :: (l ++ rest)) = (0x5f :: 0x3a :: l ++ rest) by simp, this]
  simp [Env.labelled, hne]

theorem run_subject_bnode (hT : DocTablesOK T) (hC : CfgOK C T) (x : Ectx) (K : List Frame) (k : Nat) (env : Env)
    (l rest : List Nat) (hs : Scalars l) (hl : labelOK T l = true) (hstop : LabelStop T e rest) :
    Run C e (mk (⟨x, .statement⟩ :: K) (List.replicate k 0x0a ++ 0x5f :: 0x3a :: (l ++ rest)) env) []
      (mk (subjFrames x (.bnode (.lbl l)) K) rest env) := by
  have hv : Vis C 0x5f := vis_ascii hC (by decide) (by decide) (by decide)
  have s1 : scanFn C e ⟨x, .statement⟩ (List.replicate k 0x0a ++ 0x5f :: 0x3a :: (l ++ rest)) env =
      .ok { cur := some ⟨x, .subjBNode⟩, push := [⟨x, .statement⟩, ⟨x, .triplesEnd⟩],
            inp := 0x5f :: 0x3a :: (l ++ rest), env := env } := by
    rw [scanFn_nls, scanFn_vis hv]
    simp [stepFn, withSelf, stepStatementRune, stepSubjectStart, hC.trig]
  have s2 : scanFn C e ⟨x, .subjBNode⟩ (0x5f :: 0x3a :: (l ++ rest)) env =
      .ok { cur := some ⟨{ x with subj := some (.bnode (.lbl l)) }, .polRequired⟩,
            push := [⟨{ x with subj := some (.bnode (.lbl l)) }, .polContinue⟩], inp := rest, env := env } := by
    rw [scanFn_vis hv]
    simp [stepFn, subjectOf, termBNode_label hT hC env l rest hs hl hstop, subjectTail]
  exact (run_of_scanFn (stk := K) s1).trans (run_of_scanFn (stk := ⟨x, .triplesEnd⟩ :: ⟨x, .statement⟩ :: K) s2)


/-! ### predicate -/

def predFrames (x : Ectx) (p : TtlDoc.T) (K : List Frame) : List Frame :=
  ⟨{ x with pred := some p }, .object⟩ :: ⟨{ x with pred := some p }, .objListContinue⟩ :: K

/-- the keyword `a` followed by a space -/
theorem run_pred_a (hC : CfgOK C T) (x : Ectx) (K : List Frame) (env : Env) (rest : List Nat) :
    Run C e (mk (⟨x, .polRequired⟩ :: K) (0x20 :: 0x61 :: 0x20 :: rest) env) []
      (mk (predFrames x (.iri TtlDoc.rdfType) K) rest env) := by
  have hv : Vis C 0x61 := vis_ascii hC (by decide) (by decide) (by decide)
  have s1 : scanFn C e ⟨x, .polRequired⟩ (0x20 :: 0x61 :: 0x20 :: rest) env =
      .ok { cur := some ⟨{ x with pred := some (.iri TtlDoc.rdfType) }, .object⟩,
            push := [⟨{ x with pred := some (.iri TtlDoc.rdfType) }, .objListContinue⟩], inp := rest, env := env } := by
    rw [scanFn_sp, scanFn_vis hv]
    simp [stepFn, stepPOL, hC.sp, polGo]
  exact run_of_scanFn (stk := K) s1

theorem run_pred_iriref (hC : CfgOK C T) (x : Ectx) (K : List Frame) (env : Env) (body v rest : List Nat)
    (h : iriIRIREF C e env (0x3c :: (body ++ 0x3e :: rest)) = .ok v rest) :
    Run C e (mk (⟨x, .polRequired⟩ :: K) (0x20 :: 0x3c :: (body ++ 0x3e :: rest)) env) []
      (mk (predFrames x (.iri v) K) rest env) := by
  have hv : Vis C 0x3c := vis_ascii hC (by decide) (by decide) (by decide)
  have s1 : scanFn C e ⟨x, .polRequired⟩ (0x20 :: 0x3c :: (body ++ 0x3e :: rest)) env =
      .ok { cur := some ⟨{ x with pred := some (.iri v) }, .object⟩,
            push := [⟨{ x with pred := some (.iri v) }, .objListContinue⟩], inp := rest, env := env } := by
    rw [scanFn_sp, scanFn_vis hv]
    simp [stepFn, stepPOL, polOfTerm, termIRIREF, IriRes.toTerm, h, polGo]
  exact run_of_scanFn (stk := K) s1

theorem run_pred_pname (hT : DocTablesOK T) (hC : CfgOK C T) (x : Ectx) (K : List Frame) (env : Env)
    (p out v rest : List Nat) (hp : labelSafe C.isSpace T p = true)
    (h : iriPName C e env (p ++ 0x3a :: (out ++ rest)) = .ok v rest) :
    Run C e (mk (⟨x, .polRequired⟩ :: K) (0x20 :: (p ++ 0x3a :: (out ++ rest))) env) []
      (mk (predFrames x (.iri v) K) rest env) := by
  obtain ⟨c0, r0, h0, hv, hc0, ha⟩ := pname_head hT hC hp (out ++ rest)
  rw [h0] at h ⊢
  have n3c : c0 ≠ 0x3c := by
    rcases hc0 with rfl | hb
    · decide
    · exact base_ne hT hb 0x3c (by decide) (by decide)
  have hbase : (c0 = 0x3a ∨ C.pnBase c0 = true) := by rw [hC.pnBase]; exact hc0
  have s1 : scanFn C e ⟨x, .polRequired⟩ (0x20 :: c0 :: r0) env =
      .ok { cur := some ⟨{ x with pred := some (.iri v) }, .object⟩,
            push := [⟨{ x with pred := some (.iri v) }, .objListContinue⟩], inp := rest, env := env } := by
    rw [scanFn_sp, scanFn_vis hv]
    by_cases h61 : c0 = 0x61
    · obtain ⟨r1, r2, hr, hsp⟩ := ha h61
      subst hr
      subst h61
      simp [stepFn, stepPOL, hsp, polOfTerm, termPName, IriRes.toTerm, h, polGo]
    · simp [stepFn, stepPOL, n3c, h61, hbase, polOfTerm, termPName, IriRes.toTerm, h, polGo]
  exact run_of_scanFn (stk := K) s1


/-! ### object -/

/-- white space the encoder writes between tokens: spaces, line feeds, tabs -/
def Lead (ws : List Nat) : Prop := ∀ c ∈ ws, c = 0x20 ∨ c = 0x0a ∨ c = 0x09

theorem scanFn_lead {f : Frame} {inp : List Nat} {env : Env} : ∀ (ws : List Nat), Lead ws →
    scanFn C e f (ws ++ inp) env = scanFn C e f inp env
  | [], _ => rfl
  | w :: ws, h => by
    have hw := h w List.mem_cons_self
    have ih := scanFn_lead (f := f) (inp := inp) (env := env) ws (fun c hc => h c (List.mem_cons_of_mem _ hc))
    rw [List.cons_append]
    rcases hw with rfl | rfl | rfl
    · rw [scanFn_sp, ih]
    · rw [scanFn_nl, ih]
    · rw [scanFn_tab, ih]

theorem lead_sp : Lead [0x20] := by intro c hc; simp at hc; exact Or.inl hc
theorem lead_nil : Lead [] := by intro c hc; cases hc

theorem run_obj_iriref (hC : CfgOK C T) (x : Ectx) (K : List Frame) (env : Env) (ws body v rest : List Nat)
    (hws : Lead ws) (h : iriIRIREF C e env (0x3c :: (body ++ 0x3e :: rest)) = .ok v rest) :
    Run C e (mk (⟨x, .object⟩ :: K) (ws ++ 0x3c :: (body ++ 0x3e :: rest)) env) [mkStmt x (.iri v)] (mk K rest env) := by
  have hv : Vis C 0x3c := vis_ascii hC (by decide) (by decide) (by decide)
  have s1 : scanFn C e ⟨x, .object⟩ (ws ++ 0x3c :: (body ++ 0x3e :: rest)) env =
      .ok { emit := some (mkStmt x (.iri v)), inp := rest, env := env } := by
    rw [scanFn_lead ws hws, scanFn_vis hv]
    simp [stepFn, stepObject, emitOfTerm, termIRIREF, IriRes.toTerm, h]
  exact run_of_scanFn (stk := K) s1

theorem run_obj_bnode (hT : DocTablesOK T) (hC : CfgOK C T) (x : Ectx) (K : List Frame) (env : Env)
    (ws l rest : List Nat) (hws : Lead ws) (hs : Scalars l) (hl : labelOK T l = true) (hstop : LabelStop T e rest) :
    Run C e (mk (⟨x, .object⟩ :: K) (ws ++ 0x5f :: 0x3a :: (l ++ rest)) env) [mkStmt x (.bnode (.lbl l))]
      (mk K rest env) := by
  have hv : Vis C 0x5f := vis_ascii hC (by decide) (by decide) (by decide)
  have s1 : scanFn C e ⟨x, .object⟩ (ws ++ 0x5f :: 0x3a :: (l ++ rest)) env =
      .ok { emit := some (mkStmt x (.bnode (.lbl l))), inp := rest, env := env } := by
    rw [scanFn_lead ws hws, scanFn_vis hv]
    simp [stepFn, stepObject, emitOfTerm, termBNode_label hT hC env l rest hs hl hstop]
  exact run_of_scanFn (stk := K) s1

/-- a keyword scan over a prefixed name: either it fails to match, or the label starts with the keyword -/
theorem matchKeyword_label : ∀ (kw : List Nat), (∀ k ∈ kw, k ≠ 0x3a) → ∀ (l more : List Nat),
    matchKeyword e kw (l ++ 0x3a :: more) = some none ∨ kw.isPrefixOf l = true
  | [], _, l, more => Or.inr (by simp)
  | k :: kw, hk, [], more => by
    left
    have := hk k List.mem_cons_self
    simp only [List.nil_append, matchKeyword]
    rw [if_neg (fun h => this h.symm)]
  | k :: kw, hk, c :: l, more => by
    simp only [List.cons_append, matchKeyword]
    split
    · next hc =>
      subst hc
      rcases matchKeyword_label kw (fun y hy => hk y (List.mem_cons_of_mem _ hy)) l more with h | h
      · exact Or.inl h
      · exact Or.inr (by simp [List.isPrefixOf, h])
    · exact Or.inl rfl

theorem scanBoolean_label {p : List Nat} {isSpace : Nat → Bool} (hp : labelSafe isSpace T p = true) (more : List Nat) :
    scanBoolean e (p ++ 0x3a :: more) = .other := by
  obtain ⟨_, _, _, ht, hf⟩ := labelSafe_parts hp
  cases p with
  | nil => simp [scanBoolean]
  | cons c l =>
    simp only [List.cons_append, scanBoolean]
    split
    · next hc =>
      subst hc
      rcases matchKeyword_label (e := e) (asc "rue") (by decide) l more with h | h
      · rw [h]
      · have : (asc "true").isPrefixOf (0x74 :: l) = true := by
          have : asc "true" = 0x74 :: asc "rue" := by decide
          rw [this]; simp [List.isPrefixOf, h]
        rw [this] at ht; cases ht
    · split
      · next _ hc =>
        subst hc
        rcases matchKeyword_label (e := e) (asc "alse") (by decide) l more with h | h
        · rw [h]
        · have : (asc "false").isPrefixOf (0x66 :: l) = true := by
            have : asc "false" = 0x66 :: asc "alse" := by decide
            rw [this]; simp [List.isPrefixOf, h]
          rw [this] at hf; cases hf
      · rfl

theorem run_obj_pname (hT : DocTablesOK T) (hC : CfgOK C T) (x : Ectx) (K : List Frame) (env : Env)
    (ws p out v rest : List Nat) (hws : Lead ws) (hp : labelSafe C.isSpace T p = true)
    (h : iriPName C e env (p ++ 0x3a :: (out ++ rest)) = .ok v rest) :
    Run C e (mk (⟨x, .object⟩ :: K) (ws ++ (p ++ 0x3a :: (out ++ rest))) env) [mkStmt x (.iri v)] (mk K rest env) := by
  have hbool := scanBoolean_label (e := e) hp (out ++ rest)
  obtain ⟨c0, r0, h0, hv, hc0, _⟩ := pname_head hT hC hp (out ++ rest)
  rw [h0] at h hbool ⊢
  have hne : ∀ k, k < 0x80 → isAlpha k = false → k ≠ 0x3a → c0 ≠ k := by
    intro k hk hna hk2
    rcases hc0 with rfl | hb
    · exact fun h => hk2 h.symm
    · exact base_ne hT hb k hk hna
  have hbase : (C.pnBase c0 = true ∨ c0 = 0x3a) := by rw [hC.pnBase]; exact hc0.symm
  have hdig : ¬ (0x30 ≤ c0 ∧ c0 ≤ 0x39) := by
    intro hd
    rcases hc0 with rfl | hb
    · omega
    · have := hT.base_ascii c0 (by omega) hb
      simp [isAlpha, NQ.isAlpha] at this
      omega
  have s1 : scanFn C e ⟨x, .object⟩ (ws ++ c0 :: r0) env =
      .ok { cur := some ⟨x, .objectPName⟩, inp := c0 :: r0, env := env } := by
    rw [scanFn_lead ws hws, scanFn_vis hv]
    have n1 := hne 0x3c (by decide) (by decide) (by decide)
    have n2 := hne 0x5f (by decide) (by decide) (by decide)
    have n3 := hne 0x28 (by decide) (by decide) (by decide)
    have n4 := hne 0x5b (by decide) (by decide) (by decide)
    have n5 := hne 0x22 (by decide) (by decide) (by decide)
    have n6 := hne 0x27 (by decide) (by decide) (by decide)
    have n7 := hne 0x2b (by decide) (by decide) (by decide)
    have n8 := hne 0x2d (by decide) (by decide) (by decide)
    have n9 := hne 0x2e (by decide) (by decide) (by decide)
    simp only [stepFn, stepObject, n1, n2, n3, n4, n5, n6, n7, n8, n9, hdig, ↓reduceIte, false_or, or_false, or_self]
    rw [hC.prod]
    simp only [Producers.real, hbool]
    split
    · rfl
    · simp [hbase]
  have s2 : scanFn C e ⟨x, .objectPName⟩ (c0 :: r0) env = .ok { emit := some (mkStmt x (.iri v)), inp := rest, env := env } := by
    rw [scanFn_vis hv]
    simp [stepFn, emitOfTerm, termPName, IriRes.toTerm, h]
  exact (run_of_scanFn (stk := K) s1).trans (run_of_scanFn (stk := K) s2)


/-! ### literals -/

theorem formatLit_cons (lex rest : List Nat) :
    formatLiteralLexicalForm T false lex ++ rest = 0x22 :: (litBody T false lex ++ 0x22 :: rest) := by
  simp [formatLiteralLexicalForm]

theorem string_tok (hT : DocTablesOK T) (hC : CfgOK C T) (lex rest : List Nat) (hs : Scalars lex)
    (hstop : lex = [] → EmptyStrStop e rest) :
    C.P.string e (0x22 :: (litBody T false lex ++ 0x22 :: rest)) = .ok lex rest := by
  rw [hC.prod]
  simp only [Producers.real]
  rw [← formatLit_cons]
  exact C02.string_roundtrip T hT.tok e false lex hs rest hstop

/-- a quoted string followed by something that is neither `@` nor `^^`: xsd:string -/
theorem run_obj_string (hT : DocTablesOK T) (hC : CfgOK C T) (x : Ectx) (K : List Frame) (env : Env)
    (ws lex : List Nat) (c : Nat) (r0 : List Nat) (hws : Lead ws) (hs : Scalars lex)
    (hc1 : c ≠ 0x40) (hc2 : c ≠ 0x5e) (hc3 : c ≠ 0x22) :
    Run C e (mk (⟨x, .object⟩ :: K) (ws ++ (formatLiteralLexicalForm T false lex ++ c :: r0)) env)
      [mkStmt x (.lit lex xsdString none)] (mk K (c :: r0) env) := by
  have hv : Vis C 0x22 := vis_ascii hC (by decide) (by decide) (by decide)
  have htok := string_tok (e := e) hT hC lex (c :: r0) hs (fun _ => by simp [EmptyStrStop, hc3])
  have s1 : scanFn C e ⟨x, .object⟩ (ws ++ (formatLiteralLexicalForm T false lex ++ c :: r0)) env =
      .ok { emit := some (mkStmt x (.lit lex xsdString none)), inp := c :: r0, env := env } := by
    rw [scanFn_lead ws hws, formatLit_cons, scanFn_vis hv]
    simp [stepFn, stepObject, htok, stepLiteralTail, hc1, hc2]
  exact run_of_scanFn (stk := K) s1

/-- a quoted string with a language tag -/
theorem run_obj_lang (hT : DocTablesOK T) (hC : CfgOK C T) (x : Ectx) (K : List Frame) (env : Env)
    (ws lex tag rest : List Nat) (hws : Lead ws) (hs : Scalars lex) (ht : langOK tag = true) (hstop : LangStop e rest) :
    Run C e (mk (⟨x, .object⟩ :: K) (ws ++ (formatLiteralLexicalForm T false lex ++ 0x40 :: (tag ++ rest))) env)
      [mkStmt x (.lit lex rdfLangString (some tag))] (mk K rest env) := by
  have hv : Vis C 0x22 := vis_ascii hC (by decide) (by decide) (by decide)
  have htok := string_tok (e := e) hT hC lex (0x40 :: (tag ++ rest)) hs (fun _ => by simp [EmptyStrStop])
  have hlang : C.P.langtag e (0x40 :: (tag ++ rest)) = .ok tag rest := by
    rw [hC.prod]
    simp only [Producers.real]
    have := C02.langtag_roundtrip e tag rest ht hstop
    simpa using this
  have s1 : scanFn C e ⟨x, .object⟩ (ws ++ (formatLiteralLexicalForm T false lex ++ 0x40 :: (tag ++ rest))) env =
      .ok { emit := some (mkStmt x (.lit lex rdfLangString (some tag))), inp := rest, env := env } := by
    rw [scanFn_lead ws hws, formatLit_cons, scanFn_vis hv]
    simp [stepFn, stepObject, htok, stepLiteralTail, hlang]
  exact run_of_scanFn (stk := K) s1

/-- a quoted string with `^^` and a datatype the decoder reads as `dt` -/
theorem run_obj_typed (hT : DocTablesOK T) (hC : CfgOK C T) (x : Ectx) (K : List Frame) (env : Env)
    (ws lex dtText dt rest : List Nat) (hws : Lead ws) (hs : Scalars lex)
    (hdt : dt ≠ rdfLangString ∧ dt ≠ rdfDirLangString)
    (h : ∃ c2 r2, dtText ++ rest = c2 :: r2 ∧
      (if c2 = 0x3c then iriIRIREF C e env (c2 :: r2) else iriPName C e env (c2 :: r2)) = .ok dt rest) :
    Run C e (mk (⟨x, .object⟩ :: K) (ws ++ (formatLiteralLexicalForm T false lex ++ 0x5e :: 0x5e :: (dtText ++ rest))) env)
      [mkStmt x (.lit lex dt none)] (mk K rest env) := by
  have hv : Vis C 0x22 := vis_ascii hC (by decide) (by decide) (by decide)
  have htok := string_tok (e := e) hT hC lex (0x5e :: 0x5e :: (dtText ++ rest)) hs (fun _ => by simp [EmptyStrStop])
  obtain ⟨c2, r2, h0, hd⟩ := h
  rw [h0] at htok
  have s1 : scanFn C e ⟨x, .object⟩ (ws ++ (formatLiteralLexicalForm T false lex ++ 0x5e :: 0x5e :: (dtText ++ rest))) env =
      .ok { emit := some (mkStmt x (.lit lex dt none)), inp := rest, env := env } := by
    rw [scanFn_lead ws hws, formatLit_cons, scanFn_vis hv, h0]
    simp [stepFn, stepObject, htok, stepLiteralTail, hd, hdt.1, hdt.2]
  exact run_of_scanFn (stk := K) s1


/-! ### bare numeric and boolean literals -/

theorem spanDigits_pos : ∀ (l : List Nat), (spanDigits l).1 > 0 → ∃ d l', l = d :: l' ∧ isDigit d = true
  | [], h => by simp [spanDigits] at h
  | c :: rest, h => by
    unfold spanDigits at h
    split at h
    · next hd => exact ⟨c, rest, rfl, hd⟩
    · simp at h

/-- a bare token that starts with '.' continues with a digit (`.5`, never `.e1`) -/
theorem bare_dot_digit (l dt : List Nat) (h : bareLiteralDatatype (0x2e :: l) = some dt) :
    ∃ d l', l = d :: l' ∧ isDigit d = true := by
  apply spanDigits_pos
  unfold bareLiteralDatatype at h
  have h1 : ¬ ((0x2e :: l) = asc "true" ∨ (0x2e :: l) = asc "false") := by
    intro hh
    rcases hh with hh | hh
    · have : asc "true" = 0x74 :: asc "rue" := by decide
      rw [this] at hh; injection hh with hh; cases hh
    · have : asc "false" = 0x66 :: asc "alse" := by decide
      rw [this] at hh; injection hh with hh; cases hh
  rw [if_neg h1] at h
  have h2 : dropSign (0x2e :: l) = 0x2e :: l := by simp [dropSign]
  have h3 : spanDigits (0x2e :: l) = (0, 0x2e :: l) := by
    unfold spanDigits
    simp [isDigit, NQ.isDigit]
  rw [h2, h3] at h
  simp only [↓reduceIte] at h
  -- now `h` speaks about `spanDigits l`
  rcases hsd : spanDigits l with ⟨n, r'⟩
  rw [hsd] at h
  simp only at h
  show n > 0
  rcases Nat.eq_zero_or_pos n with hn0 | hpos
  · subst hn0
    exfalso
    cases r' with
    | nil => simp at h
    | cons c r =>
      simp only at h
      split at h
      · simp at h
      · cases h
  · exact hpos

theorem numeric_head {lex rest : List Nat} {k : NumKind}
    (h : produceNumericLiteral e (lex ++ rest) = .ok (k, lex) rest) :
    ∃ c r, lex ++ rest = c :: r ∧ ((c = 0x2d ∨ c = 0x2b ∨ isDigit c = true) ∨ c = 0x2e) := by
  cases hl : lex ++ rest with
  | nil => rw [hl] at h; simp [produceNumericLiteral] at h
  | cons c r =>
    refine ⟨c, r, rfl, ?_⟩
    rw [hl] at h
    simp only [produceNumericLiteral] at h
    by_cases h1 : c = 0x2d ∨ c = 0x2b ∨ isDigit c = true
    · exact Or.inl h1
    · rw [if_neg h1] at h
      by_cases h2 : c = 0x2e
      · exact Or.inr h2
      · rw [if_neg h2] at h; cases h

theorem run_obj_numeric (hC : CfgOK C T) (x : Ectx) (K : List Frame) (env : Env) (ws lex dt rest : List Nat)
    (hws : Lead ws) (h : literalShorthand dt lex = true) (hdt : dt ≠ xsdBoolean) (hstop : NumStop e rest) :
    Run C e (mk (⟨x, .object⟩ :: K) (ws ++ (lex ++ rest)) env) [mkStmt x (.lit lex dt none)] (mk K rest env) := by
  have hb : bareLiteralDatatype lex = some dt := by simpa [literalShorthand] using h
  obtain ⟨k, hk, hnum⟩ : ∃ k : NumKind, k.datatype = dt ∧ produceNumericLiteral e (lex ++ rest) = .ok (k, lex) rest := by
    rcases C02.shorthand_sound e dt lex rest h hstop with ⟨_, k, hk, hnum⟩ | ⟨hbool, _⟩
    · exact ⟨k, hk, hnum⟩
    · exact absurd hbool hdt
  obtain ⟨c, r, h0, hc⟩ := numeric_head hnum
  have hnum' : C.P.numeric e (c :: r) = .ok (k, lex) rest := by
    rw [hC.prod]; simp only [Producers.real]; rw [← h0]; exact hnum
  have hvis : Vis C c := by
    apply vis_ascii hC
    all_goals (rcases hc with (rfl | rfl | hd) | rfl <;> first | decide | (simp [isDigit, NQ.isDigit] at hd; omega))
  have s1 : scanFn C e ⟨x, .object⟩ (ws ++ (lex ++ rest)) env =
      .ok { emit := some (mkStmt x (.lit lex dt none)), inp := rest, env := env } := by
    rw [scanFn_lead ws hws, h0, scanFn_vis hvis]
    rcases hc with (rfl | rfl | hd) | rfl
    · simp [stepFn, stepObject, hnum', emitOfNumeric, hk]
    · simp [stepFn, stepObject, hnum', emitOfNumeric, hk]
    · have hd' : 0x30 ≤ c ∧ c ≤ 0x39 := by simpa [isDigit, NQ.isDigit] using hd
      have n1 : c ≠ 0x3c := by omega
      have n2 : c ≠ 0x5f := by omega
      have n3 : c ≠ 0x28 := by omega
      have n4 : c ≠ 0x5b := by omega
      have n5 : c ≠ 0x22 := by omega
      have n6 : c ≠ 0x27 := by omega
      have n7 : c ≠ 0x2e := by omega
      simp [stepFn, stepObject, n1, n2, n3, n4, n5, n6, n7, hd', hnum', emitOfNumeric, hk]
    · -- '.': the next rune is a digit
      cases lex with
      | nil => simp [bareLiteralDatatype, asc, spanDigits, dropSign] at hb
      | cons c' lex' =>
        simp only [List.cons_append, List.cons.injEq] at h0
        obtain ⟨rfl, rfl⟩ := h0
        obtain ⟨d, l', rfl, hd⟩ := bare_dot_digit lex' dt hb
        have hd' : 0x30 ≤ d ∧ d ≤ 0x39 := by simpa [isDigit, NQ.isDigit] using hd
        have : ¬ (d < 0x30 ∨ d > 0x39) := by omega
        have hnum'' : C.P.numeric e (0x2e :: d :: (l' ++ rest)) = .ok (k, 0x2e :: d :: l') rest := hnum'
        simp [stepFn, stepObject, this, hnum'', emitOfNumeric, hk]
  exact run_of_scanFn (stk := K) s1

theorem run_obj_bool (hC : CfgOK C T) (x : Ectx) (K : List Frame) (env : Env) (ws lex rest : List Nat)
    (hws : Lead ws) (h : literalShorthand xsdBoolean lex = true) :
    Run C e (mk (⟨x, .object⟩ :: K) (ws ++ (lex ++ rest)) env) [mkStmt x (.lit lex xsdBoolean none)] (mk K rest env) := by
  have hb : bareLiteralDatatype lex = some xsdBoolean := by simpa [literalShorthand] using h
  have hcases := Proofs.C02Tok.boolean_shorthand e lex rest hb
  have ht : asc "true" = 0x74 :: asc "rue" := by decide
  have hf : asc "false" = 0x66 :: asc "alse" := by decide
  rcases hcases with ⟨rfl, hs⟩ | ⟨rfl, hs⟩
  · have hv : Vis C 0x74 := vis_ascii hC (by decide) (by decide) (by decide)
    have hs' : C.P.boolean e (0x74 :: (asc "rue" ++ rest)) = .bool true rest := by
      rw [hC.prod]; simp only [Producers.real]; rw [← List.cons_append, ← ht]; exact hs
    have s1 : scanFn C e ⟨x, .object⟩ (ws ++ (asc "true" ++ rest)) env =
        .ok { emit := some (mkStmt x (.lit (asc "true") xsdBoolean none)), inp := rest, env := env } := by
      rw [scanFn_lead ws hws, ht, List.cons_append, scanFn_vis hv]
      simp [stepFn, stepObject, hs']
      rfl
    exact run_of_scanFn (stk := K) s1
  · have hv : Vis C 0x66 := vis_ascii hC (by decide) (by decide) (by decide)
    have hs' : C.P.boolean e (0x66 :: (asc "alse" ++ rest)) = .bool false rest := by
      rw [hC.prod]; simp only [Producers.real]; rw [← List.cons_append, ← hf]; exact hs
    have s1 : scanFn C e ⟨x, .object⟩ (ws ++ (asc "false" ++ rest)) env =
        .ok { emit := some (mkStmt x (.lit (asc "false") xsdBoolean none)), inp := rest, env := env } := by
      rw [scanFn_lead ws hws, hf, List.cons_append, scanFn_vis hv]
      simp [stepFn, stepObject, hs']
      rfl
    exact run_of_scanFn (stk := K) s1


/-! ### predicate-object lists with `;` and `,` (nested-resource mode) -/

/-- the two scan functions that read a verb: `reader_scan_PredicateObjectList` and its `_Required` variant -/
def IsPol (k : Cont) : Prop := k = .pol ∨ k = .polRequired

theorem stepFn_pol {k : Cont} (hk : IsPol k) (x : Ectx) (env : Env) (c : Nat) (rest : List Nat) (o : Out)
    (h : stepPOL C e x env c rest = .ok o) (hcur : o.cur.isSome = true) :
    stepFn C e k x env (.rune c rest) = .ok o := by
  rcases hk with rfl | rfl
  · simp [stepFn, h]
  · have : o.cur.isNone = false := by cases ho : o.cur <;> simp_all
    simp [stepFn, h, this]

/-- the keyword `a` followed by a space or a line feed -/
theorem run_pol_a (hC : CfgOK C T) {k : Cont} (hk : IsPol k) (x : Ectx) (K : List Frame) (env : Env)
    (ws : List Nat) (hws : Lead ws) (r1 : Nat) (hr1 : r1 = 0x20 ∨ r1 = 0x0a) (rest : List Nat) :
    Run C e (mk (⟨x, k⟩ :: K) (ws ++ 0x61 :: r1 :: rest) env) []
      (mk (predFrames x (.iri TtlDoc.rdfType) K) rest env) := by
  have hv : Vis C 0x61 := vis_ascii hC (by decide) (by decide) (by decide)
  have hsp : C.isSpace r1 = true := by rcases hr1 with rfl | rfl; exact hC.sp; exact hC.nlsp
  have s1 : scanFn C e ⟨x, k⟩ (ws ++ 0x61 :: r1 :: rest) env =
      .ok { cur := some ⟨{ x with pred := some (.iri TtlDoc.rdfType) }, .object⟩,
            push := [⟨{ x with pred := some (.iri TtlDoc.rdfType) }, .objListContinue⟩], inp := rest, env := env } := by
    rw [scanFn_lead ws hws, scanFn_vis hv]
    apply stepFn_pol hk
    · simp [stepPOL, hsp, polGo]
    · rfl
  exact run_of_scanFn (stk := K) s1

theorem run_pol_iriref (hC : CfgOK C T) {k : Cont} (hk : IsPol k) (x : Ectx) (K : List Frame) (env : Env)
    (ws : List Nat) (hws : Lead ws) (body v rest : List Nat)
    (h : iriIRIREF C e env (0x3c :: (body ++ 0x3e :: rest)) = .ok v rest) :
    Run C e (mk (⟨x, k⟩ :: K) (ws ++ 0x3c :: (body ++ 0x3e :: rest)) env) []
      (mk (predFrames x (.iri v) K) rest env) := by
  have hv : Vis C 0x3c := vis_ascii hC (by decide) (by decide) (by decide)
  have s1 : scanFn C e ⟨x, k⟩ (ws ++ 0x3c :: (body ++ 0x3e :: rest)) env =
      .ok { cur := some ⟨{ x with pred := some (.iri v) }, .object⟩,
            push := [⟨{ x with pred := some (.iri v) }, .objListContinue⟩], inp := rest, env := env } := by
    rw [scanFn_lead ws hws, scanFn_vis hv]
    apply stepFn_pol hk
    · simp [stepPOL, polOfTerm, termIRIREF, IriRes.toTerm, h, polGo]
    · rfl
  exact run_of_scanFn (stk := K) s1

theorem run_pol_pname (hT : DocTablesOK T) (hC : CfgOK C T) {k : Cont} (hk : IsPol k) (x : Ectx) (K : List Frame)
    (env : Env) (ws : List Nat) (hws : Lead ws) (p out v rest : List Nat) (hp : labelSafe C.isSpace T p = true)
    (h : iriPName C e env (p ++ 0x3a :: (out ++ rest)) = .ok v rest) :
    Run C e (mk (⟨x, k⟩ :: K) (ws ++ (p ++ 0x3a :: (out ++ rest))) env) []
      (mk (predFrames x (.iri v) K) rest env) := by
  obtain ⟨c0, r0, h0, hv, hc0, ha⟩ := pname_head hT hC hp (out ++ rest)
  rw [h0] at h ⊢
  have n3c : c0 ≠ 0x3c := by
    rcases hc0 with rfl | hb
    · decide
    · exact base_ne hT hb 0x3c (by decide) (by decide)
  have hbase : (c0 = 0x3a ∨ C.pnBase c0 = true) := by rw [hC.pnBase]; exact hc0
  have s1 : scanFn C e ⟨x, k⟩ (ws ++ c0 :: r0) env =
      .ok { cur := some ⟨{ x with pred := some (.iri v) }, .object⟩,
            push := [⟨{ x with pred := some (.iri v) }, .objListContinue⟩], inp := rest, env := env } := by
    rw [scanFn_lead ws hws, scanFn_vis hv]
    apply stepFn_pol hk
    · by_cases h61 : c0 = 0x61
      · obtain ⟨r1, r2, hr, hsp⟩ := ha h61
        subst hr
        subst h61
        simp [stepPOL, hsp, polOfTerm, termPName, IriRes.toTerm, h, polGo]
      · simp [stepPOL, n3c, h61, hbase, polOfTerm, termPName, IriRes.toTerm, h, polGo]
    · rfl
  exact run_of_scanFn (stk := K) s1

/-- ` ,` after an object: another object of the same predicate follows -/
theorem run_comma (hC : CfgOK C T) (x : Ectx) (K : List Frame) (env : Env) (rest : List Nat) :
    Run C e (mk (⟨x, .objListContinue⟩ :: K) (0x20 :: 0x2c :: rest) env) []
      (mk (⟨x, .object⟩ :: ⟨x, .objListContinue⟩ :: K) rest env) := by
  have hv : Vis C 0x2c := vis_ascii hC (by decide) (by decide) (by decide)
  have s1 : scanFn C e ⟨x, .objListContinue⟩ (0x20 :: 0x2c :: rest) env =
      .ok { cur := some ⟨x, .object⟩, push := [⟨x, .objListContinue⟩], inp := rest, env := env } := by
    rw [scanFn_sp, scanFn_vis hv]; rfl
  exact run_of_scanFn (stk := K) s1

/-- ` ;` after the last object of a predicate: another verb follows -/
theorem run_semicolon (hC : CfgOK C T) (x2 x1 : Ectx) (K : List Frame) (env : Env) (rest : List Nat) :
    Run C e (mk (⟨x2, .objListContinue⟩ :: ⟨x1, .polContinue⟩ :: K) (0x20 :: 0x3b :: rest) env) []
      (mk (⟨x1, .pol⟩ :: ⟨x1, .polContinue⟩ :: K) rest env) := by
  have hv : Vis C 0x3b := vis_ascii hC (by decide) (by decide) (by decide)
  have s1 : scanFn C e ⟨x2, .objListContinue⟩ (0x20 :: 0x3b :: rest) env = .ok { inp := 0x3b :: rest, env := env } := by
    rw [scanFn_sp, scanFn_vis hv]; rfl
  have s2 : scanFn C e ⟨x1, .polContinue⟩ (0x3b :: rest) env =
      .ok { cur := some ⟨x1, .pol⟩, push := [⟨x1, .polContinue⟩], inp := rest, env := env } := by
    rw [scanFn_vis hv]; rfl
  exact (run_of_scanFn (stk := ⟨x1, .polContinue⟩ :: K) s1).trans (run_of_scanFn (stk := K) s2)

end RdfModel.Proofs.C02Doc
