package main

// Implementation side: the real decoders, canonicalised exactly as cmd/c05ttl does (statement list
// with blank nodes renumbered by first occurrence in the order s, p, o, g; verdict class).

import (
	"encoding/hex"
	"errors"
	"fmt"
	"io"
	"net/url"
	"os"
	"strings"
	"sync/atomic"
	"syscall"
	"time"

	"verifharness/vh"

	"github.com/dpb587/rdfkit-go/encoding/nquads"
	"github.com/dpb587/rdfkit-go/encoding/ntriples"
	"github.com/dpb587/rdfkit-go/encoding/trig"
	"github.com/dpb587/rdfkit-go/encoding/turtle"
	"github.com/dpb587/rdfkit-go/iri"
	"github.com/dpb587/rdfkit-go/rdf"
)

type stmt struct {
	s, p, o, g rdf.Term
}

type result struct {
	stmts   []string
	verdict string
	raw     []stmt
	errText string
}

func (r result) wire() string { return strings.Join(r.stmts, ";") + "|" + r.verdict }

type decoder interface {
	Next() bool
	Err() error
	Close() error
}

func errClass(err error) string {
	var up iri.UnknownPrefixError
	var ue *url.Error
	switch {
	case err == nil:
		return "clean"
	case errors.Is(err, vh.ErrInjected):
		return "err:io"
	case errors.Is(err, io.EOF):
		return "err:eof"
	case errors.As(err, &up):
		return "err:pfx"
	case errors.As(err, &ue), strings.Contains(err.Error(), "resolve iri:"), strings.Contains(err.Error(), "parse \""),
		strings.Contains(err.Error(), "invalid URL escape"), strings.Contains(err.Error(), "missing protocol scheme"),
		strings.Contains(err.Error(), "invalid port"), strings.Contains(err.Error(), "invalid character"),
		strings.Contains(err.Error(), "first path segment in URL cannot contain colon"),
		strings.Contains(err.Error(), "invalid control character in URL"), strings.Contains(err.Error(), "invalid userinfo"),
		strings.Contains(err.Error(), "invalid host"):
		return "err:resolve"
	}
	return "err:syntax"
}

// watchdog: a decode that runs for more than 10 s of wall-clock time AND during which the process has burnt more than
// 5 s of CPU time is reported as a hang and the process exits; a decode stalled for 120 s is reported in any case.
// The CPU condition keeps a starved process (many checks sharing the machine) from being reported as a decoder hang.
var busySince atomic.Int64
var busyCPU atomic.Int64
var busyWhat atomic.Value

func cpuNow() int64 {
	var ru syscall.Rusage
	if syscall.Getrusage(syscall.RUSAGE_SELF, &ru) != nil {
		return 0
	}
	return ru.Utime.Nano() + ru.Stime.Nano()
}

func startWatchdog(rep *vh.Report) {
	go func() {
		for {
			time.Sleep(500 * time.Millisecond)
			t := busySince.Load()
			wall := time.Now().UnixNano() - t
			if t != 0 && wall > int64(10*time.Second) && (cpuNow()-busyCPU.Load() > int64(5*time.Second) || wall > int64(120*time.Second)) {
				w, _ := busyWhat.Load().(string)
				rep.Add(vh.Case{Kind: "violation", Key: "C08", Op: w, Detail: "decoder did not terminate within 10 s"})
				rep.Write(*out)
				fmt.Println("c08: HANG on", w)
				os.Exit(1)
			}
		}
	}()
}

func termWire(t rdf.Term, label func(rdf.BlankNode) string) string {
	if t == nil {
		return "-"
	}
	return vh.TermWire(t, label)
}

// goDecode runs the real decoder of pkg (turtle | trig | nt | nq) over the bytes.
func goDecode(pkg, base string, b []byte) (res result) {
	busyWhat.Store(pkg + " " + vh.X(b))
	busyCPU.Store(cpuNow())
	busySince.Store(time.Now().UnixNano())
	defer busySince.Store(0)
	defer func() {
		if p := recover(); p != nil {
			res.verdict = "panic"
			res.errText = fmt.Sprint(p)
		}
	}()
	rd := &vh.EndReader{B: append([]byte(nil), b...)}
	var seen []rdf.BlankNodeIdentifier
	label := func(bn rdf.BlankNode) string {
		if bn.Identifier == nil {
			return "?nil-identifier"
		}
		for i, x := range seen {
			if x.EqualsBlankNodeIdentifier(bn.Identifier) {
				return fmt.Sprintf("b%d", i)
			}
		}
		seen = append(seen, bn.Identifier)
		return fmt.Sprintf("b%d", len(seen)-1)
	}
	var d decoder
	var cur func() stmt
	switch pkg {
	case "turtle":
		cfg := turtle.DecoderConfig{}
		if base != "" {
			cfg = cfg.SetDefaultBase(base)
		}
		dd, err := turtle.NewDecoder(rd, cfg)
		if err != nil {
			res.verdict = "new:" + errClass(err)
			return
		}
		d = dd
		cur = func() stmt { t := dd.Triple(); return stmt{t.Subject, t.Predicate, t.Object, nil} }
	case "trig":
		cfg := trig.DecoderConfig{}
		if base != "" {
			cfg = cfg.SetDefaultBase(base)
		}
		dd, err := trig.NewDecoder(rd, cfg)
		if err != nil {
			res.verdict = "new:" + errClass(err)
			return
		}
		d = dd
		cur = func() stmt {
			q := dd.Quad()
			return stmt{q.Triple.Subject, q.Triple.Predicate, q.Triple.Object, q.GraphName}
		}
	case "nt":
		dd, _ := ntriples.NewDecoder(rd)
		d = dd
		cur = func() stmt { t := dd.Triple(); return stmt{t.Subject, t.Predicate, t.Object, nil} }
	case "nq":
		dd, _ := nquads.NewDecoder(rd)
		d = dd
		cur = func() stmt {
			q := dd.Quad()
			return stmt{q.Triple.Subject, q.Triple.Predicate, q.Triple.Object, q.GraphName}
		}
	}
	for d.Next() {
		st := cur()
		res.raw = append(res.raw, st)
		res.stmts = append(res.stmts, termWire(st.s, label)+","+termWire(st.p, label)+","+termWire(st.o, label)+","+termWire(st.g, label))
	}
	err := d.Err()
	res.verdict = errClass(err)
	if err != nil {
		res.errText = err.Error()
	}
	d.Close()
	return
}

// ---------------------------------------------------------------- statements in wire form -> rdf.Quad (for the isomorphism fallback)

func unhexS(s string) (string, bool) {
	b, err := hex.DecodeString(s)
	return string(b), err == nil
}

func wireTerm(t string, bn func(string) rdf.BlankNode) (rdf.Term, bool) {
	if t == "-" {
		return nil, true
	}
	if t == "" {
		return nil, false
	}
	switch t[0] {
	case 'I':
		v, ok := unhexS(t[1:])
		return rdf.IRI(v), ok
	case 'B':
		v, ok := unhexS(t[1:])
		return bn(v), ok
	case 'L':
		f := strings.Split(t[1:], ".")
		if len(f) != 3 {
			return nil, false
		}
		lex, ok1 := unhexS(f[0])
		dt, ok2 := unhexS(f[1])
		l := rdf.Literal{LexicalForm: lex, Datatype: rdf.IRI(dt)}
		if f[2] != "-" {
			tag, ok3 := unhexS(f[2])
			if !ok3 {
				return nil, false
			}
			l.Tag = rdf.LanguageLiteralTag{Language: tag}
		}
		return l, ok1 && ok2
	}
	return nil, false
}

// quadsOfWire turns `s,p,o,g;…` into quads (fresh blank nodes per label); ok=false when a term cannot stand where it is.
func quadsOfWire(w string) (out []rdf.Quad, ok bool) {
	if w == "" {
		return nil, true
	}
	f := rdf.NewBlankNodeFactory()
	nodes := map[string]rdf.BlankNode{}
	bn := func(l string) rdf.BlankNode {
		if n, ok := nodes[l]; ok {
			return n
		}
		n := f.NewBlankNode()
		nodes[l] = n
		return n
	}
	for _, st := range strings.Split(w, ";") {
		t := strings.Split(st, ",")
		if len(t) != 4 {
			return nil, false
		}
		var terms [4]rdf.Term
		for i := range t {
			x, ok := wireTerm(t[i], bn)
			if !ok {
				return nil, false
			}
			terms[i] = x
		}
		s, ok1 := terms[0].(rdf.SubjectValue)
		p, ok2 := terms[1].(rdf.PredicateValue)
		o, ok3 := terms[2].(rdf.ObjectValue)
		if !ok1 || !ok2 || !ok3 {
			return nil, false
		}
		q := rdf.Quad{Triple: rdf.Triple{Subject: s, Predicate: p, Object: o}}
		if terms[3] != nil {
			g, ok4 := terms[3].(rdf.GraphNameValue)
			if !ok4 {
				return nil, false
			}
			q.GraphName = g
		}
		out = append(out, q)
	}
	return out, true
}

func quadsOfResult(r result) (out []rdf.Quad, ok bool) {
	for _, st := range r.raw {
		s, ok1 := st.s.(rdf.SubjectValue)
		p, ok2 := st.p.(rdf.PredicateValue)
		o, ok3 := st.o.(rdf.ObjectValue)
		if !ok1 || !ok2 || !ok3 {
			return nil, false
		}
		q := rdf.Quad{Triple: rdf.Triple{Subject: s, Predicate: p, Object: o}}
		if st.g != nil {
			g, ok4 := st.g.(rdf.GraphNameValue)
			if !ok4 {
				return nil, false
			}
			q.GraphName = g
		}
		out = append(out, q)
	}
	return out, true
}
