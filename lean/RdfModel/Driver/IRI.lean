/-
  Driver handler for component `iri` (property C12). All arguments and results are byte strings
  (`x<hex>` tokens); the spec and the model work on the bytes directly (every delimiter is ASCII).

    iri.parse <s>                      → recompose (split s)                      (Spec.RFC3986)
    iri.resolve <base> <ref>           → resolve base ref                         (Spec.RFC3986)
    iri.chain <base> <ref1> <ref2> …   → resolve (resolve base ref1) ref2 …, every step      (Spec.RFC3986)
    iri.sticky <ref> <earlier…>        → 0|1: chain class chain-sticky-empty-fragment
    iri.resolvePath <base> <ref>       → Model.IRI.resolvePath base ref
    iri.classes <p|r> <a> <b>          → names of the known-finding classes holding on the input
    iri.reclass <scheme> <opaque> <host> <path> <rawpath> <s>
                                       → opaque,path,rawpath,isOpaque,forceFragment   (ParseIRI after url.Parse)
    iri.string <u.String()> <EscapedPath> <RawPath> <EscapedFragment> <RawFragment> <0|1>
                                       → ParsedIRI.String()
-/
import RdfModel.Driver.Wire
import RdfModel.Spec.RFC3986
import RdfModel.Model.IRI
import RdfModel.Props.C12Defs
namespace RdfModel.Driver.IRI
open RdfModel RdfModel.Wire

def b01 (b : Bool) : String := if b then "1" else "0"

def handle (op : String) (args : List String) : Option String :=
  match op, args with
  | "parse", [s] => do
    let s ← bytesTok s
    pure (tokOfBytes (Spec.RFC3986.recompose (Spec.RFC3986.split s)))
  | "resolve", [b, r] => do
    let b ← bytesTok b
    let r ← bytesTok r
    pure (tokOfBytes (Spec.RFC3986.resolve b r))
  | "chain", b :: rs => do
    -- iterated resolution: resolve (resolve b r1) r2 …; one result per step
    let b ← bytesTok b
    let rs ← rs.mapM bytesTok
    let steps := (rs.foldl (fun (acc : List (List Nat) × List Nat) r =>
      let t := Spec.RFC3986.resolve acc.2 r; (t :: acc.1, t)) ([], b)).1.reverse
    pure (String.intercalate "," (steps.map tokOfBytes))
  | "sticky", r :: earlier => do
    let r ← bytesTok r
    let earlier ← earlier.mapM bytesTok
    pure (b01 (C12.chainStickyEmptyFragment earlier r))
  | "resolvePath", [b, r] => do
    let b ← bytesTok b
    let r ← bytesTok r
    pure (tokOfBytes (RdfModel.IRI.resolvePath b r))
  | "classes", [k, a, b] => do
    let a ← bytesTok a
    let b ← bytesTok b
    let cs := C12.classes (k = "p") a b
    pure (if cs.isEmpty then "-" else String.intercalate "," cs)
  | "reclass", [scheme, opaq, host, path, rawPath, s] => do
    let u : RdfModel.IRI.URL := ⟨← bytesTok scheme, ← bytesTok opaq, ← bytesTok host, ← bytesTok path, ← bytesTok rawPath⟩
    let s ← bytesTok s
    let (u', isOpaque) := RdfModel.IRI.reclassify u
    pure (String.intercalate "," [tokOfBytes u'.opaq, tokOfBytes u'.path, tokOfBytes u'.rawPath,
      b01 isOpaque, b01 (RdfModel.IRI.forceFragment s)])
  | "string", [s, ep, rp, ef, rf, force] => do
    pure (tokOfBytes (RdfModel.IRI.stringFix (← bytesTok s) (← bytesTok ep) (← bytesTok rp) (← bytesTok ef)
      (← bytesTok rf) (force = "1")))
  | _, _ => none

end RdfModel.Driver.IRI
