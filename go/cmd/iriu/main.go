// Command iriu (part IRIU, serves C01 / C12 / C13): ties the UNIFIED IRI models to the code.
//
//	iriu.url <s>      net/url acceptance (url.Parse + IsAbs) against four model columns:
//	                  Model.GoUrl on runes, Model.GoUrl on bytes, Model.GoUrlFull on bytes, and
//	                  IriUnify.urlOk (what the NT/NQ driver instantiates `urlOk` with)
//	iriu.rel <b> <v>  ParseBaseIRI(b).RelativizeIRI(v) against IriUnify.relativizeCode, the model of
//	                  RelativizeIRI whose resolves-back check runs Model/ParsedIRI.lean (the exact model of
//	                  the resolver the Go code calls) — on EVERY base ParseBaseIRI accepts: no 'safe
//	                  fragment' (upper-case schemes, userinfo, IP literals, non-ASCII and %-escaped hosts,
//	                  opaque and rootless bases, dot segments, empty query/fragment are all compared)
//	oracle            whatever RelativizeIRI offers for an absolute base must resolve back to exactly the
//	                  IRI with BaseIRI.Parse (the conclusion of theorem relativize_sound_code, on the code)
//
// The model column GoUrlFull may answer `unm` (PErr.unmodelled) only for inputs with a '%' after a '[';
// those are counted. Everything else must agree exactly.
package main

import (
	"errors"
	"flag"
	"fmt"
	"net/url"
	"os"
	"strings"

	"verifharness/vh"

	"github.com/dpb587/rdfkit-go/iri"
)

var (
	tier     = flag.String("tier", "quick", "quick|thorough")
	driver   = flag.String("driver", "/verif/lean/.lake/build/bin/driver", "lean driver binary")
	out      = flag.String("out", "/verif/evidence/.iriu.report.json", "report path")
	findings = flag.String("findings", "/verif/known-findings.json", "known findings")
	replay   = flag.String("replay", "", "replay file (one protocol line per line)")
	scale    = flag.Int("scale", 1, "multiply generated case counts (search mode uses 10)")
	nomodel  = flag.Bool("nomodel", false, "property oracle on the implementation only")
	hints    = flag.String("hints", "", "file of protocol lines that disagreed; replayed through the oracle first")
)

type item struct {
	line string
	goR  string
	kind string
	unm  bool // the GoUrlFull column may be `unm`
}

type harness struct {
	r     *vh.Rng
	rep   *vh.Report
	items []item
	seen  map[string]struct{}
	known map[string]vh.Finding
}

// specialNoAuthority: predicate of the (proposed) known finding "relativize-panic-special-scheme-no-authority":
// the printed base is http:/…, https:/… or file:/… with an absolute path and no authority. Such a base
// resolves "/" and "./" to "scheme:///…", two bytes longer than its own spelling, and the unrepaired
// relativizeIRI slices with those lengths.
func specialNoAuthority(printed string) bool {
	i := strings.Index(printed, ":")
	if i < 0 {
		return false
	}
	sch := printed[:i]
	return (sch == "http" || sch == "https" || sch == "file") && strings.HasPrefix(printed[i:], ":/") && !strings.HasPrefix(printed[i:], "://")
}

func (h *harness) violation(op, detail string) {
	h.rep.Add(vh.Case{Kind: "violation", Op: op, Detail: detail})
}

// ---------------------------------------------------------------- net/url acceptance

func goURL(s string) string {
	u, err := url.Parse(s)
	if err != nil {
		return "bad"
	}
	if u.IsAbs() {
		return "abs"
	}
	return "rel"
}

// bracketPct: a '%' somewhere after a '[' (superset of the inputs on which GoUrlFull declines)
func bracketPct(s string) bool {
	i := strings.IndexByte(s, '[')
	return i >= 0 && strings.IndexByte(s[i:], '%') >= 0
}

func (h *harness) urlCase(kind, s string) {
	line := "iriu.url " + vh.XS(s)
	if _, dup := h.seen[line]; dup {
		return
	}
	h.seen[line] = struct{}{}
	gb := goURL(s)
	ga := goURL(string([]rune(s))) // what a decoder hands to net/url: string(runes), U+FFFD for ill-formed bytes
	h.rep.Count("url:" + gb)
	if strings.Contains(s, "[") {
		h.rep.Count("url-ip-literal:" + gb)
		if bracketPct(s) {
			h.rep.Count("url-ip-literal-with-pct:" + gb)
		}
	}
	h.rep.Eval(line, gb != "bad")
	h.rep.Count("op:" + kind)
	h.items = append(h.items, item{line: line, goR: ga + " " + gb + " " + gb + " " + vh.B01(ga == "abs"), kind: kind, unm: bracketPct(s)})
}

const urlHot = ":/?#[]@%25 \x7f.1f"

var ip6Groups = []string{"0", "1", "ab", "ffff", "FFFF", "12345", "g", ""}
var ip6Tails = []string{"", "", "", "1.2.3.4", "255.255.255.255", "256.1.1.1", "01.2.3.4", "1.2.3", "1.2.3.4.5", "1.2.3.4:", ".1.2.3", "1..2.3"}
var ip6Zones = []string{"", "", "", "", "%25eth0", "%25", "%25%20x", "%25%41", "%25%7f", "%25\xc3\xa9", "%2", "%C3%A9", "%25a%25b", "%25a b", "%25a%C3%A9", "%", "%25a%2", "%25%2F", "%25e/f", "%31"}
var ip6Ports = []string{"", "", "", ":80", ":", ":x", ":80a", ":0123456789"}

func (h *harness) genIPLiteral() string {
	var sb strings.Builder
	n := h.r.Intn(10)
	ell := h.r.Intn(4) == 0
	for i := 0; i < n; i++ {
		if i > 0 {
			sb.WriteString(vh.Pick(h.r, []string{":", ":", ":", ":", "::", ""}))
		} else if h.r.Intn(5) == 0 {
			sb.WriteString(vh.Pick(h.r, []string{"::", ":"}))
		}
		sb.WriteString(vh.Pick(h.r, ip6Groups))
	}
	if ell {
		sb.WriteString("::")
	}
	if t := vh.Pick(h.r, ip6Tails); t != "" {
		if sb.Len() > 0 && !strings.HasSuffix(sb.String(), ":") {
			sb.WriteString(":")
		}
		sb.WriteString(t)
	}
	wellKnown := []string{"::1", "::", "1::", "2001:db8::7", "1:2:3:4:5:6:7:8", "1:2:3:4:5:6:7::", "::2:3:4:5:6:7:8", "1:2:3:4:5:6:1.2.3.4",
		"::ffff:1.2.3.4", "::1.2.3.4", "1::1.2.3.4", "1:2:3:4:5:6:7:8:9", "1:2:3:4:5:6:7", "1.2.3.4", "v1.x", "fe80::1", "1:2:3:4:5:6:7:1.2.3.4", "1:2:3:4:5::1.2.3.4", ":::", "1:::2", "::1::"}
	body := sb.String()
	if h.r.Chance(35) {
		body = vh.Pick(h.r, wellKnown)
	}
	s := vh.Pick(h.r, []string{"a", "http", "A", "x-y"}) + "://" + vh.Pick(h.r, []string{"", "", "", "u@", "u:p@", "[", "x"}) +
		"[" + body + vh.Pick(h.r, ip6Zones) + "]" + vh.Pick(h.r, ip6Ports) + vh.Pick(h.r, []string{"", "", "/p", "?q", "#f", "]", "[::1]"})
	if h.r.Chance(10) {
		s = string(h.r.Mutate([]byte(s), []byte(urlHot)))
	}
	return s
}

func (h *harness) urlCases(n int) {
	for i := 0; i < n; i++ {
		var s string
		switch h.r.Intn(5) {
		case 0, 1:
			s = h.r.AbsIRI(vh.IRIOpts{Exotic: true})
			if h.r.Chance(40) {
				s = string(h.r.Mutate([]byte(s), []byte(urlHot)))
			}
		case 2:
			s = h.genIPLiteral()
		case 3: // references: relative paths, first-segment colons, scheme-like prefixes, lone delimiters
			s = vh.Pick(h.r, []string{"", "a", "a/b", "./a:b", "a:b", ":a", "1a:b", "a1+-.:b", "//h/p", "///p", "////p", "/a", "?q", "#f", "*", "a?", "a??", "a#%", "a#%41", "%41", "%4", "a%zz", "a b", "//h:1x", "//h:", "//:1", "//@", "//u@", "//u:p:q@h", "//%41", "//%C3", "//h%25", "//h<>\"", "//h{", "//u{@h", "//u%zz@h", "//é@h", "s://", "s:", "s:?", "s:#", "S:a"})
			if h.r.Chance(50) {
				s = string(h.r.Mutate([]byte(s), []byte(urlHot)))
			}
		default:
			s = vh.Pick(h.r, []string{"http", "a", "A+b", "urn", "file", "mailto", ""}) + vh.Pick(h.r, []string{":", "://", ":/", ":///", ""}) +
				vh.Pick(h.r, []string{"", "h", "u@h", "u:p@h:8", "h:", "é.example", "%C3%A9", "%41", "a%25b", "[::1]", "h h", "a:b:1", "a@b@c", "u:p:q@h", "u@:1", "@", ":@:"}) +
				vh.Pick(h.r, []string{"", "/", "/a/b", "/a%2Fb", "/%zz", "/é", "//x", "/a:b", "a:b"}) +
				vh.Pick(h.r, []string{"", "?", "?q", "?q?r", "??"}) + vh.Pick(h.r, []string{"", "#", "#f", "#%", "#%41", "#a#b"})
		}
		h.urlCase("url", s)
	}
}

// urlExhaustive: every string up to maxLen over a delimiter alphabet (and an IP-literal alphabet inside brackets)
func (h *harness) urlExhaustive(maxLen int) {
	alpha := []byte("a:/?#[]@%2\xc3")
	var rec func(pre, post string, alpha []byte, s []byte, max int)
	rec = func(pre, post string, alpha []byte, s []byte, max int) {
		h.urlCase("url-exhaustive", pre+string(s)+post)
		if len(s) == max {
			return
		}
		for _, c := range alpha {
			rec(pre, post, alpha, append(append([]byte(nil), s...), c), max)
		}
	}
	rec("", "", alpha, nil, maxLen)
	rec("a://[", "]", []byte(":1f.%2"), nil, maxLen+1)
	rec("a://", "", []byte(":1[]@%/"), nil, maxLen)
}

// ---------------------------------------------------------------- RelativizeIRI

func errClass(err error) string {
	var ue *url.Error
	if errors.As(err, &ue) {
		err = ue.Err
	}
	var ee url.EscapeError
	if errors.As(err, &ee) {
		return "escape"
	}
	var he url.InvalidHostError
	if errors.As(err, &he) {
		return "hostchar"
	}
	m := err.Error()
	switch {
	case m == "net/url: invalid control character in URL":
		return "ctl"
	case m == "missing protocol scheme":
		return "scheme"
	case m == "first path segment in URL cannot contain colon":
		return "colon"
	case strings.HasPrefix(m, "invalid port "):
		return "port"
	case m == "missing ']' in host":
		return "bracket"
	case strings.HasPrefix(m, "invalid host: "), m == "invalid IP-literal":
		return "ip"
	case m == "net/url: invalid userinfo":
		return "userinfo"
	}
	return "other:" + m
}

// goRel: ParseBaseIRI + RelativizeIRI in the model's vocabulary, and the base (nil when rejected / panicked)
func goRel(b, v string) (res string, rb *iri.BaseIRI) {
	defer func() {
		if p := recover(); p != nil {
			if rb == nil {
				res = "base-panic"
			} else {
				res = "panic"
			}
		}
	}()
	base, err := iri.ParseBaseIRI(b)
	if err != nil {
		return "bad-base " + errClass(err), nil
	}
	rb = base
	rel, ok := rb.RelativizeIRI(v)
	if !ok {
		return "none", rb
	}
	return "some:" + vh.XS(rel), rb
}

func baseClass(b string) string {
	switch {
	case bracketPct(b):
		return "ip-literal-pct"
	case strings.Contains(b, "["):
		return "ip-literal"
	case !strings.Contains(b, ":"):
		return "relative"
	case !strings.Contains(b, "://"):
		return "no-authority"
	case strings.ToLower(b[:strings.Index(b, ":")]) != b[:strings.Index(b, ":")]:
		return "scheme-uppercase"
	case strings.Contains(b, "@"):
		return "userinfo"
	case strings.Contains(b, "%"):
		return "pct"
	case strings.IndexFunc(b, func(r rune) bool { return r >= 0x80 }) >= 0:
		return "non-ascii"
	case strings.Contains(b, "/./") || strings.Contains(b, "/../") || strings.HasSuffix(cutQF(b), "/.") || strings.HasSuffix(cutQF(b), "/.."):
		return "dot-segments"
	case strings.HasSuffix(b, "#") || strings.HasSuffix(b, "?") || strings.Contains(b, "?#"):
		return "empty-query-or-fragment"
	}
	return "plain"
}

func (h *harness) relCase(kind, b, v string) {
	line := "iriu.rel " + vh.XS(b) + " " + vh.XS(v)
	if _, dup := h.seen[line]; dup {
		return
	}
	h.seen[line] = struct{}{}
	res, rb := goRel(b, v)
	h.rep.Count("rel-outcome:" + strings.SplitN(strings.SplitN(res, ":", 2)[0], " ", 2)[0])
	h.rep.Count("rel-base:" + baseClass(b))
	h.rep.Count("op:" + kind)
	switch {
	case res == "panic" || res == "base-panic":
		if f, ok := h.known["relativize-panic-special-scheme-no-authority"]; ok && rb != nil && specialNoAuthority(rb.String()) {
			// the model follows the repaired code (patches/c13-fix-relativize-bounds.patch); nothing to compare
			h.rep.Add(vh.Case{Kind: "known", Key: f.Key, Op: line, Detail: fmt.Sprintf("RelativizeIRI panics: base %q, IRI %q", b, v)})
			h.rep.Count("rel:known-panic-special-scheme-no-authority")
			h.rep.Eval(line, v != b)
			return
		}
		h.violation(line, fmt.Sprintf("RelativizeIRI panics (%s): base %q, IRI %q", res, b, v))
	case strings.HasPrefix(res, "some:") && rb.IsAbs():
		rel, _ := vh.UnX(res[5:])
		back := "<parse error>"
		if p, err := rb.Parse(string(rel)); err == nil {
			back = p.String()
		}
		if back != v {
			h.violation(line, fmt.Sprintf("RelativizeIRI(base %q, %q) = %q, which resolves to %q", b, v, rel, back))
		}
		if strings.HasPrefix(string(rel), "//") {
			h.violation(line, fmt.Sprintf("RelativizeIRI(base %q, %q) = %q names an authority", b, v, rel))
		}
		if len(rel) < len(v) {
			h.rep.Count("rel:shortened")
		}
		h.rep.Count("rel-offered-base:" + baseClass(b))
	}
	h.rep.Eval(line, rb != nil && rb.IsAbs() && v != b)
	if bracketPct(b) || bracketPct(v) {
		// the model cannot parse these (PErr.unmodelled); the oracle above still ran
		h.rep.Count("rel:model-skipped-ip-literal-pct")
		return
	}
	h.items = append(h.items, item{line: line, goR: res, kind: kind})
}

const segChars = "abcxyz019-._~!$&'()*+,;=:@"

func (h *harness) genSegment() string {
	switch h.r.Intn(12) {
	case 0:
		return ""
	case 1:
		return vh.Pick(h.r, []string{"a:b", "c:d", ":", "a:", ":a"})
	case 2:
		return vh.Pick(h.r, []string{"%41", "a%2Fb", "%C3%A9", "%2e", "%2E%2e", "a%3Ab", "*", "%2A"})
	case 3:
		return vh.Pick(h.r, []string{"é", "日本", "a.b", "..a", "a..", ".a", "...", "[", "a]"})
	case 4:
		n := 1 + h.r.Intn(3)
		b := make([]byte, n)
		for i := range b {
			b[i] = segChars[h.r.Intn(len(segChars))]
		}
		return string(b)
	default:
		return vh.Pick(h.r, []string{"a", "b", "c", "ab", "path", "subpath", "x"})
	}
}

func (h *harness) genQF() string {
	s := ""
	if h.r.Chance(30) {
		s += "?" + vh.Pick(h.r, []string{"q", "x", "a=b&c", "q/r", "q?r", "a:b", "", "é", "%41", "q//r"})
	}
	if h.r.Chance(30) {
		s += "#" + vh.Pick(h.r, []string{"f", "g", "f/g", "f?g", "a:b", "", "é", "%41", "%C3%A9", "f//g", "!(*)"})
	}
	return s
}

// genBase: absolute and relative bases of EVERY shape ParseBaseIRI accepts (and some it rejects)
func (h *harness) genBase() string {
	var s string
	switch h.r.Intn(20) {
	case 0: // opaque / no authority
		s = vh.Pick(h.r, []string{"urn:a:b", "urn:a/b/c", "mailto:a@b.example", "x:/a/b", "x:/a/b/", "x:a", "x:", "file:/a/b", "file:///a/b", "http:/a/b", "http:a/b", "x:///a", "tag:e,2000:a/b"})
		return s + h.genQF()
	case 1: // relative bases
		return vh.Pick(h.r, []string{"subpath", "a/b", "", "a/b?q", "sub#a", "/abs/path", "?q", "#f", "//h/p", "./a", "../a", "a/./b"})
	case 2:
		s = vh.Pick(h.r, []string{"HTTP", "Ex", "a+B.c"}) + "://" + vh.Pick(h.r, []string{"e", "Example.ORG"})
	case 3:
		s = vh.Pick(h.r, []string{"http", "ex"}) + "://" + vh.Pick(h.r, []string{"u@e", "u:p@e", "u:@e", ":p@e", "@e", "u%41@e", "a%3Ab:c@e", "u@e:80", "u@"})
	case 4:
		s = vh.Pick(h.r, []string{"http", "ex"}) + "://" + vh.Pick(h.r, []string{"[::1]", "[2001:db8::7]:80", "[::1.2.3.4]", "[::FFFF:1.2.3.4]", "[1::]:", "[::1%25eth0]"})
	case 5:
		s = vh.Pick(h.r, []string{"http", "ex"}) + "://" + vh.Pick(h.r, []string{"é.example", "日本", "%C3%A9.example", "a%25b", "e%C3", "a!$&'()*+,;=b", "a<b", "A.B"})
	case 6:
		s = vh.Pick(h.r, []string{"http", "https", "ex", "file"}) + "://" + vh.Pick(h.r, []string{"", "", "e:", ":80", "e:080"})
	default:
		s = vh.Pick(h.r, []string{"http", "https", "ex", "a+b.c", "file"}) + "://" + vh.Pick(h.r, []string{"e", "example.org", "a.b", "192.0.2.1", "e:8080"})
	}
	if h.r.Chance(12) {
		return s + h.genQF()
	}
	for i, n := 0, h.r.Intn(4); i < n; i++ {
		seg := h.genSegment()
		if h.r.Chance(8) {
			seg = vh.Pick(h.r, []string{".", ".."})
		}
		s += "/" + seg
	}
	if h.r.Chance(40) {
		s += "/"
	}
	if h.r.Chance(8) {
		s += vh.Pick(h.r, []string{"/.", "/..", "/./x", "/../x"})
	}
	return s + h.genQF()
}

var relHot = []byte("/.:?#@ab%[")

func cutQF(s string) string {
	if i := strings.IndexAny(s, "?#"); i >= 0 {
		return s[:i]
	}
	return s
}

func (h *harness) mutate(s string) string {
	return string(h.r.Mutate([]byte(s), relHot))
}

// genTarget: an IRI placed relative to the base (as printed by the library, when it parses) so that every
// branch of relativizeIRI is visited
func (h *harness) genTarget(b string) string {
	if rb, err := iri.ParseBaseIRI(b); err == nil && h.r.Chance(70) {
		b = rb.String()
	}
	path := cutQF(b)
	dir := path[:strings.LastIndex(path, "/")+1]
	root := b
	if i := strings.Index(b, "://"); i >= 0 {
		rest := cutQF(b[i+3:])
		if j := strings.Index(rest, "/"); j >= 0 {
			root = b[:i+3+j+1]
		} else {
			root = b[:i+3+len(rest)] + "/"
		}
	} else if i := strings.Index(b, ":"); i >= 0 {
		root = b[:i+1] + "/"
	}
	switch h.r.Intn(17) {
	case 0:
		return b
	case 1:
		return b + vh.Pick(h.r, []string{"#f", "?q", "#", "?", "?q#f", "/", "x", "#é", "#%41"})
	case 2:
		return path + h.genQF()
	case 3:
		return dir + h.genQF()
	case 4, 5:
		return dir + h.genSegment() + h.genQF()
	case 6:
		return dir + h.genSegment() + "/" + h.genSegment() + h.genQF()
	case 7:
		return root + h.genSegment() + vh.Pick(h.r, []string{"", "/", "/" + h.genSegment()}) + h.genQF()
	case 8:
		return dir + vh.Pick(h.r, []string{"../x", "./x", "..", ".", "a/../b", "a/./b", "x/..", "/x", "//x", "./", "../"}) + h.genQF()
	case 9:
		return h.genBase()
	case 10:
		if len(b) > 0 {
			return b[:h.r.Intn(len(b)+1)]
		}
		return b
	case 11:
		return strings.Replace(b, "://", vh.Pick(h.r, []string{"s://", "://x", ":/", "://e@", ":"}), 1)
	case 12:
		if len(root) > 0 {
			return root[:len(root)-1] + h.genQF()
		}
		return h.genQF()
	case 13:
		return cutQF(b) + vh.Pick(h.r, []string{"", "?q", "?query", "?", "#f", "#", "?q#f", "?q#", "?#", "?#f"})
	default:
		return h.mutate(b)
	}
}

func (h *harness) relCases(n int) {
	for i := 0; i < n; i++ {
		b := h.genBase()
		for k := 0; k < 4; k++ {
			h.relCase("rel", b, h.genTarget(b))
		}
	}
}

// relExhaustive: bases of every class x every target over a small component alphabet
func (h *harness) relExhaustive(maxLen int) {
	var bases []string
	for _, a := range []string{"http://e", "HTTP://e", "x://u@e", "x://[::1]", "x://é", "x://e%C3%A9", "x://", "x:", "x:/", "urn:"} {
		for _, p := range []string{"", "/", "/a", "/a/", "/a/b", "/a/./b", "/a/.."} {
			if (a == "x:" || a == "x:/" || a == "urn:") && p != "" {
				p = p[1:]
			}
			for _, q := range []string{"", "?q", "?"} {
				for _, f := range []string{"", "#f", "#"} {
					bases = append(bases, a+p+q+f)
				}
			}
		}
	}
	alphabet := []byte("ab/.:")
	var paths []string
	var rec func(s []byte)
	rec = func(s []byte) {
		paths = append(paths, string(s))
		if len(s) == maxLen {
			return
		}
		for _, c := range alphabet {
			rec(append(append([]byte(nil), s...), c))
		}
	}
	rec(nil)
	for _, b := range bases {
		pre := b
		if rb, err := iri.ParseBaseIRI(b); err == nil {
			pre = rb.String()
		}
		if i := strings.Index(pre, "://"); i >= 0 {
			rest := cutQF(pre[i+3:])
			if j := strings.Index(rest, "/"); j >= 0 {
				pre = pre[:i+3+j]
			} else {
				pre = pre[:i+3+len(rest)]
			}
		} else if i := strings.Index(pre, ":"); i >= 0 {
			pre = pre[:i+1]
		}
		for _, p := range paths {
			for _, qf := range []string{"", "?q", "?", "#f", "#", "?q#f"} {
				h.relCase("rel-exhaustive", b, pre+p+qf)
			}
		}
	}
}

// ---------------------------------------------------------------- main

func main() {
	flag.Parse()
	seed := vh.SeedFromEnv()
	rep := vh.NewReport("IRIU", *tier, seed, "url: RFC 3987-generated absolute IRIs incl. exotic authorities, references, scheme/authority/path/query/fragment products, an IP-literal stream (groups, '::', embedded IPv4, RFC 6874 zones, ports), byte mutations over the delimiters; non-trivial = net/url accepts. rel: bases of every shape ParseBaseIRI accepts (plain hierarchical, upper-case scheme, userinfo, IP literal, non-ASCII / %-escaped / sub-delim host, empty host, opaque and rootless schemes, dot segments, empty query/fragment, relative) x IRIs placed at the base, its directory, siblings, children, other directories/authorities/schemes, differing only in query/fragment, with ':' in the first relative segment, '//' and dot segments, truncations and delimiter mutations; non-trivial = absolute base and IRI different from it")
	rep.Cases = []vh.Case{} // "cases": [] rather than null when nothing fails (the check script iterates over it)
	h := &harness{r: vh.NewRng(seed), rep: rep, seen: map[string]struct{}{}}
	fs, err := vh.LoadFindings(*findings)
	if err != nil {
		fmt.Fprintln(os.Stderr, "findings:", err)
		os.Exit(2)
	}
	h.known = vh.KnownKeys(fs, "C13")

	replayLines := func(path string) {
		b, err := os.ReadFile(path)
		if err != nil {
			return
		}
		for _, l := range strings.Split(strings.TrimSpace(string(b)), "\n") {
			f := strings.Fields(l)
			switch {
			case len(f) == 2 && f[0] == "iriu.url":
				s, _ := vh.UnX(f[1])
				h.urlCase("replay", string(s))
			case len(f) == 3 && f[0] == "iriu.rel":
				b, _ := vh.UnX(f[1])
				v, _ := vh.UnX(f[2])
				h.relCase("replay", string(b), string(v))
			}
		}
	}
	if *replay != "" {
		replayLines(*replay)
	} else {
		if *hints != "" {
			replayLines(*hints)
		}
		nURL, nRel := 30000**scale, 12000**scale
		if *tier == "thorough" {
			nURL, nRel = 1500000**scale, 500000**scale
			h.urlExhaustive(5)
			h.relExhaustive(4)
			rep.Exhaustive = append(rep.Exhaustive,
				"iriu.url: every string of length <= 5 over {a : / ? # [ ] @ % 2 0xC3}; every a://[x] with |x| <= 6 over {: 1 f . % 2}; every a://x with |x| <= 5 over {: 1 [ ] @ % /}",
				"iriu.rel: 630 bases (10 scheme/authority shapes incl. upper-case scheme, userinfo, IPv6, non-ASCII and %-escaped host, empty authority, opaque x 7 paths incl. dot segments x {no, non-empty, empty} query x fragment) x every path of length <= 4 over {a b / . :} x 6 query/fragment suffixes")
		} else {
			h.urlExhaustive(3)
			h.relExhaustive(2)
			rep.Exhaustive = append(rep.Exhaustive,
				"iriu.url: every string of length <= 3 over {a : / ? # [ ] @ % 2 0xC3}; every a://[x] with |x| <= 4 over {: 1 f . % 2}",
				"iriu.rel: 630 bases x every path of length <= 2 over {a b / . :} x 6 query/fragment suffixes")
		}
		h.urlCases(nURL)
		h.relCases(nRel)
	}

	if *nomodel {
		if err := rep.Write(*out); err != nil {
			fmt.Fprintln(os.Stderr, err)
			os.Exit(2)
		}
		fmt.Printf("iriu (oracle only): %d evaluations, %d failures\n", rep.Evaluations, rep.Failures())
		if rep.Failures() > 0 {
			os.Exit(1)
		}
		return
	}
	lines := make([]string, len(h.items))
	for i, it := range h.items {
		lines[i] = it.line
	}
	res, err := vh.Driver{Path: *driver}.RunParallel(lines)
	if err != nil {
		fmt.Fprintln(os.Stderr, err)
		os.Exit(2)
	}
	for i, it := range h.items {
		rep.Compared++
		if res[i] == it.goR {
			continue
		}
		if it.unm {
			// the GoUrlFull column may decline; the other three columns must still agree
			g, m := strings.Fields(it.goR), strings.Fields(res[i])
			if len(m) == 4 && m[2] == "unm" && g[0] == m[0] && g[1] == m[1] && g[3] == m[3] {
				rep.Count("url:full-model-declines(ip-literal-pct)")
				continue
			}
		}
		rep.Add(vh.Case{Kind: "disagreement", Op: it.line, Go: it.goR, Model: res[i], Detail: it.kind})
	}
	if err := rep.Write(*out); err != nil {
		fmt.Fprintln(os.Stderr, err)
		os.Exit(2)
	}
	fmt.Printf("iriu: %d evaluations, %d compared with the model, %d failures, %d known\n", rep.Evaluations, rep.Compared, rep.Failures(), len(rep.Cases)-rep.Failures())
	if rep.Failures() > 0 {
		os.Exit(1)
	}
}
