package main

// Predicates of the known-finding classes of property C20 (keys = `predicate` fields of
// /verif/known-findings.json). A violation is attributed to a class only when the class's
// decidable condition holds for the concrete (datatype, input, aspect, produced literal);
// everything else stays a violation.

import (
	"regexp"
	"strconv"
	"strings"
)

var (
	reHour1T   = regexp.MustCompile(`^([0-9]):`)
	reHour1DT  = regexp.MustCompile(`T([0-9]):`)
	reCommaFr  = regexp.MustCompile(`(:[0-9]{2}),([0-9])`)
	reSignedFr = regexp.MustCompile(`(:[0-9]{2})[.,][+-]([0-9]{8})`)
	reTZTail   = regexp.MustCompile(`([+-])([0-9]{2}):([0-9]{2})$`)
	reFracNZ   = regexp.MustCompile(`:[0-9]{2}\.[0-9]*[1-9]`)
	reYearHead = regexp.MustCompile(`^(-|[0-9]{5,})`)
	reDurNum   = regexp.MustCompile(`([0-9]*(?:\.[0-9]*)?)([YMDHS])`)
)

// timeRepair rewrites the features of the known date/time classes into their XSD spelling and
// reports which classes applied. If the repaired string is in the lexical space, the classes
// explain the whole difference.
func timeRepair(t *xtype, s string) (string, []string) {
	var ks []string
	hasClock := t.name == "time" || t.name == "dateTime" || t.name == "dateTimeStamp"
	if hasClock {
		if t.name == "time" && reHour1T.MatchString(s) {
			s = reHour1T.ReplaceAllString(s, "0$1:")
			ks = append(ks, "time-hour-one-digit")
		} else if t.name != "time" && reHour1DT.MatchString(s) {
			s = reHour1DT.ReplaceAllString(s, "T0$1:")
			ks = append(ks, "time-hour-one-digit")
		}
		if reCommaFr.MatchString(s) {
			s = reCommaFr.ReplaceAllString(s, "$1.$2")
			ks = append(ks, "time-fraction-comma")
		}
		if reSignedFr.MatchString(s) {
			s = reSignedFr.ReplaceAllString(s, "${1}.0$2")
			ks = append(ks, "time-fraction-signed")
		}
	}
	if m := reTZTail.FindStringSubmatch(s); m != nil {
		h, _ := strconv.Atoi(m[2])
		mi, _ := strconv.Atoi(m[3])
		// what time.Parse lets through (hour <= 24, minute <= 60) and what it prints for +24:60 (+25:00)
		if ((h <= 24 && mi <= 60) || (h == 25 && mi == 0)) && (h > 14 || (h == 14 && mi > 0) || mi == 60) {
			s = strings.TrimSuffix(s, m[0]) + "Z"
			ks = append(ks, "time-tz-out-of-range")
		}
	}
	return s, ks
}

// durationClasses: why a string matched by the repository's duration expression is outside the
// XSD lexical space.
func durationClasses(s string) []string {
	var ks []string
	body := strings.TrimPrefix(strings.TrimPrefix(s, "-"), "P")
	fractional, empty := false, false
	nums := reDurNum.FindAllStringSubmatch(body, -1)
	if len(nums) == 0 || strings.HasSuffix(body, "T") {
		empty = true
	}
	for _, m := range nums {
		n, letter := m[1], m[2]
		switch {
		case n == "":
			empty = true
		case strings.Contains(n, "."):
			parts := strings.SplitN(n, ".", 2)
			if letter != "S" || parts[0] == "" || parts[1] == "" {
				fractional = true
			}
		}
	}
	if fractional {
		ks = append(ks, "duration-fractional-component")
	}
	if empty {
		ks = append(ks, "duration-empty-component")
	}
	return ks
}

// classify returns the known-finding predicates that account for a violation of `aspect` on
// datatype t with input s (lex = produced literal, when there is one).
func classify(t *xtype, s, aspect, lex string) []string {
	norm := specNormalize(t, s)
	switch t.family {
	case "time":
		switch aspect {
		case "sound":
			rep, ks := timeRepair(t, norm)
			if len(ks) > 0 && specLexOK(t, rep) {
				return ks
			}
		case "complete":
			if reYearHead.MatchString(norm) && specLexOK(t, norm) {
				return []string{"time-year-outside-0000-9999"}
			}
		case "outlex":
			// e.g. +24:60 is printed as +25:00
			rep, ks := timeRepair(t, lex)
			if len(ks) > 0 && specLexOK(t, rep) {
				return ks
			}
		case "samevalue", "idempotent":
			// +24:60 is printed as +25:00, which time.Parse then refuses (hour > 24)
			if aspect == "idempotent" && reTZTail.MatchString(lex) && strings.HasSuffix(lex, "25:00") {
				return []string{"time-tz-out-of-range"}
			}
			rep, ks := timeRepair(t, norm)
			for _, k := range ks {
				// the only inputs that reach a ".000000000" layout: the literal keeps that layout's
				// nine digits and is read back through the plain layout
				if k == "time-fraction-signed" {
					return []string{k}
				}
			}
			// a non-zero fraction was read and is missing from the literal; nothing else differs
			if reFracNZ.MatchString(rep) && !strings.Contains(lex, ".") {
				noFrac := reFrac.ReplaceAllString(rep, "$1")
				if aspect == "idempotent" || !specLexOK(t, noFrac) || timeDenote(noFrac) == timeDenote(lex) {
					return []string{"time-fraction-dropped"}
				}
			}
		}
	case "duration":
		switch aspect {
		case "sound":
			if !specLexOK(t, norm) {
				return durationClasses(norm)
			}
		case "outlex":
			if lex == "P" || lex == "-P" {
				return []string{"duration-zero-prints-P"}
			}
			return durationClasses(lex)
		}
	case "str":
		if (t.name == "string" || t.name == "anyURI") && (aspect == "sound" || aspect == "outlex") && !xmlCharsOK(norm) {
			return []string{"string-non-xml-char"}
		}
	}
	return nil
}
