/-
  Property C09 — the hypothesis `IriOK` of the writer theorems, for the resolution function the driver
  uses (Spec.RFC3986.resolve): every IRI with a scheme and without dot segments in its path satisfies
  it, whatever the document base (by C12.resolve_abs_nodots).  So the graphs of the fragment include all
  graphs over such IRIs.
-/
import RdfModel.Props.C09
import RdfModel.Props.C12
namespace RdfModel.C09
open RdfModel RdfModel.RX RdfModel.Spec.RFC3986

theorem iriOK_rfc3986 (base i : RX.Str) (h : (split i).scheme.isSome) (hn : NoDotSegments (split i).path) :
    IriOK Spec.RFC3986.resolve base i :=
  C12.resolve_abs_nodots base i h hn

/-- C09 for RFC 3986 resolution, with the IRI side conditions in syntactic form -/
theorem writeAuto_denote_rfc3986 {β : Type} [DecidableEq β] (base : RX.Str) (label : β → RX.Str) (hl : LabelsOK label)
    (g : List (Desc.Triple β)) (hg : ∀ t ∈ g, TripleOK Spec.RFC3986.resolve base t) (k : Knobs) :
    ∃ out, denoteDoc Spec.RFC3986.resolve ⟨base, none⟩ (writeAuto Spec.RFC3986.resolve base label g k) = .ok out ∧
      Spec.Iso out g :=
  writeAuto_denote Spec.RFC3986.resolve base label hl g hg k

example : IriOK Spec.RFC3986.resolve (Witness.s "http://b/d/doc") (Witness.s "http://a.example/é/ü?k=v#f") :=
  iriOK_rfc3986 _ _ (by decide) (by decide)

end RdfModel.C09
