/-
  Helper lemmas for C12: facts about `resolve` — absolute dot-free references are returned unchanged,
  the result carries a scheme, empty vs absent query/fragment.
-/
import RdfModel.Proofs.C12Rds
namespace RdfModel.Proofs.C12
open RdfModel.Spec.RFC3986

theorem resolve_abs_nodots (b r : Str) (h : (split r).scheme.isSome) (hn : NoDotSegments (split r).path) :
    resolve b r = r := by
  unfold resolve resolveParts
  rw [if_pos h, rds_noDot_id hn]
  exact recompose_split r

/-! ### the scheme of a recomposed reference -/

theorem takeWhile_all_append {p : Nat → Bool} {x : Str} (hx : ∀ c ∈ x, p c = true) {c : Nat} (hc : p c = false)
    (rest : Str) : (x ++ c :: rest).takeWhile p = x ∧ (x ++ c :: rest).dropWhile p = c :: rest := by
  induction x with
  | nil => simp [hc]
  | cons a as ih =>
    have ha : p a = true := hx a (by simp)
    have has : ∀ c ∈ as, p c = true := fun c h => hx c (by simp [h])
    obtain ⟨i1, i2⟩ := ih has
    simp [ha, i1, i2]

theorem mem_takeWhile_pred {p : Nat → Bool} : ∀ (l : Str) (c : Nat), c ∈ l.takeWhile p → p c = true := by
  intro l
  induction l with
  | nil => intro c hc; simp at hc
  | cons x r ih =>
    intro c hc
    by_cases hx : p x = true
    · rw [List.takeWhile_cons_of_pos hx] at hc
      rcases List.mem_cons.mp hc with h | h
      · subst h; exact hx
      · exact ih c h
    · rw [List.takeWhile_cons_of_neg hx] at hc; simp at hc

theorem split_scheme_eq (s : Str) : (split s).scheme = (splitScheme s).1 := rfl

/-- a scheme produced by `split` is found again at the front of any string `scheme ++ ":" ++ …` -/
theorem splitScheme_of_scheme {s x : Str} (hx : (split s).scheme = some x) (rest : Str) :
    splitScheme (x ++ cColon :: rest) = (some x, rest) := by
  rw [split_scheme_eq] at hx
  rcases hs : splitScheme s with ⟨o, r1⟩
  rw [hs] at hx
  simp only at hx
  subst hx
  obtain ⟨_, hne, htw⟩ := splitScheme_some hs
  have hall : ∀ c ∈ x, notGenDelim c = true := by
    intro c hc; rw [htw] at hc; exact mem_takeWhile_pred _ _ hc
  obtain ⟨e1, e2⟩ := takeWhile_all_append hall (c := cColon) (by decide) rest
  unfold splitScheme
  rw [e2, e1]
  simp [hne]

theorem recompose_scheme (P : Parts) (x : Str) (h : P.scheme = some x) :
    ∃ rest, recompose P = x ++ cColon :: rest := by
  unfold recompose
  rw [h]
  exact ⟨authorityPart P.authority ++ P.path ++ queryPart P.query ++ fragmentPart P.fragment, by simp [schemePart]⟩

theorem resolveParts_scheme (B R : Parts) :
    (resolveParts B R).scheme = if R.scheme.isSome then R.scheme else B.scheme := by
  unfold resolveParts
  by_cases h1 : R.scheme.isSome
  · simp [h1]
  · by_cases h2 : R.authority.isSome
    · simp [h1, h2]
    · by_cases h3 : R.path = []
      · simp [h1, h2, h3]
      · by_cases h4 : R.path.head? = some cSlash
        · simp [h1, h2, h3, h4]
        · simp [h1, h2, h3, h4]

/-- the scheme of the target is the reference's when it has one, the base's otherwise -/
theorem resolve_scheme (b r : Str) (hb : (split b).scheme.isSome) :
    (split (resolve b r)).scheme = if (split r).scheme.isSome then (split r).scheme else (split b).scheme := by
  have key : ∀ (src : Str) (x : Str), (split src).scheme = some x →
      (resolveParts (split b) (split r)).scheme = some x → (split (resolve b r)).scheme = some x := by
    intro src x hsrc hres
    obtain ⟨rest, hrec⟩ := recompose_scheme _ x hres
    unfold resolve
    rw [hrec, split_scheme_eq, splitScheme_of_scheme hsrc rest]
  rw [resolveParts_scheme] at key
  by_cases hr : (split r).scheme.isSome
  · rw [if_pos hr] at key ⊢
    obtain ⟨x, hx⟩ := Option.isSome_iff_exists.mp hr
    rw [hx]; exact key r x hx hx
  · rw [if_neg hr] at key ⊢
    obtain ⟨x, hx⟩ := Option.isSome_iff_exists.mp hb
    rw [hx]; exact key b x hx hx

theorem resolve_is_absolute (b r : Str) (hb : (split b).scheme.isSome) :
    (split (resolve b r)).scheme.isSome := by
  rw [resolve_scheme b r hb]
  by_cases hr : (split r).scheme.isSome
  · rw [if_pos hr]; exact hr
  · rw [if_neg hr]; exact hb

/-! ### empty vs absent query / fragment -/

theorem resolveParts_fragment (B R : Parts) : (resolveParts B R).fragment = R.fragment := by
  unfold resolveParts
  by_cases h1 : R.scheme.isSome
  · simp [h1]
  · by_cases h2 : R.authority.isSome
    · simp [h1, h2]
    · by_cases h3 : R.path = []
      · simp [h1, h2, h3]
      · by_cases h4 : R.path.head? = some cSlash
        · simp [h1, h2, h3, h4]
        · simp [h1, h2, h3, h4]

theorem resolveParts_query (B R : Parts) (h : R.query.isSome) : (resolveParts B R).query = R.query := by
  unfold resolveParts
  by_cases h1 : R.scheme.isSome
  · simp [h1]
  · by_cases h2 : R.authority.isSome
    · simp [h1, h2]
    · by_cases h3 : R.path = []
      · simp [h1, h2, h3, h]
      · by_cases h4 : R.path.head? = some cSlash
        · simp [h1, h2, h3, h4]
        · simp [h1, h2, h3, h4]

theorem recompose_empty_fragment (P : Parts) (h : P.fragment = some []) :
    recompose P = recompose { P with fragment := none } ++ [cHash] := by
  unfold recompose; rw [h]; simp [fragmentPart]

theorem recompose_empty_query (P : Parts) (hf : P.fragment = none) (h : P.query = some []) :
    recompose P = recompose { P with query := none } ++ [cQuest] := by
  unfold recompose; rw [h, hf]; simp [fragmentPart, queryPart]

/-! ### `split` tells an empty query / fragment from an absent one -/

theorem splitAuthority_some_tw {s a r : Str} (h : splitAuthority s = (some a, r)) :
    ∀ c ∈ a, notSQH c = true := by
  unfold splitAuthority at h
  match s, h with
  | [], h => simp at h
  | [_], h => simp at h
  | x :: y :: rest, h =>
    simp only at h
    by_cases hc : x = cSlash ∧ y = cSlash
    · rw [if_pos hc] at h
      injection h with h1 _
      injection h1 with h1
      subst h1
      exact fun c hc => mem_takeWhile_pred _ _ hc
    · rw [if_neg hc] at h; simp at h

theorem splitQuery_some_tw {s q r : Str} (h : splitQuery s = (some q, r)) : ∀ c ∈ q, notH c = true := by
  unfold splitQuery at h
  match s, h with
  | [], h => simp at h
  | c :: rest, h =>
    simp only at h
    by_cases hc : c = cQuest
    · rw [if_pos hc] at h
      injection h with h1 _
      injection h1 with h1
      subst h1
      exact fun c hc => mem_takeWhile_pred _ _ hc
    · rw [if_neg hc] at h; simp at h

/-- `recompose (split s)` laid out as: a part free of `?` and `#`, the query part (free of `#`), the fragment part -/
theorem split_layout (s : Str) :
    ∃ Y : Str, (∀ c ∈ Y, notQH c = true) ∧
      (∀ q, (split s).query = some q → ∀ c ∈ q, notH c = true) ∧
      s = Y ++ queryPart (split s).query ++ fragmentPart (split s).fragment := by
  have hrec := recompose_split s
  unfold recompose at hrec
  refine ⟨schemePart (split s).scheme ++ authorityPart (split s).authority ++ (split s).path, ?_, ?_, hrec.symm⟩
  · intro c hc
    unfold split at hc
    simp only at hc
    rcases hsc : splitScheme s with ⟨sc, r1⟩
    rcases hau : splitAuthority r1 with ⟨au, r2⟩
    rw [hsc] at hc; simp only at hc
    rw [hau] at hc; simp only at hc
    rcases List.mem_append.mp hc with hc | hc
    · rcases List.mem_append.mp hc with hc | hc
      · cases sc with
        | none => simp [schemePart] at hc
        | some x =>
          obtain ⟨_, _, htw⟩ := splitScheme_some hsc
          simp only [schemePart, List.mem_append, List.mem_singleton] at hc
          rcases hc with hc | hc
          · rw [htw] at hc
            have := mem_takeWhile_pred _ _ hc
            simp [notGenDelim] at this
            simp [notQH, this]
          · subst hc; decide
      · cases au with
        | none => simp [authorityPart] at hc
        | some a =>
          have htw := splitAuthority_some_tw hau
          simp only [authorityPart, List.mem_cons] at hc
          rcases hc with hc | hc | hc
          · subst hc; decide
          · subst hc; decide
          · have := htw c hc
            simp [notSQH] at this
            simp [notQH, this]
    · exact mem_takeWhile_pred _ _ hc
  · intro q hq
    unfold split at hq
    simp only at hq
    rcases hsc : splitScheme s with ⟨sc, r1⟩
    rcases hau : splitAuthority r1 with ⟨au, r2⟩
    rcases hqq : splitQuery (r2.dropWhile notQH) with ⟨qu, r4⟩
    rw [hsc] at hq; simp only at hq
    rw [hau] at hq; simp only at hq
    rw [hqq] at hq; simp only at hq
    subst hq
    exact splitQuery_some_tw hqq

theorem split_fragment_none {s : Str} (h : cHash ∉ s) : (split s).fragment = none := by
  obtain ⟨Y, _, _, hs⟩ := split_layout s
  cases hf : (split s).fragment with
  | none => rfl
  | some f =>
    exfalso; apply h
    rw [hs, hf]; simp [fragmentPart]

theorem split_query_none {s : Str} (h : cQuest ∉ s) : (split s).query = none := by
  obtain ⟨Y, _, _, hs⟩ := split_layout s
  cases hq : (split s).query with
  | none => rfl
  | some q =>
    exfalso; apply h
    rw [hs, hq]; simp [queryPart]

theorem split_fragment_some {pre : Str} (h : cHash ∉ pre) (f : Str) :
    (split (pre ++ cHash :: f)).fragment = some f := by
  obtain ⟨Y, hY, hQ, hs⟩ := split_layout (pre ++ cHash :: f)
  have hpre : ∀ c ∈ pre, notH c = true := by
    intro c hc; simp only [notH, bne_iff_ne, ne_eq]; intro e; subst e; exact h hc
  obtain ⟨l1, l2⟩ := takeWhile_all_append hpre (c := cHash) (by decide) f
  have hX : ∀ c ∈ Y ++ queryPart (split (pre ++ cHash :: f)).query, notH c = true := by
    intro c hc
    rcases List.mem_append.mp hc with hc | hc
    · have := hY c hc; simp [notQH] at this; simp [notH, this]
    · cases hq : (split (pre ++ cHash :: f)).query with
      | none => rw [hq] at hc; simp [queryPart] at hc
      | some q =>
        rw [hq] at hc
        simp only [queryPart, List.mem_cons] at hc
        rcases hc with hc | hc
        · subst hc; decide
        · exact hQ q hq c hc
  cases hf : (split (pre ++ cHash :: f)).fragment with
  | none =>
    exfalso
    rw [hf] at hs
    simp only [fragmentPart, List.append_nil] at hs
    have : cHash ∈ Y ++ queryPart (split (pre ++ cHash :: f)).query := by rw [← hs]; simp
    have := hX _ this
    simp [notH] at this
  | some f' =>
    rw [hf] at hs
    simp only [fragmentPart] at hs
    obtain ⟨_, r2⟩ := takeWhile_all_append hX (c := cHash) (by decide) f'
    rw [← hs, l2] at r2
    injection r2 with _ r2
    rw [r2]

/-- `s#` has an empty fragment, `s` has none; `s?` has an empty query, `s` has none -/
theorem split_distinguishes_empty (s : Str) (hq : cQuest ∉ s) (hh : cHash ∉ s) :
    (split (s ++ [cHash])).fragment = some [] ∧ (split s).fragment = none ∧
    (split (s ++ [cQuest])).query = some [] ∧ (split s).query = none := by
  refine ⟨split_fragment_some hh [], split_fragment_none hh, ?_, split_query_none hq⟩
  obtain ⟨Y, hY, hQ, hs⟩ := split_layout (s ++ [cQuest])
  have hs' : ∀ c ∈ s, notQH c = true := by
    intro c hc
    simp only [notQH, Bool.and_eq_true, bne_iff_ne, ne_eq]
    exact ⟨fun e => hq (e ▸ hc), fun e => hh (e ▸ hc)⟩
  obtain ⟨l1, l2⟩ := takeWhile_all_append hs' (c := cQuest) (by decide) []
  have hfr : (split (s ++ [cQuest])).fragment = none :=
    split_fragment_none (by simp only [List.mem_append, List.mem_singleton, not_or]; exact ⟨hh, by decide⟩)
  rw [hfr] at hs
  simp only [fragmentPart, List.append_nil] at hs
  cases hqq : (split (s ++ [cQuest])).query with
  | none =>
    exfalso
    rw [hqq] at hs
    simp only [queryPart, List.append_nil] at hs
    have : cQuest ∈ Y := by rw [← hs]; simp
    have := hY _ this
    simp [notQH] at this
  | some q =>
    rw [hqq] at hs
    simp only [queryPart] at hs
    obtain ⟨_, r2⟩ := takeWhile_all_append hY (c := cQuest) (by decide) q
    rw [← hs, l2] at r2
    injection r2 with _ r2
    rw [r2]

end RdfModel.Proofs.C12
