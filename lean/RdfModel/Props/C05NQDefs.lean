/-
  Definitions used by the C05/C06/C15 N-Triples / N-Quads decoder theorems (`Props/C05NQ.lean`);
  in a file of their own so that the proofs (`Proofs/C05NQ*.lean`) can mention them.
-/
import RdfModel.Model.NQuads
namespace RdfModel.C05NQ
open RdfModel RdfModel.NQ

/-- Subject / graph-name shape: an IRI that passed the absolute-IRI check, or a blank node with a
    non-empty label (an identity). -/
def nodeShape (urlOk : List Nat → Bool) : Term (List Nat) → Prop
  | .iri v => urlOk v = true
  | .bnode l => l ≠ []
  | .lit .. => False

/-- Literal well-formedness of C06: a datatype is always present (`xsd:string`, `rdf:langString`
    or one that passed the IRI check) and a non-empty language tag exactly when the datatype is
    rdf:langString. (The model has no directional tags: the library's N-Triples/N-Quads decoders
    never produce them.) -/
def litOK (urlOk : List Nat → Bool) (dt : List Nat) (lang : Option (List Nat)) : Prop :=
  (dt = xsdString ∨ dt = rdfLangString ∨ urlOk dt = true) ∧
  (dt = rdfLangString ↔ ∃ t, lang = some t ∧ t ≠ []) ∧
  dt ≠ rdfDirLangString   -- the model has no directional tags, so a dirLangString literal could never be well-formed

def objectShape (urlOk : List Nat → Bool) : Term (List Nat) → Prop
  | .lit _ dt lang => litOK urlOk dt lang
  | t => nodeShape urlOk t

structure WFShape (urlOk : List Nat → Bool) (quads : Bool) (q : Quad (List Nat)) : Prop where
  s : nodeShape urlOk q.s
  p : ∃ v, q.p = .iri v ∧ urlOk v = true
  o : objectShape urlOk q.o
  g : ∀ g, q.g = some g → quads = true ∧ nodeShape urlOk g

end RdfModel.C05NQ
