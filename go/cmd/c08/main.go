// Command c08: document level of property C08 (every way of writing a Turtle / TriG document is
// read as the dataset the document denotes) and the C07 oracle (Turtle ⊂ TriG, N-Triples ⊂ all).
//
// The Lean driver op `ttlp.doc` prints an abstract document under given lexical / layout choices
// (Spec/TurtleAbstract.lean `print`), says what it denotes (`denote`) and what the decoder model
// does on the printed text (Model/TurtleDoc.lean `run`).  For every case the harness
//
//	T3   decodes the printed bytes with the real decoder and compares statements + verdict with the
//	     model run (`disagreement`);
//	C08  when the document is well formed and has a denotation: the real decoder must end cleanly
//	     with exactly the denoted statements, same order, same first-occurrence numbering of blank
//	     nodes (`violation` C08; the detail says whether the weaker dataset isomorphism still holds);
//	C07  a document without graph blocks gives the same triples through the TriG decoder, all in the
//	     default graph; an N-Triples document gives the same triples through all four decoders.
//
// A C08 / C07 failure inside a known-finding class (a predicate over the generated document and
// its choices, see known.go) is reported as `known`.
package main

import (
	"flag"
	"fmt"
	"os"
	"runtime"
	"sort"
	"strconv"
	"strings"
	"sync"

	"verifharness/vh"
)

var (
	tier        = flag.String("tier", "quick", "quick|thorough")
	driver      = flag.String("driver", "/verif/lean/.lake/build/bin/driver", "lean driver binary")
	out         = flag.String("out", "/verif/evidence/.c08.report.json", "report path")
	findings    = flag.String("findings", "/verif/known-findings.json", "known findings")
	replay      = flag.String("replay", "", "replay file (one `ttlp.doc …` or `nt x<hex>` line per line; JSON replays of ./check are understood)")
	scale       = flag.Int("scale", 1, "multiply generated case counts (search mode uses 10)")
	nomodel     = flag.Bool("nomodel", false, "property oracles only: the driver is still asked to print and denote, the model run is ignored")
	hints       = flag.String("hints", "", "file of protocol lines that failed; replayed first")
	assumeKnown = flag.String("assume-known", strings.Join(predicateNames, ","), "known-finding predicates treated as known even without an entry in the findings file")
	shrinkN     = flag.Int("shrink", 3, "minimise and print the first N failures")
	noExh       = flag.Bool("noexhaustive", false, "skip the bounded-exhaustive part (development)")
	workers     = flag.Int("workers", 0, "driver processes per batch (0 = min(8, NumCPU))")
)

// ---------------------------------------------------------------- cases

type kase struct {
	kind string // generator stream
	pkg  string
	base string
	d    doc
	ch   choices
	si   []slotInfo
}

func (k *kase) line() string {
	b := "-"
	if k.base != "" {
		b = vh.XS(k.base)
	}
	return "ttlp.doc " + k.pkg + " " + b + " " + k.d.wire() + " " + k.ch.wire()
}

type harness struct {
	rep     *vh.Report
	r       *vh.Rng
	active  map[string]vh.Finding // predicate -> finding (from the file, or synthetic for -assume-known)
	queue   []*kase
	cases   []vh.Case
	failing []*kase // kases behind the first failures (for shrinking)
	failSig []string
	knownC  map[string]int
	nfail   int
	fatal   int
	mutR    *vh.Rng
	muts    []mutItem
}

func isPrefixOf(a, b []string) bool {
	if len(a) > len(b) {
		return false
	}
	for i := range a {
		if a[i] != b[i] {
			return false
		}
	}
	return true
}

func splitStmts(s string) []string {
	if s == "" {
		return nil
	}
	return strings.Split(s, ";")
}

func runDriver(lines []string) ([]string, error) {
	w := *workers
	if w <= 0 {
		w = runtime.NumCPU()
		if w > 8 {
			w = 8
		}
	}
	if len(lines) < 64 {
		w = 1
	}
	total := 0
	for _, l := range lines {
		total += len(l) + 1
	}
	res := make([]string, len(lines))
	var wg sync.WaitGroup
	var mu sync.Mutex
	var firstErr error
	start, acc := 0, 0
	for i, l := range lines {
		acc += len(l) + 1
		if acc >= total/w+1 || i == len(lines)-1 {
			a, b := start, i+1
			start, acc = b, 0
			wg.Add(1)
			go func() {
				defer wg.Done()
				r, err := vh.Driver{Path: *driver}.Run(lines[a:b])
				if err != nil {
					mu.Lock()
					if firstErr == nil {
						firstErr = err
					}
					mu.Unlock()
					return
				}
				copy(res[a:b], r)
			}()
		}
	}
	wg.Wait()
	return res, firstErr
}

// verdictOf is what the oracles found for one case; used for reporting and by the shrinker.
type finding struct {
	kind   string // disagreement | violation | known
	key    string // C08 | C07 | finding key
	goR    string
	model  string
	detail string
}

func (f finding) sig() string {
	what := f.key
	if f.kind == "known" {
		what = ""
	}
	return f.kind + "/" + what + "/" + f.detail[:min(len(f.detail), 12)]
}

type evalInfo struct {
	flags      string
	text       []byte
	den        string
	nontrivial bool
	goV        string
	modelV     string
	skip       bool
	classes    []string
}

// evaluate runs the oracles on one answered case.
func (h *harness) evaluate(k *kase, resp string) (fs []finding, info evalInfo, err error) {
	parts := strings.Split(resp, "|")
	if len(parts) != 5 || len(parts[0]) != 4 {
		return nil, info, fmt.Errorf("driver answered %q to %s", resp, k.line())
	}
	flags, den, run, mv := parts[0], parts[2], parts[3], parts[4]
	text, e := vh.UnX(parts[1])
	if e != nil {
		return nil, info, fmt.Errorf("driver answered %q", resp)
	}
	info.flags, info.text, info.den, info.modelV = flags, text, den, mv
	if k.si == nil {
		k.si = slotsOf(k.d)
	}
	classes := classesOf(k.d, k.si, k.ch)
	info.classes = classes
	var activeClass *vh.Finding
	for _, c := range classes {
		if f, ok := h.active[c]; ok {
			activeClass = &f
			break
		}
	}
	// harness self-check: the Go mirror of docNoBoolPfx against the flag computed in Lean
	if (flags[3] == '0') != predPnameBoolPrefix(k.d) {
		fs = append(fs, finding{kind: "disagreement", detail: "harness mirror of C08.docNoBoolPfx differs from the flag computed by the driver"})
	}
	g := goDecode(k.pkg, k.base, text)
	info.goV = g.verdict
	quoted := strconv.Quote(string(text))
	// ---- T3
	if !*nomodel && g.wire() != run+"|"+mv {
		switch {
		case mv == "err:resolve" && isPrefixOf(splitStmts(run), g.stmts):
			info.skip = true
		case activeClass != nil:
			fs = append(fs, finding{kind: "known", key: activeClass.Key, goR: g.wire(), model: run + "|" + mv,
				detail: "T3 inside known class " + activeClass.Predicate + " (either behaviour is accepted): " + activeClass.What})
		default:
			fs = append(fs, finding{kind: "disagreement", goR: g.wire(), model: run + "|" + mv, detail: "T3 model run vs decoder on " + quoted + " (" + k.kind + ")"})
		}
	}
	// ---- C08
	if flags[0] == '1' && den != "none" {
		info.nontrivial = den != ""
		if !(g.verdict == "clean" && strings.Join(g.stmts, ";") == den) {
			iso := "does not hold either"
			if g.verdict == "clean" {
				gq, ok1 := quadsOfResult(g)
				dq, ok2 := quadsOfWire(den)
				if ok1 && ok2 && vh.Isomorphic(gq, dq) {
					iso = "still holds"
				}
			}
			detail := fmt.Sprintf("C08 ordered equality with denote fails (dataset isomorphism %s): document %s base=%q pkg=%s: decoder %s", iso, quoted, k.base, k.pkg, g.verdict)
			if g.errText != "" {
				detail += " (" + g.errText + ")"
			}
			detail += fmt.Sprintf(" with %d statements, denote has %d; flags wf,flat,chok,nobool=%s", len(g.stmts), len(splitStmts(den)), flags)
			if activeClass != nil {
				fs = append(fs, finding{kind: "known", key: activeClass.Key, goR: g.wire(), model: den, detail: "C08 inside known class " + activeClass.Predicate + ": " + activeClass.What})
			} else {
				if len(classes) > 0 {
					detail += "; in class " + strings.Join(classes, ",") + " which is neither listed nor assumed known"
				}
				fs = append(fs, finding{kind: "violation", key: "C08", goR: g.wire(), model: den, detail: detail})
			}
		}
	}
	// ---- C07: a Turtle document through the TriG decoder
	if k.pkg == "turtle" && !k.d.hasGraph() {
		q := goDecode("trig", k.base, text)
		if g.verdict == "clean" && (q.verdict != "clean" || strings.Join(q.stmts, ";") != strings.Join(g.stmts, ";")) {
			detail := fmt.Sprintf("C07 Turtle document %s base=%q: Turtle decoder accepts with %d triples, TriG decoder: %s / %d quads (%s)", quoted, k.base, len(g.stmts), q.verdict, len(q.stmts), q.errText)
			if activeClass != nil {
				fs = append(fs, finding{kind: "known", key: activeClass.Key, goR: g.wire(), model: q.wire(), detail: "C07 inside known class " + activeClass.Predicate + ": " + activeClass.What})
			} else {
				fs = append(fs, finding{kind: "violation", key: "C07", goR: g.wire(), model: q.wire(), detail: detail})
			}
		}
	}
	return fs, info, nil
}

func (h *harness) add(k *kase) {
	h.queue = append(h.queue, k)
	if len(h.queue) >= 6000 {
		h.flush()
	}
}

func (h *harness) record(op string, k *kase, fs []finding) {
	for _, f := range fs {
		switch f.kind {
		case "known":
			h.rep.Count("known:" + f.key)
			h.knownC[f.key]++
			if h.knownC[f.key] <= 12 {
				h.cases = append(h.cases, vh.Case{Kind: "known", Key: f.key, Op: op, Go: clip(f.goR), Model: clip(f.model), Detail: f.detail})
			}
		default:
			what := f.kind
			if f.key != "" {
				what += ":" + f.key
			}
			h.rep.Count(what)
			h.nfail++
			if h.nfail <= 120 {
				h.cases = append(h.cases, vh.Case{Kind: f.kind, Key: f.key, Op: op, Go: clip(f.goR), Model: clip(f.model), Detail: f.detail + "; line: " + clip(op)})
			}
			if k != nil && len(h.failing) < 40 {
				sig := f.sig()
				dup := false
				for _, s := range h.failSig {
					if s == sig {
						dup = true
					}
				}
				if !dup || len(h.failing) < 6 {
					h.failing = append(h.failing, k)
					h.failSig = append(h.failSig, sig)
				}
			}
		}
	}
}

func clip(s string) string {
	if len(s) > 1500 {
		return s[:1500] + "…"
	}
	return s
}

func (h *harness) flush() {
	if len(h.queue) == 0 {
		return
	}
	lines := make([]string, len(h.queue))
	for i, k := range h.queue {
		lines[i] = k.line()
	}
	res, err := runDriver(lines)
	if err != nil {
		fmt.Fprintln(os.Stderr, "c08:", err)
		os.Exit(2)
	}
	for i, k := range h.queue {
		fs, info, err := h.evaluate(k, res[i])
		if err != nil {
			fmt.Fprintln(os.Stderr, "c08: malformed protocol line:", err)
			h.fatal++
			if h.fatal > 3 {
				os.Exit(2)
			}
			continue
		}
		rep := h.rep
		if !*nomodel {
			rep.Compared++
		}
		rep.Eval(lines[i], info.nontrivial)
		rep.Count("stream:" + k.kind)
		rep.Count("pkg:" + k.pkg)
		rep.Count("flags(wf,flat,chok,nobool):" + info.flags)
		rep.Count("go-verdict:" + k.pkg + ":" + info.goV)
		rep.Count("model-verdict:" + info.modelV)
		if info.den == "none" {
			rep.Count("denote:none")
		} else if info.flags[0] == '1' {
			rep.Count("c08-oracle-applied")
			rep.Count("c08-oracle-applied:stream:" + k.kind)
			if info.flags == "1111" {
				rep.Count("c08-oracle-applied:inside-main-theorem(flat,chok,nobool)")
			}
		}
		if k.base != "" {
			rep.Count("default-base:present")
		} else {
			rep.Count("default-base:absent")
		}
		if info.skip {
			rep.Count("resolver-skip")
			rep.Count("resolver-skip:" + k.kind)
		}
		for _, c := range info.classes {
			rep.Count("in-class:" + c)
			if os.Getenv("C08_SHOW_CLASS") == c {
				fmt.Printf("CLASS %s %s go=%s model=%s flags=%s %q\n", c, k.pkg, info.goV, info.modelV, info.flags, info.text)
			}
		}
		if k.pkg == "turtle" && !k.d.hasGraph() {
			rep.Count("c07:turtle-vs-trig")
		}
		if k.kind == "gen" || k.kind == "replay" {
			for _, p := range productions(k.d, k.si, k.ch) {
				rep.Count("prod:" + p)
			}
			if changed, reuse, reuseNE := baseReuse(k.d, k.base != ""); changed {
				rep.Count("base-change:" + k.pkg + ":base-in-force-replaced-by-a-later-directive")
				if reuse {
					rep.Count("base-change:" + k.pkg + ":same-relative-reference-text-in-term-position-on-both-sides")
				}
				if reuseNE {
					rep.Count("base-change:" + k.pkg + ":same-non-empty-relative-reference-text-on-both-sides")
				}
			}
		}
		h.record(lines[i], k, fs)
		if k.kind == "gen" && h.mutR.Chance(40) {
			h.addMutation(k, info.text)
		}
	}
	h.queue = h.queue[:0]
	h.flushMutations()
}

// ---------------------------------------------------------------- random stream

func (h *harness) generated(n int) {
	for i := 0; i < n; i++ {
		r := h.r.Fork()
		trigDoc := r.Chance(45)
		base := ""
		if r.Chance(50) {
			base = "http://" + vh.Pick(r, hosts) + "/" + vh.Pick(r, []string{"", "d/", "d/f", "d/e/f.ttl"})
		}
		d := genDoc(r, trigDoc, base != "")
		si := slotsOf(d)
		ch := genChoices(r, si)
		h.add(&kase{kind: "gen", pkg: "trig", base: base, d: d, ch: ch, si: si})
		if !d.hasGraph() || r.Chance(10) {
			h.add(&kase{kind: "gen", pkg: "turtle", base: base, d: d, ch: ch, si: si})
		}
	}
}

// ---------------------------------------------------------------- replay

func (h *harness) replayFile(path string, kind string) {
	b, err := os.ReadFile(path)
	if err != nil {
		fmt.Fprintln(os.Stderr, err)
		os.Exit(2)
	}
	for _, l := range strings.Split(string(b), "\n") {
		// a protocol line stands alone, or is the value of an "op" field of a JSON replay written by ./check
		l = strings.TrimSpace(l)
		if i := strings.Index(l, "\"op\": \""); i >= 0 {
			l = l[i+7:]
		} else if strings.HasPrefix(l, "\"") || strings.HasPrefix(l, "{") {
			continue
		}
		if !strings.HasPrefix(l, "ttlp.doc ") && !strings.HasPrefix(l, "ttld.dec ") && !strings.HasPrefix(l, "nt x") {
			continue
		}
		if i := strings.Index(l, "ttlp.doc "); i >= 0 {
			f := strings.Fields(strings.TrimRight(strings.TrimSpace(l[i:]), "\","))
			if len(f) != 5 {
				fmt.Fprintln(os.Stderr, "c08: replay line not understood:", l)
				continue
			}
			d, err := parseDoc(f[3])
			if err != nil {
				fmt.Fprintln(os.Stderr, "c08: replay document:", err)
				continue
			}
			ch, err := parseChoices(f[4])
			if err != nil {
				fmt.Fprintln(os.Stderr, "c08: replay choices:", err)
				continue
			}
			base := ""
			if f[2] != "-" {
				bb, _ := vh.UnX(f[2])
				base = string(bb)
			}
			h.add(&kase{kind: kind, pkg: f[1], base: base, d: d, ch: ch})
			continue
		}
		if i := strings.Index(l, "ttld.dec "); i >= 0 {
			f := strings.Fields(strings.TrimRight(strings.TrimSpace(l[i:]), "\","))
			if len(f) == 5 && (f[1] == "turtle" || f[1] == "trig") {
				raw, _ := vh.UnX(f[4])
				base := ""
				if f[3] != "-" {
					bb, _ := vh.UnX(f[3])
					base = string(bb)
				}
				h.muts = append(h.muts, mutItem{pkg: f[1], base: base, text: raw, from: kind})
			}
			continue
		}
		if i := strings.Index(l, "nt x"); i >= 0 {
			tok := strings.TrimRight(strings.Fields(l[i+3:])[0], "\",")
			if raw, err := vh.UnX(tok); err == nil {
				h.c07nt(kind, raw)
			}
		}
	}
	h.flush()
	h.flushMutations()
}

// ---------------------------------------------------------------- main

func main() {
	flag.Parse()
	seed := vh.SeedFromEnv()
	assumed := map[string]bool{}
	for _, p := range strings.Split(*assumeKnown, ",") {
		if p = strings.TrimSpace(p); p != "" {
			assumed[p] = true
		}
	}
	rule := "abstract Turtle/TriG documents (every production: four directives with keyword case bits, changing bases with relative references inside the resolver's safe fragment drawn from a small per-document pool so that the same reference text recurs on both sides of a base change, empty-query references '?' / '?#f', prefixed names with PN_LOCAL_ESC / PERCENT / inner and trailing dots, keyword-like prefix labels, four string styles with every ECHAR / UCHAR choice, language tags, datatypes, INTEGER / DECIMAL / DOUBLE shapes, booleans, 'a', ';' repetitions and trailing ';', ',' lists, [] () nested to depth 3 also as subjects, GRAPH g {} / g {} / {} with iri / bnode / anon labels and optional final '.', shared blank node labels) printed by the Lean printer under random lexical and layout choices (none / SP / TAB / LF / CR / CRLF / comments), both packages, default base present / absent; a bounded family of base-change histories (same reference text before and after a second @base / BASE, both tiers); a bounded-exhaustive family (thorough tier); an N-Triples stream through all four decoders. Non-trivial = the document is well formed (docWf), has a denotation and denotes at least one statement (the C08 oracle is applied and compares a non-empty statement list)"
	rep := vh.NewReport("C08", *tier, seed, rule)
	startWatchdog(rep)
	fsAll, err := vh.LoadFindings(*findings)
	if err != nil {
		fmt.Fprintln(os.Stderr, "findings:", err)
		os.Exit(2)
	}
	active := map[string]vh.Finding{}
	for _, p := range []string{"C07", "C08"} {
		for k, v := range vh.KnownKeys(fsAll, p) {
			active[k] = v
		}
	}
	// a class whose finding is listed as fixed is no longer assumed (unless -assume-known was given explicitly)
	explicit := false
	flag.Visit(func(f *flag.Flag) {
		if f.Name == "assume-known" {
			explicit = true
		}
	})
	if !explicit {
		fixedKey := map[string]string{"D42": "bnpl-subject-semicolon", "D44": "comment-cr"}
		for _, f := range fsAll {
			if f.Status != "fixed" || (f.Property != "C08" && f.Property != "C07") {
				continue
			}
			for _, p := range []string{f.Predicate, fixedKey[f.Key]} {
				if assumed[p] {
					delete(assumed, p)
					rep.Count("class-listed-as-fixed-not-assumed:" + p)
					fmt.Println("c08: NOTE", p, "is listed as fixed ("+f.Key+"): failures inside the class are reported")
				}
			}
		}
	}
	var notes []string
	for _, p := range vh.SortedKeys(assumed) {
		if _, ok := active[p]; !ok {
			active[p] = vh.Finding{Property: "C08", Key: p, Status: "known", Predicate: p, What: "assumed known through -assume-known (no entry with this predicate in the findings file yet)"}
			notes = append(notes, p)
			rep.Count("assumed-known-without-entry:" + p)
		}
	}
	if len(notes) > 0 {
		rep.Rule += ". NOTE: predicates treated as known through -assume-known without an entry in the findings file: " + strings.Join(notes, ", ")
		fmt.Println("c08: NOTE assumed known without an entry in", *findings+":", strings.Join(notes, ", "))
	}
	h := &harness{rep: rep, r: vh.NewRng(seed), active: active, knownC: map[string]int{}, mutR: vh.NewRng(seed ^ 0x6d757461)}

	// is the driver there?  (it prints and denotes; without it only the N-Triples stream can run)
	driverOK := true
	if res, err := (vh.Driver{Path: *driver}).Run([]string{"ttlp.doc turtle - - -"}); err != nil || len(res) != 1 || len(strings.Split(res[0], "|")) != 5 {
		driverOK = false
		fmt.Fprintln(os.Stderr, "c08: driver does not answer ttlp.doc; only the N-Triples stream is run:", err, res)
		rep.Count("driver-unavailable")
	}

	if *replay != "" {
		h.replayFile(*replay, "replay")
	} else {
		if *hints != "" {
			h.replayFile(*hints, "hint")
		}
		n := 90000 * *scale
		if *tier == "thorough" {
			n = 1000000 * *scale
		}
		if n > 3000000 {
			n = 3000000 // search mode (-scale 10) stays within the time budget of ./check
		}
		if driverOK {
			if err := h.selfTest(300); err != nil {
				fmt.Fprintln(os.Stderr, "c08: slot numbering self-test failed:", err)
				os.Exit(2)
			}
			h.boundaries()
			h.baseChanges()
			h.generated(n)
			h.flush()
			if !*noExh {
				h.exhaustive(*tier == "thorough")
				h.flush()
			}
		}
		h.ntDocs(n / 4)
	}

	// minimise the first failures
	if driverOK && *shrinkN > 0 {
		done := map[string]bool{}
		for i, k := range h.failing {
			if len(done) >= *shrinkN {
				break
			}
			if done[h.failSig[i]] {
				continue
			}
			done[h.failSig[i]] = true
			h.shrinkAndPrint(k, h.failSig[i])
		}
	}

	sort.SliceStable(h.cases, func(i, j int) bool { return rank(h.cases[i].Kind) < rank(h.cases[j].Kind) })
	for _, c := range h.cases {
		rep.Add(c)
	}
	if err := rep.Write(*out); err != nil {
		fmt.Fprintln(os.Stderr, err)
		os.Exit(2)
	}
	fmt.Printf("c08: %d evaluations (%d distinct non-trivial), %d compared with the model, %d failures (%d disagreement, %d violation C08, %d violation C07), known=%v, resolver-skips=%d, wall %.0fs\n",
		rep.Evaluations, rep.Distinct, rep.Compared, rep.Failures(), rep.Hist["disagreement"], rep.Hist["violation:C08"], rep.Hist["violation:C07"], h.knownC, rep.Hist["resolver-skip"], rep.WallS)
	if h.fatal > 0 {
		os.Exit(2)
	}
	if rep.Failures() > 0 {
		os.Exit(1)
	}
}

func rank(kind string) int {
	switch kind {
	case "violation":
		return 0
	case "disagreement":
		return 1
	}
	return 2
}
