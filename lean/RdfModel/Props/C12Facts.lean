/-
  Property C12 — T2 tie: structural facts regenerated from iri/parsed_iri.go on every run
  (lean/RdfModel/Gen/IRIFacts.lean, written by go/cmd/extract/gen_c12.go) against what the
  hand-written model `Model.IRI` hard-codes. A change of the source that alters one of these facts
  makes the corresponding theorem fail to build.
-/
import RdfModel.Gen.IRIFacts
import RdfModel.Model.IRI
namespace RdfModel.C12

/-- the guard of the reclassification block is exactly the conjunction `Model.IRI.reclassify` tests -/
theorem gen_reclassify_guard :
    Gen.IRIFacts.reclassifyGuard =
      ["u.Scheme!=\"\"", "u.Scheme!=\"http\"", "u.Scheme!=\"https\"", "u.Scheme!=\"file\"", "u.Host==\"\"", "u.Opaque==\"\""] := rfl

/-- the schemes kept hierarchical are the model's `sHttp`, `sHttps`, `sFile` -/
theorem gen_hierarchical_schemes :
    Gen.IRIFacts.hierarchicalSchemes = [IRI.sHttp, IRI.sHttps, IRI.sFile] := by decide

/-- forceFragment is `HasSuffix(s, "#")`, combined by `||` in ResolveReference -/
theorem gen_force_fragment :
    Gen.IRIFacts.forceFragmentSuffix = "#" ∧
    Gen.IRIFacts.forceFragmentCombine = "iri.forceFragment||ref.forceFragment" := ⟨rfl, rfl⟩

/-- the only literals resolvePath compares `elem` with are "." and ".." -/
theorem gen_resolvePath_literals :
    Gen.IRIFacts.resolvePathElemLiterals = [".", ".."] := rfl

end RdfModel.C12
