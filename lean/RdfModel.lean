-- Root of the `RdfModel` library: imports every module so `lake build` checks everything.
import RdfModel.Model.Rune
import RdfModel.Model.Description
import RdfModel.Spec.GraphIso
import RdfModel.Props.C17
import RdfModel.Props.C19
import RdfModel.Props.C17Facts
import RdfModel.Props.C19Facts

import RdfModel.Props.C12
import RdfModel.Model.RdfJson
import RdfModel.Props.C01RJ
