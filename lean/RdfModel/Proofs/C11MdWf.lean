/-
  Proofs/C11MdWf — every statement the Microdata decoder model emits is a well-formed triple (part C11MD, C06).
-/
import RdfModel.Proofs.C11MdBasic
namespace RdfModel.Mdd
open RdfModel RdfModel.Desc

/-- a literal as C06 wants it from this decoder: a datatype IRI, no language tag, hence neither rdf:langString nor
    rdf:dirLangString -/
def GoodLit : Term Nat → Prop
  | .lit _ dt lang => dt ≠ [] ∧ lang = none ∧ dt ≠ rdfLangString ∧ dt ≠ rdfDirLangString
  | _ => False

/-- hypothesis on the xsdobject mappers (property C20's subject): what they return is such a literal -/
def MapsWf (E : Env) : Prop := ∀ f ∈ E.timeMaps ++ E.meterMaps, ∀ v t, f v = some t → GoodLit t

def WfObj : Term Nat → Prop
  | .lit l dt lang => GoodLit (.lit l dt lang)
  | _ => True

/-- what the code guarantees about a predicate: rdf:type, or whatever the vocabulary resolver returned for a
    non-empty itemprop token (NOT necessarily an absolute IRI: the default resolver returns the token itself) -/
def PredOk (E : Env) (p : Bytes) : Prop := p = rdfType ∨ ∃ types tok, tok ≠ [] ∧ E.vocab types tok = some p

def WfStmt (E : Env) (t : Stmt) : Prop :=
  ((∃ v, t.s = .iri v) ∨ (∃ k, t.s = .bnode k)) ∧ PredOk E t.p ∧ WfObj t.o

def AllWf (E : Env) (st : St) : Prop := ∀ t ∈ st.out, WfStmt E t

theorem subj_term (s : Subj) : (∃ v, s.term = .iri v) ∨ (∃ k, s.term = .bnode k) := by
  cases s with
  | iri v => exact Or.inl ⟨v, rfl⟩
  | bn k => exact Or.inr ⟨k, rfl⟩

theorem subj_wfobj (s : Subj) : WfObj s.term := by
  cases s <;> simp [Subj.term, WfObj]

theorem xsdString_good (v : Bytes) : WfObj (strLit v) := by
  unfold strLit WfObj GoodLit
  refine ⟨by decide, rfl, by decide, by decide⟩

theorem emitAll_wf (E : Env) (s : Subj) (o : Term Nat) (ps : List Bytes) (st : St) (ho : WfObj o)
    (hp : ∀ p ∈ ps, PredOk E p) (h : AllWf E st) : AllWf E (emitAll s o ps st) := by
  induction ps generalizing st with
  | nil => exact h
  | cons p ps ih =>
    simp only [emitAll]
    apply ih _ (fun q hq => hp q (by simp [hq]))
    intro t ht
    simp only [emit_out, List.mem_cons] at ht
    rcases ht with rfl | ht
    · exact ⟨subj_term s, hp p (by simp), ho⟩
    · exact h t ht

theorem propNamesGo_ok (E : Env) (types : List Bytes) (toks known : List Bytes) :
    ∀ p ∈ propNamesGo E types toks known, PredOk E p := by
  induction toks generalizing known with
  | nil => intro p hp; simp [propNamesGo] at hp
  | cons tok rest ih =>
    intro p hp
    unfold propNamesGo at hp
    split at hp
    · exact ih _ p hp
    · rename_i hne
      split at hp
      · exact ih _ p hp
      · split at hp
        · exact ih _ p hp
        · rename_i q hq
          simp only [List.mem_cons] at hp
          rcases hp with rfl | hp
          · refine Or.inr ⟨types, tok, ?_, hq⟩
            intro h0; apply hne; simp [h0]
          · exact ih _ p hp

theorem propNames_ok (E : Env) (types : List Bytes) (attr : Bytes) : ∀ p ∈ propNames E types attr, PredOk E p :=
  propNamesGo_ok E types _ []

theorem firstMap_wf (v : Bytes) (fs : List (Bytes → Option (Term Nat)))
    (h : ∀ f ∈ fs, ∀ v t, f v = some t → GoodLit t) : WfObj (firstMap v fs) := by
  induction fs with
  | nil => exact xsdString_good v
  | cons f fs ih =>
    unfold firstMap
    split
    · rename_i t ht
      have := h f (by simp) v t ht
      cases t with
      | lit l d g => exact this
      | iri _ => exact this.elim
      | bnode _ => exact this.elim
    · exact ih (fun g hg => h g (by simp [hg]))

theorem iriValue_wf (E : Env) (v : Bytes) : WfObj (iriValue E v) := by
  unfold iriValue; split <;> simp [WfObj]

theorem laxOrText_wf (E : Env) (n : Node) : WfObj (laxOrText E n).1 := by
  unfold laxOrText
  repeat' split
  all_goals exact xsdString_good _

theorem itemValue_wf (E : Env) (hE : MapsWf E) (n : Node) : WfObj (itemValue E n).1 := by
  unfold itemValue
  split
  all_goals first
    | exact laxOrText_wf E n
    | (split
       all_goals first
         | exact xsdString_good _
         | exact iriValue_wf E _
         | exact laxOrText_wf E n
         | exact firstMap_wf _ _ (fun f hf => hE f (by simp [hf]))
      )

theorem linkItem_wf (E : Env) (ctx : Ctx) (a : ItemAttrs) (next : Subj) (st : St) (h : AllWf E st) :
    AllWf E (linkItem E ctx a next st) := by
  unfold linkItem
  split
  · split
    · exact h
    · exact emitAll_wf E _ _ _ st (subj_wfobj next) (propNames_ok E _ _) h
  · exact h

theorem propElem_wf (E : Env) (hE : MapsWf E) (ctx : Ctx) (n : Node) (a : ItemAttrs) (st : St) (h : AllWf E st) :
    AllWf E (propElem E ctx n a st) := by
  unfold propElem
  split
  · split
    · exact h
    · simp only
      apply emitAll_wf E _ _ _ _ (itemValue_wf E hE n) (propNames_ok E _ _)
      split <;> exact h
  · exact h

theorem emitTypes_wf (E : Env) (s : Subj) (toks : List Bytes) (st : St) (h : AllWf E st) :
    AllWf E (emitTypes E s toks st).2 := by
  induction toks generalizing st with
  | nil => exact h
  | cons tok rest ih =>
    unfold emitTypes
    split
    · exact h
    · simp only
      apply ih
      intro t ht
      simp only [emit_out, List.mem_cons] at ht
      rcases ht with rfl | ht
      · exact ⟨subj_term s, Or.inl rfl, by simp [WfObj]⟩
      · exact h t ht

def WWf (E : Env) (w : Ctx → Node → St → St) : Prop := ∀ ctx n st, AllWf E st → AllWf E (w ctx n st)

theorem kids_wf {E : Env} {w : Ctx → Node → St → St} (ih : WWf E w) (ctx : Ctx) (ks : List Node) (st : St)
    (h : AllWf E st) : AllWf E (walkKidsWith w ctx ks st) := by
  unfold walkKidsWith
  exact foldl_inv (AllWf E) _ _ _ h (fun s k _ hs => ih ctx k s hs)

theorem itemrefs_wf {E : Env} {w : Ctx → Node → St → St} (ih : WWf E w) (doc : Node) (ctx : Ctx) (n : Node)
    (refs : List Bytes) (st : St) (h : AllWf E st) : AllWf E (itemrefsWith w doc ctx n refs st) := by
  unfold itemrefsWith
  apply foldl_inv (AllWf E) _ _ _ h
  intro s ref _ hs
  unfold itemrefStep
  repeat' split
  all_goals first | exact hs | exact ih _ _ _ (fun t ht => hs t ht)

theorem expand_wf {E : Env} {w : Ctx → Node → St → St} (ih : WWf E w) (doc : Node) (ctx : Ctx) (n : Node)
    (a : ItemAttrs) (next : Subj) (st : St) (h : AllWf E st) : AllWf E (expandItem E w doc ctx n a next st) := by
  unfold expandItem
  simp only
  have h1 : AllWf E (if a.itemtype ≠ [] then emitTypes E next (typeTokens a.itemtype) st else ([], st)).2 := by
    split
    · exact emitTypes_wf E _ _ st h
    · exact h
  generalize (if a.itemtype ≠ [] then emitTypes E next (typeTokens a.itemtype) st else ([], st)) = R at h1
  apply kids_wf ih
  split
  · exact itemrefs_wf ih doc _ n _ _ h1
  · exact h1

theorem step_wf {E : Env} (hE : MapsWf E) {w : Ctx → Node → St → St} (ih : WWf E w) (doc : Node) :
    WWf E (walkStep E w doc) := by
  intro ctx n st h
  have h0 : AllWf E { st with steps := st.steps + 1 } := h
  unfold walkStep
  simp only
  generalize ({ st with steps := st.steps + 1 } : St) = st0 at h0
  split
  · exact kids_wf ih ctx _ _ h0
  · split
    · unfold visitItem
      simp only
      have hsub := itemSubject_skel E (scanAttrs n.attrs {}) (st0.lookup n.id) st0
      generalize itemSubject E (scanAttrs n.attrs {}) (st0.lookup n.id) st0 = r at hsub
      have h1 : AllWf E r.2 := by unfold AllWf; rw [hsub.2.2.2.2]; exact h0
      have h2 := linkItem_wf E ctx (scanAttrs n.attrs {}) r.1 r.2 h1
      split
      · exact h2
      · exact expand_wf ih doc ctx n _ _ _ h2
    · exact kids_wf ih ctx _ _ (propElem_wf E hE ctx n _ st0 h0)

theorem walk_wf (E : Env) (hE : MapsWf E) (doc : Node) : ∀ f, WWf E (walk E doc f) := by
  intro f
  induction f with
  | zero => intro ctx n st h; exact h
  | succ f ih =>
    intro ctx n st h
    show AllWf E (walkStep E (walk E doc f) doc ctx n st)
    exact step_wf hE ih doc ctx n st h

theorem run_wf (E : Env) (hE : MapsWf E) (doc : Node) : ∀ t ∈ (run E doc).out, WfStmt E t :=
  walk_wf E hE doc _ {} doc {} (by intro t ht; simp at ht)

end RdfModel.Mdd
