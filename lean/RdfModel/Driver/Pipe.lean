/-
  Driver handler for component `pipe` (property C18). Core-only imports.

  Token forms (besides those of Driver/Wire.lean):
    map        `-` (empty) or `hexkey:hexval,hexkey:hexval,…`
    list       `-` (empty) or `hex,hex,…`
    str        `x<hex>`
    media      `-` (no media type) or `hextype:hexsubtype`
    magic      `-` (no magic bytes) or `.` (bytes, no resolver) or `a,a,…` with `a` = `_` (no answer) | hex type
    optstr     `-` or `x<hex>`
    node terms `S<hexlabel>` string node of the decoding factory (labels travel as UTF-8 and are code-point
               lists in the model: `[]rune(label)`, one-to-one for the valid UTF-8 strings decoders produce) · `A<n>` n-th anonymous node of the decoding
               factory · `F<n>` node of the default factory (foreign to the decoder) · `I…`/`L…` as in Wire
  Ops:
    base path · ext path · filename std name · fileiri dev name
    rdec aliases media exts decoders ord t media magic fn        → possible results over all iteration orders
    odec aliases media exts decoders t media magic fn fallback   → possible results
    renc aliases exts encoders t fn · oenc aliases exts encoders t fn fallback
    gdec t media magic fn · godec t media magic fn · genc t fn · goenc t fn     (regenerated registry, pipecmd fallbacks)
    stmts src tgt quad;quad;…                                    (adapters; blank nodes are labels)
    run quads ascii h src quad;quad;…                            (h = strf | bnf | nil; whole pipe into nq/nt)
  Option plumbing (builder-c18b); params = `-` or `hex,hex,…` (the raw `--out-param` strings, UTF-8):
    encbase name base                                            → `EncoderOptions.BaseIRI` the manager sees
    nqascii params                                               → 0 | 1 | err
    ttlopt params base                                           → err | <base|->;<prefixes>;<buffered 0/1>;<resources 0/1>
    nqp quads params h src quads                                 → openerr | as `run`
    ttl params base ordered h src quads                          → ok:x<hex> | openerr | werr | panic | outside | bad-order
                                                                   (`ordered` as in Driver/TtlEnc.lean; with `resources` the two
                                                                   documents for the subject map iterated in insertion and in
                                                                   reverse order, joined by `|` when they differ)
    rj params h src quads                                        → ok:<tokens of Driver/RdfJson.lean> | openerr | werr | outside
-/
import RdfModel.Driver.Wire
import RdfModel.Model.Pipe
import RdfModel.Gen.NQTables
import RdfModel.Gen.RegistryFacts
import RdfModel.Gen.TtlTables
import RdfModel.Gen.PipeCfgFacts
import RdfModel.Driver.TtlEnc
import RdfModel.Driver.RdfJson
namespace RdfModel.Driver.Pipe
open RdfModel RdfModel.Wire RdfModel.Pipe

def splitNonEmpty (s : String) (sep : String) : List String :=
  if s = "-" then [] else s.splitOn sep

def parseList (s : String) : Option (List Str) := (splitNonEmpty s ",").mapM unhex

def parseMap (s : String) : Option (List (Str × Cti)) :=
  (splitNonEmpty s ",").mapM (fun kv =>
    match kv.splitOn ":" with
    | [k, v] => do pure ((← unhex k), (← unhex v))
    | _ => none)

def parseMedia (s : String) : Option (Option (Str × Str)) :=
  if s = "-" then some none
  else match s.splitOn ":" with
    | [a, b] => do pure (some ((← unhex a), (← unhex b)))
    | _ => none

def parseMagic (s : String) : Option (Option (List (Option Cti))) :=
  if s = "-" then some none
  else if s = "." then some (some [])
  else do
    let l ← (s.splitOn ",").mapM (fun a => if a = "_" then some none else (unhex a).map some)
    pure (some l)

def parseOptStr (s : String) : Option (Option Str) :=
  if s = "-" then some none else (bytesTok s).map some

def showOpt : Option Cti → String
  | some c => "x" ++ hexOfBytes c
  | none => "-"

/-- insertion sort + dedup on strings (canonical set rendering) -/
def insertS (x : String) : List String → List String
  | [] => [x]
  | y :: ys => if x = y then y :: ys else if x < y then x :: y :: ys else y :: insertS x ys

def showSet (l : List String) : String := String.intercalate "|" (l.foldr insertS [])

def moveToFront {α : Type} (l : List α) (i : Nat) : List α :=
  match l[i]? with
  | some x => x :: l.eraseIdx i
  | none => l

/-- every order that puts a different entry first (enough to reach every possible first match) -/
def orders {α : Type} (l : List α) : List (List α) :=
  if l.isEmpty then [l] else (List.range l.length).map (moveToFront l)

def parseKind (s : String) : Option Kind :=
  if s = "t" then some .triples else if s = "q" then some .quads else none

def parseQuadsWith {β : Type} (term : String → Option (Option (Term β))) (s : String) : Option (List (Quad β)) :=
  (splitNonEmpty s ";").mapM (fun q =>
    match q.splitOn "," with
    | [a, b, c, d] => do
      let a ← (← term a)
      let b ← (← term b)
      let c ← (← term c)
      let d ← term d
      pure ⟨a, b, c, d⟩
    | _ => none)

/-- the decoding factory is `strf 0`, whose anonymous nodes come from `bnf 0` -/
def parseNodeTerm (s : String) : Option (Option (Term BN.Node)) :=
  match s.toList with
  | 'S' :: rest => (unhexChars rest).map (fun b => some (.bnode (some (.bnString 0 (utf8Decode b)))))
  | 'A' :: rest => (String.ofList rest).toNat?.map (fun n => some (.bnode (some (.bn 0 n))))
  | 'F' :: rest => (String.ofList rest).toNat?.map (fun n => some (.bnode (some (.bnDefault n))))
  | _ => (parseTerm s).map (fun o => o.map (fun t =>
      match t with
      | .iri v => .iri v
      | .lit l d g => .lit l d g
      | .bnode _ => .iri []))

def showBytesTerm : Term BN.Bytes → String
  | .iri v => "I" ++ hexRunes v
  | .bnode b => "B" ++ hexRunes b
  | .lit l d t => "L" ++ hexRunes l ++ "." ++ hexRunes d ++ "." ++ (match t with | some x => hexRunes x | none => "-")

def showBytesQuad (q : Quad BN.Bytes) : String :=
  showBytesTerm q.s ++ "," ++ showBytesTerm q.p ++ "," ++ showBytesTerm q.o ++ "," ++
    (match q.g with | some g => showBytesTerm g | none => "-")

/-- process state with the decoder's string factory allocated (`strf 0` over `bnf 0`) -/
def s0 : BN.State := (BN.step BN.driverU (BN.init 0) .newStringFactory).1

def parseParams (s : String) : Option (List (List Nat)) :=
  (splitNonEmpty s ",").mapM (fun h => (unhex h).map utf8Decode)

def parseH (h : String) : Option (Option BN.FactoryRef) :=
  if h = "strf" then some (some (BN.FactoryRef.strf 0))
  else if h = "bnf" then some (some (BN.FactoryRef.bnf 0))
  else if h = "nil" then some none else none

def showMappings (ms : List Prefix.Mapping) : String :=
  if ms.isEmpty then "-" else String.intercalate "," (ms.map (fun m => hexRunes m.pfx ++ "=" ++ hexRunes m.expanded))

def showOut : Pipe.OutResult → String
  | .ok doc => "ok:" ++ tokOfRunes doc
  | .openErr => "openerr"
  | .writeErr => "werr"
  | .panic => "panic"
  | .outside => "outside"

/-- the labelled triples the Turtle encoder receives (to compute the subject order of the export) -/
def labelledTriples (h : Option BN.FactoryRef) (src : Kind) (qs : List (Quad BN.Node)) : List (Desc.Triple BN.Bytes) :=
  match pipeProvider BN.driverU s0 h with
  | (s1, some p) =>
    match (labelQuads BN.driverU p s1 (pipeStatements src .triples qs)).2 with
    | some lqs => (toTriples lqs).getD []
    | none => []
  | _ => []

def handleCfg (op : String) (args : List String) : Option String :=
  match op, args with
  | "encbase", [n, b] => do
    pure (tokOfRunes (encoderBase { name := ← runesTok n, base := ← runesTok b }))
  | "nqascii", [ps] => do
    match nqAscii (← parseParams ps) with
    | some b => pure (if b then "1" else "0")
    | none => pure "err"
  | "ttlopt", [ps, b] => do
    match ttlOptions Gen.PipeCfgFacts.rdfaContext (← parseParams ps) (← runesTok b) with
    | none => pure "err"
    | some (cfg, res) =>
      pure ((match cfg.base with | some b => tokOfRunes b | none => "-") ++ ";" ++ showMappings cfg.prefixes ++ ";" ++
        (if cfg.buffered = some true then "1" else "0") ++ ";" ++ (if res then "1" else "0"))
  | "nqp", [quads, ps, h, src, qs] => do
    let qs ← parseQuadsWith parseNodeTerm qs
    let quads := quads = "1"
    let T := if quads then Gen.nquads else Gen.ntriples
    match pipeNQp T quads (← parseParams ps) BN.driverU s0 (← parseH h) (← parseKind src) qs with
    | none => pure "openerr"
    | some (.ok doc) => pure ("ok:" ++ tokOfRunes doc)
    | some (.writeErr k doc) => pure ("werr:" ++ toString k ++ ":" ++ tokOfRunes doc)
    | some .outside => pure "outside"
  | "ttl", [ps, b, ordered, h, src, qs] => do
    let qs ← parseQuadsWith parseNodeTerm qs
    let ps ← parseParams ps
    let b ← runesTok b
    let h ← parseH h
    let src ← parseKind src
    let ord ← TtlEnc.parseList TtlEnc.parseMapping "," ordered
    match ttlOptions Gen.PipeCfgFacts.rdfaContext ps b with
    | none => pure "openerr"
    | some (cfg, _) =>
      let pm0 := Prefix.new Prefix.mergeSorter cfg.prefixes
      if !(TtlEnc.lenSorted ord && TtlEnc.isPermOf ord pm0.ordered) then pure "bad-order"
      else
        let subj := (Desc.build (labelledTriples h src qs)).subjects
        let run (o : List (Term BN.Bytes)) : String :=
          showOut (pipeTtlWith Gen.turtle Gen.PipeCfgFacts.rdfaContext (fun _ => ⟨ord, pm0.byPrefix⟩) ps b o o BN.driverU s0 h src qs)
        let a := run subj
        let r := run subj.reverse
        pure (if a = r then a else a ++ "|" ++ r)
  | "rj", [ps, h, src, qs] => do
    let qs ← parseQuadsWith parseNodeTerm qs
    match pipeRJ (← parseParams ps) BN.driverU s0 (← parseH h) (← parseKind src) qs with
    | .ok toks => pure ("ok:" ++ RdfJson.showToks toks)
    | .openErr => pure "openerr"
    | .writeErr => pure "werr"
    | .outside => pure "outside"
  | _, _ => none

open Gen.RegistryFacts in
def handle (op : String) (args : List String) : Option String :=
  match op, args with
  | "base", [p] => do pure (tokOfBytes (filepathBase (← bytesTok p)))
  | "ext", [p] => do pure (tokOfBytes (filepathExt (← bytesTok p)))
  | "filename", [std, n] => do pure (showOpt (fileName (← bytesTok std) (← bytesTok n)))
  | "fileiri", [dev, n] => do pure (tokOfBytes (fileIRI (← bytesTok dev) (← bytesTok n)))
  | "rdec", [al, me, ex, de, t, mt, mg, fn] => do
    let reg : Registry := { aliases := ← parseMap al, mediaTypes := ← parseMap me, fileExts := ← parseMap ex,
                            decoders := ← parseList de, encoders := [] }
    let rr : ReaderInfo := { mediaType := ← parseMedia mt, magic := ← parseMagic mg, fileName := ← parseOptStr fn }
    let t ← bytesTok t
    pure (showSet ((orders reg.fileExts).map (fun o => showOpt (resolveDecoderType reg o rr t))))
  | "odec", [al, me, ex, de, t, mt, mg, fn, fb] => do
    let reg : Registry := { aliases := ← parseMap al, mediaTypes := ← parseMap me, fileExts := ← parseMap ex,
                            decoders := ← parseList de, encoders := [] }
    let rr : ReaderInfo := { mediaType := ← parseMedia mt, magic := ← parseMagic mg, fileName := ← parseOptStr fn }
    let t ← bytesTok t
    let fb ← bytesTok fb
    pure (showSet ((orders reg.fileExts).flatMap (fun o1 => (orders reg.fileExts).map (fun o2 =>
      showOpt (openDecoderType reg o1 o2 rr t fb)))))
  | "renc", [al, ex, en, t, fn] => do
    let reg : Registry := { aliases := ← parseMap al, mediaTypes := [], fileExts := ← parseMap ex,
                            decoders := [], encoders := ← parseList en }
    pure (showOpt (resolveEncoderType reg (← parseOptStr fn) (← bytesTok t)))
  | "oenc", [al, ex, en, t, fn, fb] => do
    let reg : Registry := { aliases := ← parseMap al, mediaTypes := [], fileExts := ← parseMap ex,
                            decoders := [], encoders := ← parseList en }
    pure (showOpt (openEncoderType reg (← parseOptStr fn) (← bytesTok t) (← bytesTok fb)))
  | "gdec", [t, mt, mg, fn] => do
    let rr : ReaderInfo := { mediaType := ← parseMedia mt, magic := ← parseMagic mg, fileName := ← parseOptStr fn }
    pure (showOpt (resolveDecoderType registry registry.fileExts rr (← bytesTok t)))
  | "godec", [t, mt, mg, fn] => do
    let rr : ReaderInfo := { mediaType := ← parseMedia mt, magic := ← parseMagic mg, fileName := ← parseOptStr fn }
    pure (showOpt (openDecoderType registry registry.fileExts registry.fileExts rr (← bytesTok t) pipeDecoderFallback))
  | "genc", [t, fn] => do
    pure (showOpt (resolveEncoderType registry (← parseOptStr fn) (← bytesTok t)))
  | "goenc", [t, fn] => do
    pure (showOpt (openEncoderType registry (← parseOptStr fn) (← bytesTok t) pipeEncoderFallback))
  | "stmts", [src, tgt, qs] => do
    let qs ← parseQuadsWith parseTerm qs
    pure (String.intercalate ";" ((pipeStatements (← parseKind src) (← parseKind tgt) qs).map showQuad))
  | "run", [quads, ascii, h, src, qs] => do
    let qs ← parseQuadsWith parseNodeTerm qs
    let quads := quads = "1"
    let h ← (if h = "strf" then some (some (BN.FactoryRef.strf 0))
             else if h = "bnf" then some (some (BN.FactoryRef.bnf 0))
             else if h = "nil" then some none else none)
    let T := if quads then Gen.nquads else Gen.ntriples
    match pipeNQ T (ascii = "1") quads BN.driverU s0 h (← parseKind src) qs with
    | .ok doc => pure ("ok:" ++ tokOfRunes doc)
    | .writeErr k doc => pure ("werr:" ++ toString k ++ ":" ++ tokOfRunes doc)
    | .outside => pure "outside"
  | "label", [h, qs] => do
    let qs ← parseQuadsWith parseNodeTerm qs
    let h ← (if h = "strf" then some (some (BN.FactoryRef.strf 0))
             else if h = "bnf" then some (some (BN.FactoryRef.bnf 0))
             else if h = "nil" then some none else none)
    match pipeProvider BN.driverU s0 h with
    | (s1, some p) =>
      match (labelQuads BN.driverU p s1 qs).2 with
      | some out => pure (String.intercalate ";" (out.map showBytesQuad))
      | none => pure "outside"
    | (_, none) => pure "outside"
  | _, _ => handleCfg op args

end RdfModel.Driver.Pipe
