package main

// Seed corpora: every W3C test-suite archive shipped in the repository, string literals of the
// decoder packages' own tests, the round-0 panic witnesses, and a few hand-written seeds for the
// formats that have no suite in the tree (Microdata, RDF/JSON, HTML-embedded JSON-LD).

import (
	"archive/tar"
	"bytes"
	"compress/gzip"
	"go/ast"
	"go/parser"
	"go/token"
	"io"
	"os"
	"path/filepath"
	"sort"
	"strconv"
	"strings"
)

type Seed struct {
	Name string
	B    []byte
}

type Corpus struct {
	ByFormat map[string][]Seed
	Round0   []Seed // name carries the format hint of INDEX.txt
}

func repoRoot() string {
	if v := os.Getenv("VERIF_REPO"); v != "" {
		return v
	}
	return "/repo"
}

func readTarGz(path string, f func(name string, b []byte)) error {
	fh, err := os.Open(path)
	if err != nil {
		return err
	}
	defer fh.Close()
	gz, err := gzip.NewReader(fh)
	if err != nil {
		return err
	}
	tr := tar.NewReader(gz)
	for {
		h, err := tr.Next()
		if err == io.EOF {
			return nil
		}
		if err != nil {
			return err
		}
		if h.Typeflag != tar.TypeReg || strings.Contains(h.Name, "/._") {
			continue
		}
		b, err := io.ReadAll(tr)
		if err != nil {
			return err
		}
		f(strings.TrimPrefix(h.Name, "./"), b)
	}
}

const jsonldPrefix = "https://w3c.github.io/json-ld-api/tests/"

func loadCorpus() (*Corpus, error) {
	root := repoRoot()
	c := &Corpus{ByFormat: map[string][]Seed{}}
	loaderDocs = map[string][]byte{}
	add := func(format, name string, b []byte) {
		c.ByFormat[format] = append(c.ByFormat[format], Seed{Name: name, B: b})
	}
	var archives []string
	filepath.Walk(root, func(p string, info os.FileInfo, err error) error {
		if err != nil {
			return nil
		}
		if info.IsDir() && (info.Name() == ".git" || info.Name() == "node_modules") {
			return filepath.SkipDir
		}
		if !info.IsDir() && info.Name() == "testdata.tar.gz" {
			archives = append(archives, p)
		}
		return nil
	})
	sort.Strings(archives)
	for _, a := range archives {
		rel, _ := filepath.Rel(root, a)
		suite := filepath.Base(filepath.Dir(a))
		isRdfa := strings.Contains(rel, "htmlrdfa")
		isJsonld := strings.Contains(rel, "jsonld")
		err := readTarGz(a, func(name string, b []byte) {
			full := suite + "/" + name
			switch strings.ToLower(filepath.Ext(name)) {
			case ".nt":
				add("nt", full, b)
			case ".nq":
				add("nq", full, b)
			case ".ttl":
				if !isRdfa || len(c.ByFormat["ttl"])%16 == 0 { // the RDFa suite ships 1584 expected-result files
					add("ttl", full, b)
				}
			case ".trig":
				add("trig", full, b)
			case ".rdf":
				add("rdfxml", full, b)
			case ".jsonld", ".json":
				if isJsonld {
					loaderDocs[jsonldPrefix+name] = b
				}
				add("jsonld", full, b)
			case ".html", ".xhtml", ".svg", ".xml", ".htm":
				add("htmlsrc", full, b)
			}
		})
		if err != nil {
			return nil, err
		}
	}
	// string literals of the decoder packages' tests
	for _, pkg := range []string{"htmlmicrodata", "htmlrdfa", "jsonld", "rdfjson", "rdfxml", "htmljsonld", "html", "turtle", "trig", "nquads", "ntriples"} {
		files, _ := filepath.Glob(filepath.Join(root, "encoding", pkg, "*_test.go"))
		sort.Strings(files)
		for _, f := range files {
			fset := token.NewFileSet()
			af, err := parser.ParseFile(fset, f, nil, 0)
			if err != nil {
				continue
			}
			n := 0
			ast.Inspect(af, func(nd ast.Node) bool {
				bl, ok := nd.(*ast.BasicLit)
				if !ok || bl.Kind != token.STRING {
					return true
				}
				s, err := strconv.Unquote(bl.Value)
				if err != nil || len(s) < 12 {
					return true
				}
				t := strings.TrimSpace(s)
				name := pkg + "_test:" + strconv.Itoa(n)
				n++
				switch {
				case strings.HasPrefix(t, "<") && strings.Contains(t, ">") && pkg != "rdfxml" && (pkg == "htmlmicrodata" || pkg == "htmlrdfa" || pkg == "htmljsonld" || pkg == "html"):
					add("htmlsrc", name, []byte(s))
				case strings.HasPrefix(t, "<") && pkg == "rdfxml":
					add("rdfxml", name, []byte(s))
				case (strings.HasPrefix(t, "{") || strings.HasPrefix(t, "[")) && pkg == "jsonld":
					add("jsonld", name, []byte(s))
				case strings.HasPrefix(t, "{") && pkg == "rdfjson":
					add("rdfjson", name, []byte(s))
				}
				return true
			})
		}
	}
	for i, s := range builtinMicrodata {
		add("htmlsrc", "builtin-microdata:"+strconv.Itoa(i), []byte(s))
	}
	for i, s := range builtinRdfJson {
		add("rdfjson", "builtin-rdfjson:"+strconv.Itoa(i), []byte(s))
	}
	for i, s := range builtinHtmlJsonld {
		add("htmlsrc", "builtin-htmljsonld:"+strconv.Itoa(i), []byte(s))
	}
	// HTML-embedded JSON-LD seeds from the JSON-LD suite
	for i, s := range c.ByFormat["jsonld"] {
		if i%6 == 0 && len(s.B) < 4096 && !bytes.Contains(s.B, []byte("</script")) {
			doc := "<!DOCTYPE html><html><head><title>t</title><script type=\"application/ld+json\">" + string(s.B) + "</script></head><body><p>x</p></body></html>"
			add("htmlsrc", "wrapped:"+s.Name, []byte(doc))
		}
	}
	for _, f := range []string{"rdfa", "microdata", "htmljsonld", "html"} {
		c.ByFormat[f] = c.ByFormat["htmlsrc"]
	}
	// round 0 witnesses
	files, _ := filepath.Glob("/verif/corpus/C05/round0/*.bin")
	sort.Strings(files)
	for _, f := range files {
		b, err := os.ReadFile(f)
		if err == nil {
			c.Round0 = append(c.Round0, Seed{Name: filepath.Base(f), B: b})
		}
	}
	// later minimised witnesses of this harness
	files, _ = filepath.Glob("/verif/corpus/C05/c05x/*.bin")
	sort.Strings(files)
	for _, f := range files {
		b, err := os.ReadFile(f)
		if err == nil {
			c.Round0 = append(c.Round0, Seed{Name: "c05x/" + filepath.Base(f), B: b})
		}
	}
	return c, nil
}

// formatsOfWitness: from the file name "NN-<hint>.bin" to the decoders it is run through.
func formatsOfWitness(name string) []string {
	switch {
	case strings.Contains(name, "-html"):
		return []string{"html", "rdfa", "microdata", "htmljsonld"}
	case strings.Contains(name, "-jsonld"):
		return []string{"jsonld"}
	case strings.Contains(name, "-rdfxml"):
		return []string{"rdfxml"}
	case strings.Contains(name, "-trig"):
		return []string{"trig", "ttl"}
	case strings.Contains(name, "-ttl"):
		return []string{"ttl", "trig"}
	case strings.Contains(name, "-rdfjson"):
		return []string{"rdfjson"}
	case strings.Contains(name, "-nq"):
		return []string{"nq", "nt"}
	case strings.Contains(name, "-nt"):
		return []string{"nt", "nq"}
	case strings.Contains(name, "-microdata"):
		return []string{"microdata", "html"}
	case strings.Contains(name, "-rdfa"):
		return []string{"rdfa", "html"}
	}
	return allFormats
}

var builtinMicrodata = []string{
	`<!DOCTYPE html><html><body><div itemscope itemtype="http://schema.org/Person" itemid="http://e/p1"><span itemprop="name">Ann</span><a itemprop="url" href="/ann">home</a><div itemprop="address" itemscope itemtype="http://schema.org/PostalAddress"><span itemprop="streetAddress">1 Main</span></div><meta itemprop="age" content="3"><time itemprop="birthDate" datetime="2001-02-03">x</time><data itemprop="v" value="7">seven</data><meter itemprop="m" value="0.5"></meter><img itemprop="image" src="i.png"><link itemprop="sameAs" href="http://e/x"></div></body></html>`,
	`<div itemscope itemref="a b"><p itemprop="p1 p2">v</p></div><div id="a"><span itemprop="q">qa</span></div><div id="b" itemprop="nested" itemscope><span itemprop="r" id="loop" itemref="loop">rb</span></div>`,
	`<div itemscope itemtype="http://schema.org/Thing http://schema.org/Other"><span itemprop="http://abs.example/prop">x</span><span itemprop="">empty</span><object itemprop="o" data="d.bin"></object><audio itemprop="a" src="a.ogg"></audio><iframe itemprop="f" src="f.html"></iframe></div>`,
	`<html><head><base href="http://b.example/x/"></head><body><section itemscope itemid="rel"><h1 itemprop="name" content="lax">T</h1><ul><li itemprop="item" itemscope itemtype="http://schema.org/ListItem"><span itemprop="position">1</span></li><li itemprop="item" itemscope><span itemprop="position">2</span></li></ul></section></body></html>`,
	`<div itemscope id="x" itemref="x y"><div id="y" itemref="x"><span itemprop="a" itemscope itemref="y"></span></div></div>`,
}

var builtinRdfJson = []string{
	`{"http://e/s":{"http://e/p":[{"type":"uri","value":"http://e/o"},{"type":"literal","value":"v","lang":"en"},{"type":"literal","value":"1","datatype":"http://www.w3.org/2001/XMLSchema#integer"},{"type":"bnode","value":"_:b1"}]},"_:b1":{"http://e/q":[{"type":"literal","value":"plain"}]}}`,
	`{ "_:a" : { "http://e/p" : [ { "value" : "x", "type" : "literal" } ] } }`,
	`{}`,
	`{"http://e/s":{}}`,
	`{"http://e/s":{"http://e/p":[]}}`,
	`{"http://e/s":{"http://e/p":[{"type":"uri","value":"http://e/o","extra":[1,2,{"a":null}]}],"http://e/p2":[{"value":"éé🐛","type":"literal","datatype":"http://e/dt"}]}}`,
}

var builtinHtmlJsonld = []string{
	`<html><head><script type="application/ld+json">{"@context":{"n":"http://e/n"},"@id":"http://e/a","n":"x"}</script><script type="application/ld+json">[{"@id":"http://e/b","http://e/p":{"@value":"v","@language":"en"}}]</script></head><body><script type="application/ld+json"></script><script type="text/javascript">var x = 1;</script><script type="application/ld+json">{"@id": </script></body></html>`,
	`<div vocab="http://schema.org/" typeof="Person" resource="#me"><span property="name">N</span><div itemscope itemtype="http://schema.org/Person"><span itemprop="name">M</span></div><script type="application/ld+json">{"@context":"http://schema.org/","@type":"Person","name":"J"}</script></div>`,
}

// loadCorpusLoaderDocsOnly fills loaderDocs (JSON-LD documents served by the test document loader)
// without building the seed lists: what a child process needs.
func loadCorpusLoaderDocsOnly() (int, error) {
	loaderDocs = map[string][]byte{}
	root := repoRoot()
	for _, a := range []string{
		"encoding/jsonld/testsuites/w3c-github-json-ld-api-toRdf/testdata.tar.gz",
		"encoding/jsonld/internal/jsonldinternal/testsuites/w3c-github-json-ld-api-expand/testdata.tar.gz",
	} {
		err := readTarGz(filepath.Join(root, a), func(name string, b []byte) {
			if ext := strings.ToLower(filepath.Ext(name)); ext == ".jsonld" || ext == ".json" {
				loaderDocs[jsonldPrefix+name] = b
			}
		})
		if err != nil {
			return 0, err
		}
	}
	return len(loaderDocs), nil
}
